(* C16 -- tensor_merge, numerically: merging the constituents of one Kronecker chain into another at an
   admissible position tuple (single einsum with the constructed subscripts) yields the Kronecker chain of
   the rearranged factor list. *)
From Coq Require Import ZArith List Arith Lia Bool Permutation.
From FF Require Import Model.Tensor Spec.Kron Proofs.TensorIdx Proofs.TensorOrder Proofs.Tensor
  Proofs.TensorKron Proofs.TensorRegroup Proofs.TensorInsert Proofs.TensorInsertModel Proofs.TensorInsertLoop
  Proofs.TensorUnfold Proofs.TensorTranspose.
Import ListNotations.

Section Generic.
Context {T : Type} {EN : Entry T} {EL : EntryLaws T}.
Local Notation arr := (garr T).

(* ------------------------------------------------------------------ chain_spec: naturality and permutation *)
Lemma filter_combine_map {A B} (f : A -> B) q ps : forall xs,
  map snd (filter (fun it : nat * B => fst it =? q) (combine ps (map f xs))) =
  map f (map snd (filter (fun it : nat * A => fst it =? q) (combine ps xs))).
Proof.
  induction ps as [|p ps IH]; intros [|x xs]; simpl; auto.
  destruct (p =? q); simpl; rewrite IH; reflexivity.
Qed.
Lemma chain_spec_map {A B} (f : A -> B) ps xs orig : forall q,
  map f (chain_spec fst snd (combine ps xs) q orig) =
  chain_spec fst snd (combine ps (map f xs)) q (map f orig).
Proof.
  induction orig as [|o orig IH]; intros q; simpl.
  - rewrite filter_combine_map. reflexivity.
  - rewrite map_app. simpl. rewrite filter_combine_map, IH. reflexivity.
Qed.

Lemma filter_partition_perm {A} (pk : A -> nat) q its : (forall it, In it its -> q <= pk it) ->
  Permutation its (filter (fun it => pk it =? q) its ++ filter (fun it => S q <=? pk it) its).
Proof.
  induction its as [|a its IH]; intros H; [constructor|].
  assert (Ha := H a (or_introl eq_refl)).
  assert (IH' := IH (fun it Hit => H it (or_intror Hit))).
  cbn [filter].
  destruct (Nat.eqb_spec (pk a) q) as [E|E]; destruct (Nat.leb_spec (S q) (pk a)) as [E2|E2]; try lia.
  - cbn [app]. constructor. exact IH'.
  - rewrite IH' at 1. apply Permutation_middle.
Qed.
Lemma chain_spec_perm {A L} (pk : A -> nat) (lb : A -> L) orig : forall its q,
  (forall it, In it its -> q <= pk it <= q + length orig) ->
  Permutation (chain_spec pk lb its q orig) (map lb its ++ orig).
Proof.
  induction orig as [|o orig IH]; intros its q H; simpl.
  - rewrite app_nil_r. rewrite filter_all; auto.
    intros x Hx. apply Nat.eqb_eq. specialize (H x Hx). simpl in H. lia.
  - rewrite chain_spec_filter. rewrite IH.
    + symmetry.
      transitivity (map lb (filter (fun it => pk it =? q) its ++ filter (fun it => S q <=? pk it) its) ++ o :: orig).
      * apply Permutation_app_tail. apply Permutation_map.
        apply filter_partition_perm. intros it Hit. apply (H it Hit).
      * rewrite map_app, <- !app_assoc. apply Permutation_app_head.
        symmetry. apply Permutation_middle.
    + intros it Hit. apply filter_In in Hit. destruct Hit as [Hit Hle]. apply Nat.leb_le in Hle.
      specialize (H it Hit). simpl in H. lia.
Qed.

(* ------------------------------------------------------------------ lookups *)
Lemma lookup_map_inj {S} (f : S -> nat) (g : S -> nat) l : forall s,
  (forall x y, In x l -> In y l -> f x = f y -> x = y) -> In s l ->
  lookup (map f l) (map g l) (f s) = g s.
Proof.
  induction l as [|x l IH]; intros s Hinj Hin; simpl in *; [contradiction|].
  destruct (Nat.eqb_spec (f s) (f x)) as [E|E].
  - assert (s = x) by (apply Hinj; auto). subst. reflexivity.
  - destruct Hin as [->|Hin]; [congruence|]. apply IH; auto.
Qed.
Lemma lookup_seq N : forall s v k, k < N -> length v = N -> lookup (seq s N) v (s + k) = nth k v 0.
Proof.
  induction N as [|N IH]; intros s [|x v] k Hk Hl; simpl in *; try lia.
  destruct k as [|k].
  - rewrite Nat.add_0_r, Nat.eqb_refl. reflexivity.
  - destruct (Nat.eqb_spec (s + S k) s); [lia|].
    replace (s + S k) with (S s + k) by lia. apply IH; lia.
Qed.
Lemma Forall2_map_same {S A B} (R : A -> B -> Prop) (f : S -> A) (h : S -> B) l :
  Forall2 R (map f l) (map h l) -> forall x, In x l -> R (f x) (h x).
Proof.
  induction l as [|a l IH]; intros H x Hx; simpl in *; [contradiction|].
  inversion H; subst. destruct Hx as [->|Hx]; auto.
Qed.

Lemma map_nth_seq_gen {A} (d : A) (l : list A) : map (fun a => nth a l d) (seq 0 (length l)) = l.
Proof. induction l as [|x l IH]; simpl; auto. f_equal. rewrite <- seq_shift, map_map. exact IH. Qed.
Lemma map_snd_combine {A B} (l : list A) : forall (l' : list B), length l = length l' -> map snd (combine l l') = l'.
Proof. induction l as [|x l IH]; intros [|y l'] H; simpl in *; try discriminate; auto. f_equal. apply IH. lia. Qed.

Lemma seq_shift_map s n : seq s n = map (fun k => s + k) (seq 0 n).
Proof. rewrite map_add_seq. f_equal. lia. Qed.

(* ------------------------------------------------------------------ the arrangement in codes *)
Section Merge.
Variables (r m n : nat) (LA LI : list arr) (ps : list nat).
Hypothesis Hr : 1 <= r.
Hypothesis HlI : length LI = m.
Hypothesis HlA : length LA = n.
Hypothesis Hm : 1 <= m.
Hypothesis Hn : 1 <= n.
Hypothesis HwA : Forall (wf r) LA.
Hypothesis HwI : Forall (wf r) LI.
Hypothesis Hps : length ps = m.
Hypothesis Hpsb : Forall (fun p => p <= n) ps.

Let dflt : arr := mkArr [] [].
(* code c < m: constituent c of ins; code m + k: constituent k of arr *)
Definition codes : list nat := chain_spec fst snd (combine ps (seq 0 m)) 0 (seq m n).
Definition factor (c : nat) : arr := if c <? m then nth c LI dflt else nth (c - m) LA dflt.
Definition letter (a c : nat) : nat := if c <? m then a * m + c else m * r + a * n + (c - m).
Definition merged : list arr := chain_spec fst snd (combine ps LI) 0 LA.

Lemma codes_perm : Permutation codes (seq 0 (m + n)).
Proof.
  unfold codes. rewrite chain_spec_perm.
  - rewrite map_snd_combine by (rewrite seq_length; auto). rewrite <- seq_app. reflexivity.
  - intros [p c] Hin. apply in_combine_l in Hin. rewrite Forall_forall in Hpsb. specialize (Hpsb p Hin).
    rewrite seq_length. simpl. lia.
Qed.
Lemma codes_NoDup : NoDup codes.
Proof. apply (Permutation_NoDup (Permutation_sym codes_perm)). apply seq_NoDup. Qed.
Lemma codes_length : length codes = m + n.
Proof. rewrite (Permutation_length codes_perm), seq_length. reflexivity. Qed.
Lemma codes_bound c : In c codes -> c < m + n.
Proof. intros H. apply (Permutation_in _ codes_perm) in H. apply in_seq in H. lia. Qed.

Lemma merged_factor : merged = map factor codes.
Proof.
  unfold merged, codes. rewrite chain_spec_map. f_equal.
  - f_equal. rewrite <- (map_nth_seq_gen dflt LI) at 1. rewrite HlI. apply map_ext_in. intros c Hc.
    apply in_seq in Hc. unfold factor. destruct (Nat.ltb_spec c m); [reflexivity|lia].
  - rewrite <- (map_nth_seq_gen dflt LA) at 1. rewrite HlA.
    rewrite (seq_shift_map m n), map_map. apply map_ext_in. intros k Hk.
    unfold factor. destruct (Nat.ltb_spec (m + k) m); [lia|]. f_equal. lia.
Qed.
Lemma block_letters a :
  chain_spec fst snd (combine ps (seq (a * m) m)) 0 (seq (m * r + a * n) n) = map (letter a) codes.
Proof.
  unfold codes. rewrite chain_spec_map. f_equal.
  - f_equal. rewrite (seq_shift_map (a * m) m). apply map_ext_in. intros c Hc.
    apply in_seq in Hc. unfold letter. destruct (Nat.ltb_spec c m); [reflexivity|lia].
  - rewrite (seq_shift_map (m * r + a * n) n).
    rewrite (seq_shift_map m n), map_map. apply map_ext_in. intros k Hk.
    unfold letter. destruct (Nat.ltb_spec (m + k) m); [lia|]. f_equal. lia.
Qed.
Lemma letter_inj a x y : a < r -> x < m + n -> y < m + n -> letter a x = letter a y -> x = y.
Proof.
  intros Ha Hx Hy. unfold letter.
  destruct (Nat.ltb_spec x m); destruct (Nat.ltb_spec y m); intros E; try lia.
  - assert (a * m + x < m * r) by nia. lia.
  - assert (a * m + y < m * r) by nia. lia.
Qed.
Lemma factor_wf c : c < m + n -> wf r (factor c).
Proof.
  intros Hc. unfold factor. destruct (Nat.ltb_spec c m).
  - rewrite Forall_forall in HwI. apply HwI. apply nth_In. lia.
  - rewrite Forall_forall in HwA. apply HwA. apply nth_In. lia.
Qed.
Lemma merged_wf : Forall (wf r) merged.
Proof.
  rewrite merged_factor. apply Forall_forall. intros x Hx. apply in_map_iff in Hx. destruct Hx as [c [<- Hc]].
  apply factor_wf. apply codes_bound. auto.
Qed.
Lemma merged_length : length merged = m + n.
Proof. rewrite merged_factor, map_length. apply codes_length. Qed.
Lemma axis_dims_merged a : axis_dims a merged = map (fun c => nth a (shp (factor c)) 0) codes.
Proof. rewrite merged_factor. unfold axis_dims. rewrite map_map. reflexivity. Qed.

(* the output subscripts as blocks of letters of the codes *)
Definition merge_lo : list nat := flat_map (fun a => map (letter a) codes) (seq 0 r).
Lemma merge_lo_perm : Permutation merge_lo (seq 0 (m * r) ++ seq (m * r) (n * r)).
Proof.
  unfold merge_lo.
  transitivity (flat_map (fun a => seq (a * m) m ++ seq (m * r + a * n) n) (seq 0 r)).
  - apply Permutation_flat_map. intros a Ha.
    rewrite (Permutation_map (letter a) codes_perm). rewrite seq_app, map_app. apply Permutation_app.
    + rewrite (seq_shift_map (a * m) m).
      rewrite (map_ext_in (letter a) (fun c => a * m + c)); [reflexivity|].
      intros c Hc. apply in_seq in Hc. unfold letter. destruct (Nat.ltb_spec c m); [reflexivity|lia].
    + change (0 + m) with m. rewrite (seq_shift_map (m * r + a * n) n).
      rewrite (seq_shift_map m n), map_map.
      rewrite (map_ext_in (fun k => letter a (m + k)) (fun k => m * r + a * n + k)); [reflexivity|].
      intros k Hk. unfold letter. destruct (Nat.ltb_spec (m + k) m); [lia|]. f_equal. lia.
  - (* separate the two kinds of blocks *)
    replace (seq 0 (m * r)) with (flat_map (fun a => seq (a * m) m) (seq 0 r))
      by (rewrite flat_map_seq_blocks; f_equal; lia).
    replace (seq (m * r) (n * r)) with (flat_map (fun a => seq (m * r + a * n) n) (seq 0 r)).
    2:{ rewrite (flat_map_ext _ (fun a => map (fun k => m * r + k) (seq (a * n) n)))
          by (intros a; rewrite map_add_seq; reflexivity).
        rewrite <- map_flat_map, flat_map_seq_blocks, map_add_seq. f_equal; lia. }
    generalize (seq 0 r). induction l as [|a l IH]; simpl; auto.
    rewrite IH. rewrite <- !app_assoc. apply Permutation_app_head.
    rewrite !app_assoc. apply Permutation_app_tail. apply Permutation_app_comm.
Qed.
Lemma lookup_letters_dims a c : a < r -> c < m + n ->
  lookup (seq 0 (m * r) ++ seq (m * r) (n * r)) (concat (dims_table r LI) ++ concat (dims_table r LA)) (letter a c) =
  nth a (shp (factor c)) 0.
Proof.
  intros Ha Hc.
  assert (LfI : length (concat (dims_table r LI)) = m * r).
  { rewrite (concat_length_const m) by (rewrite <- HlI; apply dims_table_rows). rewrite dims_table_length. reflexivity. }
  assert (LfA : length (concat (dims_table r LA)) = n * r).
  { rewrite (concat_length_const n) by (rewrite <- HlA; apply dims_table_rows). rewrite dims_table_length. reflexivity. }
  unfold letter, factor. destruct (Nat.ltb_spec c m) as [Hlt|Hge].
  - assert (Hb : a * m + c < m * r) by nia.
    rewrite lookup_app_l by (rewrite ?seq_length; auto; apply in_seq; lia).
    rewrite (lookup_seq (m * r) 0 _ (a * m + c)) by auto.
    rewrite (nth_concat_const m) by (try (rewrite <- HlI; apply dims_table_rows); rewrite ?dims_table_length; lia).
    unfold dims_table. rewrite nth_map_seq by lia. unfold axis_dims.
    transitivity (nth c (map (fun F : arr => nth a (shp F) 0) LI) (nth a (shp (mkArr [] [] : arr)) 0));
      [apply nth_indep; rewrite map_length; lia | rewrite (map_nth (fun F : arr => nth a (shp F) 0)); reflexivity].
  - assert (Hb : a * n + (c - m) < n * r) by nia.
    rewrite lookup_app_r by (rewrite ?seq_length; auto; intros Hin; apply in_seq in Hin; lia).
    replace (m * r + a * n + (c - m)) with (m * r + (a * n + (c - m))) by lia.
    rewrite (lookup_seq (n * r) (m * r) _ (a * n + (c - m))) by auto.
    rewrite (nth_concat_const n) by (try (rewrite <- HlA; apply dims_table_rows); rewrite ?dims_table_length; lia).
    unfold dims_table. rewrite nth_map_seq by lia. unfold axis_dims.
    transitivity (nth (c - m) (map (fun F : arr => nth a (shp F) 0) LA) (nth a (shp (mkArr [] [] : arr)) 0));
      [apply nth_indep; rewrite map_length; lia | rewrite (map_nth (fun F : arr => nth a (shp F) 0)); reflexivity].
Qed.

Lemma merged_perm : Permutation merged (LI ++ LA).
Proof.
  unfold merged. rewrite chain_spec_perm.
  - rewrite map_snd_combine by lia. reflexivity.
  - intros [p c] Hin. apply in_combine_l in Hin. rewrite Forall_forall in Hpsb. specialize (Hpsb p Hin).
    simpl. lia.
Qed.

Lemma merge_lo_blocks :
  flat_map (fun a => chain_spec fst snd (combine ps (seq (a * m) m)) 0 (seq (m * r + a * n) n)) (seq 0 r) = merge_lo.
Proof. unfold merge_lo. apply flat_map_ext. intros a. apply block_letters. Qed.

Theorem merge_pipeline :
  (do outshape <- tensor_product_shape (shp (chain_u r LI)) (shp (chain_u r LA)) r;
   do ins_r <- reshape (chain_u r LI) (lead r (shp (chain_u r LI)) ++ concat (dims_table r LI));
   do arr_r <- reshape (chain_u r LA) (lead r (shp (chain_u r LA)) ++ concat (dims_table r LA));
   do x <- einsum2 (seq 0 (m * r)) (seq (m * r) (n * r)) merge_lo ins_r arr_r;
   reshape x outshape) = Ok (chain_u r merged).
Proof.
  set (I := chain_u r LI). set (A := chain_u r LA).
  assert (HI : wf r I) by (apply wf_chain_u; auto).
  assert (HA : wf r A) by (apply wf_chain_u; auto).
  destruct HI as [HI1 HI2]. destruct HA as [HA1 HA2].
  assert (HshI : shp I = map prodn (dims_table r LI)).
  { unfold I. rewrite chain_u_shape by auto. unfold dims_table. rewrite map_map. reflexivity. }
  assert (HshA : shp A = map prodn (dims_table r LA)).
  { unfold A. rewrite chain_u_shape by auto. unfold dims_table. rewrite map_map. reflexivity. }
  pose proof merged_wf as HwM. pose proof merged_length as HlM.
  assert (HM : wf r (chain_u r merged)) by (apply wf_chain_u; auto).
  assert (HshM : shp (chain_u r merged) = map prodn (dims_table r merged)).
  { rewrite chain_u_shape by auto. unfold dims_table. rewrite map_map. reflexivity. }
  rewrite tps_norank by auto. cbn [bind].
  assert (HleadI : lead r (shp I) = []) by (unfold lead; rewrite HI1, Nat.sub_diag; reflexivity).
  assert (HleadA : lead r (shp A) = []) by (unfold lead; rewrite HA1, Nat.sub_diag; reflexivity).
  rewrite HleadI, HleadA. cbn [app].
  unfold reshape at 1. rewrite prodn_concat, <- HshI, <- HI2, Nat.eqb_refl. cbn [bind].
  unfold reshape at 1. rewrite prodn_concat, <- HshA, <- HA2, Nat.eqb_refl. cbn [bind].
  set (fI := concat (dims_table r LI)). set (fA := concat (dims_table r LA)).
  assert (LfI : length fI = m * r).
  { unfold fI. rewrite (concat_length_const m) by (rewrite <- HlI; apply dims_table_rows). rewrite dims_table_length. reflexivity. }
  assert (LfA : length fA = n * r).
  { unfold fA. rewrite (concat_length_const n) by (rewrite <- HlA; apply dims_table_rows). rewrite dims_table_length. reflexivity. }
  set (li := seq 0 (m * r)). set (la := seq (m * r) (n * r)).
  assert (Hnd : NoDup (li ++ la)) by (unfold li, la; rewrite <- seq_app; apply seq_NoDup).
  pose proof merge_lo_perm as Hlop. fold li la in Hlop.
  assert (P1 : length (shp (mkArr fI (dat I))) = length li) by (cbn [shp]; unfold li; rewrite seq_length; auto).
  assert (P2 : length (shp (mkArr fA (dat A))) = length la) by (cbn [shp]; unfold la; rewrite seq_length; auto).
  assert (P4 : incl merge_lo (li ++ la)) by (intros l Hl; eapply Permutation_in; [exact Hlop|exact Hl]).
  assert (P5 : incl (li ++ la) merge_lo) by (intros l Hl; eapply Permutation_in; [symmetry; exact Hlop|exact Hl]).
  rewrite einsum2_nosum by assumption. cbn [bind shp].
  (* the fine output shape *)
  assert (Hfine : map (lookup (li ++ la) (fI ++ fA)) merge_lo = concat (dims_table r merged)).
  { unfold merge_lo, dims_table. rewrite map_flat_map, <- flat_map_concat_map.
    apply flat_map_ext_in. intros a Ha. apply in_seq in Ha.
    rewrite axis_dims_merged, map_map. apply map_ext_in. intros c Hc.
    apply lookup_letters_dims; [lia|apply codes_bound; auto]. }
  rewrite Hfine.
  assert (Hshapes : map2 Nat.mul (shp I) (shp A) = shp (chain_u r merged)).
  { rewrite HshI, HshA, HshM. unfold dims_table. rewrite !map_map.
    generalize (seq 0 r). induction l as [|a l IHl]; simpl; auto. rewrite IHl. f_equal.
    rewrite <- prodn_app. apply prodn_perm. unfold axis_dims. rewrite <- map_app. apply Permutation_map.
    symmetry. apply merged_perm. }
  unfold reshape, tabulate. cbn [dat].
  rewrite map_length, indices_length, prodn_concat, <- HshM, Hshapes, Nat.eqb_refl.
  f_equal. destruct (chain_u r merged) as [sM dM] eqn:EM. cbn [shp dat] in *. f_equal.
  assert (HdM : dM = map (aget (mkArr sM dM)) (indices sM)).
  { pose proof (tabulate_aget r (mkArr sM dM) HM) as Ht. unfold tabulate in Ht. cbn [shp] in Ht.
    injection Ht as Ht. symmetry. exact Ht. }
  rewrite HdM, HshM, <- (indices_regroup (dims_table r merged)).
  apply map_ext_in. intros fi Hfi. apply In_indices in Hfi.
  destruct (inb_concat_inv _ _ Hfi) as [W [Efi HW]]. subst fi.
  assert (HWlen : Forall2 (fun g w : list nat => length g = length w) (dims_table r merged) W).
  { clear -HW. induction HW; constructor; auto. symmetry. eapply inb_length; eauto. }
  unfold merge_idx. rewrite split_by_blocks by auto.
  rewrite <- HshM, <- EM.
  assert (HMne : merged <> []) by (intros E; rewrite E in HlM; simpl in HlM; lia).
  rewrite chain_entry_blocks by auto.
  (* the values of the codes on every axis *)
  assert (HlW : length W = r) by (apply Forall2_len in HW; rewrite dims_table_length in HW; auto).
  assert (Hrows : forall a, a < r -> inb (nth a W []) (axis_dims a merged)).
  { intros a Ha. pose proof (Forall2_nth inb W (dims_table r merged) [] [] a HW ltac:(lia)) as Hq.
    unfold dims_table in Hq. rewrite nth_map_seq in Hq by lia. exact Hq. }
  set (g := fun a c => lookup codes (nth a W []) c).
  assert (HWg : forall a, a < r -> nth a W [] = map (g a) codes).
  { intros a Ha. unfold g. symmetry. apply map_lookup_self; [apply codes_NoDup|].
    specialize (Hrows a Ha). apply inb_length in Hrows. rewrite Hrows. unfold axis_dims. rewrite map_length.
    rewrite HlM. apply codes_length. }
  assert (Hgb : forall a c, a < r -> In c codes -> g a c < nth a (shp (factor c)) 0).
  { intros a c Ha Hc. specialize (Hrows a Ha). rewrite (HWg a Ha), axis_dims_merged in Hrows.
    apply (Forall2_map_same (fun i d => i < d) (g a) (fun c => nth a (shp (factor c)) 0) codes Hrows c Hc). }
  (* lookups in the block environment *)
  assert (Hblk : Forall2 (fun b v : list nat => length b = length v) (map (fun a => map (letter a) codes) (seq 0 r)) W).
  { apply Forall2_nth_intro with (da := []) (db := []).
    - rewrite map_length, seq_length. lia.
    - intros a Ha. rewrite map_length, seq_length in Ha. rewrite nth_map_seq by lia. rewrite (HWg a Ha), !map_length. reflexivity. }
  assert (Hndlo : NoDup (concat (map (fun a => map (letter a) codes) (seq 0 r)))).
  { rewrite <- flat_map_concat_map. fold merge_lo. apply (Permutation_NoDup (Permutation_sym Hlop)). exact Hnd. }
  assert (Hlk : forall a c, a < r -> In c codes -> lookup merge_lo (concat W) (letter a c) = g a c).
  { intros a c Ha Hc. unfold merge_lo. rewrite flat_map_concat_map.
    rewrite (lookup_block _ W a); auto.
    - rewrite nth_map_seq by lia. rewrite (HWg a Ha).
      apply lookup_map_inj; auto. intros x y Hx Hy. apply letter_inj; auto; apply codes_bound; auto.
    - rewrite nth_map_seq by lia. apply in_map. auto. }
  assert (Hcode_lt : forall j, j < m -> In j codes).
  { intros j Hj. apply (Permutation_in _ (Permutation_sym codes_perm)). apply in_seq. lia. }
  assert (Hcode_ge : forall k, k < n -> In (m + k) codes).
  { intros k Hk. apply (Permutation_in _ (Permutation_sym codes_perm)). apply in_seq. lia. }
  set (VI := map (fun a => map (g a) (seq 0 m)) (seq 0 r)).
  set (VA := map (fun a => map (fun k => g a (m + k)) (seq 0 n)) (seq 0 r)).
  assert (HgI : map (lookup merge_lo (concat W)) li = concat VI).
  { unfold li, VI. rewrite (Nat.mul_comm m r), <- flat_map_seq_blocks, map_flat_map, <- flat_map_concat_map.
    apply flat_map_ext_in. intros a Ha. apply in_seq in Ha.
    rewrite (seq_shift_map (a * m) m), map_map. apply map_ext_in. intros j Hj. apply in_seq in Hj.
    replace (a * m + j) with (letter a j) by (unfold letter; destruct (Nat.ltb_spec j m); [reflexivity|lia]).
    apply Hlk; [lia|apply Hcode_lt; lia]. }
  assert (HgA : map (lookup merge_lo (concat W)) la = concat VA).
  { unfold la, VA.
    replace (seq (m * r) (n * r)) with (flat_map (fun a => seq (m * r + a * n) n) (seq 0 r)).
    2:{ rewrite (flat_map_ext _ (fun a => map (fun k => m * r + k) (seq (a * n) n)))
          by (intros a; rewrite map_add_seq; reflexivity).
        rewrite <- map_flat_map, flat_map_seq_blocks, map_add_seq. f_equal; lia. }
    rewrite map_flat_map, <- flat_map_concat_map.
    apply flat_map_ext_in. intros a Ha. apply in_seq in Ha.
    rewrite (seq_shift_map (m * r + a * n) n), map_map. apply map_ext_in. intros k Hk. apply in_seq in Hk.
    replace (m * r + a * n + k) with (letter a (m + k)) by (unfold letter; destruct (Nat.ltb_spec (m + k) m); [lia|f_equal; lia]).
    apply Hlk; [lia|apply Hcode_ge; lia]. }
  assert (HVI : Forall2 inb VI (dims_table r LI)).
  { unfold VI, dims_table. apply Forall2_nth_intro with (da := []) (db := []).
    - rewrite !map_length. reflexivity.
    - intros a Ha. rewrite map_length, seq_length in Ha. rewrite !nth_map_seq by lia.
      apply Forall2_nth_intro with (da := 0) (db := 0).
      + rewrite map_length, seq_length. unfold axis_dims. rewrite map_length. lia.
      + intros j Hj. rewrite map_length, seq_length in Hj. rewrite nth_map_seq by lia.
        specialize (Hgb a j Ha (Hcode_lt j Hj)). unfold factor in Hgb. destruct (Nat.ltb_spec j m); [|lia].
        unfold axis_dims.
        rewrite (nth_indep (map _ LI) 0 ((fun F : arr => nth a (shp F) 0) (mkArr [] []))) by (rewrite map_length; lia).
        rewrite (map_nth (fun F : arr => nth a (shp F) 0)). exact Hgb. }
  assert (HVA : Forall2 inb VA (dims_table r LA)).
  { unfold VA, dims_table. apply Forall2_nth_intro with (da := []) (db := []).
    - rewrite !map_length. reflexivity.
    - intros a Ha. rewrite map_length, seq_length in Ha. rewrite !nth_map_seq by lia.
      apply Forall2_nth_intro with (da := 0) (db := 0).
      + rewrite map_length, seq_length. unfold axis_dims. rewrite map_length. lia.
      + intros k Hk. rewrite map_length, seq_length in Hk. rewrite nth_map_seq by lia.
        specialize (Hgb a (m + k) Ha (Hcode_ge k Hk)). unfold factor in Hgb. destruct (Nat.ltb_spec (m + k) m); [lia|].
        replace (m + k - m) with k in Hgb by lia.
        unfold axis_dims.
        rewrite (nth_indep (map _ LA) 0 ((fun F : arr => nth a (shp F) 0) (mkArr [] []))) by (rewrite map_length; lia).
        rewrite (map_nth (fun F : arr => nth a (shp F) 0)). exact Hgb. }
  rewrite gather_lookup' by (rewrite HgI; apply inb_concat; exact HVI).
  rewrite gather_lookup' by (rewrite HgA; apply inb_concat; exact HVA).
  rewrite HgI, HgA.
  assert (HLIne : LI <> []) by (intros E; rewrite E in HlI; simpl in HlI; lia).
  assert (HLAne : LA <> []) by (intros E; rewrite E in HlA; simpl in HlA; lia).
  unfold fI, fA, I, A. rewrite (unfolded_entry' r LI VI), (unfolded_entry' r LA VA) by auto.
  (* the product over the merged chain, reindexed by the codes *)
  rewrite HlM, HlI, HlA.
  set (h := fun c => aget (factor c) (map (fun a => g a c) (seq 0 r))).
  transitivity (emul (zprod (map h (seq 0 m))) (zprod (map h (seq m n)))).
  { f_equal.
    - f_equal. apply map_ext_in. intros j Hj. apply in_seq in Hj. unfold h, factor.
      destruct (Nat.ltb_spec j m); [|lia]. f_equal. unfold factor_pick, VI.
      apply map_ext_in. intros a Ha. apply in_seq in Ha. rewrite nth_map_seq by lia. rewrite nth_map_seq by lia. reflexivity.
    - f_equal. rewrite (seq_shift_map m n), map_map. apply map_ext_in. intros k Hk. apply in_seq in Hk. unfold h, factor.
      destruct (Nat.ltb_spec (m + k) m); [lia|]. replace (m + k - m) with k by lia. f_equal. unfold factor_pick, VA.
      apply map_ext_in. intros a Ha. apply in_seq in Ha. rewrite nth_map_seq by lia. rewrite nth_map_seq by lia. reflexivity. }
  rewrite <- zprod_app, <- map_app, <- seq_app.
  rewrite <- (zprod_perm _ _ (Permutation_map h codes_perm)).
  f_equal. rewrite <- (map_nth_seq codes) at 1. rewrite codes_length, map_map.
  apply map_ext_in. intros t Ht. apply in_seq in Ht. unfold h.
  assert (Htc : In (nth t codes 0) codes) by (apply nth_In; rewrite codes_length; lia).
  rewrite merged_factor.
  rewrite (nth_indep (map factor codes) _ (factor 0)) by (rewrite map_length, codes_length; lia).
  rewrite (map_nth factor). f_equal.
  unfold factor_pick. apply map_ext_in. intros a Ha. apply in_seq in Ha.
  rewrite (HWg a ltac:(lia)).
  rewrite (nth_indep (map (g a) codes) 0 (g a 0)) by (rewrite map_length, codes_length; lia).
  rewrite (map_nth (g a)). reflexivity.
Qed.
End Merge.

(* tensor_merge(tensor(LA), tensor(LI), pos, dims(LA), dims(LI)) = tensor(rearranged list): constituent j of
   ins in front of constituent pos[j] of arr (normalised from [-n, n]), equal positions in argument order *)
Theorem tensor_merge_spec r (LA LI : list arr) (pos : list Z) :
  1 <= r -> 1 <= length LA -> 1 <= length LI -> Forall (wf r) LA -> Forall (wf r) LI ->
  length pos = length LI -> Forall (admissible (length LA)) pos ->
  tensor_merge r (chain_u r LA) (chain_u r LI) pos (dims_table r LA) (dims_table r LI) =
  Ok (chain_u r (chain_spec fst snd (combine (map (npos (length LA)) pos) LI) 0 LA)).
Proof.
  intros Hr Hn Hm HwA HwI Hlen Hadm. set (n := length LA) in *. set (m := length LI) in *.
  set (ps := map (npos n) pos).
  assert (Hps : length ps = m) by (unfold ps; rewrite map_length; auto).
  assert (Hpsb : Forall (fun p => p <= n) ps).
  { unfold ps. apply Forall_forall. intros p Hp. apply in_map_iff in Hp. destruct Hp as [z [<- Hz]].
    rewrite Forall_forall in Hadm. destruct (norm_pos_adm n z Hn (Hadm z Hz)) as [N1 _]. unfold npos. lia. }
  unfold tensor_merge. rewrite !parse_dims_table by auto. cbn [bind]. rewrite !dims_table_hd by auto.
  fold n m.
  replace (r =? 0) with false by (symmetry; apply Nat.eqb_neq; lia).
  replace (n =? 0) with false by (symmetry; apply Nat.eqb_neq; lia). cbn [orb].
  destruct (merge_spec_letters r m n pos Hn Hadm) as [np [Hnp Hchars]].
  rewrite Hnp. cbn [bind]. rewrite Hchars. fold ps.
  rewrite (merge_lo_blocks r m n LA LI ps) by auto.
  apply (merge_pipeline r m n LA LI ps); auto.
Qed.

Theorem merge_equals_tensor_of_rearranged r (LA LI : list arr) (pos : list Z) :
  1 <= r -> 1 <= length LA -> 1 <= length LI -> Forall (wf r) LA -> Forall (wf r) LI ->
  length pos = length LI -> Forall (admissible (length LA)) pos ->
  (do a <- tensor r LA; do i <- tensor r LI; tensor_merge r a i pos (dims_table r LA) (dims_table r LI)) =
  tensor r (chain_spec fst snd (combine (map (npos (length LA)) pos) LI) 0 LA).
Proof.
  intros Hr Hn Hm HwA HwI Hlen Hadm.
  assert (HA : LA <> []) by (destruct LA; simpl in *; [lia|discriminate]).
  assert (HI : LI <> []) by (destruct LI; simpl in *; [lia|discriminate]).
  rewrite !tensor_chain_u by auto. cbn [bind]. rewrite tensor_merge_spec by auto.
  rewrite tensor_chain_u; auto.
  - intros E. apply (f_equal (@length arr)) in E.
    rewrite chain_spec_length in E; [simpl in E; lia|].
    intros [k x] Hit. apply in_combine_l in Hit. apply in_map_iff in Hit. destruct Hit as [p [<- Hp]].
    rewrite Forall_forall in Hadm. destruct (norm_pos_adm (length LA) p Hn (Hadm p Hp)) as [N1 _]. unfold npos. simpl. lia.
  - apply Forall_forall. intros x Hx. apply chain_spec_In in Hx. destruct Hx as [Hx|[[k y] [Hit E]]].
    + rewrite Forall_forall in HwA. auto.
    + simpl in E. subst x. apply in_combine_r in Hit. rewrite Forall_forall in HwI. auto.
Qed.

Theorem transpose_equals_tensor_of_rearranged r L ord :
  1 <= r -> 1 <= length L -> Forall (wf r) L -> Permutation ord (seq 0 (length L)) ->
  (do a <- tensor r L; tensor_transpose r a (map Z.of_nat ord) (dims_table r L)) = tensor r (permute_list ord L).
Proof.
  intros Hr Hn Hw Hp.
  assert (HL : L <> []) by (destruct L; simpl in *; [lia|discriminate]).
  assert (Hord : Forall (fun o => o < length L) ord).
  { apply Forall_forall. intros o Ho. apply (Permutation_in _ Hp) in Ho. apply in_seq in Ho. lia. }
  rewrite tensor_chain_u by auto. cbn [bind]. rewrite transpose_spec by auto.
  rewrite tensor_chain_u; auto.
  - intros E. apply (f_equal (@length arr)) in E. unfold permute_list in E. rewrite map_length in E.
    rewrite (Permutation_length Hp), seq_length in E. simpl in E. lia.
  - apply wf_permute_list; auto.
Qed.

(* tensor_insert with an int position: all args in a row (their tensor product is inserted as one factor) *)
Theorem tensor_insert_int_spec r (L G : list arr) (p : Z) :
  1 <= r -> 1 <= length L -> Forall (wf r) L -> Forall (wf r) G -> G <> [] -> admissible (length L) p ->
  tensor_insert r (chain_u r L) G (PInt p) (map (fun a => axis_dims a L) (seq 0 r)) =
  Ok (chain_u r (firstn (npos (length L) p) L ++ G ++ skipn (npos (length L) p) L)).
Proof.
  intros Hr Hn HL HG Hne Hadm. set (n := length L) in *. set (q := npos n p).
  assert (Hq : q <= n).
  { destruct (norm_pos_adm n p Hn Hadm) as [N1 _]. unfold q, npos. lia. }
  assert (Hone : forall X, wf r X ->
            tensor_insert r (chain_u r L) [X] (PSeq [p]) (map (fun a => axis_dims a L) (seq 0 r)) =
            Ok (chain_u r (firstn q L ++ X :: skipn q L))).
  { intros X HX. rewrite tensor_insert_spec; auto; try discriminate; try (constructor; auto).
    f_equal. f_equal. cbn [map combine]. fold n q.
    change [(q, X)] with ([] ++ [(q, X)]).
    rewrite (chain_spec_snoc fst snd L [] 0 q (q, X)); auto.
    - rewrite chain_spec_nil. unfold insert_at. simpl. rewrite Nat.sub_0_r, Nat.add_0_r. reflexivity.
    - intros it [].
    - simpl. lia. }
  (* PInt p with one arg behaves like PSeq [p]; with several args their tensor product is inserted *)
  unfold tensor_insert in *.
  destruct G as [|g G']; [congruence|].
  destruct G' as [|g2 G''].
  - specialize (Hone g ltac:(inversion HG; auto)). cbn [length Nat.eqb Nat.ltb Nat.leb bind] in *. exact Hone.
  - set (G := g :: g2 :: G'') in *.
    assert (Hlt : (1 <? length G) = true) by reflexivity.
    replace (length G =? 0) with false by reflexivity. rewrite Hlt.
    rewrite tensor_chain_u by (auto; discriminate). cbn [bind].
    assert (HX : wf r (chain_u r G)) by (apply wf_chain_u; auto).
    specialize (Hone (chain_u r G) HX). cbn [length Nat.eqb Nat.ltb Nat.leb bind negb] in Hone.
    rewrite Hone. f_equal.
    assert (H1 : Forall (wf r) (firstn q L)).
    { apply Forall_forall. intros x Hx. rewrite Forall_forall in HL. apply HL. eapply In_firstn'; eauto. }
    assert (H2 : Forall (wf r) (skipn q L)).
    { apply Forall_forall. intros x Hx. rewrite Forall_forall in HL. apply HL. eapply In_skipn'; eauto. }
    assert (H3 : Forall (wf r) (G ++ skipn q L)) by (apply Forall_app; auto).
    assert (H4 : Forall (wf r) (chain_u r G :: skipn q L)) by (constructor; auto).
    rewrite (chain_u_app r (firstn q L) (G ++ skipn q L)) by auto.
    rewrite (chain_u_app r (firstn q L) (chain_u r G :: skipn q L)) by auto.
    rewrite (chain_u_app r G (skipn q L)) by auto.
    change (chain_u r G :: skipn q L) with ([chain_u r G] ++ skipn q L).
    rewrite (chain_u_app r [chain_u r G] (skipn q L)) by (auto; constructor; auto).
    f_equal. f_equal.
    unfold chain_u at 1. cbn [fold_left]. apply kron2_unit_l. auto.
Qed.

(* tensor_insert of ONE tensor into an ARBITRARY tensor C (not necessarily a Kronecker chain) whose trailing
   axes factor as the table Ds: the Kronecker insertion of Spec/Kron.v (statement used by C05: extend) *)
Theorem tensor_insert_single r n (C G : arr) (Ds : list (list nat)) (p : Z) :
  1 <= r -> 1 <= n -> length Ds = r -> Forall (fun d => length d = n) Ds -> admissible n p ->
  wf r C -> wf r G -> shp C = map prodn Ds ->
  tensor_insert r C [G] (PSeq [p]) Ds =
  Ok (kron_ins (map (fun d => prodn (firstn (npos n p) d)) Ds) (map (fun d => prodn (skipn (npos n p) d)) Ds) C G).
Proof.
  intros Hr Hn HlD Hrows Hadm HC HG Hsh.
  assert (Hparse : parse_dims_arg Ds r = Ok tt).
  { apply parse_dims_ok. split; auto. destruct Ds as [|d0 Dt]; [simpl in HlD; lia|].
    exists d0, Dt. split; auto. inversion Hrows as [|? ? H0 Ht]; subst.
    eapply Forall_impl; [|exact Ht]. simpl. intros x Hx. lia. }
  assert (Hhd : length (hd [] Ds) = n).
  { destruct Ds as [|d0 Dt]; [simpl in HlD; lia|]. inversion Hrows; auto. }
  destruct (norm_pos_adm n p Hn Hadm) as [N1 N2].
  unfold tensor_insert. cbn [length Nat.eqb negb bind]. rewrite Hparse. cbn [bind]. rewrite Hhd.
  replace (r =? 0) with false by (symmetry; apply Nat.eqb_neq; lia).
  replace (n =? 0) with false by (symmetry; apply Nat.eqb_neq; lia). cbn [orb].
  unfold insert_items. cbn [combine map sort_by fold_right ins_sorted fst snd insert_loop].
  rewrite N2. cbn [negb]. unfold insert_step.
  rewrite (single_insert_kron_ins r n C G Ds (Z.to_nat (snd (norm_pos n p)) + 0)); auto; try lia.
  cbn [bind fst]. rewrite Nat.add_0_r. reflexivity.
Qed.

(* ------------------------------------------------------------------ tensor_merge of ARBITRARY tensors, as an index map *)
(* For any tensors A, I whose trailing axes factor as the tables DA (n columns), DI (m columns): the entry of the
   result at the digit blocks W (one block per axis, arranged like the merged constituent list [codes]) is
   I at the digits of its constituents times A at the digits of its constituents.  (Used by C05: extend merges
   eigenvector / propagator matrices that are not Kronecker products.) *)
Section MergeIdx.
Variables (r m n : nat) (A I : arr) (DA DI : list (list nat)) (ps : list nat).
Hypothesis Hr : 1 <= r.
Hypothesis Hm : 1 <= m.
Hypothesis Hn : 1 <= n.
Hypothesis HlDA : length DA = r.
Hypothesis HlDI : length DI = r.
Hypothesis HrA : Forall (fun d => length d = n) DA.
Hypothesis HrI : Forall (fun d => length d = m) DI.
Hypothesis HwA : wf r A.
Hypothesis HwI : wf r I.
Hypothesis HshA : shp A = map prodn DA.
Hypothesis HshI : shp I = map prodn DI.
Hypothesis Hps : length ps = m.
Hypothesis Hpsb : Forall (fun p => p <= n) ps.

Let dLI : list arr := repeat (mkArr [] []) m.
Let dLA : list arr := repeat (mkArr [] []) n.
Let cds := codes m n ps.
Definition dimc (a c : nat) : nat := if c <? m then nth c (nth a DI []) 0 else nth (c - m) (nth a DA []) 0.
Definition merged_dims : list (list nat) := map (fun a => map (dimc a) cds) (seq 0 r).
Definition ins_blocks (W : list (list nat)) : list (list nat) :=
  map (fun a => map (fun j => lookup cds (nth a W []) j) (seq 0 m)) (seq 0 r).
Definition arr_blocks_of (W : list (list nat)) : list (list nat) :=
  map (fun a => map (fun k => lookup cds (nth a W []) (m + k)) (seq 0 n)) (seq 0 r).

Let HdI : length dLI = m. Proof. apply repeat_length. Qed.
Let HdA : length dLA = n. Proof. apply repeat_length. Qed.
Let cperm : Permutation cds (seq 0 (m + n)) := codes_perm r m n dLA dLI ps Hr HdI HdA Hm Hn Hps Hpsb.
Let cnd : NoDup cds. Proof. apply (Permutation_NoDup (Permutation_sym cperm)). apply seq_NoDup. Qed.
Let clen : length cds = m + n. Proof. rewrite (Permutation_length cperm), seq_length. reflexivity. Qed.
Let cbound c : In c cds -> c < m + n. Proof. intros H. apply (Permutation_in _ cperm) in H. apply in_seq in H. lia. Qed.

Lemma lookup_letters_dimc a c : a < r -> c < m + n ->
  lookup (seq 0 (m * r) ++ seq (m * r) (n * r)) (concat DI ++ concat DA) (letter r m n a c) = dimc a c.
Proof.
  intros Ha Hc.
  assert (LfI : length (concat DI) = m * r) by (rewrite (concat_length_const m) by auto; lia).
  assert (LfA : length (concat DA) = n * r) by (rewrite (concat_length_const n) by auto; lia).
  unfold letter, dimc. destruct (Nat.ltb_spec c m) as [Hlt|Hge].
  - assert (Hb : a * m + c < m * r) by nia.
    rewrite lookup_app_l by (rewrite ?seq_length; auto; apply in_seq; lia).
    rewrite (lookup_seq (m * r) 0 _ (a * m + c)) by auto.
    apply (nth_concat_const m); auto; lia.
  - assert (Hb : a * n + (c - m) < n * r) by nia.
    rewrite lookup_app_r by (rewrite ?seq_length; auto; intros Hin; apply in_seq in Hin; lia).
    replace (m * r + a * n + (c - m)) with (m * r + (a * n + (c - m))) by lia.
    rewrite (lookup_seq (n * r) (m * r) _ (a * n + (c - m))) by auto.
    apply (nth_concat_const n); auto; lia.
Qed.

Lemma prodn_merged_dims a : a < r -> prodn (map (dimc a) cds) = prodn (nth a DI []) * prodn (nth a DA []).
Proof.
  intros Ha. rewrite (prodn_perm _ _ (Permutation_map (dimc a) cperm)), seq_app, map_app, prodn_app. f_equal.
  - f_equal.
    assert (Hl : length (nth a DI []) = m) by (rewrite Forall_forall in HrI; apply HrI; apply nth_In; lia).
    transitivity (map (fun c => nth c (nth a DI []) 0) (seq 0 (length (nth a DI [])))); [|apply map_nth_seq].
    rewrite Hl. apply map_ext_in. intros c Hc. apply in_seq in Hc. unfold dimc. destruct (Nat.ltb_spec c m); [reflexivity|lia].
  - f_equal.
    assert (Hl : length (nth a DA []) = n) by (rewrite Forall_forall in HrA; apply HrA; apply nth_In; lia).
    transitivity (map (fun c => nth c (nth a DA []) 0) (seq 0 (length (nth a DA [])))); [|apply map_nth_seq].
    rewrite Hl. change (0 + m) with m. rewrite (seq_shift_map m n), map_map. apply map_ext_in. intros k Hk.
    unfold dimc. destruct (Nat.ltb_spec (m + k) m); [lia|]. f_equal. lia.
Qed.

Theorem merge_index_pipeline :
  exists R,
  (do outshape <- tensor_product_shape (shp I) (shp A) r;
   do ins_r <- reshape I (lead r (shp I) ++ concat DI);
   do arr_r <- reshape A (lead r (shp A) ++ concat DA);
   do x <- einsum2 (seq 0 (m * r)) (seq (m * r) (n * r)) (merge_lo r m n ps) ins_r arr_r;
   reshape x outshape) = Ok R /\
  shp R = map2 Nat.mul (shp I) (shp A) /\ map prodn merged_dims = map2 Nat.mul (shp I) (shp A) /\
  forall W, Forall2 inb W merged_dims ->
    aget R (map2 ravel merged_dims W) =
    emul (aget I (map2 ravel DI (ins_blocks W))) (aget A (map2 ravel DA (arr_blocks_of W))).
Proof.
  destruct HwI as [HI1 HI2]. destruct HwA as [HA1 HA2].
  rewrite tps_norank by auto. cbn [bind].
  assert (HleadI : lead r (shp I) = []) by (unfold lead; rewrite HI1, Nat.sub_diag; reflexivity).
  assert (HleadA : lead r (shp A) = []) by (unfold lead; rewrite HA1, Nat.sub_diag; reflexivity).
  rewrite HleadI, HleadA. cbn [app].
  unfold reshape at 1. rewrite prodn_concat, <- HshI, <- HI2, Nat.eqb_refl. cbn [bind].
  unfold reshape at 1. rewrite prodn_concat, <- HshA, <- HA2, Nat.eqb_refl. cbn [bind].
  set (fI := concat DI). set (fA := concat DA).
  assert (LfI : length fI = m * r) by (unfold fI; rewrite (concat_length_const m) by auto; lia).
  assert (LfA : length fA = n * r) by (unfold fA; rewrite (concat_length_const n) by auto; lia).
  set (li := seq 0 (m * r)). set (la := seq (m * r) (n * r)). set (lo := merge_lo r m n ps).
  assert (Hnd : NoDup (li ++ la)) by (unfold li, la; rewrite <- seq_app; apply seq_NoDup).
  pose proof (merge_lo_perm r m n dLA dLI ps Hr HdI HdA Hm Hn Hps Hpsb) as Hlop. fold li la lo in Hlop.
  assert (P1 : length (shp (mkArr fI (dat I))) = length li) by (cbn [shp]; unfold li; rewrite seq_length; auto).
  assert (P2 : length (shp (mkArr fA (dat A))) = length la) by (cbn [shp]; unfold la; rewrite seq_length; auto).
  assert (P4 : incl lo (li ++ la)) by (intros l Hl; eapply Permutation_in; [exact Hlop|exact Hl]).
  assert (P5 : incl (li ++ la) lo) by (intros l Hl; eapply Permutation_in; [symmetry; exact Hlop|exact Hl]).
  rewrite einsum2_nosum by assumption. cbn [bind shp].
  assert (Hfine : map (lookup (li ++ la) (fI ++ fA)) lo = concat merged_dims).
  { unfold lo, merge_lo, merged_dims. rewrite map_flat_map, <- flat_map_concat_map.
    apply flat_map_ext_in. intros a Ha. apply in_seq in Ha.
    rewrite map_map. apply map_ext_in. intros c Hc.
    apply lookup_letters_dimc; [lia|apply cbound; auto]. }
  rewrite Hfine.
  assert (Hcoarse : map prodn merged_dims = map2 Nat.mul (shp I) (shp A)).
  { unfold merged_dims. rewrite map_map. rewrite HshI, HshA.
    rewrite (map_prodn_nth r DI HlDI), (map_prodn_nth r DA HlDA).
    rewrite (map_ext_in _ (fun a => prodn (nth a DI []) * prodn (nth a DA [])))
      by (intros a Ha; apply in_seq in Ha; apply prodn_merged_dims; lia).
    generalize (seq 0 r). induction l as [|a l IHl]; simpl; auto. rewrite IHl. reflexivity. }
  unfold reshape, tabulate. cbn [dat].
  rewrite map_length, indices_length, prodn_concat, Hcoarse, Nat.eqb_refl.
  eexists. split; [reflexivity|]. cbn [shp dat]. split; [reflexivity|]. split; [first [exact Hcoarse | reflexivity]|].
  intros W HW.
  assert (HWlen : Forall2 (fun w g : list nat => length w = length g) W merged_dims).
  { clear -HW. induction HW; constructor; auto. eapply inb_length; eauto. }
  assert (HlW : length W = r) by (apply Forall2_len in HW; unfold merged_dims in HW; rewrite map_length, seq_length in HW; auto).
  unfold aget at 1. cbn [shp dat]. rewrite <- Hcoarse.
  rewrite <- (ravel_concat merged_dims W) by auto.
  assert (Hin' : inb (concat W) (concat merged_dims)) by (apply inb_concat; auto).
  pose proof (aget_tabulate (concat merged_dims)
                (fun oi => emul (aget (mkArr fI (dat I)) (gather lo oi li fI)) (aget (mkArr fA (dat A)) (gather lo oi la fA)))
                (concat W) Hin') as Hat.
  unfold aget at 1, tabulate in Hat. cbn [shp dat] in Hat. rewrite Hat. clear Hat.
  (* values of the codes on every axis *)
  assert (Hrows : forall a, a < r -> inb (nth a W []) (map (dimc a) cds)).
  { intros a Ha. pose proof (Forall2_nth inb W merged_dims [] [] a HW ltac:(lia)) as Hq.
    unfold merged_dims in Hq. rewrite nth_map_seq in Hq by lia. exact Hq. }
  set (g := fun a c => lookup cds (nth a W []) c).
  assert (HWg : forall a, a < r -> nth a W [] = map (g a) cds).
  { intros a Ha. unfold g. symmetry. apply map_lookup_self; [apply cnd|].
    specialize (Hrows a Ha). apply inb_length in Hrows. rewrite Hrows, map_length. reflexivity. }
  assert (Hgb : forall a c, a < r -> In c cds -> g a c < dimc a c).
  { intros a c Ha Hc. specialize (Hrows a Ha). rewrite (HWg a Ha) in Hrows.
    apply (Forall2_map_same (fun i d => i < d) (g a) (dimc a) cds Hrows c Hc). }
  assert (Hblk : Forall2 (fun b v : list nat => length b = length v) (map (fun a => map (letter r m n a) cds) (seq 0 r)) W).
  { apply Forall2_nth_intro with (da := []) (db := []).
    - rewrite map_length, seq_length. lia.
    - intros a Ha. rewrite map_length, seq_length in Ha. rewrite nth_map_seq by lia. rewrite (HWg a Ha), !map_length. reflexivity. }
  assert (Hndlo : NoDup (concat (map (fun a => map (letter r m n a) cds) (seq 0 r)))).
  { rewrite <- flat_map_concat_map. change (NoDup lo). apply (Permutation_NoDup (Permutation_sym Hlop)). exact Hnd. }
  assert (Hlk : forall a c, a < r -> In c cds -> lookup lo (concat W) (letter r m n a c) = g a c).
  { intros a c Ha Hc. unfold lo, merge_lo. rewrite flat_map_concat_map.
    rewrite (lookup_block _ W a); auto.
    - rewrite nth_map_seq by lia. rewrite (HWg a Ha).
      apply lookup_map_inj; auto. intros x y Hx Hy.
      apply (letter_inj r m n dLA dLI ps Hr HdI HdA Hm Hn Hps); auto.
    - rewrite nth_map_seq by lia. apply in_map. auto. }
  assert (Hcode_lt : forall j, j < m -> In j cds).
  { intros j Hj. apply (Permutation_in _ (Permutation_sym cperm)). apply in_seq. lia. }
  assert (Hcode_ge : forall k, k < n -> In (m + k) cds).
  { intros k Hk. apply (Permutation_in _ (Permutation_sym cperm)). apply in_seq. lia. }
  assert (HgI : map (lookup lo (concat W)) li = concat (ins_blocks W)).
  { unfold li, ins_blocks. rewrite (Nat.mul_comm m r), <- flat_map_seq_blocks, map_flat_map, <- flat_map_concat_map.
    apply flat_map_ext_in. intros a Ha. apply in_seq in Ha.
    rewrite (seq_shift_map (a * m) m), map_map. apply map_ext_in. intros j Hj. apply in_seq in Hj.
    replace (a * m + j) with (letter r m n a j) by (unfold letter; destruct (Nat.ltb_spec j m); [reflexivity|lia]).
    apply Hlk; [lia|apply Hcode_lt; lia]. }
  assert (HgA : map (lookup lo (concat W)) la = concat (arr_blocks_of W)).
  { unfold la, arr_blocks_of.
    replace (seq (m * r) (n * r)) with (flat_map (fun a => seq (m * r + a * n) n) (seq 0 r)).
    2:{ rewrite (flat_map_ext _ (fun a => map (fun k => m * r + k) (seq (a * n) n)))
          by (intros a; rewrite map_add_seq; reflexivity).
        rewrite <- map_flat_map, flat_map_seq_blocks, map_add_seq. f_equal; lia. }
    rewrite map_flat_map, <- flat_map_concat_map.
    apply flat_map_ext_in. intros a Ha. apply in_seq in Ha.
    rewrite (seq_shift_map (m * r + a * n) n), map_map. apply map_ext_in. intros k Hk. apply in_seq in Hk.
    replace (m * r + a * n + k) with (letter r m n a (m + k)) by (unfold letter; destruct (Nat.ltb_spec (m + k) m); [lia|f_equal; lia]).
    apply Hlk; [lia|apply Hcode_ge; lia]. }
  assert (HVI : Forall2 inb (ins_blocks W) DI).
  { unfold ins_blocks. apply Forall2_nth_intro with (da := []) (db := []).
    - rewrite map_length, seq_length. lia.
    - intros a Ha. rewrite map_length, seq_length in Ha. rewrite nth_map_seq by lia.
      assert (Hl : length (nth a DI []) = m) by (rewrite Forall_forall in HrI; apply HrI; apply nth_In; lia).
      apply Forall2_nth_intro with (da := 0) (db := 0).
      + rewrite map_length, seq_length. lia.
      + intros j Hj. rewrite map_length, seq_length in Hj. rewrite nth_map_seq by lia.
        specialize (Hgb a j Ha (Hcode_lt j Hj)). unfold dimc in Hgb. destruct (Nat.ltb_spec j m); [exact Hgb|lia]. }
  assert (HVA : Forall2 inb (arr_blocks_of W) DA).
  { unfold arr_blocks_of. apply Forall2_nth_intro with (da := []) (db := []).
    - rewrite map_length, seq_length. lia.
    - intros a Ha. rewrite map_length, seq_length in Ha. rewrite nth_map_seq by lia.
      assert (Hl : length (nth a DA []) = n) by (rewrite Forall_forall in HrA; apply HrA; apply nth_In; lia).
      apply Forall2_nth_intro with (da := 0) (db := 0).
      + rewrite map_length, seq_length. lia.
      + intros k Hk. rewrite map_length, seq_length in Hk. rewrite nth_map_seq by lia.
        specialize (Hgb a (m + k) Ha (Hcode_ge k Hk)). unfold dimc in Hgb. destruct (Nat.ltb_spec (m + k) m); [lia|].
        replace (m + k - m) with k in Hgb by lia. exact Hgb. }
  rewrite gather_lookup' by (rewrite HgI; apply inb_concat; exact HVI).
  rewrite gather_lookup' by (rewrite HgA; apply inb_concat; exact HVA).
  rewrite HgI, HgA.
  f_equal; unfold aget; cbn [shp dat]; [rewrite HshI|rewrite HshA]; f_equal; unfold fI, fA; apply ravel_concat.
  - clear -HVI. induction HVI; constructor; auto. eapply inb_length; eauto.
  - clear -HVA. induction HVA; constructor; auto. eapply inb_length; eauto.
Qed.
End MergeIdx.

Theorem tensor_merge_index_spec r (A I : arr) (DA DI : list (list nat)) (pos : list Z) n m :
  1 <= r -> 1 <= m -> 1 <= n -> length DA = r -> length DI = r ->
  Forall (fun d => length d = n) DA -> Forall (fun d => length d = m) DI ->
  wf r A -> wf r I -> shp A = map prodn DA -> shp I = map prodn DI ->
  length pos = m -> Forall (admissible n) pos ->
  let ps := map (npos n) pos in
  exists R, tensor_merge r A I pos DA DI = Ok R /\ shp R = map2 Nat.mul (shp I) (shp A) /\
    map prodn (merged_dims r m n DA DI ps) = map2 Nat.mul (shp I) (shp A) /\
    forall W, Forall2 inb W (merged_dims r m n DA DI ps) ->
      aget R (map2 ravel (merged_dims r m n DA DI ps) W) =
      emul (aget I (map2 ravel DI (ins_blocks r m n ps W))) (aget A (map2 ravel DA (arr_blocks_of r m n ps W))).
Proof.
  intros Hr Hm Hn HlDA HlDI HrA HrI HwA HwI HshA HshI Hlen Hadm ps.
  assert (Hps : length ps = m) by (unfold ps; rewrite map_length; auto).
  assert (Hpsb : Forall (fun p => p <= n) ps).
  { unfold ps. apply Forall_forall. intros p Hp. apply in_map_iff in Hp. destruct Hp as [z [<- Hz]].
    rewrite Forall_forall in Hadm. destruct (norm_pos_adm n z Hn (Hadm z Hz)) as [N1 _]. unfold npos. lia. }
  assert (HparseA : parse_dims_arg DA r = Ok tt).
  { apply parse_dims_ok. split; auto. destruct DA as [|d0 Dt]; [simpl in HlDA; lia|].
    exists d0, Dt. split; auto. inversion HrA as [|? ? H0 Ht]; subst. eapply Forall_impl; [|exact Ht]. simpl. intros x Hx. lia. }
  assert (HparseI : parse_dims_arg DI r = Ok tt).
  { apply parse_dims_ok. split; auto. destruct DI as [|d0 Dt]; [simpl in HlDI; lia|].
    exists d0, Dt. split; auto. inversion HrI as [|? ? H0 Ht]; subst. eapply Forall_impl; [|exact Ht]. simpl. intros x Hx. lia. }
  assert (HhdA : length (hd [] DA) = n) by (destruct DA as [|d0 Dt]; [simpl in HlDA; lia|]; inversion HrA; auto).
  assert (HhdI : length (hd [] DI) = m) by (destruct DI as [|d0 Dt]; [simpl in HlDI; lia|]; inversion HrI; auto).
  unfold tensor_merge. rewrite HparseA, HparseI. cbn [bind]. rewrite HhdA, HhdI.
  replace (r =? 0) with false by (symmetry; apply Nat.eqb_neq; lia).
  replace (n =? 0) with false by (symmetry; apply Nat.eqb_neq; lia). cbn [orb].
  destruct (merge_spec_letters r m n pos Hn Hadm) as [np [Hnp Hchars]].
  rewrite Hnp. cbn [bind]. rewrite Hchars. fold ps.
  rewrite (merge_lo_blocks r m n (repeat (mkArr [] []) n) (repeat (mkArr [] []) m) ps) by (auto; apply repeat_length).
  apply (merge_index_pipeline r m n A I DA DI ps); auto.
Qed.
End Generic.
