(* The Hermiticity hypothesis of F2_plus_adjoint / F2_assembly is necessary: a witness (1x1 matrices, "basis
   element" i, two idle segments, frequency 0) where every other hypothesis holds and the identity fails:
   the same-segment term uses B_ak(t) while the cross-segment term uses conj(step_g[a,k]).                *)
From Coq Require Import ZArith Reals Lra Lia List.
From FF Require Import Base.Ops Inst.RInst Base.RAlg Model.Numeric Model.SecondOrder Proofs.Foi Proofs.SecondOrder Proofs.SecondOrderAsm.
Import ListNotations.
Local Open Scope R_scope.

Definition w_I1 : Mat (T:=R) := [[(1,0)]].
Definition w_iC : Mat (T:=R) := [[(0,1)]].       (* the 1x1 "basis element" i : not Hermitian *)

Lemma csumn1 (f : nat -> Cx) : csumn' 1 f = f 0%nat.
Proof. simpl. ring. Qed.
Lemma w_tbu (A : Mat (T:=R)) : mget RO (transform_by_unitary RO 1 w_I1 A) 0 0 = mget RO A 0 0.
Proof. rewrite tbu_get by lia. rewrite !csumn1. unfold w_I1, mget; simpl. apply c_eq; simpl; ring. Qed.
Lemma w_W : mmul RO 1 (madj RO 1 w_I1) w_I1 = w_I1.
Proof. unfold mmul, madj, mbuild, build; simpl. unfold w_I1. repeat f_equal. apply c_eq; simpl; ring. Qed.

Lemma w_X : nbf (nth 0 (so_NT RO 1 w_I1 [w_I1] [1]) []) (nth 0 (so_BT RO 1 w_I1 w_I1 [w_iC]) []) 0%nat 0%nat = (0, 1).
Proof.
  rewrite so_NT_nth, so_BT_nth by (simpl; lia). unfold nbf, mscalr. rewrite mget_mbuild by lia.
  rewrite w_W, !w_tbu. unfold mget, w_I1, w_iC, vg, vget; simpl. apply c_eq; simpl; ring.
Qed.
Lemma w_step tg : a3get RO (cm_step RO 1 0 [0] w_I1 w_I1 tg 1 [0] [w_iC] [w_I1] [1]) 0 0 0 = (0, 1).
Proof.
  rewrite cm_step_get by (simpl; lia). unfold S2. rewrite !csumn1. rewrite w_W, !w_tbu.
  rewrite foi_entry_unmasked.
  2:{ unfold foi_x, vg, vget; simpl. replace ((0 + (0 - 0)) * 1) with 0 by ring. rewrite Rabs_R0. lra. }
  unfold vg, vget; simpl. replace (0 * tg) with 0 by ring. rewrite cexp_0.
  unfold mget, w_I1, w_iC; simpl. apply c_eq; simpl; ring.
Qed.

Section Witness.
Let F2 := second_order_ff RO 1 0 0 [[0];[0]] [w_I1;w_I1] [w_I1;w_I1;w_I1] [0] [w_iC] [w_I1] [[1;1]] [1;1] [0;1;2] (None,None).
Let Bm := control_matrix_from_scratch RO 1 0 [[0];[0]] [w_I1;w_I1] [w_I1;w_I1;w_I1] [0] [w_iC] [w_I1] [[1;1]] [1;1] [0;1;2].

Lemma w_F2 : a5get RO F2 0 0 0 0 0 = 0c.
Proof.
  unfold F2. rewrite second_order_ff_get by (simpl; lia).
  cbn [length]. unfold transpose_coeffs, build. cbn [seq map length fresh_segs so_spec seg_same seg_step snd].
  rewrite !so_same_get by (simpl; lia).
  cbn [map nth]. unfold same_sum, S2. rewrite !csumn1. rewrite !t4get_soi_tab by lia. rewrite !soi_entry_core.
  unfold vg, vget. cbn [nth].
  replace (0 - 0 - 0) with 0 by ring. replace (0 + (0 - 0)) with 0 by ring.
  rewrite !soi_core_regular by (try lra; left; reflexivity). rewrite !soi_core_case3.
  rewrite !w_X. pose proof (w_step 0) as H0. pose proof (w_step 1) as H1. unfold vg, vget in H0, H1. cbn [nth] in H0, H1.
  rewrite H0, H1. apply c_eq; simpl; field.
Qed.
Lemma w_Bm : a3get RO Bm 0 0 0 = (0, 2).
Proof.
  unfold Bm, control_matrix_from_scratch. rewrite cm_loop_sum by (simpl; lia).
  rewrite a3get_a3zero by (simpl; lia).
  cbn [length]. unfold transpose_coeffs, build. cbn [seq map length fresh_segs sum_steps seg_step snd].
  pose proof (w_step 0) as H0. pose proof (w_step 1) as H1. unfold vg, vget in H0, H1. cbn [nth] in H0, H1.
  unfold times. cbn [cumsum_from]. 
  unfold vg, vget. cbn [nth]. rewrite H0, H1. apply c_eq; simpl; ring.
Qed.

(* all hypotheses of F2_plus_adjoint except Hermiticity of the basis element hold, the conclusion fails (0 vs 4) *)
Theorem F2_plus_adjoint_needs_hermitian :
  let d := 1%nat in let thr := 0 in let omega := [0] in let basis := [w_iC] in let nopers := [w_I1] in
  let evs := [[0];[0]] in let Vs := [w_I1;w_I1] in let Qs := [w_I1;w_I1;w_I1] in
  let ncoeffs := [[1;1]] in let dts := [1;1] in let ts := [0;1;2] in
  0 <= thr /\ (forall N, In N nopers -> fherm d (toF N)) /\
  length evs = length dts /\ length Vs = length dts /\ (length dts <= length Qs)%nat /\ (length dts <= length ts)%nat /\
  length ncoeffs = length nopers /\ no_taylor d omega thr evs dts 0 /\
  cadd' (a5get RO F2 0 0 0 0 0) (cconj' (a5get RO F2 0 0 0 0 0)) <>
  cmul' (cconj' (a3get RO Bm 0 0 0)) (a3get RO Bm 0 0 0).
Proof.
  cbv zeta. repeat split; try (simpl; lia); try lra.
  - intros N [<-|[]] i j Hi Hj. assert (i = 0%nat) by lia. assert (j = 0%nat) by lia. subst.
    unfold fadj, toF, mget, w_I1; simpl. apply c_eq; simpl; ring.
  - intros ev dt Hin m n Hm Hn. left. assert (m = 0%nat) by lia. assert (n = 0%nat) by lia. subst.
    destruct Hin as [E|[E|[]]]; inversion E; subst; unfold vg, vget; simpl; ring.
  - rewrite w_F2, w_Bm. intros H. apply (f_equal fst) in H. simpl in H. lra.
Qed.
End Witness.
