(* C14 -- entry point of the basis proofs (see the individual files):
     BasisAlg     index splitting, Kronecker lemmas, predicates, exactness of the expansion
     BasisPauli   Basis.pauli(n) for every n
     BasisGGMIdx  the triangular index enumeration of Basis.ggm / ggm_expand is a bijection
     BasisGGM     closed-form coefficients (ggm_expand = expand), Hermiticity, orthonormality for every d
     BasisGGMComplete  completeness relation of Basis.ggm(d) for every d (bijection + telescoping sum)
     BasisFlags   meaning of isherm / isorthonorm / istraceless; the pre-fix istraceless test differs
     BasisPartial from_partial under the validated null-space oracle, labels, rejection            *)
From FF Require Export Proofs.BasisAlg Proofs.BasisPauli Proofs.BasisGGMIdx Proofs.BasisGGM Proofs.BasisGGMComplete Proofs.BasisFlags Proofs.BasisPartial.
