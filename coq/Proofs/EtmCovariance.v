(* C12, part 5: every Taylor polynomial of the exponential is covariant under an orthogonal change
   of basis:  K' = O K O^T  =>  sum_{m<=M} K'^m/m! = O (sum_{m<=M} K^m/m!) O^T  for every M
   ([exp_taylor] of Model/Cumulant.v, the polynomial scipy's expm is validated against), hence its
   trace -- d^2 times the process fidelity -- is the same.                                      *)
From Coq Require Import ZArith Reals Lra Lia List.
From FF Require Import Base.Ops Inst.RInst Base.RAlg Model.Numeric Model.Decay Model.Cumulant Proofs.Trapz Proofs.TraceId.
Import ListNotations.
Local Open Scope R_scope.

Section Cov.
Variable n : nat.
Variable O : nat -> nat -> R.
Hypothesis Ocols : forall a b, (a < n)%nat -> (b < n)%nat -> sumn' n (fun k => O k a * O k b) = if Nat.eqb a b then 1 else 0.
Hypothesis Orows : forall i j, (i < n)%nat -> (j < n)%nat -> sumn' n (fun a => O i a * O j a) = if Nat.eqb i j then 1 else 0.

(* X' = O X O^T on the entries < n *)
Definition conj_rel (X' X : RMr) : Prop :=
  forall i j, (i < n)%nat -> (j < n)%nat ->
    rmget RO X' i j = sumn' n (fun a => sumn' n (fun b => O i a * O j b * rmget RO X a b)).

Lemma rmget_build m (f : nat -> nat -> R) i j : (i < m)%nat -> (j < m)%nat -> rmget RO (rmbuild m m f) i j = f i j.
Proof. intros. unfold rmget, rmbuild. rewrite !nth_build by auto. reflexivity. Qed.

Lemma conj_id : conj_rel (rm_id RO n) (rm_id RO n).
Proof.
  intros i j Hi Hj. unfold rm_id. rewrite rmget_build by auto.
  rewrite (sumn_ext n _ (fun a => O i a * O j a)).
  - rewrite Orows by auto. reflexivity.
  - intros a Ha.
    rewrite (sumn_ext n _ (fun b => if Nat.eqb a b then O i a * O j b else 0)).
    rewrite (sumn_delta n a (fun b => O i a * O j b)) by auto. reflexivity.
    intros b Hb. rewrite rmget_build by auto. simpl. destruct (Nat.eqb a b); ring.
Qed.
Lemma conj_add X' X Y' Y : conj_rel X' X -> conj_rel Y' Y -> conj_rel (rm_add RO n X' Y') (rm_add RO n X Y).
Proof.
  intros HX HY i j Hi Hj. unfold rm_add. rewrite rmget_build by auto. rewrite HX, HY by auto. simpl.
  rewrite <- sumn_add. apply sumn_ext. intros a Ha. rewrite <- sumn_add. apply sumn_ext. intros b Hb.
  rewrite rmget_build by auto. simpl. ring.
Qed.
Lemma conj_scale c X' X : conj_rel X' X -> conj_rel (rm_scale RO n c X') (rm_scale RO n c X).
Proof.
  intros HX i j Hi Hj. unfold rm_scale. rewrite rmget_build by auto. rewrite HX by auto. simpl.
  rewrite <- sumn_mul_l. apply sumn_ext. intros a Ha. rewrite <- sumn_mul_l. apply sumn_ext. intros b Hb.
  rewrite rmget_build by auto. simpl. ring.
Qed.
Lemma conj_mul X' X Y' Y : conj_rel X' X -> conj_rel Y' Y -> conj_rel (rm_mul RO n X' Y') (rm_mul RO n X Y).
Proof.
  intros HX HY i j Hi Hj. unfold rm_mul. rewrite rmget_build by auto. simpl.
  (* sum_k X'_ik Y'_kj with both expanded *)
  transitivity (sumn' n (fun k => sumn' n (fun a => sumn' n (fun b => sumn' n (fun c => sumn' n (fun e =>
     (O i a * O j e * rmget RO X a b * rmget RO Y c e) * (O k b * O k c))))))).
  { apply sumn_ext. intros k Hk. rewrite HX, HY by auto.
    rewrite <- sumn_mul_r. apply sumn_ext. intros a _. rewrite <- sumn_mul_r. apply sumn_ext. intros b _.
    rewrite <- sumn_mul_l. apply sumn_ext. intros c _. rewrite <- sumn_mul_l. apply sumn_ext. intros e _. ring. }
  (* move the sum over k inside *)
  transitivity (sumn' n (fun a => sumn' n (fun b => sumn' n (fun c => sumn' n (fun e =>
     (O i a * O j e * rmget RO X a b * rmget RO Y c e) * sumn' n (fun k => O k b * O k c)))))).
  { rewrite sumn_swap. apply sumn_ext. intros a _. rewrite sumn_swap. apply sumn_ext. intros b _.
    rewrite sumn_swap. apply sumn_ext. intros c _. rewrite sumn_swap. apply sumn_ext. intros e _.
    apply sumn_mul_l. }
  (* orthonormal columns: b = c *)
  transitivity (sumn' n (fun a => sumn' n (fun e => sumn' n (fun b => O i a * O j e * rmget RO X a b * rmget RO Y b e)))).
  { apply sumn_ext. intros a _.
    rewrite (sumn_ext n _ (fun b => sumn' n (fun e => O i a * O j e * rmget RO X a b * rmget RO Y b e))).
    apply sumn_swap.
    intros b Hb.
    rewrite (sumn_ext n _ (fun c => sumn' n (fun e => if Nat.eqb b c then O i a * O j e * rmget RO X a b * rmget RO Y c e else 0))).
    2:{ intros c Hc. apply sumn_ext. intros e _. rewrite Ocols by auto. destruct (Nat.eqb b c); ring. }
    rewrite sumn_swap. apply sumn_ext. intros e _.
    apply (sumn_delta n b (fun c => O i a * O j e * rmget RO X a b * rmget RO Y c e)); auto. }
  apply sumn_ext. intros a Ha. apply sumn_ext. intros e He.
  rewrite rmget_build by auto. simpl. rewrite <- sumn_mul_l. apply sumn_ext. intros b _. ring.
Qed.

Lemma conj_horner K' K : conj_rel K' K -> forall m acc' acc, conj_rel acc' acc ->
  conj_rel (exp_horner RO n K' m acc') (exp_horner RO n K m acc).
Proof.
  intros HK. induction m as [|m IH]; intros acc' acc Hacc; simpl. exact Hacc.
  apply IH. apply conj_add. apply conj_id. apply conj_scale. apply conj_mul; auto.
Qed.

(* Taylor polynomial of the exponential is covariant *)
Theorem exp_taylor_covariant K' K M : conj_rel K' K -> conj_rel (exp_taylor RO n K' M) (exp_taylor RO n K M).
Proof. intros HK. unfold exp_taylor. apply conj_horner; auto. apply conj_id. Qed.

(* ... and its trace (d^2 x process fidelity) invariant *)
Theorem conj_trace X' X : conj_rel X' X -> sumn' n (fun i => rmget RO X' i i) = sumn' n (fun a => rmget RO X a a).
Proof.
  intros HX.
  rewrite (sumn_ext n _ (fun i => sumn' n (fun a => sumn' n (fun b => O i a * O i b * rmget RO X a b)))) by (intros; apply HX; auto).
  rewrite sumn_swap. apply sumn_ext. intros a Ha. rewrite sumn_swap.
  rewrite (sumn_ext n _ (fun b => if Nat.eqb a b then rmget RO X a b else 0)).
  apply (sumn_delta n a (fun b => rmget RO X a b)); auto.
  intros b Hb. rewrite sumn_mul_r, Ocols by auto. destruct (Nat.eqb a b); ring.
Qed.
Theorem process_fidelity_taylor_invariant K' K M : conj_rel K' K ->
  sumn' n (fun i => rmget RO (exp_taylor RO n K' M) i i) = sumn' n (fun a => rmget RO (exp_taylor RO n K M) a a).
Proof. intros HK. apply conj_trace. apply exp_taylor_covariant; auto. Qed.

End Cov.
