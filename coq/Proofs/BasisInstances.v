(* Shared instances: the shipped bases -- Basis.pauli(n) for every n and Basis.ggm(d) for every d, as
   modelled in Model/BasisModel.v -- satisfy the hypothesis shapes under which other properties are
   proved:
     * Base/FMat.v            basis_herm / basis_orthonormal / basis_complete (sum_i C_i X C_i = tr(X) 1)
                              (C08, C09, C12: Proofs/InfidBasis.v, TraceId.v, CumulantAlg.v, CumulantCCP.v, BasisChange.v ..)
     * Proofs/Superop.v       b_herm / b_orth / b_complete (sum_k tr(C_k X) C_k = X), function level and list level (C15)
     * Proofs/AtomicAlg.v     Hherm / Hcomplete of Section Basis (X = sum_l tr(C_l X) C_l)  (C03, Proofs/Atomic.v)
   Generic bridges from the predicates of Proofs/BasisAlg.v (entrywise completeness relation) first,
   then the instances.  Usage: e.g. [apply (fmat_complete_ggm d Hd)] for a hypothesis
   [FMat.basis_complete d (d*d) (ggm_C d)].                                                        *)
From Coq Require Import ZArith Reals List Lra Lia Ring Arith.
From FF Require Import Base.Ops Inst.RInst Base.RAlg Model.BasisModel.
From FF Require Import Proofs.BasisAlg Proofs.BasisPauli Proofs.BasisGGMIdx Proofs.BasisGGM Proofs.BasisGGMComplete.
From FF Require Base.FMat Proofs.SuperopAlg Proofs.Superop Proofs.AtomicAlg.
Import ListNotations.
Local Open Scope R_scope.

(* ------------------------------------------------------------------ generic bridges *)
Section Bridges.
Variables (d n : nat) (Cb : nat -> fmat).
Hypothesis Hherm : BasisAlg.basis_herm d n Cb.
Hypothesis Hcomp : BasisAlg.basis_complete d n Cb.

(* sum_k tr(C_k X) C_k = X, entrywise *)
Lemma reconstruct_entry X a b : (a < d)%nat -> (b < d)%nat ->
  csumn' n (fun k => cmul' (ftr d (fmul d (Cb k) X)) (Cb k a b)) = X a b.
Proof.
  intros Ha Hb. rewrite <- (expand_reconstruct_f d n Cb X Hherm Hcomp a b Ha Hb).
  unfold freconstruct, fexpand. apply csumn_ext. intros k _. rewrite ftr_cyclic. reflexivity.
Qed.

(* sum_i C_i X C_i = tr(X) 1, entrywise *)
Lemma sandwich_entry X a b : (a < d)%nat -> (b < d)%nat ->
  csumn' n (fun i => fmul d (fmul d (Cb i) X) (Cb i) a b) = cmul' (ftr d X) (fid a b).
Proof.
  intros Ha Hb. unfold fmul.
  rewrite (csumn_ext n _ (fun i => csumn' d (fun e => csumn' d (fun c =>
             cmul' (X c e) (cmul' (Cb i a c) (cconj' (Cb i b e))))))).
  2:{ intros i Hi. apply csumn_ext. intros e He. rewrite <- csumn_mul_r. apply csumn_ext. intros c Hc.
      rewrite <- (Hherm i Hi e b He Hb). unfold fadj. ring. }
  rewrite csumn_swap.
  rewrite (csumn_ext d _ (fun e => csumn' d (fun c => cmul' (X c e) (cmul' (delta a b) (delta c e))))).
  2:{ intros e He. rewrite csumn_swap. apply csumn_ext. intros c Hc. rewrite csumn_mul_l, Hcomp by auto. reflexivity. }
  rewrite (csumn_ext d _ (fun e => cmul' (delta a b) (X e e))).
  2:{ intros e He. rewrite (csumn_ext d _ (fun c => if Nat.eqb c e then cmul' (delta a b) (X c e) else 0c)).
      apply (csumn_delta' d e (fun c => cmul' (delta a b) (X c e))); auto.
      intros c _. unfold delta. destruct (Nat.eqb c e); ring. }
  rewrite csumn_mul_l. unfold ftr, delta, fid. ring.
Qed.

(* Base/FMat.v *)
Lemma fmat_herm : FMat.basis_herm d n Cb.
Proof. exact Hherm. Qed.
Lemma fmat_complete : FMat.basis_complete d n Cb.
Proof. intros X a b Ha Hb. unfold FMat.fsum, fscal. apply sandwich_entry; auto. Qed.

(* Proofs/Superop.v, function level *)
Lemma superop_b_herm : Superop.b_herm d n Cb.
Proof. exact Hherm. Qed.
Lemma superop_b_complete : Superop.b_complete d n Cb.
Proof. intros X a b Ha Hb. unfold SuperopAlg.flin. apply reconstruct_entry; auto. Qed.

(* Proofs/AtomicAlg.v / Proofs/Atomic.v: X = sum_l tr(C_l X) C_l *)
Lemma atomic_complete : forall X : fmat, feq d X (AtomicAlg.flin n (fun l => ftr d (fmul d (Cb l) X)) Cb).
Proof. intros X a b Ha Hb. unfold AtomicAlg.flin. symmetry. apply reconstruct_entry; auto. Qed.
End Bridges.

Lemma fmat_orthonormal d n Cb : trace_orthonormal d n Cb -> FMat.basis_orthonormal d n Cb.
Proof. intros H k l Hk Hl. apply H; auto. Qed.
Lemma superop_b_orth d n Cb : trace_orthonormal d n Cb -> Superop.b_orth d n Cb.
Proof. intros H k l Hk Hl. apply H; auto. Qed.

(* ------------------------------------------------------------------ Basis.pauli(n), every n *)
Section PauliInst.
Variable n : nat.
Definition fmat_herm_pauli := fmat_herm (2 ^ n) (4 ^ n) (pauli_C n) (pauli_hermitian n).
Definition fmat_orthonormal_pauli := fmat_orthonormal (2 ^ n) (4 ^ n) (pauli_C n) (pauli_orthonormal n).
Definition fmat_complete_pauli := fmat_complete (2 ^ n) (4 ^ n) (pauli_C n) (pauli_hermitian n) (pauli_complete n).
Definition superop_b_herm_pauli := superop_b_herm (2 ^ n) (4 ^ n) (pauli_C n) (pauli_hermitian n).
Definition superop_b_orth_pauli := superop_b_orth (2 ^ n) (4 ^ n) (pauli_C n) (pauli_orthonormal n).
Definition superop_b_complete_pauli := superop_b_complete (2 ^ n) (4 ^ n) (pauli_C n) (pauli_hermitian n) (pauli_complete n).
Definition atomic_complete_pauli := atomic_complete (2 ^ n) (4 ^ n) (pauli_C n) (pauli_hermitian n) (pauli_complete n).

(* list level: the list [pauli_basis RO n] itself *)
Lemma superop_basis_herm_pauli : Superop.basis_herm (2 ^ n) (pauli_basis RO n).
Proof. unfold Superop.basis_herm. rewrite pauli_basis_length. exact superop_b_herm_pauli. Qed.
Lemma superop_basis_orth_pauli : Superop.basis_orth (2 ^ n) (pauli_basis RO n).
Proof. unfold Superop.basis_orth. rewrite pauli_basis_length. exact superop_b_orth_pauli. Qed.
Lemma superop_basis_complete_pauli : Superop.basis_complete (2 ^ n) (pauli_basis RO n).
Proof. unfold Superop.basis_complete. rewrite pauli_basis_length. exact superop_b_complete_pauli. Qed.
Lemma atomic_Hherm_pauli : forall l, (l < length (pauli_basis RO n))%nat -> fherm (2 ^ n) (AtomicAlg.Cf (pauli_basis RO n) l).
Proof. rewrite pauli_basis_length. exact (pauli_hermitian n). Qed.
Lemma atomic_Hcomplete_pauli : forall X : fmat,
  feq (2 ^ n) X (AtomicAlg.flin (length (pauli_basis RO n)) (fun l => ftr (2 ^ n) (fmul (2 ^ n) (AtomicAlg.Cf (pauli_basis RO n) l) X))
                                (AtomicAlg.Cf (pauli_basis RO n))).
Proof. rewrite pauli_basis_length. exact atomic_complete_pauli. Qed.
End PauliInst.

(* ------------------------------------------------------------------ Basis.ggm(d), every d *)
Section GGMInst.
Variable d : nat.
Hypothesis Hd : (0 < d)%nat.
Definition fmat_herm_ggm := fmat_herm d (d * d) (ggm_C d) (ggm_hermitian d Hd).
Definition fmat_orthonormal_ggm := fmat_orthonormal d (d * d) (ggm_C d) (ggm_orthonormal d Hd).
Definition fmat_complete_ggm := fmat_complete d (d * d) (ggm_C d) (ggm_hermitian d Hd) (ggm_complete d Hd).
Definition superop_b_herm_ggm := superop_b_herm d (d * d) (ggm_C d) (ggm_hermitian d Hd).
Definition superop_b_orth_ggm := superop_b_orth d (d * d) (ggm_C d) (ggm_orthonormal d Hd).
Definition superop_b_complete_ggm := superop_b_complete d (d * d) (ggm_C d) (ggm_hermitian d Hd) (ggm_complete d Hd).
Definition atomic_complete_ggm := atomic_complete d (d * d) (ggm_C d) (ggm_hermitian d Hd) (ggm_complete d Hd).

Lemma ggm_list_length : length (ggm_basis RO d) = (d * d)%nat.
Proof. apply build_length. Qed.

(* the elements of the list are the functions ggm_C on the index range *)
Lemma ggm_list_elem k : (k < d * d)%nat -> toF (nth k (ggm_basis RO d) []) = ggm_C d k.
Proof. apply ggm_basis_nth. Qed.

Lemma superop_basis_herm_ggm : Superop.basis_herm d (ggm_basis RO d).
Proof.
  unfold Superop.basis_herm. rewrite ggm_list_length. intros k Hk. unfold Superop.Cl, Numeric.nthm.
  rewrite ggm_list_elem by auto. apply (ggm_hermitian d Hd); auto.
Qed.
Lemma superop_basis_orth_ggm : Superop.basis_orth d (ggm_basis RO d).
Proof.
  unfold Superop.basis_orth. rewrite ggm_list_length. intros i j Hi Hj. unfold Superop.Cl, Numeric.nthm.
  rewrite !ggm_list_elem by auto. apply (ggm_orthonormal d Hd); auto.
Qed.
Lemma superop_basis_complete_ggm : Superop.basis_complete d (ggm_basis RO d).
Proof.
  unfold Superop.basis_complete. rewrite ggm_list_length. intros X a b Ha Hb. unfold SuperopAlg.flin.
  rewrite <- (reconstruct_entry d (d * d) (ggm_C d) (ggm_hermitian d Hd) (ggm_complete d Hd) X a b Ha Hb).
  apply csumn_ext. intros k Hk. unfold Superop.Cl, Numeric.nthm. rewrite ggm_list_elem by auto. reflexivity.
Qed.
Lemma atomic_Hherm_ggm : forall l, (l < length (ggm_basis RO d))%nat -> fherm d (AtomicAlg.Cf (ggm_basis RO d) l).
Proof. rewrite ggm_list_length. intros l Hl. unfold AtomicAlg.Cf. rewrite ggm_list_elem by auto. apply (ggm_hermitian d Hd); auto. Qed.
Lemma atomic_Hcomplete_ggm : forall X : fmat,
  feq d X (AtomicAlg.flin (length (ggm_basis RO d)) (fun l => ftr d (fmul d (AtomicAlg.Cf (ggm_basis RO d) l) X))
                          (AtomicAlg.Cf (ggm_basis RO d))).
Proof.
  rewrite ggm_list_length. intros X a b Ha Hb. unfold AtomicAlg.flin.
  rewrite <- (reconstruct_entry d (d * d) (ggm_C d) (ggm_hermitian d Hd) (ggm_complete d Hd) X a b Ha Hb).
  apply csumn_ext. intros k Hk. unfold AtomicAlg.Cf. rewrite ggm_list_elem by auto. reflexivity.
Qed.
End GGMInst.
