(* Semantic tie of the concatenation kernels (C03): numeric.calculate_control_matrix_from_atomic(which='correlations') and
   numeric.calculate_pulse_correlation_filter_function; terms translated from the current Python sources by
   tools/kernel_extract.py (Extracted/Kernels.v) equal the model functions of Model/Atomic.v. *)
From Coq Require Import ZArith Reals Lra Lia List.
From FF Require Import Base.Ops Inst.RInst Base.RAlg Model.Numeric Model.Atomic Extracted.Kernels.
Import ListNotations.
Local Open Scope R_scope.

Example kernels_translated_C03 : kernel_untranslated_C03 = nil.
Proof. reflexivity. Qed.

Lemma sumn_lin2 n a b (f g : nat -> R) :
  a * sumn RO n f - b * sumn RO n g = sumn RO n (fun k => a * f k - b * g k).
Proof. induction n; simpl. ring. rewrite <- IHn. ring. Qed.
Lemma sumn_lin2' n a b (f g : nat -> R) :
  a * sumn RO n f + b * sumn RO n g = sumn RO n (fun k => a * f k + b * g k).
Proof. induction n; simpl. ring. rewrite <- IHn. ring. Qed.

(* which = 'correlations': the loop fills row g with expr(phases[g]*control_matrix_atomic[g], propagators_liouville[g]) *)
Theorem cm_atomic_pc_is_source na nk no (phases : list (list Cx)) (cms : list (Arr3 (T:=R))) (Ls : list (list (list R))) g a k o :
  (g < length cms)%nat -> (a < na)%nat -> (k < nk)%nat -> (o < no)%nat ->
  a3get RO (nth g (cm_from_atomic_pc RO na nk no phases cms Ls) nil) a k o =
  cm_atomic_pc_entry_src RO nk
    (fun g' o' => nth o' (nth g' phases nil) (c0 RO))
    (fun g' a' j o' => a3get RO (nth g' cms nil) a' j o')
    (fun g' j k' => rget RO (nth g' Ls nil) j k') g a k o.
Proof.
  intros Hg Ha Hk Ho. unfold cm_from_atomic_pc. rewrite nth_build by assumption.
  unfold a3get at 1, a3build. rewrite !nth_build by assumption. unfold cm_atomic_pc_entry_src.
  apply c_eq; csimp; rewrite csumn_re, csumn_im; csimp;
    [rewrite sumn_lin2 | rewrite sumn_lin2']; apply sumn_ext; intros j _; ring.
Qed.

(* 'gako,hbko->ghabo' on (conj B, B) *)
Theorem pc_ff_is_source nk (Bpc : list (Arr3 (T:=R))) g h a b o :
  pc_ff_entry RO nk Bpc g h a b o =
  pc_ff_entry_src RO nk (fun g' a' k o' => a3get RO (nth g' Bpc nil) a' k o') g h a b o.
Proof.
  unfold pc_ff_entry, pc_ff_entry_src.
  apply c_eq; [rewrite csumn_re | rewrite csumn_im]; apply sumn_ext; intros k _; csimp; reflexivity.
Qed.

(* 'gako,hblo->ghabklo' *)
Theorem pc_ffgen_is_source (Bpc : list (Arr3 (T:=R))) g h a b k l o :
  pc_ff_gen_entry RO Bpc g h a b k l o =
  pc_ffgen_entry_src RO (fun g' a' k' o' => a3get RO (nth g' Bpc nil) a' k' o') g h a b k l o.
Proof. reflexivity. Qed.
