(* C14 -- Basis.from_partial / _full_from_partial: the completed basis B_i = sum_j W_ij G_j with
   W = [A; N] (A: expansion coefficients of the supplied normalised elements, N: the null-space
   oracle) is orthonormal / Hermitian / complete whenever W passes the residual validation
   (orthonormal rows; orthonormal columns for completeness), and contains the supplied elements. *)
From Coq Require Import ZArith Reals List Lra Lia Ring Arith Bool.
From FF Require Import Base.Ops Inst.RInst Base.RAlg Model.BasisModel Proofs.BasisAlg Proofs.BasisGGMIdx Proofs.BasisGGM.
Import ListNotations.
Local Open Scope R_scope.

(* Hilbert-Schmidt inner product <A, B> = tr(A^dagger B) *)
Definition ip (d : nat) (A Bm : fmat) : Cx := ftr d (fmul d (fadj A) Bm).

Lemma ip_entries d A Bm : ip d A Bm = csumn' d (fun a => csumn' d (fun b => cmul' (cconj' (A b a)) (Bm b a))).
Proof. reflexivity. Qed.

Lemma ip_recon_r d n A c Cb :
  ip d A (freconstruct n c Cb) = csumn' n (fun l => cmul' (c l) (ip d A (Cb l))).
Proof.
  rewrite ip_entries. unfold freconstruct.
  rewrite (csumn_ext d _ (fun a => csumn' n (fun l => cmul' (c l) (csumn' d (fun b => cmul' (cconj' (A b a)) (Cb l b a)))))).
  2:{ intros a _. rewrite (csumn_ext d _ (fun b => csumn' n (fun l => cmul' (c l) (cmul' (cconj' (A b a)) (Cb l b a))))).
      2:{ intros b _. rewrite <- csumn_mul_l. apply csumn_ext. intros l _. ring. }
      rewrite csumn_swap. apply csumn_ext. intros l _. rewrite csumn_mul_l. reflexivity. }
  rewrite csumn_swap. apply csumn_ext. intros l _. rewrite csumn_mul_l. reflexivity.
Qed.

Lemma ip_recon_l d n Bm c Cb :
  ip d (freconstruct n c Cb) Bm = csumn' n (fun l => cmul' (cconj' (c l)) (ip d (Cb l) Bm)).
Proof.
  rewrite ip_entries. unfold freconstruct.
  rewrite (csumn_ext d _ (fun a => csumn' n (fun l => cmul' (cconj' (c l)) (csumn' d (fun b => cmul' (cconj' (Cb l b a)) (Bm b a)))))).
  2:{ intros a _. rewrite (csumn_ext d _ (fun b => csumn' n (fun l => cmul' (cconj' (c l)) (cmul' (cconj' (Cb l b a)) (Bm b a))))).
      2:{ intros b _. rewrite csumn_conj, <- csumn_mul_r. apply csumn_ext. intros l _. rewrite cconj_mul. ring. }
      rewrite csumn_swap. apply csumn_ext. intros l _. rewrite csumn_mul_l. reflexivity. }
  rewrite csumn_swap. apply csumn_ext. intros l _. rewrite csumn_mul_l. reflexivity.
Qed.

Section Mix.
Variables (d n : nat) (G : nat -> fmat) (W : nat -> nat -> Cx).
Definition mixB (i : nat) : fmat := freconstruct n (W i) G.

(* rows of W orthonormal: sum_j conj(W_ij) W_kj = delta_ik *)
Definition rows_orthonormal (m : nat) : Prop :=
  forall i k, (i < m)%nat -> (k < m)%nat -> csumn' n (fun j => cmul' (cconj' (W i j)) (W k j)) = delta i k.
(* columns of W orthonormal: sum_i W_ij conj(W_il) = delta_jl *)
Definition cols_orthonormal (m : nat) : Prop :=
  forall j l, (j < n)%nat -> (l < n)%nat -> csumn' m (fun i => cmul' (W i j) (cconj' (W i l))) = delta j l.

Theorem mix_orthonormal m : hs_orthonormal d n G -> rows_orthonormal m -> hs_orthonormal d m mixB.
Proof.
  intros HG HW i k Hi Hk. fold (ip d (mixB i) (mixB k)). unfold mixB.
  rewrite ip_recon_l.
  rewrite (csumn_ext n _ (fun j => cmul' (cconj' (W i j)) (W k j))).
  apply HW; auto.
  intros j Hj. rewrite ip_recon_r.
  rewrite (csumn_ext n _ (fun l => if Nat.eqb j l then W k l else 0c)).
  rewrite (csumn_delta n j (fun l => W k l)) by auto. reflexivity.
  intros l Hl. unfold ip. rewrite HG by auto. unfold delta. destruct (Nat.eqb j l); ring.
Qed.

Theorem mix_hermitian m : basis_herm d n G -> (forall i j, (i < m)%nat -> (j < n)%nat -> snd (W i j) = 0) ->
  basis_herm d m mixB.
Proof.
  intros HG HW i Hi a b Ha Hb. unfold fadj, mixB, freconstruct. rewrite csumn_conj. apply csumn_ext. intros j Hj.
  rewrite cconj_mul. rewrite <- (HG j Hj a b Ha Hb). unfold fadj.
  f_equal. specialize (HW i j Hi Hj). destruct (W i j). simpl in *. subst. apply c_eq; csimp; ring.
Qed.

Theorem mix_complete m : basis_complete d n G -> cols_orthonormal m -> basis_complete d m mixB.
Proof.
  intros HG HW a b c e Ha Hb Hc He. unfold mixB, freconstruct.
  rewrite (csumn_ext m _ (fun i => csumn' n (fun j => csumn' n (fun l =>
     cmul' (cmul' (W i j) (cconj' (W i l))) (cmul' (G j a b) (cconj' (G l c e))))))).
  2:{ intros i _. rewrite csumn_conj, csumn_prod. apply csumn_ext. intros j _. apply csumn_ext. intros l _.
      rewrite cconj_mul. ring. }
  rewrite csumn_swap.
  rewrite (csumn_ext n _ (fun j => cmul' (G j a b) (cconj' (G j c e)))).
  apply HG; auto.
  intros j Hj. rewrite csumn_swap.
  rewrite (csumn_ext n _ (fun l => if Nat.eqb j l then cmul' (G j a b) (cconj' (G l c e)) else 0c)).
  apply (csumn_delta n j (fun l => cmul' (G j a b) (cconj' (G l c e)))); auto.
  intros l Hl. rewrite csumn_mul_r, HW by auto. unfold delta. destruct (Nat.eqb j l); ring.
Qed.

(* containment: a row of expansion coefficients of E in a complete Hermitian G reproduces E *)
Theorem mix_contains i E : basis_herm d n G -> basis_complete d n G ->
  (forall j, (j < n)%nat -> W i j = fexpand d E G j) -> feq d (mixB i) E.
Proof.
  intros Hh Hc HW. unfold mixB.
  eapply feq_trans; [|apply (expand_reconstruct_f d n G E Hh Hc)].
  intros a b _ _. unfold freconstruct. apply csumn_ext. intros j Hj. rewrite HW; auto.
Qed.
End Mix.

(* containment on the traceless path: the identity G_0 is split off, E has no identity component *)
Theorem mix_contains_traceless d n G W i E : basis_herm d (S n) G -> basis_complete d (S n) G ->
  fexpand d E G 0 = 0c ->
  (forall j, (j < n)%nat -> W i j = fexpand d E G (S j)) ->
  feq d (mixB n (fun j => G (S j)) W i) E.
Proof.
  intros Hh Hc H0 HW. unfold mixB.
  eapply feq_trans; [|apply (expand_reconstruct_f d (S n) G E Hh Hc)].
  intros a b _ _. unfold freconstruct. rewrite csumn_shift0, H0.
  rewrite (csumn_ext n (fun k => cmul' (W i k) (G (S k) a b)) (fun k => cmul' (fexpand d E G (S k)) (G (S k) a b))).
  ring. intros j Hj. rewrite HW; auto.
Qed.

(* ------------------------------------------------------------------ the list model *)
Definition Wf (Wl : list (list Cx)) (i j : nat) : Cx := nth j (nth i Wl []) 0c.
Definition Gf (g : list Mat) (j : nat) : fmat := toF (nth j g []).

Lemma toF_reconstruct d row g a b : (a < d)%nat -> (b < d)%nat ->
  toF (reconstruct RO d row g) a b = freconstruct (length g) (fun j => nth j row 0c) (Gf g) a b.
Proof. intros Ha Hb. unfold reconstruct. rewrite toF_mbuild by auto. reflexivity. Qed.

Lemma fp_combine_nth d Wl g i : (i < length Wl)%nat ->
  feq d (toF (nth i (fp_combine RO d Wl g) [])) (mixB (length g) (Gf g) (Wf Wl) i).
Proof.
  intros Hi a b Ha Hb. unfold fp_combine.
  rewrite (nth_map' (fun row => reconstruct RO d row g) Wl i [] []) by auto.
  rewrite toF_reconstruct by auto. reflexivity.
Qed.

Lemma hs_orthonormal_ext d n Cb Cb' : (forall i, (i < n)%nat -> feq d (Cb i) (Cb' i)) ->
  hs_orthonormal d n Cb' -> hs_orthonormal d n Cb.
Proof.
  intros He H i j Hi Hj. rewrite <- (H i j Hi Hj). apply ftr_ext. apply fmul_ext.
  - intros a b Ha Hb. unfold fadj. rewrite (He i Hi b a Hb Ha). reflexivity.
  - apply He; auto.
Qed.

(* body of the completed basis (without the identity that is split off when traceless) *)
Theorem fp_combine_orthonormal d Wl g :
  hs_orthonormal d (length g) (Gf g) ->
  rows_orthonormal (length g) (Wf Wl) (length Wl) ->
  hs_orthonormal d (length Wl) (fun i => toF (nth i (fp_combine RO d Wl g) [])).
Proof.
  intros HG HW. eapply hs_orthonormal_ext. intros i Hi. apply fp_combine_nth; auto.
  apply mix_orthonormal; auto.
Qed.

(* the validation residual of the model is the rows' Gram matrix *)
Lemma rows_gram_Wf Wl i k : (length (nth i Wl []) = length (nth k Wl []))%nat ->
  rows_gram RO Wl i k = csumn' (length (nth i Wl [])) (fun j => cmul' (cconj' (Wf Wl i j)) (Wf Wl k j)).
Proof. intros _. reflexivity. Qed.

(* ------------------------------------------------------------------ from_partial on the GGM basis *)
Section FromPartial.
Variable d : nat.
Hypothesis Hd : (0 < d)%nat.

Lemma ggm_basis_length : length (ggm_basis RO d) = (d * d)%nat.
Proof. apply build_length. Qed.

Lemma Gf_ggm j : (j < d * d)%nat -> Gf (ggm_basis RO d) j = ggm_C d j.
Proof. intros H. unfold Gf. apply ggm_basis_nth; auto. Qed.

Lemma Gf_ggm_tl j : (S j < d * d)%nat -> Gf (tl (ggm_basis RO d)) j = ggm_C d (S j).
Proof.
  intros H. unfold Gf. rewrite <- (Gf_ggm (S j) H). unfold Gf.
  destruct (ggm_basis RO d) eqn:E. simpl. destruct j; reflexivity. reflexivity.
Qed.

Lemma tl_length : length (tl (ggm_basis RO d)) = (d * d - 1)%nat.
Proof. destruct (ggm_basis RO d) eqn:E; simpl; rewrite <- ggm_basis_length, E; simpl; lia. Qed.

Lemma fp_ggm_orthonormal traceless :
  hs_orthonormal d (length (fp_ggm RO d traceless)) (Gf (fp_ggm RO d traceless)).
Proof.
  pose proof (ggm_hs_orthonormal d Hd) as H. destruct traceless; simpl.
  - rewrite tl_length. intros i j Hi Hj. rewrite !Gf_ggm_tl by lia. rewrite H by lia.
    unfold delta. simpl. reflexivity.
  - rewrite ggm_basis_length. intros i j Hi Hj. rewrite !Gf_ggm by auto. apply H; auto.
Qed.

(* traceless = False: the whole result is the mixture of the full GGM basis *)
Theorem from_partial_onb_full A N : A <> [] ->
  rows_orthonormal (d * d) (Wf (A ++ N)) (length (A ++ N)) ->
  hs_orthonormal d (length (A ++ N)) (fun i => toF (nth i (fp_basis_raw RO d false A N) [])).
Proof.
  intros HA HW. unfold fp_basis_raw. destruct A as [|r A']. contradiction.
  cbn [fp_ggm]. apply fp_combine_orthonormal.
  - apply (fp_ggm_orthonormal false).
  - rewrite ggm_basis_length. exact HW.
Qed.

(* traceless = True: identity first, then the mixture of the traceless GGM elements *)
Theorem from_partial_onb_traceless A N : A <> [] ->
  rows_orthonormal (d * d - 1) (Wf (A ++ N)) (length (A ++ N)) ->
  hs_orthonormal d (S (length (A ++ N))) (fun i => toF (nth i (fp_basis_raw RO d true A N) [])).
Proof.
  intros HA HW. unfold fp_basis_raw. destruct A as [|r A']. contradiction.
  cbn [fp_ggm]. set (Wl := (r :: A') ++ N) in *. set (g := tl (ggm_basis RO d)).
  assert (Hbody : hs_orthonormal d (length Wl) (fun i => toF (nth i (fp_combine RO d Wl g) []))).
  { apply fp_combine_orthonormal. apply (fp_ggm_orthonormal true). unfold g. rewrite tl_length. exact HW. }
  assert (Hid : toF (hd [] (ggm_basis RO d)) = ggm_C d 0).
  { rewrite <- (ggm_basis_nth d 0) by nia. destruct (ggm_basis RO d); reflexivity. }
  pose proof (ggm_hs_orthonormal d Hd) as HGG.
  (* <Id, B_k> = sum_l W_kl <Lambda_0, Lambda_{l+1}> = 0 *)
  assert (Hcross : forall k, (k < length Wl)%nat ->
            ip d (ggm_C d 0) (toF (nth k (fp_combine RO d Wl g) [])) = 0c).
  { intros k Hk. unfold ip.
    rewrite (ftr_ext d _ (fmul d (fadj (ggm_C d 0)) (mixB (length g) (Gf g) (Wf Wl) k))).
    2:{ apply fmul_ext. apply feq_refl. apply fp_combine_nth; auto. }
    fold (ip d (ggm_C d 0) (mixB (length g) (Gf g) (Wf Wl) k)). unfold mixB. rewrite ip_recon_r.
    rewrite (csumn_ext _ _ (fun _ => 0c)). apply csumn_0.
    intros l Hl. unfold g in Hl. rewrite tl_length in Hl. unfold g. rewrite Gf_ggm_tl by lia.
    unfold ip. rewrite HGG by lia. unfold delta. simpl. ring. }
  intros i k Hi Hk. destruct i as [|i]; destruct k as [|k]; cbn [nth]; rewrite ?Hid.
  - rewrite HGG by nia. reflexivity.
  - fold (ip d (ggm_C d 0) (toF (nth k (fp_combine RO d Wl g) []))). rewrite Hcross by lia. reflexivity.
  - (* conjugate symmetry *)
    assert (Hc : ftr d (fmul d (fadj (toF (nth i (fp_combine RO d Wl g) []))) (ggm_C d 0)) =
                 cconj' (ip d (ggm_C d 0) (toF (nth i (fp_combine RO d Wl g) [])))).
    { unfold ip. rewrite <- ftr_adj. apply ftr_ext. apply feq_sym.
      eapply feq_trans. apply fadj_mul. apply fmul_ext. apply feq_refl.
      intros a b _ _. apply fadj_invol. }
    rewrite Hc, Hcross by lia. apply cconj_0.
  - rewrite Hbody by lia. unfold delta. simpl. reflexivity.
Qed.

(* nothing supplied beyond (multiples of) the identity: the result is the GGM basis itself *)
Theorem from_partial_onb_empty traceless N :
  hs_orthonormal d (d * d) (fun i => toF (nth i (fp_basis_raw RO d traceless [] N) [])).
Proof.
  assert (H : fp_basis_raw RO d traceless [] N = ggm_basis RO d).
  { unfold fp_basis_raw. destruct traceless; simpl; auto.
    destruct (ggm_basis RO d) eqn:E; auto. pose proof ggm_basis_length as HL. rewrite E in HL. simpl in HL. nia. }
  rewrite H. intros i j Hi Hj. rewrite !ggm_basis_nth by auto. apply ggm_hs_orthonormal; auto.
Qed.

(* identity first when a traceless basis is produced *)
Theorem from_partial_identity_first A N a b : (a < d)%nat -> (b < d)%nat ->
  toF (nth 0 (fp_basis_raw RO d true A N) []) a b = if Nat.eqb a b then (1 / sqrt (INR d), 0) else 0c.
Proof.
  intros Ha Hb. unfold fp_basis_raw. cbn [nth].
  assert (Hid : toF (hd [] (ggm_basis RO d)) = ggm_C d 0).
  { rewrite <- (ggm_basis_nth d 0) by nia. destruct (ggm_basis RO d); reflexivity. }
  rewrite Hid. apply ggm_C_id; auto.
Qed.

End FromPartial.

(* the final tidyup() moves every component by at most eps d^3 *)
Lemma tidyup_entry d bs i a b : (i < length bs)%nat -> (a < d)%nat -> (b < d)%nat ->
  mget RO (nth i (tidyup RO d bs) []) a b = crfe RO (atol_basis RO d) (mget RO (nth i bs []) a b).
Proof.
  intros Hi Ha Hb. unfold tidyup.
  rewrite (nth_map' (fun Cm => mbuild d d (fun a b => crfe RO (atol_basis RO d) (mget RO Cm a b))) bs i [] []) by auto.
  apply mget_mbuild; auto.
Qed.

(* ------------------------------------------------------------------ bookkeeping: labels and control flow *)
Section Book.
Variable L : Type.
Variable dflt : nat -> L.

Lemma move_to_front_length i (l : list L) : length (move_to_front L i l) = length l.
Proof.
  unfold move_to_front. destruct (nth_error l i) eqn:E; auto.
  assert (Hi : (i < length l)%nat) by (apply nth_error_Some; congruence).
  cbn [length]. rewrite app_length, firstn_length, skipn_length. lia.
Qed.

Lemma move_to_front_head i (l : list L) x : nth_error l i = Some x -> hd_error (move_to_front L i l) = Some x.
Proof. intros H. unfold move_to_front. rewrite H. reflexivity. Qed.

(* supplied labels (same number as elements): d^2 labels come out, the identity's label first when
   traceless, the other supplied labels in order, then default labels *)
Theorem fp_labels_length d nelems traceless isid ls out : (nelems <= d * d)%nat -> length ls = nelems ->
  fp_labels L dflt d nelems traceless isid (Some ls) = Some (Some out) -> length out = (d * d)%nat.
Proof.
  intros Hn Hl H. unfold fp_labels in H. rewrite Hl, Nat.eqb_refl in H. inversion H; subst.
  rewrite app_length, map_length, seq_length.
  destruct traceless; rewrite ?move_to_front_length; lia.
Qed.

Theorem fp_labels_reject d nelems traceless isid ls :
  length ls <> nelems -> length ls <> (d * d)%nat ->
  fp_labels L dflt d nelems traceless isid (Some ls) = None.
Proof.
  intros H1 H2. unfold fp_labels.
  destruct (Nat.eqb_spec (length ls) nelems); try contradiction.
  destruct (Nat.eqb_spec (length ls) (d * d)); try contradiction. reflexivity.
Qed.
End Book.

(* rejection conditions of _full_from_partial *)
Theorem fp_control_reject_orth tv tr lab : fp_control true tv tr lab = FpNotOrthonormal.
Proof. reflexivity. Qed.
Theorem fp_control_reject_traceless lab : fp_control false true (Some true) lab = FpNotTraceless.
Proof. reflexivity. Qed.
Theorem fp_control_accept tv tr : tr <> Some true \/ tv = false ->
  exists t, fp_control false tv tr true = FpOk t /\
            t = match tr with None => negb tv | Some x => x end.
Proof.
  intros H. destruct tr as [[|]|]; destruct tv; simpl; eauto.
  destruct H as [H|H]; [contradiction H; auto | discriminate].
Qed.

(* ------------------------------------------------------------------ label bookkeeping: a defect of the code *)
(* traceless, no identity among the two supplied elements (labels 7, 8): the completed basis is
   [identity; element 0; element 1; ..] (fp_basis_raw puts the identity first) but the labels come
   out as [7; 8; default 2; default 3] -- label 7 sits on the identity, element 1 loses its label.   *)
Definition labels_aligned (L : Type) (ls out : list L) (shift : nat) : Prop :=
  forall i x, nth_error ls i = Some x -> nth_error out (shift + i) = Some x.

Theorem fp_labels_refuted :
  exists out, fp_labels nat (fun i => 1000 + i)%nat 2 2 true [false; false] (Some [7; 8]%nat) = Some (Some out) /\
              ~ labels_aligned nat [7; 8]%nat out 1.
Proof.
  exists [7; 8; 1002; 1003]%nat. split. reflexivity.
  intros H. specialize (H 0%nat 7%nat eq_refl). simpl in H. discriminate.
Qed.

(* with the identity among the supplied elements the labels are aligned (identity's label first) *)
Example fp_labels_with_identity :
  fp_labels nat (fun i => 1000 + i)%nat 2 3 true [false; true; false] (Some [7; 8; 9]%nat) = Some (Some [8; 7; 9; 1003]%nat).
Proof. reflexivity. Qed.

(* the oracle hypothesis is satisfiable: d = 2, one supplied element with coefficient row e_1, null space e_0, e_2, e_3 *)
Definition exA : list (list Cx) := [[0c; 1c; 0c; 0c]].
Definition exN : list (list Cx) := [[1c; 0c; 0c; 0c]; [0c; 0c; 1c; 0c]; [0c; 0c; 0c; 1c]].
Example rows_orthonormal_sat : rows_orthonormal (2 * 2) (Wf (exA ++ exN)) (length (exA ++ exN)).
Proof.
  intros i k Hi Hk. simpl in Hi, Hk.
  destruct i as [|[|[|[|i]]]]; try lia; destruct k as [|[|[|[|k]]]]; try lia;
    unfold Wf, exA, exN, delta; simpl; apply c_eq; simpl; ring.
Qed.
Example from_partial_onb_full_sat :
  hs_orthonormal 2 4 (fun i => toF (nth i (fp_basis_raw RO 2 false exA exN) [])).
Proof. apply (from_partial_onb_full 2 ltac:(lia) exA exN). discriminate. apply rows_orthonormal_sat. Qed.
