(* C15: concrete instances -- the normalised Pauli basis (d = 2) satisfies the hypotheses of the
   theorems of Proofs/Superop.v; transposition is not completely positive; the closed-form path trusts
   the btype label.                                                                          *)
From Coq Require Import ZArith Reals Lra Lia List Bool Morphisms Setoid.
From FF Require Import Base.Ops Inst.RInst Base.RAlg Model.Numeric Model.Superop Proofs.SuperopAlg Proofs.Superop.
Import ListNotations.
Local Open Scope R_scope.

Definition sP : R := inv_sqrt2 RO.
Definition pauli1 : list (Mat (T:=R)) :=
  [ [[(sP,0);(0,0)];[(0,0);(sP,0)]];
    [[(0,0);(sP,0)];[(sP,0);(0,0)]];
    [[(0,0);(0,-sP)];[(0,sP);(0,0)]];
    [[(sP,0);(0,0)];[(0,0);(-sP,0)]] ].

Lemma sP2 : sP ^ 2 = / 2.
Proof.
  unfold sP, inv_sqrt2, sqrt2, o2; simpl.
  assert (H : sqrt (1 + 1) * sqrt (1 + 1) = 1 + 1) by (apply sqrt_sqrt; lra).
  assert (sqrt (1 + 1) <> 0) by (intros E; rewrite E in H; lra).
  field_simplify; auto. replace (sqrt (1+1) ^ 2) with (1 + 1) by (rewrite <- H at 1; ring). lra.
Qed.

Ltac psolve := apply c_eq; csimp; ring_simplify; rewrite ?sP2; try lra.

Lemma lt4 i : (i < 4)%nat -> i = 0%nat \/ i = 1%nat \/ i = 2%nat \/ i = 3%nat. Proof. lia. Qed.
Lemma lt2 i : (i < 2)%nat -> i = 0%nat \/ i = 1%nat. Proof. lia. Qed.

Example pauli_herm : basis_herm 2 pauli1.
Proof.
  intros i Hi a b Ha Hb. apply lt4 in Hi. apply lt2 in Ha. apply lt2 in Hb.
  destruct Hi as [-> | [-> | [-> | ->]]], Ha as [-> | ->], Hb as [-> | ->];
    unfold fadj, Cl, toF, nthm, mget; simpl; cring.
Qed.
Example pauli_orth : basis_orth 2 pauli1.
Proof.
  intros i j Hi Hj. apply lt4 in Hi. apply lt4 in Hj.
  destruct Hi as [-> | [-> | [-> | ->]]], Hj as [-> | [-> | [-> | ->]]];
    unfold ftr, fmul, Cl, toF, nthm, mget; simpl; psolve.
Qed.
Example pauli_complete : basis_complete 2 pauli1.
Proof.
  intros X a b Ha Hb. apply lt2 in Ha. apply lt2 in Hb.
  destruct Ha as [-> | ->], Hb as [-> | ->];
    unfold flin, ftr, fmul, Cl, toF, nthm, mget; simpl; psolve.
Qed.

(* ---- transposition in the Pauli basis: S = diag(1,1,-1,1); its Choi matrix is the swap ---- *)
Definition transp (X : fmat) : fmat := fun a b => X b a.
Lemma transp_lin d n Cb : lin_map d n Cb transp.
Proof.
  split.
  - intros X Y H a b Ha Hb. unfold transp. apply H; auto.
  - intros c a b _ _. reflexivity.
Qed.
Definition S_T : list (list R) := [[1;0;0;0];[0;1;0;0];[0;0;-1;0];[0;0;0;1]].
Lemma S_T_is_transp i j : (i < 4)%nat -> (j < 4)%nat -> Sfun S_T i j = liou_of 2 (Cl pauli1) transp i j.
Proof.
  intros Hi Hj. apply lt4 in Hi. apply lt4 in Hj.
  destruct Hi as [-> | [-> | [-> | ->]]], Hj as [-> | [-> | [-> | ->]]];
    unfold Sfun, rget, vg, nthv, vget, liou_of, transp, ftr, fmul, Cl, toF, nthm, mget; simpl; psolve.
Qed.

Notation ChoiT := (toF (liouville_to_choi RO 2 S_T pauli1)).
Definition swapF : fmat := fun r c => if Nat.eqb (c mod 2) (r / 2) && Nat.eqb (r mod 2) (c / 2) then 1c else 0c.
Lemma choiT_swap : feq 4 ChoiT swapF.
Proof.
  intros r c Hr Hc. change 4%nat with (2 * 2)%nat in Hr, Hc. rewrite choi_entry by auto.
  rewrite (choiF_ext 2 pauli1 _ _ S_T_is_transp). unfold choiF.
  assert (H2 : (0 < 2)%nat) by lia.
  destruct (div_mod_lt 2 r H2 Hr), (div_mod_lt 2 c H2 Hc).
  rewrite (choi4_formula 2 4 (Cl pauli1) transp _ _ _ _ pauli_complete (transp_lin 2 4 (Cl pauli1))) by auto.
  reflexivity.
Qed.

Definition xT : fvec := fun r => match r with 1%nat => 1c | 2%nat => cneg' 1c | _ => 0c end.
Lemma choiT_qform : qform 4 ChoiT xT = (-2, 0).
Proof. rewrite (qform_ext 4 _ _ xT choiT_swap). unfold qform, swapF, xT. simpl. cring. Qed.
Lemma xT_norm : vnorm2 4 xT = 2.
Proof. unfold vnorm2, xT. simpl. unfold cabs2. simpl. ring. Qed.
(* (0,1,-1,0) is an eigenvector of the Choi matrix with eigenvalue -1 *)
Theorem choiT_eigenvector r : (r < 4)%nat -> fmv 4 ChoiT xT r = cneg' (xT r).
Proof.
  intros Hr. rewrite (fmv_ext 4 _ swapF xT xT r choiT_swap) by auto.
  apply lt4 in Hr. destruct Hr as [-> | [-> | [-> | ->]]]; unfold fmv, swapF, xT; simpl; cring.
Qed.

Lemma basis_atol_2 : basis_atol RO 2 < 1.
Proof.
  rewrite basis_atol_val. simpl INR.
  assert (H : 16 <= 2 ^ 52).
  { replace 16 with (2 ^ 4) by (simpl; ring). apply Rle_pow; [lra | lia]. }
  assert (0 < / 2 ^ 52 <= / 16).
  { split. apply Rinv_0_lt_compat. lra. apply Rinv_le_contravar; lra. }
  lra.
Qed.

(* numerical range of the swap matrix: [-1, 1] *)
Lemma choiT_range x : -1 * vnorm2 4 x <= fst (qform 4 ChoiT x) <= 1 * vnorm2 4 x.
Proof.
  rewrite (qform_ext 4 _ _ x choiT_swap). unfold qform, swapF, vnorm2. simpl.
  destruct (x 0%nat) as [a0 b0], (x 1%nat) as [a1 b1], (x 2%nat) as [a2 b2], (x 3%nat) as [a3 b3].
  csimp.
  match goal with |- _ <= ?m <= _ =>
    replace m with (a0 * a0 + b0 * b0 + 2 * (a1 * a2 + b1 * b2) + (a3 * a3 + b3 * b3)) by ring end.
  pose proof (Rle_0_sqr (a1 - a2)). pose proof (Rle_0_sqr (a1 + a2)).
  pose proof (Rle_0_sqr (b1 - b2)). pose proof (Rle_0_sqr (b1 + b2)). unfold Rsqr in *.
  split; nra.
Qed.

(* liouville_is_CP says "not CP" for transposition, for every valid eigendecomposition and every tolerance in [0,1)
   (atol = 0 selects the default eps d^3 max(1, max|D|) = 8 eps) *)
Theorem transpose_not_cp Dl V atol : eig_valid 4 Dl V ChoiT -> 0 <= atol < 1 ->
  liouville_is_CP RO 2 atol Dl = 0.
Proof.
  intros He Ha. unfold liouville_is_CP. apply (flag_zero_of_witness 4 Dl V ChoiT _ He).
  exists xT. rewrite choiT_qform, xT_norm. cbn [fst].
  assert (eff_atol RO 2 atol Dl < 1).
  { destruct (Req_dec atol 0) as [->|Hn]; [|rewrite eff_atol_nonzero; auto; lra].
    rewrite eff_atol_zero.
    assert (M1 : max1abs RO Dl = 1).
    { pose proof (eig_range 4 Dl V ChoiT (-1) 1 He choiT_range) as R.
      destruct (max1abs_spec Dl) as [H1 [_ [H3|[ev [Hin H3]]]]]; auto.
      rewrite Forall_forall in R. specialize (R ev Hin).
      assert (Rabs ev <= 1) by (apply Rabs_le; lra). lra. }
    rewrite M1, Rmult_1_r. apply basis_atol_2. }
  lra.
Qed.

(* ---- the closed-form path trusts the btype label ---- *)
From Coq Require Import Permutation.
Lemma tbu_id d A i j : (i < d)%nat -> (j < d)%nat ->
  mget RO (transform_by_unitary RO d (mid RO d) A) i j = mget RO A i j.
Proof.
  intros Hi Hj. change (toF (transform_by_unitary RO d (mid RO d) A) i j = toF A i j).
  rewrite (toF_transform d (mid RO d) A i j Hi Hj). unfold conjU.
  assert (E : feq d (fmul d (fadj (toF (mid RO d))) (fmul d (toF A) (toF (mid RO d)))) (toF A)).
  { rewrite (toF_mid d), fadj_id, fmul_id_l, fmul_id_r. reflexivity. }
  apply E; auto.
Qed.

Definition ggm13_swapped : list (Mat (T:=R)) :=
  ggm_id RO 13 :: ggm_sym RO 13 (0, 2)%nat :: ggm_sym RO 13 (0, 1)%nat :: skipn 3 (ggm_basis RO 13).

Lemma ggm13_split : ggm_basis RO 13 =
  ggm_id RO 13 :: ggm_sym RO 13 (0, 1)%nat :: ggm_sym RO 13 (0, 2)%nat :: skipn 3 (ggm_basis RO 13).
Proof. reflexivity. Qed.

Lemma ggm13_perm : Permutation ggm13_swapped (ggm_basis RO 13).
Proof.
  unfold ggm13_swapped. set (rest := skipn 3 (ggm_basis RO 13)).
  rewrite ggm13_split. fold rest. apply perm_skip, perm_swap.
Qed.
Lemma ggm13_len : length ggm13_swapped = 169%nat.
Proof. rewrite (Permutation_length ggm13_perm). reflexivity. Qed.

Lemma ggm_pairs13_hd : exists r, ggm_pairs 13 = (0, 1)%nat :: r.
Proof. eexists. reflexivity. Qed.

Lemma sqrt2_facts : sqrt2 RO * sqrt2 RO = 2 /\ sqrt2 RO <> 0.
Proof.
  unfold sqrt2, o2; simpl.
  assert (H : sqrt (1 + 1) * sqrt (1 + 1) = 1 + 1) by (apply sqrt_sqrt; lra).
  split. lra. intros E. rewrite E in H. lra.
Qed.

(* before commit 63446ae the closed-form path was selected by the label alone: on a re-ordered Gell-Mann basis
   that still carries the label (d = 13 > 12) it did not compute the Liouville representation w.r.t. that basis *)
Theorem closed_path_trusts_label :
  Permutation ggm13_swapped (ggm_basis RO 13) /\
  rget RO (liouville_representation_prefix RO 13 true (mid RO 13) ggm13_swapped) 1 1 = 0 /\
  rget RO (liouville_generic RO 13 (mid RO 13) ggm13_swapped) 1 1 = 1.
Proof.
  split. apply ggm13_perm.
  assert (Hn : (1 < length ggm13_swapped)%nat) by (rewrite ggm13_len; lia).
  remember (transform_by_unitary RO 13 (mid RO 13) (ggm_sym RO 13 (0, 2)%nat)) as M eqn:HM.
  assert (EM : nthm (conjugated_basis RO 13 (mid RO 13) ggm13_swapped) 1 = M).
  { rewrite conjugated_basis_nth by auto. rewrite HM. reflexivity. }
  assert (M01 : mget RO M 0 1 = 0c).
  { rewrite HM. rewrite tbu_id by lia. unfold ggm_sym. rewrite mget_mbuild by lia. reflexivity. }
  assert (M10 : mget RO M 1 0 = 0c).
  { rewrite HM. rewrite tbu_id by lia. unfold ggm_sym. rewrite mget_mbuild by lia. reflexivity. }
  assert (M02 : mget RO M 0 2 = cofr RO (inv_sqrt2 RO)).
  { rewrite HM. rewrite tbu_id by lia. unfold ggm_sym. rewrite mget_mbuild by lia. reflexivity. }
  assert (M20 : mget RO M 2 0 = cofr RO (inv_sqrt2 RO)).
  { rewrite HM. rewrite tbu_id by lia. unfold ggm_sym. rewrite mget_mbuild by lia. reflexivity. }
  split.
  - unfold liouville_representation_prefix. change (true && Nat.ltb ggm_threshold 13) with true. cbv iota.
    unfold rget, vg, nthv, liouville_closed.
    rewrite (nth_map_default (A:=Mat (T:=R)) (ggm_expand_re RO 13) _ _ [] [])
      by (unfold conjugated_basis; rewrite map_length; auto).
    fold (nthm (conjugated_basis RO 13 (mid RO 13) ggm13_swapped) 1). rewrite EM.
    unfold ggm_expand_re. destruct ggm_pairs13_hd as [r ->]. unfold vget. simpl nth.
    rewrite M01, M10. csimp. unfold Rdiv. ring.
  - unfold rget, vg, nthv, liouville_generic.
    rewrite (nth_map_default (A:=Mat (T:=R)) (fun M => expand_re RO 13 M ggm13_swapped) _ _ [] [])
      by (unfold conjugated_basis; rewrite map_length; auto).
    fold (nthm (conjugated_basis RO 13 (mid RO 13) ggm13_swapped) 1). rewrite EM.
    unfold vget, expand_re.
    rewrite (nth_map_default (A:=Mat (T:=R)) (fun Cj => fst (mtrprod RO 13 M Cj)) _ _ [] 0) by auto.
    change (nth 1 ggm13_swapped []) with (ggm_sym RO 13 (0, 2)%nat).
    rewrite <- (ggm_sym_coeff 13 M 0 2) by lia. rewrite M02, M20.
    assert (H1 : sqrt (1 + 1) * sqrt (1 + 1) = 1 + 1) by (apply sqrt_sqrt; lra).
    assert (H2 : sqrt (1 + 1) <> 0) by (intros E; rewrite E in H1; lra).
    unfold inv_sqrt2. csimp. set (q := sqrt (1 + 1)) in *.
    replace ((1 / q + 1 / q) / q) with ((1 + 1) / (q * q)) by (field; auto). rewrite H1. field.
Qed.

(* the repaired path switch compares the basis with Basis.ggm(d): the re-ordered basis fails the test and
   gets the generic expansion *)
Lemma basis_atol_13 : basis_atol RO 13 < / 2.
Proof.
  rewrite basis_atol_val. simpl INR.
  assert (H : 8192 <= 2 ^ 52).
  { replace 8192 with (2 ^ 13) by (simpl; ring). apply Rle_pow; [lra | lia]. }
  assert (0 < / 2 ^ 52 <= / 8192).
  { split. apply Rinv_0_lt_compat. lra. apply Rinv_le_contravar; lra. }
  lra.
Qed.
Theorem label_is_checked :
  rget RO (liouville_representation RO 13 true (mid RO 13) ggm13_swapped) 1 1 = 1.
Proof.
  assert (Hn : (1 < length ggm13_swapped)%nat) by (rewrite ggm13_len; lia).
  rewrite (LR_entry 13 ggm13_swapped true (mid RO 13) 1 1 Hn Hn).
  assert (F : Rgtb (basis_is_ggm_flag RO 13 ggm13_swapped) (half RO) = false).
  { destruct (Rgtb (basis_is_ggm_flag RO 13 ggm13_swapped) (half RO)) eqn:E; auto. exfalso.
    apply flag_gt_half in E. apply ggm_flag_one_iff in E.
    specialize (E 1%nat 0%nat 1%nat ltac:(lia) ltac:(lia) ltac:(lia)). unfold bdev in E.
    change (nthm ggm13_swapped 1) with (ggm_sym RO 13 (0, 2)%nat) in E.
    rewrite ggm13_split in E. change (nthm (ggm_id RO 13 :: ggm_sym RO 13 (0, 1)%nat :: ggm_sym RO 13 (0, 2)%nat :: skipn 3 (ggm_basis RO 13)) 1)
      with (ggm_sym RO 13 (0, 1)%nat) in E.
    unfold ggm_sym in E. rewrite !mget_mbuild in E by lia. cbn [fst snd Nat.eqb andb orb] in E.
    pose proof basis_atol_13 as B.
    assert (H1 : sqrt (1 + 1) * sqrt (1 + 1) = 1 + 1) by (apply sqrt_sqrt; lra).
    assert (H0 : 0 < sqrt (1 + 1)) by (apply sqrt_lt_R0; lra).
    set (t := basis_atol RO 13) in *.
    assert (Hs : / 2 <= sqrt (cabs2 RO (csub' 0c (cofr RO (inv_sqrt2 RO))))).
    { apply Rsqr_incr_0_var; [|apply sqrt_pos]. rewrite Rsqr_sqrt by apply cabs2_nonneg.
      unfold Rsqr, inv_sqrt2, sqrt2, o2. csimp. set (q := sqrt (1 + 1)) in *.
      replace ((0 - 1 / q) * (0 - 1 / q) + (0 - 0) * (0 - 0)) with (1 / (q * q)) by (field; lra).
      rewrite H1. lra. }
    lra. }
  rewrite F, andb_false_r. apply (proj2 (proj2 closed_path_trusts_label)).
Qed.

(* the normalised Pauli basis is the Gell-Mann basis for d = 2 *)
Lemma pauli1_is_ggm2 : pauli1 = ggm_basis RO 2.
Proof.
  unfold pauli1, sP, ggm_basis, ggm_id, ggm_sym, ggm_asym, ggm_diag, diag_norm, inv_sqrt2, sqrt2, o2.
  rewrite !ofnat_INR. simpl INR.
  cbv [ggm_pairs mbuild build map seq concat filter app Nat.ltb Nat.leb Nat.eqb andb orb fst snd Nat.pred cofr c0].
  simpl.
  replace (Rdya 1 0) with 1 by (unfold Rdya; simpl; lra). replace (Rdya 2 0) with (1 + 1) by (unfold Rdya; simpl; lra).
  replace (1 * (1 + 1)) with (1 + 1) by ring.
  replace (- (1) / sqrt (1 + 1)) with (- (1 / sqrt (1 + 1))) by (unfold Rdiv; ring).
  reflexivity.
Qed.
