(* C15: concrete instances -- the normalised Pauli basis (d = 2) satisfies the hypotheses of the
   theorems of Proofs/Superop.v; transposition is not completely positive; the closed-form path trusts
   the btype label.                                                                          *)
From Coq Require Import ZArith Reals Lra Lia List Bool Morphisms Setoid.
From FF Require Import Base.Ops Inst.RInst Base.RAlg Model.Numeric Model.Superop Proofs.SuperopAlg Proofs.Superop.
Import ListNotations.
Local Open Scope R_scope.

Definition sP : R := inv_sqrt2 RO.
Definition pauli1 : list (Mat (T:=R)) :=
  [ [[(sP,0);(0,0)];[(0,0);(sP,0)]];
    [[(0,0);(sP,0)];[(sP,0);(0,0)]];
    [[(0,0);(0,-sP)];[(0,sP);(0,0)]];
    [[(sP,0);(0,0)];[(0,0);(-sP,0)]] ].

Lemma sP2 : sP ^ 2 = / 2.
Proof.
  unfold sP, inv_sqrt2, sqrt2, o2; simpl.
  assert (H : sqrt (1 + 1) * sqrt (1 + 1) = 1 + 1) by (apply sqrt_sqrt; lra).
  assert (sqrt (1 + 1) <> 0) by (intros E; rewrite E in H; lra).
  field_simplify; auto. replace (sqrt (1+1) ^ 2) with (1 + 1) by (rewrite <- H at 1; ring). lra.
Qed.

Ltac psolve := apply c_eq; csimp; ring_simplify; rewrite ?sP2; try lra.

Lemma lt4 i : (i < 4)%nat -> i = 0%nat \/ i = 1%nat \/ i = 2%nat \/ i = 3%nat. Proof. lia. Qed.
Lemma lt2 i : (i < 2)%nat -> i = 0%nat \/ i = 1%nat. Proof. lia. Qed.

Example pauli_herm : basis_herm 2 pauli1.
Proof.
  intros i Hi a b Ha Hb. apply lt4 in Hi. apply lt2 in Ha. apply lt2 in Hb.
  destruct Hi as [-> | [-> | [-> | ->]]], Ha as [-> | ->], Hb as [-> | ->];
    unfold fadj, Cl, toF, nthm, mget; simpl; cring.
Qed.
Example pauli_orth : basis_orth 2 pauli1.
Proof.
  intros i j Hi Hj. apply lt4 in Hi. apply lt4 in Hj.
  destruct Hi as [-> | [-> | [-> | ->]]], Hj as [-> | [-> | [-> | ->]]];
    unfold ftr, fmul, Cl, toF, nthm, mget; simpl; psolve.
Qed.
Example pauli_complete : basis_complete 2 pauli1.
Proof.
  intros X a b Ha Hb. apply lt2 in Ha. apply lt2 in Hb.
  destruct Ha as [-> | ->], Hb as [-> | ->];
    unfold flin, ftr, fmul, Cl, toF, nthm, mget; simpl; psolve.
Qed.

(* ---- transposition in the Pauli basis: S = diag(1,1,-1,1); its Choi matrix is the swap ---- *)
Definition transp (X : fmat) : fmat := fun a b => X b a.
Lemma transp_lin d n Cb : lin_map d n Cb transp.
Proof.
  split.
  - intros X Y H a b Ha Hb. unfold transp. apply H; auto.
  - intros c a b _ _. reflexivity.
Qed.
Definition S_T : list (list R) := [[1;0;0;0];[0;1;0;0];[0;0;-1;0];[0;0;0;1]].
Lemma S_T_is_transp i j : (i < 4)%nat -> (j < 4)%nat -> Sfun S_T i j = liou_of 2 (Cl pauli1) transp i j.
Proof.
  intros Hi Hj. apply lt4 in Hi. apply lt4 in Hj.
  destruct Hi as [-> | [-> | [-> | ->]]], Hj as [-> | [-> | [-> | ->]]];
    unfold Sfun, rget, vg, nthv, vget, liou_of, transp, ftr, fmul, Cl, toF, nthm, mget; simpl; psolve.
Qed.

Notation ChoiT := (toF (liouville_to_choi RO 2 S_T pauli1)).
Definition swapF : fmat := fun r c => if Nat.eqb (c mod 2) (r / 2) && Nat.eqb (r mod 2) (c / 2) then 1c else 0c.
Lemma choiT_swap : feq 4 ChoiT swapF.
Proof.
  intros r c Hr Hc. change 4%nat with (2 * 2)%nat in Hr, Hc. rewrite choi_entry by auto.
  rewrite (choiF_ext 2 pauli1 _ _ S_T_is_transp). unfold choiF.
  assert (H2 : (0 < 2)%nat) by lia.
  destruct (div_mod_lt 2 r H2 Hr), (div_mod_lt 2 c H2 Hc).
  rewrite (choi4_formula 2 4 (Cl pauli1) transp _ _ _ _ pauli_complete (transp_lin 2 4 (Cl pauli1))) by auto.
  reflexivity.
Qed.

Definition xT : fvec := fun r => match r with 1%nat => 1c | 2%nat => cneg' 1c | _ => 0c end.
Lemma choiT_qform : qform 4 ChoiT xT = (-2, 0).
Proof. rewrite (qform_ext 4 _ _ xT choiT_swap). unfold qform, swapF, xT. simpl. cring. Qed.
Lemma xT_norm : vnorm2 4 xT = 2.
Proof. unfold vnorm2, xT. simpl. unfold cabs2. simpl. ring. Qed.
(* (0,1,-1,0) is an eigenvector of the Choi matrix with eigenvalue -1 *)
Theorem choiT_eigenvector r : (r < 4)%nat -> fmv 4 ChoiT xT r = cneg' (xT r).
Proof.
  intros Hr. rewrite (fmv_ext 4 _ swapF xT xT r choiT_swap) by auto.
  apply lt4 in Hr. destruct Hr as [-> | [-> | [-> | ->]]]; unfold fmv, swapF, xT; simpl; cring.
Qed.

Lemma basis_atol_2 : basis_atol RO 2 < 1.
Proof.
  rewrite basis_atol_val. simpl INR.
  assert (H : 16 <= 2 ^ 52).
  { replace 16 with (2 ^ 4) by (simpl; ring). apply Rle_pow; [lra | lia]. }
  assert (0 < / 2 ^ 52 <= / 16).
  { split. apply Rinv_0_lt_compat. lra. apply Rinv_le_contravar; lra. }
  lra.
Qed.

(* liouville_is_CP says "not CP" for transposition, for every valid eigendecomposition and every tolerance in [0,1) *)
Theorem transpose_not_cp Dl V atol : eig_valid 4 Dl V ChoiT -> 0 <= atol < 1 ->
  liouville_is_CP RO 2 atol Dl = 0.
Proof.
  intros He Ha. unfold liouville_is_CP. apply (flag_zero_of_witness 4 Dl V ChoiT _ He).
  exists xT. rewrite choiT_qform, xT_norm. cbn [fst].
  assert (eff_atol RO 2 atol < 1).
  { destruct (Req_dec atol 0) as [->|Hn]. rewrite eff_atol_zero. apply basis_atol_2.
    rewrite eff_atol_nonzero; auto. lra. }
  lra.
Qed.
