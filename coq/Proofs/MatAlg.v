(* Matrix algebra on function matrices (Base/RAlg.v: fmat) used by C02 and C04:
   setoid structure of [feq d], linearity, diagonal matrices, powers, finite sums of matrices,
   the spectral exponential V e^{-i s D} V^dagger and complex-valued derivatives.           *)
From Coq Require Import ZArith Reals Lra Lia List Morphisms Setoid.
From Coquelicot Require Import Coquelicot.
From FF Require Import Base.Ops Inst.RInst Base.RAlg.
Import ListNotations.
Local Open Scope R_scope.

(* ---------- [feq d] is an equivalence, operations are morphisms ---------- *)
#[global] Instance feq_equiv d : Equivalence (feq d).
Proof. split; [intros A; apply feq_refl | intros A B; apply feq_sym | intros A B Cm; apply feq_trans]. Qed.
#[global] Instance fmul_proper d : Proper (feq d ==> feq d ==> feq d) (fmul d).
Proof. intros A A' HA B B' HB. apply fmul_ext; assumption. Qed.
#[global] Instance fadj_proper d : Proper (feq d ==> feq d) fadj.
Proof. intros A A' HA i j Hi Hj. unfold fadj. rewrite HA; auto. Qed.
#[global] Instance fadd_proper d : Proper (feq d ==> feq d ==> feq d) fadd.
Proof. intros A A' HA B B' HB i j Hi Hj. unfold fadd. rewrite HA, HB; auto. Qed.
#[global] Instance fscal_proper d : Proper (eq ==> feq d ==> feq d) fscal.
Proof. intros z z' -> A A' HA i j Hi Hj. unfold fscal. rewrite HA; auto. Qed.
#[global] Instance funitary_proper d : Proper (feq d ==> iff) (funitary d).
Proof.
  assert (P : forall U U', feq d U U' -> funitary d U -> funitary d U').
  { intros U U' H [H1 H2]. split; rewrite <- H; assumption. }
  intros U U' H. split; apply P; [|symmetry]; assumption.
Qed.

Definition fzero : fmat := fun _ _ => 0c.
Definition fsub (A B : fmat) : fmat := fun i j => csub' (A i j) (B i j).
#[global] Instance fsub_proper d : Proper (feq d ==> feq d ==> feq d) fsub.
Proof. intros A A' HA B B' HB i j Hi Hj. unfold fsub. rewrite HA, HB; auto. Qed.

Lemma fadd_comm d A B : feq d (fadd A B) (fadd B A).
Proof. intros i j _ _. unfold fadd. ring. Qed.
Lemma fadd_assoc d A B Cm : feq d (fadd A (fadd B Cm)) (fadd (fadd A B) Cm).
Proof. intros i j _ _. unfold fadd. ring. Qed.
Lemma fadd_zero_r d A : feq d (fadd A fzero) A.
Proof. intros i j _ _. unfold fadd, fzero. ring. Qed.
Lemma fadd_zero_l d A : feq d (fadd fzero A) A.
Proof. intros i j _ _. unfold fadd, fzero. ring. Qed.
Lemma fscal_one d A : feq d (fscal 1c A) A.
Proof. intros i j _ _. unfold fscal. ring. Qed.
Lemma fscal_zero d A : feq d (fscal 0c A) fzero.
Proof. intros i j _ _. unfold fscal, fzero. ring. Qed.
Lemma fmul_add_distr_l d A B Cm : feq d (fmul d A (fadd B Cm)) (fadd (fmul d A B) (fmul d A Cm)).
Proof. intros i j _ _. unfold fmul, fadd. rewrite <- csumn_add. apply csumn_ext. intros; ring. Qed.
Lemma fmul_add_distr_r d A B Cm : feq d (fmul d (fadd A B) Cm) (fadd (fmul d A Cm) (fmul d B Cm)).
Proof. intros i j _ _. unfold fmul, fadd. rewrite <- csumn_add. apply csumn_ext. intros; ring. Qed.
Lemma fmul_sub_distr_r d A B Cm : feq d (fmul d (fsub A B) Cm) (fsub (fmul d A Cm) (fmul d B Cm)).
Proof. intros i j _ _. unfold fmul, fsub.
  replace (csub' (csumn' d (fun k => cmul' (A i k) (Cm k j))) (csumn' d (fun k => cmul' (B i k) (Cm k j))))
    with (cadd' (csumn' d (fun k => cmul' (A i k) (Cm k j))) (cmul' (cneg' 1c) (csumn' d (fun k => cmul' (B i k) (Cm k j))))) by ring.
  rewrite <- csumn_mul_l, <- csumn_add. apply csumn_ext. intros; ring. Qed.
Lemma fmul_sub_distr_l d A B Cm : feq d (fmul d A (fsub B Cm)) (fsub (fmul d A B) (fmul d A Cm)).
Proof. intros i j _ _. unfold fmul, fsub.
  replace (csub' (csumn' d (fun k => cmul' (A i k) (B k j))) (csumn' d (fun k => cmul' (A i k) (Cm k j))))
    with (cadd' (csumn' d (fun k => cmul' (A i k) (B k j))) (cmul' (cneg' 1c) (csumn' d (fun k => cmul' (A i k) (Cm k j))))) by ring.
  rewrite <- csumn_mul_l, <- csumn_add. apply csumn_ext. intros; ring. Qed.
Lemma fmul_zero_l d A : feq d (fmul d fzero A) fzero.
Proof. intros i j _ _. unfold fmul, fzero. rewrite (csumn_ext d _ (fun _ => 0c)). apply csumn_0. intros; ring. Qed.
Lemma fmul_zero_r d A : feq d (fmul d A fzero) fzero.
Proof. intros i j _ _. unfold fmul, fzero. rewrite (csumn_ext d _ (fun _ => 0c)). apply csumn_0. intros; ring. Qed.
Lemma fmul_scal_l d z A B : feq d (fmul d (fscal z A) B) (fscal z (fmul d A B)).
Proof. intros i j _ _. unfold fmul, fscal. rewrite <- csumn_mul_l. apply csumn_ext. intros; ring. Qed.
Lemma fmul_scal_r d z A B : feq d (fmul d A (fscal z B)) (fscal z (fmul d A B)).
Proof. intros i j _ _. unfold fmul, fscal. rewrite <- csumn_mul_l. apply csumn_ext. intros; ring. Qed.
Lemma fscal_scal d z w A : feq d (fscal z (fscal w A)) (fscal (cmul' z w) A).
Proof. intros i j _ _. unfold fscal. ring. Qed.
Lemma fsub_self d A : feq d (fsub A A) fzero.
Proof. intros i j _ _. unfold fsub, fzero. ring. Qed.
Lemma fsub_zero_iff d A B : feq d (fsub A B) fzero <-> feq d A B.
Proof. split; intros H i j Hi Hj.
  - specialize (H i j Hi Hj). unfold fsub, fzero in H.
    replace (A i j) with (cadd' (csub' (A i j) (B i j)) (B i j)) by ring. rewrite H. ring.
  - unfold fsub, fzero. rewrite H; auto. ring. Qed.

Lemma funitary_adj d U : funitary d U -> funitary d (fadj U).
Proof.
  assert (E : feq d (fadj (fadj U)) U) by (intros i j _ _; apply fadj_invol).
  intros [H1 H2]. split; rewrite E; assumption.
Qed.

(* ---------- diagonal matrices ---------- *)
Definition fdiagv (f : nat -> Cx) : fmat := fun i j => if Nat.eqb i j then f i else 0c.

Lemma fmul_diag_l d f A : feq d (fmul d (fdiagv f) A) (fun i j => cmul' (f i) (A i j)).
Proof.
  intros i j Hi Hj. unfold fmul, fdiagv.
  rewrite (csumn_ext d _ (fun k => if Nat.eqb i k then cmul' (f i) (A k j) else 0c)).
  - apply (csumn_delta d i (fun k => cmul' (f i) (A k j))); auto.
  - intros k _. destruct (Nat.eqb i k); ring.
Qed.
Lemma fmul_diag_r d f A : feq d (fmul d A (fdiagv f)) (fun i j => cmul' (A i j) (f j)).
Proof.
  intros i j Hi Hj. unfold fmul, fdiagv.
  rewrite (csumn_ext d _ (fun k => if Nat.eqb k j then cmul' (A i k) (f k) else 0c)).
  - apply (csumn_delta' d j (fun k => cmul' (A i k) (f k))); auto.
  - intros k _. destruct (Nat.eqb k j); ring.
Qed.
Lemma fdiagv_mul d f g : feq d (fmul d (fdiagv f) (fdiagv g)) (fdiagv (fun j => cmul' (f j) (g j))).
Proof. rewrite fmul_diag_l. intros i j _ _. unfold fdiagv. destruct (Nat.eqb i j) eqn:E.
  apply Nat.eqb_eq in E. subst. reflexivity. ring. Qed.
Lemma fdiagv_ext d f g : (forall j, (j < d)%nat -> f j = g j) -> feq d (fdiagv f) (fdiagv g).
Proof. intros H i j Hi _. unfold fdiagv. destruct (Nat.eqb i j); auto. Qed.
Lemma fdiagv_one d : feq d (fdiagv (fun _ => 1c)) fid.
Proof. intros i j _ _. reflexivity. Qed.
Lemma fdiagv_adj d f : feq d (fadj (fdiagv f)) (fdiagv (fun j => cconj' (f j))).
Proof. intros i j _ _. unfold fadj, fdiagv. rewrite Nat.eqb_sym. destruct (Nat.eqb i j) eqn:E.
  apply Nat.eqb_eq in E. subst. reflexivity. apply cconj_0. Qed.
Lemma fdiagv_scal d z f : feq d (fscal z (fdiagv f)) (fdiagv (fun j => cmul' z (f j))).
Proof. intros i j _ _. unfold fscal, fdiagv. destruct (Nat.eqb i j); ring. Qed.
Lemma funitary_diag d f : (forall j, (j < d)%nat -> cmul' (cconj' (f j)) (f j) = 1c) -> funitary d (fdiagv f).
Proof.
  intros H. split; rewrite fdiagv_adj, fdiagv_mul; rewrite <- fdiagv_one; apply fdiagv_ext; intros j Hj.
  apply H; auto. rewrite cmul_comm. apply H; auto.
Qed.

(* ---------- powers and finite sums of matrices ---------- *)
Fixpoint fpow (d : nat) (A : fmat) (n : nat) : fmat :=
  match n with O => fid | S k => fmul d (fpow d A k) A end.
Fixpoint fsum (n : nat) (F : nat -> fmat) : fmat :=
  match n with O => fzero | S k => fadd (fsum k F) (F k) end.

#[global] Instance fpow_proper d : Proper (feq d ==> eq ==> feq d) (fpow d).
Proof. intros A A' HA n n' <-. induction n; simpl. reflexivity. rewrite IHn, HA. reflexivity. Qed.
Lemma fpow_1 d A : feq d (fpow d A 1) A.
Proof. simpl. apply fmul_id_l. Qed.
Lemma fpow_add d A m n : feq d (fpow d A (m + n)) (fmul d (fpow d A m) (fpow d A n)).
Proof. induction n; simpl.
  - rewrite Nat.add_0_r. symmetry. apply fmul_id_r.
  - rewrite Nat.add_succ_r. simpl. rewrite IHn. symmetry. apply fmul_assoc. Qed.
Lemma fpow_S_l d A n : feq d (fpow d A (S n)) (fmul d A (fpow d A n)).
Proof. change (S n) with (1 + n)%nat. rewrite fpow_add, fpow_1. reflexivity. Qed.
Lemma fpow_unitary d U n : funitary d U -> funitary d (fpow d U n).
Proof. intros H. induction n; simpl. apply funitary_id. apply funitary_mul; auto. Qed.
Lemma fsum_ext d n F G : (forall k, (k < n)%nat -> feq d (F k) (G k)) -> feq d (fsum n F) (fsum n G).
Proof. induction n; intros H; simpl. reflexivity. rewrite IHn, H; auto. reflexivity. Qed.
Lemma fsum_entry n F i j : fsum n F i j = csumn' n (fun k => F k i j).
Proof. induction n; simpl. reflexivity. unfold fadd. rewrite IHn. reflexivity. Qed.
Lemma fmul_fsum_l d A n F : feq d (fmul d A (fsum n F)) (fsum n (fun k => fmul d A (F k))).
Proof. induction n; simpl. apply fmul_zero_r. rewrite fmul_add_distr_l, IHn. reflexivity. Qed.
Lemma fmul_fsum_r d A n F : feq d (fmul d (fsum n F) A) (fsum n (fun k => fmul d (F k) A)).
Proof. induction n; simpl. apply fmul_zero_l. rewrite fmul_add_distr_r, IHn. reflexivity. Qed.
Lemma fsum_shift d n F : feq d (fsum (S n) F) (fadd (F O) (fsum n (fun k => F (S k)))).
Proof. induction n. simpl. rewrite fadd_zero_l, fadd_zero_r. reflexivity.
  change (fsum (S (S n)) F) with (fadd (fsum (S n) F) (F (S n))). rewrite IHn. simpl.
  symmetry. apply fadd_assoc. Qed.

(* geometric series: (1 - T) sum_{g<G} T^g = 1 - T^G *)
Definition fgeom (d : nat) (Tm : fmat) (G : nat) : fmat := fsum G (fpow d Tm).
Lemma fgeom_telescope d Tm G : feq d (fmul d (fsub fid Tm) (fgeom d Tm G)) (fsub fid (fpow d Tm G)).
Proof.
  unfold fgeom. induction G; simpl.
  - rewrite fmul_zero_r. symmetry. apply fsub_self.
  - rewrite fmul_add_distr_l, IHG, fmul_sub_distr_r, fmul_id_l.
    assert (E : feq d (fmul d Tm (fpow d Tm G)) (fmul d (fpow d Tm G) Tm)).
    { rewrite <- fpow_S_l. reflexivity. }
    rewrite E. intros i j _ _. unfold fadd, fsub. ring.
Qed.

(* ---------- spectral exponential V e^{-i s D} V^dagger ---------- *)
Definition fexpm (d : nat) (V : fmat) (ev : nat -> R) (s : R) : fmat :=
  fmul d V (fmul d (fdiagv (fun j => cexp' (- (s * ev j)))) (fadj V)).
(* H = V D V^dagger *)
Definition fspec (d : nat) (V : fmat) (ev : nat -> R) : fmat :=
  fmul d V (fmul d (fdiagv (fun j => cofr RO (ev j))) (fadj V)).

Lemma fexpm_entry d V ev s i k : (i < d)%nat -> (k < d)%nat ->
  fexpm d V ev s i k = csumn' d (fun j => cmul' (cmul' (V i j) (cexp' (- (s * ev j)))) (cconj' (V k j))).
Proof.
  intros Hi Hk. unfold fexpm. unfold fmul at 1. apply csumn_ext. intros j Hj.
  rewrite (fmul_diag_l d _ (fadj V) j k Hj Hk). unfold fadj. ring.
Qed.

Section Spectral.
Variable d : nat.
Variable V : fmat.
Variable ev : nat -> R.
Hypothesis HV : funitary d V.

Lemma VdV : feq d (fmul d (fadj V) V) fid. Proof. apply HV. Qed.
Lemma VVd : feq d (fmul d V (fadj V)) fid. Proof. apply HV. Qed.

(* V A V^dagger V B V^dagger = V A B V^dagger *)
Lemma conj_mul A B :
  feq d (fmul d (fmul d V (fmul d A (fadj V))) (fmul d V (fmul d B (fadj V))))
        (fmul d V (fmul d (fmul d A B) (fadj V))).
Proof.
  rewrite <- (fmul_assoc d V (fmul d A (fadj V))).
  rewrite <- (fmul_assoc d A (fadj V)).
  rewrite (fmul_assoc d (fadj V) V).
  rewrite VdV, fmul_id_l.
  rewrite (fmul_assoc d A B). reflexivity.
Qed.

Lemma fexpm_0 : feq d (fexpm d V ev 0) fid.
Proof.
  unfold fexpm. rewrite (fdiagv_ext d _ (fun _ => 1c)).
  - rewrite fdiagv_one, fmul_id_l. apply VVd.
  - intros j _. rewrite Rmult_0_l, Ropp_0. apply cexp_0.
Qed.

Lemma fexpm_add s1 s2 : feq d (fexpm d V ev (s1 + s2)) (fmul d (fexpm d V ev s1) (fexpm d V ev s2)).
Proof.
  unfold fexpm. rewrite conj_mul, fdiagv_mul.
  rewrite (fdiagv_ext d _ (fun j => cmul' (cexp' (- (s1 * ev j))) (cexp' (- (s2 * ev j))))). reflexivity.
  intros j _. rewrite <- cexp_add. f_equal. ring.
Qed.

Lemma fexpm_unitary s : funitary d (fexpm d V ev s).
Proof.
  unfold fexpm. apply funitary_mul; auto. apply funitary_mul.
  - apply funitary_diag. intros j _. apply cexp_conj_mul.
  - apply funitary_adj; auto.
Qed.

(* -i H e^{-i s H} = V (-i D e^{-i s D}) V^dagger *)
Lemma fspec_fexpm s :
  feq d (fscal (cneg' ic) (fmul d (fspec d V ev) (fexpm d V ev s)))
        (fmul d V (fmul d (fdiagv (fun j => cmul' (0, - ev j) (cexp' (- (s * ev j))))) (fadj V))).
Proof.
  unfold fspec, fexpm. rewrite conj_mul, fdiagv_mul.
  rewrite <- fmul_scal_r, <- fmul_scal_l, fdiagv_scal.
  rewrite (fdiagv_ext d _ (fun j => cmul' (0, - ev j) (cexp' (- (s * ev j))))). reflexivity.
  intros j _. apply c_eq; csimp; ring.
Qed.

Lemma fspec_herm : fherm d (fspec d V ev).
Proof.
  unfold fherm, fspec. rewrite fadj_mul, fadj_mul.
  assert (E : feq d (fadj (fadj V)) V) by (intros i j _ _; apply fadj_invol).
  rewrite E, fdiagv_adj, <- fmul_assoc.
  rewrite (fdiagv_ext d _ (fun j => cofr RO (ev j))). reflexivity.
  intros j _. apply c_eq; csimp; ring.
Qed.

(* H V = V D : the characteristic equation, from the spectral form *)
Lemma fspec_eig : feq d (fmul d (fspec d V ev) V) (fmul d V (fdiagv (fun j => cofr RO (ev j)))).
Proof.
  unfold fspec. rewrite <- fmul_assoc, <- fmul_assoc, VdV, fmul_id_r. reflexivity.
Qed.
End Spectral.

(* conversely: H V = V D and V unitary give H = V D V^dagger *)
Lemma fspec_of_eig d H V ev : funitary d V ->
  feq d (fmul d H V) (fmul d V (fdiagv (fun j => cofr RO (ev j)))) -> feq d H (fspec d V ev).
Proof.
  intros HV E. unfold fspec. rewrite fmul_assoc, <- E, <- fmul_assoc.
  destruct HV as [_ H2]. rewrite H2, fmul_id_r. reflexivity.
Qed.

(* ---------- complex-valued derivatives ---------- *)
Definition cderive (f : R -> Cx) (x : R) (l : Cx) : Prop :=
  is_derive (fun t => fst (f t)) x (fst l) /\ is_derive (fun t => snd (f t)) x (snd l).

Lemma cderive_ext f g x l : (forall t, f t = g t) -> cderive f x l -> cderive g x l.
Proof. intros E [H1 H2]. split; [eapply is_derive_ext; [|exact H1] | eapply is_derive_ext; [|exact H2]];
  intros t; simpl; rewrite E; reflexivity. Qed.
Lemma cderive_const c x : cderive (fun _ => c) x 0c.
Proof. split; simpl; apply @is_derive_const. Qed.
Lemma cderive_add f g x lf lg : cderive f x lf -> cderive g x lg ->
  cderive (fun t => cadd' (f t) (g t)) x (cadd' lf lg).
Proof. intros [F1 F2] [G1 G2]. split; simpl; apply @is_derive_plus; assumption. Qed.
Lemma cderive_mul_l c f x l : cderive f x l -> cderive (fun t => cmul' c (f t)) x (cmul' c l).
Proof.
  intros [F1 F2]. split; simpl.
  - apply @is_derive_minus; apply is_derive_scal; assumption.
  - apply @is_derive_plus; apply is_derive_scal; assumption.
Qed.
Lemma cderive_mul_r c f x l : cderive f x l -> cderive (fun t => cmul' (f t) c) x (cmul' l c).
Proof.
  intros H. apply (cderive_ext (fun t => cmul' c (f t))). intros; ring.
  rewrite (cmul_comm l c). apply cderive_mul_l; assumption.
Qed.
Lemma cderive_csumn n f x l : (forall k, (k < n)%nat -> cderive (f k) x (l k)) ->
  cderive (fun t => csumn' n (fun k => f k t)) x (csumn' n l).
Proof.
  induction n; intros H; simpl. apply cderive_const.
  apply cderive_add. apply IHn; auto. apply H; auto.
Qed.
(* d/dt e^{-i (t - t0) e} = -i e e^{-i (t - t0) e} *)
Lemma cderive_cexp_seg t0 e x :
  cderive (fun t => cexp' (- ((t - t0) * e))) x (cmul' (0, - e) (cexp' (- ((x - t0) * e)))).
Proof.
  split; simpl; auto_derive; auto; unfold Rminus; ring.
Qed.

(* entrywise: d/dt [V e^{-i (t - t0) D} V^dagger Q]_ij = [-i H V e^{-i (t - t0) D} V^dagger Q]_ij *)
Theorem schroedinger_entry d V ev Q t0 x i j : funitary d V -> (i < d)%nat -> (j < d)%nat ->
  cderive (fun t => fmul d (fexpm d V ev (t - t0)) Q i j) x
          (fscal (cneg' ic) (fmul d (fspec d V ev) (fmul d (fexpm d V ev (x - t0)) Q)) i j).
Proof.
  intros HV Hi Hj.
  (* right-hand side in explicit form *)
  assert (E : feq d (fscal (cneg' ic) (fmul d (fspec d V ev) (fmul d (fexpm d V ev (x - t0)) Q)))
                    (fmul d (fmul d V (fmul d (fdiagv (fun m => cmul' (0, - ev m) (cexp' (- ((x - t0) * ev m))))) (fadj V))) Q)).
  { rewrite fmul_assoc, <- fmul_scal_l, (fspec_fexpm d V ev HV). reflexivity. }
  rewrite (E i j Hi Hj). clear E.
  apply (cderive_ext (fun t => csumn' d (fun k => cmul' (csumn' d (fun m =>
           cmul' (cmul' (V i m) (cexp' (- ((t - t0) * ev m)))) (cconj' (V k m)))) (Q k j)))).
  { intros t. unfold fmul. apply csumn_ext. intros k Hk.
    change (cmul' (csumn' d (fun m => cmul' (cmul' (V i m) (cexp' (- ((t - t0) * ev m)))) (cconj' (V k m)))) (Q k j)
            = cmul' (fexpm d V ev (t - t0) i k) (Q k j)).
    rewrite fexpm_entry; auto. }
  replace (fmul d (fmul d V (fmul d (fdiagv (fun m => cmul' (0, - ev m) (cexp' (- ((x - t0) * ev m))))) (fadj V))) Q i j)
    with (csumn' d (fun k => cmul' (csumn' d (fun m =>
      cmul' (cmul' (V i m) (cmul' (0, - ev m) (cexp' (- ((x - t0) * ev m))))) (cconj' (V k m)))) (Q k j))).
  2:{ unfold fmul at 1. apply csumn_ext. intros k Hk. f_equal. unfold fmul at 1. apply csumn_ext. intros m Hm.
      rewrite (fmul_diag_l d _ (fadj V) m k Hm Hk). unfold fadj. ring. }
  apply cderive_csumn. intros k Hk. apply cderive_mul_r.
  apply cderive_csumn. intros m Hm. apply cderive_mul_r, cderive_mul_l, cderive_cexp_seg.
Qed.

(* every entry of t |-> V e^{-i (t - t0) D} V^dagger Q is continuous *)
Lemma cderive_continuous f x l : cderive f x l ->
  continuous (fun t => fst (f t)) x /\ continuous (fun t => snd (f t)) x.
Proof. intros [H1 H2]. split; apply (ex_derive_continuous (V:=R_NormedModule)); eexists; eassumption. Qed.
