(* The second-order filter function of the code's model (case selection |x dt| > thr2) against the same model with
   thr2 = 0 (= selection by exact zeros = the exact nested integral, F2_assembly):
        | F2[thr2] - F2[0] |_{ab,kl}  <=  sum_g 2 eps(thr2, dt_g) A_g[a,k] A_g[b,l],
   eps(thr2, T) = thr2 T^2 (1/2 + thr2/4),  A_g[a,k] = sum_ij |X^g_ak(i,j)|.                                  *)
From Coq Require Import ZArith Reals Lra Lia List.
From Coquelicot Require Import Coquelicot.
From FF Require Import Base.Ops Inst.RInst Base.RAlg Model.Numeric Model.SecondOrder Proofs.Foi Proofs.CMIntegral
     Proofs.SecondOrder Proofs.SecondOrderBound Proofs.SecondOrderAsm Proofs.SecondOrderInt Proofs.SecondOrderGlue.
Import ListNotations.
Local Open Scope R_scope.

Lemma Cmod_csub_le (a b : Cx) : Cmod' (csub' a b) <= Cmod' a + Cmod' b.
Proof.
  replace (csub' a b) with (cadd' a (cmul' (-1, 0) b)) by (apply c_eq; simpl; ring).
  eapply Rle_trans. apply Cmod_cadd_le. rewrite Cmod_cmul.
  replace (Cmod' (-1, 0)) with 1. lra.
  unfold Cmod; simpl. replace (-1 * (-1 * 1) + 0 * (0 * 1)) with 1 by ring. symmetry. apply sqrt_1.
Qed.
Lemma Rabs_le0 x : Rabs x <= 0 -> x = 0.
Proof. intros H. destruct (Req_dec x 0) as [|Hx]; auto. apply Rabs_pos_lt in Hx. lra. Qed.
Lemma sumn_mul_r n a (f : nat -> R) : sumn' n (fun k => f k * a) = sumn' n f * a.
Proof. induction n; simpl. ring. rewrite IHn. ring. Qed.

Section B.
Variable d : nat.

Definition A2 (X : fmat) : R := sumn' d (fun i => sumn' d (fun j => Cmod' (X i j))).

Lemma Cmod_S2_le (f : nat -> nat -> Cx) : Cmod' (S2 d f) <= sumn' d (fun i => sumn' d (fun j => Cmod' (f i j))).
Proof.
  unfold S2. eapply Rle_trans. apply Cmod_csumn_le. apply sumn_le. intros i _. apply Cmod_csumn_le.
Qed.

Lemma S4_mul_l c (f : nat -> nat -> nat -> nat -> Cx) :
  S4 d (fun i j m n => cmul' c (f i j m n)) = cmul' c (S4 d f).
Proof.
  unfold S4. rewrite <- S2_mul_l. apply S2_ext. intros. apply S2_mul_l.
Qed.
Lemma S4_sub (f g : nat -> nat -> nat -> nat -> Cx) :
  S4 d (fun i j m n => csub' (f i j m n) (g i j m n)) = csub' (S4 d f) (S4 d g).
Proof.
  transitivity (cadd' (S4 d f) (S4 d (fun i j m n => cmul' (-1, 0) (g i j m n)))).
  - rewrite <- S4_add. apply S4_ext. intros. apply c_eq; simpl; ring.
  - rewrite S4_mul_l. apply c_eq; simpl; ring.
Qed.

(* same_sum is linear in the table; a uniform bound on the table difference gives a bound on the difference *)
Lemma same_sum_diff_bound (I2 I2' : nat -> nat -> nat -> nat -> Cx) (X Y : fmat) (e : R) :
  (forall i j m n, (i < d)%nat -> (j < d)%nat -> (m < d)%nat -> (n < d)%nat -> Cmod' (csub' (I2 i j m n) (I2' i j m n)) <= e) ->
  Cmod' (csub' (same_sum d I2 X Y) (same_sum d I2' X Y)) <= e * A2 X * A2 Y.
Proof.
  intros H. rewrite !same_sum_S4.
  rewrite <- S4_sub.
  rewrite (S4_ext d _ (fun i j m n => cmul' (cmul' (csub' (I2 i j m n) (I2' i j m n)) (X i j)) (Y m n)))
    by (intros; apply c_eq; simpl; ring).
  unfold S4. eapply Rle_trans. apply Cmod_S2_le.
  apply Rle_trans with (sumn' d (fun i => sumn' d (fun j => e * Cmod' (X i j) * A2 Y))).
  - apply sumn_le. intros i Hi. apply sumn_le. intros j Hj.
    eapply Rle_trans. apply Cmod_S2_le.
    apply Rle_trans with (sumn' d (fun m => sumn' d (fun n => (e * Cmod' (X i j)) * Cmod' (Y m n)))).
    + apply sumn_le. intros m Hm. apply sumn_le. intros n Hn. rewrite !Cmod_cmul.
      apply Rmult_le_compat_r. apply Cmod_ge_0. apply Rmult_le_compat_r. apply Cmod_ge_0. apply H; auto.
    + right. unfold A2. rewrite <- sumn_mul_l. apply sumn_ext. intros m _. rewrite <- sumn_mul_l. reflexivity.
  - right. unfold A2 at 2. rewrite <- sumn_mul_l, <- sumn_mul_r. apply sumn_ext. intros i _.
    rewrite <- sumn_mul_l, <- sumn_mul_r. apply sumn_ext. intros j _. ring.
Qed.

(* one table entry: code (thr2) against thr2 = 0 *)
Lemma soi_entry_diff thr2 w ei ej em en T : 0 <= thr2 -> 0 <= T ->
  Cmod' (csub' (soi_entry RO thr2 w ei ej em en T) (soi_entry RO 0 w ei ej em en T)) <= 2 * soi_eps thr2 T.
Proof.
  intros H0 HT. rewrite !soi_entry_core.
  set (a := ei - ej - w). set (b := w + (em - en)).
  destruct (soi_bound thr2 a b T H0 HT) as [B1 B2].
  destruct (soi_bound 0 a b T (Rle_refl 0) HT) as [Z1 Z2]. unfold soi_eps in Z1, Z2.
  replace (0 * 0 * (T * T) * (3 / 8 + 0 / 4)) with 0 in Z1, Z2 by field.
  assert (E1 : fst (soi_core RO 0 a b (a + b) T) = fst (I2x a b T)) by (apply Rminus_diag_uniq, Rabs_le0; exact Z1).
  assert (E2 : snd (soi_core RO 0 a b (a + b) T) = snd (I2x a b T)) by (apply Rminus_diag_uniq, Rabs_le0; exact Z2).
  eapply Rle_trans; [apply Cmod_le_parts|]. unfold csub. cbn [fst snd osub RO]. rewrite E1, E2. lra.
Qed.
End B.

Section P.
Variable d : nat.
Variables (thr thr2 : R) (omega : list R) (basis nopers : list (Mat (T:=R))).
Notation Seg := (SegData (T:=R)).
Notation na := (length nopers).
Notation nk := (length basis).
Notation no := (length omega).

Definition seg_A (s : Seg) (a k : nat) : R := A2 d (seg_X s a k).
Fixpoint F2_eps (a b k l : nat) (segs : list Seg) : R :=
  match segs with
  | [] => 0
  | s :: r => 2 * soi_eps thr2 (seg_dt s) * seg_A s a k * seg_A s b l + F2_eps a b k l r
  end.

Definition same_close (a b k l o : nat) (s : Seg) : Prop :=
  Cmod' (csub' (a5get RO (seg_same d thr2 na nk no omega s) a b k l o) (a5get RO (seg_same d 0 na nk no omega s) a b k l o))
  <= 2 * soi_eps thr2 (seg_dt s) * seg_A s a k * seg_A s b l.

Lemma so_spec_diff_bound a b k l o segs : List.Forall (same_close a b k l o) segs -> forall first c,
  Cmod' (csub' (so_spec d thr2 na nk no omega a b k l o first segs c) (so_spec d 0 na nk no omega a b k l o first segs c))
  <= F2_eps a b k l segs.
Proof.
  induction 1 as [|s r Hs Hr IH]; intros first c.
  - cbn [so_spec F2_eps]. replace (csub' 0c 0c) with 0c by (apply c_eq; simpl; ring). rewrite Cmod_c0. lra.
  - cbn [so_spec F2_eps].
    match goal with |- Cmod' (csub' (cadd' (cadd' ?D1 ?X) ?R1) (cadd' (cadd' ?D2 ?X) ?R2)) <= _ =>
      replace (csub' (cadd' (cadd' D1 X) R1) (cadd' (cadd' D2 X) R2)) with (cadd' (csub' D1 D2) (csub' R1 R2))
        by (apply c_eq; simpl; ring) end.
    eapply Rle_trans. apply Cmod_cadd_le. apply Rplus_le_compat. exact Hs. apply IH.
Qed.

Lemma fresh_seg_same_close a b k l o ev V Q dt nc step :
  0 <= thr2 -> 0 <= dt -> length nc = na ->
  (a < na)%nat -> (b < na)%nat -> (k < nk)%nat -> (l < nk)%nat -> (o < no)%nat ->
  same_close a b k l o (ev, dt, so_NT RO d V nopers nc, so_BT RO d V Q basis, step).
Proof.
  intros H0 Hdt HL Ha Hb Hk Hl Ho. unfold same_close, seg_same, seg_A. cbn [seg_dt seg_X].
  rewrite !so_same_get by (auto; rewrite ?so_NT_length, ?so_BT_length, ?map_length; auto).
  rewrite !(nth_map_lt _ omega o 0) by auto.
  apply same_sum_diff_bound.
  intros i j m n Hi Hj Hm Hn. rewrite !t4get_soi_tab by auto. apply soi_entry_diff; auto.
Qed.

Lemma fresh_segs_same_close a b k l o :
  0 <= thr2 -> (a < na)%nat -> (b < na)%nat -> (k < nk)%nat -> (l < nk)%nat -> (o < no)%nat ->
  forall evs Vs Qs ts dts ncs, (forall nc, In nc ncs -> length nc = na) -> (forall dt, In dt dts -> 0 <= dt) ->
  List.Forall (same_close a b k l o) (fresh_segs d thr omega basis nopers evs Vs Qs ts dts ncs).
Proof.
  intros H0 Ha Hb Hk Hl Ho.
  induction evs as [|ev evs IH]; intros Vs Qs ts dts ncs Hnc Hdt; [constructor|].
  destruct Vs as [|V Vs]; [constructor|]. destruct Qs as [|Q Qs]; [constructor|].
  destruct ts as [|tg ts]; [constructor|]. destruct dts as [|dt dts]; [constructor|].
  destruct ncs as [|nc ncs]; [constructor|].
  cbn [fresh_segs]. constructor.
  - apply fresh_seg_same_close; auto. apply Hdt; left; auto. apply Hnc; left; auto.
  - apply IH. intros; apply Hnc; right; auto. intros; apply Hdt; right; auto.
Qed.

(* the code's model against the exact-selection model (thr2 = 0), every frequency, every pulse with dt >= 0 *)
Theorem F2_bound evs Vs Qs ncoeffs dts ts a b k l o :
  0 <= thr2 ->
  length evs = length dts -> length Vs = length dts ->
  (length dts <= length Qs)%nat -> (length dts <= length ts)%nat -> length ncoeffs = na ->
  (forall dt, In dt dts -> 0 <= dt) ->
  (a < na)%nat -> (b < na)%nat -> (k < nk)%nat -> (l < nk)%nat -> (o < no)%nat ->
  let segs := fresh_segs d thr omega basis nopers evs Vs Qs ts dts (transpose_coeffs RO (length dts) ncoeffs) in
  Cmod' (csub' (a5get RO (second_order_ff RO d thr thr2 evs Vs Qs omega basis nopers ncoeffs dts ts (None, None)) a b k l o)
               (a5get RO (second_order_ff RO d thr 0 evs Vs Qs omega basis nopers ncoeffs dts ts (None, None)) a b k l o))
  <= F2_eps a b k l segs.
Proof.
  intros H0 H1 H2 H3 H4 H5 Hdt Ha Hb Hk Hl Ho segs.
  rewrite !second_order_ff_get by auto. fold segs.
  apply so_spec_diff_bound. apply fresh_segs_same_close; auto.
  intros nc Hin. rewrite (transpose_coeffs_rows _ _ _ Hin). exact H5.
Qed.

(* headline with the code's threshold: the model's F2 is within F2_eps of the nested time-ordered double integral
   of the piecewise time-domain control matrix, at EVERY frequency that keeps the first-order integrals off their
   Taylor branch (no condition on the second-order denominators) *)
Theorem F2_near_integral evs Vs Qs ncoeffs dts a b k l o :
  0 <= thr2 -> 0 <= thr ->
  (forall N, In N nopers -> fherm d (toF N)) -> (forall Ck, In Ck basis -> fherm d (toF Ck)) ->
  length evs = length dts -> length Vs = length dts -> (length dts <= length Qs)%nat -> length ncoeffs = na ->
  (forall dt, In dt dts -> 0 <= dt) ->
  (a < na)%nat -> (b < na)%nat -> (k < nk)%nat -> (l < nk)%nat -> (o < no)%nat ->
  no_taylor d omega thr evs dts o ->
  let ts := times RO dts in
  let segs := fresh_segs d thr omega basis nopers evs Vs Qs ts dts (transpose_coeffs RO (length dts) ncoeffs) in
  let w := vg RO omega o in
  let tau := sumlist RO dts in
  let F2 := second_order_ff RO d thr thr2 evs Vs Qs omega basis nopers ncoeffs dts ts (None, None) in
  exists (Gam : R -> Cx) (z : Cx),
    (forall t, 0 <= t <= tau ->
       is_CInt (fun t' => cmul' (cexp' (w * t')) (Bpw d b l segs 0 t')) 0 t (Gam t)) /\
    is_CInt (fun t => cmul' (cmul' (cexp' (- w * t)) (Bpw d a k segs 0 t)) (Gam t)) 0 tau z /\
    Cmod' (csub' (a5get RO F2 a b k l o) z) <= F2_eps a b k l segs.
Proof.
  intros H0 Hthr HN HC H1 H2 H3 H5 Hdt Ha Hb Hk Hl Ho Hmask ts segs w tau F2.
  destruct (F2_assembly d thr 0 omega basis nopers evs Vs Qs ncoeffs dts a b k l o) as [Gam [G1 G2]]; auto. lra.
  apply (no_taylor_mono d omega thr 0); auto.
  exists Gam. eexists. split; [exact G1|]. split; [exact G2|].
  apply F2_bound; auto. unfold ts, times. rewrite cumsum_from_length. lia.
Qed.
End P.
