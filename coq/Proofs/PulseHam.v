(* Equal pulses have equal results: on the separated domain, == implies that the merged pulses have the
   same control Hamiltonian in every segment (whatever the order in which the operators are stored), the
   same noise operators with the same sensitivities under every identifier, the same durations and basis --
   everything the propagators and filter functions are computed from. *)
From Coq Require Import ZArith List Bool String PeanoNat Lia Permutation Reals Lra.
From FF Require Import Model.B64 Model.Pulse Spec.PulseSpec Proofs.PulseBase Proofs.PulseJoin Proofs.PulseCanon
  Proofs.PulseEq Proofs.B64 Proofs.PulseInst.
Import ListNotations.
Local Open Scope R_scope.
Local Notation length := List.length (only parsing).

Fixpoint sumR (l : list R) : R := match l with [] => 0 | x :: r => x + sumR r end.
Lemma sumR_perm l l' : Permutation l l' -> sumR l = sumR l'.
Proof. induction 1; simpl; lra. Qed.

(* real and imaginary part of entry (a, b) of  sum_i  coeff_i[g] * O_i *)
Definition term_re (g a b : nat) (t : mat * list num) : R :=
  d2R (nth g (snd t) d0) * d2R (fst (nth b (nth a (fst t) []) c0)).
Definition term_im (g a b : nat) (t : mat * list num) : R :=
  d2R (nth g (snd t) d0) * d2R (snd (nth b (nth a (fst t) []) c0)).
Definition ham_entry (ops : list mat) (rows : list (list num)) (g a b : nat) : R * R :=
  (sumR (map (term_re g a b) (combine ops rows)), sumR (map (term_im g a b) (combine ops rows))).

Lemma ham_entry_perm ops rows ops' rows' g a b :
  Permutation (combine ops rows) (combine ops' rows') -> ham_entry ops rows g a b = ham_entry ops' rows' g a b.
Proof.
  intros H. unfold ham_entry. f_equal; apply sumR_perm, Permutation_map, H.
Qed.

Lemma ham_entry_sorted (ops : list mat) (ids : list string) (rows : list (list num)) g a b :
  length ops = length ids -> length rows = length ids ->
  ham_entry (gather [] ops (argsort ids)) (gather [] rows (argsort ids)) g a b = ham_entry ops rows g a b.
Proof.
  intros H1 H2. apply ham_entry_perm. unfold mat in *.
  replace (combine (gather [] ops (argsort ids)) (gather [] rows (argsort ids)))
    with (gather ([], []) (combine ops rows) (argsort ids)) by (apply gather_combine; lia).
  apply gather_argsort_perm. rewrite combine_length. lia.
Qed.

Theorem eq64_same_hamiltonian A B : wf A -> wf B -> sep64 A B -> eq64 A B = true ->
  (forall g a b, ham_entry (c_opers A) (jcc64 A) g a b = ham_entry (c_opers B) (jcc64 B) g a b) /\
  jdt64 A = jdt64 B /\ basis A = basis B /\
  sorted_view (n_opers A) (n_ids A) (jnc64 A) = sorted_view (n_opers B) (n_ids B) (jnc64 B) /\
  length (c_opers A) = length (c_opers B).
Proof.
  intros WA WB S E.
  apply (eq64_iff_same_denotation A B WA WB S) in E. unfold denot64, denot in E.
  assert (Hc := f_equal (fun x => fst (fst (fst x))) E). assert (Hn := f_equal (fun x => snd (fst (fst x))) E).
  assert (Hd := f_equal (fun x => snd (fst x)) E). assert (Hb := f_equal snd E). cbn [fst snd] in Hc, Hn, Hd, Hb.
  destruct WA as (A1 & A2 & A3 & A4 & _). destruct WB as (B1 & B2 & B3 & B4 & _).
  assert (LA : length (jcc64 A) = length (c_ids A)) by (unfold jcc64; rewrite jcc_length; lia).
  assert (LB : length (jcc64 B) = length (c_ids B)) by (unfold jcc64; rewrite jcc_length; lia).
  split; [|split; [exact Hd | split; [exact Hb | split; [exact Hn|]]]].
  - intros g a b.
    rewrite <- (ham_entry_sorted (c_opers A) (c_ids A) (jcc64 A) g a b) by lia.
    rewrite <- (ham_entry_sorted (c_opers B) (c_ids B) (jcc64 B) g a b) by lia.
    unfold sorted_view in Hc. unfold jcc64 in *.
    assert (H1 := f_equal (fun x => fst (fst x)) Hc). assert (H3 := f_equal snd Hc). cbn [fst snd] in H1, H3.
    rewrite H1, H3. reflexivity.
  - unfold sorted_view in Hc. assert (H1 := f_equal (fun x => length (fst (fst x))) Hc). cbn [fst snd] in H1.
    rewrite !gather_length, !argsort_length in H1. lia.
Qed.

(* the hypotheses hold for the split / merged pair, stored with the operators in different order *)
Example eq64_same_hamiltonian_example :
  forall g a b, ham_entry (c_opers split_pulse) (jcc64 split_pulse) g a b = ham_entry (c_opers merged_pulse) (jcc64 merged_pulse) g a b.
Proof.
  intros g a b. destruct eq_merged_example as (W1 & W2 & S1 & _ & E & _).
  apply (eq64_same_hamiltonian split_pulse merged_pulse W1 W2 S1 E).
Qed.
