(* Bridge from the C16 development, instantiated at COMPLEX entries (pairs of reals, Base/Ops.v), to the
   relations C05 / C06 assume about the tensor-product helpers on complex matrices:
     [krel d1 d2 A B M]  (Proofs/ExtendKron.v):  M = A (x) B
     [mrel D tau M M']   (Proofs/RemapCov.v):    M' i j = M (tau i) (tau j)
   and to the Kronecker chains [kronl] of Spec/DigitPerm.v.  The theorems here are the C16 theorems
   (Model/Tensor.v and Proofs/Tensor*.v are parametric in the entry type) at the instance [Centry].
   This file is NOT in the cone of Properties/C16.v (it depends on the axioms of the real numbers). *)
From Coq Require Import ZArith Reals List Arith Lia Permutation.
From FF Require Import Base.Ops Inst.RInst Base.RAlg Spec.Kron2 Spec.DigitPerm Model.Remap Proofs.RemapIdx Proofs.ExtendKron Proofs.RemapCov.
From FF Require Import Model.Tensor Spec.Kron Proofs.TensorIdx Proofs.TensorOrder Proofs.Tensor Proofs.TensorKron
  Proofs.TensorRegroup Proofs.TensorInsert Proofs.TensorInsertModel Proofs.TensorInsertLoop Proofs.TensorUnfold
  Proofs.TensorTranspose Proofs.TensorMerge.
Import ListNotations.
Local Open Scope nat_scope.

(* ------------------------------------------------------------------ the complex instance *)
#[global] Instance Centry : Entry Cx := { ezero := 0c; eone := 1c; eadd := cadd'; emul := cmul' }.
#[global] Instance Claws : EntryLaws Cx.
Proof.
  constructor; intros; unfold eadd, emul, ezero, eone, Centry.
  - apply cadd_0_r.
  - apply cmul_assoc.
  - apply cmul_comm.
  - apply cmul_1_l.
Qed.
Notation carr := (garr Cx).

(* list matrices <-> rank-2 tensors <-> function matrices *)
Definition cF (a : carr) : fmat := fun i j => aget a [i; j].
Definition ofMat (d : nat) (M : Mat) : carr := tabulate [d; d] (fun idx => mget RO M (nth 0 idx 0) (nth 1 idx 0)).
Definition toMat (D : nat) (a : carr) : Mat := mbuild D D (fun i j => aget a [i; j]).

Lemma inb2 i j d1 d2 : i < d1 -> j < d2 -> inb [i; j] [d1; d2].
Proof. intros. repeat constructor; auto. Qed.
Lemma wf_ofMat d M : wf 2 (ofMat d M).
Proof. unfold wf, ofMat, tabulate. cbn [shp dat]. rewrite map_length, indices_length. auto. Qed.
Lemma shp_ofMat d M : shp (ofMat d M) = [d; d].
Proof. reflexivity. Qed.
Lemma aget_ofMat d M i j : i < d -> j < d -> aget (ofMat d M) [i; j] = mget RO M i j.
Proof. intros Hi Hj. unfold ofMat. rewrite aget_tabulate by (apply inb2; auto). reflexivity. Qed.
Lemma cF_ofMat d M : feq d (cF (ofMat d M)) (toF M).
Proof. intros i j Hi Hj. apply aget_ofMat; auto. Qed.
Lemma mget_toMat D a i j : i < D -> j < D -> mget RO (toMat D a) i j = aget a [i; j].
Proof. intros Hi Hj. unfold toMat. apply mget_mbuild; auto. Qed.

(* ------------------------------------------------------------------ util.tensor of two matrices: krel *)
Lemma ckron2_entry (A B : carr) d1 d2 i j : shp A = [d1; d1] -> shp B = [d2; d2] -> i < d1 * d2 -> j < d1 * d2 ->
  aget (kron2 A B) [i; j] = cmul' (aget A [i / d2; j / d2]) (aget B [i mod d2; j mod d2]).
Proof.
  intros HA HB Hi Hj. unfold kron2. rewrite HA, HB. cbn [map2].
  rewrite aget_tabulate by (apply inb2; auto). reflexivity.
Qed.
Theorem ckron2_is_fkron (A B : carr) d1 d2 : shp A = [d1; d1] -> shp B = [d2; d2] ->
  feq (d1 * d2) (cF (kron2 A B)) (fkron d2 (cF A) (cF B)).
Proof. intros HA HB i j Hi Hj. unfold cF, fkron. apply (ckron2_entry A B d1 d2); auto. Qed.

(* tensor(A, B) on complex matrices is A (x) B: discharges [krel d1 d2 A B M] for M = tensor(A, B) *)
Theorem tensor_pair_krel d1 d2 (A B : Mat) :
  exists R, tensor 2 [ofMat d1 A; ofMat d2 B] = Ok R /\ shp R = [d1 * d2; d1 * d2] /\
            krel d1 d2 A B (toMat (d1 * d2) R).
Proof.
  exists (kron2 (ofMat d1 A) (ofMat d2 B)). split; [|split].
  - rewrite tensor_is_kron_chain by (repeat constructor; apply wf_ofMat). reflexivity.
  - reflexivity.
  - intros i j Hi Hj. rewrite mget_toMat by auto.
    rewrite (ckron2_entry _ _ d1 d2) by auto.
    rewrite !aget_ofMat; try (apply div_lt_prod; assumption); try (eapply mod_lt_prod; eassumption). reflexivity.
Qed.

(* ------------------------------------------------------------------ util.tensor_insert of one matrix into an arbitrary matrix *)
Lemma ckron_ins_entry (C G : carr) P d e s i j : shp C = [d; d] -> shp G = [e; e] -> i < e * d -> j < e * d ->
  aget (kron_ins P [s; s] C G) [i; j] =
  cmul' (aget G [(i / s) mod e; (j / s) mod e])
        (aget C [i / (e * s) * s + i mod s; j / (e * s) * s + j mod s]).
Proof.
  intros HC HG Hi Hj. unfold kron_ins. rewrite HC, HG. cbn [map2].
  rewrite aget_tabulate by (apply inb2; auto). reflexivity.
Qed.

(* tensor_insert(A, B, pos=p, arr_dims=[ds, ds]) for ANY d x d matrix A (prod ds = d) and e x e matrix B:
   entry formula with s = product of the dimensions behind the insertion point *)
Theorem tensor_insert_matrix d e (A B : Mat) (ds : list nat) (p : Z) :
  1 <= length ds -> prodn ds = d -> admissible (length ds) p ->
  let q := npos (length ds) p in let s := prodn (skipn q ds) in
  exists R, tensor_insert 2 (ofMat d A) [ofMat e B] (PSeq [p]) [ds; ds] = Ok R /\ shp R = [e * d; e * d] /\
    forall i j, i < e * d -> j < e * d ->
      aget R [i; j] = cmul' (aget (ofMat e B) [(i / s) mod e; (j / s) mod e])
                            (aget (ofMat d A) [i / (e * s) * s + i mod s; j / (e * s) * s + j mod s]).
Proof.
  intros Hn Hd Hadm q s.
  assert (Hrows : Forall (fun x : list nat => length x = length ds) [ds; ds]) by (repeat constructor).
  assert (Hshp : shp (ofMat d A) = map prodn [ds; ds]) by (simpl; rewrite Hd; reflexivity).
  pose proof (tensor_insert_single 2 (length ds) (ofMat d A) (ofMat e B) [ds; ds] p
                ltac:(lia) Hn eq_refl Hrows Hadm (wf_ofMat d A) (wf_ofMat e B) Hshp) as H.
  eexists. split; [exact H|]. split; [reflexivity|].
  intros i j Hi Hj. cbn [map]. apply (ckron_ins_entry _ _ _ d e); auto.
Qed.

(* appended at the end: A (x) B;  inserted in front: B (x) A  -- the [krel] hypotheses of C05 for the noise /
   control operators of an extended pulse (B = identity there, but any B works) *)
Corollary tensor_insert_end_krel d e (A B : Mat) (ds : list nat) :
  1 <= length ds -> prodn ds = d -> 0 < e ->
  exists R, tensor_insert 2 (ofMat d A) [ofMat e B] (PSeq [Z.of_nat (length ds)]) [ds; ds] = Ok R /\
            krel d e A B (toMat (d * e) R).
Proof.
  intros Hn Hd He.
  assert (Hadm : admissible (length ds) (Z.of_nat (length ds))) by (unfold admissible; lia).
  destruct (tensor_insert_matrix d e A B ds _ Hn Hd Hadm) as [R [HR [Hsh Hent]]]. cbn zeta in Hent.
  assert (Hq : npos (length ds) (Z.of_nat (length ds)) = length ds).
  { unfold npos, norm_pos. rewrite Z.eqb_refl. simpl. apply Nat2Z.id. }
  rewrite Hq, skipn_all in Hent. change (prodn []) with 1 in Hent.
  exists R. split; auto. intros i j Hi Hj. rewrite mget_toMat by auto.
  rewrite Hent by lia. rewrite !Nat.div_1_r, !Nat.mul_1_r, !Nat.mod_1_r, !Nat.add_0_r.
  assert (Hi' : i / e < d) by (apply Nat.div_lt_upper_bound; lia).
  assert (Hj' : j / e < d) by (apply Nat.div_lt_upper_bound; lia).
  rewrite !aget_ofMat; auto; try (apply Nat.mod_upper_bound; lia).
  apply cmul_comm.
Qed.
Corollary tensor_insert_front_krel d e (A B : Mat) (ds : list nat) :
  1 <= length ds -> prodn ds = d -> 0 < d ->
  exists R, tensor_insert 2 (ofMat d A) [ofMat e B] (PSeq [0%Z]) [ds; ds] = Ok R /\
            krel e d B A (toMat (e * d) R).
Proof.
  intros Hn Hd Hd0.
  assert (Hadm : admissible (length ds) 0%Z) by (unfold admissible; lia).
  destruct (tensor_insert_matrix d e A B ds _ Hn Hd Hadm) as [R [HR [Hsh Hent]]]. cbn zeta in Hent.
  assert (Hq : npos (length ds) 0%Z = 0).
  { unfold npos, norm_pos. destruct (0 =? Z.of_nat (length ds))%Z eqn:E; simpl; [reflexivity|].
    first [reflexivity | rewrite Z.mod_0_l by lia; reflexivity]. }
  rewrite Hq in Hent. cbn [skipn] in Hent. rewrite Hd in Hent.
  exists R. split; auto. intros i j Hi Hj. rewrite mget_toMat by auto.
  rewrite Hent by auto.
  assert (Hi' : i / d < e) by (apply Nat.div_lt_upper_bound; lia).
  assert (Hj' : j / d < e) by (apply Nat.div_lt_upper_bound; lia).
  rewrite !(Nat.div_small _ (e * d)) by auto. cbn [Nat.mul Nat.add].
  rewrite !(Nat.mod_small (_ / d) e) by auto.
  rewrite !aget_ofMat; auto; try (apply Nat.mod_upper_bound; lia).
Qed.

(* ------------------------------------------------------------------ chains: C16's chain_u = kronl of Spec/DigitPerm.v *)
Lemma prodn_repeat d n : prodn (repeat d n) = d ^ n.
Proof. induction n; simpl; auto. Qed.

Lemma axis_dims_uniform a d (L : list carr) : a < 2 -> Forall (fun X => shp X = [d; d]) L ->
  axis_dims a L = repeat d (length L).
Proof.
  intros Ha H. induction H as [|X L HX HL IH]; simpl; auto. unfold axis_dims in *. simpl. rewrite IH, HX.
  destruct a as [|[|a]]; simpl; auto; lia.
Qed.
Lemma chain_u_shape_uniform d (L : list carr) : Forall (wf 2) L -> Forall (fun X => shp X = [d; d]) L ->
  shp (chain_u 2 L) = [d ^ length L; d ^ length L].
Proof.
  intros Hw Hs. rewrite chain_u_shape by auto. cbn [seq map].
  rewrite !(axis_dims_uniform _ d) by (auto; lia). rewrite prodn_repeat. reflexivity.
Qed.
Lemma chain_u_cons_kron2 (A : carr) (r : list carr) : wf 2 A -> Forall (wf 2) r ->
  chain_u 2 (A :: r) = kron2 A (chain_u 2 r).
Proof.
  intros HA Hr. change (A :: r) with ([A] ++ r). rewrite chain_u_app by (auto; repeat constructor; auto).
  f_equal. unfold chain_u. cbn [fold_left]. apply kron2_unit_l. auto.
Qed.

Theorem chain_is_kronl d (L : list carr) : Forall (wf 2) L -> Forall (fun X => shp X = [d; d]) L ->
  feq (d ^ length L) (cF (chain_u 2 L)) (kronl d (map cF L)).
Proof.
  intros Hw Hs. induction L as [|A r IH].
  - intros i j Hi Hj. simpl in Hi, Hj. assert (i = 0) by lia. assert (j = 0) by lia. subst. reflexivity.
  - inversion Hw as [|? ? HwA Hwr]; inversion Hs as [|? ? HsA Hsr]; subst.
    rewrite chain_u_cons_kron2 by auto. cbn [map kronl length]. rewrite map_length.
    replace (d ^ S (length r)) with (d * d ^ length r) by reflexivity.
    eapply feq_trans.
    + apply ckron2_is_fkron; auto. apply chain_u_shape_uniform; auto.
    + apply fkron_ext; [apply feq_refl|apply IH; auto].
Qed.
(* util.tensor of a list of d x d complex matrices is their Kronecker chain *)
Corollary tensor_is_kronl d (L : list carr) : L <> [] -> Forall (wf 2) L -> Forall (fun X => shp X = [d; d]) L ->
  exists R, tensor 2 L = Ok R /\ feq (d ^ length L) (cF R) (kronl d (map cF L)).
Proof.
  intros Hne Hw Hs. exists (chain_u 2 L). split; [apply tensor_chain_u; auto|apply chain_is_kronl; auto].
Qed.

(* ------------------------------------------------------------------ util.tensor_transpose of an arbitrary matrix: mrel *)
Lemma unravel_repeat_digits d N : forall i, Kron.unravel (repeat d N) i = digits d N i.
Proof. induction N as [|N IH]; intros i; simpl; auto. rewrite prodn_repeat, IH. reflexivity. Qed.
Lemma ravel_repeat_undigits d : forall l, ravel (repeat d (length l)) l = undigits d l.
Proof.
  induction l as [|x l IH]; [reflexivity|]. cbn [length repeat undigits].
  rewrite ravel_cons by (rewrite repeat_length; reflexivity). rewrite prodn_repeat, IH. reflexivity.
Qed.
Lemma lookup_index_of ord : forall (l : list nat) m, length l = length ord ->
  Tensor.lookup ord l m = nth (index_of m ord) l 0.
Proof.
  induction ord as [|o ord IH]; intros [|x l] m Hl; simpl in *; try discriminate; auto.
  rewrite Nat.eqb_sym. destruct (Nat.eqb o m); auto.
Qed.
Lemma inb_digits d N i : 0 < d -> i < d ^ N -> inb (digits d N i) (repeat d N).
Proof.
  intros Hd Hi. pose proof (digits_lt d N i Hd Hi) as H. pose proof (digits_length d N i) as Hl.
  clear Hi. revert H Hl. generalize (digits d N i). induction N as [|N IH]; intros l H Hl; destruct l; simpl in *; try discriminate; constructor.
  - inversion H; auto.
  - apply IH; [inversion H; auto|lia].
Qed.
Lemma nth_repeat_lt' (d : nat) N : forall o, o < N -> nth o (repeat d N) 0 = d.
Proof. induction N as [|N IH]; intros [|o] Ho; simpl; auto; try lia. apply IH. lia. Qed.
Lemma permute_dims_uniform d N ord : is_perm N ord -> map (fun o => nth o (repeat d N) 0) ord = repeat d N.
Proof.
  intros Hp. pose proof (is_perm_length N ord Hp) as Hl.
  assert (H : forall o, In o ord -> nth o (repeat d N) 0 = d).
  { intros o Ho. apply nth_repeat_lt'. eapply is_perm_lt; eauto. }
  transitivity (repeat d (length ord)); [|rewrite Hl; reflexivity].
  clear Hl Hp. induction ord as [|o ord IH]; simpl; auto. rewrite H by (left; auto). f_equal.
  apply IH. intros; apply H; right; auto.
Qed.

Theorem tensor_transpose_mrel dq N (M : Mat) ord : 0 < dq -> 1 <= N -> is_perm N ord ->
  exists R, tensor_transpose 2 (ofMat (dq ^ N) M) (map Z.of_nat ord) [repeat dq N; repeat dq N] = Ok R /\
            shp R = [dq ^ N; dq ^ N] /\
            mrel (dq ^ N) (tt_src dq N ord) M (toMat (dq ^ N) R).
Proof.
  intros Hd HN Hp. set (D := dq ^ N). set (rep := repeat dq N).
  assert (Hrows : Forall (fun x : list nat => length x = N) [rep; rep]) by (repeat constructor; apply repeat_length).
  assert (Hshp : shp (ofMat D M) = map prodn [rep; rep]) by (simpl; unfold rep; rewrite prodn_repeat; reflexivity).
  destruct (transpose_index_spec 2 N (ofMat D M) [rep; rep] ord ltac:(lia) HN eq_refl Hrows (wf_ofMat D M) Hshp Hp)
    as [R [HR [HshR [_ [_ Hent]]]]].
  exists R. split; [exact HR|]. split; [rewrite HshR; reflexivity|].
  intros i j Hi Hj. rewrite mget_toMat by auto.
  assert (Hperm_dims : permute_dims ord [rep; rep] = [rep; rep]).
  { unfold permute_dims. cbn [map]. unfold rep. rewrite permute_dims_uniform by auto. reflexivity. }
  specialize (Hent [digits dq N i; digits dq N j]). rewrite Hperm_dims in Hent.
  assert (HV : Forall2 inb [digits dq N i; digits dq N j] [rep; rep]) by (repeat constructor; apply inb_digits; auto).
  specialize (Hent HV). cbn [map2 src_blocks map] in Hent.
  assert (Hrd : forall k, k < D -> ravel rep (digits dq N k) = k).
  { intros k Hk. unfold rep. rewrite <- (digits_length dq N k) at 1. rewrite ravel_repeat_undigits. apply undigits_digits; auto. }
  rewrite !Hrd in Hent by auto. rewrite Hent.
  assert (Hsrc : forall k, k < D ->
            ravel rep (map (fun m => Tensor.lookup ord (digits dq N k) m) (seq 0 N)) = tt_src dq N ord k).
  { intros k Hk. unfold tt_src, dperm, sel, inv_order. rewrite (is_perm_length N ord Hp), map_map.
    rewrite <- ravel_repeat_undigits. rewrite map_length, seq_length. fold rep. f_equal.
    apply map_ext. intros m. apply lookup_index_of. rewrite digits_length. symmetry. eapply is_perm_length; eauto. }
  rewrite !Hsrc by auto.
  apply aget_ofMat; apply tt_src_lt; auto.
Qed.

(* ------------------------------------------------------------------ util.tensor_merge of two ARBITRARY matrices: krel *)
Lemma chain_spec_all_end {L} (its : list (nat * L)) : forall (orig : list L) q,
  (forall it, In it its -> fst it = q + length orig) ->
  chain_spec fst snd its q orig = orig ++ map snd its.
Proof.
  induction orig as [|o orig IH]; intros q H; simpl.
  - rewrite filter_all; auto. intros x Hx. apply Nat.eqb_eq. rewrite (H x Hx). simpl. lia.
  - rewrite filter_none; [|intros x Hx; apply Nat.eqb_neq; rewrite (H x Hx); simpl; lia].
    simpl. f_equal. apply IH. intros it Hit. rewrite (H it Hit). simpl. lia.
Qed.
Lemma codes_end m n : codes m n (repeat n m) = seq m n ++ seq 0 m.
Proof.
  unfold codes. rewrite chain_spec_all_end.
  - rewrite map_snd_combine by (rewrite repeat_length, seq_length; reflexivity). reflexivity.
  - intros [p c] Hin. apply in_combine_l in Hin. apply repeat_spec in Hin. rewrite seq_length. simpl. lia.
Qed.
Lemma digits_app d n m : 0 < d -> forall i, i < d ^ (n + m) ->
  digits d (n + m) i = digits d n (i / d ^ m) ++ digits d m (i mod d ^ m).
Proof.
  intros Hd. induction n as [|n IH]; intros i Hi.
  - cbn [Nat.add digits app]. simpl in Hi. rewrite Nat.mod_small by auto. reflexivity.
  - cbn [Nat.add digits app].
    assert (Hb : d ^ n <> 0) by (apply Nat.pow_nonzero; lia).
    assert (Hc : d ^ m <> 0) by (apply Nat.pow_nonzero; lia).
    assert (Hbc : d ^ (n + m) <> 0) by (apply Nat.pow_nonzero; lia).
    rewrite IH by (apply Nat.mod_upper_bound; auto).
    destruct (divmod_assoc i (d ^ n) (d ^ m) Hb Hc) as [F1 [F2 F3]].
    rewrite Nat.pow_add_r, F1, F2, <- F3. reflexivity.
Qed.
Lemma map_const_repeat' {A} (c : nat) (l : list A) : map (fun _ => c) l = repeat c (length l).
Proof. induction l; simpl; auto. rewrite IHl. reflexivity. Qed.
Lemma npos_end n : npos n (Z.of_nat n) = n.
Proof. unfold npos, norm_pos. rewrite Z.eqb_refl. simpl. apply Nat2Z.id. Qed.

(* tensor_merge(A, B, pos=[nA]*nB, [[dq]*nA]*2, [[dq]*nB]*2) = A (x) B for ANY matrices A (dq^nA), B (dq^nB):
   the hypothesis  Forall3 (krel d1 d2) Vs1 Vs2 Vs  of C05 for merged eigenvector / propagator matrices *)
Theorem tensor_merge_end_krel dq nA nB (A B : Mat) : 0 < dq -> 1 <= nA -> 1 <= nB ->
  let dA := dq ^ nA in let dB := dq ^ nB in
  exists R, tensor_merge 2 (ofMat dA A) (ofMat dB B) (repeat (Z.of_nat nA) nB)
              [repeat dq nA; repeat dq nA] [repeat dq nB; repeat dq nB] = Ok R /\
            krel dA dB A B (toMat (dA * dB) R).
Proof.
  intros Hd HnA HnB dA dB.
  assert (HrA : Forall (fun x : list nat => length x = nA) [repeat dq nA; repeat dq nA]) by (repeat constructor; apply repeat_length).
  assert (HrB : Forall (fun x : list nat => length x = nB) [repeat dq nB; repeat dq nB]) by (repeat constructor; apply repeat_length).
  assert (HsA : shp (ofMat dA A) = map prodn [repeat dq nA; repeat dq nA]) by (simpl; rewrite prodn_repeat; reflexivity).
  assert (HsB : shp (ofMat dB B) = map prodn [repeat dq nB; repeat dq nB]) by (simpl; rewrite prodn_repeat; reflexivity).
  assert (Hadm : Forall (admissible nA) (repeat (Z.of_nat nA) nB)).
  { apply Forall_forall. intros p Hp. apply repeat_spec in Hp. subst. unfold admissible. lia. }
  destruct (tensor_merge_index_spec 2 (ofMat dA A) (ofMat dB B) [repeat dq nA; repeat dq nA] [repeat dq nB; repeat dq nB] (repeat (Z.of_nat nA) nB) nA nB
              ltac:(lia) HnB HnA eq_refl eq_refl HrA HrB (wf_ofMat dA A) (wf_ofMat dB B) HsA HsB
              (repeat_length _ _) Hadm) as [R [HR [HshR [_ Hent]]]].
  cbn zeta in Hent.
  assert (Hps : map (npos nA) (repeat (Z.of_nat nA) nB) = repeat nA nB).
  { clear. induction nB; simpl; auto. rewrite npos_end, IHnB. reflexivity. }
  rewrite Hps in Hent.
  exists R. split; [exact HR|].
  set (N := nA + nB). set (rep := repeat dq N).
  assert (HD : dA * dB = dq ^ N) by (unfold dA, dB, N; rewrite Nat.pow_add_r; reflexivity).
  assert (Hdimc : forall a c, a < 2 -> c < nB + nA ->
            dimc nB [repeat dq nA; repeat dq nA] [repeat dq nB; repeat dq nB] a c = dq).
  { intros a c Ha Hc. unfold dimc. destruct a as [|[|a]]; try lia; cbn [nth];
      destruct (Nat.ltb_spec c nB); apply nth_repeat_lt'; lia. }
  assert (Hmd : merged_dims 2 nB nA [repeat dq nA; repeat dq nA] [repeat dq nB; repeat dq nB] (repeat nA nB) = [rep; rep]).
  { unfold merged_dims. cbn [seq map]. rewrite codes_end.
    assert (G : forall a, a < 2 -> map (dimc nB [repeat dq nA; repeat dq nA] [repeat dq nB; repeat dq nB] a) (seq nB nA ++ seq 0 nB) = rep).
    { intros a Ha. unfold rep, N. rewrite (map_ext_in _ (fun _ => dq)).
      - rewrite map_app, !map_const_repeat'. rewrite !seq_length. rewrite <- repeat_app. reflexivity.
      - intros c Hc. apply Hdimc; auto. apply in_app_or in Hc. destruct Hc as [Hc|Hc]; apply in_seq in Hc; lia. }
    rewrite !G by lia. reflexivity. }
  rewrite Hmd in Hent.
  intros i j Hi Hj. rewrite mget_toMat by auto. rewrite HD in Hi, Hj.
  specialize (Hent [digits dq N i; digits dq N j]).
  assert (HV : Forall2 inb [digits dq N i; digits dq N j] [rep; rep]) by (repeat constructor; apply inb_digits; auto).
  specialize (Hent HV). cbn [map2] in Hent.
  assert (Hrd : forall k, k < dq ^ N -> ravel rep (digits dq N k) = k).
  { intros k Hk. unfold rep. rewrite <- (digits_length dq N k) at 1. rewrite ravel_repeat_undigits. apply undigits_digits; auto. }
  rewrite !Hrd in Hent by auto. rewrite Hent. clear Hent.
  (* the digit blocks of the two operands *)
  assert (Hins : forall k, k < dq ^ N ->
            map (fun j0 => Tensor.lookup (codes nB nA (repeat nA nB)) (digits dq N k) j0) (seq 0 nB) = digits dq nB (k mod dB)).
  { intros k Hk. rewrite codes_end. unfold N. rewrite digits_app by auto. fold dB.
    transitivity (map (fun a => nth a (digits dq nB (k mod dB)) 0) (seq 0 (length (digits dq nB (k mod dB))))); [|apply map_nth_seq]. rewrite digits_length.
    apply map_ext_in. intros j0 Hj0. apply in_seq in Hj0.
    rewrite lookup_app_r by (rewrite ?seq_length, ?digits_length; auto; intros Hc; apply in_seq in Hc; lia).
    apply (lookup_seq nB 0 _ j0); [lia|apply digits_length]. }
  assert (Harr : forall k, k < dq ^ N ->
            map (fun k0 => Tensor.lookup (codes nB nA (repeat nA nB)) (digits dq N k) (nB + k0)) (seq 0 nA) = digits dq nA (k / dB)).
  { intros k Hk. rewrite codes_end. unfold N. rewrite digits_app by auto. fold dB.
    transitivity (map (fun a => nth a (digits dq nA (k / dB)) 0) (seq 0 (length (digits dq nA (k / dB))))); [|apply map_nth_seq]. rewrite digits_length.
    apply map_ext_in. intros k0 Hk0. apply in_seq in Hk0.
    rewrite lookup_app_l by (rewrite ?seq_length, ?digits_length; auto; apply in_seq; lia).
    apply (lookup_seq nA nB _ k0); [lia|apply digits_length]. }
  unfold ins_blocks, arr_blocks_of. cbn [seq map nth map2].
  rewrite !Hins, !Harr by auto.
  assert (HdBpos : dB <> 0) by (apply Nat.pow_nonzero; lia).
  assert (Hq : forall k, k < dq ^ N -> k / dB < dA).
  { intros k Hk. apply Nat.div_lt_upper_bound; auto. rewrite Nat.mul_comm, HD. exact Hk. }
  assert (Hrm : forall k, ravel (repeat dq nB) (digits dq nB (k mod dB)) = k mod dB).
  { intros k. rewrite <- (digits_length dq nB (k mod dB)) at 1. rewrite ravel_repeat_undigits.
    apply undigits_digits; auto. apply Nat.mod_upper_bound. auto. }
  assert (Hrq : forall k, k < dq ^ N -> ravel (repeat dq nA) (digits dq nA (k / dB)) = k / dB).
  { intros k Hk. rewrite <- (digits_length dq nA (k / dB)) at 1. rewrite ravel_repeat_undigits.
    apply undigits_digits; auto. }
  rewrite !Hrm, !Hrq by auto.
  rewrite !aget_ofMat; auto; try (apply Nat.mod_upper_bound; auto).
  apply cmul_comm.
Qed.

(* ------------------------------------------------------------------ the C16 theorems at complex entries *)
Definition C_tensor_is_kron_chain := tensor_is_kron_chain (T:=Cx).
Definition C_kron_chain_entry := kron_chain_entry (T:=Cx).
Definition C_insert_equals_tensor_of_rearranged := insert_equals_tensor_of_rearranged (T:=Cx).
Definition C_merge_equals_tensor_of_rearranged := merge_equals_tensor_of_rearranged (T:=Cx).
Definition C_transpose_equals_tensor_of_rearranged := transpose_equals_tensor_of_rearranged (T:=Cx).
Definition C_tensor_insert_spec := tensor_insert_spec (T:=Cx).
Definition C_tensor_merge_spec := tensor_merge_spec (T:=Cx).
Definition C_transpose_spec := transpose_spec (T:=Cx).
Definition C_transpose_index_spec := transpose_index_spec (T:=Cx).
Definition C_tensor_insert_single := tensor_insert_single (T:=Cx).
Definition C_tensor_merge_index_spec := tensor_merge_index_spec (T:=Cx).
Check C_merge_equals_tensor_of_rearranged.

(* Which hypotheses of C05 / C06 these discharge (M is what the helper returns on complex matrices):
   - [krel d1 d2 A B M] with M = util.tensor(A, B):                      tensor_pair_krel
   - [krel d e A B M]   with M = tensor_insert(A, B, pos=n, dims of A):   tensor_insert_end_krel  (any A, e.g. B = identity:
       the hypotheses  krel d1 d2 (ns1 a) (mid d2) (ns a)  of C05_control_matrix_embed / C05_cm_embed / two_block ...)
   - [krel e d B A M]   with M = tensor_insert(A, B, pos=0, dims of A):   tensor_insert_front_krel
       (krel d1 d2 (mid d1) (ns2 b) (ns (na1 + b)));  any middle position: tensor_insert_matrix (entry formula)
   - [mrel D (tt_src dq N order) M M'] with M' = tensor_transpose(M, order, [[dq]*N]*2) for ANY matrix M:
                                                                          tensor_transpose_mrel
       (C06: Forall2 (mrel D tau) Vs Vs', the Hamiltonian / operator relations nrel, total propagator)
   - chains: util.tensor(L) of d x d matrices = kronl d L (Spec/DigitPerm.v): tensor_is_kronl, chain_is_kronl;
       with C_transpose_equals_tensor_of_rearranged this is kronl_transpose for the MODEL of tensor_transpose.
   - [krel dA dB A B M] with M = tensor_merge(A, B, pos=[nA]*nB, [[dq]*nA]*2, [[dq]*nB]*2) for ANY matrices A, B:
                                                                          tensor_merge_end_krel
       (Forall3 (krel d1 d2) Vs1 Vs2 Vs: merged eigenvector / propagator matrices of C05_propagators_tensor,
        C05_control_matrix_embed, the C05_two_block theorems);  arbitrary position tuples: tensor_merge_index_spec (digit form).
   Not covered: tensor_insert of SEVERAL tensors at a position list into an arbitrary (non-product) tensor (one
   tensor: tensor_insert_matrix; chains: C_insert_equals_tensor_of_rearranged), and leading (stack) axes: the
   statements are per matrix. *)
Print Assumptions tensor_pair_krel.
Print Assumptions tensor_insert_end_krel.
Print Assumptions tensor_transpose_mrel.
Print Assumptions chain_is_kronl.
Print Assumptions tensor_merge_end_krel.
