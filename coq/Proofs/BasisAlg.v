(* C14 -- algebra shared by the basis proofs: index splitting of sums, Kronecker lemmas at index
   level, the predicates (orthonormal / Hermitian / complete) and exactness of the expansion. *)
From Coq Require Import ZArith Reals List Lra Lia Ring Arith.
From FF Require Import Base.Ops Inst.RInst Base.RAlg.
Import ListNotations.
Local Open Scope R_scope.

(* ------------------------------------------------------------------ sums *)
Lemma csumn_shift0 n (f : nat -> Cx) : csumn' (S n) f = cadd' (f O) (csumn' n (fun k => f (S k))).
Proof. induction n. simpl. ring. rewrite csumn_S, IHn. simpl. ring. Qed.

(* sum over i < m*n as a double sum over i = a*n + b *)
Lemma csumn_split m n (f : nat -> Cx) :
  csumn' (m * n) f = csumn' m (fun a => csumn' n (fun b => f (a * n + b)%nat)).
Proof.
  revert f. induction m; intros f. reflexivity.
  rewrite csumn_shift0. simpl Nat.mul. rewrite csumn_app, IHm. f_equal.
  apply csumn_ext. intros a _. apply csumn_ext. intros b _. f_equal. lia.
Qed.

Lemma csumn_prod m n (f g : nat -> Cx) :
  cmul' (csumn' m f) (csumn' n g) = csumn' m (fun a => csumn' n (fun b => cmul' (f a) (g b))).
Proof.
  rewrite <- csumn_mul_r. apply csumn_ext. intros a _. rewrite csumn_mul_l. reflexivity.
Qed.

Lemma csumn_cofr n (f : nat -> R) : csumn' n (fun k => cofr RO (f k)) = cofr RO (sumn' n f).
Proof. induction n; simpl. reflexivity. rewrite IHn. apply c_eq; csimp; ring. Qed.

Lemma sumn_const n c : sumn' n (fun _ => c) = INR n * c.
Proof. induction n. simpl. ring. change (sumn' (S n) (fun _ => c)) with (sumn' n (fun _ => c) + c). rewrite IHn, S_INR. ring. Qed.

Lemma divmod_lt a b n : (b < n)%nat -> ((a * n + b) / n = a)%nat /\ ((a * n + b) mod n = b)%nat.
Proof.
  intros H. split.
  - rewrite Nat.div_add_l by lia. rewrite Nat.div_small by lia. lia.
  - rewrite Nat.add_comm, Nat.mod_add by lia. apply Nat.mod_small; lia.
Qed.

(* ------------------------------------------------------------------ Kronecker product at index level *)
Definition fkron (d2 : nat) (A Bm : fmat) : fmat :=
  fun i j => cmul' (A (i / d2)%nat (j / d2)%nat) (Bm (i mod d2)%nat (j mod d2)%nat).

(* (A (x) B)(C (x) D) = AC (x) BD *)
Lemma fkron_mul d1 d2 A Bm A' B' : (0 < d2)%nat ->
  feq (d1 * d2) (fmul (d1 * d2) (fkron d2 A Bm) (fkron d2 A' B')) (fkron d2 (fmul d1 A A') (fmul d2 Bm B')).
Proof.
  intros Hd i j _ _. unfold fmul, fkron. rewrite csumn_split, csumn_prod.
  apply csumn_ext. intros a _. apply csumn_ext. intros b Hb.
  destruct (divmod_lt a b d2 Hb) as [-> ->]. ring.
Qed.

(* tr (A (x) B) = tr A tr B *)
Lemma ftr_fkron d1 d2 A Bm : (0 < d2)%nat -> ftr (d1 * d2) (fkron d2 A Bm) = cmul' (ftr d1 A) (ftr d2 Bm).
Proof.
  intros Hd. unfold ftr, fkron. rewrite csumn_split, csumn_prod.
  apply csumn_ext. intros a _. apply csumn_ext. intros b Hb.
  destruct (divmod_lt a b d2 Hb) as [-> ->]. reflexivity.
Qed.

Lemma fadj_fkron d2 A Bm i j : fadj (fkron d2 A Bm) i j = fkron d2 (fadj A) (fadj Bm) i j.
Proof. unfold fadj, fkron. apply cconj_mul. Qed.

Lemma fkron_ext d1 d2 A A' Bm B' : (0 < d2)%nat -> feq d1 A A' -> feq d2 Bm B' ->
  feq (d1 * d2) (fkron d2 A Bm) (fkron d2 A' B').
Proof.
  intros Hd HA HB i j Hi Hj. unfold fkron. rewrite HA, HB; auto.
  all: try (apply Nat.mod_upper_bound; lia).
  all: apply Nat.div_lt_upper_bound; lia.
Qed.

(* ------------------------------------------------------------------ predicates on a family of n matrices *)
Definition delta (i j : nat) : Cx := if Nat.eqb i j then 1c else 0c.

(* tr(C_i C_j) = delta_ij  (what the package calls orthonormal for a Hermitian basis) *)
Definition trace_orthonormal (d n : nat) (Cb : nat -> fmat) : Prop :=
  forall i j, (i < n)%nat -> (j < n)%nat -> ftr d (fmul d (Cb i) (Cb j)) = delta i j.
(* Hilbert-Schmidt: tr(C_i^dagger C_j) = delta_ij  (isorthonorm: U.conj() @ U.T) *)
Definition hs_orthonormal (d n : nat) (Cb : nat -> fmat) : Prop :=
  forall i j, (i < n)%nat -> (j < n)%nat -> ftr d (fmul d (fadj (Cb i)) (Cb j)) = delta i j.
Definition basis_herm (d n : nat) (Cb : nat -> fmat) : Prop := forall k, (k < n)%nat -> fherm d (Cb k).
(* completeness relation: sum_k C_k[a,b] conj(C_k[c,e]) = delta_ac delta_be *)
Definition basis_complete (d n : nat) (Cb : nat -> fmat) : Prop :=
  forall a b c e, (a < d)%nat -> (b < d)%nat -> (c < d)%nat -> (e < d)%nat ->
    csumn' n (fun k => cmul' (Cb k a b) (cconj' (Cb k c e))) = cmul' (delta a c) (delta b e).

Lemma herm_trace_hs d n Cb : basis_herm d n Cb -> trace_orthonormal d n Cb -> hs_orthonormal d n Cb.
Proof.
  intros Hh Ho i j Hi Hj. rewrite <- (Ho i j Hi Hj). apply ftr_ext. apply fmul_ext. apply Hh; auto. apply feq_refl.
Qed.

(* expansion coefficient c_j = tr(M C_j) (np.tensordot(M, basis, axes=[(-2,-1),(-1,-2)])) and reconstruction *)
Definition fexpand (d : nat) (M : fmat) (Cb : nat -> fmat) (k : nat) : Cx := ftr d (fmul d M (Cb k)).
Definition freconstruct (n : nat) (c : nat -> Cx) (Cb : nat -> fmat) : fmat :=
  fun a b => csumn' n (fun k => cmul' (c k) (Cb k a b)).

(* expansion followed by reconstruction is the identity for a complete Hermitian basis *)
Theorem expand_reconstruct_f d n Cb M : basis_herm d n Cb -> basis_complete d n Cb ->
  feq d (freconstruct n (fexpand d M Cb) Cb) M.
Proof.
  intros Hh Hc x y Hx Hy. unfold freconstruct, fexpand, ftr, fmul.
  (* sum_k (sum_a sum_b M[a,b] C_k[b,a]) C_k[x,y] = sum_a sum_b M[a,b] sum_k C_k[x,y] conj(C_k[a,b]) *)
  rewrite (csumn_ext n _ (fun k => csumn' d (fun a => csumn' d (fun b =>
             cmul' (M a b) (cmul' (Cb k x y) (cconj' (Cb k a b))))))).
  2:{ intros k Hk. rewrite <- csumn_mul_r. apply csumn_ext. intros a Ha.
      rewrite <- csumn_mul_r. apply csumn_ext. intros b Hb.
      rewrite <- (Hh k Hk b a Hb Ha). unfold fadj. ring. }
  rewrite csumn_swap.
  rewrite (csumn_ext d _ (fun a => csumn' d (fun b => cmul' (M a b) (cmul' (delta x a) (delta y b))))).
  2:{ intros a Ha. rewrite csumn_swap. apply csumn_ext. intros b Hb.
      rewrite csumn_mul_l. rewrite Hc; auto. }
  rewrite (csumn_ext d _ (fun a => if Nat.eqb x a then M a y else 0c)).
  2:{ intros a Ha. unfold delta. destruct (Nat.eqb x a).
      - rewrite (csumn_ext d _ (fun b => if Nat.eqb y b then M a b else 0c)).
        apply csumn_delta; auto. intros b _. destruct (Nat.eqb y b); ring.
      - rewrite (csumn_ext d _ (fun _ => 0c)). apply csumn_0. intros; ring. }
  apply (csumn_delta d x (fun a => M a y)); auto.
Qed.

(* real coefficients for Hermitian M and Hermitian basis element *)
Lemma expand_real d M Cm : fherm d M -> fherm d Cm -> snd (ftr d (fmul d M Cm)) = 0.
Proof.
  intros HM HC.
  assert (H : cconj' (ftr d (fmul d M Cm)) = ftr d (fmul d M Cm)).
  { rewrite <- ftr_adj. rewrite (ftr_ext d _ _ (fadj_mul d M Cm)).
    rewrite (ftr_ext d _ (fmul d Cm M)). apply ftr_cyclic.
    apply fmul_ext; auto. }
  apply (f_equal snd) in H. unfold cconj in H. simpl in H. lra.
Qed.

(* refinement helper: entries of list-built matrices *)
Lemma toF_mbuild m n (f : nat -> nat -> Cx) i j : (i < m)%nat -> (j < n)%nat -> toF (mbuild m n f) i j = f i j.
Proof. intros. unfold toF. apply mget_mbuild; auto. Qed.

Lemma sqrt_sqr_pos x : 0 <= x -> sqrt x * sqrt x = x.
Proof. apply sqrt_sqrt. Qed.
