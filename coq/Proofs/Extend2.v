(* C05: the complete two-block statement.  For two pulses on the two tensor factors of a
   d1*d2-dimensional register, product basis with orthonormal factors whose first elements are the
   normalised identities: the control matrix extend assembles from the cached control matrices of
   the two pulses, and the filter-function matrix it caches (all auto- and cross-correlations),
   are those the numeric engine computes from scratch for the tensor-product pulse.            *)
From Coq Require Import String ZArith Reals List Lra Lia Arith Bool Permutation.
From FF Require Import Base.Ops Inst.RInst Base.RAlg Spec.Kron2 Spec.DigitPerm Model.Numeric Model.Remap Model.Extend
     Proofs.RemapIdx Proofs.RemapCov Proofs.ExtendKron Proofs.ExtendKron2 Proofs.Extend.
Import ListNotations.
Local Open Scope nat_scope.

Lemma memb_build_id K x : memb x (build K (fun l => l)) = Nat.ltb x K.
Proof.
  unfold memb. destruct (Nat.ltb_spec x K).
  - apply existsb_exists. exists x. split. unfold build. apply in_map_iff. exists x. split; auto. apply in_seq; lia. apply Nat.eqb_refl.
  - apply Bool.not_true_is_false. intros E. apply existsb_exists in E. destruct E as [y [Hy E]].
    apply Nat.eqb_eq in E. subst y. unfold build in Hy. apply in_map_iff in Hy. destruct Hy as [z [<- Hz]]. apply in_seq in Hz. lia.
Qed.
Lemma index_of_build_id K x : x < K -> index_of x (build K (fun l => l)) = x.
Proof.
  intros H. assert (E : x = nth x (build K (fun l => l)) 0) by (rewrite build_nth; auto).
  rewrite E at 1. apply index_of_nth. 2: rewrite build_len; auto.
  unfold build. rewrite map_id. apply seq_NoDup.
Qed.

Lemma memb_build_mul' K1 K2 k l : 0 < K2 -> k < K1 -> l < K2 -> memb (k * K2 + l) (build K1 (fun x => x * K2)) = Nat.eqb l 0.
Proof.
  intros HK2 Hk Hl. unfold memb. destruct (Nat.eqb_spec l 0) as [->|Hne].
  - apply existsb_exists. exists (k * K2). split. unfold build. apply in_map_iff. exists k. split; auto. apply in_seq; lia.
    apply Nat.eqb_eq. lia.
  - apply Bool.not_true_is_false. intros H. apply existsb_exists in H. destruct H as [x [Hx E]].
    apply Nat.eqb_eq in E. unfold build in Hx. apply in_map_iff in Hx. destruct Hx as [y [<- _]].
    assert ((k * K2 + l) mod K2 = (y * K2) mod K2) by (rewrite E; auto).
    rewrite Nat.mod_mul in H by lia. rewrite Nat.add_comm, Nat.mod_add in H by lia. rewrite Nat.mod_small in H; lia.
Qed.
Lemma index_of_build_mul' K1 K2 k : 0 < K2 -> k < K1 -> index_of (k * K2) (build K1 (fun x => x * K2)) = k.
Proof.
  intros HK2 Hk.
  assert (E : k * K2 = nth k (build K1 (fun x => x * K2)) 0) by (rewrite build_nth; auto).
  rewrite E at 1. apply index_of_nth. 2: rewrite build_len; auto.
  unfold build. apply FinFun.Injective_map_NoDup. intros x y Hxy. nia. apply seq_NoDup.
Qed.

Section TwoBlocks.
Variables (d1 d2 K1 K2 na1 na2 : nat).
Variables (basis1 basis2 basis ns1 ns2 ns : list (Mat (T:=R))).
Hypothesis HK1 : length basis1 = K1.
Hypothesis HK2 : length basis2 = K2.
Hypothesis HK : length basis = K1 * K2.
Hypothesis Hbasis : forall k l, k < K1 -> l < K2 -> krel d1 d2 (nthm basis1 k) (nthm basis2 l) (nthm basis (k * K2 + l)).
Hypothesis Honb1 : forall l m, l < K1 -> m < K1 ->
  mtrprod RO d1 (madj RO d1 (nthm basis1 l)) (nthm basis1 m) = if Nat.eqb l m then 1c else 0c.
Hypothesis Honb2 : forall l m, l < K2 -> m < K2 ->
  mtrprod RO d2 (madj RO d2 (nthm basis2 l)) (nthm basis2 m) = if Nat.eqb l m then 1c else 0c.
Hypothesis Hd1 : 0 < d1.
Hypothesis Hd2 : 0 < d2.
Hypothesis HK1p : 0 < K1.
Hypothesis HK2p : 0 < K2.
Hypothesis HC0 : feq d1 (toF (nthm basis1 0)) (fscal (cofr RO (Rinv (sqrt (INR d1)))) fid).
Hypothesis HD0 : feq d2 (toF (nthm basis2 0)) (fscal (cofr RO (Rinv (sqrt (INR d2)))) fid).
Hypothesis Hn1 : length ns1 = na1.
Hypothesis Hn2 : length ns2 = na2.
Hypothesis Hn : length ns = na1 + na2.
(* noise operators of the new pulse: B_a (x) 1 for the first pulse, then 1 (x) B'_b for the second *)
Hypothesis Hns1 : forall a, a < na1 -> krel d1 d2 (nthm ns1 a) (mid RO d2) (nthm ns a).
Hypothesis Hns2 : forall b, b < na2 -> krel d1 d2 (mid RO d1) (nthm ns2 b) (nthm ns (na1 + b)).

Variables (thr : R) (evs1 evs2 evs : list (list R)) (Vs1 Vs2 Vs : list (Mat (T:=R))) (omega : list R).
Variables (nc1 nc2 nc : list (list R)) (dts : list R).
Hypothesis He : Forall3 (evrel d1 d2) evs1 evs2 evs.
Hypothesis HV : Forall3 (krel d1 d2) Vs1 Vs2 Vs.
Hypothesis UV1 : Forall (fun V => funitary d1 (toF V)) Vs1.
Hypothesis UV2 : Forall (fun V => funitary d2 (toF V)) Vs2.
Hypothesis Lc1 : length nc1 = na1.
Hypothesis Lc2 : length nc2 = na2.
Hypothesis Lc : length nc = na1 + na2.
Hypothesis Hc1 : forall a, a < na1 -> nth a nc [] = nth a nc1 [].
Hypothesis Hc2 : forall b, b < na2 -> nth (na1 + b) nc [] = nth b nc2 [].

Local Notation D := (d1 * d2).
Local Notation K := (K1 * K2).
Local Notation no := (length omega).
Definition cm1 := control_matrix_from_scratch RO d1 thr evs1 Vs1 (Numeric.propagators RO d1 evs1 Vs1 dts) omega basis1 ns1 nc1 dts (times RO dts).
Definition cm2 := control_matrix_from_scratch RO d2 thr evs2 Vs2 (Numeric.propagators RO d2 evs2 Vs2 dts) omega basis2 ns2 nc2 dts (times RO dts).
Definition cm12 := control_matrix_from_scratch RO D thr evs Vs (Numeric.propagators RO D evs Vs dts) omega basis ns nc dts (times RO dts).

(* what the two pulses have cached *)
Variables B1 B2 : Arr3 (T:=R).
Hypothesis HB1 : a3eq_cm na1 K1 no B1 cm1.
Hypothesis HB2 : a3eq_cm na2 K2 no B2 cm2.

Definition two_blocks : list (cmblock (T:=R)) :=
  [ (build K1 (fun x => x * K2), 0, na1, sqrt (INR d2), B1); (build K2 (fun l => l), na1, na2, sqrt (INR d1), B2) ].

Theorem two_block_control_matrix a kk o : a < na1 + na2 -> kk < K -> o < no ->
  a3get RO (assemble_cm RO (na1 + na2) K no two_blocks) a kk o = a3get RO cm12 a kk o.
Proof.
  intros Ha Hkk Ho. unfold cm12.
  assert (Hk : kk / K2 < K1) by (apply div_lt_prod; auto).
  assert (Hl : kk mod K2 < K2) by (apply Nat.mod_upper_bound; lia).
  assert (Ekk : kk = (kk / K2) * K2 + kk mod K2) by (rewrite (Nat.div_mod_eq kk K2) at 1; lia).
  remember (kk / K2) as k eqn:Ek. remember (kk mod K2) as l eqn:El. clear Ek El. subst kk.
  rewrite assemble_cm_get by auto. unfold two_blocks. simpl find_block.
  destruct (Nat.ltb_spec a na1) as [Ha1|Ha1].
  - (* rows of the first pulse *)
    rewrite (memb_build_mul' K1 K2) by auto.
    rewrite (control_matrix_embed_l d1 d2 K1 K2 basis1 basis2 basis HK1 HK Hbasis (na1 + na2) ns Hn na1 ns1 (fun a => a) Hn1
               ltac:(intros; lia) Hns1 thr evs1 evs2 evs Vs1 Vs2 Vs omega nc1 nc dts He HV UV2 Lc Lc1 Hc1 a k l o Ha1 Hk Hl Ho).
    rewrite (basis2_trace d2 K2 basis2 Honb2 Hd2 HK2p HD0 _ Hl).
    destruct (Nat.eqb_spec l 0) as [E0|]; [|ring].
    rewrite E0, Nat.add_0_r. rewrite (index_of_build_mul' K1 K2) by auto. rewrite Nat.sub_0_r.
    rewrite (HB1 a k o Ha1 Hk Ho). unfold cm1. apply c_eq; csimp; ring.
  - (* rows of the second pulse *)
    replace ((na1 <=? a) && (a <? na1 + na2)) with true
      by (symmetry; apply andb_true_iff; split; [apply Nat.leb_le|apply Nat.ltb_lt]; lia).
    rewrite memb_build_id.
    assert (Ha2 : a - na1 < na2) by lia.
    replace a with (na1 + (a - na1)) at 2 by lia.
    rewrite (control_matrix_embed_r d1 d2 K1 K2 basis1 basis2 basis HK2 HK Hbasis (na1 + na2) ns Hn na2 ns2 (fun b => na1 + b) Hn2
               ltac:(intros; cbv beta; lia) Hns2 thr evs1 evs2 evs Vs1 Vs2 Vs omega nc2 nc dts He HV UV1 Lc Lc2 Hc2 (a - na1) k l o Ha2 Hk Hl Ho).
    rewrite (basis2_trace d1 K1 basis1 Honb1 Hd1 HK1p HC0 _ Hk).
    destruct (Nat.eqb_spec k 0) as [E0|Hne].
    + subst k. simpl Nat.mul. simpl Nat.add.
      destruct (Nat.ltb_spec l K2); [|lia].
      rewrite index_of_build_id by auto.
      rewrite (HB2 (a - na1) l o Ha2 Hl Ho). unfold cm2. apply c_eq; csimp; ring.
    + destruct (Nat.ltb_spec (k * K2 + l) K2); [nia|]. ring.
Qed.

(* the COMPLETE filter-function matrix cached by extend = filter function of the from-scratch control matrix *)
Theorem two_block_filter_function a b o : a < na1 + na2 -> b < na1 + na2 -> o < no ->
  a3get RO (assemble_ff RO (na1 + na2) K no two_blocks) a b o =
  a3get RO (Numeric.filter_function RO (na1 + na2) K no cm12) a b o.
Proof.
  intros Ha Hb Ho. rewrite ff_from_cm by auto. unfold Numeric.filter_function. rewrite a3get_a3build by auto.
  apply csumn_ext. intros k Hk. rewrite !two_block_control_matrix by auto. reflexivity.
Qed.
End TwoBlocks.
