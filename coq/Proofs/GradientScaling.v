(* C11 -- change of the time unit: the absolute masks of gradient._derivative_integral break the
   homogeneity of the derivative integral (finding c11-absolute-threshold).                  *)
From Coq Require Import ZArith Reals Lra Lia List.
From Coquelicot Require Import Coquelicot.
From Interval Require Import Tactic.
From FF Require Import Base.Ops Inst.RInst Base.RAlg Model.Numeric Model.Gradient Proofs.Foi Proofs.MatAlg Proofs.Gradient.
Import ListNotations.
Local Open Scope R_scope.

(* The true parameter integral is homogeneous of degree 2 under a change of the time unit
   (x, b -> x/lam, b/lam; dt -> lam dt); with the absolute masks the model is not: the extracted
   threshold, lam = 2^27, a single level, w = 1, dt = 1.                                         *)
Theorem time_scaling_refuted :
  let thr := Rdya 944473296573929 (-73) in
  exists lam w dt : R, 0 < lam /\
    deriv_integral_entry RO (thr, thr, thr) (w / lam) [0] (dt * lam) 0 0 0 0
    <> cscal RO (lam * lam) (deriv_integral_entry RO (thr, thr, thr) w [0] dt 0 0 0 0).
Proof.
  cbv zeta. set (thr := Rdya 944473296573929 (-73)).
  assert (P : 0 < thr < 1) by (apply (Rdya_small 944473296573929 73); reflexivity).
  assert (Q : 1 / 134217728 < thr).
  { unfold thr, Rdya. interval. }
  exists 134217728, 1, 1. split. lra.
  unfold deriv_integral_entry. unfold vg, vget; simpl nth.
  change (osub RO 0 0) with (0 - 0). replace (0 - 0) with 0 by ring.
  change (oadd RO (1 / 134217728) 0) with (1 / 134217728 + 0). change (oadd RO 1 0) with (1 + 0).
  rewrite !Rplus_0_r.
  rewrite ltabs_true by (rewrite Rabs_R0; lra). rewrite !cite_true.
  unfold di_tmp1.
  rewrite (ltabs_true (1 / 134217728)) by (rewrite Rabs_right by lra; exact Q).
  rewrite (ltabs_false 1) by (rewrite Rabs_R1; lra).
  rewrite cite_true, cite_false. rewrite di_tmp2_unmasked by (rewrite Rabs_R1; lra).
  intros H. apply (f_equal fst) in H. revert H. unfold o2; simpl. rewrite !Rmult_1_l, !Rmult_1_r.
  intros H.
  assert (E : sin 1 + (cos 1 - 1) = 1 / 2).
  { apply (Rmult_eq_reg_l (134217728 * 134217728)); [|lra].
    replace (sin 1 / 1 + (cos 1 / 1 - 1 / 1) / 1) with (sin 1 + (cos 1 - 1)) in H by field.
    rewrite <- H. field. }
  revert E. interval_intro (sin 1 + (cos 1 - 1)) upper. lra.
Qed.
