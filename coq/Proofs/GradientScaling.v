(* C11 -- change of the time unit.  With the dimensionless masks (fix 602caf6) the derivative
   integral is exactly homogeneous of degree 2 under (w, eigenvalues, dt) -> (w/lam, ev/lam, lam dt);
   with the absolute masks of the pre-fix code it was not (witness).                            *)
From Coq Require Import ZArith Reals Lra Lia List.
From Coquelicot Require Import Coquelicot.
From FF Require Import Base.Ops Inst.RInst Base.RAlg Model.Numeric Model.Gradient Proofs.Foi Proofs.MatAlg Proofs.Gradient.
Import ListNotations.
Local Open Scope R_scope.

(* a / b < m 2^-k  from the integer inequality a 2^k < m b *)
Lemma Rdya_lower m k a b : (0 < b)%Z -> (a * 2 ^ Z.of_nat k < m * b)%Z -> IZR a / IZR b < Rdya m (- Z.of_nat k).
Proof.
  intros Hb H. unfold Rdya.
  assert (Q : powerRZ 2 (- Z.of_nat k) * powerRZ 2 (Z.of_nat k) = 1).
  { rewrite <- powerRZ_add by lra. replace (- Z.of_nat k + Z.of_nat k)%Z with 0%Z by lia. reflexivity. }
  assert (S : powerRZ 2 (Z.of_nat k) = IZR (2 ^ Z.of_nat k)).
  { rewrite <- pow_powerRZ. rewrite <- pow_IZR. reflexivity. }
  assert (Pk : 0 < powerRZ 2 (Z.of_nat k)) by (apply powerRZ_lt; lra).
  assert (Pb : 0 < IZR b) by (apply IZR_lt; auto).
  apply (Rmult_lt_reg_r (IZR b * powerRZ 2 (Z.of_nat k))). apply Rmult_lt_0_compat; auto.
  replace (IZR a / IZR b * (IZR b * powerRZ 2 (Z.of_nat k))) with (IZR a * powerRZ 2 (Z.of_nat k)) by (field; lra).
  replace (IZR m * powerRZ 2 (- Z.of_nat k) * (IZR b * powerRZ 2 (Z.of_nat k)))
    with (IZR m * IZR b * (powerRZ 2 (- Z.of_nat k) * powerRZ 2 (Z.of_nat k))) by ring.
  rewrite Q, Rmult_1_r, S. rewrite <- !mult_IZR. apply IZR_lt. exact H.
Qed.

(* ------------------------------------------------------------------ homogeneity (current code) *)
Section Scaling.
Variable lam : R.
Hypothesis lam_pos : 0 < lam.

Lemma vg_map_div ev i : vg RO (map (fun e => e / lam) ev) i = vg RO ev i / lam.
Proof.
  unfold vg, vget. change (o0 RO) with 0. replace 0 with (0 / lam) at 1 by (unfold Rdiv; ring).
  apply (map_nth (fun e => e / lam)).
Qed.
Lemma scaled_angle x dt : x / lam * (dt * lam) = x * dt.
Proof. field. lra. Qed.

Lemma Ic_scaling x dt : Ic (x / lam) (dt * lam) = lam * Ic x dt.
Proof.
  destruct (Req_dec x 0) as [->|Hx].
  - replace (0 / lam) with 0 by (unfold Rdiv; ring). rewrite !Ic_0. ring.
  - assert (x / lam <> 0) by (intros E; apply Hx; apply (Rmult_eq_reg_r (/ lam)); [unfold Rdiv in E; rewrite E; ring | apply Rinv_neq_0_compat; lra]).
    rewrite !Ic_nz by auto. rewrite scaled_angle. field. split; lra.
Qed.
Lemma Is_scaling x dt : Is (x / lam) (dt * lam) = lam * Is x dt.
Proof.
  destruct (Req_dec x 0) as [->|Hx].
  - replace (0 / lam) with 0 by (unfold Rdiv; ring). rewrite !Is_0. ring.
  - assert (x / lam <> 0) by (intros E; apply Hx; apply (Rmult_eq_reg_r (/ lam)); [unfold Rdiv in E; rewrite E; ring | apply Rinv_neq_0_compat; lra]).
    rewrite !Is_nz by auto. rewrite scaled_angle. field. split; lra.
Qed.
Lemma di_tmp2_scaling x dt : di_tmp2 RO (x / lam) (dt * lam) = cscal RO lam (di_tmp2 RO x dt).
Proof. rewrite !di_tmp2_val, Ic_scaling, Is_scaling. apply c_eq; csimp; ring. Qed.

Lemma di_tmp1_scaling thr x dt : 0 < thr ->
  di_tmp1 RO thr (x / lam) (dt * lam) = cscal RO (lam * lam) (di_tmp1 RO thr x dt).
Proof.
  intros H0. unfold di_tmp1. rewrite di_tmp2_scaling.
  change (omul RO (x / lam) (dt * lam)) with (x / lam * (dt * lam)). rewrite scaled_angle.
  change (omul RO x dt) with (x * dt).
  destruct (Rlt_le_dec (Rabs (x * dt)) thr) as [H|H].
  - rewrite !ltabs_true by exact H. rewrite !cite_true. apply c_eq; csimp; ring.
  - assert (Hx : x <> 0) by exact (unmasked_nz thr x dt H0 H).
    rewrite !ltabs_false by exact H. rewrite !cite_false.
    apply c_eq; unfold cdivr, csub, cmul, cscal, cexp; simpl; field; lra.
Qed.

Lemma di_nz_scaling x b dt : b <> 0 ->
  di_nz RO (x / lam) (b / lam) (dt * lam) = cscal RO (lam * lam) (di_nz RO x b dt).
Proof.
  intros Hb. unfold di_nz.
  change (oadd RO (x / lam) (b / lam)) with (x / lam + b / lam). change (oadd RO x b) with (x + b).
  replace (x / lam + b / lam) with ((x + b) / lam) by (field; lra).
  rewrite !di_tmp2_scaling. apply c_eq; unfold cdivr, cadd, cneg, cscal; simpl; field; lra.
Qed.

(* gradient._derivative_integral is exactly homogeneous of degree 2 under a change of the time unit *)
Theorem time_scaling thr_dE thr_s w ev dt p q m n : 0 < thr_dE -> 0 < thr_s ->
  deriv_integral_entry RO (thr_dE, thr_s) (w / lam) (map (fun e => e / lam) ev) (dt * lam) p q m n
  = cscal RO (lam * lam) (deriv_integral_entry RO (thr_dE, thr_s) w ev dt p q m n).
Proof.
  intros H1 H2. unfold deriv_integral_entry. cbn [fst snd]. rewrite !vg_map_div.
  change (osub RO (vg RO ev p / lam) (vg RO ev q / lam)) with (vg RO ev p / lam - vg RO ev q / lam).
  change (osub RO (vg RO ev p) (vg RO ev q)) with (di_b ev p q).
  replace (vg RO ev p / lam - vg RO ev q / lam) with (di_b ev p q / lam) by (unfold di_b; field; lra).
  change (oadd RO (w / lam) (osub RO (vg RO ev m / lam) (vg RO ev n / lam)))
    with (w / lam + (vg RO ev m / lam - vg RO ev n / lam)).
  change (oadd RO w (osub RO (vg RO ev m) (vg RO ev n))) with (di_x w ev m n).
  replace (w / lam + (vg RO ev m / lam - vg RO ev n / lam)) with (di_x w ev m n / lam) by (unfold di_x; field; lra).
  change (omul RO (di_b ev p q / lam) (dt * lam)) with (di_b ev p q / lam * (dt * lam)). rewrite scaled_angle.
  change (omul RO (di_b ev p q) dt) with (di_b ev p q * dt).
  destruct (Rlt_le_dec (Rabs (di_b ev p q * dt)) thr_dE) as [H|H].
  - rewrite !ltabs_true by exact H. rewrite !cite_true. apply di_tmp1_scaling; auto.
  - rewrite !ltabs_false by exact H. rewrite !cite_false. apply di_nz_scaling.
    exact (unmasked_nz thr_dE _ dt H1 H).
Qed.
End Scaling.

(* ------------------------------------------------------------------ pre-fix code: absolute masks np.abs(x) < thr *)
Definition di_tmp2_prefix (thr x dt : R) : Cx :=
  cite RO (ltabs RO x thr) (0, dt) (cos (x * dt) / x - 1 / x, sin (x * dt) / x).
Definition di_tmp1_prefix (thr x dt : R) : Cx :=
  let t2 := di_tmp2_prefix thr x dt in
  cite RO (ltabs RO x thr) (dt * dt / 2, 0)
    (sin (x * dt) / x * dt + fst t2 / x, - (cos (x * dt) / x * dt) + snd t2 / x).
Definition di_nz_prefix (thr thr_y x b dt : R) : Cx :=
  let y := x + b in
  cdivr RO (cadd' (cite RO (ltabs RO y thr_y) (0, - dt) ((1 - cos (y * dt)) / y, - sin (y * dt) / y))
                  (di_tmp2_prefix thr x dt)) b.
Definition deriv_integral_entry_prefix (th3 : R * R * R) (w : R) (ev : list R) (dt : R) (p q m n : nat) : Cx :=
  let '(thr_dE, thr_x, thr_y) := th3 in
  cite RO (ltabs RO (di_b ev p q) thr_dE) (di_tmp1_prefix thr_x (di_x w ev m n) dt)
          (di_nz_prefix thr_x thr_y (di_x w ev m n) (di_b ev p q) dt).

(* extracted threshold, lam = 2^27, a single level, w = 10, dt = 1 (|sin|, |cos| <= 1 suffice) *)
Theorem time_scaling_prefix_refuted :
  let thr := Rdya 944473296573929 (-73) in
  exists lam w dt : R, 0 < lam /\
    deriv_integral_entry_prefix (thr, thr, thr) (w / lam) [0] (dt * lam) 0 0 0 0
    <> cscal RO (lam * lam) (deriv_integral_entry_prefix (thr, thr, thr) w [0] dt 0 0 0 0).
Proof.
  cbv zeta. set (thr := Rdya 944473296573929 (-73)).
  assert (P : 0 < thr < 1) by (apply (Rdya_small 944473296573929 73); reflexivity).
  assert (Q : 10 / 134217728 < thr) by (apply (Rdya_lower 944473296573929 73 10 134217728); reflexivity).
  exists 134217728, 10, 1. split. lra.
  unfold deriv_integral_entry_prefix, di_b, di_x. unfold vg, vget; simpl nth.
  replace (0 - 0) with 0 by ring. rewrite !Rplus_0_r.
  rewrite ltabs_true by (rewrite Rabs_R0; lra). rewrite !cite_true.
  unfold di_tmp1_prefix.
  rewrite (ltabs_true (10 / 134217728)) by (rewrite Rabs_right by lra; exact Q).
  rewrite (ltabs_false 10) by (rewrite Rabs_right by lra; lra).
  rewrite cite_true, cite_false. unfold di_tmp2_prefix.
  rewrite (ltabs_false 10) by (rewrite Rabs_right by lra; lra). rewrite cite_false.
  intros H. apply (f_equal fst) in H. revert H. simpl. rewrite !Rmult_1_l, !Rmult_1_r.
  intros H.
  assert (E : sin 10 / 10 + (cos 10 / 10 - 1 / 10) / 10 = 1 / 2).
  { apply (Rmult_eq_reg_l (134217728 * 134217728)); [|lra]. rewrite <- H. field. }
  generalize (SIN_bound 10) (COS_bound 10). intros. lra.
Qed.
