(* C11 -- change of the time unit: the absolute masks of gradient._derivative_integral break the
   homogeneity of the derivative integral (finding c11-absolute-threshold).                  *)
From Coq Require Import ZArith Reals Lra Lia List.
From Coquelicot Require Import Coquelicot.
From FF Require Import Base.Ops Inst.RInst Base.RAlg Model.Numeric Model.Gradient Proofs.Foi Proofs.MatAlg Proofs.Gradient.
Import ListNotations.
Local Open Scope R_scope.

(* a / b < m 2^-k  from the integer inequality a 2^k < m b *)
Lemma Rdya_lower m k a b : (0 < b)%Z -> (a * 2 ^ Z.of_nat k < m * b)%Z -> IZR a / IZR b < Rdya m (- Z.of_nat k).
Proof.
  intros Hb H. unfold Rdya.
  assert (Q : powerRZ 2 (- Z.of_nat k) * powerRZ 2 (Z.of_nat k) = 1).
  { rewrite <- powerRZ_add by lra. replace (- Z.of_nat k + Z.of_nat k)%Z with 0%Z by lia. reflexivity. }
  assert (S : powerRZ 2 (Z.of_nat k) = IZR (2 ^ Z.of_nat k)).
  { rewrite <- pow_powerRZ. rewrite <- pow_IZR. reflexivity. }
  assert (Pk : 0 < powerRZ 2 (Z.of_nat k)) by (apply powerRZ_lt; lra).
  assert (Pb : 0 < IZR b) by (apply IZR_lt; auto).
  apply (Rmult_lt_reg_r (IZR b * powerRZ 2 (Z.of_nat k))). apply Rmult_lt_0_compat; auto.
  replace (IZR a / IZR b * (IZR b * powerRZ 2 (Z.of_nat k))) with (IZR a * powerRZ 2 (Z.of_nat k)) by (field; lra).
  replace (IZR m * powerRZ 2 (- Z.of_nat k) * (IZR b * powerRZ 2 (Z.of_nat k)))
    with (IZR m * IZR b * (powerRZ 2 (- Z.of_nat k) * powerRZ 2 (Z.of_nat k))) by ring.
  rewrite Q, Rmult_1_r, S. rewrite <- !mult_IZR. apply IZR_lt. exact H.
Qed.

(* The true parameter integral is homogeneous of degree 2 under a change of the time unit
   (x, b -> x/lam, b/lam; dt -> lam dt); with the absolute masks the model is not: the extracted
   threshold, lam = 2^27, a single level, w = 10, dt = 1 (|sin|, |cos| <= 1 suffice).            *)
Theorem time_scaling_refuted :
  let thr := Rdya 944473296573929 (-73) in
  exists lam w dt : R, 0 < lam /\
    deriv_integral_entry RO (thr, thr, thr) (w / lam) [0] (dt * lam) 0 0 0 0
    <> cscal RO (lam * lam) (deriv_integral_entry RO (thr, thr, thr) w [0] dt 0 0 0 0).
Proof.
  cbv zeta. set (thr := Rdya 944473296573929 (-73)).
  assert (P : 0 < thr < 1) by (apply (Rdya_small 944473296573929 73); reflexivity).
  assert (Q : 10 / 134217728 < thr) by (apply (Rdya_lower 944473296573929 73 10 134217728); reflexivity).
  exists 134217728, 10, 1. split. lra.
  unfold deriv_integral_entry. unfold vg, vget; simpl nth.
  change (osub RO 0 0) with (0 - 0). replace (0 - 0) with 0 by ring.
  change (oadd RO (10 / 134217728) 0) with (10 / 134217728 + 0). change (oadd RO 10 0) with (10 + 0).
  rewrite !Rplus_0_r.
  rewrite ltabs_true by (rewrite Rabs_R0; lra). rewrite !cite_true.
  unfold di_tmp1.
  rewrite (ltabs_true (10 / 134217728)) by (rewrite Rabs_right by lra; exact Q).
  rewrite (ltabs_false 10) by (rewrite Rabs_right by lra; lra).
  rewrite cite_true, cite_false. rewrite di_tmp2_unmasked by (rewrite Rabs_right by lra; lra).
  intros H. apply (f_equal fst) in H. revert H. unfold o2; simpl. rewrite !Rmult_1_l, !Rmult_1_r.
  intros H.
  assert (E : sin 10 / 10 + (cos 10 / 10 - 1 / 10) / 10 = 1 / 2).
  { apply (Rmult_eq_reg_l (134217728 * 134217728)); [|lra]. rewrite <- H. field. }
  generalize (SIN_bound 10) (COS_bound 10). intros. lra.
Qed.
