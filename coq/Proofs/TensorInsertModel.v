(* C16 -- the model of single_tensor_insert (reshape to the recorded constituent dimensions, einsum with
   the constructed subscripts, reshape to the product shape) computes the Kronecker insertion of
   Spec/Kron.v, which depends on the recorded dimensions only through the products behind the insertion
   point. *)
From Coq Require Import ZArith List Arith Lia Bool Permutation.
From FF Require Import Model.Tensor Spec.Kron Proofs.TensorIdx Proofs.TensorOrder Proofs.Tensor
  Proofs.TensorKron Proofs.TensorRegroup Proofs.TensorInsert.
Import ListNotations.

Section Generic.
Context {T : Type} {EN : Entry T} {EL : EntryLaws T}.
Local Notation arr := (garr T).

(* ------------------------------------------------------------------ subscripts in block form *)
Lemma flat_map_map2 {A B C} (f : A -> B -> list C) (g : A -> B) l :
  flat_map (fun a => f a (g a)) l = concat (map2 f l (map g l)).
Proof. induction l as [|a l IH]; simpl; auto. rewrite IH. reflexivity. Qed.

Lemma seq_blocks c m r : concat (map (fun a => seq (c + a * m) m) (seq 0 r)) = seq c (m * r).
Proof.
  rewrite <- flat_map_concat_map.
  rewrite (flat_map_ext _ (fun a => map (fun k => c + k) (seq (a * m) m))) by (intros a; rewrite map_add_seq; reflexivity).
  rewrite <- map_flat_map, flat_map_seq_blocks, map_add_seq. f_equal; lia.
Qed.

Definition ins_letters (r : nat) : list nat := seq 0 r.
Definition arr_blocks (m r : nat) : list (list nat) := map (fun a => seq (r + a * m) m) (seq 0 r).

Lemma insert_subscripts_blocks m pos r : 1 <= r -> pos <= m ->
  tensor_insert_subscripts m pos r = (ins_letters r, concat (arr_blocks m r), blocks_env pos (ins_letters r) (arr_blocks m r)).
Proof.
  intros Hr Hp. rewrite insert_subscripts_spec by auto.
  unfold arr_blocks, ins_letters, blocks_env. rewrite seq_blocks, flat_map_map2. reflexivity.
Qed.

Lemma blocks_env_perm {A} pos (X : list A) : forall B, length X = length B ->
  Permutation (blocks_env pos X B) (X ++ concat B).
Proof.
  induction X as [|x X IH]; intros [|b B] H; simpl in *; try discriminate; [constructor|].
  unfold blocks_env. cbn [map2 concat]. fold (blocks_env pos X B).
  rewrite insert_at_perm, IH by lia. simpl. constructor.
  rewrite !app_assoc. apply Permutation_app_tail. apply Permutation_app_comm.
Qed.

Lemma map2_map_l {A A' B C} (f : A' -> B -> C) (g : A -> A') l : forall m,
  map2 f (map g l) m = map2 (fun a b => f (g a) b) l m.
Proof. induction l as [|a l IH]; intros [|b m]; simpl; auto. rewrite IH. reflexivity. Qed.
Lemma map_map2 {A B C D} (h : C -> D) (f : A -> B -> C) l : forall m,
  map h (map2 f l m) = map2 (fun a b => h (f a b)) l m.
Proof. induction l as [|a l IH]; intros [|b m]; simpl; auto. rewrite IH. reflexivity. Qed.
Lemma map2_ext_in {A B C} (f g : A -> B -> C) l : forall m,
  (forall a b, In a l -> In b m -> f a b = g a b) -> map2 f l m = map2 g l m.
Proof.
  induction l as [|a l IH]; intros [|b m] H; simpl; auto.
  rewrite H by (left; auto). rewrite IH; auto. intros; apply H; right; auto.
Qed.

Lemma lookup_remove_mid X' : forall E' b d R R' l, ~ In l b -> length b = length d -> length X' = length E' ->
  lookup (X' ++ b ++ R) (E' ++ d ++ R') l = lookup (X' ++ R) (E' ++ R') l.
Proof.
  induction X' as [|x X' IH]; intros [|e E'] b d R R' l Hl Hbd HXE; simpl in *; try discriminate.
  - apply lookup_app_r; auto.
  - destruct (l =? x); auto.
Qed.

Lemma blocks_dims pos X : forall B E Ds,
  NoDup (X ++ concat B) -> length X = length B -> length E = length X ->
  Forall2 (fun b d => length b = length d) B Ds ->
  map (lookup (X ++ concat B) (E ++ concat Ds)) (blocks_env pos X B) = blocks_env pos E Ds.
Proof.
  induction X as [|x X IH]; intros B E Ds Hnd H1 H2 HBD.
  - destruct B; destruct E; simpl in *; try discriminate. inversion HBD; subst. reflexivity.
  - destruct B as [|b B]; destruct E as [|e E]; simpl in H1, H2; try discriminate.
    inversion HBD as [|? d ? Ds' Hbd HBD']; subst.
    unfold blocks_env. cbn [map2 concat]. fold (blocks_env pos X B). fold (blocks_env pos E Ds').
    rewrite map_app. cbn [concat app] in *.
    inversion Hnd as [|? ? Hx Hnd']; subst.
    assert (Hxb : ~ In x b) by (intros Hc; apply Hx; apply in_or_app; right; apply in_or_app; auto).
    assert (HbX : forall l, In l b -> ~ In l X).
    { intros l Hl Hc. eapply (NoDup_app_disj X (b ++ concat B)); eauto. apply in_or_app. auto. }
    assert (HndXB : NoDup (X ++ concat B)).
    { clear -Hnd'. revert Hnd'. generalize (concat B). intros cb Hnd'.
      induction X as [|z X IH]; simpl in *.
      - eapply NoDup_app_r; eauto.
      - inversion Hnd' as [|? ? Hz Hn]; subst. constructor.
        + intros Hc. apply Hz. apply in_app_or in Hc. apply in_or_app. destruct Hc; auto. right. apply in_or_app. auto.
        + apply IH; auto. }
    f_equal.
    + rewrite map_insert_at. cbn [lookup]. rewrite Nat.eqb_refl. f_equal.
      transitivity (map (lookup b d) b); [|apply map_lookup_self; auto; apply NoDup_app_r in Hnd'; eapply NoDup_app_l; eauto].
      apply map_ext_in. intros l Hl.
      destruct (Nat.eqb_spec l x) as [E0|E0]; [subst; contradiction|].
      rewrite lookup_app_r by (auto; lia). apply lookup_app_l; auto.
    + rewrite <- (IH B E Ds' HndXB ltac:(lia) ltac:(lia) HBD').
      apply map_ext_in. intros l Hl.
      apply (Permutation_in _ (blocks_env_perm pos X B ltac:(lia))) in Hl.
      assert (Hlx : l <> x) by (intros ->; apply Hx; apply in_app_or in Hl; apply in_or_app; destruct Hl; auto; right; apply in_or_app; auto).
      assert (Hlb : ~ In l b).
      { intros Hc. apply in_app_or in Hl. destruct Hl as [Hl|Hl].
        - eapply HbX; eauto.
        - apply NoDup_app_r in Hnd'. eapply (NoDup_app_disj b (concat B)); eauto. }
      cbn [lookup]. destruct (Nat.eqb_spec l x); [contradiction|].
      apply lookup_remove_mid; auto; lia.
Qed.

(* ------------------------------------------------------------------ multi-indices of the fine output shape *)
Lemma inb_app a1 a2 s1 s2 : inb a1 s1 -> inb a2 s2 -> inb (a1 ++ a2) (s1 ++ s2).
Proof. intros H1 H2. apply Forall2_app; auto. Qed.

Lemma inb_insert_at_inv pos e d blk : pos <= length d -> inb blk (insert_at pos e d) ->
  exists y v, blk = insert_at pos y v /\ y < e /\ inb v d.
Proof.
  intros Hp H. unfold insert_at in H.
  apply Forall2_app_inv_r in H. destruct H as [vp [rest [H1 [H2 E]]]].
  inversion H2 as [|y ? vs ? Hy H3]; subst.
  exists y, (vp ++ vs). split; [|split; auto].
  - unfold insert_at.
    assert (Hl : length vp = pos) by (apply inb_length in H1; rewrite firstn_length in H1; lia).
    rewrite firstn_app, skipn_app, Hl, Nat.sub_diag, firstn_all2, skipn_all2 by lia. simpl.
    rewrite app_nil_r. reflexivity.
  - rewrite <- (firstn_skipn pos d). apply inb_app; auto.
Qed.

Lemma inb_blocks_inv pos E : forall Ds fi, length E = length Ds -> Forall (fun d => pos <= length d) Ds ->
  inb fi (blocks_env pos E Ds) ->
  exists Y V, fi = blocks_env pos Y V /\ inb Y E /\ Forall2 inb V Ds.
Proof.
  induction E as [|e E IH]; intros [|d Ds] fi Hl Hp H; simpl in Hl; try discriminate.
  - unfold blocks_env in H. simpl in H. inversion H; subst. exists [], []. repeat split; constructor.
  - unfold blocks_env in H. cbn [map2 concat] in H. fold (blocks_env pos E Ds) in H.
    apply Forall2_app_inv_r in H. destruct H as [blk [rest [H1 [H2 E0]]]]. subst fi.
    inversion Hp as [|? ? Hpd Hp']; subst.
    destruct (inb_insert_at_inv pos e d blk Hpd H1) as [y [v [Eb [Hy Hv]]]].
    destruct (IH Ds rest ltac:(lia) Hp' H2) as [Y [V [Er [HY HV]]]].
    exists (y :: Y), (v :: V). split; [|split; constructor; auto].
    unfold blocks_env. cbn [map2 concat]. fold (blocks_env pos Y V). rewrite Eb, Er. reflexivity.
Qed.

Lemma split_by_blocks (G : list (list nat)) : forall (W : list (list nat)),
  Forall2 (fun g w => length g = length w) G W -> split_by G (concat W) = W.
Proof.
  induction G as [|g G IH]; intros W H; inversion H as [|? w ? W' Hgw H']; subst; [reflexivity|].
  cbn [split_by concat]. rewrite Hgw, firstn_app, Nat.sub_diag, firstn_all, firstn_O, app_nil_r.
  rewrite skipn_app, Nat.sub_diag, skipn_all, skipn_O. simpl. rewrite IH; auto.
Qed.

(* ------------------------------------------------------------------ arithmetic on one axis *)
Lemma ravel_insert_at pos e d y v : pos <= length d -> length v = length d ->
  ravel (insert_at pos e d) (insert_at pos y v) =
  (ravel (firstn pos d) (firstn pos v) * e + y) * prodn (skipn pos d) + ravel (skipn pos d) (skipn pos v).
Proof.
  intros Hp Hl. unfold insert_at.
  rewrite ravel_app by (rewrite ?firstn_length; simpl; rewrite ?skipn_length; lia).
  rewrite ravel_cons by (rewrite !skipn_length; lia).
  cbn [prodn fold_right]. fold (prodn (skipn pos d)). ring.
Qed.

Lemma inb_skipn pos : forall v d, inb v d -> inb (skipn pos v) (skipn pos d).
Proof.
  induction pos as [|pos IH]; intros v d H; simpl; auto.
  inversion H; subst; [constructor|]. apply IH. auto.
Qed.
Lemma inb_firstn pos : forall v d, inb v d -> inb (firstn pos v) (firstn pos d).
Proof.
  induction pos as [|pos IH]; intros v d H; simpl; [constructor|].
  inversion H; subst; constructor; auto. apply IH. auto.
Qed.

Lemma ins_axis_arith pos e d y v : pos <= length d -> y < e -> inb v d ->
  let Sx := prodn (skipn pos d) in
  let idx := ravel (insert_at pos e d) (insert_at pos y v) in
  (idx / Sx) mod e = y /\ idx / (e * Sx) * Sx + idx mod Sx = ravel d v.
Proof.
  intros Hp Hy Hv. cbn zeta.
  assert (Hl : length v = length d) by (eapply inb_length; eauto).
  rewrite ravel_insert_at by auto.
  set (x := ravel (firstn pos d) (firstn pos v)).
  set (z := ravel (skipn pos d) (skipn pos v)).
  set (Sx := prodn (skipn pos d)).
  assert (Hz : z < Sx).
  { apply ravel_bound. apply inb_skipn. auto. }
  assert (HS : Sx <> 0) by lia.
  assert (He : e <> 0) by lia.
  assert (Hrd : ravel d v = x * Sx + z).
  { rewrite <- (firstn_skipn pos v), <- (firstn_skipn pos d) at 1.
    apply ravel_app; rewrite ?firstn_length, ?skipn_length; lia. }
  rewrite Hrd.
  replace ((x * e + y) * Sx + z) with ((x * e + y) * Sx + z) by reflexivity.
  assert (D1 : ((x * e + y) * Sx + z) / Sx = x * e + y).
  { rewrite Nat.div_add_l by auto. rewrite (Nat.div_small _ _ Hz). lia. }
  assert (M1 : ((x * e + y) * Sx + z) mod Sx = z).
  { rewrite Nat.add_comm, Nat.mod_add by auto. apply Nat.mod_small. auto. }
  assert (D2 : ((x * e + y) * Sx + z) / (e * Sx) = x).
  { replace (e * Sx) with (Sx * e) by lia. rewrite <- Nat.div_div by auto. rewrite D1.
    rewrite Nat.div_add_l by auto. rewrite (Nat.div_small _ _ Hy). lia. }
  rewrite D1, M1, D2. split; auto.
  rewrite Nat.add_comm, Nat.mod_add by auto. apply Nat.mod_small. auto.
Qed.

Lemma ins_lists_arith pos E : forall Ds Y V, length E = length Ds -> Forall (fun d => pos <= length d) Ds ->
  inb Y E -> Forall2 inb V Ds ->
  let Sl := map (fun d => prodn (skipn pos d)) Ds in
  let idx := map2 ravel (map2 (insert_at pos) E Ds) (map2 (insert_at pos) Y V) in
  map2 Nat.modulo (map2 Nat.div idx Sl) E = Y /\
  map2 Nat.add (map2 Nat.mul (map2 Nat.div idx (map2 Nat.mul E Sl)) Sl) (map2 Nat.modulo idx Sl) = map2 ravel Ds V.
Proof.
  induction E as [|e E IH]; intros [|d Ds] Y V Hl Hp HY HV; simpl in Hl; try discriminate.
  - inversion HY; inversion HV; subst. simpl. auto.
  - inversion HY as [|y ? Y' ? Hy HY']; subst. inversion HV as [|v ? V' ? Hv HV']; subst.
    inversion Hp as [|? ? Hpd Hp']; subst.
    destruct (IH Ds Y' V' ltac:(lia) Hp' HY' HV') as [I1 I2]. cbn zeta in *.
    destruct (ins_axis_arith pos e d y v Hpd Hy Hv) as [A1 A2]. cbn zeta in *.
    cbn [map map2]. rewrite I1, I2, A1, A2. auto.
Qed.

Lemma gather_lookup' env vals opl : forall ops,
  inb (map (lookup env vals) opl) ops -> gather env vals opl ops = map (lookup env vals) opl.
Proof.
  induction opl as [|l opl IH]; intros ops H; simpl in *; inversion H as [|? d ? ops' Hl H']; subst; simpl; auto.
  rewrite IH by auto. f_equal. destruct (Nat.eqb_spec d 1); lia.
Qed.
Lemma inb_concat V : forall Ds, Forall2 inb V Ds -> inb (concat V) (concat Ds).
Proof. induction 1; simpl; [constructor|apply inb_app; auto]. Qed.
Lemma concat_length_const {A} m (Ds : list (list A)) : Forall (fun d => length d = m) Ds ->
  length (concat Ds) = m * length Ds.
Proof. induction 1; simpl; [lia|]. rewrite app_length. lia. Qed.
Lemma prodn_insert_at pos e d : prodn (insert_at pos e d) = e * prodn d.
Proof. rewrite (prodn_perm _ _ (insert_at_perm pos e d)). reflexivity. Qed.

Theorem single_insert_kron_ins r m C ins Ds pos :
  1 <= r -> length Ds = r -> Forall (fun d => length d = m) Ds -> pos <= m ->
  wf r C -> wf r ins -> shp C = map prodn Ds ->
  single_tensor_insert r C ins Ds pos =
  Ok (kron_ins (map (fun d => prodn (firstn pos d)) Ds) (map (fun d => prodn (skipn pos d)) Ds) C ins).
Proof.
  intros Hr HDs Hm Hpos [HC1 HC2] [HI1 HI2] HshC.
  unfold single_tensor_insert.
  assert (Hhd : length (hd [] Ds) = m).
  { destruct Ds as [|d Ds]; [simpl in HDs; lia|]. inversion Hm; auto. }
  rewrite Hhd, insert_subscripts_blocks by auto.
  rewrite tps_norank by auto. cbn [bind].
  assert (Hlead : lead r (shp C) = []) by (unfold lead; rewrite HC1, Nat.sub_diag; reflexivity).
  rewrite Hlead. cbn [app].
  unfold reshape at 1. rewrite prodn_concat, <- HshC, <- HC2, Nat.eqb_refl. cbn [bind].
  set (X := ins_letters r). set (B := arr_blocks m r).
  assert (HlB : length B = r) by (unfold B, arr_blocks; rewrite map_length, seq_length; auto).
  assert (HlX : length X = r) by (unfold X, ins_letters; rewrite seq_length; auto).
  assert (HBm : Forall (fun b => length b = m) B).
  { unfold B, arr_blocks. apply Forall_forall. intros b Hb. apply in_map_iff in Hb. destruct Hb as [a [<- _]]. apply seq_length. }
  assert (Hnd : NoDup (X ++ concat B)).
  { unfold X, B, ins_letters, arr_blocks. rewrite seq_blocks, <- seq_app. apply seq_NoDup. }
  assert (HBD : Forall2 (fun (b d : list nat) => length b = length d) B Ds).
  { clear -HlB HDs HBm Hm. revert Ds HDs Hm. rewrite <- HlB. clear HlB.
    induction B as [|b B IH]; intros [|d Ds] H1 H2; simpl in *; try discriminate; constructor;
      inversion HBm; inversion H2; subst; auto; try lia. }
  assert (P1 : length (shp ins) = length X) by lia.
  assert (P2 : length (shp (mkArr (concat Ds) (dat C))) = length (concat B)).
  { cbn [shp]. rewrite (concat_length_const m) by auto. rewrite (concat_length_const m) by auto. lia. }
  assert (P4 : incl (blocks_env pos X B) (X ++ concat B)).
  { intros l Hl. eapply Permutation_in; [apply (blocks_env_perm pos); lia|exact Hl]. }
  assert (P5 : incl (X ++ concat B) (blocks_env pos X B)).
  { intros l Hl. eapply Permutation_in; [symmetry; apply (blocks_env_perm pos); lia|exact Hl]. }
  rewrite einsum2_nosum by assumption.
  cbn [bind shp]. rewrite blocks_dims by (auto; lia).
  set (E := shp ins). set (groups := map2 (insert_at pos) E Ds).
  assert (Hfine : blocks_env pos E Ds = concat groups) by reflexivity.
  assert (Hcoarse : map2 Nat.mul E (shp C) = map prodn groups).
  { rewrite HshC. unfold groups. clear -HI1 HDs. subst E. revert Ds HDs. rewrite <- HI1. generalize (shp ins).
    induction l as [|e l IH]; intros [|d Ds] H; simpl in *; try discriminate; auto.
    rewrite prodn_insert_at, IH by lia. reflexivity. }
  unfold reshape, tabulate. cbn [dat].
  rewrite map_length, indices_length, Hfine, prodn_concat, <- Hcoarse, Nat.eqb_refl.
  f_equal. unfold kron_ins, tabulate. f_equal. fold E.
  rewrite Hcoarse. rewrite <- (indices_regroup groups).
  apply map_ext_in. intros fi Hfi. apply In_indices in Hfi. rewrite <- Hfine in Hfi.
  assert (HpD : Forall (fun d => pos <= length d) Ds).
  { eapply Forall_impl; [|exact Hm]. simpl. intros d Hd. lia. }
  destruct (inb_blocks_inv pos E Ds fi ltac:(subst E; lia) HpD Hfi) as [Y [V [Efi [HY HV]]]].
  assert (HlY : length Y = r) by (apply inb_length in HY; subst E; lia).
  assert (HBV : Forall2 (fun b v : list nat => length b = length v /\ pos <= length b) B V).
  { clear -HBD HV HBm Hpos. revert V HV. induction HBD as [|b d B Ds Hbd HBD IH]; intros V HV; inversion HV as [|v ? V' ? Hv HV']; subst; constructor.
    - inversion HBm; subst. apply inb_length in Hv. split; lia.
    - inversion HBm; subst. apply IH; auto. }
  destruct (blocks_lookup pos X B Y V Hnd ltac:(lia) ltac:(lia) HBV) as [L1 L2].
  subst fi.
  rewrite gather_lookup' by (rewrite L1; exact HY).
  rewrite gather_lookup' by (rewrite L2; apply inb_concat; exact HV).
  rewrite L1, L2.
  (* the coarse index of this fine index *)
  assert (Hside : Forall2 (fun g w : list nat => length g = length w) groups (map2 (insert_at pos) Y V)).
  { unfold groups. clear -HY HV HpD. revert Ds Y V HY HV HpD. subst E. generalize (shp ins).
    induction l as [|e l IH]; intros Ds Y V HY HV Hp; inversion HY; subst; inversion HV; subst; simpl; constructor.
    - inversion Hp; subst. rewrite !insert_at_length. f_equal. symmetry. eapply inb_length; eauto.
    - inversion Hp; subst. apply IH; auto. }
  unfold merge_idx. change (blocks_env pos Y V) with (concat (map2 (insert_at pos) Y V)).
  rewrite !(split_by_blocks _ _ Hside).
  destruct (ins_lists_arith pos E Ds Y V ltac:(subst E; lia) HpD HY HV) as [A1 A2]. cbn zeta in *.
  fold groups in A1, A2. rewrite A1, A2.
  f_equal. unfold aget. cbn [shp dat]. rewrite HshC. f_equal.
  apply ravel_concat.
  clear -HV. induction HV; constructor; auto. eapply inb_length; eauto.
Qed.
End Generic.
