(* Semantic tie of gradient._derivative_integral (C11): the term translated from the current Python source by
   tools/kernel_extract.py (Extracted/Kernels.v) equals deriv_integral_entry of Model/Gradient.v. *)
From Coq Require Import ZArith Reals Lra Lia List.
From FF Require Import Base.Ops Inst.RInst Base.RAlg Model.Numeric Model.Gradient Extracted.Kernels.
Import ListNotations.
Local Open Scope R_scope.

Example kernels_translated_C11 : kernel_untranslated_C11 = nil.
Proof. reflexivity. Qed.

(* x <> 0 from a mask fact  c < |e|  or  c <= |e|  with x a factor of e (the context bounds c from below by 0) *)
Ltac nz_from_masks x :=
  let Hx := fresh in
  intro Hx;
  match goal with
  | H : _ < Rabs ?e |- _ =>
      match e with context [x] => idtac end;
      rewrite Hx in H; rewrite ?Rmult_0_l, ?Rmult_0_r, ?Rabs_R0 in H; lra
  | H : _ <= Rabs ?e |- _ =>
      match e with context [x] => idtac end;
      rewrite Hx in H; rewrite ?Rmult_0_l, ?Rmult_0_r, ?Rabs_R0 in H; lra
  end.

(* Entry [o][p][q][m][n] of the array the Python function returns (w = E[o], evp .. evn = eigvals[p] .. eigvals[n]) is the
   model's deriv_integral_entry, for ANY previous contents of `out` and of the arrays NumPy allocates for the where= calls
   (junk); thr_dE, thr_s are the two literals of the source (np.abs(dE*dt) < .., np.abs(EdE*dt) < ..): positive *)
Theorem deriv_integral_entry_is_source thr_dE thr_s w evp evq evm evn dt junk o p q m n : 0 < thr_dE -> 0 < thr_s ->
  deriv_integral_entry_src RO thr_dE thr_s w evp evq evm evn dt junk o p q m n =
  cite RO (ltabs RO (omul RO (osub RO evp evq) dt) thr_dE)
       (di_tmp1 RO thr_s (oadd RO w (osub RO evm evn)) dt)
       (di_nz RO (oadd RO w (osub RO evm evn)) (osub RO evp evq) dt).
Proof.
  intros H1 H2.
  unfold deriv_integral_entry_src, di_tmp1, di_nz, di_tmp2, di_series_coeffs, horner, ltabs, nonzero, cite, cdivr, csub, cadd,
    cneg, cmul, cscal, cexp, c0, o2, oZ.
  cbn [fst snd fold_left]. simpl.
  set (x := w + (evm - evn)). set (dE := evp - evq).
  repeat match goal with |- context [Rgtb ?a ?t] => let b := fresh "bm" in set (b := Rgtb a t) end.
  repeat match goal with
  | b1 := Rgtb ?a1 ?c1, b2 := Rgtb ?a2 ?c2 |- _ =>
      tryif constr_eq b1 b2 then fail else
        (let H := fresh in
         assert (H : b2 = b1) by (unfold b1, b2; f_equal; first [reflexivity | unfold x, dE; ring | f_equal; unfold x, dE; ring]);
         clearbody b2; subst b2)
  end.
  repeat match goal with
  | b := Rgtb ?a ?t |- _ =>
      let E := fresh "E" in assert (E : Rgtb a t = b) by reflexivity; clearbody b; destruct b;
      [apply Rgtb_true in E | apply Rgtb_false in E]
  end;
  try (exfalso; lra);
  try (assert (x <> 0) by nz_from_masks x); try (assert (dE <> 0) by nz_from_masks dE);
  try (assert (x + dE <> 0) by nz_from_masks (x + dE));
  unfold Rdya; simpl; (f_equal; field; repeat split; try assumption; try nra; try lra).
Qed.

Theorem deriv_integral_is_source thr_dE thr_s w (ev : list R) dt junk o p q m n : 0 < thr_dE -> 0 < thr_s ->
  deriv_integral_entry RO (thr_dE, thr_s) w ev dt p q m n =
  deriv_integral_entry_src RO thr_dE thr_s w (vg RO ev p) (vg RO ev q) (vg RO ev m) (vg RO ev n) dt junk o p q m n.
Proof. intros H1 H2. rewrite deriv_integral_entry_is_source by assumption. reflexivity. Qed.

(* gradient.calculate_filter_function_derivative: 2 * Re einsum('ako,hotak->atho', conj B, dB) *)
Example ffd_translated : ffd_entry_src_untranslated = nil.
Proof. reflexivity. Qed.

Theorem ffd_is_source nk (Bm : nat -> nat -> nat -> Cx) (dB : nat -> nat -> nat -> nat -> nat -> Cx) a t h o :
  ffd_entry RO nk (fun k => Bm a k o) (fun k => dB h o t a k) = ffd_entry_src RO nk Bm dB a t h o.
Proof.
  unfold ffd_entry, ffd_entry_src. rewrite csumn_re.
  apply (f_equal (fun z => omul RO (o2 RO) z)). apply sumn_ext. intros k _. csimp. reflexivity.
Qed.
