(* The normalised Pauli basis (d = 2) is a complete orthonormal Hermitian basis: the hypotheses
   of the trace identity / Parseval theorems are satisfiable; concrete refutation witness of
   "infidelity = - tr K / d^2" on the traceless branch.                                        *)
From Coq Require Import ZArith Reals List Lra Lia Bool.
From FF Require Import Base.Ops Inst.RInst Base.RAlg Base.FMat Model.Numeric Model.Decay Model.Cumulant
     Proofs.Trapz Proofs.Decay Proofs.DecayPrefix Proofs.TraceId.
Import ListNotations.
Local Open Scope R_scope.

Definition sP : R := / sqrt 2.
Lemma sP_sq : sP * sP = / 2.
Proof. unfold sP. rewrite <- Rinv_mult. rewrite sqrt_sqrt by lra. reflexivity. Qed.

Definition pauli_basis : list MatR :=
  [ [[(sP, 0); (0, 0)]; [(0, 0); (sP, 0)]];        (* 1/sqrt2 *)
    [[(0, 0); (sP, 0)]; [(sP, 0); (0, 0)]];        (* X/sqrt2 *)
    [[(0, 0); (0, - sP)]; [(0, sP); (0, 0)]];      (* Y/sqrt2 *)
    [[(sP, 0); (0, 0)]; [(0, 0); (- sP, 0)]] ].    (* Z/sqrt2 *)
Definition pauli_Cb : nat -> fmat := fun k => toF (nthm pauli_basis k).

Ltac four k := destruct k as [|[|[|[|k]]]]; [ | | | | exfalso; lia].
Ltac two i := destruct i as [|[|i]]; [ | | exfalso; lia].

Lemma pauli_herm : basis_herm 2 4 pauli_Cb.
Proof. intros k Hk i j Hi Hj. four k; two i; two j; apply c_eq; csimp; ring. Qed.

Lemma pauli_orthonormal : basis_orthonormal 2 4 pauli_Cb.
Proof.
  intros k l Hk Hl. four k; four l; apply c_eq; unfold ftr, fmul, pauli_Cb, toF, mget, nthm; csimp;
    ring_simplify; try (rewrite ?sP_sq; lra); try (replace (sP ^ 2) with (/2) by (simpl; rewrite Rmult_1_r; symmetry; apply sP_sq); lra).
Qed.

Lemma pauli_complete : basis_complete 2 4 pauli_Cb.
Proof.
  intros X i j Hi Hj. unfold fsum, fscal, fid, ftr, fmul, pauli_Cb, toF, mget, nthm.
  two i; two j; apply c_eq; csimp; ring_simplify;
    replace (sP ^ 2) with (/2) by (simpl; rewrite Rmult_1_r; symmetry; apply sP_sq); lra.
Qed.

(* ---------- refutation witness: control matrix with an identity component ---------- *)
(* B_{0,k}(w) = 1 for k = 0 (the basis element proportional to the identity), 0 otherwise;
   two frequencies 0, 1; white spectrum S = 1 *)
Definition Bw : A3r := [[ [(1,0); (1,0)]; [(0,0); (0,0)]; [(0,0); (0,0)]; [(0,0); (0,0)] ]].
Definition spw : spectrumR := Sp1 [(1,0); (1,0)].
Definition omw : list R := [0; 1].

Lemma Gamma_w k l : (k < 4)%nat -> (l < 4)%nat ->
  Gamma Bw Bw [0%nat] spw 2 omw 0 0 k l = if (Nat.eqb k 0 && Nat.eqb l 0)%bool then / (2 * PI) else 0.
Proof.
  intros Hk Hl. unfold Gamma, trapz_w. simpl sumn.
  four k; four l; unfold a3get, sel, spec_at, Bw, spw, omw; csimp; field; generalize PI_RGT_0; lra.
Qed.

Lemma pauli_traces k : (1 <= k < 4)%nat -> ftr 2 (pauli_Cb k) = 0c.
Proof. intros Hk. destruct k as [|[|[|[|k]]]]; try lia; apply c_eq; unfold ftr, pauli_Cb, toF, mget, nthm; csimp; ring. Qed.

(* the pre-fix traceless branch (before 2891db3) *)
Theorem traceless_branch_prefix_refuted :
  exists (basis : list MatR) (Bm : A3r) (sp : spectrumR) (omega : list R),
    let d := 2%nat in let n := length basis in let Cb := fun k => toF (nthm basis k) in
    basis_herm d n Cb /\ basis_orthonormal d n Cb /\ basis_complete d n Cb /\
    (forall k, (1 <= k < n)%nat -> ftr d (Cb k) = 0c) /\
    let G := rmbuild n n (fun k l => Gamma Bm Bm [0%nat] sp 2 omega 0 0 k l) in
    let Tr := a4get RO (four_traces_arr RO d (pair_products RO d basis) n) in
    nth 0 (infidelity_total_prefix d true 1 n 2 Bm basis [0%nat] sp omega) 0 <>
    - sumn' n (fun m => cumulant_general_fn RO n Tr false G G m m) / (INR d * INR d).
Proof.
  exists pauli_basis, Bw, spw, omw. cbv zeta.
  split. exact pauli_herm. split. exact pauli_orthonormal. split. exact pauli_complete.
  split. exact pauli_traces.
  change (length pauli_basis) with 4%nat.
  pose proof (infidelity_traceless_prefix_excess 2 pauli_basis ltac:(lia) pauli_herm pauli_orthonormal pauli_complete
                1 4 2 Bw [0%nat] spw omw eq_refl) as H.
  assert (Hidx : idx_ok 1 [0%nat]) by (intros i Hi; simpl in Hi; destruct i; unfold sel; simpl; lia).
  specialize (H Hidx eq_refl 0%nat 0%nat
                (rmbuild 4 4 (fun k l => Gamma Bw Bw [0%nat] spw 2 omw 0 0 k l))
                ltac:(simpl; lia) ltac:(simpl; lia) (fun _ => eq_refl)).
  change (lead_pos spw (length [0%nat]) 0 0) with 0%nat in H.
  change (length pauli_basis) with 4%nat in H.
  rewrite H. clear H.
  set (K := sumn' 4 _).
  assert (HGT : GT 2 pauli_basis (rmbuild 4 4 (fun k l => Gamma Bw Bw [0%nat] spw 2 omw 0 0 k l)) = / PI).
  { unfold GT. change (length pauli_basis) with 4%nat.
    simpl sumn. unfold rmget, rmbuild. rewrite !nth_build by lia.
    rewrite !Gamma_w by lia. simpl andb. cbv iota.
    unfold trb, tC, ftr, toF, mget, nthm, pauli_basis. csimp.
    generalize sP_sq PI_RGT_0. intros Hs Hp. field_simplify; try lra.
    replace (sP ^ 2) with (/2) by (simpl; rewrite Rmult_1_r; auto). field. lra. }
  rewrite HGT. simpl INR.
  assert (0 < / PI / ((1 + 1) * (1 + 1))).
  { apply Rdiv_lt_0_compat. apply Rinv_0_lt_compat, PI_RGT_0. lra. }
  lra.
Qed.
