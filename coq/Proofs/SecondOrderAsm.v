(* Second-order filter function, assembly (Model/SecondOrder.v) over the reals.
   Part 3: four-fold sums, the same-segment identity
             D(a,b,k,l) + conj D(b,a,l,k) = conj(step[a,k]) step[b,l]          (same_plus_adjoint_seg)
   Part 4: the loop over segments (so_loop_get), the algebra of the cross terms (so_spec_adjoint),
           F2_plus_adjoint, intermediates_irrelevant, F2_assembly_partial.                      *)
From Coq Require Import ZArith Reals Lra Lia List.
From Coquelicot Require Import Coquelicot.
From FF Require Import Base.Ops Inst.RInst Base.RAlg Model.Numeric Model.SecondOrder Proofs.Foi Proofs.SecondOrder.
Import ListNotations.
Local Open Scope R_scope.

(* ------------------------------------------------------------------ lists and arrays *)
Lemma nth_map_lt {A B} (f : A -> B) l n d d' : (n < length l)%nat -> nth n (map f l) d' = f (nth n l d).
Proof. intros H. rewrite (nth_indep _ d' (f d)) by (rewrite map_length; auto). apply map_nth. Qed.

Lemma a3get_a3build n1 n2 n3 (f : nat -> nat -> nat -> Cx) a k o :
  (a < n1)%nat -> (k < n2)%nat -> (o < n3)%nat -> a3get RO (a3build n1 n2 n3 f) a k o = f a k o.
Proof. intros. unfold a3get, a3build. rewrite !nth_build by auto. reflexivity. Qed.
Lemma a3get_a3add n1 n2 n3 A B a k o :
  (a < n1)%nat -> (k < n2)%nat -> (o < n3)%nat ->
  a3get RO (a3add RO n1 n2 n3 A B) a k o = cadd' (a3get RO A a k o) (a3get RO B a k o).
Proof. intros. unfold a3add. rewrite a3get_a3build by auto. reflexivity. Qed.
Lemma a3get_a3zero n1 n2 n3 a k o :
  (a < n1)%nat -> (k < n2)%nat -> (o < n3)%nat -> a3get RO (a3zero RO n1 n2 n3) a k o = 0c.
Proof. intros. unfold a3zero. rewrite a3get_a3build by auto. reflexivity. Qed.

Lemma a5get_a5build n1 n2 n3 n4 n5 (f : nat -> nat -> nat -> nat -> nat -> Cx) a b k l o :
  (a < n1)%nat -> (b < n2)%nat -> (k < n3)%nat -> (l < n4)%nat -> (o < n5)%nat ->
  a5get RO (a5build n1 n2 n3 n4 n5 f) a b k l o = f a b k l o.
Proof. intros. unfold a5get, a5build. rewrite !nth_build by auto. reflexivity. Qed.
Lemma a5get_a5add n1 n2 n3 n4 n5 A B a b k l o :
  (a < n1)%nat -> (b < n2)%nat -> (k < n3)%nat -> (l < n4)%nat -> (o < n5)%nat ->
  a5get RO (a5add RO n1 n2 n3 n4 n5 A B) a b k l o = cadd' (a5get RO A a b k l o) (a5get RO B a b k l o).
Proof. intros. unfold a5add. rewrite a5get_a5build by auto. reflexivity. Qed.
Lemma a5get_a5zero n1 n2 n3 n4 n5 a b k l o :
  (a < n1)%nat -> (b < n2)%nat -> (k < n3)%nat -> (l < n4)%nat -> (o < n5)%nat ->
  a5get RO (a5zero RO n1 n2 n3 n4 n5) a b k l o = 0c.
Proof. intros. unfold a5zero. rewrite a5get_a5build by auto. reflexivity. Qed.

(* ------------------------------------------------------------------ four-fold sums *)
Section S4.
Variable d : nat.
Definition S2 (f : nat -> nat -> Cx) : Cx := csumn' d (fun i => csumn' d (fun j => f i j)).
Definition S4 (f : nat -> nat -> nat -> nat -> Cx) : Cx := S2 (fun i j => S2 (fun m n => f i j m n)).

Lemma S2_ext f g : (forall i j, (i < d)%nat -> (j < d)%nat -> f i j = g i j) -> S2 f = S2 g.
Proof. intros H. unfold S2. apply csumn_ext. intros i Hi. apply csumn_ext. intros j Hj. auto. Qed.
Lemma S2_swap f : S2 f = S2 (fun i j => f j i).
Proof. unfold S2. apply csumn_swap. Qed.
Lemma S2_add f g : S2 (fun i j => cadd' (f i j) (g i j)) = cadd' (S2 f) (S2 g).
Proof. unfold S2. rewrite <- csumn_add. apply csumn_ext. intros i _. apply csumn_add. Qed.
Lemma S2_mul_l a f : S2 (fun i j => cmul' a (f i j)) = cmul' a (S2 f).
Proof. unfold S2. rewrite <- csumn_mul_l. apply csumn_ext. intros i _. apply csumn_mul_l. Qed.
Lemma S2_mul_r a f : S2 (fun i j => cmul' (f i j) a) = cmul' (S2 f) a.
Proof. unfold S2. rewrite <- csumn_mul_r. apply csumn_ext. intros i _. apply csumn_mul_r. Qed.
Lemma S2_conj f : cconj' (S2 f) = S2 (fun i j => cconj' (f i j)).
Proof. unfold S2. rewrite csumn_conj. apply csumn_ext. intros i _. apply csumn_conj. Qed.
(* exchange of the two pairs of a double-double sum *)
Lemma S2_S2_swap (f : nat -> nat -> nat -> nat -> Cx) :
  S2 (fun i j => S2 (fun m n => f i j m n)) = S2 (fun m n => S2 (fun i j => f i j m n)).
Proof.
  unfold S2.
  (* sum_i sum_j sum_m sum_n -> sum_m sum_n sum_i sum_j *)
  rewrite (csumn_ext d _ (fun i => csumn' d (fun m => csumn' d (fun j => csumn' d (fun n => f i j m n))))).
  2:{ intros i _. apply csumn_swap. }
  rewrite csumn_swap. apply csumn_ext. intros m _.
  (* sum_i sum_j sum_n -> sum_n sum_i sum_j *)
  rewrite (csumn_ext d _ (fun i => csumn' d (fun n => csumn' d (fun j => f i j m n)))).
  2:{ intros i _. apply csumn_swap. }
  apply csumn_swap.
Qed.

Lemma S4_ext f g : (forall i j m n, (i < d)%nat -> (j < d)%nat -> (m < d)%nat -> (n < d)%nat -> f i j m n = g i j m n) -> S4 f = S4 g.
Proof. intros H. unfold S4. apply S2_ext. intros. apply S2_ext. intros. auto. Qed.
Lemma S4_add f g : S4 (fun i j m n => cadd' (f i j m n) (g i j m n)) = cadd' (S4 f) (S4 g).
Proof. unfold S4. rewrite <- S2_add. apply S2_ext. intros. apply S2_add. Qed.
Lemma S4_conj f : cconj' (S4 f) = S4 (fun i j m n => cconj' (f i j m n)).
Proof. unfold S4. rewrite S2_conj. apply S2_ext. intros. apply S2_conj. Qed.
(* (i,j,m,n) -> (n,m,j,i) *)
Lemma S4_rev f : S4 f = S4 (fun i j m n => f n m j i).
Proof.
  unfold S4. rewrite S2_S2_swap. rewrite S2_swap. apply S2_ext. intros n m _ _.
  rewrite S2_swap. reflexivity.
Qed.
Lemma S4_prod (u v : nat -> nat -> Cx) : cmul' (S2 u) (S2 v) = S4 (fun i j m n => cmul' (u i j) (v m n)).
Proof.
  unfold S4. rewrite <- S2_mul_r. apply S2_ext. intros. rewrite S2_mul_l. reflexivity.
Qed.

(* step_expr 'oijmn,akij,blmn->abklo' for fixed (o; a,k; b,l), contracted pairwise as the model does *)
Definition same_sum (I2 : nat -> nat -> nat -> nat -> Cx) (X Y : fmat) : Cx :=
  S2 (fun m n => cmul' (S2 (fun i j => cmul' (I2 i j m n) (X i j))) (Y m n)).

Lemma same_sum_S4 I2 X Y : same_sum I2 X Y = S4 (fun i j m n => cmul' (cmul' (I2 i j m n) (X i j)) (Y m n)).
Proof.
  unfold same_sum, S4. rewrite S2_S2_swap. apply S2_ext. intros m n _ _. rewrite S2_mul_r. reflexivity.
Qed.

(* the same-segment identity in abstract form *)
Lemma same_sum_adjoint I2 (X Y : fmat) (Ja Jb : nat -> nat -> Cx) :
  (forall i j m n, (i < d)%nat -> (j < d)%nat -> (m < d)%nat -> (n < d)%nat ->
     cadd' (I2 i j m n) (cconj' (I2 n m j i)) = cmul' (Ja i j) (Jb m n)) ->
  (forall i j, (i < d)%nat -> (j < d)%nat -> cconj' (X i j) = X j i) ->
  (forall i j, (i < d)%nat -> (j < d)%nat -> cconj' (Y i j) = Y j i) ->
  cadd' (same_sum I2 X Y) (cconj' (same_sum I2 Y X)) =
  cmul' (S2 (fun i j => cmul' (Ja i j) (X i j))) (S2 (fun m n => cmul' (Jb m n) (Y m n))).
Proof.
  intros HI HX HY. rewrite !same_sum_S4, S4_conj.
  rewrite (S4_rev (fun i j m n => cconj' _)). rewrite <- S4_add, S4_prod.
  apply S4_ext. intros i j m n Hi Hj Hm Hn.
  rewrite !cconj_mul, HY, HX by auto.
  transitivity (cmul' (cmul' (Ja i j) (Jb m n)) (cmul' (X i j) (Y m n))); [|ring].
  rewrite <- (HI i j m n) by auto. ring.
Qed.
End S4.

(* ------------------------------------------------------------------ one segment over the reals *)
Section Seg.
Variable d : nat.

(* U^dagger A U is Hermitian when A is *)
Lemma tbu_get U A i j : (i < d)%nat -> (j < d)%nat ->
  mget RO (transform_by_unitary RO d U A) i j =
  csumn' d (fun k => cmul' (cconj' (mget RO U k i)) (csumn' d (fun l => cmul' (mget RO A k l) (mget RO U l j)))).
Proof.
  intros Hi Hj. unfold transform_by_unitary, mmul. rewrite mget_mbuild by auto.
  apply csumn_ext. intros k Hk. unfold madj. rewrite !mget_mbuild by auto. reflexivity.
Qed.
Lemma tbu_herm U A : fherm d (toF A) -> forall i j, (i < d)%nat -> (j < d)%nat ->
  cconj' (mget RO (transform_by_unitary RO d U A) i j) = mget RO (transform_by_unitary RO d U A) j i.
Proof.
  intros HA i j Hi Hj. rewrite !tbu_get by auto. rewrite csumn_conj.
  assert (HA' : forall p q, (p < d)%nat -> (q < d)%nat -> cconj' (mget RO A p q) = mget RO A q p)
    by (intros p q Hp Hq; apply (HA q p); auto).
  rewrite (csumn_ext d _ (fun k => csumn' d (fun l => cmul' (cmul' (mget RO U k i) (mget RO A l k)) (cconj' (mget RO U l j))))).
  2:{ intros k Hk. rewrite cconj_mul, cconj_invol, csumn_conj, <- csumn_mul_l. apply csumn_ext. intros l Hl.
      rewrite cconj_mul, HA' by auto. ring. }
  rewrite csumn_swap. apply csumn_ext. intros l Hl. rewrite <- csumn_mul_l. apply csumn_ext. intros k Hk. ring.
Qed.

Definition nbf (NTa BTk : Mat) : fmat := fun i j => cmul' (mget RO NTa i j) (mget RO BTk j i).

Lemma so_same_get na nk no NT BT tabs a b k l o :
  (a < na)%nat -> (b < na)%nat -> (k < nk)%nat -> (l < nk)%nat -> (o < no)%nat ->
  (a < length NT)%nat -> (b < length NT)%nat -> (k < length BT)%nat -> (l < length BT)%nat -> (o < length tabs)%nat ->
  a5get RO (so_same RO d na nk no NT BT tabs) a b k l o =
  same_sum d (t4get RO (nth o tabs [])) (nbf (nth a NT []) (nth k BT [])) (nbf (nth b NT []) (nth l BT [])).
Proof.
  intros. unfold so_same. rewrite a5get_a5build by auto. cbv zeta.
  unfold same_sum, S2. apply csumn_ext. intros m Hm. apply csumn_ext. intros n Hn.
  rewrite (nth_map_lt _ tabs o []) by auto. cbv beta.
  rewrite (nth_map_lt _ _ a []) by (rewrite map_length; auto). cbv beta.
  rewrite (nth_map_lt _ NT a []) by auto. cbv beta.
  rewrite (nth_map_lt (A:=Mat (T:=R)) _ _ k []) by (rewrite map_length; auto). cbv beta.
  rewrite (nth_map_lt _ BT k []) by auto. cbv beta.
  rewrite (nth_map_lt _ NT b []) by auto. cbv beta.
  rewrite (nth_map_lt _ BT l []) by auto. cbv beta.
  rewrite mget_mbuild by auto. unfold nb_mat. rewrite mget_mbuild by auto. unfold nbf.
  f_equal. apply csumn_ext. intros i Hi. apply csumn_ext. intros j Hj. rewrite mget_mbuild by auto. reflexivity.
Qed.

Lemma t4get_soi_tab thr2 w ev dt i j m n : (i < d)%nat -> (j < d)%nat -> (m < d)%nat -> (n < d)%nat ->
  t4get RO (soi_tab RO d thr2 w ev dt) i j m n = soi_entry RO thr2 w (vg RO ev i) (vg RO ev j) (vg RO ev m) (vg RO ev n) dt.
Proof. intros. unfold t4get, soi_tab. rewrite !nth_build by auto. rewrite mget_mbuild by auto. reflexivity. Qed.

Lemma cm_step_get thr ev V Q tg dt omega basis nopers nc a k o :
  (a < length nopers)%nat -> (k < length basis)%nat -> (o < length omega)%nat ->
  a3get RO (cm_step RO d thr ev V Q tg dt omega basis nopers nc) a k o =
  cmul' (cexp' (vg RO omega o * tg))
    (cscal RO (vg RO nc a)
      (S2 d (fun m n => cmul' (cmul' (mget RO (transform_by_unitary RO d V (nth a nopers [])) m n)
                                      (foi_entry RO thr (vg RO omega o) (vg RO ev m) (vg RO ev n) dt))
                              (mget RO (transform_by_unitary RO d (mmul RO d (madj RO d Q) V) (nth k basis [])) n m)))).
Proof.
  intros Ha Hk Ho. unfold cm_step. rewrite a3get_a3build by auto. cbv zeta.
  unfold nthm. rewrite (nth_map_lt _ omega o 0) by auto.
  rewrite (nth_map_lt _ nopers a []) by auto. rewrite (nth_map_lt _ basis k []) by auto.
  f_equal. f_equal. unfold S2. apply csumn_ext. intros m Hm. apply csumn_ext. intros n Hn.
  unfold foi. rewrite mget_mbuild by auto. reflexivity.
Qed.

Lemma foi_entry_is_J thr w evm evn dt : 0 <= thr ->
  (w + (evm - evn) = 0 \/ thr < Rabs ((w + (evm - evn)) * dt)) ->
  foi_entry RO thr w evm evn dt = Jc (w + (evm - evn)) dt.
Proof.
  intros Ht [H0|Hm].
  - rewrite foi_entry_unmasked. unfold foi_x. rewrite H0, Jc_0. reflexivity.
    unfold foi_x. rewrite H0, Rmult_0_l, Rabs_R0. exact Ht.
  - rewrite foi_entry_masked by exact Hm. unfold foi_x. rewrite Jc_nz. reflexivity.
    eapply masked_div_safe; eauto.
Qed.

Lemma so_NT_nth V nopers nc a : length nc = length nopers -> (a < length nopers)%nat ->
  nth a (so_NT RO d V nopers nc) [] = mscalr RO d (vg RO nc a) (transform_by_unitary RO d V (nth a nopers [])).
Proof.
  intros HL Ha. unfold so_NT. rewrite (nth_map_lt (A:=(Mat (T:=R) * R)%type) _ _ a ([], 0)) by (rewrite combine_length; lia).
  rewrite combine_nth by auto. reflexivity.
Qed.
Lemma so_BT_nth V Q basis k : (k < length basis)%nat ->
  nth k (so_BT RO d V Q basis) [] = transform_by_unitary RO d (mmul RO d (madj RO d Q) V) (nth k basis []).
Proof. intros Hk. unfold so_BT. cbv zeta. rewrite (nth_map_lt _ basis k []) by auto. reflexivity. Qed.
Lemma so_NT_length V nopers nc : length nc = length nopers -> length (so_NT RO d V nopers nc) = length nopers.
Proof. intros. unfold so_NT. rewrite map_length, combine_length. lia. Qed.
Lemma so_BT_length V Q basis : length (so_BT RO d V Q basis) = length basis.
Proof. unfold so_BT. cbv zeta. apply map_length. Qed.

Lemma cscal_cmul s (z : Cx) : cscal RO s z = cmul' (s, 0) z.
Proof. apply c_eq; csimp; ring. Qed.
Lemma cconj_real s : cconj' (s, 0) = (s, 0).
Proof. apply c_eq; csimp; ring. Qed.

Lemma regular_a thr2 w ei ej T : regular thr2 (w + (ej - ei)) T -> regular thr2 ((ei - ej) - w) T.
Proof. intros H. replace ((ei - ej) - w) with (- (w + (ej - ei))) by ring. apply regular_opp; auto. Qed.

(* the same-segment term and the per-segment control matrix:
   D_g(a,b,k,l) + conj D_g(b,a,l,k) = conj(step_g[a,k]) step_g[b,l]                               *)
Theorem same_plus_adjoint_seg thr thr2 ev V Q tg dt omega basis nopers nc a b k l o :
  0 <= thr -> 0 <= thr2 ->
  (forall N, In N nopers -> fherm d (toF N)) -> (forall Ck, In Ck basis -> fherm d (toF Ck)) ->
  length nc = length nopers ->
  (a < length nopers)%nat -> (b < length nopers)%nat -> (k < length basis)%nat -> (l < length basis)%nat ->
  (o < length omega)%nat ->
  (forall m n, (m < d)%nat -> (n < d)%nat ->
     let x := vg RO omega o + (vg RO ev m - vg RO ev n) in x = 0 \/ thr < Rabs (x * dt)) ->
  (forall m n, (m < d)%nat -> (n < d)%nat -> regular thr2 (vg RO omega o + (vg RO ev m - vg RO ev n)) dt) ->
  let na := length nopers in let nk := length basis in let no := length omega in
  let D := so_same RO d na nk no (so_NT RO d V nopers nc) (so_BT RO d V Q basis) (map (fun w => soi_tab RO d thr2 w ev dt) omega) in
  let step := cm_step RO d thr ev V Q tg dt omega basis nopers nc in
  cadd' (a5get RO D a b k l o) (cconj' (a5get RO D b a l k o)) =
  cmul' (cconj' (a3get RO step a k o)) (a3get RO step b l o).
Proof.
  intros Hthr Hthr2 HN HC HL Ha Hb Hk Hl Ho Hmask Hreg na nk no D step. unfold D, step.
  rewrite !so_same_get by (auto; rewrite ?so_NT_length, ?so_BT_length, ?map_length; auto).
  rewrite (nth_map_lt _ omega o 0) by auto. fold (vg RO omega o). set (w := vg RO omega o) in *.
  rewrite !so_NT_nth, !so_BT_nth by auto.
  set (W := mmul RO d (madj RO d Q) V).
  set (NTa := transform_by_unitary RO d V (nth a nopers [])). set (NTb := transform_by_unitary RO d V (nth b nopers [])).
  set (BTk := transform_by_unitary RO d W (nth k basis [])). set (BTl := transform_by_unitary RO d W (nth l basis [])).
  set (sa := vg RO nc a). set (sb := vg RO nc b).
  set (Xak := nbf (mscalr RO d sa NTa) BTk). set (Xbl := nbf (mscalr RO d sb NTb) BTl).
  set (Ja := fun i j => Jc ((vg RO ev i - vg RO ev j) - w) dt).
  set (Jb := fun m n => Jc (w + (vg RO ev m - vg RO ev n)) dt).
  assert (HNTa : forall i j, (i < d)%nat -> (j < d)%nat -> cconj' (mget RO NTa i j) = mget RO NTa j i)
    by (apply tbu_herm, HN, nth_In; auto).
  assert (HNTb : forall i j, (i < d)%nat -> (j < d)%nat -> cconj' (mget RO NTb i j) = mget RO NTb j i)
    by (apply tbu_herm, HN, nth_In; auto).
  assert (HBTk : forall i j, (i < d)%nat -> (j < d)%nat -> cconj' (mget RO BTk i j) = mget RO BTk j i)
    by (apply tbu_herm, HC, nth_In; auto).
  assert (HBTl : forall i j, (i < d)%nat -> (j < d)%nat -> cconj' (mget RO BTl i j) = mget RO BTl j i)
    by (apply tbu_herm, HC, nth_In; auto).
  assert (HXak : forall i j, (i < d)%nat -> (j < d)%nat -> cconj' (Xak i j) = Xak j i).
  { intros i j Hi Hj. unfold Xak, nbf, mscalr. rewrite !mget_mbuild by auto.
    rewrite cconj_mul, !cscal_cmul, cconj_mul, cconj_real, HNTa, HBTk by auto. reflexivity. }
  assert (HXbl : forall i j, (i < d)%nat -> (j < d)%nat -> cconj' (Xbl i j) = Xbl j i).
  { intros i j Hi Hj. unfold Xbl, nbf, mscalr. rewrite !mget_mbuild by auto.
    rewrite cconj_mul, !cscal_cmul, cconj_mul, cconj_real, HNTb, HBTl by auto. reflexivity. }
  rewrite (same_sum_adjoint d _ Xak Xbl Ja Jb); auto.
  2:{ intros i j m n Hi Hj Hm Hn. rewrite !t4get_soi_tab by auto. rewrite !soi_entry_core.
      rewrite !soi_core_regular by (auto; try apply regular_a; apply Hreg; auto).
      rewrite soi_core_conj. unfold Ja, Jb. rewrite <- soi_sum_identity. f_equal. f_equal; unfold w, vg, vget; simpl; ring. }
  (* the per-segment control matrix *)
  assert (Hstep : forall (a' k' : nat) (NT' BT' : Mat) (s' : R),
            (forall i j, (i < d)%nat -> (j < d)%nat -> cconj' (mget RO NT' i j) = mget RO NT' j i) ->
            (forall i j, (i < d)%nat -> (j < d)%nat -> cconj' (mget RO BT' i j) = mget RO BT' j i) ->
            cmul' (cexp' (w * tg)) (cscal RO s' (S2 d (fun m n => cmul' (cmul' (mget RO NT' m n)
                     (foi_entry RO thr w (vg RO ev m) (vg RO ev n) dt)) (mget RO BT' n m)))) =
            cmul' (cexp' (w * tg)) (S2 d (fun m n => cmul' (Jb m n) (nbf (mscalr RO d s' NT') BT' m n)))).
  { intros _ _ NT' BT' s' _ _. f_equal. rewrite cscal_cmul, <- S2_mul_l. apply S2_ext. intros m n Hm Hn.
    rewrite foi_entry_is_J by (auto; apply Hmask; auto). unfold Jb, nbf, mscalr. rewrite mget_mbuild by auto.
    rewrite cscal_cmul. ring. }
  rewrite !cm_step_get by auto. fold w NTa NTb W BTk BTl sa sb.
  rewrite (Hstep a k NTa BTk sa), (Hstep b l NTb BTl sb) by auto. fold Xak Xbl.
  rewrite cconj_mul.
  transitivity (cmul' (cmul' (cconj' (cexp' (w * tg))) (cexp' (w * tg)))
                      (cmul' (cconj' (S2 d (fun m n => cmul' (Jb m n) (Xak m n)))) (S2 d (fun m n => cmul' (Jb m n) (Xbl m n))))); [|ring].
  rewrite cexp_conj_mul, cmul_1_l. f_equal.
  rewrite S2_conj, S2_swap. apply S2_ext. intros i j Hi Hj.
  rewrite cconj_mul, HXak by auto. f_equal. unfold Ja, Jb. rewrite <- Jc_neg. f_equal. ring.
Qed.
End Seg.

(* ------------------------------------------------------------------ Part 4: the loop over segments *)
Section Loop.
Variable d : nat.
Variable thr2 : R.
Variables (na nk no : nat) (omega : list R).
Notation Seg := (SegData (T:=R)).

Definition seg_same (s : Seg) : Arr5 (T:=R) :=
  let '(ev, dt, NT, BT, step) := s in so_same RO d na nk no NT BT (map (fun w => soi_tab RO d thr2 w ev dt) omega).
Definition seg_step (s : Seg) : Arr3 (T:=R) := snd s.

(* entry (a,b,k,l,o) of the accumulated result, as a recursion over the segments:
   same-segment term + conj(step_g[a,k]) * (cum[b,l] + sum_{g'<g} step_g'[b,l]) *)
Fixpoint so_spec (a b k l o : nat) (first : bool) (segs : list Seg) (cumv : Cx) : Cx :=
  match segs with
  | [] => 0c
  | s :: rest =>
      cadd' (cadd' (a5get RO (seg_same s) a b k l o)
                   (if first then 0c else cmul' (cconj' (a3get RO (seg_step s) a k o)) cumv))
            (so_spec a b k l o false rest (cadd' cumv (a3get RO (seg_step s) b l o)))
  end.

Lemma so_loop_get a b k l o : (a < na)%nat -> (b < na)%nat -> (k < nk)%nat -> (l < nk)%nat -> (o < no)%nat ->
  forall segs first cum acc,
  a5get RO (so_loop RO d thr2 na nk no omega first segs cum acc) a b k l o =
  cadd' (a5get RO acc a b k l o) (so_spec a b k l o first segs (a3get RO cum b l o)).
Proof.
  intros Ha Hb Hk Hl Ho. induction segs as [|s rest IH]; intros first cum acc.
  - simpl. ring.
  - destruct s as [[[[ev dt] NT] BT] step]. cbn [so_loop]. rewrite IH. cbn [so_spec seg_same seg_step snd].
    assert (Hrest : so_spec a b k l o false rest
                      (a3get RO match rest with [] => cum | _ :: _ => a3add RO na nk no cum step end b l o) =
                    so_spec a b k l o false rest (cadd' (a3get RO cum b l o) (a3get RO step b l o))).
    { destruct rest. reflexivity. rewrite a3get_a3add by auto. reflexivity. }
    rewrite Hrest. destruct first.
    + rewrite a5get_a5add by auto. ring.
    + rewrite !a5get_a5add by auto. unfold so_cross. rewrite a5get_a5build by auto. ring.
Qed.

Fixpoint sum_steps (a k o : nat) (segs : list Seg) : Cx :=
  match segs with [] => 0c | s :: rest => cadd' (a3get RO (seg_step s) a k o) (sum_steps a k o rest) end.

(* a segment is "good" at (a,b,k,l,o) when its same-segment term satisfies the adjoint identity *)
Definition seg_good (a b k l o : nat) (s : Seg) : Prop :=
  cadd' (a5get RO (seg_same s) a b k l o) (cconj' (a5get RO (seg_same s) b a l k o)) =
  cmul' (cconj' (a3get RO (seg_step s) a k o)) (a3get RO (seg_step s) b l o).

(* algebra of the cross terms: sum_{g' < g} + sum_{g' > g} + diagonal = full product *)
Lemma so_spec_adjoint a b k l o segs : List.Forall (seg_good a b k l o) segs -> forall cp cq,
  cadd' (so_spec a b k l o false segs cq) (cconj' (so_spec b a l k o false segs cp)) =
  csub' (cmul' (cconj' (cadd' cp (sum_steps a k o segs))) (cadd' cq (sum_steps b l o segs)))
        (cmul' (cconj' cp) cq).
Proof.
  induction 1 as [|s rest Hs Hrest IH]; intros cp cq.
  - cbn [so_spec sum_steps]. rewrite !cadd_0_r, cconj_0. ring.
  - cbn [so_spec sum_steps]. rewrite !cconj_add, !cconj_mul, cconj_invol.
    set (p := a3get RO (seg_step s) a k o) in *. set (q := a3get RO (seg_step s) b l o) in *.
    unfold seg_good in Hs. fold p q in Hs.
    set (D1 := a5get RO (seg_same s) a b k l o) in *. set (D2 := a5get RO (seg_same s) b a l k o) in *.
    transitivity (cadd' (cadd' (cadd' D1 (cconj' D2)) (cadd' (cmul' (cconj' p) cq) (cmul' q (cconj' cp))))
                        (cadd' (so_spec a b k l o false rest (cadd' cq q)) (cconj' (so_spec b a l k o false rest (cadd' cp p))))).
    { ring. }
    rewrite IH, Hs. rewrite !cconj_add. ring.
Qed.

Lemma so_spec_first a b k l o segs : so_spec a b k l o true segs 0c = so_spec a b k l o false segs 0c.
Proof. destruct segs; simpl; auto. f_equal. ring. Qed.
End Loop.

(* ------------------------------------------------------------------ the whole pulse *)
Section Final.
Variable d : nat.
Variables (thr thr2 : R) (omega : list R) (basis nopers : list (Mat (T:=R))).
Notation Seg := (SegData (T:=R)).
Notation na := (length nopers).
Notation nk := (length basis).
Notation no := (length omega).

(* the per-segment data of the path without intermediates, as one recursion *)
Fixpoint fresh_segs (evs : list (list R)) (Vs Qs : list (Mat (T:=R))) (ts dts : list R) (ncs : list (list R)) : list Seg :=
  match evs, Vs, Qs, ts, dts, ncs with
  | ev :: evs', V :: Vs', Q :: Qs', tg :: ts', dt :: dts', nc :: ncs' =>
      (ev, dt, so_NT RO d V nopers nc, so_BT RO d V Q basis, cm_step RO d thr ev V Q tg dt omega basis nopers nc)
      :: fresh_segs evs' Vs' Qs' ts' dts' ncs'
  | _, _, _, _, _, _ => []
  end.

Lemma zip_fresh : forall evs Vs Qs ts dts ncs,
  length Vs = length evs -> length dts = length evs -> length ncs = length evs ->
  (length evs <= length Qs)%nat -> (length evs <= length ts)%nat ->
  zip_segs evs dts (fresh_NT RO d Vs nopers ncs) (fresh_BT RO d Vs Qs basis)
           (fresh_steps RO d thr evs Vs Qs ts dts omega basis nopers ncs) = fresh_segs evs Vs Qs ts dts ncs.
Proof.
  induction evs as [|ev evs IH]; intros Vs Qs ts dts ncs H1 H2 H3 H4 H5.
  - reflexivity.
  - destruct Vs as [|V Vs]; [discriminate|]. destruct dts as [|dt dts]; [discriminate|].
    destruct ncs as [|nc ncs]; [discriminate|]. destruct Qs as [|Q Qs]; [simpl in H4; lia|].
    destruct ts as [|tg ts]; [simpl in H5; lia|].
    simpl in *. f_equal. apply IH; lia.
Qed.

Lemma cm_loop_sum a k o : (a < na)%nat -> (k < nk)%nat -> (o < no)%nat ->
  forall evs Vs Qs ts dts ncs acc,
  a3get RO (cm_scratch_loop RO d thr evs Vs Qs ts dts omega basis nopers ncs acc) a k o =
  cadd' (a3get RO acc a k o) (sum_steps a k o (fresh_segs evs Vs Qs ts dts ncs)).
Proof.
  intros Ha Hk Ho. induction evs as [|ev evs IH]; intros Vs Qs ts dts ncs acc.
  - simpl. ring.
  - destruct Vs as [|V Vs]; [simpl; ring|]. destruct Qs as [|Q Qs]; [simpl; ring|].
    destruct ts as [|tg ts]; [simpl; ring|]. destruct dts as [|dt dts]; [simpl; ring|].
    destruct ncs as [|nc ncs]; [simpl; ring|].
    cbn [cm_scratch_loop fresh_segs sum_steps seg_step snd]. rewrite IH. rewrite a3get_a3add by auto. ring.
Qed.

(* hypothesis "no first-order entry on the Taylor branch unless its argument is exactly zero" *)
Definition no_taylor (t : R) (evs : list (list R)) (dts : list R) (o : nat) : Prop :=
  forall ev dt, In (ev, dt) (combine evs dts) -> forall m n, (m < d)%nat -> (n < d)%nat ->
    let x := vg RO omega o + (vg RO ev m - vg RO ev n) in x = 0 \/ t < Rabs (x * dt).
Lemma no_taylor_mono t t' evs dts o : t' <= t -> no_taylor t evs dts o -> no_taylor t' evs dts o.
Proof. intros Hle H ev dt Hin m n Hm Hn. destruct (H ev dt Hin m n Hm Hn) as [E|E]; [left; auto | right; lra]. Qed.

Lemma fresh_segs_good a b k l o :
  0 <= thr -> 0 <= thr2 ->
  (forall N, In N nopers -> fherm d (toF N)) -> (forall Ck, In Ck basis -> fherm d (toF Ck)) ->
  (a < na)%nat -> (b < na)%nat -> (k < nk)%nat -> (l < nk)%nat -> (o < no)%nat ->
  forall evs Vs Qs ts dts ncs,
  (forall nc, In nc ncs -> length nc = na) -> no_taylor thr evs dts o -> no_taylor thr2 evs dts o ->
  List.Forall (seg_good d thr2 na nk no omega a b k l o) (fresh_segs evs Vs Qs ts dts ncs).
Proof.
  intros Hthr Hthr2 HN HC Ha Hb Hk Hl Ho.
  induction evs as [|ev evs IH]; intros Vs Qs ts dts ncs Hnc Hmask Hmask2; [constructor|].
  destruct Vs as [|V Vs]; [constructor|]. destruct Qs as [|Q Qs]; [constructor|].
  destruct ts as [|tg ts]; [constructor|]. destruct dts as [|dt dts]; [constructor|].
  destruct ncs as [|nc ncs]; [constructor|].
  cbn [fresh_segs]. constructor.
  - unfold seg_good, seg_same, seg_step. cbn [snd].
    apply same_plus_adjoint_seg; auto.
    + apply Hnc. left; reflexivity.
    + intros m n Hm Hn. apply (Hmask ev dt); auto. left; reflexivity.
    + intros m n Hm Hn. apply (Hmask2 ev dt); auto. left; reflexivity.
  - apply IH. intros nc' Hin. apply Hnc. right; auto.
    intros ev' dt' Hin. apply Hmask. right; auto.
    intros ev' dt' Hin. apply Hmask2. right; auto.
Qed.

Lemma transpose_coeffs_rows G (ncoeffs : list (list R)) nc :
  In nc (transpose_coeffs RO G ncoeffs) -> length nc = length ncoeffs.
Proof.
  unfold transpose_coeffs, build. intros H. apply in_map_iff in H. destruct H as [g [<- _]]. apply map_length.
Qed.
Lemma transpose_coeffs_length G (ncoeffs : list (list R)) : length (transpose_coeffs RO G ncoeffs) = G.
Proof. unfold transpose_coeffs. apply build_length. Qed.

(* entry of the second-order filter function (no intermediates) as the recursion over segments *)
Lemma second_order_ff_get evs Vs Qs ncoeffs dts ts a b k l o :
  length evs = length dts -> length Vs = length dts ->
  (length dts <= length Qs)%nat -> (length dts <= length ts)%nat ->
  (a < na)%nat -> (b < na)%nat -> (k < nk)%nat -> (l < nk)%nat -> (o < no)%nat ->
  a5get RO (second_order_ff RO d thr thr2 evs Vs Qs omega basis nopers ncoeffs dts ts (None, None)) a b k l o =
  so_spec d thr2 na nk no omega a b k l o false
          (fresh_segs evs Vs Qs ts dts (transpose_coeffs RO (length dts) ncoeffs)) 0c.
Proof.
  intros H1 H2 H3 H4 Ha Hb Hk Hl Ho. unfold second_order_ff. cbn [fst snd].
  rewrite zip_fresh by (rewrite ?transpose_coeffs_length; lia).
  rewrite so_loop_get by auto. rewrite a5get_a5zero, a3get_a3zero by auto.
  rewrite so_spec_first. ring.
Qed.

(* F2_ab,kl + conj(F2_ba,lk) = conj(B_ak) B_bl : the first-order generalized filter function *)
Theorem F2_plus_adjoint evs Vs Qs ncoeffs dts ts a b k l o :
  0 <= thr -> 0 <= thr2 ->
  (forall N, In N nopers -> fherm d (toF N)) -> (forall Ck, In Ck basis -> fherm d (toF Ck)) ->
  length evs = length dts -> length Vs = length dts ->
  (length dts <= length Qs)%nat -> (length dts <= length ts)%nat -> length ncoeffs = na ->
  (a < na)%nat -> (b < na)%nat -> (k < nk)%nat -> (l < nk)%nat -> (o < no)%nat ->
  no_taylor thr evs dts o -> no_taylor thr2 evs dts o ->
  let F2 := second_order_ff RO d thr thr2 evs Vs Qs omega basis nopers ncoeffs dts ts (None, None) in
  let Bm := control_matrix_from_scratch RO d thr evs Vs Qs omega basis nopers ncoeffs dts ts in
  cadd' (a5get RO F2 a b k l o) (cconj' (a5get RO F2 b a l k o)) =
  cmul' (cconj' (a3get RO Bm a k o)) (a3get RO Bm b l o).
Proof.
  intros Hthr Hthr2 HN HC H1 H2 H3 H4 H5 Ha Hb Hk Hl Ho Hmask Hmask2 F2 Bm. unfold F2, Bm.
  rewrite !second_order_ff_get by auto.
  unfold control_matrix_from_scratch. rewrite !cm_loop_sum by auto. rewrite !a3get_a3zero by auto.
  rewrite so_spec_adjoint.
  - rewrite cconj_0. ring.
  - apply fresh_segs_good; auto. intros nc Hin. rewrite (transpose_coeffs_rows _ _ _ Hin). exact H5.
Qed.

(* both code paths define the same value: with the cached intermediates (all of them, or only
   n_opers_transformed, or only the frequency-dependent ones) the result is the one computed from scratch *)
Definition valid_interm evs Vs Qs ncoeffs dts ts (im : Interm (T:=R)) : Prop :=
  let full := cached_intermediates RO d thr evs Vs Qs omega basis nopers ncoeffs dts ts in
  (fst im = None \/ fst im = fst full) /\ (snd im = None \/ snd im = snd full).

Theorem intermediates_irrelevant evs Vs Qs ncoeffs dts ts im :
  valid_interm evs Vs Qs ncoeffs dts ts im ->
  second_order_ff RO d thr thr2 evs Vs Qs omega basis nopers ncoeffs dts ts im =
  second_order_ff RO d thr thr2 evs Vs Qs omega basis nopers ncoeffs dts ts (None, None).
Proof.
  intros [[H1|H1] [H2|H2]]; unfold second_order_ff; rewrite H1, H2; reflexivity.
Qed.
Lemma cached_valid evs Vs Qs ncoeffs dts ts :
  valid_interm evs Vs Qs ncoeffs dts ts (cached_intermediates RO d thr evs Vs Qs omega basis nopers ncoeffs dts ts).
Proof. split; right; reflexivity. Qed.
End Final.
