(* C12, part 2: energy-offset invariance and frame covariance of the control matrix.
   energy_offset:    D_g |-> D_g + c_g 1  (any constant per segment) changes no entry;
   frame_covariance: V |-> W V, N |-> W N W^dagger, C_k |-> W C_k W^dagger (W unitary) changes no entry. *)
From Coq Require Import ZArith Reals Lra Lia List Setoid Morphisms.
From FF Require Import Base.Ops Inst.RInst Base.RAlg Base.FMat Model.Numeric Proofs.CMBase.
Import ListNotations.
Local Open Scope R_scope.

Section Inv.
Variable d : nat.

(* ---------- scalars and adjoints ---------- *)
Lemma fadj_fscal z A : feq d (fadj (fscal z A)) (fscal (cconj' z) (fadj A)).
Proof. intros i j _ _. unfold fadj, fscal. apply cconj_mul. Qed.
Lemma fscal_fscal z1 z2 A : feq d (fscal z1 (fscal z2 A)) (fscal (cmul' z1 z2) A).
Proof. intros i j _ _. unfold fscal. ring. Qed.
Lemma fscal_one A : feq d (fscal 1c A) A.
Proof. intros i j _ _. unfold fscal. ring. Qed.
Lemma cexp_mul_conj th : cmul' (cexp' th) (cconj' (cexp' th)) = 1c.
Proof. rewrite cmul_comm. apply cexp_conj_mul. Qed.

(* step_entry depends on Q, V, N, Cm only through the entries of NT and BT *)
Lemma step_entry_ext I I' ev ev' V V' Q Q' tg dt w s N N' Cm Cm' :
  feq d (toF (transform_by_unitary RO d V N)) (toF (transform_by_unitary RO d V' N')) ->
  feq d (toF (transform_by_unitary RO d (mmul RO d (madj RO d Q) V) Cm))
        (toF (transform_by_unitary RO d (mmul RO d (madj RO d Q') V') Cm')) ->
  (forall m n, (m < d)%nat -> (n < d)%nat -> I w (vg RO ev m) (vg RO ev n) dt = I' w (vg RO ev' m) (vg RO ev' n) dt) ->
  step_entry d I ev V Q tg dt w s N Cm = step_entry d I' ev' V' Q' tg dt w s N' Cm'.
Proof.
  intros HN HB HI. unfold step_entry. f_equal. f_equal.
  apply csumn_ext. intros m Hm. apply csumn_ext. intros n Hn.
  fold (toF (transform_by_unitary RO d V N) m n). fold (toF (transform_by_unitary RO d V' N') m n).
  fold (toF (transform_by_unitary RO d (mmul RO d (madj RO d Q) V) Cm) n m).
  fold (toF (transform_by_unitary RO d (mmul RO d (madj RO d Q') V') Cm') n m).
  rewrite (HN m n), (HB n m), HI by auto. reflexivity.
Qed.

(* BT in function form: (Q^ V)^ C (Q^ V) *)
Lemma toF_BT Q V Cm :
  feq d (toF (transform_by_unitary RO d (mmul RO d (madj RO d Q) V) Cm))
        (fmul d (fadj (fmul d (fadj (toF Q)) (toF V))) (fmul d (toF Cm) (fmul d (fadj (toF Q)) (toF V)))).
Proof. rewrite toF_transform_by_unitary, toF_mmul, toF_madj. reflexivity. Qed.

(* ================= energy offset ================= *)
Definition shift_ev (c : R) (ev : list R) : list R := map (fun e => e + c) ev.
Lemma vg_shift_ev c ev m : (m < length ev)%nat -> vg RO (shift_ev c ev) m = vg RO ev m + c.
Proof. intros H. unfold vg, vget, shift_ev. apply (nth_map_in (fun e => e + c) ev m 0 0); auto. Qed.

Lemma foi_entry_offset thr w evm evn c dt :
  foi_entry RO thr w (evm + c) (evn + c) dt = foi_entry RO thr w evm evn dt.
Proof. unfold foi_entry. simpl. replace (evm + c - (evn + c)) with (evm - evn) by ring. reflexivity. Qed.

(* a global phase on Q cancels in BT *)
Lemma BT_phase Q Q' V Cm th : feq d (toF Q') (fscal (cexp' th) (toF Q)) ->
  feq d (toF (transform_by_unitary RO d (mmul RO d (madj RO d Q') V) Cm))
        (toF (transform_by_unitary RO d (mmul RO d (madj RO d Q) V) Cm)).
Proof.
  intros H. rewrite !toF_BT. rewrite H.
  rewrite !fadj_fscal, !fmul_fscal_l, !fadj_fscal.
  rewrite !fmul_fscal_r, !fmul_fscal_l, !fscal_fscal.
  rewrite cconj_invol. rewrite (cmul_comm (cconj' (cexp' th))). rewrite cexp_mul_conj. rewrite fscal_one. reflexivity.
Qed.

Lemma seg_phase_shift c ev tau j : (j < length ev)%nat ->
  seg_phase (shift_ev c ev) tau j = cmul' (cexp' (- (c * tau))) (seg_phase ev tau j).
Proof. intros H. unfold seg_phase. rewrite vg_shift_ev by auto. rewrite <- cexp_add. f_equal. ring. Qed.

Lemma fdiag_scal z u : feq d (fdiag (fun j => cmul' z (u j))) (fscal z (fdiag u)).
Proof. intros i j _ _. unfold fscal, fdiag. destruct (Nat.eqb i j); ring. Qed.

Lemma segment_propagator_shift c ev V tau : length ev = d ->
  feq d (toF (segment_propagator RO d (shift_ev c ev) V tau))
        (fscal (cexp' (- (c * tau))) (toF (segment_propagator RO d ev V tau))).
Proof.
  intros Hl. rewrite !toF_segment_propagator.
  rewrite (fdiag_ext d (seg_phase (shift_ev c ev) tau) (fun j => cmul' (cexp' (- (c * tau))) (seg_phase ev tau j)))
    by (intros; apply seg_phase_shift; lia).
  rewrite fdiag_scal. rewrite fmul_fscal_l, fmul_fscal_r. reflexivity.
Qed.

(* offsets c_g along the segments *)
Fixpoint shift_segs (cs : list R) (segs : list seg) : list seg :=
  match cs, segs with
  | c :: cs', (ev, V, dt, s) :: r => (shift_ev c ev, V, dt, s) :: shift_segs cs' r
  | _, _ => segs
  end.
Definition segs_dim (segs : list seg) : Prop := Forall (fun sg : seg => let '(ev, _, _, _) := sg in length ev = d) segs.

Lemma energy_offset_segs thr w N Cm : forall segs cs Q Q' t th,
  segs_dim segs -> feq d (toF Q') (fscal (cexp' th) (toF Q)) ->
  entry_segs d (foi_entry RO thr) (shift_segs cs segs) Q' t w N Cm = entry_segs d (foi_entry RO thr) segs Q t w N Cm.
Proof.
  induction segs as [|[[[ev V] dt] s] r IH]; intros cs Q Q' t th Hdim HQ.
  - destruct cs; reflexivity.
  - inversion Hdim as [|x l Hev Hr]; subst.
    destruct cs as [|c cs].
    + (* no more offsets: only the phase on Q *)
      simpl. f_equal.
      * apply step_entry_ext; [reflexivity | apply (BT_phase Q Q' V Cm th HQ) | reflexivity].
      * change r with (shift_segs [] r) at 1. apply (IH [] _ _ _ th Hr).
        rewrite !toF_mmul, HQ, fmul_fscal_r. reflexivity.
    + simpl. f_equal.
      * apply step_entry_ext; [reflexivity | apply (BT_phase Q Q' V Cm th HQ) |].
        intros m n Hm Hn. rewrite !vg_shift_ev by lia. apply foi_entry_offset.
      * apply (IH cs _ _ _ (- (c * dt) + th) Hr).
        rewrite !toF_mmul, HQ, (segment_propagator_shift c ev V dt Hev).
        rewrite fmul_fscal_l, fmul_fscal_r, fscal_fscal, <- cexp_add. reflexivity.
Qed.

(* eigenvalue lists of all segments, shifted *)
Fixpoint shift_evs (cs : list R) (evs : list (list R)) : list (list R) :=
  match cs, evs with
  | c :: cs', ev :: r => shift_ev c ev :: shift_evs cs' r
  | _, _ => evs
  end.
Lemma zip4_shift : forall cs evs Vs dts ss,
  zip4 (shift_evs cs evs) Vs dts ss = shift_segs cs (zip4 evs Vs dts ss).
Proof.
  induction cs as [|c cs IH]; intros evs Vs dts ss.
  - reflexivity.
  - destruct evs as [|ev evs]; [destruct Vs; reflexivity|].
    destruct Vs as [|V Vs]; [reflexivity|]. destruct dts as [|dt dts]; [reflexivity|].
    destruct ss as [|s ss]; [reflexivity|]. simpl. rewrite IH. reflexivity.
Qed.
Lemma zip4_dim : forall evs Vs dts ss, Forall (fun ev => length ev = d) evs -> segs_dim (zip4 evs Vs dts ss).
Proof.
  induction evs as [|ev evs IH]; intros Vs dts ss H; [constructor|].
  destruct Vs as [|V Vs]; [constructor|]. destruct dts as [|dt dts]; [constructor|].
  destruct ss as [|s ss]; [constructor|]. inversion H; subst. simpl. constructor; auto. apply IH; auto.
Qed.

(* energy_offset: the control matrix of the pulse with D_g + c_g 1 (propagators recomputed from the
   shifted eigenvalues) equals that of the original pulse, entry by entry *)
Theorem energy_offset_cm thr cs evs Vs om bs ns nc dts j k o :
  Forall (fun ev => length ev = d) evs ->
  (j < length ns)%nat -> (k < length bs)%nat -> (o < length om)%nat ->
  a3get RO (control_matrix_from_scratch RO d thr (shift_evs cs evs) Vs (propagators RO d (shift_evs cs evs) Vs dts)
              om bs ns nc dts (times RO dts)) j k o =
  a3get RO (control_matrix_from_scratch RO d thr evs Vs (propagators RO d evs Vs dts) om bs ns nc dts (times RO dts)) j k o.
Proof.
  intros Hdim Hj Hk Ho. rewrite !cm_entry_formula by auto. rewrite zip4_shift.
  apply (energy_offset_segs thr _ _ _ _ cs (mid RO d) (mid RO d) 0 0).
  apply zip4_dim; auto. rewrite cexp_0, fscal_one. reflexivity.
Qed.

(* ================= frame covariance ================= *)
Variable Wm : MatR.
Hypothesis HW : funitary d (toF Wm).
Definition conjW (A : MatR) : MatR := mmul RO d Wm (mmul RO d A (madj RO d Wm)).
Lemma toF_conjW A : feq d (toF (conjW A)) (fmul d (toF Wm) (fmul d (toF A) (fadj (toF Wm)))).
Proof. unfold conjW. rewrite !toF_mmul, toF_madj. reflexivity. Qed.

Let WdW : feq d (fmul d (fadj (toF Wm)) (toF Wm)) fid := proj1 HW.
Let WWd : feq d (fmul d (toF Wm) (fadj (toF Wm))) fid := proj2 HW.

(* W^ W cancels in the middle of a product *)
Lemma cancel_WdW A B : feq d (fmul d A (fmul d (fadj (toF Wm)) (fmul d (toF Wm) B))) (fmul d A B).
Proof. rewrite (fmul_assoc d (fadj (toF Wm))). rewrite WdW, fmul_id_l. reflexivity. Qed.

Lemma NT_frame V N :
  feq d (toF (transform_by_unitary RO d (mmul RO d Wm V) (conjW N))) (toF (transform_by_unitary RO d V N)).
Proof.
  rewrite !toF_transform_by_unitary, toF_mmul, toF_conjW.
  rewrite fadj_mul. rewrite <- !fmul_assoc.
  rewrite cancel_WdW. rewrite cancel_WdW. reflexivity.
Qed.

Lemma BT_frame Q Q' V Cm : feq d (toF Q') (fmul d (toF Wm) (fmul d (toF Q) (fadj (toF Wm)))) ->
  feq d (toF (transform_by_unitary RO d (mmul RO d (madj RO d Q') (mmul RO d Wm V)) (conjW Cm)))
        (toF (transform_by_unitary RO d (mmul RO d (madj RO d Q) V) Cm)).
Proof.
  intros HQ. rewrite !toF_BT. rewrite toF_mmul, toF_conjW, HQ.
  rewrite !fadj_mul, !fadj_invol_feq. rewrite <- !fmul_assoc.
  rewrite !cancel_WdW. reflexivity.
Qed.

Lemma segment_propagator_frame ev V tau :
  feq d (toF (segment_propagator RO d ev (mmul RO d Wm V) tau))
        (fmul d (toF Wm) (fmul d (toF (segment_propagator RO d ev V tau)) (fadj (toF Wm)))).
Proof.
  rewrite !toF_segment_propagator, toF_mmul. rewrite fadj_mul. rewrite <- !fmul_assoc. reflexivity.
Qed.

Definition frame_segs (segs : list seg) : list seg :=
  map (fun sg : seg => let '(ev, V, dt, s) := sg in (ev, mmul RO d Wm V, dt, s)) segs.

Lemma frame_covariance_segs I w N Cm : forall segs Q Q' t,
  feq d (toF Q') (fmul d (toF Wm) (fmul d (toF Q) (fadj (toF Wm)))) ->
  entry_segs d I (frame_segs segs) Q' t w (conjW N) (conjW Cm) = entry_segs d I segs Q t w N Cm.
Proof.
  induction segs as [|[[[ev V] dt] s] r IH]; intros Q Q' t HQ; [reflexivity|].
  simpl. f_equal.
  - apply step_entry_ext; [apply NT_frame | apply BT_frame; exact HQ | reflexivity].
  - apply IH. rewrite !toF_mmul, HQ, segment_propagator_frame.
    rewrite <- !fmul_assoc. rewrite cancel_WdW. reflexivity.
Qed.

Lemma zip4_frame : forall evs Vs dts ss,
  zip4 evs (map (mmul RO d Wm) Vs) dts ss = frame_segs (zip4 evs Vs dts ss).
Proof.
  induction evs as [|ev evs IH]; intros Vs dts ss; [reflexivity|].
  destruct Vs as [|V Vs]; [reflexivity|]. destruct dts as [|dt dts]; [reflexivity|].
  destruct ss as [|s ss]; [reflexivity|]. simpl. rewrite IH. reflexivity.
Qed.

(* frame_covariance: eigenvectors W V, noise operators W N W^, basis elements W C W^ give the
   same control matrix, entry by entry *)
Theorem frame_covariance_cm thr evs Vs om bs ns nc dts j k o :
  (j < length ns)%nat -> (k < length bs)%nat -> (o < length om)%nat ->
  a3get RO (control_matrix_from_scratch RO d thr evs (map (mmul RO d Wm) Vs)
              (propagators RO d evs (map (mmul RO d Wm) Vs) dts) om (map conjW bs) (map conjW ns) nc dts (times RO dts)) j k o =
  a3get RO (control_matrix_from_scratch RO d thr evs Vs (propagators RO d evs Vs dts) om bs ns nc dts (times RO dts)) j k o.
Proof.
  intros Hj Hk Ho.
  rewrite !cm_entry_formula by (rewrite ?map_length; auto).
  rewrite !nthm_map by auto. rewrite zip4_frame.
  apply frame_covariance_segs.
  rewrite toF_mid, fmul_id_l. rewrite WWd. reflexivity.
Qed.

End Inv.

(* the hypothesis of frame_covariance is satisfiable by a non-trivial unitary: Pauli X *)
Definition Wx : MatR := [[(0, 0); (1, 0)]; [(1, 0); (0, 0)]].
Example Wx_unitary : funitary 2 (toF Wx).
Proof.
  split; intros i j Hi Hj; destruct i as [|[|i]]; try lia; destruct j as [|[|j]]; try lia;
    apply c_eq; unfold fmul, fadj, fid, toF, mget, Wx; csimp; ring.
Qed.
