(* Semantic tie of superoperator.liouville_representation, generic path (C15): the term translated from the current Python
   sources (superoperator.py and basis.expand) by tools/kernel_extract.py equals liouville_generic of Model/Superop.v. *)
From Coq Require Import ZArith Reals Lra Lia List.
From FF Require Import Base.Ops Inst.RInst Base.RAlg Model.Numeric Model.Superop Extracted.Kernels Proofs.CMBase.
Import ListNotations.
Local Open Scope R_scope.

Example kernels_translated_C15 : kernel_untranslated_C15 = nil.
Proof. reflexivity. Qed.

Lemma csumn2_re n m (F : nat -> nat -> Cx) :
  fst (csumn RO n (fun b => csumn RO m (F b))) = sumn RO n (fun b => sumn RO m (fun c => fst (F b c))).
Proof. rewrite csumn_re. apply sumn_ext; intros b _. apply csumn_re. Qed.
Lemma csumn2_im n m (F : nat -> nat -> Cx) :
  snd (csumn RO n (fun b => csumn RO m (F b))) = sumn RO n (fun b => sumn RO m (fun c => snd (F b c))).
Proof. rewrite csumn_im. apply sumn_ext; intros b _. apply csumn_im. Qed.

(* U^dagger A U with the association of einsum('...ba,ibc,...cd->...iad', U.conj(), basis, U): sum_b sum_c (conj(U_ba) A_bc) U_cd *)
Lemma tbu_double_sum d (U A : Mat (T:=R)) a k : (a < d)%nat -> (k < d)%nat ->
  mget RO (transform_by_unitary RO d U A) a k =
  csumn RO d (fun b => csumn RO d (fun c => cmul RO (cmul RO (cconj RO (mget RO U b a)) (mget RO A b c)) (mget RO U c k))).
Proof.
  intros Ha Hk. unfold transform_by_unitary, mmul at 1. rewrite mget_mbuild by assumption.
  apply csumn_ext; intros b Hb. unfold madj, mmul. rewrite !mget_mbuild by assumption.
  rewrite <- csumn_mul_l. apply csumn_ext; intros c Hc. ring.
Qed.

(* entry [i][j] of the array liouville_representation returns on the generic path (Hermitian basis: real part of
   tensordot(U^dagger C_i U, C_j)) is the model's liouville_generic *)
Theorem liouville_is_source d (U : Mat (T:=R)) (basis : list (Mat (T:=R))) i j :
  (i < length basis)%nat -> (j < length basis)%nat ->
  nth j (nth i (liouville_generic RO d U basis) nil) 0 =
  liouville_entry_src RO d (fun a b => mget RO U a b) (fun k a b => mget RO (nthm basis k) a b) i j.
Proof.
  intros Hi Hj. unfold liouville_generic, conjugated_basis, expand_re. rewrite map_map.
  rewrite (nth_map_in _ basis i nil nil) by assumption. rewrite (nth_map_in _ basis j nil 0) by assumption.
  fold (nthm basis i). fold (nthm basis j).
  unfold mtrprod. rewrite csumn_re. unfold liouville_entry_src. cbv beta.
  apply sumn_ext; intros a Ha. rewrite csumn_re. apply sumn_ext; intros k Hk.
  rewrite tbu_double_sum by assumption. csimp. rewrite csumn2_re, csumn2_im. csimp. reflexivity.
Qed.

(* superoperator.liouville_to_choi: entry [a][c][b][e] of the einsum '...ij,jba,icd->...acbd' (before the reshape) *)
Theorem choi_is_source (S : list (list R)) (basis : list (Mat (T:=R))) a c b e :
  choi_entry4 RO S basis a c b e =
  choi_entry_src RO (length basis) (fun i j => rget RO S i j) (fun k x y => mget RO (nthm basis k) x y) a c b e.
Proof.
  unfold choi_entry4, choi_entry_src. cbv beta.
  apply c_eq; cbn [fst snd]; [rewrite csumn2_re | rewrite csumn2_im]; apply sumn_ext; intros i _; apply sumn_ext; intros j _;
    csimp; ring.
Qed.
