(* Semantic tie of numeric._second_order_integral (C10): the term translated from the current Python source by
   tools/kernel_extract.py (Extracted/Kernels.v) equals the model function soi_entry of Model/SecondOrder.v. *)
From Coq Require Import ZArith Reals Lra Lia List.
From FF Require Import Base.Ops Inst.RInst Base.RAlg Model.Numeric Model.SecondOrder Extracted.Kernels.
Import ListNotations.
Local Open Scope R_scope.

Example kernels_translated_C10 : kernel_untranslated_C10 = nil.
Proof. reflexivity. Qed.

Lemma nz_true x : Rgtb (Rabs x) 0 = true -> x <> 0.
Proof. intros H Hx. apply Rgtb_true in H. subst. rewrite Rabs_R0 in H. lra. Qed.
Lemma nz_false x : Rgtb (Rabs x) 0 = false -> x = 0.
Proof.
  intros H. apply Rgtb_false in H. destruct (Req_dec x 0) as [E|E]; [exact E|].
  pose proof (Rabs_pos_lt x E). lra.
Qed.
Lemma big_true thr x dt : 0 <= thr -> Rgtb (Rabs (x * dt)) thr = true -> x <> 0.
Proof. intros H0 H Hx. apply Rgtb_true in H. subst. rewrite Rmult_0_l, Rabs_R0 in H. lra. Qed.

Lemma abs_le0 x : Rabs x <= 0 -> x = 0.
Proof. intros H. destruct (Req_dec x 0) as [E|E]; [exact E|]. pose proof (Rabs_pos_lt x E). lra. Qed.

(* x <> 0 from a mask fact  thr < |x * dt| , thr < |dt * x| or 0 < |x|  (0 <= thr in the context) *)
Ltac nz_from_masks x :=
  let Hx := fresh in
  intro Hx;
  match goal with
  | H : _ < Rabs ?e |- _ =>
      match e with context [x] => idtac end;
      rewrite Hx in H; rewrite ?Rmult_0_l, ?Rmult_0_r, ?Rabs_R0 in H; lra
  end.
(* a contradiction between  |x| <= 0  and another mask fact about x *)
Ltac mask_contradiction x :=
  match goal with
  | H : Rabs x <= 0 |- _ =>
      let Hz := fresh in pose proof (abs_le0 _ H) as Hz;
      match goal with
      | H2 : _ < Rabs ?e |- _ =>
          match e with context [x] => idtac end;
          rewrite Hz in H2; rewrite ?Rmult_0_l, ?Rmult_0_r, ?Rabs_R0 in H2; lra
      end
  end.

(* Entry [o][i][j][m][n] of int_buf as the Python function leaves it (w = E[o]; evi .. evn = eigvals[i] .. eigvals[n]) is the
   model's soi_entry, for ANY previous contents of the eight work buffers (junk); both literal thresholds of the source
   (np.abs(EdE*dt) > .., np.abs(dEE*dt) > ..) are parameters, the model uses one value for both *)
Theorem soi_entry_is_source thr w evi evj evm evn dt junk o i j m n : 0 <= thr ->
  soi_entry_src RO thr thr w evi evj evm evn dt junk o i j m n = soi_entry RO thr w evi evj evm evn dt.
Proof.
  intros H0.
  unfold soi_entry_src, soi_entry, soi_core, soi_cases_of, frc, em1, nz, big, cite, cdivr, csub, cadd, cscal, c1, o2.
  cbn [fst snd]. simpl.
  set (x1 := w + (evm - evn)). set (x2 := - w - - (evi - evj)). set (x3 := evi - evj + (evm - evn)).
  (* every distinct mask becomes a variable; masks that are equal as real expressions (x*dt, dt*x, ..) are identified *)
  repeat match goal with |- context [Rgtb ?a ?t] => let b := fresh "bm" in set (b := Rgtb a t) end.
  repeat match goal with
  | b1 := Rgtb (Rabs ?a) ?t, b2 := Rgtb (Rabs ?b) ?t |- _ =>
      tryif constr_eq b1 b2 then fail else
        (let H := fresh in assert (H : b2 = b1) by (unfold b1, b2; f_equal; f_equal; unfold x1, x2, x3; ring);
         clearbody b2; subst b2)
  end.
  repeat match goal with
  | b := Rgtb ?a ?t |- _ =>
      let E := fresh "E" in assert (E : Rgtb a t = b) by reflexivity; clearbody b; destruct b;
      [apply Rgtb_true in E | apply Rgtb_false in E]
  end;
  try (exfalso; mask_contradiction x2);
  try (assert (x1 <> 0) by nz_from_masks x1); try (assert (x2 <> 0) by nz_from_masks x2);
  try (assert (x3 <> 0) by nz_from_masks x3);
  unfold Rdya; simpl; (f_equal; field; repeat split; try assumption; try nra; try lra).
Qed.
