(* Second-order segment integral with the dimensionless case selection of the code (|x dt| > thr2):
   where a denominator is small but not zero the code uses the limit value; the deviation from the exact
   iterated integral is at most  thr2 * T^2 * (1/2 + thr2/4)  in each component (soi_bound).        *)
From Coq Require Import ZArith Reals Lra Lia List.
From Coquelicot Require Import Coquelicot.
From FF Require Import Base.Ops Inst.RInst Base.RAlg Model.Numeric Model.SecondOrder Proofs.Foi Proofs.SecondOrder.
Local Open Scope R_scope.

Lemma is_CInt_sub f g a b z1 z2 :
  is_CInt f a b z1 -> is_CInt g a b z2 -> is_CInt (fun t => csub' (f t) (g t)) a b (csub' z1 z2).
Proof.
  intros [F1 F2] [G1 G2]. split; simpl.
  - apply (is_RInt_minus (V:=R_NormedModule) _ _ _ _ _ _ F1 G1).
  - apply (is_RInt_minus (V:=R_NormedModule) _ _ _ _ _ _ F2 G2).
Qed.

Lemma abs_sin_le x : Rabs (sin x) <= Rabs x.
Proof.
  destruct (Req_dec x 0) as [->|Hx]. rewrite sin_0, Rabs_R0. lra.
  pose proof (sin_minus_id_bound x) as H. pose proof (SIN_bound x) as Hb.
  destruct (Rle_or_lt (Rabs x) 1) as [H1|H1].
  - assert (Rabs (sin x) <= Rabs x + Rabs (sin x - x)).
    { replace (sin x) with (x + (sin x - x)) at 1 by ring. apply Rabs_triang. }
    (* crude: use sin_lt_x on |x| <= 1 *)
    destruct (Rle_or_lt 0 x) as [Hp|Hn].
    + rewrite (Rabs_right x) by lra. rewrite Rabs_right. left. apply sin_lt_x. lra.
      apply Rle_ge, sin_ge_0. lra. rewrite Rabs_right in H1 by lra. assert (3 < PI) by (generalize PI2_3_2; unfold PI2; lra). lra.
    + rewrite (Rabs_left x) by lra. rewrite <- (Rabs_Ropp (sin x)), <- sin_neg.
      rewrite Rabs_left in H1 by lra. rewrite Rabs_right. left. apply sin_lt_x. lra.
      apply Rle_ge, sin_ge_0. lra. assert (3 < PI) by (generalize PI2_3_2; unfold PI2; lra). lra.
  - apply Rle_trans with 1. apply Rabs_le. lra. lra.
Qed.

(* J(b,t) = int_0^t e^{i b s} ds is t + O(b t^2) *)
Lemma Jre_close b t : 0 <= t -> Rabs (Jre b t - t) <= b * b * (t * t * t) / 2.
Proof.
  intros Ht. destruct (Req_dec b 0) as [->|Hb].
  - rewrite Jre_0. replace (t - t) with 0 by ring. rewrite Rabs_R0. nra.
  - rewrite Jre_nz by auto. replace (sin (b * t) / b - t) with ((sin (b * t) - b * t) / b) by (field; auto).
    unfold Rdiv at 1. rewrite Rabs_mult, Rabs_inv.
    pose proof (sin_minus_id_bound (b * t)) as H.
    assert (Hb' : 0 < Rabs b) by (apply Rabs_pos_lt; auto).
    apply Rle_trans with (Rabs (b * t) * (b * t * (b * t) / 2) * / Rabs b).
    apply Rmult_le_compat_r. left; apply Rinv_0_lt_compat; auto. exact H.
    rewrite Rabs_mult, (Rabs_right t) by lra. right. field. lra.
Qed.
Lemma Jim_close b t : 0 <= t -> Rabs (Jim b t) <= Rabs b * (t * t) / 2.
Proof.
  intros Ht. destruct (Req_dec b 0) as [->|Hb].
  - rewrite Jim_0, Rabs_R0. lra.
  - rewrite Jim_nz by auto. unfold Rdiv at 1. rewrite Rabs_mult, Rabs_inv.
    destruct (one_minus_cos_bound (b * t)) as [H0 H1]. rewrite (Rabs_right (1 - cos (b * t))) by lra.
    assert (Hb' : 0 < Rabs b) by (apply Rabs_pos_lt; auto).
    apply Rle_trans with ((b * t * (b * t) / 2) * / Rabs b).
    apply Rmult_le_compat_r. left; apply Rinv_0_lt_compat; auto. exact H1.
    replace (b * t * (b * t)) with (Rabs b * Rabs b * (t * t)).
    right. field. lra.
    rewrite <- (Rabs_mult b b). rewrite (Rabs_right (b * b)) by (apply Rle_ge; nra). ring.
Qed.

(* integrals of the bounding polynomials *)
Lemma int_poly c1 c2 T : is_RInt (fun t => c1 * (t * t * t) / 2 + c2 * (t * t) / 2) 0 T (c1 * (T*T*T*T) / 8 + c2 * (T*T*T) / 6).
Proof.
  evar_last. apply (is_RInt_derive (fun t => c1 * (t*t*t*t) / 8 + c2 * (t*t*t) / 6)).
  - intros x _. auto_derive; auto. field.
  - intros x _. apply continuity_pt_filterlim. apply derivable_continuous_pt.
    apply derivable_pt_plus; apply derivable_pt_div; try (apply derivable_pt_const);
      try (intros; lra); apply derivable_pt_mult; try apply derivable_pt_const;
      repeat apply derivable_pt_mult; apply derivable_pt_id.
  - unfold minus, plus, opp; simpl. field.
Qed.

(* |Re z|, |Im z| of e^{i th} (z1, z2) are at most |z1| + |z2| *)
Lemma rot_fst th z1 z2 : Rabs (fst (cmul' (cexp' th) (z1, z2))) <= Rabs z1 + Rabs z2.
Proof.
  simpl. pose proof (COS_bound th). pose proof (SIN_bound th).
  eapply Rle_trans. apply Rabs_triang. rewrite Rabs_Ropp, !Rabs_mult.
  assert (Rabs (cos th) <= 1) by (apply Rabs_le; lra). assert (Rabs (sin th) <= 1) by (apply Rabs_le; lra).
  pose proof (Rabs_pos z1). pose proof (Rabs_pos z2). nra.
Qed.
Lemma rot_snd th z1 z2 : Rabs (snd (cmul' (cexp' th) (z1, z2))) <= Rabs z1 + Rabs z2.
Proof.
  simpl. pose proof (COS_bound th). pose proof (SIN_bound th).
  eapply Rle_trans. apply Rabs_triang. rewrite !Rabs_mult.
  assert (Rabs (cos th) <= 1) by (apply Rabs_le; lra). assert (Rabs (sin th) <= 1) by (apply Rabs_le; lra).
  pose proof (Rabs_pos z1). pose proof (Rabs_pos z2). nra.
Qed.

Definition I2x (a b T : R) : Cx := soi_core_x RO a b (a + b) T.

(* I2(a,b) - I2(a,0) *)
Lemma I2x_b_close a b T : 0 <= T ->
  Rabs (fst (I2x a b T) - fst (I2x a 0 T)) <= b * b * (T*T*T*T) / 8 + Rabs b * (T*T*T) / 6 /\
  Rabs (snd (I2x a b T) - snd (I2x a 0 T)) <= b * b * (T*T*T*T) / 8 + Rabs b * (T*T*T) / 6.
Proof.
  intros HT.
  pose proof (is_CInt_sub _ _ _ _ _ _ (soi_core_integral a b T) (soi_core_integral a 0 T)) as [H1 H2].
  fold (I2x a b T) (I2x a 0 T) in H1, H2. cbn [fst snd] in H1, H2.
  assert (E : forall t, csub' (cmul' (cexp' (a * t)) (Jc b t)) (cmul' (cexp' (a * t)) (Jc 0 t)) =
                        cmul' (cexp' (a * t)) (Jre b t - t, Jim b t)).
  { intros t. unfold Jc. rewrite Jre_0, Jim_0. apply c_eq; simpl; ring. }
  assert (Hb : forall t, 0 <= t <= T -> Rabs (Jre b t - t) + Rabs (Jim b t) <= b * b * (t*t*t) / 2 + Rabs b * (t*t) / 2).
  { intros t [Ht _]. pose proof (Jre_close b t Ht). pose proof (Jim_close b t Ht). lra. }
  split.
  - apply (fun Hle => norm_RInt_le (V:=R_NormedModule) _ _ 0 T _ _ HT Hle H1 (int_poly (b*b) (Rabs b) T)).
    intros t Ht. rewrite E. eapply Rle_trans. apply rot_fst. apply Hb; auto.
  - apply (fun Hle => norm_RInt_le (V:=R_NormedModule) _ _ 0 T _ _ HT Hle H2 (int_poly (b*b) (Rabs b) T)).
    intros t Ht. rewrite E. eapply Rle_trans. apply rot_snd. apply Hb; auto.
Qed.

(* I2(a,0) - T^2/2 *)
Lemma I2x_a_close a T : 0 <= T ->
  Rabs (fst (I2x a 0 T) - T*T/2) <= a * a * (T*T*T*T) / 8 + Rabs a * (T*T*T) / 3 /\
  Rabs (snd (I2x a 0 T) - 0) <= a * a * (T*T*T*T) / 8 + Rabs a * (T*T*T) / 3.
Proof.
  intros HT.
  assert (Hz : is_CInt (fun t => (t, 0)) 0 T (T*T/2, 0)).
  { split; simpl. apply int_t. evar_last. apply @is_RInt_const. unfold scal; simpl. unfold mult; simpl. ring. }
  pose proof (is_CInt_sub _ _ _ _ _ _ (soi_core_integral a 0 T) Hz) as [H1 H2].
  fold (I2x a 0 T) in H1, H2. cbn [fst snd] in H1, H2.
  assert (E : forall t, csub' (cmul' (cexp' (a * t)) (Jc 0 t)) (t, 0) = ((cos (a * t) - 1) * t, sin (a * t) * t)).
  { intros t. rewrite Jc_0. apply c_eq; simpl; ring. }
  assert (B1 : forall t, 0 <= t <= T -> Rabs ((cos (a * t) - 1) * t) <= a * a * (t*t*t) / 2 + Rabs a * (t*t) / 2 * 2).
  { intros t [Ht _]. rewrite Rabs_mult, (Rabs_right t) by lra.
    destruct (one_minus_cos_bound (a * t)) as [H0 Hc]. rewrite Rabs_left1 by lra.
    assert (K : - (cos (a * t) - 1) * t <= (a * t * (a * t) / 2) * t) by (apply Rmult_le_compat_r; lra).
    assert (0 <= Rabs a * (t * t)) by (apply Rmult_le_pos; [apply Rabs_pos | nra]).
    replace (a * a * (t * t * t) / 2) with ((a * t * (a * t) / 2) * t) by field. lra. }
  assert (B2 : forall t, 0 <= t <= T -> Rabs (sin (a * t) * t) <= a * a * (t*t*t) / 2 + Rabs a * (t*t) / 2 * 2).
  { intros t [Ht _]. rewrite Rabs_mult, (Rabs_right t) by lra.
    pose proof (abs_sin_le (a * t)) as Hs. rewrite Rabs_mult, (Rabs_right t) in Hs by lra.
    assert (K : Rabs (sin (a * t)) * t <= (Rabs a * t) * t) by (apply Rmult_le_compat_r; lra).
    assert (0 <= a * a * (t * t * t) / 2) by (assert (0 <= a * a) by nra; assert (0 <= t * t * t) by (apply Rmult_le_pos; nra); nra).
    replace (Rabs a * (t * t) / 2 * 2) with ((Rabs a * t) * t) by field. lra. }
  assert (P : is_RInt (fun t => a * a * (t*t*t) / 2 + Rabs a * (t*t) / 2 * 2) 0 T (a * a * (T*T*T*T) / 8 + Rabs a * (T*T*T) / 3)).
  { apply (is_RInt_ext (fun t => (a * a) * (t*t*t) / 2 + (2 * Rabs a) * (t*t) / 2)). intros x _. Req. field.
    evar_last. apply int_poly. field. }
  split.
  - apply (fun Hle => norm_RInt_le (V:=R_NormedModule) _ _ 0 T _ _ HT Hle H1 P).
    intros t Ht. rewrite E. cbn [fst]. apply B1; auto.
  - apply (fun Hle => norm_RInt_le (V:=R_NormedModule) _ _ 0 T _ _ HT Hle H2 P).
    intros t Ht. rewrite E. cbn [snd]. apply B2; auto.
Qed.

(* values of the code's selection in the two truncated regimes *)
Lemma soi_core_case2' thr2 a b ab T : 0 <= thr2 -> Rabs (b * T) <= thr2 -> thr2 < Rabs (a * T) ->
  soi_core RO thr2 a b ab T = soi_core_x RO a 0 ab T.
Proof.
  intros H0 Hb Ha. unfold soi_core, soi_core_x. rewrite (big_false _ _ _ Hb), (big_true _ _ _ Ha), nz_false.
  rewrite nz_true. reflexivity. intros ->. rewrite Rmult_0_l, Rabs_R0 in Ha. lra.
Qed.
Lemma soi_core_case3' thr2 a b ab T : Rabs (b * T) <= thr2 -> Rabs (a * T) <= thr2 ->
  soi_core RO thr2 a b ab T = (T*T/2, 0).
Proof.
  intros Hb Ha. unfold soi_core. rewrite (big_false _ _ _ Hb), (big_false _ _ _ Ha).
  unfold soi_cases_of, cite. simpl. apply c_eq; simpl; auto.
Qed.
Lemma soi_core_case1' thr2 a b ab T : 0 <= thr2 -> thr2 < Rabs (b * T) ->
  soi_core RO thr2 a b ab T = soi_core_x RO a b ab T.
Proof.
  intros H0 Hb. unfold soi_core, soi_core_x. rewrite (big_true _ _ _ Hb).
  rewrite nz_true. reflexivity. intros ->. rewrite Rmult_0_l, Rabs_R0 in Hb. lra.
Qed.

Lemma sqr_abs x : x * x = Rabs x * Rabs x.
Proof. rewrite <- Rabs_mult. symmetry. apply Rabs_right. apply Rle_ge. nra. Qed.

Definition soi_eps (thr2 T : R) : R := thr2 * (T * T) * (1/2 + thr2/4).

(* the code's value against the exact iterated integral, all (a, b), all T >= 0 *)
Theorem soi_bound thr2 a b T : 0 <= thr2 -> 0 <= T ->
  Rabs (fst (soi_core RO thr2 a b (a + b) T) - fst (I2x a b T)) <= soi_eps thr2 T /\
  Rabs (snd (soi_core RO thr2 a b (a + b) T) - snd (I2x a b T)) <= soi_eps thr2 T.
Proof.
  intros H0 HT. unfold soi_eps.
  assert (HTT : 0 <= T * T) by nra.
  destruct (Rle_or_lt (Rabs (b * T)) thr2) as [Hb|Hb].
  2:{ rewrite soi_core_case1' by auto. fold (I2x a b T). rewrite !Rminus_eq_0, Rabs_R0. split; nra. }
  assert (Kb : b * b * (T*T*T*T) / 8 + Rabs b * (T*T*T) / 6 <= thr2 * (T*T) * (1/6 + thr2/8)).
  { rewrite Rabs_mult, (Rabs_right T) in Hb by lra. pose proof (Rabs_pos b).
    assert (Hsq : b * b * (T * T) <= thr2 * thr2).
    { replace (b * b * (T * T)) with ((Rabs b * T) * (Rabs b * T)) by (rewrite (sqr_abs b); ring).
      apply Rmult_le_compat; nra. }
    assert (b * b * (T*T*T*T) <= thr2 * thr2 * (T * T)) by nra.
    assert (Rabs b * (T*T*T) <= thr2 * (T * T)) by nra. nra. }
  destruct (I2x_b_close a b T HT) as [Lb1 Lb2].
  destruct (Rle_or_lt (Rabs (a * T)) thr2) as [Ha|Ha].
  - rewrite soi_core_case3' by auto. cbn [fst snd].
    assert (Ka : a * a * (T*T*T*T) / 8 + Rabs a * (T*T*T) / 3 <= thr2 * (T*T) * (1/3 + thr2/8)).
    { rewrite Rabs_mult, (Rabs_right T) in Ha by lra. pose proof (Rabs_pos a).
      assert (Hsq : a * a * (T * T) <= thr2 * thr2).
      { replace (a * a * (T * T)) with ((Rabs a * T) * (Rabs a * T)) by (rewrite (sqr_abs a); ring).
      apply Rmult_le_compat; nra. }
      assert (a * a * (T*T*T*T) <= thr2 * thr2 * (T * T)) by nra.
      assert (Rabs a * (T*T*T) <= thr2 * (T * T)) by nra. nra. }
    destruct (I2x_a_close a T HT) as [La1 La2].
    split.
    + replace (T*T/2 - fst (I2x a b T)) with (- ((fst (I2x a b T) - fst (I2x a 0 T)) + (fst (I2x a 0 T) - T*T/2))) by ring.
      rewrite Rabs_Ropp. eapply Rle_trans. apply Rabs_triang. nra.
    + replace (0 - snd (I2x a b T)) with (- ((snd (I2x a b T) - snd (I2x a 0 T)) + (snd (I2x a 0 T) - 0))) by ring.
      rewrite Rabs_Ropp. eapply Rle_trans. apply Rabs_triang. nra.
  - rewrite soi_core_case2' by auto.
    assert (E : soi_core_x RO a 0 (a + b) T = I2x a 0 T).
    { unfold I2x. assert (a <> 0) by (intros ->; rewrite Rmult_0_l, Rabs_R0 in Ha; lra).
      rewrite !soi_core_case2 by auto. reflexivity. }
    rewrite E. split.
    + rewrite Rabs_minus_sym. nra.
    + rewrite Rabs_minus_sym. nra.
Qed.

(* ... and that exact value is the iterated integral (soi_cases) *)
Corollary soi_bound_integral thr2 a b T : 0 <= thr2 -> 0 <= T ->
  exists z, iterated_exp_integral a b T z /\
    Rabs (fst (soi_core RO thr2 a b (a + b) T) - fst z) <= soi_eps thr2 T /\
    Rabs (snd (soi_core RO thr2 a b (a + b) T) - snd z) <= soi_eps thr2 T.
Proof. intros H0 HT. exists (I2x a b T). split. apply soi_cases. apply soi_bound; auto. Qed.

(* ------------------------------------------------------------------ amplification of evaluation errors
   The three case formulas as functions of the already evaluated buffers
     f1 = frc(dEE), f2 = frc(dEdE), ex = dt e^{i dEE dt}   (all of size ~T).
   If these are known to within u*T (componentwise) the case value moves by at most 2 u T^2 / thr2, because
   the code only divides by denominators with |x T| > thr2.  Together with soi_bound this is the error budget
        thr2 T^2 (1/2 + thr2/4)  +  2 u T^2 / thr2
   of one entry of the segment integral (u: accuracy of sin/cos/division in units of T, not proved here).     *)
Definition case1_of (f1 f2 : Cx) (b : R) : Cx := cdivr RO (csub' f1 f2) b.
Definition case2_of (f1 ex : Cx) (a : R) : Cx := cdivr RO (fst f1 + snd ex, snd f1 - fst ex) a.

Lemma soi_cases_of_buffers (m1 m2 : bool) a b ab T :
  soi_cases_of RO m1 m2 a b ab T =
  cite RO m1 (case1_of (frc RO a T) (frc RO ab T) b)
       (cite RO m2 (case2_of (frc RO a T) (cscal RO T (cexp' (a * T))) a) (T * T / 2, 0)).
Proof.
  unfold soi_cases_of, case1_of, case2_of. rewrite em1_val.
  destruct m1; [reflexivity|]. destruct m2; unfold cite; simpl; apply c_eq; simpl; unfold o2, Rdiv; simpl; try ring; replace (1 + 1) with 2 by ring; ring.
Qed.

Lemma inv_small thr2 x T : 0 < thr2 -> 0 <= T -> thr2 < Rabs (x * T) -> / Rabs x <= T / thr2.
Proof.
  intros H0 HT H.
  assert (Hx : x <> 0) by (intros ->; rewrite Rmult_0_l, Rabs_R0 in H; lra).
  assert (Hp : 0 < Rabs x) by (apply Rabs_pos_lt; auto).
  rewrite Rabs_mult, (Rabs_right T) in H by lra.
  assert (HT' : 0 < T) by nra.
  assert (Hq : thr2 / T <= Rabs x).
  { left. apply Rmult_lt_reg_r with T; auto. unfold Rdiv. rewrite Rmult_assoc, Rinv_l by lra. lra. }
  assert (Hpos : 0 < thr2 / T) by (apply Rdiv_lt_0_compat; auto).
  apply Rle_trans with (/ (thr2 / T)). apply Rinv_le_contravar; auto.
  right. field. split; lra.
Qed.

Theorem case1_amplification thr2 u T b (f1 f2 f1' f2' : Cx) : 0 < thr2 -> 0 <= T -> 0 <= u -> thr2 < Rabs (b * T) ->
  Rabs (fst f1' - fst f1) <= u * T -> Rabs (snd f1' - snd f1) <= u * T ->
  Rabs (fst f2' - fst f2) <= u * T -> Rabs (snd f2' - snd f2) <= u * T ->
  Rabs (fst (case1_of f1' f2' b) - fst (case1_of f1 f2 b)) <= 2 * u * (T * T) / thr2 /\
  Rabs (snd (case1_of f1' f2' b) - snd (case1_of f1 f2 b)) <= 2 * u * (T * T) / thr2.
Proof.
  intros H0 HT Hu Hb A1 A2 B1 B2. pose proof (inv_small thr2 b T H0 HT Hb) as Hi.
  assert (Hinv : 0 <= / Rabs b) by (left; apply Rinv_0_lt_compat; destruct (Req_dec b 0) as [->|]; [rewrite Rmult_0_l, Rabs_R0 in Hb; lra | apply Rabs_pos_lt; auto]).
  assert (K : forall x y x' y', Rabs (x' - x) <= u * T -> Rabs (y' - y) <= u * T ->
            Rabs ((x' - y') / b - (x - y) / b) <= 2 * u * (T * T) / thr2).
  { intros x y x' y' Hx Hy. replace ((x' - y') / b - (x - y) / b) with (((x' - x) - (y' - y)) / b) by (unfold Rdiv; ring).
    unfold Rdiv. rewrite Rabs_mult, Rabs_inv.
    apply Rle_trans with ((u * T + u * T) * (T / thr2)).
    apply Rmult_le_compat; auto. apply Rabs_pos.
    eapply Rle_trans. apply Rabs_triang. rewrite Rabs_Ropp. lra.
    right. field. lra. }
  unfold case1_of, cdivr, csub; simpl. split; apply K; auto.
Qed.

Theorem case2_amplification thr2 u T a (f1 ex f1' ex' : Cx) : 0 < thr2 -> 0 <= T -> 0 <= u -> thr2 < Rabs (a * T) ->
  Rabs (fst f1' - fst f1) <= u * T -> Rabs (snd f1' - snd f1) <= u * T ->
  Rabs (fst ex' - fst ex) <= u * T -> Rabs (snd ex' - snd ex) <= u * T ->
  Rabs (fst (case2_of f1' ex' a) - fst (case2_of f1 ex a)) <= 2 * u * (T * T) / thr2 /\
  Rabs (snd (case2_of f1' ex' a) - snd (case2_of f1 ex a)) <= 2 * u * (T * T) / thr2.
Proof.
  intros H0 HT Hu Ha A1 A2 B1 B2. pose proof (inv_small thr2 a T H0 HT Ha) as Hi.
  assert (Hinv : 0 <= / Rabs a) by (left; apply Rinv_0_lt_compat; destruct (Req_dec a 0) as [->|]; [rewrite Rmult_0_l, Rabs_R0 in Ha; lra | apply Rabs_pos_lt; auto]).
  assert (K : forall x y x' y' (sg : R), (sg = 1 \/ sg = -1) -> Rabs (x' - x) <= u * T -> Rabs (y' - y) <= u * T ->
            Rabs ((x' + sg * y') / a - (x + sg * y) / a) <= 2 * u * (T * T) / thr2).
  { intros x y x' y' sg Hsg Hx Hy.
    replace ((x' + sg * y') / a - (x + sg * y) / a) with (((x' - x) + sg * (y' - y)) / a) by (unfold Rdiv; ring).
    unfold Rdiv. rewrite Rabs_mult, Rabs_inv.
    apply Rle_trans with ((u * T + u * T) * (T / thr2)).
    apply Rmult_le_compat; auto. apply Rabs_pos.
    eapply Rle_trans. apply Rabs_triang. rewrite Rabs_mult.
    assert (Rabs sg = 1) by (destruct Hsg as [->| ->]; [apply Rabs_R1 | rewrite Rabs_left; lra]). rewrite H. lra.
    right. field. lra. }
  unfold case2_of, cdivr; simpl. split.
  - replace (fst f1' + snd ex') with (fst f1' + 1 * snd ex') by ring. replace (fst f1 + snd ex) with (fst f1 + 1 * snd ex) by ring.
    apply K; auto.
  - replace (snd f1' - fst ex') with (snd f1' + -1 * fst ex') by ring. replace (snd f1 - fst ex) with (snd f1 + -1 * fst ex) by ring.
    apply K; auto.
Qed.
