(* Second-order segment integral with the dimensionless case selection of the code (|x dt| > thr2):
   where a denominator is small but not zero the code uses the limit value plus its first-order term (a13e2c1);
   the deviation from the exact iterated integral is at most  thr2^2 * T^2 * (3/8 + thr2/4)  in each component
   (soi_bound).  Evaluation errors u*T of the buffers are amplified by at most 2/thr2 resp. 4/thr2 + 1/2.   *)
From Coq Require Import ZArith Reals Lra Lia List.
From Coquelicot Require Import Coquelicot.
From FF Require Import Base.Ops Inst.RInst Base.RAlg Model.Numeric Model.SecondOrder Proofs.Foi Proofs.SecondOrder
     Proofs.SecondOrderAsm Proofs.SecondOrderInt.
Local Open Scope R_scope.

Lemma is_CInt_sub f g a b z1 z2 :
  is_CInt f a b z1 -> is_CInt g a b z2 -> is_CInt (fun t => csub' (f t) (g t)) a b (csub' z1 z2).
Proof.
  intros [F1 F2] [G1 G2]. split; simpl.
  - apply (is_RInt_minus (V:=R_NormedModule) _ _ _ _ _ _ F1 G1).
  - apply (is_RInt_minus (V:=R_NormedModule) _ _ _ _ _ _ F2 G2).
Qed.

Lemma abs_sin_le x : Rabs (sin x) <= Rabs x.
Proof.
  destruct (Req_dec x 0) as [->|Hx]. rewrite sin_0, Rabs_R0. lra.
  pose proof (sin_minus_id_bound x) as H. pose proof (SIN_bound x) as Hb.
  destruct (Rle_or_lt (Rabs x) 1) as [H1|H1].
  - assert (Rabs (sin x) <= Rabs x + Rabs (sin x - x)).
    { replace (sin x) with (x + (sin x - x)) at 1 by ring. apply Rabs_triang. }
    (* crude: use sin_lt_x on |x| <= 1 *)
    destruct (Rle_or_lt 0 x) as [Hp|Hn].
    + rewrite (Rabs_right x) by lra. rewrite Rabs_right. left. apply sin_lt_x. lra.
      apply Rle_ge, sin_ge_0. lra. rewrite Rabs_right in H1 by lra. assert (3 < PI) by (generalize PI2_3_2; unfold PI2; lra). lra.
    + rewrite (Rabs_left x) by lra. rewrite <- (Rabs_Ropp (sin x)), <- sin_neg.
      rewrite Rabs_left in H1 by lra. rewrite Rabs_right. left. apply sin_lt_x. lra.
      apply Rle_ge, sin_ge_0. lra. assert (3 < PI) by (generalize PI2_3_2; unfold PI2; lra). lra.
  - apply Rle_trans with 1. apply Rabs_le. lra. lra.
Qed.

(* J(b,t) = int_0^t e^{i b s} ds is t + O(b t^2) *)
Lemma Jre_close b t : 0 <= t -> Rabs (Jre b t - t) <= b * b * (t * t * t) / 2.
Proof.
  intros Ht. destruct (Req_dec b 0) as [->|Hb].
  - rewrite Jre_0. replace (t - t) with 0 by ring. rewrite Rabs_R0. nra.
  - rewrite Jre_nz by auto. replace (sin (b * t) / b - t) with ((sin (b * t) - b * t) / b) by (field; auto).
    unfold Rdiv at 1. rewrite Rabs_mult, Rabs_inv.
    pose proof (sin_minus_id_bound (b * t)) as H.
    assert (Hb' : 0 < Rabs b) by (apply Rabs_pos_lt; auto).
    apply Rle_trans with (Rabs (b * t) * (b * t * (b * t) / 2) * / Rabs b).
    apply Rmult_le_compat_r. left; apply Rinv_0_lt_compat; auto. exact H.
    rewrite Rabs_mult, (Rabs_right t) by lra. right. field. lra.
Qed.
Lemma Jim_close b t : 0 <= t -> Rabs (Jim b t) <= Rabs b * (t * t) / 2.
Proof.
  intros Ht. destruct (Req_dec b 0) as [->|Hb].
  - rewrite Jim_0, Rabs_R0. lra.
  - rewrite Jim_nz by auto. unfold Rdiv at 1. rewrite Rabs_mult, Rabs_inv.
    destruct (one_minus_cos_bound (b * t)) as [H0 H1]. rewrite (Rabs_right (1 - cos (b * t))) by lra.
    assert (Hb' : 0 < Rabs b) by (apply Rabs_pos_lt; auto).
    apply Rle_trans with ((b * t * (b * t) / 2) * / Rabs b).
    apply Rmult_le_compat_r. left; apply Rinv_0_lt_compat; auto. exact H1.
    replace (b * t * (b * t)) with (Rabs b * Rabs b * (t * t)).
    right. field. lra.
    rewrite <- (Rabs_mult b b). rewrite (Rabs_right (b * b)) by (apply Rle_ge; nra). ring.
Qed.

(* integrals of the bounding polynomials *)
Lemma int_poly c1 c2 T : is_RInt (fun t => c1 * (t * t * t) / 2 + c2 * (t * t) / 2) 0 T (c1 * (T*T*T*T) / 8 + c2 * (T*T*T) / 6).
Proof.
  evar_last. apply (is_RInt_derive (fun t => c1 * (t*t*t*t) / 8 + c2 * (t*t*t) / 6)).
  - intros x _. auto_derive; auto. field.
  - intros x _. apply continuity_pt_filterlim. apply derivable_continuous_pt.
    apply derivable_pt_plus; apply derivable_pt_div; try (apply derivable_pt_const);
      try (intros; lra); apply derivable_pt_mult; try apply derivable_pt_const;
      repeat apply derivable_pt_mult; apply derivable_pt_id.
  - unfold minus, plus, opp; simpl. field.
Qed.

(* |Re z|, |Im z| of e^{i th} (z1, z2) are at most |z1| + |z2| *)
Lemma rot_fst th z1 z2 : Rabs (fst (cmul' (cexp' th) (z1, z2))) <= Rabs z1 + Rabs z2.
Proof.
  simpl. pose proof (COS_bound th). pose proof (SIN_bound th).
  eapply Rle_trans. apply Rabs_triang. rewrite Rabs_Ropp, !Rabs_mult.
  assert (Rabs (cos th) <= 1) by (apply Rabs_le; lra). assert (Rabs (sin th) <= 1) by (apply Rabs_le; lra).
  pose proof (Rabs_pos z1). pose proof (Rabs_pos z2). nra.
Qed.
Lemma rot_snd th z1 z2 : Rabs (snd (cmul' (cexp' th) (z1, z2))) <= Rabs z1 + Rabs z2.
Proof.
  simpl. pose proof (COS_bound th). pose proof (SIN_bound th).
  eapply Rle_trans. apply Rabs_triang. rewrite !Rabs_mult.
  assert (Rabs (cos th) <= 1) by (apply Rabs_le; lra). assert (Rabs (sin th) <= 1) by (apply Rabs_le; lra).
  pose proof (Rabs_pos z1). pose proof (Rabs_pos z2). nra.
Qed.

Definition I2x (a b T : R) : Cx := soi_core_x RO a b (a + b) T.


Lemma sqr_abs x : x * x = Rabs x * Rabs x.
Proof. rewrite <- Rabs_mult. symmetry. apply Rabs_right. apply Rle_ge. nra. Qed.

(* second-order remainders of sin and cos (constants not sharp) *)
Lemma sin_rem x : Rabs (sin x - x) <= Rabs x * (x * x) / 2.
Proof. pose proof (sin_minus_id_bound x). lra. Qed.
Lemma cos_rem x : Rabs (1 - cos x - x * x / 2) <= x * x * (x * x) / 2.
Proof.
  destruct (Req_dec x 0) as [->|Hx].
  { rewrite cos_0. replace (1 - 1 - 0 * 0 / 2) with 0 by field. rewrite Rabs_R0. nra. }
  destruct (MVT_gen (fun s => 1 - cos s - s * s / 2) 0 x (fun s => sin s - s)) as [c [Hc Heq]].
  - intros s _. auto_derive; auto. field.
  - intros s _. apply continuity_pt_minus. apply continuity_pt_minus. apply continuity_pt_const; intros ? ?; reflexivity.
    apply continuity_cos. apply derivable_continuous_pt. apply derivable_pt_div. apply derivable_pt_mult; apply derivable_pt_id.
    apply derivable_pt_const. intros; lra.
  - rewrite cos_0 in Heq. replace (1 - 1 - 0 * 0 / 2) with 0 in Heq by field.
    replace (1 - cos x - x * x / 2) with ((sin c - c) * x) by lra.
    rewrite Rabs_mult. pose proof (sin_rem c) as Hs.
    assert (Hcx : Rabs c <= Rabs x).
    { unfold Rmin, Rmax in Hc. destruct (Rle_dec 0 x); [rewrite !Rabs_right by lra | rewrite !Rabs_left1 by lra]; lra. }
    assert (Hcc : c * c <= x * x) by (rewrite (sqr_abs c), (sqr_abs x); pose proof (Rabs_pos c); nra).
    pose proof (Rabs_pos c). pose proof (Rabs_pos x). pose proof (Rabs_pos (sin c - c)).
    assert (Rabs (sin c - c) <= Rabs x * (x * x) / 2) by nra.
    replace (x * x * (x * x) / 2) with ((Rabs x * (x * x) / 2) * Rabs x) by (rewrite (sqr_abs x) at 2; field). nra.
Qed.

Lemma Jim_close2 b t : 0 <= t -> Rabs (Jim b t - b * (t * t) / 2) <= Rabs b * (b * b) * (t * t * (t * t)) / 2.
Proof.
  intros Ht. destruct (Req_dec b 0) as [->|Hb].
  - rewrite Jim_0. replace (0 - 0 * (t * t) / 2) with 0 by field. rewrite !Rabs_R0. nra.
  - rewrite Jim_nz by auto.
    replace ((1 - cos (b * t)) / b - b * (t * t) / 2) with ((1 - cos (b * t) - (b * t) * (b * t) / 2) / b) by (field; auto).
    unfold Rdiv at 1. rewrite Rabs_mult, Rabs_inv.
    assert (Hb' : 0 < Rabs b) by (apply Rabs_pos_lt; auto).
    apply Rle_trans with (((b * t) * (b * t) * ((b * t) * (b * t)) / 2) * / Rabs b).
    apply Rmult_le_compat_r. left; apply Rinv_0_lt_compat; auto. apply cos_rem.
    right. replace (b * t * (b * t) * (b * t * (b * t))) with ((Rabs b * Rabs b) * (b * b) * (t * t * (t * t))) by (rewrite <- (sqr_abs b); ring).
    field. lra.
Qed.

Lemma int_poly34 c3 c4 T : is_RInt (fun t => c3 * (t * t * t) + c4 * (t * t * (t * t))) 0 T (c3 * (T*T*T*T) / 4 + c4 * (T*T*T*T*T) / 5).
Proof.
  evar_last. apply (is_RInt_derive (fun t => c3 * (t*t*t*t) / 4 + c4 * (t*t*t*t*t) / 5)).
  - intros x _. auto_derive; auto. field.
  - intros x _. apply continuity_pt_filterlim. apply derivable_continuous_pt.
    apply derivable_pt_plus; apply derivable_pt_mult; try apply derivable_pt_const;
      repeat apply derivable_pt_mult; apply derivable_pt_id.
  - unfold minus, plus, opp; simpl. field.
Qed.

(* int_0^T t^2 e^{i a t} dt *)
Lemma int_t2cos a T : a <> 0 ->
  is_RInt (fun t => cos (a*t) * (t * t)) 0 T (T*T * sin (a*T) / a + 2 * T * cos (a*T) / (a*a) - 2 * sin (a*T) / (a*a*a)).
Proof.
  intros Ha. evar_last.
  apply (is_RInt_derive (fun t => t*t * sin (a*t) / a + 2 * t * cos (a*t) / (a*a) - 2 * sin (a*t) / (a*a*a))).
  - intros x _. auto_derive; auto. field; auto.
  - intros x _. apply continuity_pt_filterlim. apply continuity_pt_mult. apply (cont_lin_comp cos a continuity_cos).
    apply derivable_continuous_pt. apply derivable_pt_mult; apply derivable_pt_id.
  - unfold minus, plus, opp; simpl. replace (a * 0) with 0 by ring. rewrite sin_0, cos_0. field; auto.
Qed.
Lemma int_t2sin a T : a <> 0 ->
  is_RInt (fun t => sin (a*t) * (t * t)) 0 T (- (T*T) * cos (a*T) / a + 2 * T * sin (a*T) / (a*a) + 2 * (cos (a*T) - 1) / (a*a*a)).
Proof.
  intros Ha. evar_last.
  apply (is_RInt_derive (fun t => - (t*t) * cos (a*t) / a + 2 * t * sin (a*t) / (a*a) + 2 * cos (a*t) / (a*a*a))).
  - intros x _. auto_derive; auto. field; auto.
  - intros x _. apply continuity_pt_filterlim. apply continuity_pt_mult. apply (cont_lin_comp sin a continuity_sin).
    apply derivable_continuous_pt. apply derivable_pt_mult; apply derivable_pt_id.
  - unfold minus, plus, opp; simpl. replace (a * 0) with 0 by ring. rewrite sin_0, cos_0. field; auto.
Qed.

(* the slope d/db I2(a,b) at b = 0, as the code writes it and as an integral *)
Definition Sx (a T : R) : Cx :=
  (- (- (T*T) * cos (a*T) / a + 2 * T * sin (a*T) / (a*a) + 2 * (cos (a*T) - 1) / (a*a*a)) / 2,
   (T*T * sin (a*T) / a + 2 * T * cos (a*T) / (a*a) - 2 * sin (a*T) / (a*a*a)) / 2).
Lemma Sx_int a T : a <> 0 -> is_CInt (fun t => cmul' (cexp' (a * t)) (0, t * t / 2)) 0 T (Sx a T).
Proof.
  intros Ha. unfold Sx. split; cbn [fst snd].
  - apply (is_RInt_ext (fun t => scal (- / 2) (sin (a * t) * (t * t)))).
    { intros x _. Req. unfold scal; simpl. unfold mult; simpl. field. }
    evar_last. apply @is_RInt_scal. apply int_t2sin; auto. unfold scal; simpl. unfold mult; simpl. field; auto.
  - apply (is_RInt_ext (fun t => scal (/ 2) (cos (a * t) * (t * t)))).
    { intros x _. Req. unfold scal; simpl. unfold mult; simpl. field. }
    evar_last. apply @is_RInt_scal. apply int_t2cos; auto. unfold scal; simpl. unfold mult; simpl. field; auto.
Qed.

(* values of the code's selection *)
Lemma soi_core_case1' thr2 a b ab T : 0 <= thr2 -> thr2 < Rabs (b * T) ->
  soi_core RO thr2 a b ab T = soi_core_x RO a b ab T.
Proof.
  intros H0 Hb. unfold soi_core, soi_core_x. rewrite (big_true _ _ _ Hb).
  rewrite nz_true. reflexivity. intros ->. rewrite Rmult_0_l, Rabs_R0 in Hb. lra.
Qed.
Lemma soi_core_case2' thr2 a b ab T : 0 <= thr2 -> Rabs (b * T) <= thr2 -> thr2 < Rabs (a * T) ->
  soi_core RO thr2 a b ab T = cadd' (I2x a 0 T) (cscal RO b (Sx a T)).
Proof.
  intros H0 Hb Ha. assert (Hne : a <> 0) by (intros ->; rewrite Rmult_0_l, Rabs_R0 in Ha; lra).
  unfold soi_core. rewrite (big_false _ _ _ Hb), (big_true _ _ _ Ha).
  unfold I2x. rewrite soi_core_case2 by auto.
  unfold soi_cases_of, cite. rewrite (frc_nz a T Hne), em1_val. unfold Sx, cdivr, cadd, csub, cscal, c1, o2; simpl.
  apply c_eq; simpl; field; auto.
Qed.
Lemma soi_core_case3' thr2 a b ab T : Rabs (b * T) <= thr2 -> Rabs (a * T) <= thr2 ->
  soi_core RO thr2 a b ab T = (T*T/2, T*T*T * (a/3 + b/6)).
Proof.
  intros Hb Ha. unfold soi_core. rewrite (big_false _ _ _ Hb), (big_false _ _ _ Ha).
  unfold soi_cases_of, cite. simpl. apply c_eq; simpl; unfold o2; simpl; field.
Qed.

Definition soi_eps (thr2 T : R) : R := thr2 * thr2 * (T * T) * (3/8 + thr2/4).

(* powers of |x| T <= thr2 *)
Lemma pow_small thr2 x T : 0 <= T -> Rabs (x * T) <= thr2 ->
  0 <= Rabs x * T <= thr2.
Proof. intros HT H. rewrite Rabs_mult, (Rabs_right T) in H by lra. pose proof (Rabs_pos x). split; nra. Qed.

(* case 2: I2(a,b) - [I2(a,0) + b S(a)] *)
Lemma case2_close a b T : 0 <= T -> a <> 0 ->
  let V := cadd' (I2x a 0 T) (cscal RO b (Sx a T)) in
  Rabs (fst V - fst (I2x a b T)) <= (b * b / 2) * (T*T*T*T) / 4 + (Rabs b * (b * b) / 2) * (T*T*T*T*T) / 5 /\
  Rabs (snd V - snd (I2x a b T)) <= (b * b / 2) * (T*T*T*T) / 4 + (Rabs b * (b * b) / 2) * (T*T*T*T*T) / 5.
Proof.
  intros HT Ha V.
  pose proof (is_CInt_sub _ _ _ _ _ _ (soi_core_integral a b T)
               (is_CInt_add _ _ _ _ _ _ (soi_core_integral a 0 T) (is_CInt_cmul_l (b, 0) _ _ _ _ (Sx_int a T Ha)))) as [H1 H2].
  fold (I2x a b T) (I2x a 0 T) in H1, H2.
  assert (EV : cadd' (I2x a 0 T) (cmul' (b, 0) (Sx a T)) = V) by (unfold V; apply c_eq; simpl; ring).
  rewrite EV in H1, H2.
  assert (E : forall t, csub' (cmul' (cexp' (a * t)) (Jc b t))
                          (cadd' (cmul' (cexp' (a * t)) (Jc 0 t)) (cmul' (b, 0) (cmul' (cexp' (a * t)) (0, t * t / 2)))) =
                        cmul' (cexp' (a * t)) (Jre b t - t, Jim b t - b * (t * t) / 2)).
  { intros t. unfold Jc. rewrite Jre_0, Jim_0. apply c_eq; simpl; field. }
  assert (Hb : forall t, 0 <= t <= T -> Rabs (Jre b t - t) + Rabs (Jim b t - b * (t * t) / 2)
                 <= (b * b / 2) * (t*t*t) + (Rabs b * (b * b) / 2) * (t*t*(t*t))).
  { intros t [Ht _]. pose proof (Jre_close b t Ht). pose proof (Jim_close2 b t Ht). lra. }
  split.
  - rewrite Rabs_minus_sym.
    apply (fun Hle => norm_RInt_le (V:=R_NormedModule) _ _ 0 T _ _ HT Hle H1 (int_poly34 (b*b/2) (Rabs b * (b*b)/2) T)).
    intros t Ht. rewrite E. eapply Rle_trans. apply rot_fst. apply Hb; auto.
  - rewrite Rabs_minus_sym.
    apply (fun Hle => norm_RInt_le (V:=R_NormedModule) _ _ 0 T _ _ HT Hle H2 (int_poly34 (b*b/2) (Rabs b * (b*b)/2) T)).
    intros t Ht. rewrite E. eapply Rle_trans. apply rot_snd. apply Hb; auto.
Qed.

Lemma abs_bt2 b t : Rabs (b * (t * t) / 2) = Rabs b * (t * t) / 2.
Proof.
  unfold Rdiv. rewrite Rabs_mult, (Rabs_mult b), (Rabs_right (t * t)), (Rabs_right (/ 2)); try lra. apply Rle_ge; nra.
Qed.

(* case 3: I2(a,b) - [T^2/2 + i T^3 (a/3 + b/6)] *)
Lemma case3_close a b T : 0 <= T ->
  let C3 := (a * a + b * b + Rabs a * Rabs b) / 2 in
  let C4 := (Rabs a * (a * a) + Rabs b * (b * b)) / 2 + Rabs b * (a * a) / 4 in
  Rabs (T*T/2 - fst (I2x a b T)) <= C3 * (T*T*T*T) / 4 + C4 * (T*T*T*T*T) / 5 /\
  Rabs (T*T*T * (a/3 + b/6) - snd (I2x a b T)) <= C3 * (T*T*T*T) / 4 + C4 * (T*T*T*T*T) / 5.
Proof.
  intros HT C3 C4.
  assert (Hz : is_CInt (fun t => (t, a * (t * t) + b * (t * t) / 2)) 0 T (T*T/2, T*T*T * (a/3 + b/6))).
  { split; cbn [fst snd]. apply int_t.
    evar_last. apply (is_RInt_derive (fun t => (t*t*t) * (a/3 + b/6))).
    - intros x _. auto_derive; auto. field.
    - intros x _. apply continuity_pt_filterlim. apply derivable_continuous_pt.
      apply derivable_pt_plus; [|apply derivable_pt_div; [|apply derivable_pt_const|intros; lra]];
        apply derivable_pt_mult; try apply derivable_pt_const; apply derivable_pt_mult; apply derivable_pt_id.
    - unfold minus, plus, opp; simpl. field. }
  pose proof (is_CInt_sub _ _ _ _ _ _ (soi_core_integral a b T) Hz) as [H1 H2].
  fold (I2x a b T) in H1, H2. cbn [fst snd] in H1, H2.
  (* integrand = e^{iat} (r1, r2) + t (cos-1, sin - at) + (b t^2/2) (-sin, cos-1) *)
  assert (E : forall t, csub' (cmul' (cexp' (a * t)) (Jc b t)) (t, a * (t * t) + b * (t * t) / 2) =
     cadd' (cmul' (cexp' (a * t)) (Jre b t - t, Jim b t - b * (t * t) / 2))
           (cadd' (t * (cos (a * t) - 1), t * (sin (a * t) - a * t))
                  (- (b * (t * t) / 2) * sin (a * t), b * (t * t) / 2 * (cos (a * t) - 1)))).
  { intros t. unfold Jc. apply c_eq; simpl; field. }
  assert (G : forall t, 0 <= t <= T ->
     Rabs (Jre b t - t) + Rabs (Jim b t - b * (t * t) / 2) +
     (Rabs (t * (cos (a * t) - 1)) + Rabs (t * (sin (a * t) - a * t))) +
     (Rabs (b * (t * t) / 2 * sin (a * t)) + Rabs (b * (t * t) / 2 * (cos (a * t) - 1)))
     <= C3 * (t*t*t) + C4 * (t*t*(t*t))).
  { intros t [Ht _]. pose proof (Jre_close b t Ht) as B1. pose proof (Jim_close2 b t Ht) as B2.
    assert (B3 : Rabs (t * (cos (a * t) - 1)) <= a * a * (t*t*t) / 2).
    { rewrite Rabs_mult, (Rabs_right t) by lra. destruct (one_minus_cos_bound (a * t)) as [H0 Hc].
      rewrite Rabs_left1 by lra. assert (t * - (cos (a*t) - 1) <= t * (a * t * (a * t) / 2)) by (apply Rmult_le_compat_l; lra). lra. }
    assert (B4 : Rabs (t * (sin (a * t) - a * t)) <= Rabs a * (a * a) * (t*t*(t*t)) / 2).
    { rewrite Rabs_mult, (Rabs_right t) by lra. pose proof (sin_rem (a * t)) as Hs.
      rewrite Rabs_mult, (Rabs_right t) in Hs by lra.
      assert (t * Rabs (sin (a*t) - a*t) <= t * (Rabs a * t * (a * t * (a * t)) / 2)) by (apply Rmult_le_compat_l; lra). lra. }
    assert (B5 : Rabs (b * (t * t) / 2 * sin (a * t)) <= Rabs a * Rabs b * (t*t*t) / 2).
    { rewrite Rabs_mult. pose proof (abs_sin_le (a * t)) as Hs. rewrite Rabs_mult, (Rabs_right t) in Hs by lra.
      rewrite abs_bt2.
      pose proof (Rabs_pos b). assert (0 <= Rabs b * (t * t) / 2) by (assert (0 <= t * t) by nra; nra).
      assert (Rabs b * (t*t) / 2 * Rabs (sin (a*t)) <= Rabs b * (t*t) / 2 * (Rabs a * t)) by (apply Rmult_le_compat_l; lra). lra. }
    assert (B6 : Rabs (b * (t * t) / 2 * (cos (a * t) - 1)) <= Rabs b * (a * a) * (t*t*(t*t)) / 4).
    { rewrite Rabs_mult. destruct (one_minus_cos_bound (a * t)) as [H0 Hc]. rewrite (Rabs_left1 (cos (a*t) - 1)) by lra.
      rewrite abs_bt2.
      pose proof (Rabs_pos b). assert (0 <= Rabs b * (t * t) / 2) by (assert (0 <= t * t) by nra; nra).
      assert (Rabs b * (t*t) / 2 * - (cos (a*t) - 1) <= Rabs b * (t*t) / 2 * (a * t * (a * t) / 2)) by (apply Rmult_le_compat_l; lra). lra. }
    unfold C3, C4. lra. }
  assert (P := int_poly34 C3 C4 T).
  split.
  - rewrite Rabs_minus_sym.
    apply (fun Hle => norm_RInt_le (V:=R_NormedModule) _ _ 0 T _ _ HT Hle H1 P).
    intros t Ht. rewrite E. specialize (G t Ht).
    pose proof (rot_fst (a * t) (Jre b t - t) (Jim b t - b * (t * t) / 2)) as R1.
    change (norm ?x) with (Rabs x). cbn [fst cadd RO oadd] in *.
    eapply Rle_trans. apply Rabs_triang. eapply Rle_trans. apply Rplus_le_compat. exact R1. apply Rabs_triang.
    assert (HZ : Rabs (- (b * (t * t) / 2) * sin (a * t)) = Rabs (b * (t * t) / 2 * sin (a * t)))
      by (rewrite <- Rabs_Ropp; f_equal; ring).
    rewrite HZ.
    pose proof (Rabs_pos (t * (sin (a * t) - a * t))). pose proof (Rabs_pos (b * (t * t) / 2 * (cos (a * t) - 1))). lra.
  - rewrite Rabs_minus_sym.
    apply (fun Hle => norm_RInt_le (V:=R_NormedModule) _ _ 0 T _ _ HT Hle H2 P).
    intros t Ht. rewrite E. specialize (G t Ht).
    pose proof (rot_snd (a * t) (Jre b t - t) (Jim b t - b * (t * t) / 2)) as R1.
    change (norm ?x) with (Rabs x). cbn [snd cadd RO oadd] in *.
    eapply Rle_trans. apply Rabs_triang. eapply Rle_trans. apply Rplus_le_compat. exact R1. apply Rabs_triang.
    pose proof (Rabs_pos (t * (cos (a * t) - 1))). pose proof (Rabs_pos (b * (t * t) / 2 * sin (a * t))). lra.
Qed.

(* the code's value against the exact iterated integral, all (a, b), all T >= 0 *)
Theorem soi_bound thr2 a b T : 0 <= thr2 -> 0 <= T ->
  Rabs (fst (soi_core RO thr2 a b (a + b) T) - fst (I2x a b T)) <= soi_eps thr2 T /\
  Rabs (snd (soi_core RO thr2 a b (a + b) T) - snd (I2x a b T)) <= soi_eps thr2 T.
Proof.
  intros H0 HT. unfold soi_eps.
  assert (HTT : 0 <= T * T) by nra.
  destruct (Rle_or_lt (Rabs (b * T)) thr2) as [Hb|Hb].
  2:{ rewrite soi_core_case1' by auto. fold (I2x a b T). rewrite !Rminus_eq_0, Rabs_R0.
      assert (0 <= thr2 * thr2 * (T * T) * (3 / 8 + thr2 / 4)) by (apply Rmult_le_pos; [apply Rmult_le_pos; nra | lra]). split; lra. }
  destruct (pow_small thr2 b T HT Hb) as [Hy0 Hy]. set (y := Rabs b * T) in *.
  destruct (Rle_or_lt (Rabs (a * T)) thr2) as [Ha|Ha].
  - rewrite soi_core_case3' by auto. cbn [fst snd].
    destruct (pow_small thr2 a T HT Ha) as [Hx0 Hx]. set (x := Rabs a * T) in *.
    destruct (case3_close a b T HT) as [L1 L2].
    assert (K : (a * a + b * b + Rabs a * Rabs b) / 2 * (T*T*T*T) / 4 +
                ((Rabs a * (a * a) + Rabs b * (b * b)) / 2 + Rabs b * (a * a) / 4) * (T*T*T*T*T) / 5
                <= thr2 * thr2 * (T * T) * (3 / 8 + thr2 / 4)).
    { rewrite (sqr_abs a), (sqr_abs b).
      replace ((Rabs a * Rabs a + Rabs b * Rabs b + Rabs a * Rabs b) / 2 * (T*T*T*T) / 4 +
               ((Rabs a * (Rabs a * Rabs a) + Rabs b * (Rabs b * Rabs b)) / 2 + Rabs b * (Rabs a * Rabs a) / 4) * (T*T*T*T*T) / 5)
        with ((T * T) * ((x*x + y*y + x*y) / 8 + (x*x*x + y*y*y) / 10 + y*x*x / 20)) by (unfold x, y; field).
      assert (x*x <= thr2*thr2) by nra. assert (y*y <= thr2*thr2) by nra. assert (x*y <= thr2*thr2) by nra.
      assert (x*x*x <= thr2*thr2*thr2) by (assert (x*x*x <= thr2*thr2*x) by nra; nra).
      assert (y*y*y <= thr2*thr2*thr2) by (assert (y*y*y <= thr2*thr2*y) by nra; nra).
      assert (y*x*x <= thr2*thr2*thr2) by (assert (y*(x*x) <= y*(thr2*thr2)) by (apply Rmult_le_compat_l; lra); nra).
      replace (thr2 * thr2 * (T * T) * (3 / 8 + thr2 / 4)) with ((T*T) * (3*(thr2*thr2)/8 + (thr2*thr2*thr2)/4)) by field.
      apply Rmult_le_compat_l; lra. }
    split; lra.
  - rewrite soi_core_case2' by auto.
    assert (Hne : a <> 0) by (intros ->; rewrite Rmult_0_l, Rabs_R0 in Ha; lra).
    destruct (case2_close a b T HT Hne) as [L1 L2]. cbv zeta in L1, L2.
    assert (K : b * b / 2 * (T*T*T*T) / 4 + Rabs b * (b * b) / 2 * (T*T*T*T*T) / 5 <= thr2 * thr2 * (T * T) * (3 / 8 + thr2 / 4)).
    { rewrite (sqr_abs b).
      replace (Rabs b * Rabs b / 2 * (T*T*T*T) / 4 + Rabs b * (Rabs b * Rabs b) / 2 * (T*T*T*T*T) / 5)
        with ((T * T) * (y*y / 8 + y*y*y / 10)) by (unfold y; field).
      assert (y*y <= thr2*thr2) by nra. assert (y*y*y <= thr2*thr2*thr2) by (assert (y*y*y <= thr2*thr2*y) by nra; nra).
      replace (thr2 * thr2 * (T * T) * (3 / 8 + thr2 / 4)) with ((T*T) * (3*(thr2*thr2)/8 + (thr2*thr2*thr2)/4)) by field.
      assert (0 <= thr2*thr2) by nra. assert (0 <= thr2*thr2*thr2) by (apply Rmult_le_pos; nra).
      apply Rmult_le_compat_l; lra. }
    split; lra.
Qed.

(* ... and that exact value is the iterated integral (soi_cases) *)
Corollary soi_bound_integral thr2 a b T : 0 <= thr2 -> 0 <= T ->
  exists z, iterated_exp_integral a b T z /\
    Rabs (fst (soi_core RO thr2 a b (a + b) T) - fst z) <= soi_eps thr2 T /\
    Rabs (snd (soi_core RO thr2 a b (a + b) T) - snd z) <= soi_eps thr2 T.
Proof. intros H0 HT. exists (I2x a b T). split. apply soi_cases. apply soi_bound; auto. Qed.

(* ------------------------------------------------------------------ amplification of evaluation errors
   The case formulas as functions of the already evaluated buffers
     f1 = frc(dEE), f2 = frc(dEdE), ex = dt e^{i dEE dt}   (all of size ~T).
   If these are known to within u*T (componentwise) the case-1 value moves by at most 2 u T^2 / thr2 and the
   case-2 value by at most u T^2 (4/thr2 + 1/2), because the code only divides by denominators with |x T| > thr2
   and multiplies the slope by an EdE with |EdE T| <= thr2.  Together with soi_bound this is the error budget
        thr2^2 T^2 (3/8 + thr2/4)  +  u T^2 (4/thr2 + 1/2)
   of one entry of the segment integral (u: accuracy of sin/cos/division in units of T, not proved here).     *)
Definition case1_of (f1 f2 : Cx) (b : R) : Cx := cdivr RO (csub' f1 f2) b.
Definition i0_of (f1 ex : Cx) (a : R) : Cx := cdivr RO (fst f1 + snd ex, snd f1 - fst ex) a.
Definition case2_of (f1 ex : Cx) (a b T : R) : Cx :=
  let i0 := i0_of f1 ex a in
  let sl := cdivr RO (csub' (fst ex * T, snd ex * T) (cscal RO 2 i0)) (2 * a) in
  cadd' i0 (fst sl * b, snd sl * b).

Lemma soi_cases_of_buffers (m1 m2 : bool) a b ab T :
  soi_cases_of RO m1 m2 a b ab T =
  cite RO m1 (case1_of (frc RO a T) (frc RO ab T) b)
       (cite RO m2 (case2_of (frc RO a T) (cscal RO T (cexp' (a * T))) a b T) (T * T / 2, T * T * T * (a / 3 + b / 6))).
Proof.
  unfold soi_cases_of, case1_of, case2_of, i0_of. rewrite em1_val.
  destruct m1; [reflexivity|]. destruct m2; unfold cite; simpl; apply c_eq; simpl; unfold o2, Rdiv; simpl;
    try ring; replace (1 + 1) with 2 by ring; replace (2 + 1) with 3 by ring; replace (2 * 3) with 6 by ring; ring.
Qed.

Lemma inv_small thr2 x T : 0 < thr2 -> 0 <= T -> thr2 < Rabs (x * T) -> / Rabs x <= T / thr2.
Proof.
  intros H0 HT H.
  assert (Hx : x <> 0) by (intros ->; rewrite Rmult_0_l, Rabs_R0 in H; lra).
  assert (Hp : 0 < Rabs x) by (apply Rabs_pos_lt; auto).
  rewrite Rabs_mult, (Rabs_right T) in H by lra.
  assert (HT' : 0 < T) by nra.
  assert (Hq : thr2 / T <= Rabs x).
  { left. apply Rmult_lt_reg_r with T; auto. unfold Rdiv. rewrite Rmult_assoc, Rinv_l by lra. lra. }
  assert (Hpos : 0 < thr2 / T) by (apply Rdiv_lt_0_compat; auto).
  apply Rle_trans with (/ (thr2 / T)). apply Rinv_le_contravar; auto.
  right. field. split; lra.
Qed.

(* |(p' + sg q')/x - (p + sg q)/x| <= (P + Q) / |x| *)
Lemma div_pert x p q p' q' sg P Q : (sg = 1 \/ sg = -1) -> x <> 0 -> Rabs (p' - p) <= P -> Rabs (q' - q) <= Q ->
  Rabs ((p' + sg * q') / x - (p + sg * q) / x) <= (P + Q) * / Rabs x.
Proof.
  intros Hsg Hx Hp Hq.
  replace ((p' + sg * q') / x - (p + sg * q) / x) with (((p' - p) + sg * (q' - q)) / x) by (unfold Rdiv; ring).
  unfold Rdiv. rewrite Rabs_mult, Rabs_inv.
  apply Rmult_le_compat_r. left. apply Rinv_0_lt_compat, Rabs_pos_lt; auto.
  eapply Rle_trans. apply Rabs_triang. rewrite Rabs_mult.
  assert (Rabs sg = 1) by (destruct Hsg as [->| ->]; [apply Rabs_R1 | rewrite Rabs_left; lra]). rewrite H. lra.
Qed.

Theorem case1_amplification thr2 u T b (f1 f2 f1' f2' : Cx) : 0 < thr2 -> 0 <= T -> 0 <= u -> thr2 < Rabs (b * T) ->
  Rabs (fst f1' - fst f1) <= u * T -> Rabs (snd f1' - snd f1) <= u * T ->
  Rabs (fst f2' - fst f2) <= u * T -> Rabs (snd f2' - snd f2) <= u * T ->
  Rabs (fst (case1_of f1' f2' b) - fst (case1_of f1 f2 b)) <= 2 * u * (T * T) / thr2 /\
  Rabs (snd (case1_of f1' f2' b) - snd (case1_of f1 f2 b)) <= 2 * u * (T * T) / thr2.
Proof.
  intros H0 HT Hu Hb A1 A2 B1 B2. pose proof (inv_small thr2 b T H0 HT Hb) as Hi.
  assert (Hne : b <> 0) by (intros ->; rewrite Rmult_0_l, Rabs_R0 in Hb; lra).
  assert (K : forall x y x' y', Rabs (x' - x) <= u * T -> Rabs (y' - y) <= u * T ->
            Rabs ((x' - y') / b - (x - y) / b) <= 2 * u * (T * T) / thr2).
  { intros x y x' y' Hx Hy.
    replace (x' - y') with (x' + -1 * y') by ring. replace (x - y) with (x + -1 * y) by ring.
    eapply Rle_trans. apply (div_pert b x y x' y' (-1) (u*T) (u*T)); auto.
    apply Rle_trans with ((u * T + u * T) * (T / thr2)). apply Rmult_le_compat_l; nra.
    right. field. lra. }
  unfold case1_of, cdivr, csub; simpl. split; apply K; auto.
Qed.

Theorem case2_amplification thr2 u T a b (f1 ex f1' ex' : Cx) : 0 < thr2 -> 0 <= T -> 0 <= u ->
  thr2 < Rabs (a * T) -> Rabs (b * T) <= thr2 ->
  Rabs (fst f1' - fst f1) <= u * T -> Rabs (snd f1' - snd f1) <= u * T ->
  Rabs (fst ex' - fst ex) <= u * T -> Rabs (snd ex' - snd ex) <= u * T ->
  Rabs (fst (case2_of f1' ex' a b T) - fst (case2_of f1 ex a b T)) <= u * (T * T) * (4 / thr2 + 1 / 2) /\
  Rabs (snd (case2_of f1' ex' a b T) - snd (case2_of f1 ex a b T)) <= u * (T * T) * (4 / thr2 + 1 / 2).
Proof.
  intros H0 HT Hu Ha Hb A1 A2 B1 B2. pose proof (inv_small thr2 a T H0 HT Ha) as Hi.
  assert (Hne : a <> 0) by (intros ->; rewrite Rmult_0_l, Rabs_R0 in Ha; lra).
  assert (HT' : 0 < T). { destruct (Req_dec T 0) as [->|]; [rewrite Rmult_0_r, Rabs_R0 in Ha; lra | lra]. }
  assert (Hbs : Rabs b <= thr2 / T).
  { rewrite Rabs_mult, (Rabs_right T) in Hb by lra. apply Rmult_le_reg_r with T; auto.
    unfold Rdiv. rewrite Rmult_assoc, Rinv_l by lra. lra. }
  set (D0 := 2 * u * (T * T) / thr2).
  (* the value at EdE = 0 *)
  assert (I1 : Rabs (fst (i0_of f1' ex' a) - fst (i0_of f1 ex a)) <= D0).
  { unfold i0_of, cdivr; simpl.
    replace (fst f1' + snd ex') with (fst f1' + 1 * snd ex') by ring. replace (fst f1 + snd ex) with (fst f1 + 1 * snd ex) by ring.
    eapply Rle_trans. apply (div_pert a _ _ _ _ 1 (u*T) (u*T)); auto.
    apply Rle_trans with ((u * T + u * T) * (T / thr2)). apply Rmult_le_compat_l; nra. right. unfold D0. field. lra. }
  assert (I2 : Rabs (snd (i0_of f1' ex' a) - snd (i0_of f1 ex a)) <= D0).
  { unfold i0_of, cdivr; simpl.
    replace (snd f1' - fst ex') with (snd f1' + -1 * fst ex') by ring. replace (snd f1 - fst ex) with (snd f1 + -1 * fst ex) by ring.
    eapply Rle_trans. apply (div_pert a _ _ _ _ (-1) (u*T) (u*T)); auto.
    apply Rle_trans with ((u * T + u * T) * (T / thr2)). apply Rmult_le_compat_l; nra. right. unfold D0. field. lra. }
  (* the slope times EdE *)
  assert (S : forall e e' i i', Rabs (e' - e) <= u * T -> Rabs (i' - i) <= D0 ->
            Rabs ((e' * T - 2 * i') / (2 * a) * b - (e * T - 2 * i) / (2 * a) * b) <= u * (T * T) / 2 + D0).
  { intros e e' i i' He Hi'.
    replace ((e' * T - 2 * i') / (2 * a) * b - (e * T - 2 * i) / (2 * a) * b)
      with ((((e' - e) * T - 2 * (i' - i)) / a) * (b / 2)) by (field; auto).
    rewrite Rabs_mult. unfold Rdiv at 1. rewrite Rabs_mult, Rabs_inv.
    assert (N : Rabs ((e' - e) * T - 2 * (i' - i)) <= u * T * T + 2 * D0).
    { eapply Rle_trans. apply Rabs_triang. rewrite Rabs_Ropp, !Rabs_mult, (Rabs_right T), (Rabs_right 2) by lra.
      pose proof (Rabs_pos (e' - e)). nra. }
    assert (Hb2 : Rabs (b / 2) <= thr2 / T / 2).
    { unfold Rdiv at 1. rewrite Rabs_mult, (Rabs_right (/ 2)) by lra. lra. }
    assert (0 <= D0) by (unfold D0; apply Rmult_le_pos; [nra | left; apply Rinv_0_lt_compat; lra]).
    apply Rle_trans with ((u * T * T + 2 * D0) * (T / thr2) * (thr2 / T / 2)).
    - apply Rmult_le_compat; try apply Rabs_pos; auto.
      apply Rmult_le_pos. apply Rabs_pos. left. apply Rinv_0_lt_compat, Rabs_pos_lt; auto.
      apply Rmult_le_compat; try apply Rabs_pos; auto. left. apply Rinv_0_lt_compat, Rabs_pos_lt; auto.
    - right. field. split; lra. }
  assert (E : u * (T * T) * (4 / thr2 + 1 / 2) = D0 + (u * (T * T) / 2 + D0)) by (unfold D0; field; lra).
  rewrite E. unfold case2_of. fold (i0_of f1' ex' a) (i0_of f1 ex a).
  unfold cdivr, csub, cadd, cscal; simpl. split.
  - match goal with |- Rabs (?x' + ?s' - (?x + ?s)) <= _ => replace (x' + s' - (x + s)) with ((x' - x) + (s' - s)) by ring end.
    eapply Rle_trans. apply Rabs_triang. apply Rplus_le_compat. exact I1. apply S; auto.
  - match goal with |- Rabs (?x' + ?s' - (?x + ?s)) <= _ => replace (x' + s' - (x + s)) with ((x' - x) + (s' - s)) by ring end.
    eapply Rle_trans. apply Rabs_triang. apply Rplus_le_compat. exact I2. apply S; auto.
Qed.
