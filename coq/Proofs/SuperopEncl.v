(* Enclosure for the C15 model (produced by paramcoq, checked by the kernel): every function of
   Model/Superop.v evaluated on the interval instance encloses its value on the real instance, so an
   "agree" verdict of the in-Coq comparison bounds the distance between the implementation's numbers
   and the real-valued model the theorems of Properties/C15.v are about.                          *)
From Coq Require Import ZArith Reals List.
From Param Require Import Param.
From FF Require Import Base.Ops Inst.RInst Inst.IInst Inst.Param Model.Numeric Model.Superop.
Import ListNotations.

Parametricity Recursive liouville_stack.
Parametricity Recursive liouville_to_choi.
Parametricity Recursive projected_choi.
Parametricity Recursive liouville_is_CP.
Parametricity Recursive liouville_is_cCP.
Parametricity Recursive liouville_is_CP_stack.
Parametricity Recursive liouville_is_cCP_stack.
Parametricity Recursive ggm_basis.
Parametricity Recursive basis_atol.

Definition liouville_stack_enclosure :=
  liouville_stack_R PP.M.I.type R PP.TR (option bool) bool PP.BR IOP RO IOP_RO.
Definition liouville_to_choi_enclosure :=
  liouville_to_choi_R PP.M.I.type R PP.TR (option bool) bool PP.BR IOP RO IOP_RO.
Definition projected_choi_enclosure :=
  projected_choi_R PP.M.I.type R PP.TR (option bool) bool PP.BR IOP RO IOP_RO.
Definition liouville_is_CP_enclosure :=
  liouville_is_CP_R PP.M.I.type R PP.TR (option bool) bool PP.BR IOP RO IOP_RO.
Definition liouville_is_cCP_enclosure :=
  liouville_is_cCP_R PP.M.I.type R PP.TR (option bool) bool PP.BR IOP RO IOP_RO.
Definition ggm_basis_enclosure :=
  ggm_basis_R PP.M.I.type R PP.TR (option bool) bool PP.BR IOP RO IOP_RO.
Definition liouville_stack_enclosure_big :=
  liouville_stack_R PB.M.I.type R PB.TR (option bool) bool PB.BR IOB RO IOB_RO.
