(* C13 / C01 with ARBITRARY valid eigen-decompositions (uses agent-c03's Proofs/EigIndep.v):
   every sub-segment of a split / merge, every segment around an inserted zero-duration segment and every segment of a
   pulse whose operators were re-listed may carry ANY unitary diagonalisation (V', ev') of the same Hamiltonian
   (same_H: V diag(ev) V^dagger = V' diag(ev') V'^dagger, both unitary; degenerate spectra, other orderings, other
   phases included) -- what numpy's eigh happens to return is irrelevant.                                         *)
From Coq Require Import ZArith Reals Lra Lia List Setoid Morphisms Permutation.
From Coquelicot Require Import Coquelicot.
From FF Require Import Base.Ops Inst.RInst Base.RAlg Model.Numeric Model.Atomic Proofs.AtomicAlg Proofs.Atomic Proofs.EigIndep.
From FF Require Import Proofs.Foi Proofs.CMBase Proofs.CMIntegral Proofs.Invariance.
Import ListNotations.
Local Open Scope R_scope.

Section EigAny.
Variable d : nat.

(* one step: my closed formula is C03's step entry for singleton lists *)
Lemma step_entry_eig_indep thr ev V ev' V' Q Q' tg dt w s N Cm :
  EigIndep.same_H d ev V ev' V' -> feq d (toF Q) (toF Q') ->
  CMBase.step_entry d (foi_entry RO thr) ev V Q tg dt w s N Cm =
  CMBase.step_entry d (foi_entry RO thr) ev' V' Q' tg dt w s N Cm.
Proof.
  intros HS HQ.
  pose proof (EigIndep.step_indep d thr [w] [Cm] [N] 0%nat 0%nat 0%nat ev V ev' V' Q Q' tg dt [s]) as H.
  unfold Atomic.step_entry in H.
  rewrite !(cm_step_entry d thr) in H by (simpl; lia).
  apply H; auto; simpl; lia.
Qed.

(* segment lists that agree up to the choice of the decomposition *)
Definition seg_same (sg sg' : seg) : Prop :=
  let '(ev, V, dt, s) := sg in let '(ev', V', dt', s') := sg' in
  EigIndep.same_H d ev V ev' V' /\ dt' = dt /\ s' = s.

Lemma entry_segs_eig_indep thr w N Cm : forall segs segs', Forall2 seg_same segs segs' ->
  forall Q Q' t, feq d (toF Q) (toF Q') ->
  entry_segs d (foi_entry RO thr) segs Q t w N Cm = entry_segs d (foi_entry RO thr) segs' Q' t w N Cm.
Proof.
  induction 1 as [|[[[ev V] dt] s] [[[ev' V'] dt'] s'] r r' [HS [-> ->]] Hr IH]; intros Q Q' t HQ; [reflexivity|].
  simpl. rewrite (step_entry_eig_indep thr ev V ev' V' Q Q') by auto. f_equal.
  apply IH. rewrite !toF_mmul. rewrite HQ. rewrite (EigIndep.segprop_indep d ev V ev' V' dt HS). reflexivity.
Qed.

(* whole pulses *)
Definition fseg_same (p p' : fseg) : Prop :=
  EigIndep.same_H d (fs_ev p) (fs_V p) (fs_ev p') (fs_V p') /\ fs_dt p' = fs_dt p /\ fs_nc p' = fs_nc p.
Definition pulse_same (P P' : list fseg) : Prop := Forall2 fseg_same P P'.

Lemma pulse_same_segs j P P' : pulse_same P P' -> Forall2 seg_same (map (fs_seg j) P) (map (fs_seg j) P').
Proof.
  induction 1 as [|p p' r r' [HS [Hd Hn]] Hr IH]; simpl; constructor; auto.
  unfold fs_seg, seg_same. rewrite Hd, Hn. auto.
Qed.

(* the control matrix does not depend on which valid decomposition each segment carries *)
Theorem cm_pulse_eig_independent thr P P' om bs ns : pulse_same P P' ->
  cm_pulse d thr P om bs ns = cm_pulse d thr P' om bs ns.
Proof.
  intros H. apply (a3_ext (length ns) (length bs) (length om)); try apply cm_pulse_shaped.
  intros j k o Hj Hk Ho. rewrite !cm_pulse_entry by auto.
  apply entry_segs_eig_indep. apply pulse_same_segs; auto. reflexivity.
Qed.

Lemma pulse_same_app P1 P1' P2 P2' : pulse_same P1 P1' -> pulse_same P2 P2' -> pulse_same (P1 ++ P2) (P1' ++ P2').
Proof. apply Forall2_app. Qed.

(* ---- split / merge with arbitrary decompositions of the parts and of every other segment ---- *)
Lemma split_pulse_same P1 P1' P2 P2' ev V a b ncg ev1 V1 ev2 V2 :
  pulse_same P1 P1' -> pulse_same P2 P2' ->
  EigIndep.same_H d ev V ev1 V1 -> EigIndep.same_H d ev V ev2 V2 ->
  pulse_same (P1 ++ (ev, V, a, ncg) :: (ev, V, b, ncg) :: P2) (P1' ++ (ev1, V1, a, ncg) :: (ev2, V2, b, ncg) :: P2').
Proof.
  intros H1 H2 S1 S2. apply pulse_same_app; auto.
  constructor; [split; [exact S1 | split; reflexivity]|].
  constructor; [split; [exact S2 | split; reflexivity]|]. exact H2.
Qed.

Lemma same_H_funitary ev V ev' V' : EigIndep.same_H d ev V ev' V' -> funitary d (toF V).
Proof. intros [H _]. exact H. Qed.

Theorem split_segment_cm_any_eig thr P1 P1' P2 P2' ev V a b ncg ev1 V1 ev2 V2 om bs ns j k o :
  0 <= thr -> (j < length ns)%nat -> (k < length bs)%nat -> (o < length om)%nat ->
  pulse_same P1 P1' -> pulse_same P2 P2' ->
  EigIndep.same_H d ev V ev1 V1 -> EigIndep.same_H d ev V ev2 V2 ->
  all_masked d thr (vg RO om o) ev (a + b) -> all_masked d thr (vg RO om o) ev a -> all_masked d thr (vg RO om o) ev b ->
  a3get RO (cm_pulse d thr (P1 ++ (ev, V, a + b, ncg) :: P2) om bs ns) j k o =
  a3get RO (cm_pulse d thr (P1' ++ (ev1, V1, a, ncg) :: (ev2, V2, b, ncg) :: P2') om bs ns) j k o.
Proof.
  intros H0 Hj Hk Ho HP1 HP2 S1 S2 M0 M1 M2.
  rewrite <- (cm_pulse_eig_independent thr _ _ om bs ns (split_pulse_same P1 P1' P2 P2' ev V a b ncg ev1 V1 ev2 V2 HP1 HP2 S1 S2)).
  apply split_segment_cm_exact; auto.
  destruct (same_H_funitary _ _ _ _ S1) as [HV _]. exact HV.
Qed.

Theorem split_segment_cm_bound_any_eig thr P1 P1' P2 P2' ev V a b ncg ev1 V1 ev2 V2 om bs ns j k o :
  0 <= thr -> (j < length ns)%nat -> (k < length bs)%nat -> (o < length om)%nat ->
  pulse_same P1 P1' -> pulse_same P2 P2' ->
  EigIndep.same_H d ev V ev1 V1 -> EigIndep.same_H d ev V ev2 V2 ->
  Cmod (csub' (a3get RO (cm_pulse d thr (P1 ++ (ev, V, a + b, ncg) :: P2) om bs ns) j k o)
              (a3get RO (cm_pulse d thr (P1' ++ (ev1, V1, a, ncg) :: (ev2, V2, b, ncg) :: P2') om bs ns) j k o))
  <= Rabs (vg RO ncg j) * taylor_eps thr * (Rabs (a + b) + Rabs a + Rabs b)
     * step_weight d V (prop_before d P1) (nthm ns j) (nthm bs k).
Proof.
  intros H0 Hj Hk Ho HP1 HP2 S1 S2.
  rewrite <- (cm_pulse_eig_independent thr _ _ om bs ns (split_pulse_same P1 P1' P2 P2' ev V a b ncg ev1 V1 ev2 V2 HP1 HP2 S1 S2)).
  apply split_segment_cm_bound; auto.
  destruct (same_H_funitary _ _ _ _ S1) as [HV _]. exact HV.
Qed.

(* filter function and trapezoidal integrals *)
Theorem split_segment_ff_any_eig thr P1 P1' P2 P2' ev V a b ncg ev1 V1 ev2 V2 om bs ns j j' o :
  0 <= thr -> (j < length ns)%nat -> (j' < length ns)%nat -> (o < length om)%nat ->
  pulse_same P1 P1' -> pulse_same P2 P2' ->
  EigIndep.same_H d ev V ev1 V1 -> EigIndep.same_H d ev V ev2 V2 -> split_masked d thr om ev a b o ->
  a3get RO (filter_function RO (length ns) (length bs) (length om)
              (cm_pulse d thr (P1 ++ (ev, V, a + b, ncg) :: P2) om bs ns)) j j' o =
  a3get RO (filter_function RO (length ns) (length bs) (length om)
              (cm_pulse d thr (P1' ++ (ev1, V1, a, ncg) :: (ev2, V2, b, ncg) :: P2') om bs ns)) j j' o.
Proof.
  intros H0 Hj Hj' Ho HP1 HP2 S1 S2 HM.
  rewrite <- (cm_pulse_eig_independent thr _ _ om bs ns (split_pulse_same P1 P1' P2 P2' ev V a b ncg ev1 V1 ev2 V2 HP1 HP2 S1 S2)).
  apply split_segment_ff; auto.
  destruct (same_H_funitary _ _ _ _ S1) as [HV _]. exact HV.
Qed.

Theorem split_segment_integral_any_eig thr P1 P1' P2 P2' ev V a b ncg ev1 V1 ev2 V2 om bs ns (phi : Arr3 (T:=R) -> nat -> R) :
  0 <= thr -> column_local (length ns) (length bs) (length om) phi ->
  pulse_same P1 P1' -> pulse_same P2 P2' ->
  EigIndep.same_H d ev V ev1 V1 -> EigIndep.same_H d ev V ev2 V2 ->
  (forall o, (o < length om)%nat -> split_masked d thr om ev a b o) ->
  trapz RO (build (length om) (phi (cm_pulse d thr (P1 ++ (ev, V, a + b, ncg) :: P2) om bs ns))) om =
  trapz RO (build (length om) (phi (cm_pulse d thr (P1' ++ (ev1, V1, a, ncg) :: (ev2, V2, b, ncg) :: P2') om bs ns))) om.
Proof.
  intros H0 Hphi HP1 HP2 S1 S2 HM.
  rewrite <- (cm_pulse_eig_independent thr _ _ om bs ns (split_pulse_same P1 P1' P2 P2' ev V a b ncg ev1 V1 ev2 V2 HP1 HP2 S1 S2)).
  apply split_segment_integral; auto.
  destruct (same_H_funitary _ _ _ _ S1) as [HV _]. exact HV.
Qed.

(* ---- zero-duration insertion ---- *)
Theorem zero_duration_insert_cm_any_eig thr P1 P1' P2 P2' ev V ncg om bs ns :
  pulse_same P1 P1' -> pulse_same P2 P2' -> feq d (fmul d (toF V) (fadj (toF V))) fid ->
  cm_pulse d thr (P1 ++ (ev, V, 0, ncg) :: P2) om bs ns = cm_pulse d thr (P1' ++ P2') om bs ns.
Proof.
  intros HP1 HP2 HV. rewrite zero_duration_insert_cm by auto.
  apply cm_pulse_eig_independent. apply pulse_same_app; auto.
Qed.

(* ---- the package's call (parallel lists), any decomposition; operator order ---- *)
Theorem cm_eig_independent_model thr evs Vs evs' Vs' dts om bs ns nc j k o :
  (j < length ns)%nat -> (k < length bs)%nat -> (o < length om)%nat ->
  EigIndep.same_segs d evs Vs evs' Vs' ->
  a3get RO (control_matrix_from_scratch RO d thr evs Vs (propagators RO d evs Vs dts) om bs ns nc dts (times RO dts)) j k o =
  a3get RO (control_matrix_from_scratch RO d thr evs' Vs' (propagators RO d evs' Vs' dts) om bs ns nc dts (times RO dts)) j k o.
Proof.
  intros Hj Hk Ho HS.
  exact (EigIndep.cm_eig_independent d thr om bs ns (mkPiece evs Vs dts nc) (mkPiece evs' Vs' dts nc) j k o Hj Hk Ho HS eq_refl eq_refl).
Qed.

Theorem cm_array_eig_independent thr evs Vs evs' Vs' dts om bs ns nc : EigIndep.same_segs d evs Vs evs' Vs' ->
  control_matrix_from_scratch RO d thr evs Vs (propagators RO d evs Vs dts) om bs ns nc dts (times RO dts) =
  control_matrix_from_scratch RO d thr evs' Vs' (propagators RO d evs' Vs' dts) om bs ns nc dts (times RO dts).
Proof.
  intros HS. apply (a3_ext (length ns) (length bs) (length om)); try apply cm_shaped.
  intros. apply cm_eig_independent_model; auto.
Qed.

Theorem ff_eig_independent thr evs Vs evs' Vs' dts om bs ns nc : EigIndep.same_segs d evs Vs evs' Vs' ->
  filter_function RO (length ns) (length bs) (length om)
    (control_matrix_from_scratch RO d thr evs Vs (propagators RO d evs Vs dts) om bs ns nc dts (times RO dts)) =
  filter_function RO (length ns) (length bs) (length om)
    (control_matrix_from_scratch RO d thr evs' Vs' (propagators RO d evs' Vs' dts) om bs ns nc dts (times RO dts)).
Proof. intros HS. rewrite (cm_array_eig_independent thr evs Vs evs' Vs' dts om bs ns nc HS). reflexivity. Qed.

(* re-listing the operators: the control operators only enter through H (hamiltonian_perm: same H, so eigh returns SOME
   valid decomposition of the same matrices), the noise operators permute the rows *)
Theorem cm_perm_rows_any_eig thr evs Vs evs' Vs' om bs ns nc ns' nc' dts :
  length ns = length nc -> length ns' = length nc' ->
  Permutation (combine ns nc) (combine ns' nc') -> EigIndep.same_segs d evs Vs evs' Vs' ->
  exists f : nat -> nat, FinFun.bFun (length ns) f /\ FinFun.bInjective (length ns) f /\
    forall j k o, (j < length ns)%nat -> (k < length bs)%nat -> (o < length om)%nat ->
      a3get RO (control_matrix_from_scratch RO d thr evs' Vs' (propagators RO d evs' Vs' dts) om bs ns' nc' dts (times RO dts)) j k o =
      a3get RO (control_matrix_from_scratch RO d thr evs Vs (propagators RO d evs Vs dts) om bs ns nc dts (times RO dts)) (f j) k o.
Proof.
  intros L L' HP HS.
  destruct (cm_perm_rows d thr evs Vs (propagators RO d evs Vs dts) om bs ns nc ns' nc' dts (times RO dts) L L' HP) as [f [Hf [Hi Hr]]].
  exists f. split; [exact Hf|]. split; [exact Hi|].
  intros j k o Hj Hk Ho. rewrite <- Hr by auto.
  assert (Hlen : length ns' = length ns).
  { apply Permutation_length in HP. rewrite !combine_length, <- L, <- L', !Nat.min_id in HP. auto. }
  symmetry. apply cm_eig_independent_model; auto. rewrite Hlen; auto.
Qed.

(* a sufficient condition in the form checked per case by the harness: both decompositions are unitary and satisfy
   H V = V diag(ev) for the same matrix H *)
Theorem same_H_of_eigenpairs (Hm : fmat) ev V ev' V' :
  funitary d (toF V) -> funitary d (toF V') ->
  feq d (fmul d Hm (toF V)) (fmul d (toF V) (EigIndep.fdiag (fun j => cofr RO (vg RO ev j)))) ->
  feq d (fmul d Hm (toF V')) (fmul d (toF V') (EigIndep.fdiag (fun j => cofr RO (vg RO ev' j)))) ->
  EigIndep.same_H d ev V ev' V'.
Proof.
  intros HV HV' E E'. split; [exact HV|]. split; [exact HV'|].
  assert (K : forall e U, funitary d U -> feq d (fmul d Hm U) (fmul d U (EigIndep.fdiag (fun j => cofr RO (e j)))) ->
              feq d (EigIndep.Hof d U e) Hm).
  { intros e U [_ HU2] EU. unfold EigIndep.Hof. rewrite fmul_assoc, <- EU, <- fmul_assoc, HU2. apply fmul_id_r. }
  unfold EigIndep.evf. rewrite (K _ _ HV E), (K _ _ HV' E'). reflexivity.
Qed.
End EigAny.
