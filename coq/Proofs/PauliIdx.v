(* C16 -- the Pauli index maps agree with the explicitly constructed tensor-product basis, at the level
   of index tuples: element (a_0, .., a_{N-1}) of the N-qubit Pauli basis is sigma_{a_0} x .. x
   sigma_{a_{N-1}} and has linear index ravel [4;..;4] (a_0, .., a_{N-1}). *)
From Coq Require Import ZArith List Arith Lia Bool Permutation.
From FF Require Import Model.Tensor Model.PauliIdx Spec.Kron Proofs.TensorIdx.
Import ListNotations.

(* ------------------------------------------------------------------ equivalent_pauli_basis_elements *)
(* the qubits selected by idx (membership only: order and repetitions in idx are irrelevant) *)
Definition qmask (idx : list Z) (N : nat) : list bool := map (fun i => zmem i idx) (seq 0 N).
Definition count_true (m : list bool) : nat := length (filter (fun b => b) m).
(* tuple of the N-qubit element: the sub-register tuple b on the selected qubits, identity (0) elsewhere *)
Fixpoint embed (m : list bool) (b : list nat) : list nat :=
  match m with
  | [] => []
  | true :: m' => hd 0 b :: embed m' (tl b)
  | false :: m' => 0 :: embed m' b
  end.

Lemma cart_mask m :
  cart (map (fun t : bool => if t then [0; 1; 2; 3] else [0]) m) =
  map (embed m) (indices (repeat 4 (count_true m))).
Proof.
  induction m as [|t m IH]; [reflexivity|].
  destruct t; cbn [map cart].
  - unfold count_true. cbn [filter length repeat indices]. fold (count_true m).
    change (seq 0 4) with [0; 1; 2; 3].
    rewrite IH. cbn [flat_map]. rewrite !map_app, !map_map. cbn [embed hd tl app]. reflexivity.
  - unfold count_true. cbn [filter]. fold (count_true m).
    rewrite IH. cbn [flat_map]. rewrite app_nil_r, !map_map. reflexivity.
Qed.

Theorem equiv_pauli_spec idx N :
  equivalent_pauli idx N =
  map (fun b => ravel (repeat 4 N) (embed (qmask idx N) b)) (indices (repeat 4 (count_true (qmask idx N)))).
Proof.
  unfold equivalent_pauli.
  replace (map (fun i => if zmem i idx then [0; 1; 2; 3] else [0]) (seq 0 N))
    with (map (fun t : bool => if t then [0; 1; 2; 3] else [0]) (qmask idx N))
    by (unfold qmask; rewrite map_map; reflexivity).
  rewrite cart_mask, map_map. reflexivity.
Qed.

(* the N-qubit tuple really is a base-4 tuple of length N, so its digits can be read back *)
Lemma embed_inb m : forall b, inb b (repeat 4 (count_true m)) -> inb (embed m b) (repeat 4 (length m)).
Proof.
  induction m as [|t m IH]; intros b Hb; simpl; [constructor|].
  destruct t.
  - unfold count_true in Hb. simpl in Hb. fold (count_true m) in Hb.
    inversion Hb as [|i d b' s' Hi Hb']; subst. simpl. constructor; auto. apply IH; auto.
  - constructor; [lia|]. apply IH. exact Hb.
Qed.
Theorem equiv_pauli_digits idx N j :
  j < 4 ^ count_true (qmask idx N) ->
  unravel (repeat 4 N) (nth j (equivalent_pauli idx N) 0) =
  embed (qmask idx N) (unravel (repeat 4 (count_true (qmask idx N))) j).
Proof.
  intros Hj. rewrite equiv_pauli_spec.
  assert (Hp : forall k, prodn (repeat 4 k) = 4 ^ k) by (induction k; simpl; auto; rewrite IHk; reflexivity).
  rewrite (nth_indep _ _ (ravel (repeat 4 N) (embed (qmask idx N) [])))
    by (rewrite map_length, indices_length, Hp; auto).
  rewrite (map_nth (fun b => ravel (repeat 4 N) (embed (qmask idx N) b))).
  rewrite nth_indices_unravel by (rewrite Hp; auto).
  apply unravel_ravel.
  assert (HN : length (qmask idx N) = N) by (unfold qmask; rewrite map_length, seq_length; reflexivity).
  assert (Hb : inb (unravel (repeat 4 (count_true (qmask idx N))) j) (repeat 4 (count_true (qmask idx N)))).
  { rewrite <- nth_indices_unravel by (rewrite Hp; auto).
    apply In_indices. apply nth_In. rewrite indices_length, Hp. auto. }
  pose proof (embed_inb (qmask idx N) _ Hb) as H. rewrite HN in H. exact H.
Qed.

(* ------------------------------------------------------------------ remap_pauli_basis_elements *)
Definition permute (ord : list nat) (a : list nat) : list nat := map (fun i => nth i a 0) ord.

Lemma mapM_norm_index N ord : Forall (fun i => i < N) ord ->
  mapM (norm_index N) (map Z.of_nat ord) = Ok ord.
Proof.
  induction 1 as [|i ord Hi H IH]; simpl; auto.
  rewrite IH. unfold norm_index.
  replace ((Z.of_nat i <? - Z.of_nat N) || (Z.of_nat N <=? Z.of_nat i))%Z with false.
  - simpl. rewrite Z.mod_small by lia. rewrite Nat2Z.id. reflexivity.
  - symmetry. apply orb_false_iff. split; [apply Z.ltb_ge|apply Z.leb_gt]; lia.
Qed.

(* element (a_0..a_{N-1}) is mapped to the linear index of (a_{order[0]}, .., a_{order[N-1]}), i.e. of the
   Pauli string whose k-th factor is the old factor order[k] (the convention of tensor_transpose) *)
Theorem remap_pauli_spec N ord :
  Permutation ord (seq 0 N) ->
  remap_pauli (map Z.of_nat ord) N =
  Ok (map (fun a => ravel (repeat 4 N) (permute ord a)) (indices (repeat 4 N))).
Proof.
  intros Hp. unfold remap_pauli.
  rewrite mapM_norm_index.
  - simpl. rewrite map_length, (Permutation_length Hp), seq_length, Nat.eqb_refl. reflexivity.
  - apply Forall_forall. intros i Hi. apply (Permutation_in _ Hp) in Hi. apply in_seq in Hi. lia.
Qed.

Lemma permute_inb N ord a : Forall (fun i => i < N) ord -> inb a (repeat 4 N) ->
  inb (permute ord a) (repeat 4 (length ord)).
Proof.
  intros Ho Ha. induction Ho as [|i ord Hi Ho IH]; simpl; constructor; auto.
  assert (G : forall k s, inb s (repeat 4 k) -> forall j, j < k -> nth j s 0 < 4).
  { clear. induction k as [|k IH]; intros s Hs j Hj; [lia|].
    inversion Hs as [|x d s' r' Hx Hs']; subst. destruct j; simpl; auto. apply IH; auto. lia. }
  apply (G N); auto.
Qed.
Lemma permute_inj N ord a b : Permutation ord (seq 0 N) -> length a = N -> length b = N ->
  permute ord a = permute ord b -> a = b.
Proof.
  intros Hp Ha Hb E. apply (nth_ext _ _ 0 0); [lia|].
  intros j Hj. assert (Hin : In j ord) by (apply (Permutation_in _ (Permutation_sym Hp)); apply in_seq; lia).
  unfold permute in E.
  assert (G : forall l, In j l -> map (fun i => nth i a 0) l = map (fun i => nth i b 0) l -> nth j a 0 = nth j b 0).
  { induction l as [|x l IH]; intros Hl El; [destruct Hl|].
    simpl in El. injection El as E1 E2. destruct Hl as [Hx|Hx]; subst; auto. }
  eapply G; eauto.
Qed.

Lemma NoDup_map_inj_in {A B} (f : A -> B) l :
  (forall x y, In x l -> In y l -> f x = f y -> x = y) -> NoDup l -> NoDup (map f l).
Proof.
  induction l as [|a l IH]; intros Hinj Hnd; simpl; [constructor|].
  inversion Hnd as [|? ? Hna Hnd']; subst. constructor.
  - intros Hin. apply in_map_iff in Hin. destruct Hin as [y [E Hy]].
    assert (y = a) by (apply Hinj; [right; auto|left; auto|auto]). subst. contradiction.
  - apply IH; auto. intros x y Hx Hy. apply Hinj; right; auto.
Qed.

(* for a permutation of the qubits the index map is a permutation of range(4^N) *)
Theorem remap_pauli_perm N ord r :
  Permutation ord (seq 0 N) -> remap_pauli (map Z.of_nat ord) N = Ok r ->
  Permutation r (seq 0 (4 ^ N)).
Proof.
  intros Hp Hr. rewrite remap_pauli_spec in Hr by auto. injection Hr as <-.
  assert (Hpr : prodn (repeat 4 N) = 4 ^ N) by (clear; induction N; simpl; auto; rewrite IHN; reflexivity).
  assert (Hlen : length ord = N) by (rewrite (Permutation_length Hp), seq_length; reflexivity).
  assert (Hlt : Forall (fun i => i < N) ord).
  { apply Forall_forall. intros i Hi. apply (Permutation_in _ Hp) in Hi. apply in_seq in Hi. lia. }
  rewrite <- Hpr, <- ravel_indices.
  rewrite <- (map_map (permute ord) (ravel (repeat 4 N))).
  apply Permutation_map.
  assert (Hnd : NoDup (map (permute ord) (indices (repeat 4 N)))).
  { apply NoDup_map_inj_in; [|apply NoDup_indices].
    intros x y Hx Hy E. apply In_indices in Hx, Hy.
    eapply (permute_inj N); eauto; [apply inb_length in Hx|apply inb_length in Hy];
      rewrite repeat_length in *; auto. }
  assert (Hincl : incl (map (permute ord) (indices (repeat 4 N))) (indices (repeat 4 N))).
  { intros x Hx. apply in_map_iff in Hx. destruct Hx as [y [<- Hy]]. apply In_indices in Hy.
    apply In_indices. pose proof (permute_inb N ord y Hlt Hy) as Hq. rewrite Hlen in Hq. exact Hq. }
  apply NoDup_Permutation_bis; auto.
  rewrite map_length. lia.
Qed.

Example remap_pauli_example :
  remap_pauli [1; 0]%Z 2 = Ok [0; 4; 8; 12; 1; 5; 9; 13; 2; 6; 10; 14; 3; 7; 11; 15].
Proof. reflexivity. Qed.
Example equiv_pauli_example : equivalent_pauli [2; 0]%Z 3 = [0; 1; 2; 3; 16; 17; 18; 19; 32; 33; 34; 35; 48; 49; 50; 51].
Proof. reflexivity. Qed.
