(* C14 -- completeness relation of Basis.ggm(d) for every d:
     sum_idx Lambda_idx[a,b] conj(Lambda_idx[c,e]) = delta_ac delta_be.
   Off-diagonal part: the index bijection; diagonal part: the telescoping sum of 1/(l(l+1)). *)
From Coq Require Import ZArith Reals List Lra Lia Ring Arith Bool.
From FF Require Import Base.Ops Inst.RInst Base.RAlg Model.BasisModel Proofs.BasisAlg Proofs.BasisGGMIdx Proofs.BasisGGM.
Import ListNotations.
Local Open Scope R_scope.

(* value pattern of the l-th diagonal element as a real number *)
Definition vR (l a : nat) : R := if (a <? l)%nat then 1 else if (a =? l)%nat then - INR l else 0.

(* T(n,a,c) = sum_{l=1}^{n-1} v_l(a) v_l(c) / (l(l+1)) = delta_ac - 1/n for a, c < n, and 0 otherwise *)
Lemma diag_telescope n a c : (1 <= n)%nat ->
  sumn' (n - 1) (fun l' => vR (S l') a * vR (S l') c / (INR (S l') * (INR (S l') + 1))) =
  if ((a <? n) && (c <? n))%bool then (if (a =? c)%nat then 1 else 0) - 1 / INR n else 0.
Proof.
  intros Hn. induction n. lia. destruct n.
  - simpl. destruct (Nat.ltb_spec a 1); destruct (Nat.ltb_spec c 1); simpl; try lra.
    replace a with O by lia. replace c with O by lia. simpl. lra.
  - specialize (IHn ltac:(lia)). replace (S (S n) - 1)%nat with (S (S n - 1)) by lia.
    change (sumn' (S (S n - 1)) ?f) with (sumn' (S n - 1) f + f (S n - 1)%nat). rewrite IHn.
    replace (S (S n - 1)) with (S n) by lia. unfold vR.
    assert (Hp : 0 < INR (S n)) by (apply lt_0_INR; lia).
    rewrite (S_INR (S n)).
    destruct (Nat.ltb_spec a (S n)); destruct (Nat.ltb_spec c (S n)); destruct (Nat.ltb_spec a (S (S n)));
      destruct (Nat.ltb_spec c (S (S n))); try lia; simpl andb; cbv iota;
      destruct (Nat.eqb_spec a (S n)); destruct (Nat.eqb_spec c (S n)); try lia;
      destruct (Nat.eqb_spec a c); try lia; field; lra.
Qed.

Section Complete.
Variable d : nat.
Hypothesis Hd : (0 < d)%nat.
Let ns := n_sym d.

Lemma fE_val j k a b : fE j k a b = if ((a =? j) && (b =? k))%bool then 1c else 0c.
Proof. reflexivity. Qed.

(* the symmetric and antisymmetric contributions of one pair *)
Lemma sym_asym_pair m a b c e : (m < ns)%nat -> (a < d)%nat -> (b < d)%nat -> (c < d)%nat -> (e < d)%nat ->
  cadd' (cmul' (ggm_C d (S m) a b) (cconj' (ggm_C d (S m) c e)))
        (cmul' (ggm_C d (ns + 1 + m) a b) (cconj' (ggm_C d (ns + 1 + m) c e))) =
  cadd' (cmul' (fE (ggm_j d m) (ggm_k d m) a b) (fE (ggm_j d m) (ggm_k d m) c e))
        (cmul' (fE (ggm_k d m) (ggm_j d m) a b) (fE (ggm_k d m) (ggm_j d m) c e)).
Proof.
  intros Hm Ha Hb Hc He. rewrite !ggm_C_sym, !ggm_C_asym by auto. rewrite !fE_val.
  destruct ((a =? ggm_j d m) && (b =? ggm_k d m))%bool; destruct ((a =? ggm_k d m) && (b =? ggm_j d m))%bool;
  destruct ((c =? ggm_j d m) && (e =? ggm_k d m))%bool; destruct ((c =? ggm_k d m) && (e =? ggm_j d m))%bool;
  generalize s2_sq; generalize s2; intros r Hr; apply c_eq; csimp; nra.
Qed.

(* sum over the pairs: the bijection picks exactly one *)
Lemma sum_pairs_upper a b c e : (a < d)%nat -> (b < d)%nat ->
  csumn' ns (fun m => cmul' (fE (ggm_j d m) (ggm_k d m) a b) (fE (ggm_j d m) (ggm_k d m) c e)) =
  if (a <? b)%nat then cmul' (delta a c) (delta b e) else 0c.
Proof.
  intros Ha Hb. destruct (Nat.ltb_spec a b) as [Hab|Hab].
  - destruct (ggm_pair_surj d a b Hab Hb) as (Hm0 & Hj0 & Hk0). set (m0 := (off d a + (b - a - 1))%nat) in *.
    rewrite (csumn_ext ns _ (fun m => if Nat.eqb m0 m then cmul' (delta a c) (delta b e) else 0c)).
    apply (csumn_delta ns m0 (fun _ => cmul' (delta a c) (delta b e))); auto.
    intros m Hm. destruct (Nat.eqb_spec m0 m) as [<-|Hne].
    + rewrite Hj0, Hk0. rewrite !fE_val, !Nat.eqb_refl. simpl andb. cbv iota. unfold delta.
      rewrite (Nat.eqb_sym c a), (Nat.eqb_sym e b).
      destruct (Nat.eqb a c); destruct (Nat.eqb b e); simpl; apply c_eq; csimp; ring.
    + rewrite fE_val. destruct (Nat.eqb_spec a (ggm_j d m)); destruct (Nat.eqb_spec b (ggm_k d m)); simpl; try ring.
      exfalso. apply Hne. apply (ggm_pair_inj d); auto; congruence.
  - rewrite (csumn_ext ns _ (fun _ => 0c)). apply csumn_0.
    intros m Hm. destruct (ggm_pair_lt d m Hm). rewrite fE_val.
    destruct (Nat.eqb_spec a (ggm_j d m)); destruct (Nat.eqb_spec b (ggm_k d m)); simpl; try ring. lia.
Qed.

Lemma sum_pairs_lower a b c e : (a < d)%nat -> (b < d)%nat ->
  csumn' ns (fun m => cmul' (fE (ggm_k d m) (ggm_j d m) a b) (fE (ggm_k d m) (ggm_j d m) c e)) =
  if (b <? a)%nat then cmul' (delta a c) (delta b e) else 0c.
Proof.
  intros Ha Hb.
  rewrite (csumn_ext ns _ (fun m => cmul' (fE (ggm_j d m) (ggm_k d m) b a) (fE (ggm_j d m) (ggm_k d m) e c))).
  2:{ intros m _. rewrite !fE_val. rewrite (andb_comm (a =? _)%nat), (andb_comm (c =? _)%nat). reflexivity. }
  rewrite sum_pairs_upper by auto. destruct (b <? a)%nat; ring.
Qed.

Lemma cl_sq_inv l : (1 <= l)%nat -> cl l * cl l = 1 / (INR l * (INR l + 1)).
Proof.
  intros Hl. unfold cl.
  assert (Hp : 0 < INR (l * (l + 1))) by (apply lt_0_INR; nia).
  assert (Hs : sqrt (INR (l * (l + 1))) <> 0) by (intros E; generalize (sqrt_lt_R0 _ Hp); lra).
  replace (1 / sqrt (INR (l * (l + 1))) * (1 / sqrt (INR (l * (l + 1)))))
    with (1 / (sqrt (INR (l * (l + 1))) * sqrt (INR (l * (l + 1))))) by (field; auto).
  rewrite sqrt_sqrt by lra. rewrite mult_INR, plus_INR. simpl INR. reflexivity.
Qed.

Lemma diag_val_vR l a : ggm_diag_val RO l a = vR l a.
Proof. apply diag_val_R. Qed.

Theorem ggm_complete : basis_complete d (d * d) (ggm_C d).
Proof.
  intros a b c e Ha Hb Hc He.
  rewrite (dd_count d Hd). fold ns.
  replace (1 + 2 * ns + (d - 1))%nat with (((1 + ns) + ns) + (d - 1))%nat by lia.
  rewrite !csumn_app.
  (* identity *)
  assert (P0 : csumn' 1 (fun k => cmul' (ggm_C d k a b) (cconj' (ggm_C d k c e))) =
               if (Nat.eqb a b && Nat.eqb c e)%bool then (1 / INR d, 0) else 0c).
  { simpl csumn. rewrite !ggm_C_id by auto.
    assert (Hp : 0 < INR d) by (apply lt_0_INR; auto).
    assert (Hs : sqrt (INR d) * sqrt (INR d) = INR d) by (apply sqrt_sqrt; lra).
    assert (Hs0 : sqrt (INR d) <> 0) by (intros E; rewrite E in Hs; lra).
    destruct (Nat.eqb a b); destruct (Nat.eqb c e); simpl; apply c_eq; csimp; try ring.
    replace (1 / INR d) with (1 / (sqrt (INR d) * sqrt (INR d))) by (rewrite Hs; reflexivity). unfold Rdiv. rewrite Rinv_mult. ring. }
  (* symmetric + antisymmetric *)
  assert (PSA : cadd' (csumn' ns (fun k => cmul' (ggm_C d (1 + k) a b) (cconj' (ggm_C d (1 + k) c e))))
                      (csumn' ns (fun k => cmul' (ggm_C d (1 + ns + k) a b) (cconj' (ggm_C d (1 + ns + k) c e)))) =
                if Nat.eqb a b then 0c else cmul' (delta a c) (delta b e)).
  { rewrite <- csumn_add.
    rewrite (csumn_ext ns _ (fun m => cadd' (cmul' (fE (ggm_j d m) (ggm_k d m) a b) (fE (ggm_j d m) (ggm_k d m) c e))
                                           (cmul' (fE (ggm_k d m) (ggm_j d m) a b) (fE (ggm_k d m) (ggm_j d m) c e)))).
    2:{ intros m Hm. replace (1 + ns + m)%nat with (ns + 1 + m)%nat by lia. apply sym_asym_pair; auto. }
    rewrite csumn_add, sum_pairs_upper, sum_pairs_lower by auto.
    destruct (Nat.ltb_spec a b); destruct (Nat.ltb_spec b a); destruct (Nat.eqb_spec a b); try lia; ring. }
  (* diagonal family *)
  assert (PD : csumn' (d - 1) (fun k => cmul' (ggm_C d (1 + ns + ns + k) a b) (cconj' (ggm_C d (1 + ns + ns + k) c e))) =
               if (Nat.eqb a b && Nat.eqb c e)%bool then ((if Nat.eqb a c then 1 else 0) - 1 / INR d, 0) else 0c).
  { rewrite (csumn_ext (d - 1) _ (fun l' => if (Nat.eqb a b && Nat.eqb c e)%bool
               then cofr RO (vR (S l') a * vR (S l') c / (INR (S l') * (INR (S l') + 1))) else 0c)).
    2:{ intros l' Hl'. replace (1 + ns + ns + l')%nat with (2 * ns + S l')%nat by lia.
        rewrite !ggm_C_diag by (auto; lia). fold (cl (S l')). rewrite !diag_val_vR.
        destruct (Nat.eqb a b); destruct (Nat.eqb c e); simpl andb; cbv iota; try (apply c_eq; csimp; ring).
        pose proof (cl_sq_inv (S l') ltac:(lia)) as Hc2.
        assert (Hq : INR (S l') * (INR (S l') + 1) <> 0).
        { assert (0 < INR (S l')) by (apply lt_0_INR; lia). nra. }
        revert Hc2 Hq. generalize (INR (S l') * (INR (S l') + 1)). generalize (cl (S l')). intros r q Hr Hq.
        generalize (vR (S l') a) (vR (S l') c). intros va vc.
        apply c_eq; csimp; try ring.
        transitivity (r * r * (va * vc)). ring. rewrite Hr. field. auto. }
    destruct (Nat.eqb a b && Nat.eqb c e)%bool eqn:E.
    - rewrite csumn_cofr, (diag_telescope d a c) by lia.
      replace (a <? d)%nat with true by (symmetry; apply Nat.ltb_lt; auto).
      replace (c <? d)%nat with true by (symmetry; apply Nat.ltb_lt; auto). reflexivity.
    - apply csumn_0. }
  rewrite P0, PD.
  match goal with |- cadd' (cadd' (cadd' ?x ?s) ?t) ?dd = _ => rewrite <- (cadd_assoc x s t) end.
  rewrite PSA. unfold delta.
  destruct (Nat.eqb_spec a b); destruct (Nat.eqb_spec c e); simpl andb; cbv iota.
  - subst b e. destruct (Nat.eqb a c); apply c_eq; csimp; ring.
  - subst b. destruct (Nat.eqb_spec a c); destruct (Nat.eqb_spec a e); try lia; apply c_eq; csimp; ring.
  - destruct (Nat.eqb a c); destruct (Nat.eqb b e); apply c_eq; csimp; ring.
  - destruct (Nat.eqb a c); destruct (Nat.eqb b e); apply c_eq; csimp; ring.
Qed.

End Complete.
