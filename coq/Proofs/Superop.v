(* C15: the Liouville representation with respect to an orthonormal Hermitian basis is real,
   maps 1 to 1, is multiplicative and orthogonal; function-matrix level first, then the
   refinement to the list model of Model/Superop.v and Model/Numeric.v.                       *)
From Coq Require Import ZArith Reals Lra Lia List Bool Morphisms Setoid.
From FF Require Import Base.Ops Inst.RInst Base.RAlg Model.Numeric Model.Superop Proofs.SuperopAlg.
Import ListNotations.
Local Open Scope R_scope.

(* ============================ function-matrix level ============================ *)
Section Liou.
Variable d n : nat.
Variable Cb : nat -> fmat.

Definition b_herm : Prop := forall i, (i < n)%nat -> fherm d (Cb i).
Definition b_orth : Prop := forall i j, (i < n)%nat -> (j < n)%nat ->
  ftr d (fmul d (Cb i) (Cb j)) = if Nat.eqb i j then 1c else 0c.
(* completeness relation: sum_k tr(C_k X) C_k = X *)
Definition b_complete : Prop := forall X, feq d (flin n (fun k => ftr d (fmul d (Cb k) X)) Cb) X.

(* U^dagger A U, associated as in numeric._transform_by_unitary *)
Definition conjU (U A : fmat) : fmat := fmul d (fadj U) (fmul d A U).
(* L(U)_ij = tr(U^dagger C_i U C_j) as a complex number *)
Definition Lf (U : fmat) (i j : nat) : Cx := ftr d (fmul d (conjU U (Cb i)) (Cb j)).

#[local] Instance conjU_proper : Proper (feq d ==> feq d ==> feq d) conjU.
Proof. intros U U' HU A A' HA. unfold conjU. rewrite HU, HA. reflexivity. Qed.

Lemma Lf_ext U U' i j : feq d U U' -> Lf U i j = Lf U' i j.
Proof. intros H. unfold Lf. rewrite H. reflexivity. Qed.

(* the docstring formula: L_ij = tr(C_i U C_j U^dagger) *)
Lemma Lf_entries U i j : Lf U i j = ftr d (fmul d (Cb i) (fmul d U (fmul d (Cb j) (fadj U)))).
Proof.
  unfold Lf, conjU.
  rewrite <- !fmul_assoc.
  (* tr(U^dag (C_i (U C_j))) = tr(C_i (U (C_j U^dag))) *)
  rewrite ftr_cyclic. rewrite <- !fmul_assoc. reflexivity.
Qed.

Lemma conjU_adj U A : feq d (fadj (conjU U A)) (conjU U (fadj A)).
Proof.
  unfold conjU. rewrite fadj_mul, fadj_mul, fadj_invol_feq. rewrite <- fmul_assoc. reflexivity.
Qed.

(* real: the imaginary part vanishes for a Hermitian basis (any U), so `.real` loses nothing *)
Lemma Lf_real U i j : b_herm -> (i < n)%nat -> (j < n)%nat -> snd (Lf U i j) = 0.
Proof.
  intros Hh Hi Hj. apply conj_self_real. unfold Lf.
  rewrite ftr_conj, fadj_mul, conjU_adj.
  pose proof (Hh i Hi) as Ei. pose proof (Hh j Hj) as Ej. unfold fherm in Ei, Ej.
  rewrite Ei, Ej. apply ftr_cyclic.
Qed.

Lemma conjU_id A : feq d (conjU fid A) A.
Proof. unfold conjU. rewrite fadj_id, fmul_id_l, fmul_id_r. reflexivity. Qed.

Lemma Lf_id i j : b_orth -> (i < n)%nat -> (j < n)%nat -> Lf fid i j = if Nat.eqb i j then 1c else 0c.
Proof. intros Ho Hi Hj. unfold Lf. rewrite conjU_id. apply Ho; auto. Qed.

(* multiplicativity from the completeness relation; no unitarity needed *)
Lemma Lf_mult U V i j : b_complete ->
  Lf (fmul d U V) i j = csumn' n (fun k => cmul' (Lf U i k) (Lf V k j)).
Proof.
  intros Hc.
  set (A := conjU U (Cb i)).
  set (X := fmul d V (fmul d (Cb j) (fadj V))).
  assert (E1 : Lf (fmul d U V) i j = ftr d (fmul d A X)).
  { unfold Lf, conjU, A, X, conjU. rewrite fadj_mul. rewrite <- !fmul_assoc.
    (* tr(V^dag (U^dag (C_i (U (V C_j))))) -> cyclic: move V^dag to the end *)
    rewrite ftr_cyclic. rewrite <- !fmul_assoc. reflexivity. }
  rewrite E1. rewrite <- (Hc X) at 1.
  rewrite fmul_flin_r, ftr_flin.
  apply csumn_ext. intros k Hk.
  rewrite cmul_comm. f_equal.
  unfold Lf, conjU, X. rewrite <- !fmul_assoc.
  (* tr(C_k (V (C_j V^dag))) = tr(V^dag (C_k (V C_j))) *)
  symmetry. rewrite ftr_cyclic. rewrite <- !fmul_assoc. reflexivity.
Qed.

(* L(U^dagger) = L(U)^T *)
Lemma Lf_adj U i j : Lf (fadj U) i j = Lf U j i.
Proof.
  unfold Lf, conjU. rewrite fadj_invol_feq. rewrite <- !fmul_assoc.
  (* tr(U (C_i (U^dag C_j))) = tr(U^dag (C_j (U C_i))) *)
  rewrite ftr_cyclic. rewrite <- !fmul_assoc.
  rewrite ftr_cyclic. rewrite <- !fmul_assoc.
  rewrite ftr_cyclic. rewrite <- !fmul_assoc. reflexivity.
Qed.

(* orthogonality: L(U)^T L(U) = 1 and L(U) L(U)^T = 1 for unitary U *)
Lemma Lf_orth_l U i j : b_orth -> b_complete -> funitary d U -> (i < n)%nat -> (j < n)%nat ->
  csumn' n (fun k => cmul' (Lf U k i) (Lf U k j)) = if Nat.eqb i j then 1c else 0c.
Proof.
  intros Ho Hc [HU1 HU2] Hi Hj.
  rewrite <- (Lf_id i j Ho Hi Hj). rewrite <- (Lf_ext _ _ i j HU1).
  rewrite (Lf_mult _ _ i j Hc). apply csumn_ext. intros k _. rewrite Lf_adj. reflexivity.
Qed.
Lemma Lf_orth_r U i j : b_orth -> b_complete -> funitary d U -> (i < n)%nat -> (j < n)%nat ->
  csumn' n (fun k => cmul' (Lf U i k) (Lf U j k)) = if Nat.eqb i j then 1c else 0c.
Proof.
  intros Ho Hc [HU1 HU2] Hi Hj.
  rewrite <- (Lf_id i j Ho Hi Hj). rewrite <- (Lf_ext _ _ i j HU2).
  rewrite (Lf_mult _ _ i j Hc). apply csumn_ext. intros k _. rewrite Lf_adj. reflexivity.
Qed.

(* the real matrix the code returns *)
Definition Lr (U : fmat) (i j : nat) : R := fst (Lf U i j).

Lemma Lr_mult U V i j : b_herm -> b_complete -> (i < n)%nat -> (j < n)%nat ->
  Lr (fmul d U V) i j = sumn' n (fun k => Lr U i k * Lr V k j).
Proof.
  intros Hh Hc Hi Hj. unfold Lr. rewrite (Lf_mult _ _ _ _ Hc).
  apply csumn_real_mul; intros k Hk; apply Lf_real; auto.
Qed.
Lemma Lr_id i j : b_orth -> (i < n)%nat -> (j < n)%nat -> Lr fid i j = if Nat.eqb i j then 1 else 0.
Proof. intros Ho Hi Hj. unfold Lr. rewrite Lf_id; auto. destruct (Nat.eqb i j); reflexivity. Qed.
Lemma Lr_orth_l U i j : b_herm -> b_orth -> b_complete -> funitary d U -> (i < n)%nat -> (j < n)%nat ->
  sumn' n (fun k => Lr U k i * Lr U k j) = if Nat.eqb i j then 1 else 0.
Proof.
  intros Hh Ho Hc HU Hi Hj. unfold Lr.
  rewrite <- csumn_real_mul by (intros k Hk; apply Lf_real; auto).
  rewrite Lf_orth_l; auto. destruct (Nat.eqb i j); reflexivity.
Qed.
Lemma Lr_orth_r U i j : b_herm -> b_orth -> b_complete -> funitary d U -> (i < n)%nat -> (j < n)%nat ->
  sumn' n (fun k => Lr U i k * Lr U j k) = if Nat.eqb i j then 1 else 0.
Proof.
  intros Hh Ho Hc HU Hi Hj. unfold Lr.
  rewrite <- csumn_real_mul by (intros k Hk; apply Lf_real; auto).
  rewrite Lf_orth_r; auto. destruct (Nat.eqb i j); reflexivity.
Qed.
Lemma Lr_adj U i j : Lr (fadj U) i j = Lr U j i.
Proof. unfold Lr. rewrite Lf_adj. reflexivity. Qed.

End Liou.

(* ============================ refinement to the list model ============================ *)
Lemma nth_map_default {A Bt} (f : A -> Bt) l i da db : (i < length l)%nat -> nth i (map f l) db = f (nth i l da).
Proof.
  intros H. rewrite (nth_indep _ db (f da)) by (rewrite map_length; auto). apply map_nth.
Qed.

Section ListLevel.
Variable d : nat.
Variable basis : list (Mat (T:=R)).
Let n := length basis.
Definition Cl (i : nat) : fmat := toF (nthm basis i).

Definition basis_herm : Prop := b_herm d n Cl.
Definition basis_orth : Prop := b_orth d n Cl.
Definition basis_complete : Prop := b_complete d n Cl.

Lemma toF_transform U A : feq d (toF (transform_by_unitary RO d U A)) (conjU d (toF U) (toF A)).
Proof. unfold transform_by_unitary, conjU. rewrite toF_mmul, toF_madj, toF_mmul. reflexivity. Qed.

Lemma conjugated_basis_nth U i : (i < n)%nat ->
  nthm (conjugated_basis RO d U basis) i = transform_by_unitary RO d U (nthm basis i).
Proof. intros H. unfold nthm, conjugated_basis. apply nth_map_default; auto. Qed.

Lemma expand_re_nth M j : (j < n)%nat ->
  vget RO (expand_re RO d M basis) j = fst (ftr d (fmul d (toF M) (Cl j))).
Proof.
  intros H. unfold vget, expand_re. rewrite (nth_map_default (A:=Mat (T:=R)) _ _ _ []) by auto.
  rewrite mtrprod_ftr. reflexivity.
Qed.

Lemma liouville_generic_entry U i j : (i < n)%nat -> (j < n)%nat ->
  rget RO (liouville_generic RO d U basis) i j = Lr d Cl (toF U) i j.
Proof.
  intros Hi Hj. unfold rget, vg, nthv, liouville_generic.
  rewrite (nth_map_default (A:=Mat (T:=R)) _ _ _ []) by (unfold conjugated_basis; rewrite map_length; auto).
  fold (nthm (conjugated_basis RO d U basis) i). rewrite conjugated_basis_nth by auto.
  rewrite expand_re_nth by auto. unfold Lr, Lf.
  rewrite toF_transform. reflexivity.
Qed.

(* the definition in Model/Numeric.v (used by the concatenation rule) is the same matrix *)
Lemma liouville_numeric_entry U i j : (i < n)%nat -> (j < n)%nat ->
  rget RO (liouville RO d U basis) i j = rget RO (liouville_generic RO d U basis) i j.
Proof.
  intros Hi Hj. rewrite liouville_generic_entry by auto.
  unfold rget, vg, nthv, liouville. fold n.
  rewrite nth_build by auto. unfold vget. rewrite nth_build by auto.
  rewrite mtrprod_ftr. unfold Lr, Lf.
  replace (nthm (map (fun Ci => transform_by_unitary RO d U Ci) basis) i)
    with (transform_by_unitary RO d U (nthm basis i)).
  2:{ symmetry. apply (conjugated_basis_nth U i Hi). }
  rewrite toF_transform. reflexivity.
Qed.

Lemma liouville_generic_shape U : length (liouville_generic RO d U basis) = n /\
  forall i, (i < n)%nat -> length (nthv (liouville_generic RO d U basis) i) = n.
Proof.
  split. unfold liouville_generic, conjugated_basis. rewrite !map_length. reflexivity.
  intros i Hi. unfold nthv, liouville_generic.
  rewrite (nth_map_default (A:=Mat (T:=R)) _ _ _ []) by (unfold conjugated_basis; rewrite map_length; auto).
  unfold expand_re. rewrite map_length. reflexivity.
Qed.

(* ---- the theorems of the property, generic path ---- *)
Theorem liouville_entries_generic U i j : basis_herm -> (i < n)%nat -> (j < n)%nat ->
  ftr d (fmul d (Cl i) (fmul d (toF U) (fmul d (Cl j) (fadj (toF U)))))
  = (rget RO (liouville_generic RO d U basis) i j, 0).
Proof.
  intros Hh Hi Hj. rewrite liouville_generic_entry by auto. rewrite <- Lf_entries.
  apply c_eq; simpl. reflexivity. apply Lf_real with (n := n); auto.
Qed.

Theorem liouville_id_generic i j : basis_orth -> (i < n)%nat -> (j < n)%nat ->
  rget RO (liouville_generic RO d (mid RO d) basis) i j = if Nat.eqb i j then 1 else 0.
Proof.
  intros Ho Hi Hj. rewrite liouville_generic_entry by auto.
  unfold Lr. rewrite (Lf_ext d Cl _ fid i j (toF_mid d)). fold (Lr d Cl fid i j). apply Lr_id with (n := n); auto.
Qed.

Theorem liouville_mult_generic U V i j : basis_herm -> basis_complete -> (i < n)%nat -> (j < n)%nat ->
  rget RO (liouville_generic RO d (mmul RO d U V) basis) i j
  = sumn' n (fun k => rget RO (liouville_generic RO d U basis) i k * rget RO (liouville_generic RO d V basis) k j).
Proof.
  intros Hh Hc Hi Hj. rewrite liouville_generic_entry by auto.
  unfold Lr. rewrite (Lf_ext d Cl _ _ i j (toF_mmul d U V)). fold (Lr d Cl (fmul d (toF U) (toF V)) i j).
  rewrite (Lr_mult d n Cl _ _ i j Hh Hc Hi Hj).
  apply sumn_ext. intros k Hk. rewrite !liouville_generic_entry by auto. reflexivity.
Qed.

Theorem liouville_orthogonal_generic U i j : basis_herm -> basis_orth -> basis_complete ->
  funitary d (toF U) -> (i < n)%nat -> (j < n)%nat ->
  sumn' n (fun k => rget RO (liouville_generic RO d U basis) k i * rget RO (liouville_generic RO d U basis) k j)
    = (if Nat.eqb i j then 1 else 0) /\
  sumn' n (fun k => rget RO (liouville_generic RO d U basis) i k * rget RO (liouville_generic RO d U basis) j k)
    = (if Nat.eqb i j then 1 else 0).
Proof.
  intros Hh Ho Hc HU Hi Hj. split.
  - rewrite <- (Lr_orth_l d n Cl (toF U) i j Hh Ho Hc HU Hi Hj).
    apply sumn_ext. intros k Hk. rewrite !liouville_generic_entry by auto. reflexivity.
  - rewrite <- (Lr_orth_r d n Cl (toF U) i j Hh Ho Hc HU Hi Hj).
    apply sumn_ext. intros k Hk. rewrite !liouville_generic_entry by auto. reflexivity.
Qed.

(* L(U^dagger) = L(U)^T *)
Theorem liouville_adjoint_generic U i j : (i < n)%nat -> (j < n)%nat ->
  rget RO (liouville_generic RO d (madj RO d U) basis) i j = rget RO (liouville_generic RO d U basis) j i.
Proof.
  intros Hi Hj. rewrite !liouville_generic_entry by auto.
  unfold Lr. rewrite (Lf_ext d Cl _ _ i j (toF_madj d U)). apply f_equal, Lf_adj.
Qed.

End ListLevel.

(* ============================ closed-form Gell-Mann expansion ============================ *)
Lemma ofnat_INR k : ofnat RO k = INR k.
Proof. unfold ofnat, oZ; simpl. unfold Rdya. simpl. rewrite Rmult_1_r. symmetry. apply INR_IZR_INZ. Qed.

Lemma in_build {A} n (f : nat -> A) x : In x (build n f) <-> exists i, (i < n)%nat /\ x = f i.
Proof.
  unfold build. rewrite in_map_iff. split.
  - intros [i [E H]]. apply in_seq in H. exists i. split; [lia | auto].
  - intros [i [H E]]. exists i. split; auto. apply in_seq. lia.
Qed.

Lemma in_ggm_pairs d j k : In (j, k) (ggm_pairs d) -> (j < k < d)%nat.
Proof.
  unfold ggm_pairs. rewrite in_concat. intros [l [Hl Hin]].
  apply in_build in Hl. destruct Hl as [j' [Hj' ->]].
  apply in_map_iff in Hin. destruct Hin as [k' [E Hk]]. injection E as -> ->.
  apply filter_In in Hk. destruct Hk as [Hk1 Hk2]. apply in_seq in Hk1. apply Nat.ltb_lt in Hk2. lia.
Qed.

(* flattening of a two-level list: position r holds the element (r / d, r mod d) *)
Lemma build_S {A} n (f : nat -> A) : build (S n) f = build n f ++ [f n].
Proof. unfold build. rewrite seq_S, map_app. reflexivity. Qed.
Lemma concat_build_length {A} m d (f : nat -> nat -> A) :
  length (concat (build m (fun a => build d (f a)))) = (m * d)%nat.
Proof.
  induction m. reflexivity.
  rewrite build_S, concat_app, app_length, IHm. simpl. rewrite app_nil_r, build_length. lia.
Qed.
Lemma nth_concat_build {A} m d (f : nat -> nat -> A) r dflt : (r < m * d)%nat ->
  nth r (concat (build m (fun a => build d (f a)))) dflt = f (r / d)%nat (r mod d)%nat.
Proof.
  induction m; intros Hr. simpl in Hr. lia.
  assert (Hd : d <> 0%nat) by (intros ->; lia).
  rewrite build_S, concat_app. simpl concat at 2. rewrite app_nil_r.
  destruct (lt_dec r (m * d)) as [H|H].
  - rewrite app_nth1 by (rewrite concat_build_length; auto). apply IHm; auto.
  - rewrite app_nth2 by (rewrite concat_build_length; lia). rewrite concat_build_length.
    assert (Hk : (r - m * d < d)%nat) by (simpl in Hr; lia).
    rewrite nth_build by auto.
    assert (E : r = (d * m + (r - m * d))%nat) by lia.
    rewrite <- (Nat.div_unique r d m (r - m * d) Hk E).
    rewrite <- (Nat.mod_unique r d m (r - m * d) Hk E). reflexivity.
Qed.

Lemma csumn_delta2 d p q (f : nat -> nat -> Cx) : (p < d)%nat -> (q < d)%nat ->
  csumn' d (fun i => csumn' d (fun l => if Nat.eqb l p && Nat.eqb i q then f i l else 0c)) = f q p.
Proof.
  intros Hp Hq.
  rewrite (csumn_ext d _ (fun i => if Nat.eqb i q then f i p else 0c)).
  - apply (csumn_delta' d q (fun i => f i p)); auto.
  - intros i _. destruct (Nat.eqb i q).
    + rewrite (csumn_ext d _ (fun l => if Nat.eqb l p then f i l else 0c)).
      apply (csumn_delta' d p (fun l => f i l)); auto.
      intros l _. rewrite andb_true_r. reflexivity.
    + rewrite (csumn_ext d _ (fun _ => 0c)). apply csumn_0.
      intros l _. rewrite andb_false_r. reflexivity.
Qed.

Lemma mtrprod_mbuild d (M : Mat (T:=R)) g :
  mtrprod RO d M (mbuild d d g) = csumn' d (fun i => csumn' d (fun k => cmul' (mget RO M i k) (g k i))).
Proof.
  unfold mtrprod. apply csumn_ext. intros i Hi. apply csumn_ext. intros k Hk.
  rewrite mget_mbuild; auto.
Qed.

Section GGM.
Variable d : nat.
Variable M : Mat (T:=R).
Notation Mg := (mget RO M).

Lemma ggm_head : odiv RO (fst (mtrace RO d M)) (osqrt RO (ofnat RO d)) = fst (mtrprod RO d M (ggm_id RO d)).
Proof.
  unfold ggm_id. rewrite mtrprod_mbuild.
  rewrite (csumn_ext d _ (fun i => cmul' (Mg i i) (cofr RO (odiv RO (o1 RO) (osqrt RO (ofnat RO d)))))).
  2:{ intros i Hi.
      rewrite (csumn_ext d _ (fun k => if Nat.eqb k i then cmul' (Mg i k) (cofr RO (odiv RO (o1 RO) (osqrt RO (ofnat RO d)))) else 0c)).
      apply (csumn_delta' d i (fun k => cmul' (Mg i k) _)); auto.
      intros k _. destruct (Nat.eqb k i); [reflexivity | ring]. }
  rewrite csumn_mul_r. unfold mtrace. csimp. unfold Rdiv. ring.
Qed.

Lemma ggm_sym_coeff j k : (j < k < d)%nat ->
  odiv RO (fst (cadd' (Mg j k) (Mg k j))) (sqrt2 RO) = fst (mtrprod RO d M (ggm_sym RO d (j, k))).
Proof.
  intros H. unfold ggm_sym. rewrite mtrprod_mbuild. cbn [fst snd].
  set (s := cofr RO (inv_sqrt2 RO)).
  rewrite (csumn_ext d _ (fun i => cadd'
     (csumn' d (fun l => if Nat.eqb l j && Nat.eqb i k then cmul' (Mg i l) s else 0c))
     (csumn' d (fun l => if Nat.eqb l k && Nat.eqb i j then cmul' (Mg i l) s else 0c)))).
  2:{ intros i _. rewrite <- csumn_add. apply csumn_ext. intros l _.
      destruct (Nat.eqb_spec l j), (Nat.eqb_spec i k), (Nat.eqb_spec l k), (Nat.eqb_spec i j); cbn [andb orb]; try ring; lia. }
  rewrite csumn_add.
  rewrite (csumn_delta2 d j k (fun i l => cmul' (Mg i l) s)) by lia.
  rewrite (csumn_delta2 d k j (fun i l => cmul' (Mg i l) s)) by lia.
  unfold s, inv_sqrt2, sqrt2. csimp. unfold Rdiv. ring.
Qed.

Lemma ggm_asym_coeff j k : (j < k < d)%nat ->
  odiv RO (fst (cmul' ic (csub' (Mg j k) (Mg k j)))) (sqrt2 RO) = fst (mtrprod RO d M (ggm_asym RO d (j, k))).
Proof.
  intros H. unfold ggm_asym. rewrite mtrprod_mbuild. cbn [fst snd].
  set (s1 := (o0 RO, oneg RO (inv_sqrt2 RO)) : Cx). set (s2 := (o0 RO, inv_sqrt2 RO) : Cx).
  rewrite (csumn_ext d _ (fun i => cadd'
     (csumn' d (fun l => if Nat.eqb l j && Nat.eqb i k then cmul' (Mg i l) s1 else 0c))
     (csumn' d (fun l => if Nat.eqb l k && Nat.eqb i j then cmul' (Mg i l) s2 else 0c)))).
  2:{ intros i _. rewrite <- csumn_add. apply csumn_ext. intros l _.
      destruct (Nat.eqb_spec l j), (Nat.eqb_spec i k), (Nat.eqb_spec l k), (Nat.eqb_spec i j); cbn [andb orb]; try ring; lia. }
  rewrite csumn_add.
  rewrite (csumn_delta2 d j k (fun i l => cmul' (Mg i l) s1)) by lia.
  rewrite (csumn_delta2 d k j (fun i l => cmul' (Mg i l) s2)) by lia.
  unfold s1, s2, inv_sqrt2, sqrt2. csimp. unfold Rdiv. ring.
Qed.

Lemma ggm_diag_coeff l : (0 < l < d)%nat ->
  odiv RO (fst (csub' (csumn' l (fun a => Mg a a)) (cscal RO (ofnat RO l) (Mg l l)))) (diag_norm RO l)
  = fst (mtrprod RO d M (ggm_diag RO d l)).
Proof.
  intros H. unfold ggm_diag. rewrite mtrprod_mbuild.
  set (N := diag_norm RO l).
  set (g := fun i : nat => if Nat.ltb i l then cofr RO (odiv RO (o1 RO) N)
                           else if Nat.eqb i l then cofr RO (odiv RO (oneg RO (ofnat RO l)) N) else 0c).
  rewrite (csumn_ext d _ (fun i => cmul' (Mg i i) (g i))).
  2:{ intros i Hi.
      rewrite (csumn_ext d _ (fun k => if Nat.eqb k i then cmul' (Mg i k) (g k) else 0c)).
      apply (csumn_delta' d i (fun k => cmul' (Mg i k) (g k))); auto.
      intros k _. unfold g. destruct (Nat.eqb_spec k i); [reflexivity | ring]. }
  replace d with (l + (1 + (d - l - 1)))%nat at 1 by lia.
  rewrite csumn_app, csumn_app.
  rewrite (csumn_ext l (fun i => cmul' (Mg i i) (g i)) (fun i => cmul' (Mg i i) (cofr RO (odiv RO (o1 RO) N)))).
  2:{ intros i Hi. unfold g. destruct (Nat.ltb_spec i l); [reflexivity | lia]. }
  rewrite (csumn_ext (d - l - 1) _ (fun _ => 0c)).
  2:{ intros i Hi. unfold g. destruct (Nat.ltb_spec (l + (1 + i)) l); [lia|].
      destruct (Nat.eqb_spec (l + (1 + i)) l); [lia | ring]. }
  rewrite csumn_0, csumn_mul_r. simpl csumn. rewrite Nat.add_0_r.
  unfold g. destruct (Nat.ltb_spec l l); [lia|]. rewrite Nat.eqb_refl.
  csimp. unfold Rdiv. ring.
Qed.

(* for every d: the closed-form expansion is the generic expansion in the Gell-Mann basis *)
Theorem ggm_expand_eq_expand : ggm_expand_re RO d M = expand_re RO d M (ggm_basis RO d).
Proof.
  unfold ggm_expand_re, expand_re, ggm_basis. simpl map. f_equal. apply ggm_head.
  rewrite !map_app, !map_map. f_equal; [|f_equal].
  - apply map_ext_in. intros [j k] Hin. apply in_ggm_pairs in Hin. apply ggm_sym_coeff; auto.
  - apply map_ext_in. intros [j k] Hin. apply in_ggm_pairs in Hin. apply ggm_asym_coeff; auto.
  - unfold build. rewrite map_map. apply map_ext_in. intros l' Hin. apply in_seq in Hin.
    apply ggm_diag_coeff. lia.
Qed.
End GGM.

Theorem ggm_path_eq_generic d U :
  liouville_closed RO d U (ggm_basis RO d) = liouville_generic RO d U (ggm_basis RO d).
Proof.
  unfold liouville_closed, liouville_generic. apply map_ext. intros M. apply ggm_expand_eq_expand.
Qed.

(* ============================ Choi matrix ============================ *)
Section Choi.
Variable d n : nat.
Variable Cb : nat -> fmat.

(* matrix unit E_ab = |a><b| *)
Definition Eab (a b : nat) : fmat := fun x y => if Nat.eqb x a && Nat.eqb y b then 1c else 0c.

(* 'ij,jba,icd->acbd' *)
Definition choi4 (S : nat -> nat -> Cx) (a c b e : nat) : Cx :=
  csumn' n (fun i => csumn' n (fun j => cmul' (cmul' (S i j) (Cb j b a)) (Cb i c e))).
(* reshape to (d^2, d^2) *)
Definition choiF (S : nat -> nat -> Cx) : fmat :=
  fun r c => choi4 S (r / d)%nat (r mod d)%nat (c / d)%nat (c mod d)%nat.

(* a map on matrices that is linear on linear combinations of the basis *)
Definition lin_map (Phi : fmat -> fmat) : Prop :=
  (forall X Y, feq d X Y -> feq d (Phi X) (Phi Y)) /\
  (forall c, feq d (Phi (flin n c Cb)) (flin n c (fun k => Phi (Cb k)))).
(* its Liouville representation S_ij = tr(C_i Phi(C_j)) *)
Definition liou_of (Phi : fmat -> fmat) (i j : nat) : Cx := ftr d (fmul d (Cb i) (Phi (Cb j))).

Lemma tr_C_Eab A a b : (a < d)%nat -> (b < d)%nat -> ftr d (fmul d A (Eab a b)) = A b a.
Proof.
  intros Ha Hb. unfold ftr, fmul, Eab.
  rewrite (csumn_ext d _ (fun x => csumn' d (fun y => if Nat.eqb y a && Nat.eqb x b then A x y else 0c))).
  - apply (csumn_delta2 d a b (fun x y => A x y)); auto.
  - intros x _. apply csumn_ext. intros y _. destruct (Nat.eqb y a && Nat.eqb x b); ring.
Qed.

Lemma Eab_expand a b : b_complete d n Cb -> (a < d)%nat -> (b < d)%nat ->
  feq d (flin n (fun j => Cb j b a) Cb) (Eab a b).
Proof.
  intros Hc Ha Hb. transitivity (flin n (fun k => ftr d (fmul d (Cb k) (Eab a b))) Cb); [|apply Hc].
  apply flin_ext; intros k Hk; [|reflexivity]. symmetry. apply tr_C_Eab; auto.
Qed.

(* choi_formula: the contraction of the code is sum_ab E_ab (x) Phi(E_ab), entry [(a,c),(b,e)] = Phi(E_ab)_ce *)
Theorem choi4_formula Phi a c b e : b_complete d n Cb -> lin_map Phi ->
  (a < d)%nat -> (c < d)%nat -> (b < d)%nat -> (e < d)%nat ->
  choi4 (liou_of Phi) a c b e = Phi (Eab a b) c e.
Proof.
  intros Hc [Hp Hl] Ha Hcc Hb He. unfold choi4.
  rewrite (csumn_ext n _ (fun i => cmul' (ftr d (fmul d (Cb i) (Phi (Eab a b)))) (Cb i c e))).
  - apply (Hc (Phi (Eab a b)) c e); auto.
  - intros i Hi. rewrite csumn_mul_r. f_equal.
    pose proof (Hp _ _ (Eab_expand a b Hc Ha Hb)) as E. rewrite <- E.
    rewrite Hl. rewrite fmul_flin_r, ftr_flin.
    apply csumn_ext; intros j _. unfold liou_of. ring.
Qed.

(* ---- maps of the form Phi(X) = sum_k z_k A_k X B_k (Kraus maps, commutators, Lindblad generators) ---- *)
Section Sandwich.
Variable m : nat.
Variable z : nat -> Cx.
Variable Ak Bk : nat -> fmat.
Definition sandwich (X : fmat) : fmat := flin m z (fun k => fmul d (Ak k) (fmul d X (Bk k))).

Lemma flin_swap n1 n2 c1 c2 (F : nat -> nat -> fmat) :
  feq d (flin n1 c1 (fun k => flin n2 c2 (F k))) (flin n2 c2 (fun j => flin n1 c1 (fun k => F k j))).
Proof.
  intros x y _ _. unfold flin.
  rewrite (csumn_ext n1 _ (fun k => csumn' n2 (fun j => cmul' (c1 k) (cmul' (c2 j) (F k j x y))))).
  2:{ intros k _. rewrite csumn_mul_l. reflexivity. }
  rewrite csumn_swap. apply csumn_ext. intros j _. rewrite <- csumn_mul_l. apply csumn_ext. intros; ring.
Qed.

Lemma sandwich_lin : lin_map sandwich.
Proof.
  split.
  - intros X Y H. unfold sandwich. apply flin_ext; auto. intros k _. rewrite H. reflexivity.
  - intros c. unfold sandwich.
    rewrite (flin_ext d m z z _ (fun k => flin n c (fun j => fmul d (Ak k) (fmul d (Cb j) (Bk k))))); auto.
    + apply flin_swap.
    + intros k _. rewrite fmul_flin_l, fmul_flin_r. reflexivity.
Qed.

Lemma sandwich_Eab a c b e : (a < d)%nat -> (b < d)%nat ->
  sandwich (Eab a b) c e = csumn' m (fun k => cmul' (z k) (cmul' (Ak k c a) (Bk k b e))).
Proof.
  intros Ha Hb. unfold sandwich, flin. apply csumn_ext. intros k _. f_equal.
  unfold fmul, Eab.
  rewrite (csumn_ext d _ (fun x => if Nat.eqb x a then cmul' (Ak k c x) (Bk k b e) else 0c)).
  - apply (csumn_delta' d a (fun x => cmul' (Ak k c x) (Bk k b e))); auto.
  - intros x _. destruct (Nat.eqb x a).
    + f_equal. rewrite (csumn_ext d _ (fun y => if Nat.eqb y b then Bk k y e else 0c)).
      apply (csumn_delta' d b (fun y => Bk k y e)); auto.
      intros y _. simpl. destruct (Nat.eqb y b); ring.
    + rewrite (csumn_ext d _ (fun _ => 0c)). rewrite csumn_0. ring. intros; simpl; ring.
Qed.

Theorem choi4_sandwich a c b e : b_complete d n Cb ->
  (a < d)%nat -> (c < d)%nat -> (b < d)%nat -> (e < d)%nat ->
  choi4 (liou_of sandwich) a c b e = csumn' m (fun k => cmul' (z k) (cmul' (Ak k c a) (Bk k b e))).
Proof.
  intros Hc Ha Hcc Hb He. rewrite (choi4_formula sandwich a c b e Hc sandwich_lin) by auto.
  apply sandwich_Eab; auto.
Qed.

Lemma div_mod_lt r : (0 < d)%nat -> (r < d * d)%nat -> (r / d < d)%nat /\ (r mod d < d)%nat.
Proof.
  intros Hd Hr. split. apply Nat.div_lt_upper_bound; lia. apply Nat.mod_upper_bound; lia.
Qed.

(* flattened: Choi_rs = sum_k z_k alpha_k(r) beta_k(s), alpha_k(r) = (A_k)[r mod d, r / d], beta_k(s) = (B_k)[s / d, s mod d] *)
Theorem choiF_sandwich : b_complete d n Cb ->
  feq (d * d) (choiF (liou_of sandwich))
      (fun r s => csumn' m (fun k => cmul' (z k) (cmul' (Ak k (r mod d) (r / d))%nat (Bk k (s / d) (s mod d))%nat))).
Proof.
  intros Hc r s Hr Hs. unfold choiF.
  assert (Hd : (0 < d)%nat) by (destruct d; simpl in *; lia).
  destruct (div_mod_lt r Hd Hr), (div_mod_lt s Hd Hs).
  apply choi4_sandwich; auto.
Qed.

Theorem qform_choi_sandwich x : b_complete d n Cb ->
  qform (d * d) (choiF (liou_of sandwich)) x = csumn' m (fun k => cmul' (z k)
     (cmul' (csumn' (d * d) (fun r => cmul' (cconj' (x r)) (Ak k (r mod d) (r / d))%nat))
            (csumn' (d * d) (fun s => cmul' (Bk k (s / d) (s mod d))%nat (x s))))).
Proof.
  intros Hc. apply (qform_rank1_sum (d * d) m z (fun k r => Ak k (r mod d) (r / d))%nat
                      (fun k s => Bk k (s / d) (s mod d))%nat).
  apply choiF_sandwich; auto.
Qed.
End Sandwich.

(* ---- Kraus form with real weights: Phi(X) = sum_k w_k K_k X K_k^dagger ---- *)
Section Kraus.
Variable m : nat.
Variable w : nat -> R.
Variable K : nat -> fmat.
Definition kraus_map : fmat -> fmat := sandwich m (fun k => (w k, 0)) K (fun k => fadj (K k)).
(* <<K_k | x>> with |K>>_r = K[r mod d, r / d] *)
Definition kvec (k : nat) (x : fvec) : Cx := csumn' (d * d) (fun r => cmul' (cconj' (x r)) (K k (r mod d) (r / d))%nat).

Theorem qform_choi_kraus x : b_complete d n Cb ->
  qform (d * d) (choiF (liou_of kraus_map)) x = (sumn' m (fun k => w k * cabs2 RO (kvec k x)), 0).
Proof.
  intros Hc. unfold kraus_map. rewrite qform_choi_sandwich by auto.
  rewrite <- csumn_weighted_abs2. apply csumn_ext. intros k _. f_equal. unfold kvec. f_equal.
  rewrite csumn_conj. apply csumn_ext. intros s _. unfold fadj. rewrite cconj_mul, cconj_invol. ring.
Qed.

(* CP direction: non-negative weights give a positive semidefinite Choi matrix *)
Theorem choi_kraus_psd x : b_complete d n Cb -> (forall k, (k < m)%nat -> 0 <= w k) ->
  0 <= fst (qform (d * d) (choiF (liou_of kraus_map)) x) /\ snd (qform (d * d) (choiF (liou_of kraus_map)) x) = 0.
Proof.
  intros Hc Hw. rewrite qform_choi_kraus by auto. simpl. split; auto.
  apply sumn_nonneg. intros k Hk. apply Rmult_le_pos; auto. apply cabs2_nonneg.
Qed.

(* negative direction: a negative weight on a Kraus operator orthogonal to the others *)
Theorem choi_kraus_negative k0 : b_complete d n Cb -> (k0 < m)%nat -> w k0 < 0 ->
  (forall k, (k < m)%nat -> k <> k0 -> kvec k (fun r => K k0 (r mod d) (r / d))%nat = 0c) ->
  kvec k0 (fun r => K k0 (r mod d) (r / d))%nat <> 0c ->
  exists x, fst (qform (d * d) (choiF (liou_of kraus_map)) x) < 0.
Proof.
  intros Hc Hk0 Hw Ho Hn. exists (fun r => K k0 (r mod d) (r / d))%nat.
  set (x := (fun r => K k0 (r mod d) (r / d))%nat) in *.
  rewrite qform_choi_kraus by auto. cbn [fst].
  assert (E : sumn' m (fun k => w k * cabs2 RO (kvec k x)) = w k0 * cabs2 RO (kvec k0 x)).
  { transitivity (fst (csumn' m (fun k => if Nat.eqb k0 k then (w k * cabs2 RO (kvec k x), 0) else 0c))).
    - rewrite csumn_re. apply sumn_ext. intros k Hk. destruct (Nat.eqb_spec k0 k) as [->|Hne]; simpl; auto.
      rewrite (Ho k Hk) by auto. csimp. ring.
    - rewrite (csumn_delta m k0 (fun k => (w k * cabs2 RO (kvec k x), 0))) by auto. reflexivity. }
  rewrite E.
  assert (0 < cabs2 RO (kvec k0 x)).
  { destruct (kvec k0 x) as [a b] eqn:Ek. unfold cabs2; simpl.
    assert (a <> 0 \/ b <> 0).
    { destruct (Req_dec a 0), (Req_dec b 0); auto. subst. exfalso. apply Hn. reflexivity. }
    nra. }
  nra.
Qed.
End Kraus.

End Choi.

(* ============================ matrix-vector algebra for the projected Choi matrix ============================ *)
Lemma fmv_mul N A Bm x i : fmv N (fmul N A Bm) x i = fmv N A (fmv N Bm x) i.
Proof.
  unfold fmv, fmul.
  rewrite (csumn_ext N _ (fun j => csumn' N (fun k => cmul' (A i k) (cmul' (Bm k j) (x j))))).
  2:{ intros j _. rewrite <- csumn_mul_r. apply csumn_ext. intros; ring. }
  rewrite csumn_swap. apply csumn_ext. intros k _. rewrite csumn_mul_l. reflexivity.
Qed.
Lemma vdot_adj N Q x y : vdot N x (fmv N Q y) = vdot N (fmv N (fadj Q) x) y.
Proof.
  unfold vdot, fmv.
  rewrite (csumn_ext N _ (fun i => csumn' N (fun j => cmul' (cmul' (cconj' (x i)) (Q i j)) (y j)))).
  2:{ intros i _. rewrite <- csumn_mul_l. apply csumn_ext. intros; ring. }
  rewrite csumn_swap. apply csumn_ext. intros j _.
  rewrite csumn_conj. rewrite <- csumn_mul_r. apply csumn_ext. intros i _.
  unfold fadj. rewrite cconj_mul, cconj_invol. ring.
Qed.
Lemma vdot_ext N x x' y y' : (forall i, (i < N)%nat -> x i = x' i) -> (forall i, (i < N)%nat -> y i = y' i) ->
  vdot N x y = vdot N x' y'.
Proof. intros H H'. unfold vdot. apply csumn_ext. intros i Hi. rewrite H, H'; auto. Qed.
Lemma fmv_ext N A A' x x' i : feq N A A' -> (forall j, (j < N)%nat -> x j = x' j) -> (i < N)%nat ->
  fmv N A x i = fmv N A' x' i.
Proof. intros H Hx Hi. unfold fmv. apply csumn_ext. intros j Hj. rewrite H, Hx; auto. Qed.

(* x^dagger (Q A Q) x = (Qx)^dagger A (Qx) for Hermitian Q *)
Lemma qform_sandwiched N Q A x : fherm N Q ->
  qform N (fmul N (fmul N Q A) Q) x = qform N A (fmv N Q x).
Proof.
  intros HQ. rewrite !qform_vdot.
  rewrite (vdot_ext N x x (fmv N (fmul N (fmul N Q A) Q) x) (fmv N Q (fmv N A (fmv N Q x)))); auto.
  2:{ intros i Hi. rewrite fmv_mul. rewrite (fmv_mul N Q A). reflexivity. }
  rewrite vdot_adj. apply vdot_ext; auto.
  intros i Hi. apply fmv_ext; auto.
Qed.

(* ============================ Lindblad generators are conditionally completely positive ============================ *)
Section Lindblad.
Variable d n : nat.
Variable Cb : nat -> fmat.
Variable m : nat.
Variable gam : nat -> R.
Variable Lk : nat -> fmat.
Variable G : fmat.

(* K(X) = G X + X G^dagger + sum_k gamma_k L_k X L_k^dagger
   (G = -iH - 1/2 sum_k gamma_k L_k^dagger L_k gives the standard form -i[H,X] + sum_k gamma_k (L X L^dag - 1/2 {L^dag L, X})) *)
Definition lz (k : nat) : Cx := if Nat.ltb k m then (gam k, 0) else 1c.
Definition lA (k : nat) : fmat := if Nat.ltb k m then Lk k else if Nat.eqb k m then G else fid.
Definition lB (k : nat) : fmat := if Nat.ltb k m then fadj (Lk k) else if Nat.eqb k m then fid else fadj G.
Definition lindblad_map : fmat -> fmat := sandwich d (S (S m)) lz lA lB.

Lemma lindblad_map_spec X :
  feq d (lindblad_map X)
        (fadd (fadd (fmul d G X) (fmul d X (fadj G)))
              (flin m (fun k => (gam k, 0)) (fun k => fmul d (Lk k) (fmul d X (fadj (Lk k)))))).
Proof.
  intros i j Hi Hj. unfold lindblad_map, sandwich, flin, fadd. simpl csumn.
  rewrite (csumn_ext m _ (fun k => cmul' (gam k, 0) (fmul d (Lk k) (fmul d X (fadj (Lk k))) i j))).
  2:{ intros k Hk. unfold lz, lA, lB. destruct (Nat.ltb_spec k m); [reflexivity | lia]. }
  unfold lz, lA, lB.
  destruct (Nat.ltb_spec m m); [lia|]. destruct (Nat.ltb_spec (S m) m); [lia|].
  rewrite Nat.eqb_refl. destruct (Nat.eqb_spec (S m) m); [lia|].
  pose proof (fmul_id_r d X i j Hi Hj) as E1.
  assert (E2 : fmul d G (fmul d X fid) i j = fmul d G X i j).
  { apply fmul_ext; auto. apply feq_refl. apply fmul_id_r. }
  assert (E3 : fmul d fid (fmul d X (fadj G)) i j = fmul d X (fadj G) i j) by (apply fmul_id_l; auto).
  rewrite E2, E3. ring.
Qed.

(* "trace" of a flattened vector: sum_a x_{a d + a} = sqrt(d) <Omega|x> *)
Definition xtr (x : fvec) : Cx := csumn' d (fun a => x (a * d + a)%nat).

Lemma flat_id_r x : csumn' (d * d) (fun s => cmul' (fid (s / d) (s mod d))%nat (x s)) = xtr x.
Proof.
  destruct (Nat.eq_dec d 0) as [E0|Hd]. { unfold xtr. rewrite E0. reflexivity. }
  pose proof (csumn_flatten d (fun a c => cmul' (fid a c) (x (a * d + c)%nat)) d) as F. cbv beta in F.
  transitivity (csumn' d (fun a => csumn' d (fun c => cmul' (fid a c) (x (a * d + c)%nat)))).
  { rewrite <- F. apply csumn_ext. intros s _. do 2 f_equal. rewrite (Nat.div_mod s d) at 1 by auto. lia. }
  unfold xtr. apply csumn_ext. intros a Ha.
  unfold fid.
  rewrite (csumn_ext d _ (fun c => if Nat.eqb a c then x (a * d + c)%nat else 0c)).
  apply (csumn_delta d a (fun c => x (a * d + c)%nat)); auto.
  intros c _. destruct (Nat.eqb a c); ring.
Qed.
Lemma flat_id_l x : csumn' (d * d) (fun r => cmul' (cconj' (x r)) (fid (r mod d) (r / d))%nat) = cconj' (xtr x).
Proof.
  rewrite <- flat_id_r. rewrite csumn_conj. apply csumn_ext. intros r _.
  rewrite cconj_mul. unfold fid. rewrite (Nat.eqb_sym (r mod d)).
  destruct (Nat.eqb (r / d) (r mod d)); cring.
Qed.

Definition lvec (k : nat) (x : fvec) : Cx := csumn' (d * d) (fun r => cmul' (cconj' (x r)) (Lk k (r mod d) (r / d))%nat).

(* on the complement of the maximally entangled state the Choi form of a Lindblad generator is a Gram form *)
Theorem lindblad_choi_gram x : b_complete d n Cb -> xtr x = 0c ->
  qform (d * d) (choiF d n Cb (liou_of d Cb lindblad_map)) x = (sumn' m (fun k => gam k * cabs2 RO (lvec k x)), 0).
Proof.
  intros Hc Hx. unfold lindblad_map. rewrite qform_choi_sandwich by auto.
  simpl csumn.
  assert (Em : forall u, lz m = u -> lB m = fid -> True) by auto.
  (* the two terms containing the identity vanish *)
  assert (E1 : csumn' (d * d) (fun s => cmul' (lB m (s / d) (s mod d))%nat (x s)) = 0c).
  { unfold lB. destruct (Nat.ltb_spec m m); [lia|]. rewrite Nat.eqb_refl. rewrite flat_id_r. exact Hx. }
  assert (E2 : csumn' (d * d) (fun r => cmul' (cconj' (x r)) (lA (S m) (r mod d) (r / d))%nat) = 0c).
  { unfold lA. destruct (Nat.ltb_spec (S m) m); [lia|]. destruct (Nat.eqb_spec (S m) m); [lia|].
    rewrite flat_id_l, Hx. apply cconj_0. }
  rewrite E1, E2.
  rewrite <- csumn_weighted_abs2.
  rewrite (csumn_ext m _ (fun k => cmul' (gam k, 0) (cmul' (lvec k x) (cconj' (lvec k x))))).
  ring.
  intros k Hk. unfold lz, lA, lB. destruct (Nat.ltb_spec k m); [|lia]. f_equal. unfold lvec. f_equal.
  rewrite csumn_conj. apply csumn_ext. intros s _. unfold fadj. rewrite cconj_mul, cconj_invol. ring.
Qed.

Theorem lindblad_cCP_form x : b_complete d n Cb -> xtr x = 0c -> (forall k, (k < m)%nat -> 0 <= gam k) ->
  0 <= fst (qform (d * d) (choiF d n Cb (liou_of d Cb lindblad_map)) x).
Proof.
  intros Hc Hx Hg. rewrite lindblad_choi_gram by auto. simpl.
  apply sumn_nonneg. intros k Hk. apply Rmult_le_pos; auto. apply cabs2_nonneg.
Qed.
End Lindblad.

(* ============================ the verdict: eigenvalues of a valid decomposition ============================ *)
Definition fdiagR (D : nat -> R) : fmat := fun i j => if Nat.eqb i j then (D i, 0) else 0c.

Section Verdict.
Variable N : nat.
Variable A V : fmat.
Variable D : nat -> R.
Hypothesis HV : funitary N V.
Hypothesis HA : feq N A (fmul N V (fmul N (fdiagR D) (fadj V))).

Definition ycoef (x : fvec) (k : nat) : Cx := csumn' N (fun r => cmul' (cconj' (x r)) (V r k)).

Lemma A_rank1 : feq N A (fun r s => csumn' N (fun k => cmul' (D k, 0) (cmul' (V r k) (cconj' (V s k))))).
Proof.
  intros r s Hr Hs. rewrite HA by auto. unfold fmul. apply csumn_ext. intros k Hk.
  unfold fdiagR, fadj.
  rewrite (csumn_ext N _ (fun l => if Nat.eqb k l then cmul' (D k, 0) (cconj' (V s l)) else 0c)).
  rewrite (csumn_delta N k (fun l => cmul' (D k, 0) (cconj' (V s l)))) by auto. ring.
  intros l _. destruct (Nat.eqb k l); ring.
Qed.
Lemma id_rank1 : feq N fid (fun r s => csumn' N (fun k => cmul' 1c (cmul' (V r k) (cconj' (V s k))))).
Proof.
  intros r s Hr Hs. destruct HV as [_ H2]. rewrite <- H2 by auto. unfold fmul, fadj.
  apply csumn_ext. intros; ring.
Qed.

Lemma ycoef_conj x k : csumn' N (fun s => cmul' (cconj' (V s k)) (x s)) = cconj' (ycoef x k).
Proof. unfold ycoef. rewrite csumn_conj. apply csumn_ext. intros s _. rewrite cconj_mul, cconj_invol. ring. Qed.

Lemma qform_eig x : qform N A x = (sumn' N (fun k => D k * cabs2 RO (ycoef x k)), 0).
Proof.
  rewrite (qform_rank1_sum N N (fun k => (D k, 0)) (fun k r => V r k) (fun k s => cconj' (V s k)) A x A_rank1).
  rewrite <- csumn_weighted_abs2. apply csumn_ext. intros k _. f_equal. fold (ycoef x k). rewrite ycoef_conj. reflexivity.
Qed.
Lemma norm_eig x : vnorm2 N x = sumn' N (fun k => cabs2 RO (ycoef x k)).
Proof.
  assert (E : qform N fid x = (vnorm2 N x, 0)).
  { rewrite qform_vdot. rewrite <- vdot_self. apply vdot_ext; auto.
    intros i Hi. unfold fmv, fid.
    rewrite (csumn_ext N _ (fun j => if Nat.eqb i j then x j else 0c)).
    apply (csumn_delta N i x); auto. intros j _. destruct (Nat.eqb i j); ring. }
  rewrite (qform_rank1_sum N N (fun k => 1c) (fun k r => V r k) (fun k s => cconj' (V s k)) fid x id_rank1) in E.
  assert (E' : csumn' N (fun k => cmul' (1, 0) (cmul' (ycoef x k) (cconj' (ycoef x k)))) = (vnorm2 N x, 0)).
  { rewrite <- E. apply csumn_ext. intros k _. f_equal. fold (ycoef x k). rewrite ycoef_conj. reflexivity. }
  rewrite csumn_weighted_abs2 in E'. injection E' as E'. rewrite <- E'. apply sumn_ext. intros; csimp; ring.
Qed.

(* every eigenvalue is attained by the quadratic form on a unit vector *)
Lemma eig_attained k0 : (k0 < N)%nat ->
  exists x, vnorm2 N x = 1 /\ qform N A x = (D k0, 0).
Proof.
  intros Hk0. exists (fun r => V r k0). rewrite qform_eig, norm_eig.
  assert (Ey : forall k, (k < N)%nat -> ycoef (fun r => V r k0) k = if Nat.eqb k0 k then 1c else 0c).
  { intros k Hk. unfold ycoef. destruct HV as [H1' _]. specialize (H1' k0 k Hk0 Hk).
    unfold fmul, fadj, fid in H1'. exact H1'. }
  split.
  - transitivity (fst (csumn' N (fun k => if Nat.eqb k0 k then 1c else 0c))).
    + rewrite csumn_re. apply sumn_ext. intros k Hk. rewrite Ey by auto. destruct (Nat.eqb k0 k); csimp; ring.
    + rewrite (csumn_delta N k0 (fun _ => 1c)) by auto. reflexivity.
  - f_equal. transitivity (fst (csumn' N (fun k => if Nat.eqb k0 k then (D k, 0) else 0c))).
    + rewrite csumn_re. apply sumn_ext. intros k Hk. rewrite Ey by auto. destruct (Nat.eqb k0 k); csimp; ring.
    + rewrite (csumn_delta N k0 (fun k => (D k, 0))) by auto. reflexivity.
Qed.

(* all eigenvalues >= -tol  <->  x^dagger A x >= -tol |x|^2 for every x *)
Theorem verdict_correct tol :
  (forall k, (k < N)%nat -> - tol <= D k) <->
  (forall x, - tol * vnorm2 N x <= fst (qform N A x) /\ snd (qform N A x) = 0).
Proof.
  split.
  - intros H x. rewrite qform_eig, norm_eig. simpl. split; auto.
    rewrite <- sumn_mul_l. apply sumn_le. intros k Hk.
    pose proof (cabs2_nonneg (ycoef x k)). specialize (H k Hk). nra.
  - intros H k0 Hk0. destruct (H (fun r => V r k0)) as [H1 _].
    rewrite qform_eig, norm_eig in H1. cbn [fst] in H1.
    assert (Ey : forall k, (k < N)%nat -> ycoef (fun r => V r k0) k = if Nat.eqb k0 k then 1c else 0c).
    { intros k Hk. unfold ycoef. destruct HV as [H1' _]. specialize (H1' k0 k Hk0 Hk).
      unfold fmul, fadj, fid in H1'. exact H1'. }
    assert (S1 : sumn' N (fun k => cabs2 RO (ycoef (fun r => V r k0) k)) = 1).
    { transitivity (fst (csumn' N (fun k => if Nat.eqb k0 k then 1c else 0c))).
      - rewrite csumn_re. apply sumn_ext. intros k Hk. rewrite Ey by auto. destruct (Nat.eqb k0 k); csimp; ring.
      - rewrite (csumn_delta N k0 (fun _ => 1c)) by auto. reflexivity. }
    assert (S2 : sumn' N (fun k => D k * cabs2 RO (ycoef (fun r => V r k0) k)) = D k0).
    { transitivity (fst (csumn' N (fun k => if Nat.eqb k0 k then (D k, 0) else 0c))).
      - rewrite csumn_re. apply sumn_ext. intros k Hk. rewrite Ey by auto. destruct (Nat.eqb k0 k); csimp; ring.
      - rewrite (csumn_delta N k0 (fun k => (D k, 0))) by auto. reflexivity. }
    rewrite S1, S2 in H1. lra.
Qed.
End Verdict.

(* ============================ list model: Choi matrix, projector, verdict functions ============================ *)
Section ChoiList.
Variable d : nat.
Variable basis : list (Mat (T:=R)).
Let n := length basis.
Notation Clb := (Cl basis).
Definition Sfun (S : list (list R)) : nat -> nat -> Cx := fun i j => (rget RO S i j, 0).

Lemma choi_entry S r c : (r < d * d)%nat -> (c < d * d)%nat ->
  toF (liouville_to_choi RO d S basis) r c = choiF d n Clb (Sfun S) r c.
Proof.
  intros Hr Hc. unfold toF, mget, liouville_to_choi.
  rewrite (nth_concat_build d d (fun a c' => concat (build d (fun b => build d (fun e =>
             choi_entry4 RO S basis a c' b e)))) r []) by auto.
  rewrite (nth_concat_build d d (fun b e => choi_entry4 RO S basis (r / d) (r mod d) b e) c 0c) by auto.
  unfold choiF, choi4, choi_entry4. fold n. apply csumn_ext. intros i _. apply csumn_ext. intros j _.
  unfold Cl, toF, Sfun. cring.
Qed.
Lemma choi_feq S : feq (d * d) (toF (liouville_to_choi RO d S basis)) (choiF d n Clb (Sfun S)).
Proof. intros r c Hr Hc. apply choi_entry; auto. Qed.

(* choiF only depends on the entries S_ij with i, j < n *)
Lemma choiF_ext S S' : (forall i j, (i < n)%nat -> (j < n)%nat -> S i j = S' i j) ->
  forall r c, choiF d n Clb S r c = choiF d n Clb S' r c.
Proof.
  intros H r c. unfold choiF, choi4. apply csumn_ext. intros i Hi. apply csumn_ext. intros j Hj.
  rewrite H; auto.
Qed.

(* a real superoperator matrix and a Hermitian basis give a Hermitian Choi matrix, so that
   eigh (which reads one triangle only) sees the whole matrix *)
Theorem choi_hermitian S : (0 < d)%nat -> basis_herm d basis -> fherm (d * d) (toF (liouville_to_choi RO d S basis)).
Proof.
  intros Hd Hh r c Hr Hc. unfold fadj. rewrite !choi_entry by auto.
  unfold choiF, choi4. rewrite csumn_conj. apply csumn_ext. intros i Hi.
  rewrite csumn_conj. apply csumn_ext. intros j Hj.
  destruct (div_mod_lt d r Hd Hr), (div_mod_lt d c Hd Hc).
  pose proof (Hh i Hi (r mod d) (c mod d))%nat as E1. pose proof (Hh j Hj (c / d) (r / d))%nat as E2.
  unfold fadj in E1, E2. rewrite !cconj_mul. rewrite E1, E2 by auto. unfold Sfun. cring.
Qed.
End ChoiList.

(* ---- thresholds and the verdict flag ---- *)
Lemma psd_flag_spec thr D :
  (psd_flag RO thr D = 1 <-> Forall (fun ev => - thr <= ev) D) /\ (psd_flag RO thr D = 1 \/ psd_flag RO thr D = 0).
Proof.
  induction D as [|ev D [IH1 IH2]]; simpl.
  - split; [split; auto | left; reflexivity].
  - destruct (Rgtb (- thr) ev) eqn:E.
    + apply Rgtb_true in E. split; [|right; reflexivity]. split.
      * intros H. exfalso. lra.
      * intros H. inversion H; subst. lra.
    + apply Rgtb_false in E. split; auto. rewrite IH1. split.
      * intros H. constructor; auto.
      * intros H. inversion H; auto.
Qed.

Lemma eff_atol_nonzero d atol D : atol <> 0 -> eff_atol RO d atol D = atol.
Proof.
  intros H. unfold eff_atol; simpl. assert (E : Rgtb (Rabs atol) 0 = true).
  { apply Rgtb_true. apply Rabs_pos_lt; auto. } rewrite E. reflexivity.
Qed.
Lemma eff_atol_zero d D : eff_atol RO d 0 D = basis_atol RO d * max1abs RO D.
Proof.
  unfold eff_atol; simpl. assert (E : Rgtb (Rabs 0) 0 = false).
  { apply Rgtb_false. rewrite Rabs_R0. lra. } rewrite E. reflexivity.
Qed.
Lemma basis_atol_val d : basis_atol RO d = / 2 ^ 52 * (INR d * (INR d * INR d)).
Proof.
  unfold basis_atol, eps_complex. rewrite !ofnat_INR. cbn [omul odya RO]. f_equal.
  unfold Rdya. rewrite Rmult_1_l. reflexivity.
Qed.
Lemma basis_atol_nonneg d : 0 <= basis_atol RO d.
Proof.
  rewrite basis_atol_val. pose proof (pos_INR d).
  assert (0 < / 2 ^ 52) by (apply Rinv_0_lt_compat, pow_lt; lra). nra.
Qed.
(* max(1, |D|.max()) *)
Lemma max1abs_spec D : 1 <= max1abs RO D /\ Forall (fun ev => Rabs ev <= max1abs RO D) D /\
  (max1abs RO D = 1 \/ exists ev, In ev D /\ max1abs RO D = Rabs ev).
Proof.
  induction D as [|ev D [IH1 [IH2 IH3]]]; simpl.
  - split; [lra | split; [constructor | left; reflexivity]].
  - destruct (Rgtb (Rabs ev) (max1abs RO D)) eqn:E.
    + apply Rgtb_true in E. split; [lra|]. split.
      * constructor; [lra|]. eapply Forall_impl; [|exact IH2]. simpl. intros; lra.
      * right. exists ev. split; auto.
    + apply Rgtb_false in E. split; auto. split.
      * constructor; auto.
      * destruct IH3 as [H|[e [H1 H2]]]; [left; auto | right; exists e; split; auto].
Qed.
Lemma eff_atol_nonneg d atol D : 0 <= atol -> 0 <= eff_atol RO d atol D.
Proof.
  intros H. destruct (Req_dec atol 0) as [->|Hn].
  - rewrite eff_atol_zero. pose proof (basis_atol_nonneg d). destruct (max1abs_spec D) as [H1 _]. nra.
  - rewrite eff_atol_nonzero; auto.
Qed.

(* ---- the projector Q = 1 - |Omega><Omega| of liouville_is_cCP ---- *)
Section Projector.
Variable d : nat.
Hypothesis Hd : (0 < d)%nat.
Let N := (d * d)%nat.
Let s : R := 1 / sqrt (INR d).
Definition omg (r : nat) : R := if Nat.eqb (r mod (d + 1)) 0 then s else 0.
Definition Qf : fmat := fun r c => ((if Nat.eqb r c then 1 else 0) - omg r * omg c, 0).

Lemma Qf_herm : fherm N Qf.
Proof.
  intros r c _ _. unfold fadj, Qf, cconj. simpl. rewrite (Nat.eqb_sym c r). f_equal; ring.
Qed.

Lemma s_sq : INR d * (s * s) = 1.
Proof.
  unfold s. assert (0 < INR d) by (apply lt_0_INR; auto).
  assert (H1 : sqrt (INR d) * sqrt (INR d) = INR d) by (apply sqrt_sqrt; lra).
  assert (sqrt (INR d) <> 0) by (intros E; rewrite E in H1; lra).
  set (q := sqrt (INR d)) in *. rewrite <- H1. field. auto.
Qed.

(* the stride d+1 hits exactly the diagonal positions a*d + a *)
Lemma stride_diag a e : (a < d)%nat -> (e < d)%nat -> Nat.eqb ((a * d + e) mod (d + 1)) 0 = Nat.eqb a e.
Proof.
  intros Ha He. destruct (Nat.eqb_spec a e) as [->|Hne].
  - apply Nat.eqb_eq. symmetry. apply (Nat.mod_unique _ _ e 0); lia.
  - apply Nat.eqb_neq. destruct (le_lt_dec a e).
    + rewrite <- (Nat.mod_unique (a * d + e) (d + 1) a (e - a)); lia.
    + rewrite <- (Nat.mod_unique (a * d + e) (d + 1) (a - 1) (d + 1 - a + e)); try lia.
      destruct a; [lia|]. simpl. nia.
Qed.

Lemma omega_vec_nth r : (r < N)%nat -> vget RO (omega_vec RO d) r = omg r.
Proof.
  intros H. unfold vget, omega_vec.
  rewrite (nth_concat_build d d (fun a c => if Nat.eqb a c then odiv RO (o1 RO) (osqrt RO (ofnat RO d)) else o0 RO) r (o0 RO)) by auto.
  destruct (div_mod_lt d r Hd H) as [H1 H2]. unfold omg.
  assert (E : r = (r / d * d + r mod d)%nat) by (rewrite (Nat.div_mod r d) at 1 by lia; lia).
  rewrite E at 3. rewrite stride_diag by auto. rewrite ofnat_INR. reflexivity.
Qed.
Lemma toF_projQ : feq N (toF (projQ RO d)) Qf.
Proof.
  intros r c Hr Hc. unfold toF, projQ. rewrite mget_mbuild by auto.
  rewrite !omega_vec_nth by auto. unfold Qf, cofr. simpl. destruct (Nat.eqb r c); reflexivity.
Qed.

(* <omega, x> = s * sum_a x_{a d + a} *)
Lemma omega_dot x : csumn' N (fun c => cmul' (omg c, 0) (x c)) = cmul' (s, 0) (xtr d x).
Proof.
  pose proof (csumn_flatten d (fun a e => cmul' (if Nat.eqb a e then (s, 0) else 0c) (x (a * d + e)%nat)) d) as F.
  cbv beta in F.
  transitivity (csumn' d (fun a => csumn' d (fun e => cmul' (if Nat.eqb a e then (s, 0) else 0c) (x (a * d + e)%nat)))).
  - rewrite <- F. apply csumn_ext. intros c Hc. fold N in Hc.
    destruct (div_mod_lt d c Hd Hc) as [H1 H2].
    assert (E : c = (c / d * d + c mod d)%nat) by (rewrite (Nat.div_mod c d) at 1 by lia; lia).
    rewrite <- E. f_equal. unfold omg. rewrite E at 1. rewrite stride_diag by auto.
    destruct (Nat.eqb (c / d) (c mod d)); reflexivity.
  - unfold xtr. rewrite <- csumn_mul_l. apply csumn_ext. intros a Ha.
    rewrite (csumn_ext d _ (fun e => if Nat.eqb a e then cmul' (s, 0) (x (a * d + e)%nat) else 0c)).
    apply (csumn_delta d a (fun e => cmul' (s, 0) (x (a * d + e)%nat))); auto.
    intros e _. destruct (Nat.eqb a e); ring.
Qed.

Lemma Qf_apply x r : (r < N)%nat ->
  fmv N Qf x r = csub' (x r) (cmul' (omg r, 0) (csumn' N (fun c => cmul' (omg c, 0) (x c)))).
Proof.
  intros Hr. unfold fmv, Qf.
  rewrite (csumn_ext N _ (fun c => cadd' (if Nat.eqb r c then x c else 0c)
                                          (cmul' (cneg' (omg r, 0)) (cmul' (omg c, 0) (x c))))).
  2:{ intros c _. destruct (Nat.eqb r c); cring. }
  rewrite csumn_add, csumn_mul_l. rewrite (csumn_delta N r x) by auto. ring.
Qed.

(* Q x is orthogonal to Omega: its flattened trace vanishes *)
Theorem Qf_traceless x : xtr d (fmv N Qf x) = 0c.
Proof.
  unfold xtr.
  rewrite (csumn_ext d _ (fun a => csub' (x (a * d + a)%nat) (cmul' (s, 0) (cmul' (s, 0) (xtr d x))))).
  2:{ intros a Ha. assert (Hr : (a * d + a < N)%nat) by (unfold N; nia).
      rewrite Qf_apply by auto. rewrite omega_dot. f_equal. f_equal.
      unfold omg. rewrite stride_diag by auto. rewrite Nat.eqb_refl. reflexivity. }
  transitivity (csub' (xtr d x) (cmul' (INR d * (s * s), 0) (xtr d x))).
  2:{ rewrite s_sq. cring. }
  replace (csumn' d (fun a => csub' (x (a * d + a)%nat) (cmul' (s, 0) (cmul' (s, 0) (xtr d x)))))
    with (cadd' (csumn' d (fun a => x (a * d + a)%nat))
                (csumn' d (fun a => cmul' (cneg' (cmul' (s, 0) (cmul' (s, 0) (xtr d x)))) 1c))).
  2:{ rewrite <- csumn_add. apply csumn_ext. intros; ring. }
  rewrite csumn_mul_l. fold (xtr d x).
  assert (E : csumn' d (fun _ => 1c) = (INR d, 0)).
  { clear. induction d as [|k IH]. reflexivity. rewrite csumn_S, IH, S_INR. cring. }
  rewrite E. cring.
Qed.

Lemma toF_projected Ch : feq N (toF (projected_choi RO d Ch)) (fmul N (fmul N Qf (toF Ch)) Qf).
Proof.
  unfold projected_choi. fold N. rewrite toF_mmul, toF_mmul, toF_projQ. reflexivity.
Qed.

(* x^dagger (Q Choi Q) x = (Qx)^dagger Choi (Qx), with Qx in the complement of Omega *)
Theorem qform_projected Ch x :
  qform N (toF (projected_choi RO d Ch)) x = qform N (toF Ch) (fmv N Qf x).
Proof. rewrite (qform_ext N _ _ x (toF_projected Ch)). apply qform_sandwiched. apply Qf_herm. Qed.
End Projector.

Lemma combine_nth_lt {A Bt} (l : list A) (l' : list Bt) t x y : (t < length l)%nat -> (t < length l')%nat ->
  nth t (combine l l') (x, y) = (nth t l x, nth t l' y).
Proof.
  revert l' t. induction l as [|a l IH]; intros [|b l'] [|t] H1 H2; simpl in *; try lia; auto.
  apply IH; lia.
Qed.


(* ---- counting the Gell-Mann basis: d^2 elements ---- *)
Lemma filter_none {A} (f : A -> bool) l : (forall x, In x l -> f x = false) -> filter f l = [].
Proof. induction l; simpl; intros H; auto. rewrite (H a) by auto. apply IHl. intros; apply H; auto. Qed.
Lemma filter_all {A} (f : A -> bool) l : (forall x, In x l -> f x = true) -> filter f l = l.
Proof. induction l; simpl; intros H; auto. rewrite (H a) by auto. f_equal. apply IHl. intros; apply H; auto. Qed.
Lemma filter_ltb_seq d j : (j < d)%nat -> filter (Nat.ltb j) (seq 0 d) = seq (S j) (d - S j).
Proof.
  intros H. replace d with (S j + (d - S j))%nat at 1 by lia. rewrite seq_app, filter_app.
  rewrite filter_none, filter_all; auto.
  - intros x Hx. apply in_seq in Hx. apply Nat.ltb_lt. lia.
  - intros x Hx. apply in_seq in Hx. apply Nat.ltb_ge. lia.
Qed.
Lemma ggm_pairs_prefix_length d m : (m <= d)%nat ->
  (2 * length (concat (build m (fun j => map (fun k => (j, k)) (filter (Nat.ltb j) (seq 0 d))))) + m * m + m = 2 * m * d)%nat.
Proof.
  induction m; intros H. reflexivity.
  rewrite build_S, concat_app, app_length. simpl concat. rewrite app_nil_r, map_length.
  rewrite filter_ltb_seq by lia. rewrite seq_length. specialize (IHm ltac:(lia)). nia.
Qed.
Lemma ggm_pairs_length d : (2 * length (ggm_pairs d) + d = d * d)%nat.
Proof. pose proof (ggm_pairs_prefix_length d d (le_n d)). unfold ggm_pairs. nia. Qed.
Lemma ggm_basis_length d : (0 < d)%nat -> length (ggm_basis RO d) = (d * d)%nat.
Proof.
  intros H. unfold ggm_basis. simpl length. rewrite !app_length, !map_length, build_length.
  pose proof (ggm_pairs_length d). destruct d; simpl Nat.pred; lia.
Qed.
Lemma ggm_expand_re_length d M : (0 < d)%nat -> length (ggm_expand_re RO d M) = (d * d)%nat.
Proof.
  intros H. rewrite ggm_expand_eq_expand. unfold expand_re. rewrite map_length. apply ggm_basis_length; auto.
Qed.

(* ---- the flags ---- *)
Lemma le_flag_spec tol xs :
  (le_flag RO tol xs = 1 <-> Forall (fun x => x <= tol) xs) /\ (le_flag RO tol xs = 1 \/ le_flag RO tol xs = 0).
Proof.
  induction xs as [|x xs [IH1 IH2]]; simpl.
  - split; [split; auto | left; reflexivity].
  - destruct (Rgtb x tol) eqn:E.
    + apply Rgtb_true in E. split; [|right; reflexivity]. split.
      * intros H. exfalso. lra.
      * intros H. inversion H; subst. lra.
    + apply Rgtb_false in E. split; auto. rewrite IH1. split.
      * intros H. constructor; auto.
      * intros H. inversion H; auto.
Qed.

Lemma sqrt_cabs2_bounds (z : Cx) t : sqrt (cabs2 RO z) <= t -> Rabs (fst z) <= t /\ Rabs (snd z) <= t.
Proof.
  intros H. destruct z as [a b]. unfold cabs2 in H. simpl in *.
  split; (eapply Rle_trans; [|exact H]).
  - rewrite <- sqrt_Rsqr_abs. apply sqrt_le_1_alt. unfold Rsqr. nra.
  - rewrite <- sqrt_Rsqr_abs. apply sqrt_le_1_alt. unfold Rsqr. nra.
Qed.

Lemma sumn_abs n (f : nat -> R) : Rabs (sumn' n f) <= sumn' n (fun k => Rabs (f k)).
Proof.
  induction n; simpl. rewrite Rabs_R0. lra.
  eapply Rle_trans. apply Rabs_triang. lra.
Qed.

(* ============================ every code path of liouville_representation; stacks ============================ *)
Section Dispatch.
Variable d : nat.
Variable basis : list (Mat (T:=R)).
Let n := length basis.

(* deviation of the basis from Basis.ggm(d), entry (k; i, j) *)
Definition bdev (k i j : nat) : R :=
  sqrt (cabs2 RO (csub' (mget RO (nthm basis k) i j) (mget RO (nthm (ggm_basis RO d) k) i j))).
(* what `basis == Basis.ggm(d)` establishes *)
Definition basis_close : Prop :=
  forall k i j, (k < d * d)%nat -> (i < d)%nat -> (j < d)%nat -> bdev k i j <= basis_atol RO d.

Lemma in_basis_devs x : In x (basis_devs RO d basis) <->
  exists k i j, (k < d * d)%nat /\ (i < d)%nat /\ (j < d)%nat /\ x = bdev k i j.
Proof.
  unfold basis_devs. cbv zeta. rewrite in_concat. split.
  - intros [l [Hl Hx]]. apply in_build in Hl. destruct Hl as [k [Hk ->]].
    apply in_concat in Hx. destruct Hx as [l' [Hl' Hx]]. apply in_build in Hl'. destruct Hl' as [i [Hi ->]].
    apply in_build in Hx. destruct Hx as [j [Hj ->]]. exists k, i, j. auto.
  - intros [k [i [j [Hk [Hi [Hj ->]]]]]]. eexists. split. apply in_build. exists k. split; auto.
    apply in_concat. eexists. split. apply in_build. exists i. split; auto. apply in_build. exists j. split; auto.
Qed.

Lemma ggm_flag_values : basis_is_ggm_flag RO d basis = 1 \/ basis_is_ggm_flag RO d basis = 0.
Proof. apply le_flag_spec. Qed.
Lemma ggm_flag_one_iff : basis_is_ggm_flag RO d basis = 1 <-> basis_close.
Proof.
  unfold basis_is_ggm_flag. rewrite (proj1 (le_flag_spec _ _)). rewrite Forall_forall. split.
  - intros H k i j Hk Hi Hj. apply H. apply in_basis_devs. exists k, i, j. auto.
  - intros H x Hx. apply in_basis_devs in Hx. destruct Hx as [k [i [j [Hk [Hi [Hj ->]]]]]]. apply H; auto.
Qed.

Definition guard (is_ggm : bool) : bool := is_ggm && Nat.ltb ggm_threshold d && Nat.eqb (length basis) (d * d).
Notation LR := (fun is_ggm U => liouville_representation RO d is_ggm U basis).

(* entry of the dispatcher *)
Lemma LR_entry is_ggm U i j : (i < n)%nat -> (j < n)%nat ->
  rget RO (LR is_ggm U) i j =
  if guard is_ggm && Rgtb (basis_is_ggm_flag RO d basis) (half RO)
  then rget RO (liouville_closed RO d U basis) i j else rget RO (liouville_generic RO d U basis) i j.
Proof.
  intros Hi Hj. cbv beta. unfold liouville_representation. fold (guard is_ggm). destruct (guard is_ggm); simpl; auto.
  unfold rget at 1. unfold vg, nthv, vget. fold n. rewrite nth_build by auto. rewrite nth_build by auto. reflexivity.
Qed.
Lemma flag_gt_half : Rgtb (basis_is_ggm_flag RO d basis) (half RO) = true <-> basis_is_ggm_flag RO d basis = 1.
Proof.
  rewrite Rgtb_true. unfold half; simpl. unfold Rdya; simpl.
  destruct ggm_flag_values as [E|E]; rewrite E; split; intros; try lra.
Qed.

(* closed-form entry = Re tr(U^dagger C_i U Lambda_j) *)
Lemma closed_entry U i j : (0 < d)%nat -> (i < n)%nat -> (j < d * d)%nat ->
  rget RO (liouville_closed RO d U basis) i j
  = fst (ftr d (fmul d (toF (transform_by_unitary RO d U (nthm basis i))) (Cl (ggm_basis RO d) j))).
Proof.
  intros Hd Hi Hj. unfold rget, vg, nthv, liouville_closed.
  rewrite (nth_map_default (A:=Mat (T:=R)) (ggm_expand_re RO d) _ _ [] [])
    by (unfold conjugated_basis; rewrite map_length; auto).
  fold (nthm (conjugated_basis RO d U basis) i). rewrite conjugated_basis_nth by auto.
  rewrite ggm_expand_eq_expand. apply expand_re_nth. rewrite ggm_basis_length; auto.
Qed.
Lemma generic_entry U i j : (i < n)%nat -> (j < n)%nat ->
  rget RO (liouville_generic RO d U basis) i j
  = fst (ftr d (fmul d (toF (transform_by_unitary RO d U (nthm basis i))) (Cl basis j))).
Proof.
  intros Hi Hj. unfold rget, vg, nthv, liouville_generic.
  rewrite (nth_map_default (A:=Mat (T:=R)) (fun M => expand_re RO d M basis) _ _ [] [])
    by (unfold conjugated_basis; rewrite map_length; auto).
  fold (nthm (conjugated_basis RO d U basis) i). rewrite conjugated_basis_nth by auto.
  apply expand_re_nth; auto.
Qed.

Definition l1norm (A : fmat) : R :=
  sumn' d (fun a => sumn' d (fun b => Rabs (fst (A a b)) + Rabs (snd (A a b)))).
Lemma l1norm_nonneg A : 0 <= l1norm A.
Proof.
  apply sumn_nonneg. intros a _. apply sumn_nonneg. intros b _.
  pose proof (Rabs_pos (fst (A a b))). pose proof (Rabs_pos (snd (A a b))). lra.
Qed.

Lemma trace_diff_bound A Bm Bm' tol :
  (forall a b, (a < d)%nat -> (b < d)%nat -> sqrt (cabs2 RO (csub' (Bm' a b) (Bm a b))) <= tol) ->
  Rabs (fst (ftr d (fmul d A Bm)) - fst (ftr d (fmul d A Bm'))) <= tol * l1norm A.
Proof.
  intros H. unfold ftr, fmul, l1norm.
  rewrite !csumn_re. rewrite <- Rabs_Ropp.
  replace (- (sumn' d (fun k => fst (csumn' d (fun k0 => cmul' (A k k0) (Bm k0 k)))) -
              sumn' d (fun k => fst (csumn' d (fun k0 => cmul' (A k k0) (Bm' k0 k))))))
    with (sumn' d (fun a => sumn' d (fun b => fst (cmul' (A a b) (csub' (Bm' b a) (Bm b a)))))).
  2:{ replace (- (sumn' d (fun k => fst (csumn' d (fun k0 => cmul' (A k k0) (Bm k0 k)))) -
                 sumn' d (fun k => fst (csumn' d (fun k0 => cmul' (A k k0) (Bm' k0 k))))))
        with (sumn' d (fun k => fst (csumn' d (fun k0 => cmul' (A k k0) (Bm' k0 k))))
              + (-1) * sumn' d (fun k => fst (csumn' d (fun k0 => cmul' (A k k0) (Bm k0 k))))) by ring.
      rewrite <- sumn_mul_l, <- sumn_add. apply sumn_ext. intros a _.
      rewrite !csumn_re. rewrite <- sumn_mul_l, <- sumn_add. apply sumn_ext. intros b _. csimp. ring. }
  rewrite <- sumn_mul_l. eapply Rle_trans. apply sumn_abs. apply sumn_le. intros a Ha.
  rewrite <- sumn_mul_l. eapply Rle_trans. apply sumn_abs. apply sumn_le. intros b Hb.
  destruct (sqrt_cabs2_bounds _ _ (H b a Hb Ha)) as [H1 H2].
  set (e := csub' (Bm' b a) (Bm b a)) in *. csimp.
  pose proof (Rabs_pos (fst (A a b))). pose proof (Rabs_pos (snd (A a b))).
  eapply Rle_trans. apply Rabs_triang. rewrite Rabs_Ropp, !Rabs_mult.
  assert (Rabs (fst (A a b)) * Rabs (fst e) <= Rabs (fst (A a b)) * tol) by (apply Rmult_le_compat_l; auto).
  assert (Rabs (snd (A a b)) * Rabs (snd e) <= Rabs (snd (A a b)) * tol) by (apply Rmult_le_compat_l; auto).
  change (fst e) with (fst (Bm' b a) - fst (Bm b a)) in *. change (snd e) with (snd (Bm' b a) - snd (Bm b a)) in *.
  lra.
Qed.

(* C15_all_paths, no hypothesis on labels: the dispatcher differs from the generic path by at most
   atol * |U^dagger C_i U|_1 (atol = eps d^3 of the `==` test), and not at all when the closed-form path is not taken *)
Theorem liouville_all_paths is_ggm U i j : (i < n)%nat -> (j < n)%nat ->
  Rabs (rget RO (LR is_ggm U) i j - rget RO (liouville_generic RO d U basis) i j)
  <= basis_atol RO d * l1norm (toF (transform_by_unitary RO d U (nthm basis i))).
Proof.
  intros Hi Hj. cbv beta. rewrite LR_entry by auto.
  assert (Z : 0 <= basis_atol RO d * l1norm (toF (transform_by_unitary RO d U (nthm basis i)))).
  { apply Rmult_le_pos. apply basis_atol_nonneg. apply l1norm_nonneg. }
  destruct (guard is_ggm) eqn:G; cbn [andb].
  2:{ rewrite Rminus_diag_eq by reflexivity. rewrite Rabs_R0. exact Z. }
  destruct (Rgtb (basis_is_ggm_flag RO d basis) (half RO)) eqn:F.
  2:{ rewrite Rminus_diag_eq by reflexivity. rewrite Rabs_R0. exact Z. }
  apply flag_gt_half in F. apply ggm_flag_one_iff in F.
  unfold guard in G. apply andb_prop in G. destruct G as [G1 G2]. apply andb_prop in G1. destruct G1 as [_ G1].
  apply Nat.ltb_lt in G1. apply Nat.eqb_eq in G2. unfold ggm_threshold in G1.
  assert (Hd : (0 < d)%nat) by lia. fold n in G2.
  rewrite closed_entry by (auto; lia). rewrite generic_entry by auto.
  apply trace_diff_bound. intros a b Ha Hb. apply (F j a b); auto. lia.
Qed.

(* exact version: a basis that passes the `==` test with the Gell-Mann basis is the Gell-Mann basis *)
Definition close_exact : Prop := basis_close -> basis = ggm_basis RO d.

Theorem liouville_all_paths_exact is_ggm U i j : close_exact -> (i < n)%nat -> (j < n)%nat ->
  rget RO (LR is_ggm U) i j = rget RO (liouville_generic RO d U basis) i j.
Proof.
  intros Hx Hi Hj. cbv beta. rewrite LR_entry by auto. destruct (guard is_ggm); cbn [andb]; auto.
  destruct (Rgtb (basis_is_ggm_flag RO d basis) (half RO)) eqn:F; auto.
  apply flag_gt_half in F. apply ggm_flag_one_iff in F.
  assert (E : liouville_closed RO d U basis = liouville_generic RO d U basis).
  { rewrite (Hx F). apply ggm_path_eq_generic. }
  rewrite E. reflexivity.
Qed.
(* when the guard fails the generic path is taken, whatever the label says *)
Theorem liouville_guard_false is_ggm U : guard is_ggm = false ->
  liouville_representation RO d is_ggm U basis = liouville_generic RO d U basis.
Proof. intros H. unfold liouville_representation. fold (guard is_ggm). rewrite H. reflexivity. Qed.

Theorem liouville_entries is_ggm U i j : close_exact -> basis_herm d basis -> (i < n)%nat -> (j < n)%nat ->
  ftr d (fmul d (Cl basis i) (fmul d (toF U) (fmul d (Cl basis j) (fadj (toF U)))))
  = (rget RO (LR is_ggm U) i j, 0).
Proof. intros Hx Hh Hi Hj. cbv beta. rewrite liouville_all_paths_exact by auto. apply liouville_entries_generic; auto. Qed.

Theorem liouville_id is_ggm i j : close_exact -> basis_orth d basis -> (i < n)%nat -> (j < n)%nat ->
  rget RO (LR is_ggm (mid RO d)) i j = if Nat.eqb i j then 1 else 0.
Proof. intros Hx Ho Hi Hj. cbv beta. rewrite liouville_all_paths_exact by auto. apply liouville_id_generic; auto. Qed.

Theorem liouville_mult is_ggm U V i j : close_exact -> basis_herm d basis -> basis_complete d basis ->
  (i < n)%nat -> (j < n)%nat ->
  rget RO (LR is_ggm (mmul RO d U V)) i j = sumn' n (fun k => rget RO (LR is_ggm U) i k * rget RO (LR is_ggm V) k j).
Proof.
  intros Hx Hh Hc Hi Hj. cbv beta. rewrite liouville_all_paths_exact by auto.
  rewrite (liouville_mult_generic d basis U V i j Hh Hc Hi Hj). apply sumn_ext. intros k Hk.
  rewrite !liouville_all_paths_exact by auto. reflexivity.
Qed.

Theorem liouville_orthogonal is_ggm U i j : close_exact -> basis_herm d basis -> basis_orth d basis ->
  basis_complete d basis -> funitary d (toF U) -> (i < n)%nat -> (j < n)%nat ->
  sumn' n (fun k => rget RO (LR is_ggm U) k i * rget RO (LR is_ggm U) k j) = (if Nat.eqb i j then 1 else 0) /\
  sumn' n (fun k => rget RO (LR is_ggm U) i k * rget RO (LR is_ggm U) j k) = (if Nat.eqb i j then 1 else 0).
Proof.
  intros Hx Hh Ho Hc HU Hi Hj. cbv beta.
  destruct (liouville_orthogonal_generic d basis U i j Hh Ho Hc HU Hi Hj) as [H1 H2]. split.
  - rewrite <- H1. apply sumn_ext. intros k Hk. rewrite !liouville_all_paths_exact by auto. reflexivity.
  - rewrite <- H2. apply sumn_ext. intros k Hk. rewrite !liouville_all_paths_exact by auto. reflexivity.
Qed.

Theorem liouville_adjoint is_ggm U i j : close_exact -> (i < n)%nat -> (j < n)%nat ->
  rget RO (LR is_ggm (madj RO d U)) i j = rget RO (LR is_ggm U) j i.
Proof. intros Hx Hi Hj. cbv beta. rewrite !liouville_all_paths_exact by auto. apply liouville_adjoint_generic; auto. Qed.

(* ---- stacks of unitaries: the leading axis is mapped over ---- *)
Lemma liouville_stack_nth is_ggm Us t : (t < length Us)%nat ->
  nth t (liouville_stack RO d is_ggm Us basis) [] = LR is_ggm (nth t Us []).
Proof. intros H. unfold liouville_stack.
  apply (nth_map_default (A:=Mat (T:=R)) (fun U => liouville_representation RO d is_ggm U basis)); auto. Qed.
Lemma liouville_stack_length is_ggm Us : length (liouville_stack RO d is_ggm Us basis) = length Us.
Proof. unfold liouville_stack. apply map_length. Qed.

Definition stack_mul (Us Vs : list (Mat (T:=R))) : list (Mat (T:=R)) :=
  map (fun UV => mmul RO d (fst UV) (snd UV)) (combine Us Vs).

Theorem liouville_stack_mult is_ggm Us Vs t i j : close_exact -> basis_herm d basis -> basis_complete d basis ->
  (t < length Us)%nat -> (t < length Vs)%nat -> (i < n)%nat -> (j < n)%nat ->
  rget RO (nth t (liouville_stack RO d is_ggm (stack_mul Us Vs) basis) []) i j
  = sumn' n (fun k => rget RO (nth t (liouville_stack RO d is_ggm Us basis) []) i k
                      * rget RO (nth t (liouville_stack RO d is_ggm Vs basis) []) k j).
Proof.
  intros Hl Hh Hc HtU HtV Hi Hj.
  assert (Hlen : (t < length (combine Us Vs))%nat) by (rewrite combine_length; lia).
  rewrite !liouville_stack_nth; auto.
  2:{ unfold stack_mul. rewrite map_length. auto. }
  unfold stack_mul.
  rewrite (nth_map_default (A:=(Mat (T:=R) * Mat (T:=R))%type) (fun UV => mmul RO d (fst UV) (snd UV)) _ _ ([], []) []) by auto.
  rewrite combine_nth_lt by auto. simpl fst. simpl snd.
  apply liouville_mult; auto.
Qed.

Theorem liouville_stack_orthogonal is_ggm Us t i j : close_exact -> basis_herm d basis -> basis_orth d basis ->
  basis_complete d basis -> (t < length Us)%nat -> funitary d (toF (nth t Us [])) -> (i < n)%nat -> (j < n)%nat ->
  let L := nth t (liouville_stack RO d is_ggm Us basis) [] in
  sumn' n (fun k => rget RO L k i * rget RO L k j) = (if Nat.eqb i j then 1 else 0) /\
  sumn' n (fun k => rget RO L i k * rget RO L j k) = (if Nat.eqb i j then 1 else 0).
Proof.
  intros Hl Hh Ho Hc Ht HU Hi Hj L. unfold L. rewrite liouville_stack_nth by auto.
  apply liouville_orthogonal; auto.
Qed.

Theorem liouville_stack_entries is_ggm Us t i j : close_exact -> basis_herm d basis ->
  (t < length Us)%nat -> (i < n)%nat -> (j < n)%nat ->
  ftr d (fmul d (Cl basis i) (fmul d (toF (nth t Us [])) (fmul d (Cl basis j) (fadj (toF (nth t Us []))))))
  = (rget RO (nth t (liouville_stack RO d is_ggm Us basis) []) i j, 0).
Proof. intros Hl Hh Ht Hi Hj. rewrite liouville_stack_nth by auto. apply liouville_entries; auto. Qed.
End Dispatch.


(* ============================ verdicts of liouville_is_CP / liouville_is_cCP ============================ *)
Lemma verdict_correct_re N A V D tol : funitary N V -> feq N A (fmul N V (fmul N (fdiagR D) (fadj V))) ->
  ((forall k, (k < N)%nat -> - tol <= D k) <-> (forall x, - tol * vnorm2 N x <= fst (qform N A x))).
Proof.
  intros HV HA. rewrite (verdict_correct N A V D HV HA tol). split; intros H x.
  - apply H.
  - split; [apply H | rewrite (qform_eig N A V D HA); reflexivity].
Qed.

Section VerdictList.
Variable N : nat.
Variable Dl : list R.        (* eigenvalues returned by eigh *)
Variable V : fmat.           (* eigenvectors returned by eigh *)
Definition Dfun (k : nat) : R := nth k Dl 0.
(* what the harness validates per case in interval arithmetic: A V = V D with V unitary *)
Definition eig_valid (A : fmat) : Prop :=
  length Dl = N /\ funitary N V /\ feq N A (fmul N V (fmul N (fdiagR Dfun) (fadj V))).

Lemma Forall_Dl P : length Dl = N -> (Forall P Dl <-> forall k, (k < N)%nat -> P (Dfun k)).
Proof.
  intros HL. rewrite Forall_nth. rewrite HL. split; intros H k; [intros Hk; apply H; auto | intros d0 Hk].
  rewrite (nth_indep Dl d0 0) by lia. apply H; auto.
Qed.

Theorem psd_flag_correct A thr : eig_valid A ->
  (psd_flag RO thr Dl = 1 <-> forall x, - thr * vnorm2 N x <= fst (qform N A x)) /\
  (psd_flag RO thr Dl = 1 \/ psd_flag RO thr Dl = 0).
Proof.
  intros [HL [HV HA]]. destruct (psd_flag_spec thr Dl) as [H1 H2]. split; auto.
  rewrite H1. rewrite (Forall_Dl _ HL). apply verdict_correct_re with (V := V); auto.
Qed.

(* the eigenvalues lie in the numerical range *)
Lemma eig_range A lo hi : eig_valid A ->
  (forall x, lo * vnorm2 N x <= fst (qform N A x) <= hi * vnorm2 N x) ->
  Forall (fun ev => lo <= ev <= hi) Dl.
Proof.
  intros [HL [HV HA]] H. apply (Forall_Dl _ HL). intros k Hk.
  destruct (eig_attained N A V Dfun HV HA k Hk) as [x [H1 H2]].
  specialize (H x). rewrite H1, H2 in H. simpl in H. lra.
Qed.

Corollary flag_one_of_psd A thr : eig_valid A -> 0 <= thr -> (forall x, 0 <= fst (qform N A x)) ->
  psd_flag RO thr Dl = 1.
Proof.
  intros He Ht H. apply (psd_flag_correct A thr He). intros x.
  pose proof (vnorm2_nonneg N x). specialize (H x). nra.
Qed.
Corollary flag_zero_of_witness A thr : eig_valid A -> (exists x, fst (qform N A x) < - thr * vnorm2 N x) ->
  psd_flag RO thr Dl = 0.
Proof.
  intros He [x Hx]. destruct (psd_flag_correct A thr He) as [H1 [H2|H2]]; auto.
  exfalso. rewrite H1 in H2. specialize (H2 x). lra.
Qed.
End VerdictList.

(* Liouville matrix of a Kraus map: S_ij = sum_k w_k L(K_k)_ij *)
Lemma liou_of_kraus d Cb m w K i j :
  liou_of d Cb (kraus_map d m w K) i j = csumn' m (fun k => cmul' (w k, 0) (Lf d Cb (K k) i j)).
Proof.
  unfold liou_of, kraus_map, sandwich. rewrite fmul_flin_r, ftr_flin.
  apply csumn_ext. intros k _. f_equal. symmetry. apply Lf_entries.
Qed.

Section CPList.
Variable d : nat.
Hypothesis Hd : (0 < d)%nat.
Variable basis : list (Mat (T:=R)).
Let n := length basis.
Let N := (d * d)%nat.
Notation Clb := (Cl basis).
Variable S : list (list R).
Notation Choi := (toF (liouville_to_choi RO d S basis)).

Lemma qform_choi_of Phi x : (forall i j, (i < n)%nat -> (j < n)%nat -> Sfun S i j = liou_of d Clb Phi i j) ->
  qform N Choi x = qform N (choiF d n Clb (liou_of d Clb Phi)) x.
Proof.
  intros H. apply qform_ext. intros r c Hr Hc. rewrite choi_entry by auto. apply choiF_ext. exact H.
Qed.

(* S is the Liouville matrix of X -> sum_k w_k K_k X K_k^dagger *)
Definition S_is_kraus (m : nat) (w : nat -> R) (K : nat -> fmat) : Prop :=
  forall i j, (i < n)%nat -> (j < n)%nat -> rget RO S i j = sumn' m (fun k => w k * Lr d Clb (K k) i j).

Lemma S_is_kraus_liou m w K : basis_herm d basis -> S_is_kraus m w K ->
  forall i j, (i < n)%nat -> (j < n)%nat -> Sfun S i j = liou_of d Clb (kraus_map d m w K) i j.
Proof.
  intros Hh HS i j Hi Hj. rewrite liou_of_kraus. unfold Sfun. rewrite HS by auto. apply c_eq.
  - rewrite csumn_re. simpl. apply sumn_ext. intros k _. unfold Lr. csimp. ring.
  - rewrite csumn_im. simpl. symmetry. rewrite (sumn_ext m _ (fun _ => 0)). apply sumn_0.
    intros k _. csimp. rewrite (Lf_real d n Clb (K k) i j Hh Hi Hj). ring.
Qed.

(* CP direction: unitary channels (m = 1, w = 1), convex mixtures, any Kraus map with weights >= 0 *)
Theorem choi_kraus_psd_list m w K x : basis_herm d basis -> basis_complete d basis -> S_is_kraus m w K ->
  (forall k, (k < m)%nat -> 0 <= w k) -> 0 <= fst (qform N Choi x).
Proof.
  intros Hh Hc HS Hw. rewrite (qform_choi_of (kraus_map d m w K) x (S_is_kraus_liou m w K Hh HS)).
  apply choi_kraus_psd; auto.
Qed.

(* the Choi matrix of a unitary channel is the rank-one matrix |U>><<U| *)
Theorem choi_unitary_rank1 U r c : basis_herm d basis -> basis_complete d basis ->
  (forall i j, (i < n)%nat -> (j < n)%nat -> rget RO S i j = Lr d Clb U i j) ->
  (r < N)%nat -> (c < N)%nat ->
  Choi r c = cmul' (U (r mod d) (r / d))%nat (cconj' (U (c mod d) (c / d))%nat).
Proof.
  intros Hh Hc HS Hr Hcc. rewrite choi_entry by auto.
  assert (HK : S_is_kraus 1 (fun _ => 1) (fun _ => U)).
  { intros i j Hi Hj. rewrite HS by auto. simpl. ring. }
  rewrite (choiF_ext d basis _ _ (S_is_kraus_liou 1 (fun _ => 1) (fun _ => U) Hh HK)).
  unfold kraus_map. rewrite (choiF_sandwich d n Clb 1 _ _ _ Hc r c Hr Hcc).
  simpl. unfold fadj. cring.
Qed.

Theorem kraus_flag_CP m w K Dl V atol : basis_herm d basis -> basis_complete d basis -> S_is_kraus m w K ->
  (forall k, (k < m)%nat -> 0 <= w k) -> 0 <= atol -> eig_valid N Dl V Choi ->
  liouville_is_CP RO d atol Dl = 1.
Proof.
  intros Hh Hc HS Hw Ha He. unfold liouville_is_CP.
  apply (flag_one_of_psd N Dl V Choi _ He). apply eff_atol_nonneg; auto.
  intros x. apply (choi_kraus_psd_list m w K); auto.
Qed.

(* negative direction: one negative weight on a Kraus operator orthogonal to the others *)
Theorem kraus_negative_not_psd m w K k0 : basis_herm d basis -> basis_complete d basis -> S_is_kraus m w K ->
  (k0 < m)%nat -> w k0 < 0 ->
  (forall k, (k < m)%nat -> k <> k0 -> kvec d K k (fun r => K k0 (r mod d) (r / d))%nat = 0c) ->
  kvec d K k0 (fun r => K k0 (r mod d) (r / d))%nat <> 0c ->
  exists x, fst (qform N Choi x) < 0.
Proof.
  intros Hh Hc HS Hk Hw Ho Hn.
  destruct (choi_kraus_negative d n Clb m w K k0 Hc Hk Hw Ho Hn) as [x Hx].
  exists x. rewrite (qform_choi_of (kraus_map d m w K) x (S_is_kraus_liou m w K Hh HS)). exact Hx.
Qed.

(* cCP direction: Lindblad generators *)
Theorem lindblad_cCP_list m gam Lk G x : basis_complete d basis ->
  (forall i j, (i < n)%nat -> (j < n)%nat -> Sfun S i j = liou_of d Clb (lindblad_map d m gam Lk G) i j) ->
  (forall k, (k < m)%nat -> 0 <= gam k) ->
  0 <= fst (qform N (toF (projected_choi RO d (liouville_to_choi RO d S basis))) x).
Proof.
  intros Hc HS Hg. unfold N. rewrite (qform_projected d Hd).
  fold N. rewrite (qform_choi_of (lindblad_map d m gam Lk G) _ HS).
  apply lindblad_cCP_form; auto. apply Qf_traceless; auto.
Qed.

Theorem lindblad_flag_cCP m gam Lk G Dl V atol : basis_complete d basis ->
  (forall i j, (i < n)%nat -> (j < n)%nat -> Sfun S i j = liou_of d Clb (lindblad_map d m gam Lk G) i j) ->
  (forall k, (k < m)%nat -> 0 <= gam k) -> 0 <= atol ->
  eig_valid N Dl V (toF (projected_choi RO d (liouville_to_choi RO d S basis))) ->
  liouville_is_cCP RO d atol Dl = 1.
Proof.
  intros Hc HS Hg Ha He. unfold liouville_is_cCP.
  apply (flag_one_of_psd N Dl V _ _ He). apply eff_atol_nonneg; auto.
  intros x. apply (lindblad_cCP_list m gam Lk G); auto.
Qed.
End CPList.

(* ============================ the cached Liouville total propagator of a pulse ============================ *)
Section Cache.
Variable d : nat.
Variable basis : list (Mat (T:=R)).
Let n := length basis.
Variable is_ggm : bool.

(* invariant: whenever the slot is filled it holds liouville_representation(total_propagator, basis) *)
Definition tpl_ok (p : pcache (T:=R)) : Prop :=
  forall L, pc_tpl p = Some L -> L = liouville_representation RO d is_ggm (pc_total p) basis.

(* the property getter returns the Liouville representation of the total propagator and keeps the invariant *)
Theorem tpl_get_ok p : tpl_ok p ->
  fst (tpl_get RO d is_ggm basis p) = liouville_representation RO d is_ggm (pc_total p) basis /\
  tpl_ok (snd (tpl_get RO d is_ggm basis p)) /\ pc_total (snd (tpl_get RO d is_ggm basis p)) = pc_total p.
Proof.
  intros H. unfold tpl_get. destruct (pc_tpl p) as [L|] eqn:E; simpl.
  - repeat split; auto.
  - repeat split; auto. intros L HL. simpl in HL. injection HL as <-. reflexivity.
Qed.
(* cache_control_matrix *)
Theorem tpl_cache_control_matrix_ok p : tpl_ok p ->
  pc_tpl (tpl_cache_control_matrix RO d is_ggm basis p)
    = Some (liouville_representation RO d is_ggm (pc_total p) basis) /\
  pc_total (tpl_cache_control_matrix RO d is_ggm basis p) = pc_total p.
Proof.
  intros H. unfold tpl_cache_control_matrix. destruct (pc_tpl p) as [L|] eqn:E; simpl; auto.
  split; auto. rewrite E. f_equal. apply H; auto.
Qed.
(* concatenate, extend: explicit call on the new total propagator *)
Theorem tpl_set_explicit_ok total :
  pc_tpl (tpl_set_explicit RO d is_ggm basis total) = Some (liouville_representation RO d is_ggm total basis) /\
  pc_total (tpl_set_explicit RO d is_ggm basis total) = total.
Proof. split; reflexivity. Qed.
End Cache.

(* remap: conjugation by a permutation unitary that permutes the basis elements *)
Section Remap.
Variable d n : nat.
Variable Cb : nat -> fmat.
Variable P : fmat.
Variable pi : nat -> nat.
Hypothesis HP : funitary d P.
Hypothesis Hpi : forall k, (k < n)%nat -> feq d (fmul d P (fmul d (Cb k) (fadj P))) (Cb (pi k)).

Lemma Lf_remap U i j : (i < n)%nat -> (j < n)%nat ->
  Lf d Cb (fmul d P (fmul d U (fadj P))) (pi i) (pi j) = Lf d Cb U i j.
Proof.
  intros Hi Hj. destruct HP as [HP1 HP2].
  unfold Lf, conjU. rewrite <- (Hpi i Hi), <- (Hpi j Hj).
  rewrite !fadj_mul, fadj_invol_feq. rewrite <- !fmul_assoc.
  (* P (U^dag (P^dag (P (C_i (P^dag (P (U (P^dag (P (C_j P^dag))))))))))  *)
  rewrite (fmul_assoc d (fadj P) P). rewrite HP1, fmul_id_l.
  rewrite (fmul_assoc d (fadj P) P). rewrite HP1, fmul_id_l.
  rewrite (fmul_assoc d (fadj P) P). rewrite HP1, fmul_id_l.
  rewrite ftr_cyclic. rewrite <- !fmul_assoc.
  rewrite HP1, fmul_id_r. reflexivity.
Qed.
End Remap.

Lemma index_of_nth perm i : NoDup perm -> (i < length perm)%nat -> index_of (nth i perm 0%nat) perm = i.
Proof.
  revert i. induction perm as [|y r IH]; intros i Hnd Hi; simpl in *. lia.
  inversion Hnd; subst. destruct i.
  - rewrite Nat.eqb_refl. reflexivity.
  - destruct (Nat.eqb_spec (nth i r 0%nat) y) as [E|E].
    + exfalso. apply H1. rewrite <- E. apply nth_In. lia.
    + f_equal. apply IH; auto. lia.
Qed.

Section RemapList.
Variable d : nat.
Variable basis : list (Mat (T:=R)).
Let n := length basis.
Variable perm : list nat.
Hypothesis Hperm_len : length perm = n.
Hypothesis Hperm_nodup : NoDup perm.
Hypothesis Hperm_rng : forall i, (i < n)%nat -> (nth i perm 0 < n)%nat.
Variable P : fmat.
Hypothesis HP : funitary d P.
(* C06: the permutation of the qubits permutes the Pauli basis elements *)
Hypothesis Hbasis : forall k, (k < n)%nat ->
  feq d (fmul d P (fmul d (Cl basis k) (fadj P))) (Cl basis (nth k perm 0%nat)).

Lemma scatter2_entry L i j : (i < n)%nat -> (j < n)%nat ->
  rget RO (scatter2 RO perm L) (nth i perm 0%nat) (nth j perm 0%nat) = rget RO L i j.
Proof.
  intros Hi Hj. unfold scatter2. rewrite Hperm_len. unfold rget at 1. unfold vg, nthv, vget.
  rewrite nth_build by (apply Hperm_rng; auto). rewrite nth_build by (apply Hperm_rng; auto).
  rewrite !index_of_nth by (auto; lia). reflexivity.
Qed.

(* remap (Pauli basis): the permuted cached matrix is the Liouville representation of the permuted total propagator *)
Theorem tpl_remap_ok p total' L' i j :
  tpl_ok d basis false p ->
  feq d (toF total') (fmul d P (fmul d (toF (pc_total p)) (fadj P))) ->
  pc_tpl (tpl_remap RO true perm total' p) = Some L' -> (i < n)%nat -> (j < n)%nat ->
  rget RO L' (nth i perm 0%nat) (nth j perm 0%nat)
  = rget RO (liouville_representation RO d false total' basis) (nth i perm 0%nat) (nth j perm 0%nat)
  /\ pc_total (tpl_remap RO true perm total' p) = total'.
Proof.
  intros Hok Ht HL Hi Hj. unfold tpl_remap in *. destruct (pc_tpl p) as [L|] eqn:E; simpl in *; [|discriminate].
  injection HL as <-. split; auto.
  rewrite scatter2_entry by auto. rewrite (Hok L E).
  unfold liouville_representation. simpl.
  rewrite !liouville_generic_entry by (auto; apply Hperm_rng; auto).
  unfold Lr. rewrite (Lf_ext d (Cl basis) _ _ _ _ Ht).
  rewrite (Lf_remap d n (Cl basis) P (fun k => nth k perm 0%nat) HP Hbasis); auto.
Qed.

(* a basis that is not labelled 'Pauli' drops the cached matrix instead of permuting it *)
Theorem tpl_remap_nonpauli p total' : pc_tpl (tpl_remap RO false perm total' p) = None.
Proof. unfold tpl_remap. destruct (pc_tpl p); reflexivity. Qed.
End RemapList.

(* choi_formula at the level of the list model: for a superoperator matrix S_ij = tr(C_i Phi(C_j)) of a
   linear map Phi the code's contraction + reshape is sum_ab E_ab (x) Phi(E_ab) *)
Theorem choi_formula d (Hd : (0 < d)%nat) basis S Phi r c :
  basis_complete d basis -> lin_map d (length basis) (Cl basis) Phi ->
  (forall i j, (i < length basis)%nat -> (j < length basis)%nat -> Sfun S i j = liou_of d (Cl basis) Phi i j) ->
  (r < d * d)%nat -> (c < d * d)%nat ->
  toF (liouville_to_choi RO d S basis) r c = Phi (Eab (r / d) (c / d)) (r mod d)%nat (c mod d)%nat.
Proof.
  intros Hc Hl HS Hr Hcc. rewrite choi_entry by auto. rewrite (choiF_ext d basis _ _ HS).
  destruct (div_mod_lt d r Hd Hr), (div_mod_lt d c Hd Hcc). unfold choiF.
  apply choi4_formula; auto.
Qed.

(* ============================ the textbook form of the Lindblad generator ============================ *)
Lemma csumn_lin4 n (z1 z2 : Cx) (a b c e : nat -> Cx) :
  csumn' n (fun k => cadd' (cmul' z1 (csub' (a k) (b k))) (cmul' z2 (cadd' (c k) (e k))))
  = cadd' (cmul' z1 (csub' (csumn' n a) (csumn' n b))) (cmul' z2 (cadd' (csumn' n c) (csumn' n e))).
Proof. induction n; simpl. ring. rewrite IHn. ring. Qed.

Section LindbladStd.
Variable d m : nat.
Variable gam : nat -> R.
Variable Lk : nat -> fmat.
Variable H : fmat.
(* M = sum_k gamma_k L_k^dagger L_k,  G = -i H - M/2 *)
Definition Msum : fmat := flin m (fun k => (gam k, 0)) (fun k => fmul d (fadj (Lk k)) (Lk k)).
Definition Gstd : fmat := fun i j => cadd' (cmul' (0, -1) (H i j)) (cmul' (- (1 / 2), 0) (Msum i j)).

Lemma Msum_herm : fherm d Msum.
Proof.
  intros i j _ _. unfold fadj, Msum, flin. rewrite csumn_conj. apply csumn_ext. intros k _.
  rewrite cconj_mul. f_equal. cring. unfold fmul. rewrite csumn_conj. apply csumn_ext. intros l _.
  unfold fadj. rewrite cconj_mul, cconj_invol. ring.
Qed.

(* G X + X G^dagger = -i [H, X] - 1/2 {M, X} *)
Theorem lindblad_standard_form X : fherm d H ->
  feq d (fadd (fmul d Gstd X) (fmul d X (fadj Gstd)))
        (fun i j => cadd' (cmul' (0, -1) (csub' (fmul d H X i j) (fmul d X H i j)))
                          (cmul' (- (1 / 2), 0) (cadd' (fmul d Msum X i j) (fmul d X Msum i j)))).
Proof.
  intros HH i j Hi Hj. unfold fadd, fmul at 1 2 3 4 5 6. rewrite <- csumn_lin4, <- csumn_add.
  apply csumn_ext. intros k Hk. unfold fadj, Gstd.
  pose proof (HH k j Hk Hj) as E1. pose proof (Msum_herm k j Hk Hj) as E2. unfold fadj in E1, E2.
  rewrite cconj_add, !cconj_mul, E1, E2. cring.
Qed.
End LindbladStd.

(* ============================ verdicts of a stack: one threshold per member ============================ *)
Theorem verdict_stack_per_member d atol Ds t : (t < length Ds)%nat ->
  nth t (liouville_is_CP_stack RO d atol Ds) 0 = liouville_is_CP RO d atol (nth t Ds []) /\
  nth t (liouville_is_cCP_stack RO d atol Ds) 0 = liouville_is_cCP RO d atol (nth t Ds []).
Proof.
  intros H. unfold liouville_is_CP_stack, liouville_is_cCP_stack. split.
  - apply (nth_map_default (A:=list R) (liouville_is_CP RO d atol)); auto.
  - apply (nth_map_default (A:=list R) (liouville_is_cCP RO d atol)); auto.
Qed.
(* hence the verdict of a member does not depend on the other members of the stack *)
Corollary verdict_stack_independent d atol Ds Ds' t t' : (t < length Ds)%nat -> (t' < length Ds')%nat ->
  nth t Ds [] = nth t' Ds' [] ->
  nth t (liouville_is_CP_stack RO d atol Ds) 0 = nth t' (liouville_is_CP_stack RO d atol Ds') 0 /\
  nth t (liouville_is_cCP_stack RO d atol Ds) 0 = nth t' (liouville_is_cCP_stack RO d atol Ds') 0.
Proof.
  intros H H' E. destruct (verdict_stack_per_member d atol Ds t H) as [A1 A2].
  destruct (verdict_stack_per_member d atol Ds' t' H') as [B1 B2]. rewrite A1, A2, B1, B2, E. auto.
Qed.
