(* The concatenation rule (numeric.calculate_control_matrix_from_atomic as fed by
   pulse_sequence.concatenate) equals the from-scratch control matrix of the sequenced pulse:
   for every number of pulses, every frequency, every complete Hermitian basis.              *)
From Coq Require Import ZArith Reals List Lra Lia Setoid Morphisms.
From FF Require Import Base.Ops Inst.RInst Base.RAlg Model.Numeric Model.Atomic Proofs.AtomicAlg.
Import ListNotations.
Local Open Scope R_scope.

(* ---------- rank-3 arrays ---------- *)
Lemma a3get_a3build n1 n2 n3 (f : nat -> nat -> nat -> Cx) a k o : (a < n1)%nat -> (k < n2)%nat -> (o < n3)%nat ->
  a3get RO (a3build n1 n2 n3 f) a k o = f a k o.
Proof.
  intros Ha Hk Ho. unfold a3get, a3build.
  rewrite nth_build by auto. rewrite nth_build by auto. rewrite nth_build by auto. reflexivity.
Qed.
Lemma a3get_a3add n1 n2 n3 A B a k o : (a < n1)%nat -> (k < n2)%nat -> (o < n3)%nat ->
  a3get RO (a3add RO n1 n2 n3 A B) a k o = cadd' (a3get RO A a k o) (a3get RO B a k o).
Proof. intros. unfold a3add. rewrite a3get_a3build; auto. Qed.
Lemma a3get_a3zero n1 n2 n3 a k o : (a < n1)%nat -> (k < n2)%nat -> (o < n3)%nat ->
  a3get RO (a3zero RO n1 n2 n3) a k o = 0c.
Proof. intros. unfold a3zero. rewrite a3get_a3build; auto. Qed.

Lemma csumn_shift n (f : nat -> Cx) : csumn' (S n) f = cadd' (f O) (csumn' n (fun k => f (S k))).
Proof. induction n. simpl. ring. rewrite csumn_S, IHn. simpl. ring. Qed.

(* ---------- the from-scratch loop as a sum over segments ---------- *)
Section Loop.
Variable F : list R -> Mat (T:=R) -> Mat (T:=R) -> R -> R -> list R -> Cx.
Fixpoint loop_sum (evs : list (list R)) (Vs Qs : list (Mat (T:=R))) (ts dts : list R) (ncs : list (list R)) : Cx :=
  match evs, Vs, Qs, ts, dts, ncs with
  | ev :: evs', V :: Vs', Q :: Qs', tg :: ts', dt :: dts', nc :: ncs' =>
      cadd' (F ev V Q tg dt nc) (loop_sum evs' Vs' Qs' ts' dts' ncs')
  | _, _, _, _, _, _ => 0c
  end.
End Loop.

Section Scratch.
Variable d : nat.
Variable thr : R.
Variables (om : list R) (bs ns : list (Mat (T:=R))).
Let na := length ns.
Let nk := length bs.
Let no := length om.

Definition step_entry (a k o : nat) (ev : list R) (V Q : Mat (T:=R)) (tg dt : R) (nc : list R) : Cx :=
  a3get RO (cm_step RO d thr ev V Q tg dt om bs ns nc) a k o.

Lemma loop_entry a k o : (a < na)%nat -> (k < nk)%nat -> (o < no)%nat ->
  forall evs Vs Qs ts dts ncs acc,
  a3get RO (cm_scratch_loop RO d thr evs Vs Qs ts dts om bs ns ncs acc) a k o =
  cadd' (a3get RO acc a k o) (loop_sum (step_entry a k o) evs Vs Qs ts dts ncs).
Proof.
  intros Ha Hk Ho. induction evs as [|ev evs IH]; intros Vs Qs ts dts ncs acc.
  - simpl. ring.
  - destruct Vs as [|V Vs]; [simpl; ring|]. destruct Qs as [|Q Qs]; [simpl; ring|].
    destruct ts as [|tg ts]; [simpl; ring|]. destruct dts as [|dt dts]; [simpl; ring|].
    destruct ncs as [|nc ncs]; [simpl; ring|].
    simpl. rewrite IH. rewrite a3get_a3add by assumption. unfold step_entry. ring.
Qed.

(* the inner contraction of a step: sum_{mn} NT[m][n] I[m][n] BT[n][m], as a function of BT *)
Definition innerF (ev : list R) (V : Mat (T:=R)) (dt w : R) (N : Mat (T:=R)) (BT : fmat) : Cx :=
  csumn' d (fun m => csumn' d (fun n =>
    cmul' (cmul' (mget RO (transform_by_unitary RO d V N) m n) (mget RO (foi RO d thr w ev dt) m n)) (BT n m))).
Lemma innerF_ext ev V dt w N A B : feq d A B -> innerF ev V dt w N A = innerF ev V dt w N B.
Proof. intros H. unfold innerF. apply csumn_ext. intros m Hm. apply csumn_ext. intros n Hn. rewrite H; auto. Qed.
Lemma innerF_flin ev V dt w N n c G :
  innerF ev V dt w N (flin n c G) = csumn' n (fun l => cmul' (c l) (innerF ev V dt w N (G l))).
Proof.
  unfold innerF, flin.
  rewrite (csumn_ext d _ (fun m => csumn' n (fun l => cmul' (c l) (csumn' d (fun q =>
     cmul' (cmul' (mget RO (transform_by_unitary RO d V N) m q) (mget RO (foi RO d thr w ev dt) m q)) (G l q m)))))).
  - rewrite csumn_swap. apply csumn_ext. intros l _. rewrite csumn_mul_l. reflexivity.
  - intros m _.
    rewrite (csumn_ext d _ (fun q => csumn' n (fun l => cmul' (c l)
       (cmul' (cmul' (mget RO (transform_by_unitary RO d V N) m q) (mget RO (foi RO d thr w ev dt) m q)) (G l q m))))).
    + rewrite csumn_swap. apply csumn_ext. intros l _. rewrite csumn_mul_l. reflexivity.
    + intros q _. rewrite <- csumn_mul_l. apply csumn_ext. intros l _. ring.
Qed.

Definition Wf (Q V : Mat (T:=R)) : fmat := fmul d (fadj (toF Q)) (toF V).

Lemma step_entry_eq a k o ev V Q tg dt nc : (a < na)%nat -> (k < nk)%nat -> (o < no)%nat ->
  step_entry a k o ev V Q tg dt nc =
  cmul' (cexp' (vg RO om o * tg))
        (cscal RO (vg RO nc a) (innerF ev V dt (vg RO om o) (nth a ns []) (ftbu d (Wf Q V) (Cf bs k)))).
Proof.
  intros Ha Hk Ho. unfold step_entry, cm_step.
  rewrite a3get_a3build by assumption.
  simpl. f_equal. f_equal.
  unfold innerF, nthm.
  rewrite (nth_indep (map (fun w => foi RO d thr w ev dt) om) [] (foi RO d thr 0 ev dt)) by (rewrite map_length; exact Ho).
  rewrite (map_nth (fun w => foi RO d thr w ev dt)).
  rewrite (nth_indep (map (fun N => transform_by_unitary RO d V N) ns) [] (transform_by_unitary RO d V [])) by (rewrite map_length; exact Ha).
  rewrite (map_nth (fun N => transform_by_unitary RO d V N)).
  rewrite (nth_indep (map (fun Ck => transform_by_unitary RO d (mmul RO d (madj RO d Q) V) Ck) bs) [] (transform_by_unitary RO d (mmul RO d (madj RO d Q) V) [])) by (rewrite map_length; exact Hk).
  rewrite (map_nth (fun Ck => transform_by_unitary RO d (mmul RO d (madj RO d Q) V) Ck)).
  apply csumn_ext. intros m Hm. apply csumn_ext. intros n Hn.
  f_equal.
  change (mget RO (transform_by_unitary RO d (mmul RO d (madj RO d Q) V) (nth k bs [])) n m)
    with (toF (transform_by_unitary RO d (mmul RO d (madj RO d Q) V) (nth k bs [])) n m).
  assert (E : feq d (toF (transform_by_unitary RO d (mmul RO d (madj RO d Q) V) (nth k bs []))) (ftbu d (Wf Q V) (Cf bs k))).
  { rewrite toF_tbu. unfold Wf, Cf. rewrite toF_mmul. rewrite toF_madj. reflexivity. }
  apply E; assumption.
Qed.

(* ---------- shifting a step: Q' ~ Q Qc, t' = T + t ---------- *)
Section Shift.
Hypothesis Hherm : forall l, (l < nk)%nat -> fherm d (Cf bs l).
Hypothesis Hcomplete : forall X : fmat, feq d X (flin nk (fun l => ftr d (fmul d (Cf bs l) X)) (Cf bs)).

Definition Rel (Qcf : fmat) (Q' Q : Mat (T:=R)) : Prop := feq d (toF Q') (fmul d (toF Q) Qcf).

Lemma step_shift a k o Qcf L ev V Q' Q T t' tg dt nc :
  (a < na)%nat -> (k < nk)%nat -> (o < no)%nat ->
  Inv d bs Qcf L -> Rel Qcf Q' Q -> t' = T + tg ->
  step_entry a k o ev V Q' t' dt nc =
  cmul' (cexp' (vg RO om o * T))
        (csumn' nk (fun l => cscal RO (rget RO L l k) (step_entry a l o ev V Q tg dt nc))).
Proof.
  intros Ha Hk Ho HI HR ->.
  rewrite step_entry_eq by assumption.
  assert (E : feq d (ftbu d (Wf Q' V) (Cf bs k))
                    (flin nk (fun l => cofr RO (rget RO L l k)) (fun l => ftbu d (Wf Q V) (Cf bs l)))).
  { unfold Wf. unfold Rel in HR. rewrite HR. rewrite fadj_mul. rewrite <- fmul_assoc.
    rewrite ftbu_shift. rewrite (HI k Hk). apply ftbu_flin. }
  rewrite (innerF_ext _ _ _ _ _ _ _ E). rewrite innerF_flin.
  rewrite (csumn_ext nk (fun l => cscal RO (rget RO L l k) (step_entry a l o ev V Q tg dt nc))
            (fun l => cmul' (cmul' (cexp' (vg RO om o * tg)) (cofr RO (vg RO nc a)))
                            (cmul' (cofr RO (rget RO L l k)) (innerF ev V dt (vg RO om o) (nth a ns []) (ftbu d (Wf Q V) (Cf bs l)))))).
  2:{ intros l Hl. rewrite step_entry_eq by assumption. rewrite !cscal_cofr. ring. }
  rewrite csumn_mul_l.
  replace (vg RO om o * (T + tg)) with (vg RO om o * T + vg RO om o * tg) by ring.
  rewrite cexp_add. rewrite cscal_cofr. ring.
Qed.

(* cumulative propagators *)
Fixpoint cum_last (evs : list (list R)) (Vs : list (Mat (T:=R))) (dts : list R) (Q : Mat (T:=R)) : Mat (T:=R) :=
  match evs, Vs, dts with
  | ev :: evs', V :: Vs', dt :: dts' => cum_last evs' Vs' dts' (mmul RO d (segment_propagator RO d ev V dt) Q)
  | _, _, _ => Q
  end.
Fixpoint tsum (T0 : R) (dts : list R) : R := match dts with [] => T0 | x :: r => tsum (T0 + x) r end.

Lemma Rel_step Qcf Q' Q P : Rel Qcf Q' Q -> Rel Qcf (mmul RO d P Q') (mmul RO d P Q).
Proof. unfold Rel. intros H. rewrite !toF_mmul. rewrite H. apply fmul_assoc. Qed.

Lemma loop_shift a k o Qcf L T : (a < na)%nat -> (k < nk)%nat -> (o < no)%nat -> Inv d bs Qcf L ->
  forall evs Vs dts ncs Q' Q T' T1, Rel Qcf Q' Q -> T' = T + T1 ->
  loop_sum (step_entry a k o) evs Vs (cumulative RO d evs Vs dts Q') (cumsum_from RO T' dts) dts ncs =
  cmul' (cexp' (vg RO om o * T))
        (csumn' nk (fun l => cscal RO (rget RO L l k)
           (loop_sum (step_entry a l o) evs Vs (cumulative RO d evs Vs dts Q) (cumsum_from RO T1 dts) dts ncs))).
Proof.
  intros Ha Hk Ho HI.
  assert (Z0 : cmul' (cexp' (vg RO om o * T)) (csumn' nk (fun l => cscal RO (rget RO L l k) 0c)) = 0c).
  { rewrite (csumn_ext nk _ (fun _ => 0c)). rewrite csumn_0. ring. intros; apply c_eq; csimp; ring. }
  induction evs as [|ev evs IH]; intros Vs dts ncs Q' Q T' T1 HR HT.
  - simpl. symmetry. exact Z0.
  - destruct Vs as [|V Vs]; [simpl; symmetry; exact Z0|].
    destruct dts as [|dt dts]; [simpl; symmetry; exact Z0|].
    destruct ncs as [|nc ncs]; [simpl; symmetry; exact Z0|].
    simpl.
    rewrite (step_shift a k o Qcf L ev V Q' Q T T' T1 dt nc Ha Hk Ho HI HR HT).
    rewrite (IH Vs dts ncs _ (mmul RO d (segment_propagator RO d ev V dt) Q) (oadd RO T' dt) (oadd RO T1 dt)).
    + rewrite <- cmul_add_distr_l. f_equal. rewrite <- csumn_add. apply csumn_ext. intros l _.
      apply c_eq; csimp; ring.
    + apply Rel_step. exact HR.
    + simpl. rewrite HT. ring.
Qed.

Lemma cum_last_rel Qcf : forall evs Vs dts Q' Q, Rel Qcf Q' Q -> Rel Qcf (cum_last evs Vs dts Q') (cum_last evs Vs dts Q).
Proof.
  induction evs as [|ev evs IH]; intros Vs dts Q' Q HR; simpl; auto.
  destruct Vs; auto. destruct dts; auto. apply IH. apply Rel_step. exact HR.
Qed.
Lemma tsum_shift : forall dts T T1, tsum (T + T1) dts = T + tsum T1 dts.
Proof. induction dts; intros; simpl. reflexivity. rewrite <- IHdts. f_equal. ring. Qed.

(* the loop over appended segment lists splits *)
Lemma loop_cum_app (G : list R -> Mat (T:=R) -> Mat (T:=R) -> R -> R -> list R -> Cx) :
  forall e1 V1 d1 n1 e2 V2 d2 n2 Q0 T0,
  length V1 = length e1 -> length d1 = length e1 -> length n1 = length e1 ->
  loop_sum G (e1 ++ e2) (V1 ++ V2) (cumulative RO d (e1 ++ e2) (V1 ++ V2) (d1 ++ d2) Q0)
           (cumsum_from RO T0 (d1 ++ d2)) (d1 ++ d2) (n1 ++ n2) =
  cadd' (loop_sum G e1 V1 (cumulative RO d e1 V1 d1 Q0) (cumsum_from RO T0 d1) d1 n1)
        (loop_sum G e2 V2 (cumulative RO d e2 V2 d2 (cum_last e1 V1 d1 Q0)) (cumsum_from RO (tsum T0 d1) d2) d2 n2).
Proof.
  induction e1 as [|ev e1 IH]; intros V1 d1 n1 e2 V2 d2 n2 Q0 T0 HV Hd Hn.
  - destruct V1; [|discriminate]. destruct d1; [|discriminate]. destruct n1; [|discriminate].
    simpl. ring.
  - destruct V1 as [|V V1]; [discriminate|]. destruct d1 as [|dt d1]; [discriminate|]. destruct n1 as [|nc n1]; [discriminate|].
    simpl in *. rewrite IH by lia. ring.
Qed.

(* ---------- pieces ---------- *)
Definition wf_piece (p : piece (T:=R)) : Prop :=
  length (pc_Vs p) = length (pc_evs p) /\ length (pc_dts p) = length (pc_evs p) /\
  length (pc_nc p) = na /\ Forall (fun row => length row = length (pc_evs p)) (pc_nc p).
Definition seg_nc (p : piece (T:=R)) : list (list R) := transpose_coeffs RO (length (pc_dts p)) (pc_nc p).

Lemma cumulative_last : forall evs Vs dts Q dflt, last (cumulative RO d evs Vs dts Q) dflt = cum_last evs Vs dts Q.
Proof.
  induction evs as [|ev evs IH]; intros Vs dts Q dflt; simpl; auto.
  destruct Vs; auto. destruct dts; auto.
  simpl. rewrite <- (IH Vs dts _ dflt).
  destruct (cumulative RO d evs Vs dts _) eqn:E; auto.
  destruct evs; simpl in E; try discriminate. destruct Vs; try discriminate. destruct dts; discriminate.
Qed.
Lemma cumsum_last : forall dts T0 dflt, last (cumsum_from RO T0 dts) dflt = tsum T0 dts.
Proof.
  induction dts as [|x r IH]; intros; simpl; auto.
  change (oadd RO T0 x) with (T0 + x).
  rewrite <- (IH (T0 + x) dflt). destruct (cumsum_from RO (T0 + x) r) eqn:E; auto.
  destruct r; discriminate.
Qed.
Lemma piece_total_eq p : piece_total RO d p = cum_last (pc_evs p) (pc_Vs p) (pc_dts p) (mid RO d).
Proof. unfold piece_total, piece_props, propagators. apply cumulative_last. Qed.
Lemma piece_tau_eq p : piece_tau RO p = tsum 0 (pc_dts p).
Proof. unfold piece_tau, times. apply cumsum_last. Qed.

(* entry of the from-scratch control matrix of a piece *)
Lemma piece_cm_entry p a k o : (a < na)%nat -> (k < nk)%nat -> (o < no)%nat ->
  a3get RO (piece_cm RO d thr om bs ns p) a k o =
  loop_sum (step_entry a k o) (pc_evs p) (pc_Vs p) (cumulative RO d (pc_evs p) (pc_Vs p) (pc_dts p) (mid RO d))
           (cumsum_from RO 0 (pc_dts p)) (pc_dts p) (seg_nc p).
Proof.
  intros Ha Hk Ho. unfold piece_cm, control_matrix_from_scratch.
  rewrite loop_entry by assumption. rewrite a3get_a3zero by assumption.
  unfold piece_props, propagators, times, seg_nc. simpl. ring.
Qed.

(* what calculate_control_matrix_from_atomic computes, as a recursion over the pieces *)
Fixpoint atomic_sum (a k o : nat) (phacc : list Cx) (Lacc : list (list R)) (ps : list (piece (T:=R))) : Cx :=
  match ps with
  | [] => 0c
  | p :: r =>
      cadd' (cmul' (nth o phacc 0c)
                   (csumn' nk (fun j => cscal RO (rget RO Lacc j k) (a3get RO (piece_cm RO d thr om bs ns p) a j o))))
            (atomic_sum a k o (zipmul RO phacc (total_phases RO om (piece_tau RO p)))
                        (rmatmul RO nk (liouville RO d (piece_total RO d p) bs) Lacc) r)
  end.

Fixpoint cat_segnc (ps : list (piece (T:=R))) : list (list R) :=
  match ps with [] => [] | p :: r => seg_nc p ++ cat_segnc r end.

Lemma zipmul_nth : forall (x y : list Cx) o, (o < length x)%nat -> (o < length y)%nat ->
  nth o (zipmul RO x y) 0c = cmul' (nth o x 0c) (nth o y 0c).
Proof.
  induction x as [|u x IH]; intros y o Hx Hy; simpl in *. lia.
  destruct y as [|v y]; simpl in *. lia. destruct o; auto. apply IH; lia.
Qed.
Lemma zipmul_length : forall (x y : list Cx), length y = length x -> length (zipmul RO x y) = length x.
Proof. induction x; intros y H; destruct y; simpl in *; auto; try discriminate. Qed.
Lemma total_phases_nth tau o : (o < no)%nat -> nth o (total_phases RO om tau) 0c = cexp' (vg RO om o * tau).
Proof.
  intros Ho. unfold total_phases.
  rewrite (nth_indep _ 0c (cexp' (0 * tau))) by (rewrite map_length; exact Ho).
  rewrite (map_nth (fun w => cexp RO (omul RO w tau))). reflexivity.
Qed.

(* main induction: the from-scratch loop over the sequenced spectral data, started at (Q0, T0) *)
Lemma scratch_is_atomic a k o : (a < na)%nat -> (k < nk)%nat -> (o < no)%nat ->
  forall ps Q0 T0 phacc Lacc,
  Forall wf_piece ps ->
  Inv d bs (toF Q0) Lacc -> length phacc = no -> nth o phacc 0c = cexp' (vg RO om o * T0) ->
  loop_sum (step_entry a k o) (concat (map (@pc_evs R) ps)) (concat (map (@pc_Vs R) ps))
    (cumulative RO d (concat (map (@pc_evs R) ps)) (concat (map (@pc_Vs R) ps)) (concat (map (@pc_dts R) ps)) Q0)
    (cumsum_from RO T0 (concat (map (@pc_dts R) ps))) (concat (map (@pc_dts R) ps)) (cat_segnc ps)
  = atomic_sum a k o phacc Lacc ps.
Proof.
  intros Ha Hk Ho. induction ps as [|p ps IH]; intros Q0 T0 phacc Lacc Hwf HI Hlen Hph.
  - reflexivity.
  - inversion Hwf as [|? ? Hp Hps]; subst. destruct Hp as (HV & Hd & Hn & Hrows).
    cbn [map concat cat_segnc atomic_sum].
    rewrite loop_cum_app.
    2:{ exact HV. } 2:{ exact Hd. }
    2:{ unfold seg_nc, transpose_coeffs. rewrite build_length. exact Hd. }
    f_equal.
    + (* the piece itself, shifted by (Q0, T0) *)
      rewrite (loop_shift a k o (toF Q0) Lacc T0 Ha Hk Ho HI (pc_evs p) (pc_Vs p) (pc_dts p) (seg_nc p) Q0 (mid RO d) T0 0).
      * rewrite Hph. f_equal. apply csumn_ext. intros l Hl. rewrite piece_cm_entry by assumption. reflexivity.
      * unfold Rel. rewrite toF_mid. rewrite fmul_id_l. reflexivity.
      * ring.
    + (* the rest, started after the piece *)
      apply IH.
      * exact Hps.
      * rewrite piece_total_eq.
        apply (Inv_ext d bs (fmul d (toF (cum_last (pc_evs p) (pc_Vs p) (pc_dts p) (mid RO d))) (toF Q0))).
        { symmetry. apply (cum_last_rel (toF Q0)). unfold Rel. rewrite toF_mid. rewrite fmul_id_l. reflexivity. }
        apply Inv_step; assumption.
      * rewrite zipmul_length; auto. unfold total_phases. rewrite map_length. fold no. lia.
      * rewrite zipmul_nth. 2:{ lia. } 2:{ unfold total_phases. rewrite map_length. exact Ho. }
        rewrite Hph. rewrite total_phases_nth by assumption. rewrite piece_tau_eq.
        rewrite <- cexp_add. f_equal.
        replace T0 with (T0 + 0) at 2 by ring. rewrite tsum_shift. ring.
Qed.

(* ---------- sensitivities of the sequenced pulse: row-wise appended = segment-wise concatenated ---------- *)
Lemma map_seq_shift {A} : forall n (f : nat -> A) a, map f (seq a n) = map (fun i => f (a + i)%nat) (seq 0 n).
Proof.
  induction n; intros f a; simpl. reflexivity.
  rewrite Nat.add_0_r. f_equal. rewrite (IHn f (S a)). rewrite (IHn (fun i => f (a + i)%nat) 1%nat).
  apply map_ext. intros i. f_equal. lia.
Qed.
Lemma zipapp_length {X} : forall (A B : list (list X)), length B = length A -> length (zipapp A B) = length A.
Proof. induction A; intros B H; destruct B; simpl in *; auto; try discriminate. Qed.
Lemma transpose_app G1 G2 : forall (A B : list (list R)), length B = length A ->
  Forall (fun row => length row = G1) A ->
  transpose_coeffs RO (G1 + G2) (zipapp A B) = transpose_coeffs RO G1 A ++ transpose_coeffs RO G2 B.
Proof.
  intros A B Hlen HA. unfold transpose_coeffs, build.
  rewrite seq_app, map_app. f_equal.
  - apply map_ext_in. intros g Hg. apply in_seq in Hg.
    revert B Hlen. induction HA as [|r A Hr HA IH]; intros B Hlen; destruct B as [|r2 B]; simpl in *; try discriminate; auto.
    f_equal. + unfold vg, vget. apply app_nth1. lia. + apply IH. lia.
  - simpl. rewrite map_seq_shift. apply map_ext_in. intros i Hi.
    revert B Hlen. induction HA as [|r A Hr HA IH]; intros B Hlen; destruct B as [|r2 B]; simpl in *; try discriminate; auto.
    f_equal. + unfold vg, vget. rewrite <- Hr. apply app_nth2_plus. + apply IH. lia.
Qed.
Lemma cat_nc_length : forall ps, Forall wf_piece ps -> length (cat_nc na ps) = na.
Proof.
  induction ps as [|p ps IH]; intros H; simpl. apply repeat_length.
  inversion H as [|? ? Hp Hps]; subst. destruct Hp as (_ & _ & Hn & _).
  rewrite zipapp_length; auto. rewrite IH; auto.
Qed.
Lemma transpose_cat : forall ps, Forall wf_piece ps ->
  transpose_coeffs RO (length (concat (map (@pc_dts R) ps))) (cat_nc na ps) = cat_segnc ps.
Proof.
  induction ps as [|p ps IH]; intros H.
  - reflexivity.
  - inversion H as [|? ? Hp Hps]; subst. destruct Hp as (HV & Hd & Hn & Hrows).
    cbn [map concat cat_nc cat_segnc]. rewrite app_length.
    rewrite transpose_app.
    + rewrite IH by assumption. reflexivity.
    + rewrite cat_nc_length; auto.
    + rewrite Hd. exact Hrows.
Qed.

(* ---------- what concatenate hands to calculate_control_matrix_from_atomic ---------- *)
Lemma atomic_entry_gen a k o : forall ps phacc Lacc,
  csumn' (length ps) (fun g =>
     cmul' (nth o (nth g (phases_from RO phacc om (map (piece_tau RO) ps)) []) 0c)
           (csumn' nk (fun j => cscal RO (rget RO (nth g (Ls_from RO nk Lacc (map (fun p => liouville RO d (piece_total RO d p) bs) ps)) []) j k)
                                          (a3get RO (nth g (map (piece_cm RO d thr om bs ns) ps) []) a j o))))
  = atomic_sum a k o phacc Lacc ps.
Proof.
  induction ps as [|p ps IH]; intros phacc Lacc.
  - reflexivity.
  - cbn [length]. rewrite csumn_shift. cbn [map phases_from Ls_from nth atomic_sum].
    f_equal. apply IH.
Qed.
Lemma concat_atomic_entry a k o ps : (a < na)%nat -> (k < nk)%nat -> (o < no)%nat ->
  a3get RO (concat_atomic RO d thr om bs ns ps) a k o =
  atomic_sum a k o (map (fun _ => 1c) om) (rident RO nk) ps.
Proof.
  intros Ha Hk Ho. unfold concat_atomic, cm_from_atomic.
  rewrite a3get_a3build by assumption.
  rewrite map_length. unfold concat_phases, atomic_phases, concat_Ls, atomic_Ls.
  apply atomic_entry_gen.
Qed.

(* ================= the atomic rule ================= *)
Theorem atomic_rule ps a k o : Forall wf_piece ps -> (a < na)%nat -> (k < nk)%nat -> (o < no)%nat ->
  a3get RO (piece_cm RO d thr om bs ns (cat_piece na ps)) a k o =
  a3get RO (concat_atomic RO d thr om bs ns ps) a k o.
Proof.
  intros Hwf Ha Hk Ho.
  rewrite piece_cm_entry by assumption. rewrite concat_atomic_entry by assumption.
  unfold seg_nc. cbn [cat_piece pc_evs pc_Vs pc_dts pc_nc].
  rewrite transpose_cat by assumption.
  apply (scratch_is_atomic a k o Ha Hk Ho ps (mid RO d) 0 (map (fun _ => 1c) om) (rident RO nk)); try assumption.
  - apply (Inv_ext d bs fid). symmetry. apply toF_mid. apply Inv_init.
  - apply map_length.
  - rewrite Rmult_0_r, cexp_0. clear -Ho. subst no. revert o Ho.
    induction om as [|w l IH]; intros o Ho; simpl in *. lia. destruct o; auto. apply IH. lia.
Qed.
End Shift.
End Scratch.

(* ================= the hypotheses are satisfiable: the Pauli basis for d = 2 ================= *)
Section PauliS.
Variable s : R.
Hypothesis Hs : s * s = / 2.
Definition pauli_s : list (Mat (T:=R)) :=
  [ [[(s,0); (0,0)]; [(0,0); (s,0)]];
    [[(0,0); (s,0)]; [(s,0); (0,0)]];
    [[(0,0); (0,-s)]; [(0,s); (0,0)]];
    [[(s,0); (0,0)]; [(0,0); (-s,0)]] ].
Lemma pauli_s_herm : forall l, (l < 4)%nat -> fherm 2 (Cf pauli_s l).
Proof.
  intros l Hl i j Hi Hj. unfold fadj, Cf, toF, mget.
  destruct l as [|[|[|[|l]]]]; try lia;
  destruct i as [|[|i]]; try lia; destruct j as [|[|j]]; try lia; simpl; apply c_eq; csimp; ring.
Qed.
Lemma pauli_s_complete : forall X : fmat, feq 2 X (flin 4 (fun l => ftr 2 (fmul 2 (Cf pauli_s l) X)) (Cf pauli_s)).
Proof.
  intros X i j Hi Hj. unfold flin, ftr, fmul, Cf, toF, mget.
  assert (E : s ^ 2 = / 2) by (simpl; rewrite Rmult_1_r; exact Hs).
  destruct (X 0%nat 0%nat) as [a0 a1] eqn:E00. destruct (X 0%nat 1%nat) as [b0 b1] eqn:E01.
  destruct (X 1%nat 0%nat) as [c0 c1] eqn:E10. destruct (X 1%nat 1%nat) as [d0 d1] eqn:E11.
  destruct i as [|[|i]]; try lia; destruct j as [|[|j]]; try lia; simpl;
  rewrite ?E00, ?E01, ?E10, ?E11; apply c_eq; csimp; ring_simplify; rewrite ?E; lra.
Qed.
End PauliS.

Lemma inv_sqrt2_sq : / sqrt 2 * / sqrt 2 = / 2.
Proof.
  assert (H : sqrt 2 <> 0) by (intros E; apply sqrt_eq_0 in E; lra).
  rewrite <- Rinv_mult. rewrite sqrt_sqrt by lra. reflexivity.
Qed.
(* the normalised Pauli basis (1, X, Y, Z)/sqrt 2 as the package builds it *)
Definition pauli_basis : list (Mat (T:=R)) := pauli_s (/ sqrt 2).

(* the atomic rule for qubit pulses in the Pauli basis: no hypothesis on the basis left *)
Theorem atomic_rule_pauli thr om ns ps a k o : Forall (wf_piece ns) ps ->
  (a < length ns)%nat -> (k < 4)%nat -> (o < length om)%nat ->
  a3get RO (piece_cm RO 2 thr om pauli_basis ns (cat_piece (length ns) ps)) a k o =
  a3get RO (concat_atomic RO 2 thr om pauli_basis ns ps) a k o.
Proof.
  intros. apply atomic_rule; auto.
  - apply (pauli_s_herm (/ sqrt 2)).
  - apply (pauli_s_complete (/ sqrt 2)). apply inv_sqrt2_sq.
Qed.

(* a concrete non-trivial input: two pieces, the first with two non-commuting segments
   (eigenvectors (3/5, 4/5; -4/5, 3/5) resp. the identity), one noise operator sigma_z *)
Definition ex_V1 : Mat (T:=R) := [[(3/5,0); (4/5,0)]; [(-4/5,0); (3/5,0)]].
Definition ex_V2 : Mat (T:=R) := [[(1,0); (0,0)]; [(0,0); (1,0)]].
Definition ex_p1 : piece (T:=R) := mkPiece [[1; -1]; [1/2; -1/2]] [ex_V1; ex_V2] [1; 2] [[1; 1]].
Definition ex_p2 : piece (T:=R) := mkPiece [[2; -2]] [ex_V1] [1/2] [[1]].
Definition ex_ns : list (Mat (T:=R)) := [[[(1,0); (0,0)]; [(0,0); (-1,0)]]].
Example atomic_rule_hyps_satisfiable : Forall (wf_piece ex_ns) [ex_p1; ex_p2].
Proof. repeat constructor. Qed.
