(* util.integrate (Model/Numeric.trapz) over the reals: closed form as a weighted sum,
   linearity, monotonicity; list / array access lemmas shared by Proofs/Decay.v etc.   *)
From Coq Require Import ZArith Reals List Lra Lia.
From FF Require Import Base.Ops Inst.RInst Base.RAlg Model.Numeric.
Import ListNotations.
Local Open Scope R_scope.

(* ---------- sums ---------- *)
Lemma sumn_shift n (g : nat -> R) : sumn' (S n) g = g 0%nat + sumn' n (fun o => g (S o)).
Proof. induction n. simpl. ring. rewrite (csumn_S 0 (fun _ => 0c)) || idtac.
  change (sumn' (S (S n)) g) with (sumn' (S n) g + g (S n)). rewrite IHn. simpl. ring. Qed.
Lemma sumn_mul_r n a (f : nat -> R) : sumn' n (fun k => f k * a) = sumn' n f * a.
Proof. induction n; simpl. ring. rewrite IHn. ring. Qed.
Lemma sumn_opp n (f : nat -> R) : sumn' n (fun k => - f k) = - sumn' n f.
Proof. induction n; simpl. ring. rewrite IHn. ring. Qed.
Lemma sumn_delta n i (f : nat -> R) : (i < n)%nat ->
  sumn' n (fun k => if Nat.eqb i k then f k else 0) = f i.
Proof.
  induction n; intros H. lia. simpl.
  destruct (Nat.eqb_spec i n) as [->|Hne].
  - rewrite (sumn_ext n _ (fun _ => 0)). rewrite sumn_0. ring.
    intros k Hk. destruct (Nat.eqb_spec n k); auto. lia.
  - rewrite IHn by lia. ring.
Qed.
Lemma csumn_neg n (f : nat -> Cx) : csumn' n (fun k => cneg' (f k)) = cneg' (csumn' n f).
Proof. induction n; simpl. ring. rewrite IHn. ring. Qed.
Lemma csumn_sub n (f g : nat -> Cx) : csumn' n (fun k => csub' (f k) (g k)) = csub' (csumn' n f) (csumn' n g).
Proof. induction n; simpl. ring. rewrite IHn. ring. Qed.
Lemma csumn_scal n (a : R) (f : nat -> Cx) : csumn' n (fun k => cscal RO a (f k)) = cscal RO a (csumn' n f).
Proof. induction n; simpl. apply c_eq; csimp; ring. rewrite IHn. apply c_eq; csimp; ring. Qed.
Lemma cre_csumn n (f : nat -> Cx) : cre (csumn' n f) = sumn' n (fun k => cre (f k)).
Proof. apply csumn_re. Qed.

(* ---------- lists ---------- *)
Lemma build_ext {A} n (f g : nat -> A) : (forall k, (k < n)%nat -> f k = g k) -> build n f = build n g.
Proof. intros H. unfold build. apply map_ext_in. intros k Hk. apply in_seq in Hk. apply H. lia. Qed.
Lemma build_map_seq {A} n (f : nat -> A) : build n f = map f (seq 0 n).
Proof. reflexivity. Qed.
Lemma a3get_a3build n1 n2 n3 (f : nat -> nat -> nat -> Cx) a k o :
  (a < n1)%nat -> (k < n2)%nat -> (o < n3)%nat -> a3get RO (a3build n1 n2 n3 f) a k o = f a k o.
Proof. intros. unfold a3get, a3build. rewrite !nth_build by auto. reflexivity. Qed.
Lemma nth_map_lt {A Bt} (f : A -> Bt) l i da db : (i < length l)%nat -> nth i (map f l) db = f (nth i l da).
Proof. intros H. rewrite (nth_indep _ db (f da)) by (rewrite map_length; auto). apply map_nth. Qed.
Lemma nth_seq0 n a dflt : (a < n)%nat -> nth a (seq 0 n) dflt = a.
Proof. intros. rewrite seq_nth; auto. Qed.

(* ---------- trapezoidal rule ---------- *)
(* closed form: sum of (f_{o+1} + f_o)(x_{o+1} - x_o)/2 *)
Definition trapz_w (n : nat) (f : nat -> R) (x : list R) : R :=
  sumn' (n - 1) (fun o => (f (S o) + f o) * (nth (S o) x 0 - nth o x 0) / 2).

Lemma trapz_cons2 f0 f1 fr x0 x1 xr :
  trapz RO (f0 :: f1 :: fr) (x0 :: x1 :: xr) = (f1 + f0) * (x1 - x0) / 2 + trapz RO (f1 :: fr) (x1 :: xr).
Proof. reflexivity. Qed.

Lemma trapz_map_seq (f : nat -> R) : forall n s x, length x = n ->
  trapz RO (map f (seq s n)) x =
  sumn' (n - 1) (fun o => (f (s + S o)%nat + f (s + o)%nat) * (nth (S o) x 0 - nth o x 0) / 2).
Proof.
  induction n as [|n IH]; intros s x Hx.
  - destruct x; simpl in *; try discriminate. reflexivity.
  - destruct x as [|x0 xr]; simpl in Hx; try discriminate. injection Hx as Hx.
    destruct n as [|n'].
    + destruct xr; simpl in Hx; try discriminate. simpl. reflexivity.
    + destruct xr as [|x1 xr']; simpl in Hx; try discriminate.
      change (seq s (S (S n'))) with (s :: S s :: seq (S (S s)) n').
      change (map f (s :: S s :: seq (S (S s)) n')) with (f s :: f (S s) :: map f (seq (S (S s)) n')).
      rewrite trapz_cons2.
      change (f (S s) :: map f (seq (S (S s)) n')) with (map f (seq (S s) (S n'))).
      rewrite (IH (S s) (x1 :: xr')) by (simpl; lia).
      replace (S (S n') - 1)%nat with (S (S n' - 1)) by lia.
      rewrite sumn_shift.
      f_equal.
      * rewrite Nat.add_0_r. replace (s + 1)%nat with (S s) by lia. simpl. reflexivity.
      * apply sumn_ext. intros o _. replace (S s + S o)%nat with (s + S (S o))%nat by lia.
        replace (S s + o)%nat with (s + S o)%nat by lia. reflexivity.
Qed.

Lemma trapz_build n (f : nat -> R) x : length x = n -> trapz RO (build n f) x = trapz_w n f x.
Proof. intros H. unfold build, trapz_w. rewrite (trapz_map_seq f n 0 x H). reflexivity. Qed.

Lemma trapz_w_ext n f g x : (forall o, (o < n)%nat -> f o = g o) -> trapz_w n f x = trapz_w n g x.
Proof. intros H. unfold trapz_w. apply sumn_ext. intros o Ho. rewrite !H by lia. reflexivity. Qed.
Lemma trapz_w_add n f g x : trapz_w n (fun o => f o + g o) x = trapz_w n f x + trapz_w n g x.
Proof. unfold trapz_w. rewrite <- sumn_add. apply sumn_ext. intros; field. Qed.
Lemma trapz_w_scal n c f x : trapz_w n (fun o => c * f o) x = c * trapz_w n f x.
Proof. unfold trapz_w. rewrite <- sumn_mul_l. apply sumn_ext. intros; field. Qed.
Lemma trapz_w_0 n x : trapz_w n (fun _ => 0) x = 0.
Proof. unfold trapz_w. rewrite (sumn_ext _ _ (fun _ => 0)). apply sumn_0. intros; field. Qed.
Lemma trapz_w_sum n m (F : nat -> nat -> R) x :
  trapz_w n (fun o => sumn' m (fun k => F k o)) x = sumn' m (fun k => trapz_w n (F k) x).
Proof.
  induction m; simpl. apply trapz_w_0.
  rewrite trapz_w_add, IHm. reflexivity.
Qed.
(* non-negative integrand on a non-decreasing grid *)
Definition grid_nondecreasing (n : nat) (x : list R) : Prop :=
  forall o, (S o < n)%nat -> nth o x 0 <= nth (S o) x 0.
Lemma trapz_w_nonneg n f x : grid_nondecreasing n x -> (forall o, (o < n)%nat -> 0 <= f o) -> 0 <= trapz_w n f x.
Proof.
  intros Hx Hf. unfold trapz_w. apply sumn_nonneg. intros o Ho.
  assert (0 <= f (S o) + f o) by (generalize (Hf o ltac:(lia)) (Hf (S o) ltac:(lia)); lra).
  assert (0 <= nth (S o) x 0 - nth o x 0) by (generalize (Hx o ltac:(lia)); lra).
  apply Rmult_le_pos; [apply Rmult_le_pos; auto | lra].
Qed.
