(* Shared algebra for C01 (headline) and C13: matrices-as-functions as a setoid, diagonal matrices,
   refinement of the list model (transform_by_unitary, segment_propagator, cm_step, cm_scratch_loop)
   to closed entry formulas.                                                                      *)
From Coq Require Import ZArith Reals Lra Lia List Setoid Morphisms.
From FF Require Import Base.Ops Inst.RInst Base.RAlg Model.Numeric.
Import ListNotations.
Local Open Scope R_scope.

Notation MatR := (Mat (T:=R)).

(* ---------- feq d is an equivalence, the matrix operations are morphisms ---------- *)
Section FSetoid.
Variable d : nat.
Global Instance feq_Equivalence : Equivalence (feq d).
Proof. split; [intros A; apply feq_refl | intros A B; apply feq_sym | intros A B Cm; apply feq_trans]. Qed.
Global Instance fmul_Proper : Proper (feq d ==> feq d ==> feq d) (fmul d).
Proof. intros A A' HA B B' HB. apply fmul_ext; assumption. Qed.
Global Instance fadj_Proper : Proper (feq d ==> feq d) fadj.
Proof. intros A A' HA i j Hi Hj. unfold fadj. rewrite HA; auto. Qed.
Global Instance ftr_Proper : Proper (feq d ==> eq) (ftr d).
Proof. intros A A' HA. apply ftr_ext; assumption. Qed.
Global Instance fadd_Proper : Proper (feq d ==> feq d ==> feq d) fadd.
Proof. intros A A' HA B B' HB i j Hi Hj. unfold fadd. rewrite HA, HB; auto. Qed.
Global Instance fscal_Proper z : Proper (feq d ==> feq d) (fscal z).
Proof. intros A A' HA i j Hi Hj. unfold fscal. rewrite HA; auto. Qed.

Lemma fadj_invol_feq A : feq d (fadj (fadj A)) A.
Proof. intros i j _ _. apply fadj_invol. Qed.

Lemma fmul_cancel_l A B X : feq d (fmul d A B) fid -> feq d (fmul d A (fmul d B X)) X.
Proof. intros H. rewrite fmul_assoc, H. apply fmul_id_l. Qed.

(* diagonal matrices *)
Definition fdiag (u : nat -> Cx) : fmat := fun i j => if Nat.eqb i j then u i else 0c.
Lemma fmul_fdiag_l u A i j : (i < d)%nat -> fmul d (fdiag u) A i j = cmul' (u i) (A i j).
Proof.
  intros Hi. unfold fmul, fdiag.
  rewrite (csumn_ext d _ (fun k => if Nat.eqb i k then cmul' (u i) (A k j) else 0c)).
  - apply (csumn_delta d i (fun k => cmul' (u i) (A k j))); auto.
  - intros k _. destruct (Nat.eqb i k); ring.
Qed.
Lemma fmul_fdiag_r u A i j : (j < d)%nat -> fmul d A (fdiag u) i j = cmul' (A i j) (u j).
Proof.
  intros Hj. unfold fmul, fdiag.
  rewrite (csumn_ext d _ (fun k => if Nat.eqb k j then cmul' (A i k) (u k) else 0c)).
  - apply (csumn_delta' d j (fun k => cmul' (A i k) (u k))); auto.
  - intros k _. destruct (Nat.eqb k j); ring.
Qed.
Lemma fadj_fdiag u : feq d (fadj (fdiag u)) (fdiag (fun i => cconj' (u i))).
Proof.
  intros i j _ _. unfold fadj, fdiag. rewrite Nat.eqb_sym.
  destruct (Nat.eqb_spec i j) as [->|]; [reflexivity | apply cconj_0].
Qed.
Lemma fdiag_mul u v : feq d (fmul d (fdiag u) (fdiag v)) (fdiag (fun i => cmul' (u i) (v i))).
Proof.
  intros i j Hi Hj. rewrite fmul_fdiag_l by auto. unfold fdiag.
  destruct (Nat.eqb_spec i j) as [->|]; ring.
Qed.
Lemma fdiag_ext u v : (forall i, (i < d)%nat -> u i = v i) -> feq d (fdiag u) (fdiag v).
Proof. intros H i j Hi _. unfold fdiag. rewrite H; auto. Qed.
Lemma fdiag_one : feq d (fdiag (fun _ => 1c)) fid.
Proof. intros i j _ _. reflexivity. Qed.

(* tr (D_u^dagger A D_u B) as a double sum *)
Lemma ftr_diag_sandwich u A B :
  ftr d (fmul d (fadj (fdiag u)) (fmul d A (fmul d (fdiag u) B))) =
  csumn' d (fun m => csumn' d (fun n => cmul' (cmul' (A m n) (cmul' (cconj' (u m)) (u n))) (B n m))).
Proof.
  rewrite fadj_fdiag. unfold ftr. apply csumn_ext. intros m Hm.
  rewrite fmul_fdiag_l by auto. unfold fmul at 1.
  rewrite <- csumn_mul_l. apply csumn_ext. intros n Hn.
  rewrite fmul_fdiag_l by auto. ring.
Qed.

(* the trace formula behind the control matrix: with U = (V D_u V^dagger) Q,
   tr( U^dagger N U  C ) = sum_mn (V^dagger N V)_mn conj(u_m) u_n (W^dagger C W)_nm,  W = Q^dagger V.
   Purely algebraic (associativity and cyclicity of the trace): no unitarity needed.            *)
Lemma ftr_expansion V Q N Cm u :
  let U := fmul d (fmul d V (fmul d (fdiag u) (fadj V))) Q in
  let W := fmul d (fadj Q) V in
  let NT := fmul d (fadj V) (fmul d N V) in
  let BT := fmul d (fadj W) (fmul d Cm W) in
  ftr d (fmul d (fmul d (fadj U) (fmul d N U)) Cm) =
  csumn' d (fun m => csumn' d (fun n => cmul' (cmul' (NT m n) (cmul' (cconj' (u m)) (u n))) (BT n m))).
Proof.
  intros U W NT BT. rewrite <- ftr_diag_sandwich.
  subst U W NT BT.
  (* right-nested normal forms *)
  rewrite !fadj_mul, !fadj_invol_feq. rewrite <- !fmul_assoc.
  (* lhs: tr (Q^ (V (D^ (V^ (N (V (D (V^ (Q C)))))))))  -- rotate Q^ and V to the back *)
  rewrite ftr_cyclic. rewrite <- !fmul_assoc.
  rewrite ftr_cyclic. rewrite <- !fmul_assoc.
  reflexivity.
Qed.
End FSetoid.
Arguments fdiag u i j /.

(* ---------- list plumbing ---------- *)
Lemma nth_map_in {A B} (f : A -> B) l j dA dB : (j < length l)%nat -> nth j (map f l) dB = f (nth j l dA).
Proof.
  intros H. rewrite (nth_indep _ dB (f dA)) by (rewrite map_length; auto). apply map_nth.
Qed.
Lemma build_ext {A} n (f g : nat -> A) : (forall i, (i < n)%nat -> f i = g i) -> build n f = build n g.
Proof.
  intros H. unfold build. apply map_ext_in. intros i Hi. apply in_seq in Hi. apply H. lia.
Qed.
Lemma mbuild_ext m n (f g : nat -> nat -> Cx) :
  (forall i j, (i < m)%nat -> (j < n)%nat -> f i j = g i j) -> mbuild m n f = mbuild m n g.
Proof. intros H. unfold mbuild. apply build_ext. intros i Hi. apply build_ext. intros j Hj. auto. Qed.

Section A3.
Lemma a3get_a3build n1 n2 n3 (f : nat -> nat -> nat -> Cx) a k o :
  (a < n1)%nat -> (k < n2)%nat -> (o < n3)%nat -> a3get RO (a3build n1 n2 n3 f) a k o = f a k o.
Proof. intros. unfold a3get, a3build. rewrite !nth_build by auto. reflexivity. Qed.
Lemma a3build_ext n1 n2 n3 (f g : nat -> nat -> nat -> Cx) :
  (forall a k o, (a < n1)%nat -> (k < n2)%nat -> (o < n3)%nat -> f a k o = g a k o) ->
  a3build n1 n2 n3 f = a3build n1 n2 n3 g.
Proof. intros H. unfold a3build. apply build_ext; intros a Ha. apply build_ext; intros k Hk. apply build_ext; intros o Ho. auto. Qed.
End A3.

(* ---------- refinement of the list model ---------- *)
Section Refine.
Variable d : nat.

Lemma toF_transform_by_unitary U A :
  feq d (toF (transform_by_unitary RO d U A)) (fmul d (fadj (toF U)) (fmul d (toF A) (toF U))).
Proof. unfold transform_by_unitary. rewrite toF_mmul, toF_madj, toF_mmul. reflexivity. Qed.

(* phases of a segment: u_j = e^{-i tau ev_j} *)
Definition seg_phase (ev : list R) (tau : R) (j : nat) : Cx := cexp' (- (tau * vg RO ev j)).

Lemma toF_segment_propagator ev V tau :
  feq d (toF (segment_propagator RO d ev V tau))
        (fmul d (toF V) (fmul d (fdiag (seg_phase ev tau)) (fadj (toF V)))).
Proof.
  intros i k Hi Hk. unfold toF at 1, segment_propagator. rewrite mget_mbuild by auto.
  unfold fmul at 1. apply csumn_ext. intros j Hj.
  rewrite fmul_fdiag_l by auto. unfold fadj, toF, seg_phase. simpl. ring.
Qed.

(* the propagator inside a segment: U(tau) = V e^{-i D tau} V^dagger Q  (tau = time since the segment started) *)
Definition Useg (ev : list R) (V Q : Mat) (tau : R) : Mat := mmul RO d (segment_propagator RO d ev V tau) Q.

Lemma toF_Useg ev V Q tau :
  feq d (toF (Useg ev V Q tau))
        (fmul d (fmul d (toF V) (fmul d (fdiag (seg_phase ev tau)) (fadj (toF V)))) (toF Q)).
Proof. unfold Useg. rewrite toF_mmul, toF_segment_propagator. reflexivity. Qed.

Lemma seg_phase_conj_mul ev tau m n :
  cmul' (cconj' (seg_phase ev tau m)) (seg_phase ev tau n) = cexp' ((vg RO ev m - vg RO ev n) * tau).
Proof.
  unfold seg_phase. rewrite <- cexp_neg, <- cexp_add. f_equal. ring.
Qed.

(* integrand expansion in the vocabulary of the model:
   tr( U(tau)^dagger N U(tau) C ) = sum_mn (V^dagger N V)_mn (W^dagger C W)_nm e^{i (ev_m - ev_n) tau} *)
Theorem integrand_expansion ev V Q N Cm tau :
  mtrprod RO d (transform_by_unitary RO d (Useg ev V Q tau) N) Cm =
  csumn' d (fun m => csumn' d (fun n =>
    cmul' (cmul' (mget RO (transform_by_unitary RO d V N) m n) (cexp' ((vg RO ev m - vg RO ev n) * tau)))
          (mget RO (transform_by_unitary RO d (mmul RO d (madj RO d Q) V) Cm) n m))).
Proof.
  rewrite mtrprod_ftr. rewrite toF_transform_by_unitary, toF_Useg.
  rewrite (ftr_expansion d (toF V) (toF Q) (toF N) (toF Cm) (seg_phase ev tau)).
  apply csumn_ext; intros m Hm. apply csumn_ext; intros n Hn.
  rewrite seg_phase_conj_mul.
  fold (toF (transform_by_unitary RO d V N) m n).
  fold (toF (transform_by_unitary RO d (mmul RO d (madj RO d Q) V) Cm) n m).
  rewrite (toF_transform_by_unitary V N m n) by auto.
  rewrite (toF_transform_by_unitary (mmul RO d (madj RO d Q) V) Cm n m) by auto.
  assert (HW : feq d (toF (mmul RO d (madj RO d Q) V)) (fmul d (fadj (toF Q)) (toF V))).
  { rewrite toF_mmul, toF_madj. reflexivity. }
  assert (HB : feq d (fmul d (fadj (toF (mmul RO d (madj RO d Q) V))) (fmul d (toF Cm) (toF (mmul RO d (madj RO d Q) V))))
                     (fmul d (fadj (fmul d (fadj (toF Q)) (toF V))) (fmul d (toF Cm) (fmul d (fadj (toF Q)) (toF V))))).
  { rewrite HW. reflexivity. }
  rewrite (HB n m) by auto. reflexivity.
Qed.

Lemma nthm_map (f : MatR -> MatR) l j : (j < length l)%nat -> nthm (map f l) j = f (nthm l j).
Proof. intros H. unfold nthm. apply nth_map_in; auto. Qed.
Lemma nthm_map_vec (f : R -> MatR) (l : list R) j : (j < length l)%nat -> nthm (map f l) j = f (vg RO l j).
Proof. intros H. unfold nthm, vg, vget. apply nth_map_in; auto. Qed.

(* ---------- one entry of cm_step as a closed formula ---------- *)
(* [I w evm evn dt] is the segment integral used: the model's foi_entry, or the exact integral *)
Definition step_entry (I : R -> R -> R -> R -> Cx) (ev : list R) (V Q : Mat) (tg dt w s : R) (N Cm : Mat) : Cx :=
  let NT := transform_by_unitary RO d V N in
  let BT := transform_by_unitary RO d (mmul RO d (madj RO d Q) V) Cm in
  cmul' (cexp' (w * tg)) (cscal RO s
    (csumn' d (fun m => csumn' d (fun n =>
       cmul' (cmul' (mget RO NT m n) (I w (vg RO ev m) (vg RO ev n) dt)) (mget RO BT n m))))).

Lemma cm_step_entry thr ev V Q tg dt om bs ns nc j k o :
  (j < length ns)%nat -> (k < length bs)%nat -> (o < length om)%nat ->
  a3get RO (cm_step RO d thr ev V Q tg dt om bs ns nc) j k o =
  step_entry (foi_entry RO thr) ev V Q tg dt (vg RO om o) (vg RO nc j) (nthm ns j) (nthm bs k).
Proof.
  intros Hj Hk Ho. unfold cm_step. rewrite a3get_a3build by auto. unfold step_entry.
  f_equal. f_equal. apply csumn_ext; intros m Hm. apply csumn_ext; intros n Hn.
  rewrite (nthm_map _ ns j), (nthm_map _ bs k), (nthm_map_vec _ om o) by auto.
  unfold foi. rewrite mget_mbuild by auto. reflexivity.
Qed.
End Refine.

(* ---------- the loop over segments, entry by entry ---------- *)
Section Loop.
Variable d : nat.

Lemma a3get_a3add n1 n2 n3 (A Bq : Arr3 (T:=R)) a k o : (a < n1)%nat -> (k < n2)%nat -> (o < n3)%nat ->
  a3get RO (a3add RO n1 n2 n3 A Bq) a k o = cadd' (a3get RO A a k o) (a3get RO Bq a k o).
Proof. intros. unfold a3add. rewrite a3get_a3build by auto. reflexivity. Qed.
Lemma a3get_a3zero n1 n2 n3 a k o : (a < n1)%nat -> (k < n2)%nat -> (o < n3)%nat ->
  a3get RO (a3zero RO n1 n2 n3) a k o = 0c.
Proof. intros. unfold a3zero. rewrite a3get_a3build by auto. reflexivity. Qed.

(* sum over the segments of one entry; [ss] = sensitivities of the noise operator, one per segment *)
Fixpoint entry_loop (I : R -> R -> R -> R -> Cx) (evs : list (list R)) (Vs Qs : list MatR) (ts dts ss : list R)
         (w : R) (N Cm : MatR) : Cx :=
  match evs, Vs, Qs, ts, dts, ss with
  | ev :: evs', V :: Vs', Q :: Qs', tg :: ts', dt :: dts', s :: ss' =>
      cadd' (step_entry d I ev V Q tg dt w s N Cm) (entry_loop I evs' Vs' Qs' ts' dts' ss' w N Cm)
  | _, _, _, _, _, _ => 0c
  end.

Lemma cm_loop_entry thr om bs ns j k o :
  (j < length ns)%nat -> (k < length bs)%nat -> (o < length om)%nat ->
  forall evs Vs Qs ts dts ncs acc,
  a3get RO (cm_scratch_loop RO d thr evs Vs Qs ts dts om bs ns ncs acc) j k o =
  cadd' (a3get RO acc j k o)
        (entry_loop (foi_entry RO thr) evs Vs Qs ts dts (map (fun nc => vg RO nc j) ncs) (vg RO om o) (nthm ns j) (nthm bs k)).
Proof.
  intros Hj Hk Ho. induction evs as [|ev evs IH]; intros Vs Qs ts dts ncs acc.
  - simpl. ring.
  - destruct Vs as [|V Vs]; [simpl; ring|]. destruct Qs as [|Q Qs]; [simpl; ring|].
    destruct ts as [|tg ts]; [simpl; ring|]. destruct dts as [|dt dts]; [simpl; ring|].
    destruct ncs as [|nc ncs]; [simpl; ring|].
    simpl. rewrite IH. rewrite a3get_a3add by auto. rewrite cm_step_entry by auto. ring.
Qed.

Lemma vg_nil g : vg RO [] g = 0.
Proof. unfold vg, vget. destruct g; reflexivity. Qed.
Lemma vg_transposed_row (nc : list (list R)) g j : vg RO (map (fun row => vg RO row g) nc) j = vg RO (nthv nc j) g.
Proof.
  unfold nthv. destruct (Nat.lt_ge_cases j (length nc)) as [H|H].
  - unfold vg at 1, vget. apply (nth_map_in (fun row => vg RO row g) nc j [] 0); auto.
  - rewrite (nth_overflow nc) by auto. rewrite vg_nil. unfold vg, vget. apply nth_overflow. rewrite map_length; auto.
Qed.
Lemma map_build {A B} (f : A -> B) n (g : nat -> A) : map f (build n g) = build n (fun i => f (g i)).
Proof. unfold build. rewrite map_map. reflexivity. Qed.

(* sensitivities of noise operator j along the segments, as read by the loop *)
Definition sens_row (G : nat) (nc : list (list R)) (j : nat) : list R := build G (fun g => vg RO (nthv nc j) g).

Theorem cm_entry_loop_formula thr evs Vs Qs om bs ns nc dts ts j k o :
  (j < length ns)%nat -> (k < length bs)%nat -> (o < length om)%nat ->
  a3get RO (control_matrix_from_scratch RO d thr evs Vs Qs om bs ns nc dts ts) j k o =
  entry_loop (foi_entry RO thr) evs Vs Qs ts dts (sens_row (length dts) nc j) (vg RO om o) (nthm ns j) (nthm bs k).
Proof.
  intros Hj Hk Ho. unfold control_matrix_from_scratch. rewrite cm_loop_entry by auto.
  rewrite a3get_a3zero by auto. unfold transpose_coeffs. rewrite map_build.
  unfold sens_row. rewrite (build_ext _ _ (fun g => vg RO (nthv nc j) g)) by (intros; apply vg_transposed_row).
  ring.
Qed.

(* ---------- the same sum with the propagators and times generated on the fly ---------- *)
Definition seg : Type := (list R * MatR * R * R)%type.      (* eigenvalues, eigenvectors, duration, sensitivity *)
Fixpoint zip4 (evs : list (list R)) (Vs : list MatR) (dts ss : list R) : list seg :=
  match evs, Vs, dts, ss with
  | ev :: evs', V :: Vs', dt :: dts', s :: ss' => (ev, V, dt, s) :: zip4 evs' Vs' dts' ss'
  | _, _, _, _ => []
  end.
Definition seg_next_Q (sg : seg) (Q : MatR) : MatR :=
  let '(ev, V, dt, _) := sg in mmul RO d (segment_propagator RO d ev V dt) Q.
Definition seg_dt (sg : seg) : R := let '(_, _, dt, _) := sg in dt.
Fixpoint entry_segs (I : R -> R -> R -> R -> Cx) (segs : list seg) (Q : MatR) (t : R) (w : R) (N Cm : MatR) : Cx :=
  match segs with
  | [] => 0c
  | (ev, V, dt, s) :: r =>
      cadd' (step_entry d I ev V Q t dt w s N Cm)
            (entry_segs I r (mmul RO d (segment_propagator RO d ev V dt) Q) (t + dt) w N Cm)
  end.

Lemma entry_loop_segs I w N Cm : forall evs Vs dts ss Q t,
  entry_loop I evs Vs (cumulative RO d evs Vs dts Q) (cumsum_from RO t dts) dts ss w N Cm =
  entry_segs I (zip4 evs Vs dts ss) Q t w N Cm.
Proof.
  induction evs as [|ev evs IH]; intros Vs dts ss Q t; [reflexivity|].
  destruct Vs as [|V Vs]; [reflexivity|]. destruct dts as [|dt dts]; [reflexivity|].
  destruct ss as [|s ss]; [reflexivity|].
  simpl. rewrite IH. reflexivity.
Qed.

(* the control matrix of the package for a pulse given by its spectral data, entry by entry *)
Theorem cm_entry_formula thr evs Vs om bs ns nc dts j k o :
  (j < length ns)%nat -> (k < length bs)%nat -> (o < length om)%nat ->
  a3get RO (control_matrix_from_scratch RO d thr evs Vs (propagators RO d evs Vs dts) om bs ns nc dts (times RO dts)) j k o =
  entry_segs (foi_entry RO thr) (zip4 evs Vs dts (sens_row (length dts) nc j)) (mid RO d) 0 (vg RO om o) (nthm ns j) (nthm bs k).
Proof.
  intros. rewrite cm_entry_loop_formula by auto. unfold propagators, times. apply entry_loop_segs.
Qed.

Lemma entry_segs_app I w N Cm : forall l1 l2 Q t,
  entry_segs I (l1 ++ l2) Q t w N Cm =
  cadd' (entry_segs I l1 Q t w N Cm)
        (entry_segs I l2 (fold_left (fun Q sg => seg_next_Q sg Q) l1 Q) (fold_left (fun t sg => t + seg_dt sg) l1 t) w N Cm).
Proof.
  induction l1 as [|[[[ev V] dt] s] l1 IH]; intros l2 Q t; simpl. ring.
  rewrite IH. ring.
Qed.
End Loop.

(* ---------- unitarity: segment propagators form a one-parameter unitary group ---------- *)
Section Unitary.
Variable d : nat.

Global Instance funitary_Proper : Proper (feq d ==> iff) (funitary d).
Proof. intros U U' H. unfold funitary. rewrite H. reflexivity. Qed.

Lemma funitary_adj U : funitary d U -> funitary d (fadj U).
Proof. intros [H1 H2]. split; rewrite fadj_invol_feq; assumption. Qed.

Lemma fdiag_phase_unitary ev tau : funitary d (fdiag (seg_phase ev tau)).
Proof.
  split; rewrite fadj_fdiag, fdiag_mul; rewrite <- fdiag_one; apply fdiag_ext; intros i _.
  - apply cexp_conj_mul.
  - rewrite cmul_comm. apply cexp_conj_mul.
Qed.

Lemma segment_propagator_unitary ev V tau : funitary d (toF V) -> funitary d (toF (segment_propagator RO d ev V tau)).
Proof.
  intros HV. rewrite toF_segment_propagator.
  apply funitary_mul; [exact HV | apply funitary_mul; [apply fdiag_phase_unitary | apply funitary_adj; exact HV]].
Qed.

Lemma Useg_unitary ev V Q tau : funitary d (toF V) -> funitary d (toF Q) -> funitary d (toF (Useg d ev V Q tau)).
Proof.
  intros HV HQ. unfold Useg. rewrite toF_mmul. apply funitary_mul; auto. apply segment_propagator_unitary; auto.
Qed.

Lemma seg_phase_zero ev j : seg_phase ev 0 j = 1c.
Proof. unfold seg_phase. rewrite Rmult_0_l, Ropp_0. apply cexp_0. Qed.
Lemma seg_phase_add ev a b j : cmul' (seg_phase ev a j) (seg_phase ev b j) = seg_phase ev (a + b) j.
Proof. unfold seg_phase. rewrite <- cexp_add. f_equal. ring. Qed.

(* V V^dagger = 1 : a zero-duration segment does not move the state *)
Lemma segment_propagator_zero ev V : feq d (fmul d (toF V) (fadj (toF V))) fid ->
  feq d (toF (segment_propagator RO d ev V 0)) fid.
Proof.
  intros HV. rewrite toF_segment_propagator.
  rewrite (fdiag_ext d (seg_phase ev 0) (fun _ => 1c)) by (intros; apply seg_phase_zero).
  rewrite fdiag_one, fmul_id_l. exact HV.
Qed.
(* V^dagger V = 1 : P(b) P(a) = P(a + b) *)
Lemma segment_propagator_add ev V a b : feq d (fmul d (fadj (toF V)) (toF V)) fid ->
  feq d (fmul d (toF (segment_propagator RO d ev V b)) (toF (segment_propagator RO d ev V a)))
        (toF (segment_propagator RO d ev V (a + b))).
Proof.
  intros HV. rewrite !toF_segment_propagator.
  rewrite <- !fmul_assoc.
  rewrite (fmul_assoc d (fadj (toF V)) (toF V)). rewrite HV, fmul_id_l.
  rewrite (fmul_assoc d (fdiag (seg_phase ev b)) (fdiag (seg_phase ev a))). rewrite fdiag_mul.
  rewrite (fdiag_ext d (fun i => cmul' (seg_phase ev b i) (seg_phase ev a i)) (seg_phase ev (a + b))).
  reflexivity. intros i _. rewrite seg_phase_add. f_equal. ring.
Qed.
Lemma Useg_start ev V Q : feq d (fmul d (toF V) (fadj (toF V))) fid -> feq d (toF (Useg d ev V Q 0)) (toF Q).
Proof. intros HV. unfold Useg. rewrite toF_mmul, segment_propagator_zero by auto. apply fmul_id_l. Qed.
End Unitary.
