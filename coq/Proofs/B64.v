(* Facts about the binary64 model that the equality theorems need: signs, reflexivity of the two
   closeness tests, value of exact dyadic addition. *)
From Coq Require Import ZArith List Bool Lia Reals Lra.
From FF Require Import Model.B64.
Import ListNotations.
Local Open Scope Z_scope.

Lemma norm_pos_val p e : forall q e', norm_pos p e = (q, e') -> True.
Proof. trivial. Qed.

Lemma norm_sign a : (0 <= fst a -> 0 <= fst (norm a)) /\ (fst a = 0 -> norm a = d0).
Proof.
  destruct a as [m e]; unfold norm; simpl. destruct m; simpl.
  - split; [lia | reflexivity].
  - destruct (norm_pos p e) as [q e']. simpl. split; [lia | discriminate].
  - destruct (norm_pos p e) as [q e']. simpl. split; [lia | discriminate].
Qed.
Lemma norm_nonneg a : 0 <= fst a -> 0 <= fst (norm a).
Proof. apply norm_sign. Qed.
Lemma norm_zero e : norm (0, e) = d0.
Proof. reflexivity. Qed.

Lemma rnd64_nonneg a : 0 <= fst a -> 0 <= fst (rnd64 a).
Proof.
  destruct a as [m e]; simpl. intros Hm. unfold rnd64.
  destruct (m =? 0) eqn:E0; [simpl; lia|].
  apply Z.eqb_neq in E0.
  destruct (Z.max (e + (Z.log2 (Z.abs m) + 1) - prec) emin <=? e); [apply norm_nonneg; exact Hm|].
  apply norm_nonneg. simpl.
  set (s := Z.max (e + (Z.log2 (Z.abs m) + 1) - prec) emin - e).
  assert (0 <= Z.abs m / 2 ^ s) by (apply Z_div_nonneg_nonneg; [lia | apply Z.pow_nonneg; lia]).
  rewrite Z.sgn_pos by lia.
  destruct ((2 ^ (s - 1) <? Z.abs m mod 2 ^ s) || (Z.abs m mod 2 ^ s =? 2 ^ (s - 1)) && Z.odd (Z.abs m / 2 ^ s)); lia.
Qed.

Lemma dadd_nonneg a b : 0 <= fst a -> 0 <= fst b -> 0 <= fst (dadd a b).
Proof.
  intros Ha Hb. unfold dadd, align. apply norm_nonneg. simpl.
  assert (0 <= 2 ^ (snd a - Z.min (snd a) (snd b))) by (apply Z.pow_nonneg; lia).
  assert (0 <= 2 ^ (snd b - Z.min (snd a) (snd b))) by (apply Z.pow_nonneg; lia).
  nia.
Qed.
Lemma dmul_nonneg a b : 0 <= fst a -> 0 <= fst b -> 0 <= fst (dmul a b).
Proof. intros. unfold dmul. apply norm_nonneg. simpl. nia. Qed.
Lemma dmul_square_nonneg a : 0 <= fst (dmul a a).
Proof. unfold dmul. apply norm_nonneg. simpl. nia. Qed.
Lemma dabs_nonneg a : 0 <= fst (dabs a).
Proof. unfold dabs; simpl. lia. Qed.

Lemma dsub_self a : dsub a a = d0.
Proof.
  unfold dsub, dadd, dneg, align. simpl. rewrite Z.min_id, Z.sub_diag. simpl.
  replace (fst a * 1 + - fst a * 1) with 0 by lia. reflexivity.
Qed.

Lemma dleb_zero a : 0 <= fst a -> dleb d0 a = true.
Proof.
  intros H. unfold dleb, align. simpl. apply Z.leb_le.
  assert (0 <= 2 ^ (snd a - Z.min 0 (snd a))) by (apply Z.pow_nonneg; lia). nia.
Qed.

Lemma atol_eq_nonneg n : 0 <= fst (atol_eq n).
Proof.
  unfold atol_eq, fmul64. apply rnd64_nonneg, dmul_nonneg; [simpl; lia|]. apply norm_nonneg. simpl. lia.
Qed.

(* np.isclose(a, a) holds for every finite value *)
Theorem close_dt_refl n a : close_dt n a a = true.
Proof.
  unfold close_dt, isclose64, fsub64. rewrite dsub_self. change (rnd64 d0) with d0. change (dabs d0) with d0.
  apply dleb_zero. unfold fadd64, fmul64.
  apply rnd64_nonneg, dadd_nonneg; [apply atol_eq_nonneg|].
  apply rnd64_nonneg, dmul_nonneg; [simpl; lia | apply dabs_nonneg].
Qed.

Theorem bclose_refl d a : bclose d a a = true.
Proof.
  unfold bclose. rewrite !dsub_self. change (dmul d0 d0) with d0. change (dadd d0 d0) with d0.
  apply dleb_zero, dmul_square_nonneg.
Qed.
