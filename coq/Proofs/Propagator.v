(* C02: numeric.diagonalize / PulseSequence.propagators / propagator_at_arb_t / t / tau over the reals.
   Hypothesis throughout: the eigenvector matrices returned by eigh are unitary (validated per case by
   the correspondence check).  With H_g := V_g D_g V_g^dagger (which is the control Hamiltonian of the
   segment when H_g V_g = V_g D_g, lemma [fspec_of_eig]) the model's propagators solve the
   Schroedinger equation of the piecewise-constant pulse.                                          *)
From Coq Require Import ZArith Reals Lra Lia List Morphisms Setoid.
From Coquelicot Require Import Coquelicot.
From FF Require Import Base.Ops Inst.RInst Base.RAlg Model.Numeric Model.Propagator Proofs.MatAlg.
Import ListNotations.
Local Open Scope R_scope.

(* ---------------------------------------------------------------------------------------------- *)
(* lists of reals: times = 0 :: cumsum dt, tau                                                    *)
(* ---------------------------------------------------------------------------------------------- *)
Lemma cumsum_from_length acc dts : length (cumsum_from RO acc dts) = S (length dts).
Proof. revert acc. induction dts; intros; simpl; auto. Qed.
Lemma times_length dts : length (times RO dts) = S (length dts).
Proof. apply cumsum_from_length. Qed.
Lemma cumsum_from_nth_0 acc dts : nth 0 (cumsum_from RO acc dts) 0 = acc.
Proof. destruct dts; reflexivity. Qed.
Lemma times_nth_0 dts : nth 0 (times RO dts) 0 = 0.
Proof. apply cumsum_from_nth_0. Qed.
Lemma cumsum_from_nth_S acc dts g : (g < length dts)%nat ->
  nth (S g) (cumsum_from RO acc dts) 0 = nth g (cumsum_from RO acc dts) 0 + nth g dts 0.
Proof.
  revert acc g. induction dts as [|x r IH]; intros acc g Hg; simpl in Hg. lia.
  destruct g.
  - simpl. rewrite cumsum_from_nth_0. reflexivity.
  - change (nth (S (S g)) (cumsum_from RO acc (x :: r)) 0) with (nth (S g) (cumsum_from RO (acc + x) r) 0).
    rewrite IH by lia. reflexivity.
Qed.
(* t_{g+1} = t_g + dt_g *)
Lemma times_nth_S dts g : (g < length dts)%nat ->
  nth (S g) (times RO dts) 0 = nth g (times RO dts) 0 + nth g dts 0.
Proof. apply cumsum_from_nth_S. Qed.

Lemma cumsum_from_last acc dts : last (cumsum_from RO acc dts) 0 = acc + sumlist RO dts.
Proof.
  revert acc. induction dts as [|x r IH]; intros acc; simpl. ring.
  destruct (cumsum_from RO (acc + x) r) eqn:E.
  - destruct r; discriminate.
  - rewrite <- E, IH. ring.
Qed.
(* tau: both branches of the property agree, t[-1] = dt.sum() *)
Theorem tau_branches_agree dts : tau_of_t RO dts = tau_of_dt RO dts.
Proof. unfold tau_of_t, tau_of_dt, last_t, times. simpl. rewrite cumsum_from_last. simpl. ring. Qed.

Lemma sumlist_app (a b : list R) : sumlist RO (a ++ b) = sumlist RO a + sumlist RO b.
Proof. induction a; simpl. ring. rewrite IHa. ring. Qed.
Lemma cumsum_from_shift acc dts : cumsum_from RO acc dts = map (fun x => acc + x) (cumsum_from RO 0 dts).
Proof.
  revert acc. induction dts as [|x r IH]; intros acc.
  - simpl. replace (acc + 0) with acc by ring. reflexivity.
  - change (cumsum_from RO acc (x :: r)) with (acc :: cumsum_from RO (acc + x) r).
    change (cumsum_from RO 0 (x :: r)) with (0 :: cumsum_from RO (0 + x) r).
    rewrite (IH (acc + x)), (IH (0 + x)). simpl. rewrite map_map.
    replace (acc + 0) with acc by ring. f_equal.
    apply map_ext. intros. ring.
Qed.
Lemma cumsum_from_app acc a b :
  cumsum_from RO acc (a ++ b) = cumsum_from RO acc a ++ tl (cumsum_from RO (acc + sumlist RO a) b).
Proof.
  revert acc. induction a as [|x r IH]; intros acc; simpl.
  - replace (acc + 0) with acc by ring. destruct b; reflexivity.
  - rewrite IH. replace (acc + (x + sumlist RO r)) with (acc + x + sumlist RO r) by ring. reflexivity.
Qed.
Lemma map_tl' {A B} (f : A -> B) l : map f (tl l) = tl (map f l).
Proof. destruct l; reflexivity. Qed.
(* t of a concatenation: the second part is shifted by the duration of the first *)
Theorem times_app a b :
  times RO (a ++ b) = times RO a ++ map (fun x => tau_of_dt RO a + x) (tl (times RO b)).
Proof.
  unfold times, tau_of_dt. simpl. rewrite cumsum_from_app. f_equal.
  rewrite cumsum_from_shift. rewrite <- map_tl'. apply map_ext. intros. ring.
Qed.

Lemma sumlist_concat (dtss : list (list R)) : sumlist RO (List.concat dtss) = sumlist RO (map (sumlist RO) dtss).
Proof. induction dtss; simpl. reflexivity. rewrite sumlist_app, IHdtss. reflexivity. Qed.
Lemma onat_INR G : onat RO G = INR G.
Proof. induction G. reflexivity. rewrite S_INR. simpl. rewrite IHG. reflexivity. Qed.
Lemma sumlist_tile dts G : sumlist RO (tile dts G) = INR G * sumlist RO dts.
Proof. induction G. simpl. ring. change (tile dts (S G)) with (dts ++ tile dts G).
  rewrite sumlist_app, IHG, S_INR. ring. Qed.
Lemma tile_length {A} (l : list A) G : length (tile l G) = (G * length l)%nat.
Proof. induction G; simpl. reflexivity. rewrite app_length, IHG. reflexivity. Qed.
Lemma tile_nth {A} (l : list A) G (dflt : A) q i : (q < G)%nat -> (i < length l)%nat ->
  nth (q * length l + i) (tile l G) dflt = nth i l dflt.
Proof.
  revert q. induction G; intros q Hq Hi. lia. simpl.
  destruct q.
  - simpl. rewrite app_nth1 by lia. reflexivity.
  - rewrite app_nth2 by (simpl; lia). replace (S q * length l + i - length l)%nat with (q * length l + i)%nat by (simpl; lia).
    apply IHG; lia.
Qed.

(* a cached _t is consistent when it is absent or the cumulative sums of dt *)
Definition t_consistent (cached : option (list R)) (dts : list R) : Prop :=
  cached = None \/ cached = Some (times RO dts).
Lemma tau_get_consistent cached dts : t_consistent cached dts -> tau_get RO cached dts = tau_of_t RO dts.
Proof. intros [-> | ->]; reflexivity. Qed.
(* tau = t[-1] is the sum of the durations *)
Theorem tau_get_sum cached dts : t_consistent cached dts -> tau_get RO cached dts = sumlist RO dts.
Proof. intros H. rewrite tau_get_consistent by assumption. apply tau_branches_agree. Qed.
(* remark on the code before f6ab3ac: its two-branch getter returned the same real number *)
Theorem tau_prefix_agrees cached dts : t_consistent cached dts -> tau_get_prefix RO cached dts = tau_get RO cached dts.
Proof. intros H. rewrite tau_get_consistent by assumption. destruct H as [-> | ->]; simpl.
  symmetry. apply tau_branches_agree. reflexivity. Qed.
Lemma t_get_consistent cached dts : t_consistent cached dts -> t_get RO cached dts = times RO dts.
Proof. intros [-> | ->]; reflexivity. Qed.

(* concatenate_without_filter_function: the assigned tau (sum of the taus) is the tau of the new dt *)
Theorem concat_tau dtss cached : length cached = length dtss ->
  (forall i, (i < length dtss)%nat -> t_consistent (nth i cached None) (nth i dtss [])) ->
  concat_tau_assigned RO dtss cached = tau_get RO None (concat_dt dtss)
  /\ tau_get RO None (concat_dt dtss) = tau_of_t RO (concat_dt dtss).
Proof.
  intros HL H. split; [|reflexivity].
  rewrite (tau_get_sum None) by (left; reflexivity).
  unfold concat_tau_assigned, concat_dt. rewrite sumlist_concat.
  revert cached HL H. induction dtss as [|x r IH]; intros [|c cs] HL H; simpl in *; try lia. reflexivity.
  f_equal.
  - apply (tau_get_sum c x). apply (H 0%nat). lia.
  - apply IH. lia. intros i Hi. apply (H (S i)). lia.
Qed.
(* concatenate_periodic: G * tau is the tau of the tiled dt *)
Theorem periodic_tau G cached dts : t_consistent cached dts ->
  periodic_tau_assigned RO G cached dts = tau_get RO None (tile dts G)
  /\ tau_get RO None (tile dts G) = tau_of_t RO (tile dts G).
Proof.
  intros H. split; [|reflexivity].
  rewrite (tau_get_sum None) by (left; reflexivity).
  unfold periodic_tau_assigned. rewrite (tau_get_sum _ _ H).
  rewrite sumlist_tile, onat_INR. reflexivity.
Qed.
(* extend / remap: dt and the cached _t are copied, so t and tau are those of the source pulse *)
Theorem copied_t_tau cached dts : t_consistent cached dts ->
  t_get RO (copied_t cached) dts = times RO dts /\ tau_get RO (copied_t cached) dts = tau_of_t RO dts.
Proof. intros H. unfold copied_t. rewrite t_get_consistent, tau_get_consistent; auto. Qed.
(* __getitem__: caches are empty, t and tau are recomputed from the sliced dt *)
Theorem slice_t_tau a b (dts : list R) :
  t_get RO None (slice a b dts) = times RO (slice a b dts)
  /\ tau_get RO None (slice a b dts) = tau_of_t RO (slice a b dts).
Proof. split; reflexivity. Qed.

(* arbitrary keys: t and tau of the selected segments are recomputed from their dt *)
Theorem select_t_tau idxs (dts : list R) :
  t_get RO None (select 0 idxs dts) = times RO (select 0 idxs dts)
  /\ tau_get RO None (select 0 idxs dts) = sumlist RO (select 0 idxs dts).
Proof. split. reflexivity. apply tau_get_sum. left. reflexivity. Qed.
(* a step-1 slice is the selection of seq a (b - a) *)
Lemma skipn_nth_R (l : list R) a i : nth i (skipn a l) 0 = nth (a + i) l 0.
Proof. revert l. induction a; intros l. reflexivity. destruct l. destruct i; reflexivity. apply IHa. Qed.
Lemma firstn_nth_R (l : list R) n i : (i < n)%nat -> nth i (firstn n l) 0 = nth i l 0.
Proof. revert l i. induction n; intros l i H. lia. destruct l. destruct i; reflexivity. destruct i. reflexivity. simpl. apply IHn. lia. Qed.
Theorem slice_is_select a b (dts : list R) : (b <= length dts)%nat ->
  slice a b dts = select 0 (seq a (b - a)) dts.
Proof.
  intros Hb. unfold slice, select.
  apply (nth_ext _ _ 0 0).
  - rewrite map_length, seq_length, firstn_length, skipn_length. lia.
  - intros i Hi. rewrite firstn_length, skipn_length in Hi.
    rewrite (nth_indep (map (fun i => nth i dts 0) (seq a (b - a))) 0 ((fun i => nth i dts 0) 0%nat)) by (rewrite map_length, seq_length; lia).
    rewrite (map_nth (fun i => nth i dts 0)). rewrite seq_nth by lia.
    rewrite firstn_nth_R by lia. apply skipn_nth_R.
Qed.
(* the model's domain test of propagator_at_arb_t is the hypothesis tq <= t[-1] of C02_arb_t_select *)
Theorem arb_t_accepts_iff ts tq : arb_t_rejects RO ts tq = false <-> tq <= last ts 0.
Proof. unfold arb_t_rejects, last_t. simpl. apply Rgtb_false. Qed.

(* the sliced pulse's t is the old t shifted by t_a *)
Lemma cumsum_from_skipn acc dts a : (a <= length dts)%nat ->
  skipn a (cumsum_from RO acc dts) = cumsum_from RO (nth a (cumsum_from RO acc dts) 0) (skipn a dts).
Proof.
  revert acc a. induction dts as [|x r IH]; intros acc a Ha; simpl in Ha.
  - replace a with 0%nat by lia. reflexivity.
  - destruct a. simpl. reflexivity.
    change (skipn (S a) (cumsum_from RO acc (x :: r))) with (skipn a (cumsum_from RO (acc + x) r)).
    rewrite IH by lia. reflexivity.
Qed.
Lemma cumsum_from_firstn acc dts n :
  firstn (S n) (cumsum_from RO acc dts) = cumsum_from RO acc (firstn n dts).
Proof.
  revert acc n. induction dts as [|x r IH]; intros acc n.
  - rewrite firstn_nil. destruct n; reflexivity.
  - destruct n. reflexivity.
    change (firstn (S (S n)) (cumsum_from RO acc (x :: r))) with (acc :: firstn (S n) (cumsum_from RO (acc + x) r)).
    rewrite IH. reflexivity.
Qed.
Theorem slice_times a b dts : (a <= length dts)%nat -> (a <= b)%nat ->
  times RO (slice a b dts) = map (fun x => x - nth a (times RO dts) 0) (slice a (S b) (times RO dts)).
Proof.
  intros Ha Hab. unfold slice, times.
  replace (S b - a)%nat with (S (b - a)) by lia. simpl o0.
  rewrite cumsum_from_skipn by assumption. rewrite cumsum_from_firstn.
  rewrite (cumsum_from_shift (nth a _ 0)). rewrite map_map.
  rewrite <- (map_id (cumsum_from RO 0 (firstn (b - a) (skipn a dts)))) at 1.
  apply map_ext. intros. ring.
Qed.

(* ---------------------------------------------------------------------------------------------- *)
(* nondecreasing lists, searchsorted                                                              *)
(* ---------------------------------------------------------------------------------------------- *)
Definition nondecr (ts : list R) : Prop := forall i, (S i < length ts)%nat -> nth i ts 0 <= nth (S i) ts 0.
Lemma nondecr_tail a l : nondecr (a :: l) -> nondecr l.
Proof. intros H i Hi. apply (H (S i)). simpl. lia. Qed.
Lemma nondecr_mono ts i j : nondecr ts -> (i <= j)%nat -> (j < length ts)%nat -> nth i ts 0 <= nth j ts 0.
Proof.
  intros H Hij Hj. induction j. replace i with 0%nat by lia. lra.
  destruct (Nat.eq_dec i (S j)) as [->|Hne]. lra.
  apply Rle_trans with (nth j ts 0). apply IHj; lia. apply H. lia.
Qed.
Lemma times_nondecr dts : (forall g, (g < length dts)%nat -> 0 <= nth g dts 0) -> nondecr (times RO dts).
Proof. intros H i Hi. rewrite times_length in Hi. rewrite times_nth_S by lia.
  assert (0 <= nth i dts 0) by (apply H; lia). lra. Qed.

(* number of elements strictly below tq; np.searchsorted(t, tq) for nondecreasing t *)
Fixpoint count_lt (ts : list R) (tq : R) : nat :=
  match ts with [] => O | x :: r => ((if Rlt_dec x tq then 1 else 0) + count_lt r tq)%nat end.
(* idx = searchsorted(t, tq) - 1 ; idx[idx < 0] = 0 *)
Definition ss_idx (ts : list R) (tq : R) : nat := Nat.pred (count_lt ts tq).

Lemma count_lt_le_length ts tq : (count_lt ts tq <= length ts)%nat.
Proof. induction ts; simpl. lia. destruct (Rlt_dec a tq); lia. Qed.
Lemma count_lt_zero ts tq : (forall i, (i < length ts)%nat -> tq <= nth i ts 0) -> count_lt ts tq = O.
Proof.
  induction ts as [|x r IH]; intros H; simpl. reflexivity.
  destruct (Rlt_dec x tq) as [Hl|Hl].
  - specialize (H 0%nat). simpl in H. assert (tq <= x) by (apply H; lia). lra.
  - rewrite IH. reflexivity. intros i Hi. apply (H (S i)). simpl. lia.
Qed.
Lemma count_lt_prefix ts tq : nondecr ts ->
  (forall i, (i < count_lt ts tq)%nat -> nth i ts 0 < tq) /\
  (forall i, (count_lt ts tq <= i)%nat -> (i < length ts)%nat -> tq <= nth i ts 0).
Proof.
  induction ts as [|x r IH]; intros Hs. split; intros; simpl in *; lia.
  simpl. destruct (Rlt_dec x tq) as [Hl|Hl].
  - destruct (IH (nondecr_tail _ _ Hs)) as [I1 I2]. split.
    + intros [|i] Hi. exact Hl. apply I1. lia.
    + intros [|i] Hi Hi2. lia. apply I2; simpl in *; lia.
  - assert (Hall : forall i, (i < length (x :: r))%nat -> tq <= nth i (x :: r) 0).
    { intros i Hi. apply Rle_trans with x. lra.
      apply (nondecr_mono (x :: r) 0 i Hs); auto. lia. }
    rewrite count_lt_zero. 2:{ intros i Hi. apply (Hall (S i)). simpl. lia. }
    split. intros; lia. intros i _ Hi. apply Hall. exact Hi.
Qed.
Lemma last_nth_R (l : list R) : last l 0 = nth (length l - 1) l 0.
Proof. induction l as [|x [|y r] IH]; try reflexivity.
  change (last (x :: y :: r) 0) with (last (y :: r) 0). rewrite IH. simpl. rewrite Nat.sub_0_r. reflexivity. Qed.

(* the selected index g satisfies t_g < tq <= t_{g+1}; for tq at or below t_0 it is 0 *)
Theorem searchsorted_spec ts tq : nondecr ts -> (2 <= length ts)%nat -> tq <= last ts 0 ->
  let g := ss_idx ts tq in
  (S g < length ts)%nat /\ tq <= nth (S g) ts 0 /\
  (nth g ts 0 < tq \/ (g = O /\ tq <= nth 0 ts 0)).
Proof.
  intros Hs HL Hlast. unfold ss_idx.
  destruct (count_lt_prefix ts tq Hs) as [P1 P2].
  pose proof (count_lt_le_length ts tq) as Hc.
  destruct (count_lt ts tq) as [|c] eqn:E; simpl.
  - assert (H0 : tq <= nth 0 ts 0) by (apply P2; lia).
    split. lia. split. 2:{ right. auto. }
    apply Rle_trans with (nth 0 ts 0); [exact H0 | apply Hs; lia].
  - assert (Hc' : (S c < length ts)%nat).
    { destruct (Nat.eq_dec (S c) (length ts)) as [Heq|]. 2: lia.
      exfalso. rewrite last_nth_R in Hlast.
      assert (nth (length ts - 1) ts 0 < tq) by (apply P1; lia). lra. }
    split. exact Hc'. split. apply P2; lia. left. apply P1. lia.
Qed.

(* ---------------------------------------------------------------------------------------------- *)
(* segment propagators and their cumulative product                                               *)
(* ---------------------------------------------------------------------------------------------- *)
Section Seg.
Variable d : nat.

Lemma toF_segment_propagator ev V dt :
  feq d (toF (segment_propagator RO d ev V dt)) (fexpm d (toF V) (vg RO ev) dt).
Proof.
  intros i k Hi Hk. rewrite fexpm_entry by assumption.
  unfold toF, segment_propagator. rewrite mget_mbuild by assumption. reflexivity.
Qed.
Lemma toF_spectral_exp V arg :
  feq d (toF (spectral_exp RO d V arg))
        (fmul d (toF V) (fmul d (fdiagv (fun j => cexp' (arg j))) (fadj (toF V)))).
Proof.
  intros i k Hi Hk. unfold toF at 1, spectral_exp. rewrite mget_mbuild by assumption.
  unfold fmul at 1. apply csumn_ext. intros j Hj.
  rewrite (fmul_diag_l d _ (fadj (toF V)) j k Hj Hk). unfold fadj, toF. ring.
Qed.
Lemma toF_arb_t_segment ev V Q tg tq :
  feq d (toF (arb_t_segment RO d ev V Q tg tq)) (fmul d (fexpm d (toF V) (vg RO ev) (tq - tg)) (toF Q)).
Proof.
  unfold arb_t_segment. rewrite toF_mmul, toF_spectral_exp. unfold fexpm.
  rewrite (fdiagv_ext d _ (fun j => cexp' (- ((tq - tg) * vg RO ev j)))). reflexivity.
  intros j _. f_equal. simpl. ring.
Qed.
Lemma toF_mzero : feq d (toF (mzero_d RO d)) fzero.
Proof. intros i j Hi Hj. unfold toF, mzero_d, mzero. rewrite mget_mbuild; auto. Qed.
Lemma toF_mscalr x A : feq d (toF (mscalr RO d x A)) (fscal (cofr RO x) (toF A)).
Proof. intros i j Hi Hj. unfold toF, mscalr. rewrite mget_mbuild; auto. unfold fscal. apply c_eq; csimp; ring. Qed.

(* P_g is unitary (given the eigenvector matrix is) *)
Theorem segment_propagator_unitary ev V dt : funitary d (toF V) ->
  funitary d (toF (segment_propagator RO d ev V dt)).
Proof. intros H. rewrite toF_segment_propagator. apply fexpm_unitary; assumption. Qed.
(* a zero-length segment does nothing *)
Theorem segment_propagator_zero ev V : funitary d (toF V) ->
  feq d (toF (segment_propagator RO d ev V 0)) fid.
Proof. intros H. rewrite toF_segment_propagator. apply fexpm_0; assumption. Qed.

Lemma cumulative_length evs : forall Vs dts Q, length Vs = length evs -> length dts = length evs ->
  length (cumulative RO d evs Vs dts Q) = S (length evs).
Proof.
  induction evs as [|ev evs IH]; intros [|V Vs] [|dt dts] Q H1 H2; simpl in *; try lia.
  rewrite IH; lia.
Qed.
Lemma cumulative_nth_0 evs Vs dts Q : nth 0 (cumulative RO d evs Vs dts Q) [] = Q.
Proof. destruct evs, Vs, dts; reflexivity. Qed.
Lemma cumulative_nth_S evs : forall Vs dts Q g, length Vs = length evs -> length dts = length evs ->
  (g < length evs)%nat ->
  nth (S g) (cumulative RO d evs Vs dts Q) [] =
  mmul RO d (segment_propagator RO d (nth g evs []) (nth g Vs []) (nth g dts 0)) (nth g (cumulative RO d evs Vs dts Q) []).
Proof.
  induction evs as [|ev evs IH]; intros [|V Vs] [|dt dts] Q g H1 H2 Hg; simpl in *; try lia.
  destruct g.
  - rewrite cumulative_nth_0. reflexivity.
  - rewrite IH by lia. reflexivity.
Qed.

Variables (evs : list (list R)) (Vs : list (Mat (T:=R))) (dts : list R).
Hypothesis HLV : length Vs = length evs.
Hypothesis HLd : length dts = length evs.
(* the eigh oracle: every eigenvector matrix is unitary *)
Hypothesis HU : forall g, (g < length evs)%nat -> funitary d (toF (nth g Vs [])).

Notation Qs := (propagators RO d evs Vs dts).
Notation ts := (times RO dts).
Definition Q_ (g : nat) : fmat := toF (nth g Qs []).
Definition P_ (g : nat) : fmat := toF (segment_propagator RO d (nth g evs []) (nth g Vs []) (nth g dts 0)).
Definition H_ (g : nat) : fmat := fspec d (toF (nth g Vs [])) (vg RO (nth g evs [])).
Definition t_ (g : nat) : R := nth g ts 0.
(* the interpolated propagator on segment g: V_g e^{-i D_g (t - t_g)} V_g^dagger Q_g *)
Definition U_ (g : nat) (t : R) : fmat :=
  fmul d (fexpm d (toF (nth g Vs [])) (vg RO (nth g evs [])) (t - t_ g)) (Q_ g).

Theorem propagators_length : length Qs = S (length evs).
Proof. apply cumulative_length; assumption. Qed.
(* Q_0 = 1 *)
Theorem propagators_0 : feq d (Q_ 0) fid.
Proof. unfold Q_, propagators. rewrite cumulative_nth_0. apply toF_mid. Qed.
(* Q_{g+1} = P_g Q_g *)
Theorem propagators_S g : (g < length evs)%nat -> feq d (Q_ (S g)) (fmul d (P_ g) (Q_ g)).
Proof. intros Hg. unfold Q_, P_, propagators. rewrite cumulative_nth_S by assumption. apply toF_mmul. Qed.
(* P_g = e^{-i H_g dt_g} in spectral form, unitary *)
Theorem P_spectral g : feq d (P_ g) (fexpm d (toF (nth g Vs [])) (vg RO (nth g evs [])) (nth g dts 0)).
Proof. apply toF_segment_propagator. Qed.
Theorem P_unitary g : (g < length evs)%nat -> funitary d (P_ g).
Proof. intros Hg. apply segment_propagator_unitary. apply HU; assumption. Qed.
(* every Q_g is unitary *)
Theorem propagators_unitary g : (g <= length evs)%nat -> funitary d (Q_ g).
Proof.
  induction g; intros Hg.
  - rewrite propagators_0. apply funitary_id.
  - rewrite propagators_S by lia. apply funitary_mul. apply P_unitary; lia. apply IHg; lia.
Qed.
(* total_propagator = propagators[-1] = Q_G *)
Lemma last_nth_mat (l : list (Mat (T:=R))) dflt : l <> [] -> last l dflt = nth (length l - 1) l [].
Proof. induction l as [|x [|y r] IH]; intros H. congruence. reflexivity.
  change (last (x :: y :: r) dflt) with (last (y :: r) dflt). rewrite IH by discriminate.
  simpl. rewrite Nat.sub_0_r. reflexivity. Qed.
Theorem total_is_last : toF (total_propagator RO d Qs) = Q_ (length evs).
Proof.
  unfold total_propagator, Q_. rewrite last_nth_mat.
  - rewrite propagators_length. simpl. rewrite Nat.sub_0_r. reflexivity.
  - intros E. pose proof propagators_length as H. rewrite E in H. discriminate.
Qed.
Theorem total_unitary : funitary d (toF (total_propagator RO d Qs)).
Proof. rewrite total_is_last. apply propagators_unitary. lia. Qed.
(* a zero-length segment leaves the cumulative propagator unchanged *)
Theorem zero_length_segment g : (g < length evs)%nat -> nth g dts 0 = 0 -> feq d (Q_ (S g)) (Q_ g).
Proof.
  intros Hg H0. rewrite propagators_S by assumption. unfold P_. rewrite H0.
  rewrite segment_propagator_zero by (apply HU; assumption). apply fmul_id_l.
Qed.

(* ----- the interpolated propagator ----- *)
Theorem U_left_edge g : (g < length evs)%nat -> feq d (U_ g (t_ g)) (Q_ g).
Proof.
  intros Hg. unfold U_. replace (t_ g - t_ g) with 0 by ring.
  rewrite fexpm_0 by (apply HU; assumption). apply fmul_id_l.
Qed.
Theorem U_right_edge g : (g < length evs)%nat -> feq d (U_ g (t_ (S g))) (Q_ (S g)).
Proof.
  intros Hg. unfold U_, t_. rewrite times_nth_S by lia.
  replace (nth g ts 0 + nth g dts 0 - nth g ts 0) with (nth g dts 0) by ring.
  rewrite propagators_S by assumption. rewrite P_spectral. reflexivity.
Qed.
(* U(0) = 1 *)
Theorem U_initial : (0 < length evs)%nat -> feq d (U_ 0 0) fid.
Proof.
  intros Hg. assert (E : t_ 0 = 0) by apply times_nth_0.
  replace (U_ 0 0) with (U_ 0 (t_ 0)) by (rewrite E; reflexivity). rewrite U_left_edge by assumption. apply propagators_0.
Qed.
Theorem U_unitary g t : (g < length evs)%nat -> funitary d (U_ g t).
Proof.
  intros Hg. unfold U_. apply funitary_mul. apply fexpm_unitary. apply HU; assumption.
  apply propagators_unitary. lia.
Qed.
(* i dU/dt = H_g U inside (and at the ends of) segment g, entrywise *)
Theorem U_schroedinger g t i j : (g < length evs)%nat -> (i < d)%nat -> (j < d)%nat ->
  cderive (fun s => U_ g s i j) t (fscal (cneg' ic) (fmul d (H_ g) (U_ g t)) i j).
Proof.
  intros Hg Hi Hj. unfold U_, H_. apply schroedinger_entry; auto.
Qed.
(* the same with the Hamiltonian the eigenpairs were computed from: H V_g = V_g D_g *)
Theorem U_schroedinger_H (Hm : fmat) g t i j : (g < length evs)%nat -> (i < d)%nat -> (j < d)%nat ->
  feq d (fmul d Hm (toF (nth g Vs []))) (fmul d (toF (nth g Vs [])) (fdiagv (fun k => cofr RO (vg RO (nth g evs []) k)))) ->
  cderive (fun s => U_ g s i j) t (fscal (cneg' ic) (fmul d Hm (U_ g t)) i j).
Proof.
  intros Hg Hi Hj E.
  assert (E2 : feq d (fscal (cneg' ic) (fmul d Hm (U_ g t))) (fscal (cneg' ic) (fmul d (H_ g) (U_ g t)))).
  { unfold H_. rewrite <- (fspec_of_eig d Hm _ _ (HU g Hg) E). reflexivity. }
  rewrite (E2 i j Hi Hj). apply U_schroedinger; assumption.
Qed.
Theorem U_continuous g t i j : (g < length evs)%nat -> (i < d)%nat -> (j < d)%nat ->
  continuous (fun s => fst (U_ g s i j)) t /\ continuous (fun s => snd (U_ g s i j)) t.
Proof. intros Hg Hi Hj. eapply cderive_continuous. apply U_schroedinger; assumption. Qed.
(* U(t) = e^{-i H_g (t - t_g)} Q_g with the group property of the exponential *)
Theorem U_compose g s1 s2 : (g < length evs)%nat ->
  feq d (U_ g (t_ g + (s1 + s2)))
        (fmul d (fexpm d (toF (nth g Vs [])) (vg RO (nth g evs [])) s2) (U_ g (t_ g + s1))).
Proof.
  intros Hg. unfold U_.
  replace (t_ g + (s1 + s2) - t_ g) with (s2 + s1) by ring.
  replace (t_ g + s1 - t_ g) with s1 by ring.
  rewrite (fexpm_add d _ _ (HU g Hg)). symmetry. apply fmul_assoc.
Qed.
(* H_g is Hermitian and has the cached eigenpairs *)
Theorem H_hermitian g : fherm d (H_ g).
Proof. exact (fspec_herm d _ _). Qed.
Theorem H_eigen g : (g < length evs)%nat ->
  feq d (fmul d (H_ g) (toF (nth g Vs []))) (fmul d (toF (nth g Vs [])) (fdiagv (fun j => cofr RO (vg RO (nth g evs []) j)))).
Proof. intros Hg. exact (fspec_eig d _ _ (HU g Hg)). Qed.

(* ----- propagator_at_arb_t: selection of the segment ----- *)
Lemma sel_first_1 tg tg1 tq : tq <= tg1 -> sel_weight RO true tg tg1 tq = 1.
Proof. intros H. unfold sel_weight. simpl. apply Rgtb_false in H. rewrite H. reflexivity. Qed.
Lemma sel_above first tg tg1 tq : tg1 < tq -> sel_weight RO first tg tg1 tq = 0.
Proof. intros H. unfold sel_weight. simpl. apply Rgtb_true in H. rewrite H.
  destruct first; auto. destruct (Rgtb tq tg); reflexivity. Qed.
Lemma sel_below tg tg1 tq : tq <= tg -> sel_weight RO false tg tg1 tq = 0.
Proof. intros H. unfold sel_weight. simpl. apply Rgtb_false in H. rewrite H. reflexivity. Qed.
Lemma sel_in tg tg1 tq : tg < tq -> tq <= tg1 -> sel_weight RO false tg tg1 tq = 1.
Proof. intros H1 H2. unfold sel_weight. simpl. apply Rgtb_true in H1. apply Rgtb_false in H2.
  rewrite H1, H2. reflexivity. Qed.

Lemma arb_t_loop_cons first e es W Ws Rm Rs tg tg1 us tq :
  arb_t_loop RO d first (e :: es) (W :: Ws) (Rm :: Rs) (tg :: tg1 :: us) tq =
  madd RO d (mscalr RO d (sel_weight RO first tg tg1 tq) (arb_t_segment RO d e W Rm tg tq))
            (arb_t_loop RO d false es Ws Rs (tg1 :: us) tq).
Proof. reflexivity. Qed.

Lemma arb_loop_zero : forall es Ws Rs us tq, nondecr us -> tq <= hd 0 us ->
  feq d (toF (arb_t_loop RO d false es Ws Rs us tq)) fzero.
Proof.
  induction es as [|e es IH]; intros Ws Rs us tq Hs Hq. apply toF_mzero.
  destruct Ws as [|W Ws]. apply toF_mzero. destruct Rs as [|Rm Rs]. apply toF_mzero.
  destruct us as [|tg [|tg1 us]]; try apply toF_mzero.
  simpl in Hq. rewrite arb_t_loop_cons.
  rewrite toF_madd, toF_mscalr, sel_below by assumption.
  rewrite IH.
  - change (cofr RO 0) with 0c. rewrite fscal_zero. apply fadd_zero_l.
  - eapply nondecr_tail; eassumption.
  - simpl. apply Rle_trans with tg; auto. apply (Hs 0%nat). simpl. lia.
Qed.

Lemma arb_loop_select : forall g es Ws Rs us first tq,
  length Ws = length es -> length Rs = S (length es) -> length us = S (length es) -> nondecr us ->
  (g < length es)%nat ->
  ((first = true /\ g = O) \/ nth g us 0 < tq) -> tq <= nth (S g) us 0 ->
  feq d (toF (arb_t_loop RO d first es Ws Rs us tq))
        (toF (arb_t_segment RO d (nth g es []) (nth g Ws []) (nth g Rs []) (nth g us 0) tq)).
Proof.
  induction g; intros es Ws Rs us first tq H1 H2 H3 Hs Hg Hlo Hhi;
    destruct es as [|e es]; simpl in Hg; try lia;
    destruct Ws as [|W Ws]; simpl in H1; try lia;
    destruct Rs as [|Rm Rs]; simpl in H2; try lia;
    destruct us as [|tg [|tg1 us]]; simpl in H3; try lia.
  - simpl in Hlo, Hhi. rewrite arb_t_loop_cons. simpl nth.
    rewrite toF_madd, toF_mscalr.
    rewrite arb_loop_zero; [| eapply nondecr_tail; eassumption | simpl; assumption].
    assert (W1 : sel_weight RO first tg tg1 tq = 1).
    { destruct Hlo as [[-> _]|Hlo]. apply sel_first_1; assumption.
      destruct first. apply sel_first_1; assumption. apply sel_in; assumption. }
    rewrite W1. change (cofr RO 1) with 1c. rewrite fscal_one. apply fadd_zero_r.
  - assert (Hlt : nth (S g) (tg :: tg1 :: us) 0 < tq).
    { destruct Hlo as [[_ Hx]|Hlo]. discriminate. exact Hlo. }
    assert (Hmono : tg1 <= nth (S g) (tg :: tg1 :: us) 0).
    { apply (nondecr_mono (tg :: tg1 :: us) 1 (S g) Hs). lia. simpl. simpl in H3. lia. }
    rewrite arb_t_loop_cons.
    rewrite toF_madd, toF_mscalr, sel_above by lra.
    change (cofr RO 0) with 0c. rewrite fscal_zero, fadd_zero_l.
    rewrite (IHg es Ws Rs (tg1 :: us) false tq); try (simpl; lia).
    + reflexivity.
    + eapply nondecr_tail; eassumption.
    + right. exact Hlt.
    + exact Hhi.
Qed.

(* for nondecreasing t and tq <= tau, the model of propagator_at_arb_t returns the interpolated
   propagator of the segment selected by searchsorted *)
Theorem arb_t_select tq : (0 < length evs)%nat -> nondecr ts -> tq <= last ts 0 ->
  let g := ss_idx ts tq in
  (g < length evs)%nat /\ feq d (toF (propagator_at_arb_t RO d evs Vs Qs ts tq)) (U_ g tq).
Proof.
  intros HG Hs Hq g.
  assert (HL : (2 <= length ts)%nat) by (rewrite times_length; lia).
  destruct (searchsorted_spec ts tq Hs HL Hq) as [S1 [S2 S3]]. fold g in S1, S2, S3.
  rewrite times_length in S1. split. lia.
  unfold propagator_at_arb_t.
  rewrite (arb_loop_select g); try assumption.
  - rewrite toF_arb_t_segment. reflexivity.
  - apply propagators_length.
  - rewrite times_length. lia.
  - lia.
  - destruct S3 as [S3|[S3 _]]. right; exact S3. left; auto.
Qed.

(* the value at an arbitrary time inside segment g (t_g < tq <= t_{g+1}) *)
Theorem arb_t_in_segment g tq : (g < length evs)%nat -> nondecr ts ->
  t_ g < tq -> tq <= t_ (S g) ->
  feq d (toF (propagator_at_arb_t RO d evs Vs Qs ts tq)) (U_ g tq).
Proof.
  intros Hg Hs H1 H2. unfold propagator_at_arb_t.
  rewrite (arb_loop_select g); try assumption.
  - rewrite toF_arb_t_segment. reflexivity.
  - apply propagators_length.
  - rewrite times_length. lia.
  - right. exact H1.
Qed.

(* at every edge t_{g+1} reached by a segment of positive length the model returns Q_{g+1} *)
Theorem arb_t_at_edge g : (g < length evs)%nat -> nondecr ts -> t_ g < t_ (S g) ->
  feq d (toF (propagator_at_arb_t RO d evs Vs Qs ts (t_ (S g)))) (Q_ (S g)).
Proof.
  intros Hg Hs Hlt. rewrite (arb_t_in_segment g); auto. apply U_right_edge; assumption. lra.
Qed.
(* and at t = 0 (and below) it returns U_0, which is the identity at 0 *)
Theorem arb_t_at_zero : (0 < length evs)%nat -> nondecr ts ->
  feq d (toF (propagator_at_arb_t RO d evs Vs Qs ts 0)) fid.
Proof.
  intros HG Hs. unfold propagator_at_arb_t.
  rewrite (arb_loop_select 0); try assumption.
  - rewrite toF_arb_t_segment. fold (t_ 0). fold (Q_ 0). fold (U_ 0 0). apply U_initial; assumption.
  - apply propagators_length.
  - rewrite times_length. lia.
  - left. auto.
  - rewrite <- (times_nth_0 dts) at 1. apply Hs. rewrite times_length. lia.
Qed.

(* left and right limits at the edges: approaching t_{g+1} from inside segment g gives Q_{g+1},
   approaching t_g from inside segment g gives Q_g *)
Definition arb_entry (i j : nat) (tq : R) : Cx := toF (propagator_at_arb_t RO d evs Vs Qs ts tq) i j.

Theorem arb_t_left_limit g i j : (g < length evs)%nat -> (i < d)%nat -> (j < d)%nat -> nondecr ts ->
  t_ g < t_ (S g) ->
  filterlim (fun tq => fst (arb_entry i j tq)) (at_left (t_ (S g))) (locally (fst (Q_ (S g) i j))) /\
  filterlim (fun tq => snd (arb_entry i j tq)) (at_left (t_ (S g))) (locally (snd (Q_ (S g) i j))).
Proof.
  intros Hg Hi Hj Hs Hlt.
  destruct (U_continuous g (t_ (S g)) i j Hg Hi Hj) as [C1 C2].
  rewrite <- (U_right_edge g Hg i j Hi Hj).
  assert (Hev : forall (P : Cx -> R), at_left (t_ (S g)) (fun tq => P (U_ g tq i j) = P (arb_entry i j tq))).
  { intros P. exists (mkposreal (t_ (S g) - t_ g) ltac:(lra)). intros y Hy Hy2.
    unfold arb_entry. rewrite (arb_t_in_segment g y Hg Hs); auto.
    - apply ball_sym in Hy. unfold ball in Hy. simpl in Hy. unfold AbsRing_ball, abs, minus, plus, opp in Hy. simpl in Hy.
      apply Rabs_lt_between in Hy. lra.
    - lra. }
  split.
  - eapply filterlim_ext_loc. apply (Hev fst).
    eapply filterlim_filter_le_1; [|exact C1]. intros P HP. apply filter_le_within. exact HP.
  - eapply filterlim_ext_loc. apply (Hev snd).
    eapply filterlim_filter_le_1; [|exact C2]. intros P HP. apply filter_le_within. exact HP.
Qed.

Theorem arb_t_right_limit g i j : (g < length evs)%nat -> (i < d)%nat -> (j < d)%nat -> nondecr ts ->
  t_ g < t_ (S g) ->
  filterlim (fun tq => fst (arb_entry i j tq)) (at_right (t_ g)) (locally (fst (Q_ g i j))) /\
  filterlim (fun tq => snd (arb_entry i j tq)) (at_right (t_ g)) (locally (snd (Q_ g i j))).
Proof.
  intros Hg Hi Hj Hs Hlt.
  destruct (U_continuous g (t_ g) i j Hg Hi Hj) as [C1 C2].
  rewrite <- (U_left_edge g Hg i j Hi Hj).
  assert (Hev : forall (P : Cx -> R), at_right (t_ g) (fun tq => P (U_ g tq i j) = P (arb_entry i j tq))).
  { intros P. exists (mkposreal (t_ (S g) - t_ g) ltac:(lra)). intros y Hy Hy2.
    unfold arb_entry. rewrite (arb_t_in_segment g y Hg Hs); auto.
    apply ball_sym in Hy. unfold ball in Hy. simpl in Hy. unfold AbsRing_ball, abs, minus, plus, opp in Hy. simpl in Hy.
    apply Rabs_lt_between in Hy. lra. }
  split.
  - eapply filterlim_ext_loc. apply (Hev fst).
    eapply filterlim_filter_le_1; [|exact C1]. intros P HP. apply filter_le_within. exact HP.
  - eapply filterlim_ext_loc. apply (Hev snd).
    eapply filterlim_filter_le_1; [|exact C2]. intros P HP. apply filter_le_within. exact HP.
Qed.

End Seg.
