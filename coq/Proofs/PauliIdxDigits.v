(* C16 -- remap_pauli_basis_elements, digit form (the analogue of equiv_pauli_digits): element j of the
   returned index list has the base-4 digits of j permuted by `order` (new digit k = old digit order[k]);
   hence remapping with `o1` and indexing the result with the remap of `o2` is the remap of the composed
   order, and the inverse order undoes the remap.  Every N, every permutation. *)
From Coq Require Import ZArith List Arith Lia Bool Permutation.
From FF Require Import Model.Tensor Model.PauliIdx Spec.Kron Proofs.TensorIdx Proofs.TensorKron Proofs.PauliIdx.
Import ListNotations.

Lemma prodn_repeat4 k : prodn (repeat 4 k) = 4 ^ k.
Proof. induction k as [|k IH]; simpl; auto. Qed.

Lemma perm_bound N ord : Permutation ord (seq 0 N) -> Forall (fun i => i < N) ord.
Proof. intros Hp. apply Forall_forall. intros o Ho. apply (Permutation_in _ Hp) in Ho. apply in_seq in Ho. lia. Qed.

Lemma unravel_inb4 N j : j < 4 ^ N -> inb (unravel (repeat 4 N) j) (repeat 4 N).
Proof.
  intros Hj. rewrite <- nth_indices_unravel by (rewrite prodn_repeat4; auto).
  apply In_indices. apply nth_In. rewrite indices_length, prodn_repeat4. auto.
Qed.

Theorem remap_pauli_digits N ord r j :
  Permutation ord (seq 0 N) -> remap_pauli (map Z.of_nat ord) N = Ok r -> j < 4 ^ N ->
  unravel (repeat 4 N) (nth j r 0) = permute ord (unravel (repeat 4 N) j).
Proof.
  intros Hp Hr Hj. rewrite remap_pauli_spec in Hr by exact Hp. injection Hr as <-.
  rewrite (nth_indep _ _ (ravel (repeat 4 N) (permute ord [])))
    by (rewrite map_length, indices_length, prodn_repeat4; auto).
  rewrite (map_nth (fun a => ravel (repeat 4 N) (permute ord a))).
  rewrite nth_indices_unravel by (rewrite prodn_repeat4; auto).
  apply unravel_ravel.
  assert (Hl : length ord = N) by (rewrite (Permutation_length Hp); apply seq_length).
  pose proof (permute_inb N ord _ (perm_bound N ord Hp) (unravel_inb4 N j Hj)) as H.
  rewrite Hl in H. exact H.
Qed.

Lemma ravel_unravel s k : k < prodn s -> ravel s (unravel s k) = k.
Proof. intros Hk. rewrite <- nth_indices_unravel by exact Hk. apply nth_indices. exact Hk. Qed.

Lemma permute_permute o1 o2 a : Forall (fun i => i < length o2) o1 ->
  permute o1 (permute o2 a) = permute (map (fun i => nth i o2 0) o1) a.
Proof.
  intros H. unfold permute. rewrite map_map. apply map_ext_in. intros i Hi.
  rewrite Forall_forall in H. specialize (H i Hi).
  set (f := fun i : nat => nth i a 0).
  rewrite (nth_indep _ 0 (f 0)) by (rewrite map_length; lia).
  rewrite map_nth. reflexivity.
Qed.

Lemma permute_id (a : list nat) : permute (seq 0 (length a)) a = a.
Proof.
  unfold permute. induction a as [|x a IH]; simpl; auto. f_equal.
  rewrite <- seq_shift, map_map. exact IH.
Qed.

Lemma remap_nth_bound N ord r j :
  Permutation ord (seq 0 N) -> remap_pauli (map Z.of_nat ord) N = Ok r -> j < 4 ^ N -> nth j r 0 < 4 ^ N.
Proof.
  intros Hp Hr Hj. pose proof (remap_pauli_perm N ord r Hp Hr) as P.
  assert (Hl : length r = 4 ^ N) by (rewrite (Permutation_length P); apply seq_length).
  assert (Hin : In (nth j r 0) r) by (apply nth_In; lia).
  apply (Permutation_in _ P) in Hin. apply in_seq in Hin. lia.
Qed.

(* composition: looking up the remap of o2 and then the remap of o1 is the remap of k |-> o2[o1[k]], in digits *)
Theorem remap_pauli_compose_digits N o1 o2 r1 r2 j :
  Permutation o1 (seq 0 N) -> Permutation o2 (seq 0 N) ->
  remap_pauli (map Z.of_nat o1) N = Ok r1 -> remap_pauli (map Z.of_nat o2) N = Ok r2 -> j < 4 ^ N ->
  unravel (repeat 4 N) (nth (nth j r2 0) r1 0) =
  permute (map (fun i => nth i o2 0) o1) (unravel (repeat 4 N) j).
Proof.
  intros H1 H2 Hr1 Hr2 Hj.
  rewrite (remap_pauli_digits N o1 r1 _ H1 Hr1) by (apply (remap_nth_bound N o2 r2 j); auto).
  rewrite (remap_pauli_digits N o2 r2 j H2 Hr2 Hj).
  apply permute_permute.
  assert (Hl : length o2 = N) by (rewrite (Permutation_length H2); apply seq_length).
  rewrite Hl. apply perm_bound. exact H1.
Qed.

(* inverse orders undo each other: o2[o1[k]] = k for every k => r1[r2[j]] = j for every j *)
Theorem remap_pauli_inverse N o1 o2 r1 r2 j :
  Permutation o1 (seq 0 N) -> Permutation o2 (seq 0 N) ->
  remap_pauli (map Z.of_nat o1) N = Ok r1 -> remap_pauli (map Z.of_nat o2) N = Ok r2 ->
  map (fun i => nth i o2 0) o1 = seq 0 N -> j < 4 ^ N ->
  nth (nth j r2 0) r1 0 = j.
Proof.
  intros H1 H2 Hr1 Hr2 Hinv Hj.
  pose proof (remap_pauli_compose_digits N o1 o2 r1 r2 j H1 H2 Hr1 Hr2 Hj) as D.
  rewrite Hinv in D.
  assert (Hlen : length (unravel (repeat 4 N) j) = N) by (rewrite unravel_length; apply repeat_length).
  rewrite <- Hlen in D at 2. rewrite permute_id in D.
  assert (Hb : nth (nth j r2 0) r1 0 < 4 ^ N).
  { apply (remap_nth_bound N o1 r1); auto. apply (remap_nth_bound N o2 r2); auto. }
  rewrite <- (ravel_unravel (repeat 4 N) (nth (nth j r2 0) r1 0)) by (rewrite prodn_repeat4; exact Hb).
  rewrite D. apply ravel_unravel. rewrite prodn_repeat4. exact Hj.
Qed.
