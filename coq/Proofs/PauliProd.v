(* The n-qubit Pauli basis (normalised Kronecker chains of four 2x2 matrices sigma 0..3) is the
   product of the bases of the first m and the remaining r qubits, is orthonormal, and its first
   element is the normalised identity -- the hypotheses about the basis made by the C05 theorems,
   derived from three facts about sigma:  sigma 0 = 1,  tr(sigma_a^dagger sigma_b) = 2 delta_ab.  *)
From Coq Require Import String ZArith Reals List Lra Lia Arith Bool Permutation.
From FF Require Import Base.Ops Inst.RInst Base.RAlg Spec.Kron2 Spec.DigitPerm Model.Numeric
     Proofs.RemapIdx Proofs.RemapCov Proofs.Remap Proofs.ExtendKron.
Import ListNotations.
Local Open Scope nat_scope.

(* ---------- digits of a concatenated index ---------- *)
Lemma digits_split d n1 n2 i : 0 < d -> i < d ^ (n1 + n2) ->
  digits d (n1 + n2) i = digits d n1 (i / d ^ n2) ++ digits d n2 (i mod d ^ n2).
Proof.
  intros Hd. revert i. induction n1; intros i Hi; simpl.
  - simpl in Hi. rewrite Nat.mod_small by auto. reflexivity.
  - pose proof (pow_pos d n1 Hd) as P1. pose proof (pow_pos d n2 Hd) as P2.
    pose proof (pow_pos d (n1 + n2) Hd) as P12.
    rewrite IHn1 by (apply Nat.mod_upper_bound; lia). f_equal.
    + rewrite Nat.pow_add_r. rewrite (Nat.mul_comm (d ^ n1)). rewrite Nat.div_div by lia. reflexivity.
    + f_equal.
      * f_equal. rewrite Nat.pow_add_r, (Nat.mul_comm (d ^ n1)). rewrite Nat.mod_mul_r by lia.
        rewrite Nat.mul_comm, Nat.div_add by lia. rewrite (Nat.div_small (i mod d ^ n2)) by (apply Nat.mod_upper_bound; lia).
        reflexivity.
      * f_equal. rewrite Nat.pow_add_r, (Nat.mul_comm (d ^ n1)). rewrite Nat.mod_mul_r by lia.
        rewrite Nat.mul_comm, Nat.mod_add by lia. apply Nat.mod_mod. lia.
Qed.

Lemma kron_entry_app l1 l2 a1 a2 b1 b2 : length a1 = length l1 -> length b1 = length l1 ->
  kron_entry (l1 ++ l2) (a1 ++ a2) (b1 ++ b2) = cmul' (kron_entry l1 a1 b1) (kron_entry l2 a2 b2).
Proof.
  revert a1 b1. induction l1; intros a1 b1 H1 H2.
  - destruct a1; [|discriminate]. destruct b1; [|discriminate]. simpl. ring.
  - destruct a1 as [|x a1]; [discriminate|]. destruct b1 as [|y b1]; [discriminate|]. simpl in *.
    rewrite IHl1 by lia. ring.
Qed.
(* (A_0 (x) ... (x) A_{m-1}) (x) (A_m (x) ...) = chain of the concatenated list *)
Theorem kronl_app d l1 l2 i j : 0 < d -> i < d ^ (length l1 + length l2) -> j < d ^ (length l1 + length l2) ->
  kronl d (l1 ++ l2) i j = fkron (d ^ length l2) (kronl d l1) (kronl d l2) i j.
Proof.
  intros Hd Hi Hj. unfold fkron. rewrite !kronl_entry. rewrite app_length. rewrite !digits_split by auto.
  apply kron_entry_app; apply digits_length.
Qed.

Section P.
Variable sigma : nat -> fmat.
Variable nrm : nat -> Cx.
Hypothesis nrm_mult : forall m r, nrm (m + r) = cmul' (nrm m) (nrm r).

(* product structure of the Pauli basis *)
Theorem pauli_el_product m r k l : k < 4 ^ m -> l < 4 ^ r -> forall i j, i < 2 ^ (m + r) -> j < 2 ^ (m + r) ->
  pauli_el sigma nrm (m + r) (k * 4 ^ r + l) i j = fkron (2 ^ r) (pauli_el sigma nrm m k) (pauli_el sigma nrm r l) i j.
Proof.
  intros Hk Hl i j Hi Hj. unfold pauli_el, fscal, fkron.
  assert (Hkl : k * 4 ^ r + l < 4 ^ (m + r)) by (rewrite Nat.pow_add_r; apply pair_lt_prod; auto).
  rewrite digits_split by (auto; lia). destruct (divmod_pair k l (4 ^ r) Hl) as [-> ->].
  rewrite map_app. rewrite kronl_app by (rewrite ?map_length, ?digits_length; auto; lia).
  unfold fkron. rewrite map_length, digits_length.
  rewrite nrm_mult. ring.
Qed.

Theorem pauli_product_krel m r basis : basis_is_pauli sigma nrm (m + r) basis ->
  forall k l, k < 4 ^ m -> l < 4 ^ r ->
  krel (2 ^ m) (2 ^ r) (nthm (pauli_list sigma nrm m) k) (nthm (pauli_list sigma nrm r) l) (nthm basis (k * 4 ^ r + l)).
Proof.
  intros [LB HB] k l Hk Hl i j Hi Hj.
  assert (Hkl : k * 4 ^ r + l < 4 ^ (m + r)) by (rewrite Nat.pow_add_r; apply pair_lt_prod; auto).
  assert (Hi' : i < 2 ^ (m + r)) by (rewrite Nat.pow_add_r; auto).
  assert (Hj' : j < 2 ^ (m + r)) by (rewrite Nat.pow_add_r; auto).
  pose proof (HB _ Hkl i j Hi' Hj') as E. unfold toF in E. rewrite E.
  rewrite pauli_el_product by auto. unfold fkron.
  destruct (pauli_list_is_pauli sigma nrm m) as [_ H1]. destruct (pauli_list_is_pauli sigma nrm r) as [_ H2].
  pose proof (H1 k Hk (i / 2 ^ r) (j / 2 ^ r) (div_lt_prod _ _ _ Hi) (div_lt_prod _ _ _ Hj)) as E1.
  pose proof (H2 l Hl (i mod 2 ^ r) (j mod 2 ^ r) (mod_lt_prod _ _ _ Hi) (mod_lt_prod _ _ _ Hj)) as E2.
  unfold toF in E1, E2. rewrite E1, E2. reflexivity.
Qed.

(* first element: normalised identity *)
Hypothesis sigma0 : feq 2 (sigma 0) fid.
Lemma digits_zero d n : 0 < d -> digits d n 0 = repeat 0 n.
Proof.
  intros Hd. induction n; simpl. reflexivity. pose proof (pow_pos d n Hd).
  rewrite Nat.div_0_l, Nat.mod_0_l by lia. rewrite IHn. reflexivity.
Qed.
Lemma kronl_ids n : feq (2 ^ n) (kronl 2 (map sigma (repeat 0 n))) fid.
Proof.
  induction n; simpl.
  - intros i j Hi Hj. unfold fid. replace i with 0 by lia. replace j with 0 by lia. reflexivity.
  - intros i j Hi Hj. change (2 ^ S n) with (2 * 2 ^ n) in Hi, Hj. rewrite map_length, repeat_length.
    exact (feq_trans _ _ _ _ (fkron_ext 2 (2 ^ n) _ _ _ _ sigma0 IHn) (fkron_id 2 (2 ^ n)) i j Hi Hj).
Qed.
Theorem pauli_el_first n : feq (2 ^ n) (pauli_el sigma nrm n 0) (fscal (nrm n) fid).
Proof.
  intros i j Hi Hj. unfold pauli_el, fscal. rewrite digits_zero by lia. rewrite (kronl_ids n i j Hi Hj). reflexivity.
Qed.

(* orthonormality *)
Hypothesis sigma_orth : forall a b, a < 4 -> b < 4 ->
  ftr 2 (fmul 2 (fadj (sigma a)) (sigma b)) = if Nat.eqb a b then (2%R, 0%R) else 0c.
Hypothesis nrm_norm : forall n, cmul' (cmul' (cconj' (nrm n)) (nrm n)) (cofr RO (INR (2 ^ n))) = 1c.

Lemma chain_trace la lb : length la = length lb -> Forall (fun x => x < 4) la -> Forall (fun x => x < 4) lb ->
  ftr (2 ^ length la) (fmul (2 ^ length la) (fadj (kronl 2 (map sigma la))) (kronl 2 (map sigma lb)))
  = if list_eq_dec Nat.eq_dec la lb then cofr RO (INR (2 ^ length la)) else 0c.
Proof.
  revert lb. induction la as [|a la IH]; intros lb HL Fa Fb; destruct lb as [|b lb]; try discriminate.
  - simpl. unfold ftr, fmul, fadj. simpl. apply c_eq; csimp; ring.
  - simpl in HL. inversion Fa; subst. inversion Fb; subst. simpl map. simpl kronl. rewrite !map_length.
    assert (HL' : length la = length lb) by lia. rewrite <- HL'.
    simpl length. replace (2 ^ S (length la)) with (2 * 2 ^ length la) by (simpl; lia).
    rewrite (ftr_ext _ _ (fkron (2 ^ length la) (fmul 2 (fadj (sigma a)) (sigma b))
                               (fmul (2 ^ length la) (fadj (kronl 2 (map sigma la))) (kronl 2 (map sigma lb))))).
    2:{ eapply feq_trans. apply fmul_ext. intros i j _ _. apply fkron_adj. apply feq_refl. apply fkron_mul. }
    rewrite ftr_fkron, sigma_orth, IH by auto.
    destruct (Nat.eqb_spec a b) as [->|Hne].
    + destruct (list_eq_dec Nat.eq_dec la lb) as [->|Hnl].
      * destruct (list_eq_dec Nat.eq_dec (b :: lb) (b :: lb)); [|congruence].
        rewrite mult_INR. replace (INR 2) with 2%R by (simpl; ring). apply c_eq; csimp; ring.
      * destruct (list_eq_dec Nat.eq_dec (b :: la) (b :: lb)) as [E|]; [inversion E; congruence|]. ring.
    + destruct (list_eq_dec Nat.eq_dec (a :: la) (b :: lb)) as [E|]; [inversion E; congruence|]. ring.
Qed.

Theorem pauli_list_onb n l m : l < 4 ^ n -> m < 4 ^ n ->
  mtrprod RO (2 ^ n) (madj RO (2 ^ n) (nthm (pauli_list sigma nrm n) l)) (nthm (pauli_list sigma nrm n) m)
  = if Nat.eqb l m then 1c else 0c.
Proof.
  intros Hl Hm. rewrite mtrprod_ftr.
  destruct (pauli_list_is_pauli sigma nrm n) as [_ HB].
  rewrite (ftr_ext _ _ (fmul (2 ^ n) (fadj (pauli_el sigma nrm n l)) (pauli_el sigma nrm n m))).
  2:{ apply fmul_ext. eapply feq_trans. apply toF_madj. intros i j Hi Hj. unfold fadj. rewrite (HB l Hl j i Hj Hi). reflexivity.
      apply HB; auto. }
  unfold pauli_el.
  rewrite (ftr_ext _ _ (fscal (cmul' (cconj' (nrm n)) (nrm n))
     (fmul (2 ^ n) (fadj (kronl 2 (map sigma (digits 4 n l)))) (kronl 2 (map sigma (digits 4 n m)))))).
  2:{ intros i j _ _. unfold fmul, fscal, fadj. rewrite <- csumn_mul_l. apply csumn_ext. intros k _. rewrite cconj_mul. ring. }
  unfold ftr, fscal. rewrite csumn_mul_l. fold (ftr (2 ^ n) (fmul (2 ^ n) (fadj (kronl 2 (map sigma (digits 4 n l)))) (kronl 2 (map sigma (digits 4 n m))))).
  pose proof (chain_trace (digits 4 n l) (digits 4 n m)) as E. rewrite !digits_length in E.
  rewrite E by (auto; apply digits_lt; auto; lia).
  destruct (list_eq_dec Nat.eq_dec (digits 4 n l) (digits 4 n m)) as [Ed|Hd].
  - assert (l = m). { rewrite <- (undigits_digits 4 n l), <- (undigits_digits 4 n m), Ed by (auto; lia). reflexivity. }
    subst. rewrite Nat.eqb_refl. apply nrm_norm.
  - destruct (Nat.eqb_spec l m) as [->|]; [congruence|]. ring.
Qed.
End P.
