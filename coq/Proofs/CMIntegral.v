(* C01 headline: the control matrix of the model equals the defining time-ordered integral
     B_jk(w) = int_0^tau e^{iwt} s_j(t) tr( U(t)^dagger N_j U(t) C_k ) dt
   exactly when no entry of the segment integrals is on the small-denominator (Taylor) branch, and
   within an explicit bound otherwise.                                                          *)
From Coq Require Import ZArith Reals Lra Lia List Setoid Morphisms.
From Coquelicot Require Import Coquelicot.
From FF Require Import Base.Ops Inst.RInst Base.RAlg Model.Numeric Proofs.Foi Proofs.CMBase.
Import ListNotations.
Local Open Scope R_scope.

(* ---------- (a) integrals of complex-valued functions, componentwise ---------- *)
Definition is_CInt (f : R -> Cx) (a b : R) (I : Cx) : Prop :=
  is_RInt (fun t => fst (f t)) a b (fst I) /\ is_RInt (fun t => snd (f t)) a b (snd I).

Lemma is_CInt_ext f g a b I : (forall t, Rmin a b < t < Rmax a b -> f t = g t) -> is_CInt f a b I -> is_CInt g a b I.
Proof.
  intros H [H1 H2]. split; eapply is_RInt_ext; try eassumption; intros t Ht; simpl; rewrite H; auto.
Qed.
Lemma is_CInt_eq f a b I J : I = J -> is_CInt f a b I -> is_CInt f a b J.
Proof. intros ->; auto. Qed.
Lemma is_CInt_unique f a b I J : is_CInt f a b I -> is_CInt f a b J -> I = J.
Proof.
  intros [H1 H2] [K1 K2]. apply c_eq.
  - rewrite <- (is_RInt_unique _ _ _ _ H1). apply is_RInt_unique; auto.
  - rewrite <- (is_RInt_unique _ _ _ _ H2). apply is_RInt_unique; auto.
Qed.
Lemma is_CInt_zero a b : is_CInt (fun _ => 0c) a b 0c.
Proof.
  split; simpl; (evar_last; [apply @is_RInt_const | unfold scal; simpl; unfold mult; simpl; ring]).
Qed.
Lemma is_CInt_add f g a b I J : is_CInt f a b I -> is_CInt g a b J ->
  is_CInt (fun t => cadd' (f t) (g t)) a b (cadd' I J).
Proof.
  intros [H1 H2] [K1 K2]. split; simpl.
  - apply (is_RInt_plus (V:=R_NormedModule) _ _ _ _ _ _ H1 K1).
  - apply (is_RInt_plus (V:=R_NormedModule) _ _ _ _ _ _ H2 K2).
Qed.
(* multiplication by a complex constant *)
Lemma is_CInt_cmul c f a b I : is_CInt f a b I -> is_CInt (fun t => cmul' c (f t)) a b (cmul' c I).
Proof.
  intros [H1 H2]. split; simpl.
  - apply (is_RInt_minus (V:=R_NormedModule) (fun t => fst c * fst (f t)) (fun t => snd c * snd (f t))).
    + apply (is_RInt_scal (V:=R_NormedModule) _ _ _ (fst c) _ H1).
    + apply (is_RInt_scal (V:=R_NormedModule) _ _ _ (snd c) _ H2).
  - apply (is_RInt_plus (V:=R_NormedModule) (fun t => fst c * snd (f t)) (fun t => snd c * fst (f t))).
    + apply (is_RInt_scal (V:=R_NormedModule) _ _ _ (fst c) _ H2).
    + apply (is_RInt_scal (V:=R_NormedModule) _ _ _ (snd c) _ H1).
Qed.
Lemma is_CInt_cmul_r c f a b I : is_CInt f a b I -> is_CInt (fun t => cmul' (f t) c) a b (cmul' I c).
Proof.
  intros H. apply (is_CInt_ext (fun t => cmul' c (f t))). intros; ring.
  apply (is_CInt_eq _ _ _ (cmul' c I)). ring. apply is_CInt_cmul; auto.
Qed.
Lemma is_CInt_cscal (s : R) f a b I : is_CInt f a b I -> is_CInt (fun t => cscal RO s (f t)) a b (cscal RO s I).
Proof.
  intros [H1 H2]. split; simpl.
  - apply (is_RInt_scal (V:=R_NormedModule) _ _ _ s _ H1).
  - apply (is_RInt_scal (V:=R_NormedModule) _ _ _ s _ H2).
Qed.
Lemma is_CInt_csumn n (f : nat -> R -> Cx) (I : nat -> Cx) a b :
  (forall k, (k < n)%nat -> is_CInt (f k) a b (I k)) ->
  is_CInt (fun t => csumn' n (fun k => f k t)) a b (csumn' n I).
Proof.
  induction n; intros H; simpl.
  - apply is_CInt_zero.
  - apply is_CInt_add; auto.
Qed.
(* change of variable t -> t - tg *)
Lemma is_CInt_shift f tg dt I : is_CInt f 0 dt I -> is_CInt (fun t => f (t - tg)) tg (tg + dt) I.
Proof.
  intros [H1 H2].
  assert (K : forall (h : R -> R) l, is_RInt h 0 dt l -> is_RInt (fun t => h (t - tg)) tg (tg + dt) l).
  { intros h l Hh.
    apply (is_RInt_ext (fun y => scal 1 (h (1 * y + - tg)))).
    - intros x _. unfold scal; simpl; unfold mult; simpl. rewrite Rmult_1_l. f_equal. ring.
    - apply (is_RInt_comp_lin (V:=R_NormedModule) h 1 (- tg) tg (tg + dt) l).
      replace (1 * tg + - tg) with 0 by ring. replace (1 * (tg + dt) + - tg) with dt by ring. exact Hh. }
  split; [apply (K (fun t => fst (f t))) | apply (K (fun t => snd (f t)))]; assumption.
Qed.
Lemma is_CInt_Chasles f a b c I J : is_CInt f a b I -> is_CInt f b c J -> is_CInt f a c (cadd' I J).
Proof.
  intros [H1 H2] [K1 K2]. split; simpl.
  - apply (is_RInt_Chasles (V:=R_NormedModule) _ a b c _ _ H1 K1).
  - apply (is_RInt_Chasles (V:=R_NormedModule) _ a b c _ _ H2 K2).
Qed.
Lemma is_CInt_point f a : is_CInt f a a 0c.
Proof. split; apply (is_RInt_point (V:=R_NormedModule)). Qed.

(* the exact segment integral int_0^dt e^{i x t} dt *)
Definition foi_true (x dt : R) : Cx :=
  if Req_EM_T x 0 then (dt, 0) else (sin (x * dt) / x, (1 - cos (x * dt)) / x).

Lemma is_CInt_cexp x dt : is_CInt (fun t => cexp' (x * t)) 0 dt (foi_true x dt).
Proof.
  unfold foi_true. destruct (Req_EM_T x 0) as [->|Hx]; split; simpl.
  - apply int_cos0.
  - apply int_sin0.
  - apply int_cos; auto.
  - apply int_sin; auto.
Qed.

(* the model's value against the exact integral: equal on the masked branch, close on the Taylor branch *)
Lemma foi_entry_true_masked thr w evm evn dt : 0 <= thr -> thr < Rabs (foi_x w evm evn * dt) ->
  foi_entry RO thr w evm evn dt = foi_true (foi_x w evm evn) dt.
Proof.
  intros H0 H. rewrite foi_entry_masked by auto. unfold foi_true.
  destruct (Req_EM_T (foi_x w evm evn) 0) as [E|_]; auto.
  exfalso. apply (masked_div_safe _ _ _ H0 H); auto.
Qed.

Notation Cmod' := Coquelicot.Complex.Cmod.
Lemma Cmod_le_parts (z : Cx) : Cmod' z <= Rabs (fst z) + Rabs (snd z).
Proof.
  replace z with (Cplus (fst z, 0) (0, snd z)) at 1 by (destruct z; unfold Cplus; simpl; f_equal; ring).
  eapply Rle_trans. apply Cmod_triangle.
  apply Rplus_le_compat; unfold Cmod; simpl.
  - replace (fst z * (fst z * 1) + 0 * (0 * 1)) with (Rsqr (fst z)) by (unfold Rsqr; ring). rewrite sqrt_Rsqr_abs. lra.
  - replace (0 * (0 * 1) + snd z * (snd z * 1)) with (Rsqr (snd z)) by (unfold Rsqr; ring). rewrite sqrt_Rsqr_abs. lra.
Qed.

Definition taylor_eps (thr : R) : R := thr / 2 + thr * thr / 2.

Lemma foi_entry_true_close thr w evm evn dt : 0 <= thr ->
  Cmod' (csub' (foi_entry RO thr w evm evn dt) (foi_true (foi_x w evm evn) dt)) <= Rabs dt * taylor_eps thr.
Proof.
  intros H0.
  assert (Hpos : 0 <= Rabs dt * taylor_eps thr).
  { apply Rmult_le_pos. apply Rabs_pos. unfold taylor_eps. nra. }
  destruct (Rlt_or_le thr (Rabs (foi_x w evm evn * dt))) as [Hm|Hu].
  - rewrite foi_entry_true_masked by auto.
    replace (csub' _ _) with (0c) by (apply c_eq; csimp; ring).
    change 0c with (RtoC 0). rewrite Cmod_0. exact Hpos.
  - destruct (foi_taylor_bound thr w evm evn dt Hu) as [Ic [Is [HIc [HIs [Bc Bs]]]]].
    destruct (is_CInt_cexp (foi_x w evm evn) dt) as [T1 T2]. simpl in T1, T2.
    assert (E1 : fst (foi_true (foi_x w evm evn) dt) = Ic).
    { rewrite <- (is_RInt_unique _ _ _ _ T1). apply is_RInt_unique; auto. }
    assert (E2 : snd (foi_true (foi_x w evm evn) dt) = Is).
    { rewrite <- (is_RInt_unique _ _ _ _ T2). apply is_RInt_unique; auto. }
    eapply Rle_trans. apply Cmod_le_parts. unfold csub; cbn [fst snd osub RO]. rewrite E1, E2.
    eapply Rle_trans; [apply Rplus_le_compat; [exact Bc | exact Bs] | unfold taylor_eps; right; field].
Qed.

(* ---------- modulus in the vocabulary of the model ---------- *)
Lemma Cmod_cadd_le (a b : Cx) : Cmod' (cadd' a b) <= Cmod' a + Cmod' b.
Proof. change (cadd' a b) with (Cplus a b). apply Cmod_triangle. Qed.
Lemma Cmod_cmul (a b : Cx) : Cmod' (cmul' a b) = Cmod' a * Cmod' b.
Proof. change (cmul' a b) with (Cmult a b). apply Cmod_mult. Qed.
Lemma Cmod_c0 : Cmod' 0c = 0.
Proof. change 0c with (RtoC 0). apply Cmod_0. Qed.
Lemma Cmod_cexp th : Cmod' (cexp' th) = 1.
Proof.
  unfold Cmod, cexp; simpl. replace (cos th * (cos th * 1) + sin th * (sin th * 1)) with 1.
  apply sqrt_1. generalize (sin2_cos2 th). unfold Rsqr. lra.
Qed.
Lemma cscal_cmul (s : R) (z : Cx) : cscal RO s z = cmul' (cofr RO s) z.
Proof. apply c_eq; csimp; ring. Qed.
Lemma Cmod_cofr (s : R) : Cmod' (cofr RO s) = Rabs s.
Proof. change (cofr RO s) with (RtoC s). apply Cmod_R. Qed.
Lemma Cmod_cscal (s : R) (z : Cx) : Cmod' (cscal RO s z) = Rabs s * Cmod' z.
Proof. rewrite cscal_cmul, Cmod_cmul, Cmod_cofr. reflexivity. Qed.
Lemma Cmod_csumn_le n (f : nat -> Cx) : Cmod' (csumn' n f) <= sumn' n (fun k => Cmod' (f k)).
Proof.
  induction n; simpl. rewrite Cmod_c0. lra.
  eapply Rle_trans. apply Cmod_cadd_le. apply Rplus_le_compat; auto. lra.
Qed.
Lemma csub_csumn n (f g : nat -> Cx) : csub' (csumn' n f) (csumn' n g) = csumn' n (fun k => csub' (f k) (g k)).
Proof. induction n; simpl. ring. rewrite <- IHn. ring. Qed.

(* ---------- (c) one segment ---------- *)
Section Segment.
Variable d : nat.

Definition foi_I_true (w evm evn dt : R) : Cx := foi_true (foi_x w evm evn) dt.

(* e^{iwt} s tr( U(t - tg)^dagger N U(t - tg) C ) for t in the segment starting at tg *)
Definition seg_integrand (ev : list R) (V Q : MatR) (tg w s : R) (N Cm : MatR) (t : R) : Cx :=
  cmul' (cexp' (w * t))
        (cscal RO s (mtrprod RO d (transform_by_unitary RO d (Useg d ev V Q (t - tg)) N) Cm)).

Lemma seg_integrand_expanded (A Bm : nat -> nat -> Cx) (e : nat -> R) tg w s t :
  cmul' (cexp' (w * t)) (cscal RO s (csumn' d (fun m => csumn' d (fun n =>
      cmul' (cmul' (A m n) (cexp' ((e m - e n) * (t - tg)))) (Bm n m))))) =
  cmul' (cexp' (w * tg)) (cscal RO s (csumn' d (fun m => csumn' d (fun n =>
      cmul' (cmul' (A m n) (cexp' (foi_x w (e m) (e n) * (t - tg)))) (Bm n m))))).
Proof.
  replace (w * t) with (w * tg + w * (t - tg)) by ring. rewrite cexp_add.
  rewrite !cscal_cmul.
  rewrite (csumn_ext d (fun m => csumn' d (fun n => cmul' (cmul' (A m n) (cexp' (foi_x w (e m) (e n) * (t - tg)))) (Bm n m)))
                       (fun m => cmul' (cexp' (w * (t - tg))) (csumn' d (fun n => cmul' (cmul' (A m n) (cexp' ((e m - e n) * (t - tg)))) (Bm n m))))).
  - rewrite csumn_mul_l. ring.
  - intros m _. rewrite <- csumn_mul_l. apply csumn_ext. intros n _.
    unfold foi_x. replace ((w + (e m - e n)) * (t - tg)) with (w * (t - tg) + (e m - e n) * (t - tg)) by ring.
    rewrite cexp_add. ring.
Qed.

(* the exact-integral version of the step IS the integral of the integrand over the segment *)
Theorem step_true_is_integral ev V Q tg dt w s N Cm :
  is_CInt (seg_integrand ev V Q tg w s N Cm) tg (tg + dt) (step_entry d foi_I_true ev V Q tg dt w s N Cm).
Proof.
  set (NT := transform_by_unitary RO d V N).
  set (BT := transform_by_unitary RO d (mmul RO d (madj RO d Q) V) Cm).
  set (g := fun tau => cscal RO s (csumn' d (fun m => csumn' d (fun n =>
        cmul' (cmul' (mget RO NT m n) (cexp' (foi_x w (vg RO ev m) (vg RO ev n) * tau))) (mget RO BT n m))))).
  apply (is_CInt_ext (fun t => cmul' (cexp' (w * tg)) (g (t - tg)))).
  { intros t _. unfold seg_integrand, g. rewrite integrand_expansion. fold NT BT.
    symmetry. apply (seg_integrand_expanded (mget RO NT) (mget RO BT) (vg RO ev)). }
  unfold step_entry. fold NT BT. apply is_CInt_cmul. apply (is_CInt_shift g).
  unfold g. apply is_CInt_cscal.
  apply (is_CInt_csumn d (fun m t => csumn' d (fun n => cmul' (cmul' (mget RO NT m n) (cexp' (foi_x w (vg RO ev m) (vg RO ev n) * t))) (mget RO BT n m)))
                         (fun m => csumn' d (fun n => cmul' (cmul' (mget RO NT m n) (foi_I_true w (vg RO ev m) (vg RO ev n) dt)) (mget RO BT n m)))).
  intros m _.
  apply (is_CInt_csumn d (fun n t => cmul' (cmul' (mget RO NT m n) (cexp' (foi_x w (vg RO ev m) (vg RO ev n) * t))) (mget RO BT n m))
                         (fun n => cmul' (cmul' (mget RO NT m n) (foi_I_true w (vg RO ev m) (vg RO ev n) dt)) (mget RO BT n m))).
  intros n _. apply is_CInt_cmul_r. apply is_CInt_cmul. apply is_CInt_cexp.
Qed.

(* all entries of the segment integral on the masked branch (none on the Taylor branch) *)
Definition all_masked (thr w : R) (ev : list R) (dt : R) : Prop :=
  forall m n, (m < d)%nat -> (n < d)%nat -> thr < Rabs (foi_x w (vg RO ev m) (vg RO ev n) * dt).

Lemma step_entry_masked_true thr ev V Q tg dt w s N Cm : 0 <= thr -> all_masked thr w ev dt ->
  step_entry d (foi_entry RO thr) ev V Q tg dt w s N Cm = step_entry d foi_I_true ev V Q tg dt w s N Cm.
Proof.
  intros H0 H. unfold step_entry. f_equal. f_equal. apply csumn_ext; intros m Hm. apply csumn_ext; intros n Hn.
  rewrite foi_entry_true_masked by auto. reflexivity.
Qed.

(* sum_mn |(V^dagger N V)_mn| |(W^dagger C W)_nm| *)
Definition step_weight (V Q N Cm : MatR) : R :=
  sumn' d (fun m => sumn' d (fun n =>
    Cmod' (mget RO (transform_by_unitary RO d V N) m n) *
    Cmod' (mget RO (transform_by_unitary RO d (mmul RO d (madj RO d Q) V) Cm) n m))).

Lemma step_weight_nonneg V Q N Cm : 0 <= step_weight V Q N Cm.
Proof.
  unfold step_weight. apply sumn_nonneg; intros m _. apply sumn_nonneg; intros n _.
  apply Rmult_le_pos; apply Cmod_ge_0.
Qed.

Theorem step_entry_true_bound thr ev V Q tg dt w s N Cm : 0 <= thr ->
  Cmod' (csub' (step_entry d (foi_entry RO thr) ev V Q tg dt w s N Cm) (step_entry d foi_I_true ev V Q tg dt w s N Cm))
  <= Rabs s * taylor_eps thr * Rabs dt * step_weight V Q N Cm.
Proof.
  intros H0. unfold step_entry.
  set (NT := transform_by_unitary RO d V N).
  set (BT := transform_by_unitary RO d (mmul RO d (madj RO d Q) V) Cm).
  match goal with |- Cmod' (csub' (cmul' ?E (cscal RO s ?A)) (cmul' ?E (cscal RO s ?B))) <= _ =>
    replace (csub' (cmul' E (cscal RO s A)) (cmul' E (cscal RO s B))) with (cmul' E (cscal RO s (csub' A B)))
      by (apply c_eq; csimp; ring) end.
  rewrite Cmod_cmul, Cmod_cexp, Rmult_1_l, Cmod_cscal.
  rewrite !Rmult_assoc. apply Rmult_le_compat_l. apply Rabs_pos.
  rewrite csub_csumn.
  eapply Rle_trans. apply Cmod_csumn_le.
  unfold step_weight. fold NT BT. rewrite <- !sumn_mul_l. apply sumn_le. intros m Hm.
  rewrite csub_csumn. eapply Rle_trans. apply Cmod_csumn_le.
  rewrite <- !sumn_mul_l. apply sumn_le. intros n Hn.
  match goal with |- Cmod' (csub' (cmul' (cmul' ?a ?x) ?b) (cmul' (cmul' ?a ?y) ?b)) <= _ =>
    replace (csub' (cmul' (cmul' a x) b) (cmul' (cmul' a y) b)) with (cmul' (cmul' a (csub' x y)) b)
      by (apply c_eq; csimp; ring) end.
  rewrite !Cmod_cmul.
  pose proof (foi_entry_true_close thr w (vg RO ev m) (vg RO ev n) dt H0) as Hc. fold (foi_I_true w (vg RO ev m) (vg RO ev n) dt) in Hc.
  pose proof (Cmod_ge_0 (mget RO NT m n)). pose proof (Cmod_ge_0 (mget RO BT n m)).
  replace (taylor_eps thr * (Rabs dt * (Cmod' (mget RO NT m n) * Cmod' (mget RO BT n m))))
    with (Cmod' (mget RO NT m n) * (Rabs dt * taylor_eps thr) * Cmod' (mget RO BT n m)) by ring.
  apply Rmult_le_compat_r; auto. apply Rmult_le_compat_l; auto.
Qed.
End Segment.

(* ---------- (d) the whole pulse ---------- *)
Section Pulse.
Variable d : nat.

(* the propagator of the pulse at time t (piecewise: V_g e^{-i D_g (t - t_g)} V_g^dagger Q_g on segment g,
   the total propagator after the end) and the sensitivity at time t *)
Fixpoint pulse_U (segs : list seg) (Q : MatR) (t0 t : R) : MatR :=
  match segs with
  | [] => Q
  | (ev, V, dt, s) :: r =>
      if Rlt_dec t (t0 + dt) then Useg d ev V Q (t - t0)
      else pulse_U r (mmul RO d (segment_propagator RO d ev V dt) Q) (t0 + dt) t
  end.
Fixpoint pulse_s (segs : list seg) (t0 t : R) : R :=
  match segs with
  | [] => 0
  | (ev, V, dt, s) :: r => if Rlt_dec t (t0 + dt) then s else pulse_s r (t0 + dt) t
  end.
(* e^{iwt} s(t) tr( U(t)^dagger N U(t) C ) *)
Definition cm_integrand (segs : list seg) (Q : MatR) (t0 w : R) (N Cm : MatR) (t : R) : Cx :=
  cmul' (cexp' (w * t))
        (cscal RO (pulse_s segs t0 t) (mtrprod RO d (transform_by_unitary RO d (pulse_U segs Q t0 t) N) Cm)).

Fixpoint segs_tau (segs : list seg) : R :=
  match segs with [] => 0 | sg :: r => seg_dt sg + segs_tau r end.
Definition segs_nonneg (segs : list seg) : Prop := List.Forall (fun sg => 0 <= seg_dt sg) segs.
Lemma segs_tau_nonneg segs : segs_nonneg segs -> 0 <= segs_tau segs.
Proof. induction 1; simpl. lra. lra. Qed.

Lemma cm_integrand_cons ev V dt s r Q t0 w N Cm t :
  cm_integrand ((ev, V, dt, s) :: r) Q t0 w N Cm t =
  if Rlt_dec t (t0 + dt) then seg_integrand d ev V Q t0 w s N Cm t
  else cm_integrand r (mmul RO d (segment_propagator RO d ev V dt) Q) (t0 + dt) w N Cm t.
Proof. unfold cm_integrand; simpl. destruct (Rlt_dec t (t0 + dt)); reflexivity. Qed.

(* the sum of the exact-integral steps is the integral over the pulse *)
Theorem entry_segs_true_is_integral w N Cm : forall segs Q t0, segs_nonneg segs ->
  is_CInt (cm_integrand segs Q t0 w N Cm) t0 (t0 + segs_tau segs) (entry_segs d foi_I_true segs Q t0 w N Cm).
Proof.
  induction segs as [|[[[ev V] dt] s] r IH]; intros Q t0 Hn.
  - simpl. rewrite Rplus_0_r. apply is_CInt_point.
  - inversion Hn as [|? ? Hdt Hr]; subst. simpl in Hdt.
    pose proof (segs_tau_nonneg r Hr) as Hτ.
    simpl entry_segs. simpl segs_tau.
    apply (is_CInt_Chasles _ t0 (t0 + dt)).
    + apply (is_CInt_ext (seg_integrand d ev V Q t0 w s N Cm)).
      * intros t Ht. rewrite cm_integrand_cons. rewrite Rmin_left, Rmax_right in Ht by lra.
        destruct (Rlt_dec t (t0 + dt)); [reflexivity | lra].
      * apply step_true_is_integral.
    + replace (t0 + (dt + segs_tau r)) with ((t0 + dt) + segs_tau r) by ring.
      apply (is_CInt_ext (cm_integrand r (mmul RO d (segment_propagator RO d ev V dt) Q) (t0 + dt) w N Cm)).
      * intros t Ht. rewrite cm_integrand_cons. rewrite Rmin_left, Rmax_right in Ht by lra.
        destruct (Rlt_dec t (t0 + dt)); [lra | reflexivity].
      * apply IH; auto.
Qed.

(* model against exact-integral version *)
Definition segs_all_masked (thr w : R) (segs : list seg) : Prop :=
  List.Forall (fun sg : seg => let '(ev, _, dt, _) := sg in all_masked d thr w ev dt) segs.

Lemma entry_segs_masked_true thr w N Cm : 0 <= thr -> forall segs Q t0, segs_all_masked thr w segs ->
  entry_segs d (foi_entry RO thr) segs Q t0 w N Cm = entry_segs d foi_I_true segs Q t0 w N Cm.
Proof.
  intros H0. induction segs as [|[[[ev V] dt] s] r IH]; intros Q t0 Hm; [reflexivity|].
  inversion Hm; subst. simpl. rewrite IH by auto. rewrite step_entry_masked_true by auto. reflexivity.
Qed.

Fixpoint segs_bound (thr : R) (segs : list seg) (Q N Cm : MatR) : R :=
  match segs with
  | [] => 0
  | (ev, V, dt, s) :: r =>
      Rabs s * taylor_eps thr * Rabs dt * step_weight d V Q N Cm
      + segs_bound thr r (mmul RO d (segment_propagator RO d ev V dt) Q) N Cm
  end.

Lemma entry_segs_true_bound thr w N Cm : 0 <= thr -> forall segs Q t0,
  Cmod' (csub' (entry_segs d (foi_entry RO thr) segs Q t0 w N Cm) (entry_segs d foi_I_true segs Q t0 w N Cm))
  <= segs_bound thr segs Q N Cm.
Proof.
  intros H0. induction segs as [|[[[ev V] dt] s] r IH]; intros Q t0; simpl.
  - replace (csub' 0c 0c) with 0c by ring. rewrite Cmod_c0. lra.
  - match goal with |- Cmod' (csub' (cadd' ?a ?b) (cadd' ?a' ?b')) <= _ =>
      replace (csub' (cadd' a b) (cadd' a' b')) with (cadd' (csub' a a') (csub' b b')) by ring end.
    eapply Rle_trans. apply Cmod_cadd_le. apply Rplus_le_compat.
    + apply step_entry_true_bound; auto.
    + apply IH.
Qed.

(* ---------- headline, in terms of the package's function ---------- *)
Definition pulse_segs (evs : list (list R)) (Vs : list MatR) (dts : list R) (nc : list (list R)) (j : nat) : list seg :=
  zip4 evs Vs dts (sens_row (length dts) nc j).

Lemma zip4_Forall (P : list R -> R -> Prop) : forall evs Vs dts ss,
  (forall g, (g < length dts)%nat -> P (nth g evs []) (nth g dts 0)) ->
  List.Forall (fun sg : seg => let '(ev, _, dt, _) := sg in P ev dt) (zip4 evs Vs dts ss).
Proof.
  induction evs as [|ev evs IH]; intros Vs dts ss H; [constructor|].
  destruct Vs as [|V Vs]; [constructor|]. destruct dts as [|dt dts]; [constructor|].
  destruct ss as [|s ss]; [constructor|]. simpl. constructor.
  - apply (H 0%nat). simpl; lia.
  - apply (IH Vs dts ss). intros g Hg. apply (H (S g)). simpl; lia.
Qed.

Lemma zip4_tau : forall evs Vs dts ss, length evs = length dts -> length Vs = length dts -> length ss = length dts ->
  segs_tau (zip4 evs Vs dts ss) = sumlist RO dts.
Proof.
  induction evs as [|ev evs IH]; intros Vs dts ss H1 H2 H3.
  - destruct dts; simpl in *; [reflexivity | discriminate].
  - destruct dts as [|dt dts]; [discriminate|]. destruct Vs as [|V Vs]; [discriminate|]. destruct ss as [|s ss]; [discriminate|].
    simpl in *. rewrite IH by lia. reflexivity.
Qed.

Theorem control_matrix_integral thr evs Vs dts om bs ns nc j k o :
  0 <= thr -> (forall g, (g < length dts)%nat -> 0 <= nth g dts 0) ->
  (j < length ns)%nat -> (k < length bs)%nat -> (o < length om)%nat ->
  let segs := pulse_segs evs Vs dts nc j in
  let B := a3get RO (control_matrix_from_scratch RO d thr evs Vs (propagators RO d evs Vs dts) om bs ns nc dts (times RO dts)) j k o in
  exists I, is_CInt (cm_integrand segs (mid RO d) 0 (vg RO om o) (nthm ns j) (nthm bs k)) 0 (segs_tau segs) I /\
            Cmod' (csub' B I) <= segs_bound thr segs (mid RO d) (nthm ns j) (nthm bs k) /\
            ((forall g, (g < length dts)%nat -> all_masked d thr (vg RO om o) (nth g evs []) (nth g dts 0)) -> B = I).
Proof.
  intros H0 Hdt Hj Hk Ho segs B.
  exists (entry_segs d foi_I_true segs (mid RO d) 0 (vg RO om o) (nthm ns j) (nthm bs k)).
  assert (Hn : segs_nonneg segs).
  { unfold segs_nonneg, segs, pulse_segs.
    eapply Forall_impl; [| apply (zip4_Forall (fun _ dt => 0 <= dt) evs Vs dts); intros g Hg; cbv beta; auto].
    intros [[[? ?] ?] ?]; simpl; auto. }
  unfold B. rewrite cm_entry_formula by auto. fold (pulse_segs evs Vs dts nc j). fold segs.
  split; [|split].
  - pose proof (entry_segs_true_is_integral (vg RO om o) (nthm ns j) (nthm bs k) segs (mid RO d) 0 Hn) as H.
    rewrite Rplus_0_l in H. exact H.
  - apply entry_segs_true_bound; auto.
  - intros Hm. apply entry_segs_masked_true; auto.
    unfold segs_all_masked, segs, pulse_segs.
    apply (zip4_Forall (fun ev dt => all_masked d thr (vg RO om o) ev dt) evs Vs dts). exact Hm.
Qed.
End Pulse.

(* ---------- (e) consequences for the filter function  F_ab(w) = sum_k conj(B_ak) B_bk ---------- *)
Section FF.
Variables na nk no : nat.
Variable Bm : Arr3 (T:=R).

Lemma ff_entry a b o : (a < na)%nat -> (b < na)%nat -> (o < no)%nat ->
  a3get RO (filter_function RO na nk no Bm) a b o =
  csumn' nk (fun k => cmul' (cconj' (a3get RO Bm a k o)) (a3get RO Bm b k o)).
Proof. intros. unfold filter_function. rewrite a3get_a3build by auto. reflexivity. Qed.

Theorem ff_hermitian a b o : (a < na)%nat -> (b < na)%nat -> (o < no)%nat ->
  a3get RO (filter_function RO na nk no Bm) a b o = cconj' (a3get RO (filter_function RO na nk no Bm) b a o).
Proof.
  intros. rewrite !ff_entry by auto. rewrite csumn_conj. apply csumn_ext. intros k _.
  rewrite cconj_mul, cconj_invol. ring.
Qed.

Lemma csumn_cofr n (r : nat -> R) : csumn' n (fun k => cofr RO (r k)) = cofr RO (sumn' n r).
Proof. induction n; simpl. reflexivity. rewrite IHn. apply c_eq; csimp; ring. Qed.

(* quadratic form: sum_ab conj(x_a) F_ab x_b = sum_k | sum_a x_a B_ak |^2 *)
Theorem ff_quadratic_form (x : nat -> Cx) o : (o < no)%nat ->
  csumn' na (fun a => csumn' na (fun b =>
     cmul' (cmul' (cconj' (x a)) (a3get RO (filter_function RO na nk no Bm) a b o)) (x b))) =
  cofr RO (sumn' nk (fun k => cabs2 RO (csumn' na (fun a => cmul' (x a) (a3get RO Bm a k o))))).
Proof.
  intros Ho. rewrite <- csumn_cofr.
  transitivity (csumn' na (fun a => csumn' na (fun b => csumn' nk (fun k =>
      cmul' (cmul' (cconj' (x a)) (cconj' (a3get RO Bm a k o))) (cmul' (x b) (a3get RO Bm b k o)))))).
  { apply csumn_ext; intros a Ha. apply csumn_ext; intros b Hb. rewrite ff_entry by auto.
    rewrite <- csumn_mul_l, <- csumn_mul_r. apply csumn_ext; intros k _. ring. }
  transitivity (csumn' na (fun a => csumn' nk (fun k => csumn' na (fun b =>
      cmul' (cmul' (cconj' (x a)) (cconj' (a3get RO Bm a k o))) (cmul' (x b) (a3get RO Bm b k o)))))).
  { apply csumn_ext; intros a Ha. apply csumn_swap. }
  rewrite csumn_swap. apply csumn_ext; intros k _.
  rewrite <- cmul_conj_abs2. rewrite csumn_conj. rewrite <- csumn_mul_r.
  apply csumn_ext; intros a _. rewrite csumn_mul_l. rewrite cconj_mul. reflexivity.
Qed.

Theorem ff_psd (x : nat -> Cx) o : (o < no)%nat ->
  let q := csumn' na (fun a => csumn' na (fun b =>
     cmul' (cmul' (cconj' (x a)) (a3get RO (filter_function RO na nk no Bm) a b o)) (x b))) in
  0 <= fst q /\ snd q = 0.
Proof.
  intros Ho q. unfold q. rewrite ff_quadratic_form by auto. simpl. split; [|reflexivity].
  apply sumn_nonneg. intros k _. apply cabs2_nonneg.
Qed.

Theorem ff_diag_nonneg a o : (a < na)%nat -> (o < no)%nat ->
  a3get RO (filter_function RO na nk no Bm) a a o = cofr RO (sumn' nk (fun k => cabs2 RO (a3get RO Bm a k o))).
Proof.
  intros. rewrite ff_entry by auto. rewrite <- csumn_cofr. apply csumn_ext. intros k _. apply cmul_conj_abs2.
Qed.
End FF.

(* ---------- the per-segment statements on the package's cm_step ---------- *)
Section StepOnModel.
Variable d : nat.

Theorem cm_step_is_integral thr ev V Q tg dt om bs ns nc j k o :
  0 <= thr -> (j < length ns)%nat -> (k < length bs)%nat -> (o < length om)%nat ->
  all_masked d thr (vg RO om o) ev dt ->
  is_CInt (seg_integrand d ev V Q tg (vg RO om o) (vg RO nc j) (nthm ns j) (nthm bs k)) tg (tg + dt)
          (a3get RO (cm_step RO d thr ev V Q tg dt om bs ns nc) j k o).
Proof.
  intros H0 Hj Hk Ho Hm. rewrite cm_step_entry by auto. rewrite step_entry_masked_true by auto.
  apply step_true_is_integral.
Qed.

Theorem cm_step_integral_bound thr ev V Q tg dt om bs ns nc j k o :
  0 <= thr -> (j < length ns)%nat -> (k < length bs)%nat -> (o < length om)%nat ->
  exists I, is_CInt (seg_integrand d ev V Q tg (vg RO om o) (vg RO nc j) (nthm ns j) (nthm bs k)) tg (tg + dt) I /\
    Cmod' (csub' (a3get RO (cm_step RO d thr ev V Q tg dt om bs ns nc) j k o) I)
    <= Rabs (vg RO nc j) * taylor_eps thr * Rabs dt * step_weight d V Q (nthm ns j) (nthm bs k).
Proof.
  intros H0 Hj Hk Ho. eexists. split. apply step_true_is_integral.
  rewrite cm_step_entry by auto. apply step_entry_true_bound; auto.
Qed.
End StepOnModel.

(* the hypotheses are satisfiable on a non-trivial input: two levels, splitting 1, frequency 1/2 *)
Example all_masked_example : all_masked 2 (/ 10000000) (/ 2) [0; 1] 1.
Proof.
  intros m n Hm Hn. unfold foi_x.
  destruct m as [|[|m]]; [| |lia]; (destruct n as [|[|n]]; [| |lia]); unfold vg, vget; simpl;
    unfold Rabs; match goal with |- context [Rcase_abs ?x] => destruct (Rcase_abs x) end; lra.
Qed.

(* ---------- the path U(t): upper limit of the integral, unitarity ---------- *)
Lemma pulse_segs_tau evs Vs dts nc j : length evs = length dts -> length Vs = length dts ->
  segs_tau (pulse_segs evs Vs dts nc j) = sumlist RO dts.
Proof. intros. unfold pulse_segs. apply zip4_tau; auto. unfold sens_row. apply build_length. Qed.

Lemma pulse_U_unitary d : forall segs Q t0 t,
  List.Forall (fun sg : seg => let '(_, V, _, _) := sg in funitary d (toF V)) segs -> funitary d (toF Q) ->
  funitary d (toF (pulse_U d segs Q t0 t)).
Proof.
  induction segs as [|[[[ev V] dt] s] r IH]; intros Q t0 t HV HQ; simpl; auto.
  inversion HV; subst. destruct (Rlt_dec t (t0 + dt)).
  - apply Useg_unitary; auto.
  - apply IH; auto. apply (Useg_unitary d ev V Q dt); auto.
Qed.
(* at the start of a pulse with unitary eigenvector matrices, U = Q (the identity for a whole pulse) *)
Lemma pulse_U_start d ev V dt s r Q t0 : 0 < dt -> feq d (fmul d (toF V) (fadj (toF V))) fid ->
  feq d (toF (pulse_U d ((ev, V, dt, s) :: r) Q t0 t0)) (toF Q).
Proof.
  intros Hdt HV. simpl. destruct (Rlt_dec t0 (t0 + dt)); [|lra].
  replace (t0 - t0) with 0 by ring. apply Useg_start; auto.
Qed.
