(* Algebra used by the C15 proofs (Proofs/Superop.v): setoid structure of [feq d] (kept local to
   the C15 cone so that it does not depend on other properties' files), traces of products,
   linear combinations of matrices, double sums over a flattened index r = a*d + c, quadratic
   forms.  Everything is over the real instance RO.                                         *)
From Coq Require Import ZArith Reals Lra Lia List Morphisms Setoid.
From FF Require Import Base.Ops Inst.RInst Base.RAlg.
Import ListNotations.
Local Open Scope R_scope.

#[export] Instance sa_feq_equiv d : Equivalence (feq d).
Proof. split; [intros A; apply feq_refl | intros A B; apply feq_sym | intros A B Cm; apply feq_trans]. Qed.
#[export] Instance sa_fmul_proper d : Proper (feq d ==> feq d ==> feq d) (fmul d).
Proof. intros A A' HA B B' HB. apply fmul_ext; assumption. Qed.
#[export] Instance sa_fadj_proper d : Proper (feq d ==> feq d) fadj.
Proof. intros A A' HA i j Hi Hj. unfold fadj. rewrite HA; auto. Qed.
#[export] Instance sa_ftr_proper d : Proper (feq d ==> eq) (ftr d).
Proof. intros A A' HA. apply ftr_ext; assumption. Qed.
#[export] Instance sa_fadd_proper d : Proper (feq d ==> feq d ==> feq d) fadd.
Proof. intros A A' HA B B' HB i j Hi Hj. unfold fadd. rewrite HA, HB; auto. Qed.
#[export] Instance sa_fscal_proper d : Proper (eq ==> feq d ==> feq d) fscal.
Proof. intros z z' -> A A' HA i j Hi Hj. unfold fscal. rewrite HA; auto. Qed.
#[export] Instance sa_funitary_proper d : Proper (feq d ==> iff) (funitary d).
Proof.
  assert (P : forall U U', feq d U U' -> funitary d U -> funitary d U').
  { intros U U' H [H1 H2]. split; rewrite <- H; assumption. }
  intros U U' H. split; apply P; [|symmetry]; assumption.
Qed.
#[export] Instance sa_fherm_proper d : Proper (feq d ==> iff) (fherm d).
Proof.
  assert (P : forall U U', feq d U U' -> fherm d U -> fherm d U').
  { intros U U' H H1. unfold fherm in *. rewrite <- H. assumption. }
  intros U U' H. split; apply P; [|symmetry]; assumption.
Qed.

Lemma fadj_invol_feq d A : feq d (fadj (fadj A)) A.
Proof. intros i j _ _. apply fadj_invol. Qed.
Lemma funitary_adj' d U : funitary d U -> funitary d (fadj U).
Proof. intros [H1 H2]. split; rewrite fadj_invol_feq; assumption. Qed.

(* tr(ABC) = tr(BCA) = tr(CAB), in right-associated form *)
Lemma ftr_cyc3 d A B Cm : ftr d (fmul d A (fmul d B Cm)) = ftr d (fmul d B (fmul d Cm A)).
Proof. rewrite ftr_cyclic. rewrite <- fmul_assoc. reflexivity. Qed.
Lemma ftr_cyc3' d A B Cm : ftr d (fmul d A (fmul d B Cm)) = ftr d (fmul d Cm (fmul d A B)).
Proof. rewrite fmul_assoc. rewrite ftr_cyclic. reflexivity. Qed.

(* conj tr(M) = tr(M^dagger) *)
Lemma ftr_conj d A : cconj' (ftr d A) = ftr d (fadj A).
Proof. symmetry. apply ftr_adj. Qed.

(* ---------- linear combinations ---------- *)
Definition flin (n : nat) (c : nat -> Cx) (F : nat -> fmat) : fmat :=
  fun a b => csumn' n (fun k => cmul' (c k) (F k a b)).

Lemma fmul_flin_r d n c F A : feq d (fmul d A (flin n c F)) (flin n c (fun k => fmul d A (F k))).
Proof.
  intros i j _ _. unfold fmul, flin.
  rewrite (csumn_ext d _ (fun l => csumn' n (fun k => cmul' (c k) (cmul' (A i l) (F k l j))))).
  2:{ intros l _. rewrite <- csumn_mul_l. apply csumn_ext. intros; ring. }
  rewrite csumn_swap. apply csumn_ext. intros k _. rewrite <- csumn_mul_l. reflexivity.
Qed.
Lemma fmul_flin_l d n c F A : feq d (fmul d (flin n c F) A) (flin n c (fun k => fmul d (F k) A)).
Proof.
  intros i j _ _. unfold fmul, flin.
  rewrite (csumn_ext d _ (fun l => csumn' n (fun k => cmul' (c k) (cmul' (F k i l) (A l j))))).
  2:{ intros l _. rewrite <- csumn_mul_r. apply csumn_ext. intros; ring. }
  rewrite csumn_swap. apply csumn_ext. intros k _. rewrite <- csumn_mul_l. reflexivity.
Qed.
Lemma ftr_flin d n c F : ftr d (flin n c F) = csumn' n (fun k => cmul' (c k) (ftr d (F k))).
Proof.
  unfold ftr, flin. rewrite csumn_swap. apply csumn_ext. intros k _. rewrite <- csumn_mul_l. reflexivity.
Qed.
Lemma flin_ext d n c c' F F' : (forall k, (k < n)%nat -> c k = c' k) -> (forall k, (k < n)%nat -> feq d (F k) (F' k)) ->
  feq d (flin n c F) (flin n c' F').
Proof. intros Hc HF i j Hi Hj. unfold flin. apply csumn_ext. intros k Hk. rewrite Hc, HF; auto. Qed.

(* ---------- real and imaginary parts of sums of products of real numbers ---------- *)
Lemma csumn_real_mul n (f g : nat -> Cx) :
  (forall k, (k < n)%nat -> snd (f k) = 0) -> (forall k, (k < n)%nat -> snd (g k) = 0) ->
  fst (csumn' n (fun k => cmul' (f k) (g k))) = sumn' n (fun k => fst (f k) * fst (g k)).
Proof.
  intros Hf Hg. rewrite csumn_re. apply sumn_ext. intros k Hk. csimp. rewrite Hf, Hg; auto. simpl. ring.
Qed.

Lemma conj_self_real (z : Cx) : cconj' z = z -> snd z = 0.
Proof. destruct z as [a b]. unfold cconj; simpl. intros H. injection H. intros. lra. Qed.

(* ---------- double sums over a flattened index ---------- *)
Lemma csumn_flatten d (f : nat -> nat -> Cx) m :
  csumn' (m * d) (fun r => f (r / d)%nat (r mod d)%nat) = csumn' m (fun a => csumn' d (fun c => f a c)).
Proof.
  induction m; simpl. reflexivity.
  rewrite Nat.add_comm. rewrite csumn_app, IHm. f_equal.
  apply csumn_ext. intros k Hk.
  assert (Hd : d <> 0%nat) by lia.
  replace ((m * d + k) / d)%nat with m.
  2:{ rewrite Nat.add_comm, Nat.div_add by auto. rewrite Nat.div_small by auto. reflexivity. }
  replace ((m * d + k) mod d)%nat with k.
  2:{ rewrite Nat.add_comm, Nat.mod_add by auto. rewrite Nat.mod_small by auto. reflexivity. }
  reflexivity.
Qed.

(* ---------- vectors, quadratic forms ---------- *)
Definition fvec := nat -> Cx.
Definition qform (n : nat) (A : fmat) (x : fvec) : Cx :=
  csumn' n (fun i => csumn' n (fun j => cmul' (cmul' (cconj' (x i)) (A i j)) (x j))).
Definition vnorm2 (n : nat) (x : fvec) : R := sumn' n (fun i => cabs2 RO (x i)).
Definition fmv (n : nat) (A : fmat) (x : fvec) : fvec := fun i => csumn' n (fun j => cmul' (A i j) (x j)).
Definition vdot (n : nat) (x y : fvec) : Cx := csumn' n (fun i => cmul' (cconj' (x i)) (y i)).

Lemma qform_ext n A A' x : feq n A A' -> qform n A x = qform n A' x.
Proof. intros H. unfold qform. apply csumn_ext. intros i Hi. apply csumn_ext. intros j Hj. rewrite H; auto. Qed.

Lemma vnorm2_nonneg n x : 0 <= vnorm2 n x.
Proof. apply sumn_nonneg. intros. apply cabs2_nonneg. Qed.

Lemma qform_vdot n A x : qform n A x = vdot n x (fmv n A x).
Proof.
  unfold qform, vdot, fmv. apply csumn_ext. intros i _.
  rewrite <- csumn_mul_l. apply csumn_ext. intros; ring.
Qed.

Lemma vdot_self n x : vdot n x x = (vnorm2 n x, 0).
Proof.
  unfold vdot, vnorm2. apply c_eq.
  - rewrite csumn_re. apply sumn_ext. intros. csimp. ring.
  - rewrite csumn_im. simpl. rewrite (sumn_ext n _ (fun _ => 0)). apply sumn_0. intros; csimp; ring.
Qed.

(* quadratic form of a sum of rank-one terms  A_rs = sum_k z_k alpha_k(r) beta_k(s) *)
Lemma qform_rank1_sum N m (z : nat -> Cx) (al be : nat -> nat -> Cx) (A : fmat) x :
  feq N A (fun r s => csumn' m (fun k => cmul' (z k) (cmul' (al k r) (be k s)))) ->
  qform N A x = csumn' m (fun k => cmul' (z k)
     (cmul' (csumn' N (fun r => cmul' (cconj' (x r)) (al k r))) (csumn' N (fun s => cmul' (be k s) (x s))))).
Proof.
  intros HA. rewrite (qform_ext N A _ x HA). unfold qform.
  (* push everything under the k-sum *)
  rewrite (csumn_ext N _ (fun r => csumn' m (fun k => cmul' (z k)
     (cmul' (cmul' (cconj' (x r)) (al k r)) (csumn' N (fun s => cmul' (be k s) (x s))))))).
  2:{ intros r _.
      rewrite (csumn_ext N _ (fun s => csumn' m (fun k =>
           cmul' (cmul' (z k) (cmul' (cconj' (x r)) (al k r))) (cmul' (be k s) (x s))))).
      2:{ intros s _. rewrite <- csumn_mul_l, <- csumn_mul_r. apply csumn_ext. intros k _. ring. }
      rewrite csumn_swap. apply csumn_ext. intros k _. rewrite csumn_mul_l. ring. }
  rewrite csumn_swap. apply csumn_ext. intros k _.
  rewrite csumn_mul_l. f_equal. rewrite <- csumn_mul_r. reflexivity.
Qed.

Lemma cmul_conj_self (v : Cx) : cmul' v (cconj' v) = (cabs2 RO v, 0).
Proof. cring. Qed.
Lemma cmul_conj_self' (v : Cx) : cmul' (cconj' v) v = (cabs2 RO v, 0).
Proof. cring. Qed.

(* sum of real-weighted squared moduli *)
Lemma csumn_weighted_abs2 m (w : nat -> R) (v : nat -> Cx) :
  csumn' m (fun k => cmul' (w k, 0) (cmul' (v k) (cconj' (v k)))) = (sumn' m (fun k => w k * cabs2 RO (v k)), 0).
Proof.
  apply c_eq.
  - rewrite csumn_re. simpl. apply sumn_ext. intros. csimp. ring.
  - rewrite csumn_im. simpl. rewrite (sumn_ext m _ (fun _ => 0)). apply sumn_0. intros. csimp. ring.
Qed.
