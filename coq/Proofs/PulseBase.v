(* Lists, string order and argsort: the facts about the NumPy primitives of Model/Pulse.v that the C17
   theorems rest on. *)
From Coq Require Import ZArith List Bool String Ascii NArith PeanoNat Lia Permutation Sorted.
From FF Require Import Model.B64 Model.Pulse.
Import ListNotations.
Local Open Scope nat_scope.
Local Notation length := List.length (only parsing).

(* ------------------------------------------------------------------ decidable equalities *)
Lemma num_eqb_spec a b : num_eqb a b = true <-> a = b.
Proof.
  destruct a as [m e], b as [m' e']; unfold num_eqb; simpl.
  rewrite andb_true_iff, !Z.eqb_eq. split; [intros [-> ->]; reflexivity | intros H; inversion H; auto].
Qed.
Lemma num_eqb_refl a : num_eqb a a = true.
Proof. apply num_eqb_spec; reflexivity. Qed.
Lemma cnum_eqb_spec a b : cnum_eqb a b = true <-> a = b.
Proof.
  destruct a as [x y], b as [x' y']; unfold cnum_eqb; simpl.
  rewrite andb_true_iff, !num_eqb_spec. split; [intros [-> ->]; reflexivity | intros H; inversion H; auto].
Qed.

Section All2.
  Context {A : Type} (f : A -> A -> bool).
  Hypothesis f_spec : forall a b, f a b = true <-> a = b.
  Lemma all2_eq_iff l1 l2 : length l1 = length l2 -> (all2 f l1 l2 = true <-> l1 = l2).
  Proof.
    revert l2; induction l1 as [|a r IH]; intros [|b s] HL; simpl in *; try discriminate.
    - tauto.
    - rewrite andb_true_iff, f_spec, IH by lia. split; [intros [-> ->]; reflexivity | intros H; inversion H; auto].
  Qed.
  Lemma len_all2_eq_iff l1 l2 : (length l1 =? length l2) && all2 f l1 l2 = true <-> l1 = l2.
  Proof.
    rewrite andb_true_iff, Nat.eqb_eq. split.
    - intros [HL H]. apply all2_eq_iff; assumption.
    - intros ->. split; [reflexivity | apply all2_eq_iff; reflexivity].
  Qed.
End All2.

Lemma list_eqb_num_spec a b : list_eqb_num a b = true <-> a = b.
Proof. apply len_all2_eq_iff, num_eqb_spec. Qed.
Lemma row_eqb_spec (r s : list cnum) : (length r =? length s) && all2 cnum_eqb r s = true <-> r = s.
Proof. apply len_all2_eq_iff, cnum_eqb_spec. Qed.
Lemma mat_eqb_spec a b : mat_eqb a b = true <-> a = b.
Proof. unfold mat_eqb. apply (len_all2_eq_iff _ row_eqb_spec). Qed.

Lemma all2_Forall2 {A} (f : A -> A -> bool) l1 l2 : length l1 = length l2 ->
  (all2 f l1 l2 = true <-> Forall2 (fun a b => f a b = true) l1 l2).
Proof.
  revert l2; induction l1 as [|a r IH]; intros [|b s] HL; simpl in *; try discriminate.
  - split; auto.
  - rewrite andb_true_iff, IH by lia. split; [intros [? ?]; constructor; auto | intros H; inversion H; auto].
Qed.

(* ------------------------------------------------------------------ string order *)
Lemma N_of_ascii_inj x y : N_of_ascii x = N_of_ascii y -> x = y.
Proof. intros H. rewrite <- (ascii_N_embedding x), <- (ascii_N_embedding y), H. reflexivity. Qed.

Lemma ltb_irrefl a : Str.ltb a a = false.
Proof. induction a as [|x a IH]; simpl; auto. rewrite N.ltb_irrefl. exact IH. Qed.

Lemma ltb_trans a b c : Str.ltb a b = true -> Str.ltb b c = true -> Str.ltb a c = true.
Proof.
  revert b c; induction a as [|x a IH]; intros [|y b] [|z c]; simpl; try discriminate; auto.
  destruct (N.ltb_spec (N_of_ascii x) (N_of_ascii y)), (N.ltb_spec (N_of_ascii y) (N_of_ascii x));
  destruct (N.ltb_spec (N_of_ascii y) (N_of_ascii z)), (N.ltb_spec (N_of_ascii z) (N_of_ascii y));
  destruct (N.ltb_spec (N_of_ascii x) (N_of_ascii z)), (N.ltb_spec (N_of_ascii z) (N_of_ascii x));
  try discriminate; try lia; auto.
  apply IH.
Qed.

Lemma ltb_total a b : Str.ltb a b = false -> Str.ltb b a = false -> a = b.
Proof.
  revert b; induction a as [|x a IH]; intros [|y b]; simpl; try discriminate; auto.
  destruct (N.ltb_spec (N_of_ascii x) (N_of_ascii y)), (N.ltb_spec (N_of_ascii y) (N_of_ascii x));
  try discriminate; try lia.
  intros H1 H2. assert (x = y) by (apply N_of_ascii_inj; lia). subst. f_equal. apply IH; assumption.
Qed.

Lemma ltb_asym a b : Str.ltb a b = true -> Str.ltb b a = false.
Proof.
  intros H. destruct (Str.ltb b a) eqn:E; auto.
  pose proof (ltb_trans _ _ _ H E) as K. rewrite ltb_irrefl in K. discriminate.
Qed.

Lemma ltb_neq a b : Str.ltb a b = true -> a <> b.
Proof. intros H ->. rewrite ltb_irrefl in H. discriminate. Qed.

(* a <= b  :=  not (b < a) *)
Definition sle (a b : string) : Prop := Str.ltb b a = false.
Lemma sle_trans a b c : sle a b -> sle b c -> sle a c.
Proof.
  unfold sle. intros H1 H2. destruct (Str.ltb c a) eqn:E; auto.
  destruct (Str.ltb b c) eqn:E2.
  - pose proof (ltb_trans _ _ _ E2 E). congruence.
  - assert (b = c) by (apply ltb_total; assumption). subst. congruence.
Qed.

(* ------------------------------------------------------------------ sorting of (key, index) pairs *)
Definition kle (a b : string * nat) : Prop := sle (fst a) (fst b).

Lemma ins_key_perm k i l : Permutation (ins_key k i l) ((k, i) :: l).
Proof.
  induction l as [|[k' i'] r IH]; simpl; auto.
  destruct (Str.ltb k' k); auto.
  eapply perm_trans; [apply perm_skip, IH | apply perm_swap].
Qed.
Lemma sort_keys_perm l : Permutation (sort_keys l) l.
Proof.
  induction l as [|[k i] r IH]; simpl; auto.
  eapply perm_trans; [apply ins_key_perm | apply perm_skip, IH].
Qed.

Lemma ins_key_sorted k i l : StronglySorted kle l -> StronglySorted kle (ins_key k i l).
Proof.
  induction l as [|[k' i'] r IH]; intros HS; simpl.
  - repeat constructor.
  - inversion HS as [|? ? HS' HF]; subst.
    destruct (Str.ltb k' k) eqn:E.
    + constructor; [apply IH; assumption|].
      eapply Permutation_Forall; [symmetry; apply ins_key_perm|].
      constructor; auto. unfold kle, sle; simpl. apply ltb_asym; assumption.
    + constructor; [assumption|]. constructor; [exact E|].
      eapply Forall_impl; [|exact HF]. intros [k2 i2] H2. unfold kle in *; simpl in *.
      eapply sle_trans; [exact E | exact H2].
Qed.
Lemma sort_keys_sorted l : StronglySorted kle (sort_keys l).
Proof. induction l as [|[k i] r IH]; simpl; [constructor | apply ins_key_sorted, IH]. Qed.

(* ------------------------------------------------------------------ gather *)
Lemma gather_length {A} (d : A) l idx : length (gather d l idx) = length idx.
Proof. apply map_length. Qed.

Lemma gather_seq {A} (d : A) l : gather d l (seq 0 (length l)) = l.
Proof.
  unfold gather. revert d. induction l as [|x r IH]; intros d; simpl; auto.
  f_equal. rewrite <- seq_shift, map_map. apply IH.
Qed.

Lemma gather_perm {A} (d : A) l idx : Permutation idx (seq 0 (length l)) -> Permutation (gather d l idx) l.
Proof.
  intros H. rewrite <- (gather_seq d l) at 2. unfold gather. apply Permutation_map. exact H.
Qed.

Lemma gather_combine {A B} (da : A) (db : B) la lb idx : length la = length lb ->
  gather (da, db) (combine la lb) idx = combine (gather da la idx) (gather db lb idx).
Proof.
  intros HL. unfold gather. induction idx as [|i r IH]; simpl; auto.
  f_equal; auto. apply combine_nth. exact HL.
Qed.

Lemma gather_map {A B} (f : A -> B) (da : A) l idx :
  gather (f da) (map f l) idx = map f (gather da l idx).
Proof. unfold gather. rewrite map_map. apply map_ext. intros i. apply map_nth. Qed.

Lemma gather_ext_in {A} (d d' : A) l idx : Forall (fun i => i < length l) idx -> gather d l idx = gather d' l idx.
Proof.
  intros H. unfold gather. apply map_ext_in. intros i Hi. rewrite Forall_forall in H. apply nth_indep. auto.
Qed.

(* ------------------------------------------------------------------ argsort *)
Lemma argsort_keys ids : map fst (sort_keys (combine ids (seq 0 (length ids)))) = gather EmptyString ids (argsort ids).
Proof.
  unfold argsort, gather. rewrite map_map.
  apply map_ext_in. intros [k i] Hin. simpl.
  apply (Permutation_in _ (sort_keys_perm _)) in Hin.
  apply In_nth with (d := (EmptyString, 0)) in Hin. destruct Hin as [n [Hn Hnth]].
  rewrite combine_length, seq_length, Nat.min_id in Hn.
  rewrite combine_nth in Hnth by (rewrite seq_length; reflexivity).
  rewrite seq_nth in Hnth by assumption. simpl in Hnth. inversion Hnth; subst. reflexivity.
Qed.

Lemma map_snd_combine {A B} (l : list A) (s : list B) : length l = length s -> map snd (combine l s) = s.
Proof.
  revert s; induction l as [|a l IH]; intros [|b s] H; simpl in *; try discriminate; auto.
  f_equal. apply IH. lia.
Qed.
Lemma map_fst_combine {A B} (l : list A) (s : list B) : length l = length s -> map fst (combine l s) = l.
Proof.
  revert s; induction l as [|a l IH]; intros [|b s] H; simpl in *; try discriminate; auto.
  f_equal. apply IH. lia.
Qed.

Lemma argsort_perm ids : Permutation (argsort ids) (seq 0 (length ids)).
Proof.
  unfold argsort.
  eapply perm_trans; [apply Permutation_map, sort_keys_perm|].
  rewrite map_snd_combine by (rewrite seq_length; reflexivity). apply Permutation_refl.
Qed.

Lemma argsort_length ids : length (argsort ids) = length ids.
Proof. rewrite (Permutation_length (argsort_perm ids)). apply seq_length. Qed.

Lemma argsort_in_range ids : Forall (fun i => i < length ids) (argsort ids).
Proof.
  apply Forall_forall. intros i Hi. apply (Permutation_in _ (argsort_perm ids)) in Hi.
  apply in_seq in Hi. lia.
Qed.

Lemma gather_argsort_perm {A} (d : A) l ids : length l = length ids -> Permutation (gather d l (argsort ids)) l.
Proof. intros H. apply gather_perm. rewrite H. apply argsort_perm. Qed.

Lemma sorted_ids_perm ids : Permutation (gather EmptyString ids (argsort ids)) ids.
Proof. apply gather_argsort_perm. reflexivity. Qed.

Lemma sorted_ids_sorted ids : StronglySorted sle (gather EmptyString ids (argsort ids)).
Proof.
  rewrite <- argsort_keys.
  generalize (sort_keys_sorted (combine ids (seq 0 (length ids)))).
  generalize (sort_keys (combine ids (seq 0 (length ids)))). intros l HS.
  induction HS as [|a l HS IH HF]; simpl; constructor; auto.
  rewrite Forall_map. exact HF.
Qed.

(* with pairwise distinct identifiers the sorted list is strictly increasing *)
Lemma sorted_strict l : NoDup l -> StronglySorted sle l -> StronglySorted Str.lt l.
Proof.
  intros HN HS. induction HS as [|a l HS IH HF]; constructor.
  - apply IH. inversion HN; assumption.
  - inversion HN as [|? ? Hnin HN']; subst.
    rewrite Forall_forall in *. intros b Hb. specialize (HF b Hb). unfold sle in HF. unfold Str.lt.
    destruct (Str.ltb a b) eqn:E; auto.
    exfalso. apply Hnin. rewrite (ltb_total a b E HF). exact Hb.
Qed.

(* a strictly sorted list is determined by its elements *)
Lemma strict_sorted_unique l1 l2 :
  StronglySorted Str.lt l1 -> StronglySorted Str.lt l2 -> Permutation l1 l2 -> l1 = l2.
Proof.
  revert l2. induction l1 as [|a r IH]; intros l2 H1 H2 HP.
  - apply Permutation_nil in HP. auto.
  - destruct l2 as [|b s]; [apply Permutation_sym, Permutation_nil in HP; discriminate|].
    inversion H1 as [|? ? H1' F1]; inversion H2 as [|? ? H2' F2]; subst.
    assert (a = b).
    { assert (Ha : In a (b :: s)) by (eapply Permutation_in; [exact HP | left; reflexivity]).
      assert (Hb : In b (a :: r)) by (eapply Permutation_in; [symmetry; exact HP | left; reflexivity]).
      destruct Ha as [->|Ha]; auto. destruct Hb as [->|Hb]; auto.
      rewrite Forall_forall in F1, F2. pose proof (F1 _ Hb) as X. pose proof (F2 _ Ha) as Y0.
      unfold Str.lt in *. rewrite (ltb_asym _ _ X) in Y0. discriminate. }
    subst. f_equal. apply IH; auto. eapply Permutation_cons_inv; exact HP.
Qed.

(* keyed version: lists of records sorted strictly by a key are determined by their elements *)
Lemma keyed_sorted_unique {A} (key : A -> string) (l1 l2 : list A) :
  StronglySorted Str.lt (map key l1) -> StronglySorted Str.lt (map key l2) -> Permutation l1 l2 -> l1 = l2.
Proof.
  revert l2. induction l1 as [|a r IH]; intros l2 H1 H2 HP.
  - apply Permutation_nil in HP. auto.
  - destruct l2 as [|b s]; [apply Permutation_sym, Permutation_nil in HP; discriminate|].
    simpl in *. inversion H1 as [|? ? H1' F1]; inversion H2 as [|? ? H2' F2]; subst.
    assert (a = b).
    { assert (Ha : In a (b :: s)) by (eapply Permutation_in; [exact HP | left; reflexivity]).
      assert (Hb : In b (a :: r)) by (eapply Permutation_in; [symmetry; exact HP | left; reflexivity]).
      destruct Ha as [->|Ha]; auto. destruct Hb as [->|Hb]; auto.
      rewrite Forall_forall in F1, F2.
      pose proof (F1 _ (in_map key _ _ Hb)) as X. pose proof (F2 _ (in_map key _ _ Ha)) as Y0.
      unfold Str.lt in *. rewrite (ltb_asym _ _ X) in Y0. discriminate. }
    subst. f_equal. apply IH; auto. eapply Permutation_cons_inv; exact HP.
Qed.

Lemma uniqueb_NoDup l : uniqueb l = true <-> NoDup l.
Proof.
  induction l as [|x r IH]; simpl.
  - split; [constructor | reflexivity].
  - rewrite andb_true_iff, negb_true_iff, IH. split.
    + intros [H1 H2]. constructor; auto. intros Hin.
      assert (existsb (String.eqb x) r = true) by (apply existsb_exists; exists x; split; [assumption | apply String.eqb_refl]).
      congruence.
    + intros H. inversion H as [|? ? Hn HN]; subst. split; auto.
      destruct (existsb (String.eqb x) r) eqn:E; auto.
      apply existsb_exists in E. destruct E as [y [Hy Hxy]]. apply String.eqb_eq in Hxy. subst. contradiction.
Qed.
