(* C11 -- the Taylor-series window of gradient._derivative_integral (fix 0c5cb2a):
   for |x dt| <= 1 the polynomial dt^2 * sum_{k<=4} (i x dt)^k/(k!(k+2)) differs from
   int_0^dt t e^{ixt} dt by at most dt^2 |x dt|^6/5760 (real part) and dt^2 |x dt|^5/840 (imaginary part).
   Pointwise Taylor enclosures of sin and cos from the standard library's alternating-series bounds
   (SIN, COS), integrated with Coquelicot's norm_RInt_le.                                               *)
From Coq Require Import ZArith Reals Lra Lia List.
From Coquelicot Require Import Coquelicot.
From FF Require Import Base.Ops Inst.RInst Base.RAlg Model.Numeric Model.Gradient Proofs.Foi Proofs.MatAlg Proofs.Gradient.
Import ListNotations.
Local Open Scope R_scope.

Lemma INR_fact_eq n z : Z.of_nat (fact n) = z -> INR (fact n) = IZR z.
Proof. intros <-. apply INR_IZR_INZ. Qed.
Lemma sin_lb_val a : sin_lb a = a - a^3/6 + a^5/120 - a^7/5040.
Proof.
  unfold sin_lb, sin_approx, sin_term. unfold sum_f_R0.
  replace (2*0+1)%nat with 1%nat by reflexivity. replace (2*1+1)%nat with 3%nat by reflexivity.
  replace (2*2+1)%nat with 5%nat by reflexivity. replace (2*3+1)%nat with 7%nat by reflexivity.
  rewrite (INR_fact_eq 1 1), (INR_fact_eq 3 6), (INR_fact_eq 5 120), (INR_fact_eq 7 5040) by reflexivity.
  simpl pow. field.
Qed.
Lemma sin_ub_val a : sin_ub a = a - a^3/6 + a^5/120 - a^7/5040 + a^9/362880.
Proof.
  unfold sin_ub, sin_approx, sin_term. unfold sum_f_R0.
  replace (2*0+1)%nat with 1%nat by reflexivity. replace (2*1+1)%nat with 3%nat by reflexivity.
  replace (2*2+1)%nat with 5%nat by reflexivity. replace (2*3+1)%nat with 7%nat by reflexivity.
  replace (2*4+1)%nat with 9%nat by reflexivity.
  rewrite (INR_fact_eq 1 1), (INR_fact_eq 3 6), (INR_fact_eq 5 120), (INR_fact_eq 7 5040), (INR_fact_eq 9 362880) by (vm_compute; reflexivity).
  simpl pow. field.
Qed.
Lemma cos_lb_val a : cos_lb a = 1 - a^2/2 + a^4/24 - a^6/720.
Proof.
  unfold cos_lb, cos_approx, cos_term. unfold sum_f_R0.
  replace (2*0)%nat with 0%nat by reflexivity. replace (2*1)%nat with 2%nat by reflexivity.
  replace (2*2)%nat with 4%nat by reflexivity. replace (2*3)%nat with 6%nat by reflexivity.
  rewrite (INR_fact_eq 0 1), (INR_fact_eq 2 2), (INR_fact_eq 4 24), (INR_fact_eq 6 720) by reflexivity.
  simpl pow. field.
Qed.
Lemma cos_ub_val a : cos_ub a = 1 - a^2/2 + a^4/24 - a^6/720 + a^8/40320.
Proof.
  unfold cos_ub, cos_approx, cos_term. unfold sum_f_R0.
  replace (2*0)%nat with 0%nat by reflexivity. replace (2*1)%nat with 2%nat by reflexivity.
  replace (2*2)%nat with 4%nat by reflexivity. replace (2*3)%nat with 6%nat by reflexivity.
  replace (2*4)%nat with 8%nat by reflexivity.
  rewrite (INR_fact_eq 0 1), (INR_fact_eq 2 2), (INR_fact_eq 4 24), (INR_fact_eq 6 720), (INR_fact_eq 8 40320) by (vm_compute; reflexivity).
  simpl pow. field.
Qed.

Lemma one_le_PI2 : 1 <= PI / 2.
Proof. generalize PI2_3_2. unfold PI2. lra. Qed.

(* 0 <= sin u - (u - u^3/6) <= u^5/120 on [0, 1] *)
Lemma sin_taylor_pos u : 0 <= u <= 1 -> 0 <= sin u - (u - u^3/6) <= u^5/120.
Proof.
  intros [H0 H1]. assert (HP : u <= PI) by (generalize one_le_PI2 PI_RGT_0; lra).
  destruct (SIN u H0 HP) as [L U]. rewrite sin_lb_val in L. rewrite sin_ub_val in U.
  assert (H2 : 0 <= u * u <= 1) by nra.
  assert (H5 : 0 <= u^5) by (apply pow_le; auto).
  assert (H7 : u^7 = u^5 * (u * u)) by ring.
  assert (H9 : u^9 = u^5 * (u * u) * (u * u)) by ring.
  split.
  - assert (u^7 / 5040 <= u^5 / 120) by (rewrite H7; nra). lra.
  - assert (u^9 / 362880 <= u^7 / 5040) by (rewrite H9, H7; nra). lra.
Qed.
(* |sin u - (u - u^3/6)| <= |u|^5/120 on [-1, 1] *)
Lemma sin_taylor u : Rabs u <= 1 -> Rabs (sin u - (u - u^3/6)) <= Rabs u ^ 5 / 120.
Proof.
  intros H. destruct (Rle_or_lt 0 u) as [Hp|Hn].
  - rewrite (Rabs_right u) in * by lra. destruct (sin_taylor_pos u (conj Hp H)) as [A B0].
    rewrite Rabs_right by lra. exact B0.
  - rewrite (Rabs_left u) in * by lra. assert (Hu : 0 <= - u <= 1) by lra.
    destruct (sin_taylor_pos (- u) Hu) as [A B0]. rewrite sin_neg in A, B0.
    replace (sin u - (u - u^3/6)) with (- (- sin u - (- u - (- u)^3/6))) by field.
    rewrite Rabs_Ropp, Rabs_right by lra. exact B0.
Qed.
(* - u^6/720 <= cos u - (1 - u^2/2 + u^4/24) <= 0 on [-1, 1] *)
Lemma cos_taylor u : Rabs u <= 1 -> Rabs (cos u - (1 - u^2/2 + u^4/24)) <= u^6 / 720.
Proof.
  intros H. assert (Hb : -1 <= u <= 1) by (unfold Rabs in H; destruct (Rcase_abs u); lra).
  assert (L1 : - PI / 2 <= u) by (generalize one_le_PI2; lra).
  assert (U1 : u <= PI / 2) by (generalize one_le_PI2; lra).
  destruct (COS u L1 U1) as [L U]. rewrite cos_lb_val in L. rewrite cos_ub_val in U.
  assert (H2 : 0 <= u * u <= 1) by nra.
  assert (H6 : 0 <= u^6) by (replace (u^6) with ((u*u)*(u*u)*(u*u)) by ring; nra).
  assert (H8 : u^8 = u^6 * (u * u)) by ring.
  assert (u^8 / 40320 <= u^6 / 720) by (rewrite H8; nra).
  apply Rabs_le. lra.
Qed.

(* the Horner evaluation of np.polyval([1/144, -1j/30, -1/8, 1j/3, 1/2], th) *)
Lemma horner_val th :
  horner RO (di_series_coeffs RO) th = (1 / 2 - th^2 / 8 + th^4 / 144, th / 3 - th^3 / 30).
Proof. unfold horner, di_series_coeffs, oZ; simpl. unfold Rdya; simpl. apply c_eq; simpl; field. Qed.

Lemma Rabs_mult_nonneg x t : 0 <= t -> Rabs (x * t) = Rabs x * t.
Proof. intros H. rewrite Rabs_mult, (Rabs_right t) by lra. reflexivity. Qed.

Section SeriesBound.
Variables (x dt : R).
Hypothesis dt_nonneg : 0 <= dt.
Hypothesis theta_le_1 : Rabs (x * dt) <= 1.

Lemma u_le_1 t : 0 <= t <= dt -> Rabs (x * t) <= 1.
Proof.
  intros [H0 H1]. rewrite Rabs_mult_nonneg by auto. rewrite Rabs_mult_nonneg in theta_le_1 by auto.
  apply Rle_trans with (Rabs x * dt); auto. apply Rmult_le_compat_l. apply Rabs_pos. exact H1.
Qed.

(* imaginary part: | dt^2 (th/3 - th^3/30) - int_0^dt t sin(x t) dt | <= dt^2 |th|^5/840 *)
Theorem series_bound_im Iim : is_RInt (fun t => t * sin (x * t)) 0 dt Iim ->
  Rabs (dt * dt * ((x * dt) / 3 - (x * dt)^3 / 30) - Iim) <= dt * dt * (Rabs (x * dt) ^ 5 / 840).
Proof.
  intros HI.
  assert (HP : is_RInt (fun t => t * (x * t - (x * t)^3 / 6)) 0 dt (dt * dt * ((x * dt) / 3 - (x * dt)^3 / 30))).
  { evar_last. apply (is_RInt_derive (fun t => x * t^3 / 3 - x^3 * t^5 / 30)).
    - intros t _. auto_derive; auto. field.
    - intros t _. apply (ex_derive_continuous (V:=R_NormedModule)). auto_derive; auto.
    - unfold minus, plus, opp; simpl. field. }
  assert (HF : is_RInt (fun t => minus (t * sin (x * t)) (t * (x * t - (x * t)^3 / 6))) 0 dt
                 (minus Iim (dt * dt * ((x * dt) / 3 - (x * dt)^3 / 30))))
    by (apply @is_RInt_minus; assumption).
  assert (HG : is_RInt (fun t => Rabs x ^ 5 * t^6 / 120) 0 dt (Rabs x ^ 5 * dt^7 / 840)).
  { evar_last. apply (is_RInt_derive (fun t => Rabs x ^ 5 * t^7 / 840)).
    - intros t _. auto_derive; auto. field.
    - intros t _. apply (ex_derive_continuous (V:=R_NormedModule)). auto_derive; auto.
    - unfold minus, plus, opp; simpl. field. }
  assert (B : Rabs (minus Iim (dt * dt * (x * dt / 3 - (x * dt) ^ 3 / 30))) <= Rabs x ^ 5 * dt ^ 7 / 840).
  { apply (norm_RInt_le (V:=R_NormedModule) (fun t => minus (t * sin (x * t)) (t * (x * t - (x * t)^3 / 6)))
             (fun t => Rabs x ^ 5 * t^6 / 120) 0 dt _ _ dt_nonneg); [|exact HF|exact HG].
    intros t Ht. change (Rabs (t * sin (x * t) - t * (x * t - (x * t)^3 / 6)) <= Rabs x ^ 5 * t^6 / 120).
    replace (t * sin (x * t) - t * (x * t - (x * t) ^ 3 / 6)) with (t * (sin (x * t) - (x * t - (x * t)^3 / 6))) by ring.
    rewrite Rabs_mult, (Rabs_right t) by lra.
    pose proof (sin_taylor (x * t) (u_le_1 t Ht)) as S.
    rewrite Rabs_mult_nonneg in S by lra.
    replace (Rabs x ^ 5 * t ^ 6 / 120) with (t * ((Rabs x * t) ^ 5 / 120)) by (field).
    apply Rmult_le_compat_l; lra. }
  rewrite Rabs_minus_sym. change (Rabs (Iim - dt * dt * (x * dt / 3 - (x * dt) ^ 3 / 30)) <= Rabs x ^ 5 * dt ^ 7 / 840) in B.
  eapply Rle_trans. exact B. rewrite Rabs_mult_nonneg by auto. right. field.
Qed.

(* real part: | dt^2 (1/2 - th^2/8 + th^4/144) - int_0^dt t cos(x t) dt | <= dt^2 th^6/5760 *)
Theorem series_bound_re Ire : is_RInt (fun t => t * cos (x * t)) 0 dt Ire ->
  Rabs (dt * dt * (1 / 2 - (x * dt)^2 / 8 + (x * dt)^4 / 144) - Ire) <= dt * dt * ((x * dt) ^ 6 / 5760).
Proof.
  intros HI.
  assert (HP : is_RInt (fun t => t * (1 - (x * t)^2 / 2 + (x * t)^4 / 24)) 0 dt
                 (dt * dt * (1 / 2 - (x * dt)^2 / 8 + (x * dt)^4 / 144))).
  { evar_last. apply (is_RInt_derive (fun t => t^2 / 2 - x^2 * t^4 / 8 + x^4 * t^6 / 144)).
    - intros t _. auto_derive; auto. field.
    - intros t _. apply (ex_derive_continuous (V:=R_NormedModule)). auto_derive; auto.
    - unfold minus, plus, opp; simpl. field. }
  assert (HF : is_RInt (fun t => minus (t * cos (x * t)) (t * (1 - (x * t)^2 / 2 + (x * t)^4 / 24))) 0 dt
                 (minus Ire (dt * dt * (1 / 2 - (x * dt)^2 / 8 + (x * dt)^4 / 144))))
    by (apply @is_RInt_minus; assumption).
  assert (HG : is_RInt (fun t => x ^ 6 * t^7 / 720) 0 dt (x ^ 6 * dt^8 / 5760)).
  { evar_last. apply (is_RInt_derive (fun t => x ^ 6 * t^8 / 5760)).
    - intros t _. auto_derive; auto. field.
    - intros t _. apply (ex_derive_continuous (V:=R_NormedModule)). auto_derive; auto.
    - unfold minus, plus, opp; simpl. field. }
  assert (B : Rabs (minus Ire (dt * dt * (1 / 2 - (x * dt)^2 / 8 + (x * dt)^4 / 144))) <= x ^ 6 * dt ^ 8 / 5760).
  { apply (norm_RInt_le (V:=R_NormedModule) (fun t => minus (t * cos (x * t)) (t * (1 - (x * t)^2 / 2 + (x * t)^4 / 24)))
             (fun t => x ^ 6 * t^7 / 720) 0 dt _ _ dt_nonneg); [|exact HF|exact HG].
    intros t Ht. change (Rabs (t * cos (x * t) - t * (1 - (x * t)^2 / 2 + (x * t)^4 / 24)) <= x ^ 6 * t^7 / 720).
    replace (t * cos (x * t) - t * (1 - (x * t) ^ 2 / 2 + (x * t) ^ 4 / 24))
      with (t * (cos (x * t) - (1 - (x * t)^2 / 2 + (x * t)^4 / 24))) by ring.
    rewrite Rabs_mult, (Rabs_right t) by lra.
    pose proof (cos_taylor (x * t) (u_le_1 t Ht)) as S.
    replace (x ^ 6 * t ^ 7 / 720) with (t * ((x * t) ^ 6 / 720)) by field.
    apply Rmult_le_compat_l; lra. }
  rewrite Rabs_minus_sym.
  change (Rabs (Ire - dt * dt * (1 / 2 - (x * dt) ^ 2 / 8 + (x * dt) ^ 4 / 144)) <= x ^ 6 * dt ^ 8 / 5760) in B.
  eapply Rle_trans. exact B. right. field.
Qed.
End SeriesBound.

(* The value the model (= the code) uses inside the series window is within these bounds of the exact integral:
   |x dt| < thr_s <= 1, dt >= 0. *)
Theorem di_tmp1_series_bound thr_s x dt Ire Iim : 0 <= dt -> thr_s <= 1 -> Rabs (x * dt) < thr_s ->
  is_RInt (dint_re x 0) 0 dt Ire -> is_RInt (dint_im x 0) 0 dt Iim ->
  Rabs (fst (di_tmp1 RO thr_s x dt) - Ire) <= dt * dt * ((x * dt) ^ 6 / 5760) /\
  Rabs (snd (di_tmp1 RO thr_s x dt) - Iim) <= dt * dt * (Rabs (x * dt) ^ 5 / 840).
Proof.
  intros Hdt Hthr Hm HR HI.
  assert (Hle : Rabs (x * dt) <= 1) by lra.
  unfold di_tmp1. change (omul RO x dt) with (x * dt). rewrite ltabs_true by exact Hm. rewrite cite_true.
  rewrite horner_val. simpl. split.
  - replace (dt * dt * (1 / 2 - (x * dt) ^ 2 / 8 + (x * dt) ^ 4 / 144)) with
      (dt * dt * (1 / 2 - (x * dt) ^ 2 / 8 + (x * dt) ^ 4 / 144)) by ring.
    apply series_bound_re; auto.
    apply (is_RInt_ext (dint_re x 0)); auto. intros t _. Req. rewrite dint_re_z. ring.
  - apply series_bound_im; auto.
    apply (is_RInt_ext (dint_im x 0)); auto. intros t _. Req. rewrite dint_im_z. ring.
Qed.
