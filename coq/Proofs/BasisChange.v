(* C12, part 3: change of basis of the first-order cumulant function.
   Two complete Hermitian bases C, C' (C orthonormal), O_km = tr(C'_k C_m):
     - O is real, C'_k = sum_m O_km C_m, O^T O = 1;
     - if Gamma' = O Gamma O^T then  K'_ij = sum_ab O_ia O_jb K_ab   (K' = O K O^T),
       hence tr K' = tr K when also O O^T = 1 (process fidelity to first order).          *)
From Coq Require Import ZArith Reals Lra Lia List Setoid Morphisms.
From FF Require Import Base.Ops Inst.RInst Base.RAlg Base.FMat Model.Numeric Model.Decay Model.Cumulant
     Proofs.CMBase Proofs.BasisIndep Proofs.Trapz Proofs.Decay Proofs.TraceId Proofs.CumulantAlg Proofs.CumulantCCP.
Import ListNotations.
Local Open Scope R_scope.

Section Change.
Variables (d n : nat) (Cb Cb' : nat -> fmat).
Hypothesis Hherm : basis_herm d n Cb.
Hypothesis Honb : basis_orthonormal d n Cb.
Hypothesis Hcomp : basis_complete d n Cb.
Hypothesis Hherm' : basis_herm d n Cb'.
Hypothesis Hcomp' : basis_complete d n Cb'.
Notation "A ** B" := (fmul d A B) (at level 40, left associativity).
Notation cm := (comm d).

(* the change-of-basis matrix *)
Definition Ocx (k m : nat) : Cx := ftr d (Cb' k ** Cb m).
Definition Omat (k m : nat) : R := fst (Ocx k m).

Lemma Ocx_real k m : (k < n)%nat -> (m < n)%nat -> Ocx k m = rcx (Omat k m).
Proof.
  intros Hk Hm. unfold Omat, rcx.
  assert (E : cconj' (Ocx k m) = Ocx k m).
  { unfold Ocx. rewrite (ftr_mul_conj d (Cb' k) (Cb m) (Hherm m Hm)).
    pose proof (Hherm' k Hk) as H. unfold fherm in H. rewrite H. apply ftr_cyclic. }
  destruct (Ocx k m) as [x y]. unfold cconj in E. simpl in *. injection E. intros. f_equal. lra.
Qed.
(* C'_k = sum_m O_km C_m *)
Lemma new_basis_expansion k : (k < n)%nat -> feq d (Cb' k) (fsum n (fun m => fscal (rcx (Omat k m)) (Cb m))).
Proof.
  intros Hk c e Hc He. unfold fsum, fscal.
  rewrite <- (basis_expansion d n Cb Hcomp (Cb' k) c e Hc He).
  apply csumn_ext. intros m Hm. rewrite <- Ocx_real by auto. unfold Ocx. rewrite ftr_cyclic. reflexivity.
Qed.
(* O^T O = 1 *)
Lemma O_columns_orthonormal m p : (m < n)%nat -> (p < n)%nat ->
  sumn' n (fun k => Omat k m * Omat k p) = if Nat.eqb m p then 1 else 0.
Proof.
  intros Hm Hp.
  pose proof (parseval_tr d n Cb' Hcomp' (Cb m) (Cb p)) as H.
  rewrite (csumn_ext n _ (fun k => rcx (Omat k m * Omat k p))) in H.
  2:{ intros k Hk. rewrite (ftr_cyclic d (Cb m) (Cb' k)). fold (Ocx k m). fold (Ocx k p).
      rewrite !Ocx_real by auto. unfold rcx. apply c_eq; csimp; ring. }
  rewrite (Honb m p Hm Hp) in H. apply (f_equal fst) in H. rewrite csumn_re in H. simpl in H.
  rewrite H. destruct (Nat.eqb m p); reflexivity.
Qed.

(* O O^T = 1 when the new basis is orthonormal too *)
Lemma O_rows_orthonormal : basis_orthonormal d n Cb' -> forall i j, (i < n)%nat -> (j < n)%nat ->
  sumn' n (fun m => Omat i m * Omat j m) = if Nat.eqb i j then 1 else 0.
Proof.
  intros Honb' i j Hi Hj.
  pose proof (parseval_tr d n Cb Hcomp (Cb' i) (Cb' j)) as H.
  rewrite (csumn_ext n _ (fun m => rcx (Omat i m * Omat j m))) in H.
  2:{ intros m Hm. rewrite (ftr_cyclic d (Cb m) (Cb' j)). fold (Ocx i m). fold (Ocx j m).
      rewrite !Ocx_real by auto. unfold rcx. apply c_eq; csimp; ring. }
  rewrite (Honb' i j Hi Hj) in H. apply (f_equal fst) in H. rewrite csumn_re in H. simpl in H.
  rewrite H. destruct (Nat.eqb i j); reflexivity.
Qed.

(* ---------- the generator does not depend on the basis ---------- *)
Variables (G G' : RMr).
Hypothesis HG' : forall k l, (k < n)%nat -> (l < n)%nat ->
  rmget RO G' k l = sumn' n (fun m => sumn' n (fun p => Omat k m * Omat l p * rmget RO G m p)).

(* sum_kl G'_kl O_kp O_lq = G_pq *)
Lemma OtGO p q : (p < n)%nat -> (q < n)%nat ->
  sumn' n (fun k => sumn' n (fun l => rmget RO G' k l * (Omat k p * Omat l q))) = rmget RO G p q.
Proof.
  intros Hp Hq.
  transitivity (sumn' n (fun m => sumn' n (fun r => rmget RO G m r *
     (sumn' n (fun k => Omat k m * Omat k p) * sumn' n (fun l => Omat l r * Omat l q))))).
  - (* expand G' and reorder the four sums *)
    transitivity (sumn' n (fun k => sumn' n (fun l => sumn' n (fun m => sumn' n (fun r =>
       rmget RO G m r * (Omat k m * Omat k p) * (Omat l r * Omat l q)))))).
    { apply sumn_ext; intros k Hk. apply sumn_ext; intros l Hl. rewrite HG' by auto.
      rewrite <- sumn_mul_r. apply sumn_ext; intros m _. rewrite <- sumn_mul_r. apply sumn_ext; intros r _. ring. }
    transitivity (sumn' n (fun m => sumn' n (fun r => sumn' n (fun k => sumn' n (fun l =>
       rmget RO G m r * (Omat k m * Omat k p) * (Omat l r * Omat l q)))))).
    { rewrite (sumn_ext n _ (fun k => sumn' n (fun m => sumn' n (fun l => sumn' n (fun r =>
         rmget RO G m r * (Omat k m * Omat k p) * (Omat l r * Omat l q))))))
        by (intros; apply sumn_swap).
      rewrite sumn_swap. apply sumn_ext; intros m _.
      rewrite (sumn_ext n _ (fun k => sumn' n (fun r => sumn' n (fun l =>
         rmget RO G m r * (Omat k m * Omat k p) * (Omat l r * Omat l q)))))
        by (intros; apply sumn_swap).
      apply sumn_swap. }
    apply sumn_ext; intros m _. apply sumn_ext; intros r _.
    rewrite (sumn_ext n _ (fun k => (rmget RO G m r * (Omat k m * Omat k p)) * sumn' n (fun l => Omat l r * Omat l q)))
      by (intros; apply sumn_mul_l).
    rewrite sumn_mul_r, sumn_mul_l. ring.
  - rewrite (sumn_ext n _ (fun m => if Nat.eqb m p then rmget RO G m q else 0)).
    + rewrite (sumn_ext n _ (fun m => if Nat.eqb p m then rmget RO G m q else 0))
        by (intros; rewrite Nat.eqb_sym; reflexivity).
      apply (sumn_delta n p (fun m => rmget RO G m q)); auto.
    + intros m Hm. rewrite O_columns_orthonormal by auto.
      rewrite (sumn_ext n _ (fun r => if Nat.eqb q r then (if Nat.eqb m p then rmget RO G m r else 0) else 0)).
      rewrite (sumn_delta n q (fun r => if Nat.eqb m p then rmget RO G m r else 0)) by auto. reflexivity.
      intros r Hr. rewrite O_columns_orthonormal by auto. rewrite (Nat.eqb_sym r q).
      destruct (Nat.eqb m p), (Nat.eqb q r); ring.
Qed.

Lemma rcx_mul x y : rcx (x * y) = cmul' (rcx x) (rcx y).
Proof. unfold rcx. apply c_eq; csimp; ring. Qed.
Lemma rcx_sumn m (f : nat -> R) : rcx (sumn' m f) = csumn' m (fun k => rcx (f k)).
Proof. unfold rcx. apply c_eq. rewrite csumn_re. reflexivity. rewrite csumn_im. simpl. symmetry. apply sumn_0. Qed.

Lemma fscal_fscal' z1 z2 A : feq d (fscal z1 (fscal z2 A)) (fscal (cmul' z1 z2) A).
Proof. intros i j _ _. unfold fscal. ring. Qed.
(* double commutator with the new basis elements, expanded in the old ones *)
Lemma double_comm_new k l X : (k < n)%nat -> (l < n)%nat ->
  feq d (cm (Cb' k) (cm (Cb' l) X))
        (fsum n (fun p => fsum n (fun q => fscal (cmul' (rcx (Omat k p)) (rcx (Omat l q))) (cm (Cb p) (cm (Cb q) X))))).
Proof.
  intros Hk Hl.
  rewrite (new_basis_expansion l Hl) at 1. rewrite (comm_wsum_l d n).
  rewrite (new_basis_expansion k Hk) at 1. rewrite (comm_wsum_l d n).
  apply fsum_ext; intros p _.
  rewrite (comm_wsum_r d n). rewrite fsum_fscal. apply fsum_ext; intros q _.
  rewrite fscal_fscal'. reflexivity.
Qed.

Theorem Lgen_basis_independent X : feq d (Lgen d n Cb' G' X) (Lgen d n Cb G X).
Proof.
  unfold Lgen. apply fscal_proper.
  intros a b Ha Hb. unfold fsum, fscal.
  (* left: sum_k sum_l g'_kl sum_p sum_q O_kp O_lq beta_pq *)
  transitivity (csumn' n (fun k => csumn' n (fun l => csumn' n (fun p => csumn' n (fun q =>
     cmul' (rcx (rmget RO G' k l * (Omat k p * Omat l q))) (cm (Cb p) (cm (Cb q) X) a b)))))).
  { apply csumn_ext; intros k Hk. apply csumn_ext; intros l Hl.
    rewrite (double_comm_new k l X Hk Hl a b Ha Hb). unfold fsum, fscal.
    rewrite <- csumn_mul_l. apply csumn_ext; intros p _. rewrite <- csumn_mul_l. apply csumn_ext; intros q _.
    rewrite !rcx_mul. ring. }
  transitivity (csumn' n (fun p => csumn' n (fun q => csumn' n (fun k => csumn' n (fun l =>
     cmul' (rcx (rmget RO G' k l * (Omat k p * Omat l q))) (cm (Cb p) (cm (Cb q) X) a b)))))).
  { rewrite (csumn_ext n _ (fun k => csumn' n (fun p => csumn' n (fun l => csumn' n (fun q =>
       cmul' (rcx (rmget RO G' k l * (Omat k p * Omat l q))) (cm (Cb p) (cm (Cb q) X) a b))))))
      by (intros; apply csumn_swap).
    rewrite csumn_swap. apply csumn_ext; intros p _.
    rewrite (csumn_ext n _ (fun k => csumn' n (fun q => csumn' n (fun l =>
       cmul' (rcx (rmget RO G' k l * (Omat k p * Omat l q))) (cm (Cb p) (cm (Cb q) X) a b)))))
      by (intros; apply csumn_swap).
    apply csumn_swap. }
  apply csumn_ext; intros p Hp. apply csumn_ext; intros q Hq.
  rewrite <- (OtGO p q Hp Hq). rewrite rcx_sumn. rewrite <- csumn_mul_r. apply csumn_ext; intros k _.
  rewrite rcx_sumn. rewrite <- csumn_mul_r. reflexivity.
Qed.

(* K_change_of_basis: K'_ij = sum_ab O_ia O_jb K_ab *)
Theorem K1_change_of_basis i j : (i < n)%nat -> (j < n)%nat ->
  K1_entry RO n (T4 d Cb') G' i j =
  csumn' n (fun a => csumn' n (fun b => cmul' (cmul' (rcx (Omat i a)) (rcx (Omat j b))) (K1_entry RO n (T4 d Cb) G a b))).
Proof.
  intros Hi Hj. rewrite (K1_as_Lgen d n Cb' G').
  rewrite (Lgen_basis_independent (Cb' j)).
  rewrite (new_basis_expansion j Hj) at 1. rewrite (Lgen_wsum d n Cb G).
  rewrite (new_basis_expansion i Hi) at 1.
  rewrite fmul_fsum_l, ftr_fsum. apply csumn_ext; intros a _.
  rewrite fmul_fscal_l, ftr_fscal.
  rewrite (ftr_mul_wsum d n (Cb a) (fun b => rcx (Omat j b)) (fun b => Lgen d n Cb G (Cb b))).
  rewrite <- csumn_mul_l. apply csumn_ext; intros b _. rewrite (K1_as_Lgen d n Cb G). ring.
Qed.

(* the trace is invariant (O^T O = 1) *)
Theorem K1_trace_invariant :
  csumn' n (fun i => K1_entry RO n (T4 d Cb') G' i i) = csumn' n (fun a => K1_entry RO n (T4 d Cb) G a a).
Proof.
  rewrite (csumn_ext n _ (fun i => csumn' n (fun a => csumn' n (fun b =>
     cmul' (cmul' (rcx (Omat i a)) (rcx (Omat i b))) (K1_entry RO n (T4 d Cb) G a b)))))
    by (intros; apply K1_change_of_basis; auto).
  rewrite csumn_swap. apply csumn_ext; intros a Ha.
  rewrite csumn_swap.
  rewrite (csumn_ext n _ (fun b => if Nat.eqb a b then K1_entry RO n (T4 d Cb) G a b else 0c)).
  apply (csumn_delta n a (fun b => K1_entry RO n (T4 d Cb) G a b)); auto.
  intros b Hb. rewrite csumn_mul_r.
  rewrite (csumn_ext n _ (fun i => rcx (Omat i a * Omat i b))) by (intros; symmetry; apply rcx_mul).
  rewrite <- rcx_sumn, O_columns_orthonormal by auto. unfold rcx. destruct (Nat.eqb a b); apply c_eq; csimp; ring.
Qed.


(* ---------- control matrix and decay amplitudes in the new basis ---------- *)
(* B'_ak = sum_m O_km B_am for the control matrices the model computes in the two bases *)
Theorem cm_change_of_basis thr evs Vs om (bs bs' : list MatR) ns nc dts j k o :
  length bs = n -> length bs' = n ->
  (forall m, (m < n)%nat -> feq d (toF (nthm bs m)) (Cb m)) -> (forall m, (m < n)%nat -> feq d (toF (nthm bs' m)) (Cb' m)) ->
  (j < length ns)%nat -> (k < n)%nat -> (o < length om)%nat ->
  a3get RO (control_matrix_from_scratch RO d thr evs Vs (propagators RO d evs Vs dts) om bs' ns nc dts (times RO dts)) j k o =
  csumn' n (fun m => cmul' (rcx (Omat k m))
    (a3get RO (control_matrix_from_scratch RO d thr evs Vs (propagators RO d evs Vs dts) om bs ns nc dts (times RO dts)) j m o)).
Proof.
  intros Hl Hl' Hb Hb' Hj Hk Ho.
  rewrite cm_entry_trace_form by (try rewrite Hl'; auto).
  rewrite (Hb' k Hk). rewrite (new_basis_expansion k Hk).
  rewrite (ftr_mul_wsum d n _ (fun m => rcx (Omat k m)) Cb).
  apply csumn_ext; intros m Hm. f_equal.
  rewrite cm_entry_trace_form by (try rewrite Hl; auto). rewrite (Hb m Hm). reflexivity.
Qed.

(* Gamma' = O Gamma O^T for control matrices related by B'_k = sum_m O_km B_m *)
Theorem Gamma_change_of_basis na no (Bm Bm' : A3r) idx (sp : spectrumR) omega i j k l :
  (forall a k o, (a < na)%nat -> (k < n)%nat -> (o < no)%nat ->
     a3get RO Bm' a k o = csumn' n (fun m => cmul' (rcx (Omat k m)) (a3get RO Bm a m o))) ->
  (sel idx i < na)%nat -> (sel idx j < na)%nat -> (k < n)%nat -> (l < n)%nat ->
  Gamma Bm' Bm' idx sp no omega i j k l =
  sumn' n (fun m => sumn' n (fun p => Omat k m * Omat l p * Gamma Bm Bm idx sp no omega i j m p)).
Proof.
  intros HB Hi Hj Hk Hl. unfold Gamma.
  rewrite (sumn_ext n _ (fun m => sumn' n (fun p => trapz_w no (fun o => Omat k m * Omat l p *
     fst (cmul' (cmul' (cconj' (a3get RO Bm (sel idx i) m o)) (spec_at RO sp i j o)) (a3get RO Bm (sel idx j) p o))) omega) / (2 * PI))).
  2:{ intros m _. unfold Rdiv. rewrite <- sumn_mul_r. apply sumn_ext; intros p _. rewrite trapz_w_scal. ring. }
  unfold Rdiv. rewrite sumn_mul_r. f_equal.
  rewrite (sumn_ext n _ (fun m => trapz_w no (fun o => sumn' n (fun p => Omat k m * Omat l p *
     fst (cmul' (cmul' (cconj' (a3get RO Bm (sel idx i) m o)) (spec_at RO sp i j o)) (a3get RO Bm (sel idx j) p o)))) omega))
    by (intros; symmetry; apply trapz_w_sum).
  rewrite <- trapz_w_sum. apply trapz_w_ext. intros o Ho.
  rewrite !HB by auto.
  rewrite csumn_conj. rewrite <- csumn_mul_r, <- csumn_mul_r, csumn_re. apply sumn_ext; intros m _.
  rewrite <- csumn_mul_l, csumn_re. apply sumn_ext; intros p _.
  unfold rcx. destruct (a3get RO Bm (sel idx i) m o), (spec_at RO sp i j o), (a3get RO Bm (sel idx j) p o). csimp. ring.
Qed.

End Change.
