(* Enclosure theorems for the C10 model (checked by the kernel, produced by paramcoq): the second-order
   filter function / frequency shifts evaluated on the interval instances enclose their value on the
   real instance, i.e. the value the theorems of Properties/C10.v are about.                        *)
From Coq Require Import ZArith Reals List.
From Param Require Import Param.
From Interval Require Import Xreal Interval Basic.
From FF Require Import Base.Ops Inst.RInst Inst.IInst Inst.Param Model.Numeric Model.SecondOrder Corr.Agree Corr.ObsC10.
Import ListNotations.

Parametricity Recursive soi_entry.
Parametricity Recursive second_order_ff.
Parametricity Recursive frequency_shifts.
Parametricity Recursive second_order_from_eig.

(* 160-bit instance (the one the correspondence check runs) *)
Definition F2_enclosure_B :=
  second_order_from_eig_R PB.M.I.type R PB.TR (option bool) bool PB.BR IOB RO IOB_RO.
(* the observable of the correspondence check is this function *)
Example model_F2_is : forall d thr thr2 evs Vs om bs ns nc dts,
  model_F2 IOB d thr thr2 evs Vs om bs ns nc dts = second_order_from_eig IOB d thr thr2 evs Vs om bs ns nc dts.
Proof. reflexivity. Qed.
Definition soi_enclosure_B :=
  soi_entry_R PB.M.I.type R PB.TR (option bool) bool PB.BR IOB RO IOB_RO.
Definition shifts_enclosure_B :=
  frequency_shifts_R PB.M.I.type R PB.TR (option bool) bool PB.BR IOB RO IOB_RO.
Check F2_enclosure_B.
