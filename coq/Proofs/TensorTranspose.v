(* C16 -- tensor_transpose, numerically: reshape / transpose / reshape of a Kronecker chain with a
   permutation `order` of its constituents is the Kronecker chain of the permuted factor list. *)
From Coq Require Import ZArith List Arith Lia Bool Permutation.
From FF Require Import Model.Tensor Spec.Kron Proofs.TensorIdx Proofs.TensorOrder Proofs.Tensor
  Proofs.TensorKron Proofs.TensorRegroup Proofs.TensorInsert Proofs.TensorInsertModel Proofs.TensorInsertLoop
  Proofs.TensorUnfold.
Import ListNotations.

Section Generic.
Context {T : Type} {EN : Entry T} {EL : EntryLaws T}.
Local Notation arr := (garr T).

(* ------------------------------------------------------------------ the transpose primitive on a permutation *)
Lemma has_dup_false l : NoDup l -> has_dup l = false.
Proof.
  induction 1 as [|x l Hx Hnd IH]; simpl; auto. rewrite IH, orb_false_r.
  destruct (existsb (Nat.eqb x) l) eqn:E; auto.
  apply existsb_exists in E. destruct E as [y [Hy E]]. apply Nat.eqb_eq in E. subst. contradiction.
Qed.
Lemma mapM_norm_axis nd ax : Forall (fun k => k < nd) ax -> mapM (norm_axis nd) (map Z.of_nat ax) = Ok ax.
Proof.
  induction 1 as [|k ax Hk H IH]; simpl; auto. rewrite IH. unfold norm_axis.
  replace ((Z.of_nat k <? - Z.of_nat nd) || (Z.of_nat nd <=? Z.of_nat k))%Z with false.
  - simpl. rewrite Z.mod_small by lia. rewrite Nat2Z.id. reflexivity.
  - symmetry. apply orb_false_iff. split; [apply Z.ltb_ge|apply Z.leb_gt]; lia.
Qed.

Lemma transpose_perm a ax : ax <> [] -> Permutation ax (seq 0 (length (shp a))) ->
  transpose a (map Z.of_nat ax) =
  Ok (tabulate (map (fun k => nth k (shp a) 0) ax)
        (fun ni => aget a (map (fun k => lookup ax ni k) (seq 0 (length (shp a)))))).
Proof.
  intros Hne Hp. unfold transpose.
  assert (E : match map Z.of_nat ax with [] => map Z.of_nat (rev (seq 0 (length (shp a)))) | _ :: _ => map Z.of_nat ax end = map Z.of_nat ax)
    by (destruct ax; [congruence|reflexivity]).
  rewrite E. rewrite map_length, (Permutation_length Hp), seq_length, Nat.eqb_refl. cbn [negb].
  rewrite mapM_norm_axis.
  - cbn [bind]. rewrite has_dup_false; [reflexivity|].
    apply (Permutation_NoDup (Permutation_sym Hp)). apply seq_NoDup.
  - apply Forall_forall. intros k Hk. apply (Permutation_in _ Hp) in Hk. apply in_seq in Hk. lia.
Qed.

(* ------------------------------------------------------------------ lookups in block-structured environments *)
Lemma lookup_block Bs : forall Vs a l,
  NoDup (concat Bs) -> Forall2 (fun b v : list nat => length b = length v) Bs Vs ->
  In l (nth a Bs []) ->
  lookup (concat Bs) (concat Vs) l = lookup (nth a Bs []) (nth a Vs []) l.
Proof.
  induction Bs as [|b Bs IH]; intros Vs a l Hnd HBV Hin.
  - destruct a; simpl in Hin; contradiction.
  - inversion HBV as [|? v ? Vs' Hbv HBV']; subst. cbn [concat] in *.
    destruct a as [|a]; cbn [nth] in *.
    + apply lookup_app_l; auto.
    + rewrite lookup_app_r; auto.
      * apply IH; auto. eapply NoDup_app_r; eauto.
      * intros Hc. eapply (NoDup_app_disj b (concat Bs)); eauto.
        (* l in the later block a of Bs *)
        clear -Hin. revert a Hin. induction Bs as [|b0 Bs IHB]; intros a Hin; destruct a; simpl in *; try contradiction.
        -- apply in_or_app. auto.
        -- apply in_or_app. right. eapply IHB; eauto.
Qed.

Lemma lookup_nth ord : forall (v : list nat) j, NoDup ord -> length v = length ord -> j < length ord ->
  lookup ord v (nth j ord 0) = nth j v 0.
Proof.
  induction ord as [|o ord IH]; intros [|x v] j Hnd Hl Hj; simpl in *; try lia; try discriminate.
  inversion Hnd as [|? ? Ho Hnd']; subst.
  destruct j as [|j].
  - rewrite Nat.eqb_refl. reflexivity.
  - destruct (Nat.eqb_spec (nth j ord 0) o) as [E|E].
    + exfalso. apply Ho. rewrite <- E. apply nth_In. lia.
    + apply IH; auto; lia.
Qed.
Lemma lookup_map_shift c ord : forall (v : list nat) k,
  lookup (map (fun o => c + o) ord) v (c + k) = lookup ord v k.
Proof.
  induction ord as [|o ord IH]; intros [|x v] k; simpl; auto.
  destruct (Nat.eqb_spec (c + k) (c + o)); destruct (Nat.eqb_spec k o); auto; lia.
Qed.

Lemma Permutation_flat_map {A B} (f g : A -> list B) l :
  (forall a, In a l -> Permutation (f a) (g a)) -> Permutation (flat_map f l) (flat_map g l).
Proof.
  induction l as [|a l IH]; intros H; simpl; auto.
  apply Permutation_app; [apply H; left; auto|apply IH; intros; apply H; right; auto].
Qed.
Lemma map_nth_perm (l : list nat) ax : Permutation ax (seq 0 (length l)) ->
  Permutation (map (fun k => nth k l 0) ax) l.
Proof. intros H. rewrite (Permutation_map _ H). rewrite map_nth_seq. reflexivity. Qed.
Lemma zprod_perm (l l' : list T) : Permutation l l' -> zprod l = zprod l'.
Proof.
  unfold zprod. induction 1; simpl; try congruence.
  rewrite !emul_assoc. f_equal. apply emul_comm.
Qed.

Lemma Forall2_nth_intro {A B} (R : A -> B -> Prop) da db l : forall m,
  length l = length m -> (forall k, k < length l -> R (nth k l da) (nth k m db)) -> Forall2 R l m.
Proof.
  induction l as [|x l IH]; intros [|y m] Hl H; simpl in *; try discriminate; constructor.
  - apply (H 0). lia.
  - apply IH; [lia|]. intros k Hk. apply (H (S k)). lia.
Qed.

Lemma inb_concat_inv G : forall fi, inb fi (concat G) -> exists V, fi = concat V /\ Forall2 inb V G.
Proof.
  induction G as [|g G IH]; intros fi H; simpl in H.
  - inversion H; subst. exists []. split; [reflexivity|constructor].
  - apply Forall2_app_inv_r in H. destruct H as [v [rest [H1 [H2 E]]]]. subst.
    destruct (IH rest H2) as [V [EV HV]]. exists (v :: V). split; [simpl; rewrite EV; reflexivity|constructor; auto].
Qed.

(* ------------------------------------------------------------------ the dimension table of a chain *)
Lemma parse_dims_table r (L : list arr) : 1 <= r -> parse_dims_arg (dims_table r L) r = Ok tt.
Proof.
  intros Hr. apply parse_dims_ok. unfold dims_table. split; [rewrite map_length, seq_length; auto|].
  destruct r as [|r']; [lia|]. cbn [seq map]. eexists. eexists. split; [reflexivity|].
  apply Forall_forall. intros x Hx. apply in_map_iff in Hx. destruct Hx as [a [<- _]].
  unfold axis_dims. rewrite !map_length. reflexivity.
Qed.
Lemma dims_table_hd r (L : list arr) : 1 <= r -> length (hd [] (dims_table r L)) = length L.
Proof.
  intros Hr. unfold dims_table. destruct r as [|r']; [lia|]. cbn [seq map hd]. unfold axis_dims. apply map_length.
Qed.
Lemma dims_table_rows r (L : list arr) : Forall (fun d => length d = length L) (dims_table r L).
Proof.
  apply Forall_forall. intros d Hd. unfold dims_table in Hd. apply in_map_iff in Hd. destruct Hd as [a [<- _]].
  unfold axis_dims. apply map_length.
Qed.
Lemma dims_table_length r (L : list arr) : length (dims_table r L) = r.
Proof. unfold dims_table. rewrite map_length, seq_length. reflexivity. Qed.

Lemma nth_concat_const {A} n (d : A) Bs : forall a o, Forall (fun b => length b = n) Bs -> a < length Bs -> o < n ->
  nth (a * n + o) (concat Bs) d = nth o (nth a Bs []) d.
Proof.
  induction Bs as [|b Bs IH]; intros a o Hall Ha Ho; simpl in Ha; [lia|].
  inversion_clear Hall as [|? ? Hb Hall']. cbn [concat].
  destruct a as [|a]; cbn [nth].
  - simpl. apply app_nth1. lia.
  - rewrite app_nth2 by (rewrite Hb; simpl; lia). rewrite Hb.
    replace (S a * n + o - n) with (a * n + o) by (simpl; lia).
    apply IH; auto. lia.
Qed.

Definition permute_list (ord : list nat) (L : list arr) : list arr := map (fun o => nth o L (mkArr [] [])) ord.
Definition transpose_ax (r n : nat) (ord : list nat) : list nat :=
  flat_map (fun a => map (fun o => a * n + o) ord) (seq 0 r).

Lemma transpose_axes_nat r n ord :
  transpose_axes r n 0 (map Z.of_nat ord) = map Z.of_nat (transpose_ax r n ord).
Proof.
  unfold transpose_axes, transpose_ax. cbn [seq map app].
  rewrite map_flat_map. apply flat_map_ext. intros a. rewrite !map_map. apply map_ext. intros o. lia.
Qed.
Lemma transpose_ax_perm r n ord : Permutation ord (seq 0 n) -> Permutation (transpose_ax r n ord) (seq 0 (r * n)).
Proof.
  intros H. unfold transpose_ax. rewrite <- flat_map_seq_blocks.
  apply Permutation_flat_map. intros a _.
  rewrite (Permutation_map _ H). rewrite map_add_seq. rewrite Nat.add_0_r. reflexivity.
Qed.

Lemma axis_dims_permute a ord (L : list arr) : Forall (fun o => o < length L) ord ->
  axis_dims a (permute_list ord L) = map (fun o => nth o (axis_dims a L) 0) ord.
Proof.
  intros H. unfold axis_dims, permute_list. rewrite map_map. apply map_ext_in. intros o Ho.
  rewrite Forall_forall in H. specialize (H o Ho).
  transitivity (nth o (map (fun F : arr => nth a (shp F) 0) L) (nth a (shp (mkArr [] [] : arr)) 0));
    [rewrite (map_nth (fun F : arr => nth a (shp F) 0)); reflexivity | apply nth_indep; rewrite map_length; auto].
Qed.

Lemma wf_permute_list r ord (L : list arr) : Forall (wf r) L -> Forall (fun o => o < length L) ord -> Forall (wf r) (permute_list ord L).
Proof.
  intros HL Ho. apply Forall_forall. intros x Hx. unfold permute_list in Hx. apply in_map_iff in Hx.
  destruct Hx as [o [<- Hin]]. rewrite Forall_forall in HL, Ho. apply HL. apply nth_In. auto.
Qed.

(* entry of a chain at a coarse multi-index given by per-axis blocks *)
Lemma chain_entry_blocks r L V : 1 <= r -> L <> [] -> Forall (wf r) L -> Forall2 inb V (dims_table r L) ->
  aget (chain_u r L) (map2 ravel (dims_table r L) V) =
  zprod (map (fun k => aget (nth k L (mkArr [] [])) (factor_pick r V k)) (seq 0 (length L))).
Proof.
  intros Hr Hne Hwf HV. destruct L as [|F L]; [congruence|].
  rewrite <- (unfolded_entry r F L V) by auto.
  unfold aget. cbn [shp dat].
  assert (Hsh : shp (chain_u r (F :: L)) = map prodn (dims_table r (F :: L))).
  { rewrite chain_u_shape by auto. unfold dims_table. rewrite map_map. reflexivity. }
  rewrite Hsh. f_equal. symmetry. apply ravel_concat.
  clear -HV. induction HV; constructor; auto. eapply inb_length; eauto.
Qed.

Theorem transpose_spec r L ord :
  1 <= r -> 1 <= length L -> Forall (wf r) L -> Permutation ord (seq 0 (length L)) ->
  tensor_transpose r (chain_u r L) (map Z.of_nat ord) (dims_table r L) = Ok (chain_u r (permute_list ord L)).
Proof.
  intros Hr Hn HL Hp. set (n := length L) in *.
  assert (Hord : Forall (fun o => o < n) ord).
  { apply Forall_forall. intros o Ho. apply (Permutation_in _ Hp) in Ho. apply in_seq in Ho. lia. }
  assert (Hlo : length ord = n) by (rewrite (Permutation_length Hp), seq_length; reflexivity).
  assert (Hndo : NoDup ord) by (apply (Permutation_NoDup (Permutation_sym Hp)); apply seq_NoDup).
  set (C := chain_u r L). set (L' := permute_list ord L).
  assert (HC : wf r C) by (apply wf_chain_u; auto).
  assert (HL' : Forall (wf r) L') by (apply wf_permute_list; auto).
  assert (HlL' : length L' = n) by (unfold L', permute_list; rewrite map_length; auto).
  assert (HC' : wf r (chain_u r L')) by (apply wf_chain_u; auto).
  destruct HC as [HC1 HC2].
  assert (Hsh : shp C = map prodn (dims_table r L)).
  { unfold C. rewrite chain_u_shape by auto. unfold dims_table. rewrite map_map. reflexivity. }
  assert (Hsh' : shp (chain_u r L') = map prodn (dims_table r L')).
  { rewrite chain_u_shape by auto. unfold dims_table. rewrite map_map. reflexivity. }
  unfold tensor_transpose. rewrite parse_dims_table by auto. cbn [bind]. rewrite dims_table_hd by auto.
  replace (r =? 0) with false by (symmetry; apply Nat.eqb_neq; lia).
  assert (Hlead : lead r (shp C) = []) by (unfold lead; rewrite HC1, Nat.sub_diag; reflexivity).
  fold C. rewrite Hlead. cbn [app length].
  unfold reshape at 1. rewrite prodn_concat, <- Hsh, <- HC2, Nat.eqb_refl. cbn [bind].
  fold n. rewrite transpose_axes_nat.
  set (fine := concat (dims_table r L)).
  assert (Hlf : length fine = r * n).
  { unfold fine. rewrite (concat_length_const n) by apply dims_table_rows. rewrite dims_table_length. lia. }
  set (ax := transpose_ax r n ord).
  assert (Haxp : Permutation ax (seq 0 (length fine))) by (rewrite Hlf; apply transpose_ax_perm; auto).
  assert (Haxne : ax <> []).
  { intros E. apply Permutation_length in Haxp. rewrite E, seq_length, Hlf in Haxp. simpl in Haxp. nia. }
  rewrite (transpose_perm (mkArr fine (dat C)) ax Haxne Haxp). cbn [bind shp].
  (* the transposed fine shape is the dimension table of the permuted list *)
  assert (Hfine' : map (fun k => nth k fine 0) ax = concat (dims_table r L')).
  { unfold ax, transpose_ax, dims_table. rewrite map_flat_map, <- flat_map_concat_map.
    apply flat_map_ext_in. intros a Ha. apply in_seq in Ha.
    unfold L'. rewrite axis_dims_permute by auto. rewrite map_map. apply map_ext_in. intros o Ho.
    rewrite Forall_forall in Hord. specialize (Hord o Ho).
    unfold fine. rewrite (nth_concat_const n) by (try apply dims_table_rows; rewrite ?dims_table_length; lia).
    unfold dims_table. rewrite nth_map_seq by lia. reflexivity. }
  rewrite Hfine'.
  unfold reshape, tabulate. cbn [dat].
  rewrite map_length, indices_length, prodn_concat, <- Hsh'.
  assert (Hprod : prodn (shp C) = prodn (shp (chain_u r L'))).
  { rewrite Hsh, Hsh', <- !prodn_concat. apply prodn_perm. rewrite <- Hfine'. symmetry. apply map_nth_perm. exact Haxp. }
  rewrite Hprod, Nat.eqb_refl.
  (* shapes *)
  assert (Hshapes : shp C = shp (chain_u r L')).
  { rewrite Hsh, Hsh'. unfold dims_table. rewrite !map_map. apply map_ext_in. intros a Ha.
    apply prodn_perm. unfold L'. rewrite axis_dims_permute by auto. symmetry.
    apply map_nth_perm. unfold axis_dims. rewrite map_length. exact Hp. }
  f_equal. destruct (chain_u r L') as [s' d'] eqn:EC'. cbn [shp dat] in *. rewrite Hshapes. f_equal.
  (* data *)
  assert (Hd' : d' = map (aget (mkArr s' d')) (indices s')).
  { pose proof (tabulate_aget r (mkArr s' d') HC') as Ht. unfold tabulate in Ht. cbn [shp] in Ht.
    injection Ht as Ht. symmetry. exact Ht. }
  rewrite Hd', Hsh', <- (indices_regroup (dims_table r L')).
  apply map_ext_in. intros fi Hfi. apply In_indices in Hfi.
  destruct (inb_concat_inv _ _ Hfi) as [V' [Efi HV']]. subst fi.
  assert (HV'len : Forall2 (fun g w : list nat => length g = length w) (dims_table r L') V').
  { clear -HV'. induction HV'; constructor; auto. symmetry. eapply inb_length; eauto. }
  unfold merge_idx. rewrite split_by_blocks by auto.
  rewrite <- Hsh', <- EC'. rewrite chain_entry_blocks; auto.
  2:{ intros E. apply (f_equal (@length arr)) in E. simpl in E. lia. }
  (* the gathered index of the original chain *)
  set (V := map (fun a => map (fun k => lookup ord (nth a V' []) k) (seq 0 n)) (seq 0 r)).
  assert (HlV' : length V' = r) by (apply Forall2_len in HV'; rewrite dims_table_length in HV'; auto).
  assert (Hrows' : forall a, a < r -> inb (nth a V' []) (axis_dims a L')).
  { intros a Ha. pose proof (Forall2_nth inb V' (dims_table r L') [] [] a HV' ltac:(lia)) as Hq.
    unfold dims_table in Hq. rewrite nth_map_seq in Hq by lia. exact Hq. }
  assert (Hgather : map (fun k => lookup ax (concat V') k) (seq 0 (length fine)) = concat V).
  { rewrite Hlf, <- flat_map_seq_blocks, map_flat_map. unfold V. rewrite <- flat_map_concat_map.
    apply flat_map_ext_in. intros a Ha. apply in_seq in Ha.
    replace (seq (a * n) n) with (map (fun k => a * n + k) (seq 0 n)) by (rewrite map_add_seq; f_equal; lia).
    rewrite map_map. apply map_ext_in. intros k Hk. apply in_seq in Hk.
    (* block a of the environment *)
    unfold ax, transpose_ax. rewrite flat_map_concat_map.
    rewrite (lookup_block _ V' a).
    - rewrite nth_map_seq by lia. apply lookup_map_shift.
    - rewrite <- flat_map_concat_map. fold (transpose_ax r n ord).
      apply (Permutation_NoDup (Permutation_sym (transpose_ax_perm r n ord Hp))). apply seq_NoDup.
    - apply Forall2_nth_intro with (da := []) (db := []).
      + rewrite map_length, seq_length. lia.
      + intros k0 Hk0. rewrite map_length, seq_length in Hk0. rewrite nth_map_seq by lia. rewrite map_length.
        specialize (Hrows' k0 Hk0). apply inb_length in Hrows'. rewrite Hrows'.
        unfold axis_dims. rewrite map_length. lia.
    - rewrite nth_map_seq by lia. apply in_map. apply (Permutation_in _ (Permutation_sym Hp)). apply in_seq. lia. }
  rewrite Hgather.
  assert (HVin : Forall2 inb V (dims_table r L)).
  { unfold V, dims_table. clear Hgather. apply Forall2_nth_intro with (da := []) (db := []).
    - rewrite !map_length. reflexivity.
    - intros a Ha. rewrite map_length, seq_length in Ha. rewrite !nth_map_seq by lia.
      specialize (Hrows' a Ha). unfold L' in Hrows'. rewrite axis_dims_permute in Hrows' by auto.
      (* entry k of the row: k = ord[j], value V'_a[j] < D_a[ord j] *)
      apply Forall2_nth_intro with (da := 0) (db := 0).
      + rewrite map_length, seq_length. unfold axis_dims. rewrite map_length. reflexivity.
      + intros k Hk. rewrite map_length, seq_length in Hk. rewrite nth_map_seq by lia.
        assert (Hink : In k ord) by (apply (Permutation_in _ (Permutation_sym Hp)); apply in_seq; lia).
        destruct (In_nth ord k 0 Hink) as [j [Hj Ej]]. rewrite <- Ej.
        rewrite lookup_nth; auto; [|apply inb_length in Hrows'; rewrite map_length in Hrows'; auto].
        pose proof (Forall2_nth (fun i d => i < d) (nth a V' []) (map (fun o => nth o (axis_dims a L) 0) ord) 0 0 j Hrows') as Hq.
        rewrite (nth_indep (map _ ord) 0 ((fun o => nth o (axis_dims a L) 0) 0)) in Hq by (rewrite map_length; auto).
        rewrite (map_nth (fun o => nth o (axis_dims a L) 0)) in Hq. apply Hq.
        apply inb_length in Hrows'. rewrite map_length in Hrows'. lia. }
  assert (HLne : L <> []) by (intros E; unfold n in Hn; rewrite E in Hn; simpl in Hn; lia).
  unfold fine. change (mkArr (concat (dims_table r L)) (dat C)) with (mkArr (concat (dims_table r L)) (dat (chain_u r L))).
  rewrite (unfolded_entry' r L V) by auto.
  (* reindex the product by the permutation *)
  rewrite HlL'. fold n.
  rewrite <- (zprod_perm _ _ (Permutation_map (fun k => aget (nth k L (mkArr [] [])) (factor_pick r V k)) Hp)).
  f_equal. rewrite <- (map_nth_seq ord) at 1. rewrite Hlo, map_map.
  apply map_ext_in. intros j Hj. apply in_seq in Hj.
  unfold L', permute_list.
  rewrite (nth_indep (map (fun o => nth o L (mkArr [] [])) ord) (mkArr [] []) ((fun o => nth o L (mkArr [] [])) 0)) by (rewrite map_length; lia).
  rewrite (map_nth (fun o => nth o L (mkArr [] []))). f_equal.
  unfold factor_pick. apply map_ext_in. intros a Ha. apply in_seq in Ha.
  unfold V. rewrite nth_map_seq by lia.
  assert (Ho : nth j ord 0 < n) by (rewrite Forall_forall in Hord; apply Hord; apply nth_In; lia).
  rewrite nth_map_seq by lia.
  rewrite lookup_nth; auto; try lia.
  specialize (Hrows' a ltac:(lia)). apply inb_length in Hrows'. rewrite Hrows'.
  unfold axis_dims. rewrite map_length. lia.
Qed.

(* ------------------------------------------------------------------ tensor_transpose of an ARBITRARY tensor *)
(* The statement used by C06 (remap): for any tensor C whose trailing axes factor as the table Ds, the result
   at the multi-index with digit blocks V' is C at the digit blocks src_blocks V', i.e. source digit k of
   every axis is target digit (position of k in order). *)
Definition permute_dims (ord : list nat) (Ds : list (list nat)) : list (list nat) :=
  map (fun d => map (fun o => nth o d 0) ord) Ds.
Definition src_blocks (n : nat) (ord : list nat) (V' : list (list nat)) : list (list nat) :=
  map (fun v' => map (fun k => lookup ord v' k) (seq 0 n)) V'.

Lemma map_nth_seq_list {A} (d : A) (l : list A) : map (fun a => nth a l d) (seq 0 (length l)) = l.
Proof. induction l as [|x l IH]; simpl; auto. f_equal. rewrite <- seq_shift, map_map. exact IH. Qed.

Lemma map_via_nth {A B} (f : A -> B) (d : A) (l : list A) :
  map (fun a => f (nth a l d)) (seq 0 (length l)) = map f l.
Proof. rewrite <- (map_map (fun a => nth a l d) f), map_nth_seq_list. reflexivity. Qed.

Theorem transpose_index_spec r n (C : arr) (Ds : list (list nat)) ord :
  1 <= r -> 1 <= n -> length Ds = r -> Forall (fun d => length d = n) Ds -> wf r C -> shp C = map prodn Ds ->
  Permutation ord (seq 0 n) ->
  exists R, tensor_transpose r C (map Z.of_nat ord) Ds = Ok R /\ shp R = shp C /\ length (dat R) = prodn (shp C) /\
    map prodn (permute_dims ord Ds) = map prodn Ds /\
    forall V', Forall2 inb V' (permute_dims ord Ds) ->
      aget R (map2 ravel (permute_dims ord Ds) V') = aget C (map2 ravel Ds (src_blocks n ord V')).
Proof.
  intros Hr Hn HlD Hrows [HC1 HC2] Hsh Hp.
  assert (Hord : Forall (fun o => o < n) ord).
  { apply Forall_forall. intros o Ho. apply (Permutation_in _ Hp) in Ho. apply in_seq in Ho. lia. }
  assert (Hlo : length ord = n) by (rewrite (Permutation_length Hp), seq_length; reflexivity).
  assert (Hndo : NoDup ord) by (apply (Permutation_NoDup (Permutation_sym Hp)); apply seq_NoDup).
  set (Ds' := permute_dims ord Ds).
  assert (HlD' : length Ds' = r) by (unfold Ds', permute_dims; rewrite map_length; auto).
  assert (Hparse : parse_dims_arg Ds r = Ok tt).
  { apply parse_dims_ok. split; auto. destruct Ds as [|d0 Dt]; [simpl in HlD; lia|].
    exists d0, Dt. split; auto. inversion Hrows as [|? ? H0 Ht]; subst.
    eapply Forall_impl; [|exact Ht]. simpl. intros x Hx. lia. }
  assert (Hhd : length (hd [] Ds) = n).
  { destruct Ds as [|d0 Dt]; [simpl in HlD; lia|]. inversion Hrows; auto. }
  unfold tensor_transpose. rewrite Hparse. cbn [bind]. rewrite Hhd.
  replace (r =? 0) with false by (symmetry; apply Nat.eqb_neq; lia).
  assert (Hlead : lead r (shp C) = []) by (unfold lead; rewrite HC1, Nat.sub_diag; reflexivity).
  rewrite Hlead. cbn [app length].
  unfold reshape at 1. rewrite prodn_concat, <- Hsh, <- HC2, Nat.eqb_refl. cbn [bind].
  rewrite transpose_axes_nat.
  set (fine := concat Ds).
  assert (Hlf : length fine = r * n).
  { unfold fine. rewrite (concat_length_const n) by auto. lia. }
  set (ax := transpose_ax r n ord).
  assert (Haxp : Permutation ax (seq 0 (length fine))) by (rewrite Hlf; apply transpose_ax_perm; auto).
  assert (Haxne : ax <> []).
  { intros E. apply Permutation_length in Haxp. rewrite E, seq_length, Hlf in Haxp. simpl in Haxp. nia. }
  rewrite (transpose_perm (mkArr fine (dat C)) ax Haxne Haxp). cbn [bind shp].
  assert (Hfine' : map (fun k => nth k fine 0) ax = concat Ds').
  { unfold ax, transpose_ax, Ds', permute_dims. rewrite map_flat_map.
    rewrite <- (map_via_nth (fun d => map (fun o => nth o d 0) ord) [] Ds), HlD, <- flat_map_concat_map.
    apply flat_map_ext_in. intros a Ha. apply in_seq in Ha.
    rewrite map_map. apply map_ext_in. intros o Ho.
    rewrite Forall_forall in Hord. specialize (Hord o Ho).
    unfold fine. apply (nth_concat_const n); auto; lia. }
  rewrite Hfine'.
  assert (Hprods : map prodn Ds' = map prodn Ds).
  { unfold Ds', permute_dims. rewrite map_map. apply map_ext_in. intros d Hd.
    apply prodn_perm. apply map_nth_perm. rewrite Forall_forall in Hrows. rewrite (Hrows d Hd). exact Hp. }
  unfold reshape, tabulate. cbn [dat].
  rewrite map_length, indices_length, prodn_concat, Hprods, <- Hsh, Nat.eqb_refl.
  eexists. split; [reflexivity|]. cbn [shp dat]. split; [reflexivity|]. split.
  { rewrite map_length, indices_length, prodn_concat, Hprods, <- Hsh. first [reflexivity | exact HC2 | symmetry; exact HC2]. }
  split; [first [exact Hprods | reflexivity]|].
  intros V' HV'.
  assert (HV'len : Forall2 (fun v d : list nat => length v = length d) V' Ds').
  { clear -HV'. induction HV'; constructor; auto. eapply inb_length; eauto. }
  assert (HlV' : length V' = r) by (apply Forall2_len in HV'; lia).
  assert (Hrows' : forall a, a < r -> length (nth a V' []) = n).
  { intros a Ha. pose proof (Forall2_nth (fun v d : list nat => length v = length d) V' Ds' [] [] a HV'len ltac:(lia)) as Hq.
    rewrite Hq. unfold Ds', permute_dims.
    rewrite (nth_indep _ [] ((fun d => map (fun o => nth o d 0) ord) [])) by (rewrite map_length; lia).
    rewrite (map_nth (fun d => map (fun o => nth o d 0) ord)). rewrite map_length. auto. }
  (* left-hand side: entry of the tabulated array *)
  unfold aget at 1. cbn [shp dat]. rewrite Hsh, <- Hprods.
  rewrite <- (ravel_concat Ds' V') by auto.
  assert (Hin' : inb (concat V') (concat Ds')) by (apply inb_concat; auto).
  pose proof (aget_tabulate (concat Ds') (fun ni => aget (mkArr fine (dat C)) (map (fun k => lookup ax ni k) (seq 0 (length fine)))) (concat V') Hin') as Hat.
  unfold aget at 1, tabulate in Hat. cbn [shp dat] in Hat. rewrite Hat. clear Hat.
  set (V := src_blocks n ord V').
  assert (Hgather : map (fun k => lookup ax (concat V') k) (seq 0 (length fine)) = concat V).
  { rewrite Hlf, <- flat_map_seq_blocks, map_flat_map. unfold V, src_blocks.
    rewrite <- (map_via_nth (fun v' => map (fun k => lookup ord v' k) (seq 0 n)) [] V'), HlV', <- flat_map_concat_map.
    apply flat_map_ext_in. intros a Ha. apply in_seq in Ha.
    replace (seq (a * n) n) with (map (fun k => a * n + k) (seq 0 n)) by (rewrite map_add_seq; f_equal; lia).
    rewrite map_map. apply map_ext_in. intros k Hk. apply in_seq in Hk.
    unfold ax, transpose_ax. rewrite flat_map_concat_map.
    rewrite (lookup_block _ V' a).
    - rewrite nth_map_seq by lia. apply lookup_map_shift.
    - rewrite <- flat_map_concat_map. fold (transpose_ax r n ord).
      apply (Permutation_NoDup (Permutation_sym (transpose_ax_perm r n ord Hp))). apply seq_NoDup.
    - apply Forall2_nth_intro with (da := []) (db := []).
      + rewrite map_length, seq_length. lia.
      + intros k0 Hk0. rewrite map_length, seq_length in Hk0. rewrite nth_map_seq by lia. rewrite map_length.
        rewrite Hrows' by lia. lia.
    - rewrite nth_map_seq by lia. apply in_map. apply (Permutation_in _ (Permutation_sym Hp)). apply in_seq. lia. }
  rewrite Hgather.
  unfold aget. cbn [shp dat]. rewrite Hsh. f_equal. unfold fine. apply ravel_concat.
  unfold V, src_blocks.
  apply Forall2_nth_intro with (da := []) (db := []).
  - rewrite map_length. lia.
  - intros a Ha. rewrite map_length in Ha.
    rewrite (nth_indep _ [] ((fun v' => map (fun k => lookup ord v' k) (seq 0 n)) [])) by (rewrite map_length; lia).
    rewrite (map_nth (fun v' => map (fun k => lookup ord v' k) (seq 0 n))). rewrite map_length, seq_length.
    rewrite Forall_forall in Hrows. symmetry. apply Hrows. apply nth_In. lia.
Qed.
End Generic.
