(* C12, part 7: independence of the choice of eigenvectors (degenerate spectra included).
   agent-c03's Proofs/EigIndep.v: two unitary decompositions of the same Hermitian matrix per segment give the same
   from-scratch control matrix.  Corollaries for the quantities of C08/C09/C12: fidelity filter function, decay
   amplitudes, infidelity and cumulant function do not depend on which valid eigendecomposition eigh returned.   *)
From Coq Require Import ZArith Reals Lra Lia List.
From FF Require Import Base.Ops Inst.RInst Base.RAlg Base.FMat Model.Numeric Model.Atomic Model.Decay Model.Cumulant
     Proofs.AtomicAlg Proofs.Atomic Proofs.EigIndep Proofs.Trapz Proofs.Decay Proofs.TraceId Proofs.InfidPos.
Import ListNotations.
Local Open Scope R_scope.

Section EigChoice.
Variable d : nat.
Variable thr : R.
Variables (om : list R) (bs ns : list MatR).
Variables (evs evs' : list (list R)) (Vs Vs' : list MatR) (nc : list (list R)) (dts : list R).
Hypothesis Hsame : same_segs d evs Vs evs' Vs'.
Let na := length ns.
Let nk := length bs.
Let no := length om.

(* the two control matrices the model computes from the two decompositions *)
Definition cm_of (e : list (list R)) (V : list MatR) : A3r :=
  control_matrix_from_scratch RO d thr e V (propagators RO d e V dts) om bs ns nc dts (times RO dts).
Let Bm := cm_of evs Vs.
Let Bm' := cm_of evs' Vs'.

Lemma cm_entries_equal a k o : (a < na)%nat -> (k < nk)%nat -> (o < no)%nat -> a3get RO Bm a k o = a3get RO Bm' a k o.
Proof.
  intros Ha Hk Ho.
  apply (cm_eig_independent d thr om bs ns (mkPiece evs Vs dts nc) (mkPiece evs' Vs' dts nc) a k o Ha Hk Ho Hsame eq_refl eq_refl).
Qed.

(* fidelity filter function *)
Theorem ff_eig_independent a b o : (a < na)%nat -> (b < na)%nat -> (o < no)%nat ->
  a3get RO (filter_function RO na nk no Bm) a b o = a3get RO (filter_function RO na nk no Bm') a b o.
Proof.
  intros Ha Hb Ho. unfold filter_function. rewrite !a3get_a3build by auto.
  apply csumn_ext. intros k Hk. rewrite !cm_entries_equal by auto. reflexivity.
Qed.

(* decay amplitudes: every entry, every option path *)
Variables (idx : list nat) (sp : spectrumR).
Hypothesis Hidx : idx_ok na idx.

Lemma Gamma_eig_independent i j k l : (i < length idx)%nat -> (j < length idx)%nat -> (k < nk)%nat -> (l < nk)%nat ->
  Gamma Bm Bm idx sp no om i j k l = Gamma Bm' Bm' idx sp no om i j k l.
Proof.
  intros Hi Hj Hk Hl. unfold Gamma. f_equal. apply trapz_w_ext. intros o Ho.
  rewrite !cm_entries_equal by (auto; apply Hidx; auto). reflexivity.
Qed.
Theorem decay_eig_independent pars use_ff pars' use_ff' i j k l :
  (i < length idx)%nat -> (j < length idx)%nat -> (is_cross sp = false -> i = j) -> (k < nk)%nat -> (l < nk)%nat ->
  dget RO (decay_amplitudes RO pars use_ff na nk no Bm Bm idx sp om) (lead_pos sp (length idx) i j) k l =
  dget RO (decay_amplitudes RO pars' use_ff' na nk no Bm' Bm' idx sp om) (lead_pos sp (length idx) i j) k l.
Proof.
  intros Hi Hj Hc Hk Hl. rewrite !decay_amplitudes_entry by auto. apply Gamma_eig_independent; auto.
Qed.
(* ... as matrices: what calculate_cumulant_function contracts with the trace tensor *)
Lemma Gamma_matrix_eig_independent i j : (i < length idx)%nat -> (j < length idx)%nat ->
  rmbuild nk nk (fun k l => Gamma Bm Bm idx sp no om i j k l) = rmbuild nk nk (fun k l => Gamma Bm' Bm' idx sp no om i j k l).
Proof.
  intros Hi Hj. unfold rmbuild. apply build_ext. intros k Hk. apply build_ext. intros l Hl.
  apply Gamma_eig_independent; auto.
Qed.
(* cumulant function (general branch and shortcut) of those decay amplitudes; the frequency shifts [Dl] are an input here *)
Theorem cumulant_eig_independent shortcut (basis : list MatR) second (Dl : RMr) i j :
  (i < length idx)%nat -> (j < length idx)%nat ->
  cumulant_function RO d shortcut nk basis second [rmbuild nk nk (fun k l => Gamma Bm Bm idx sp no om i j k l)] [Dl] =
  cumulant_function RO d shortcut nk basis second [rmbuild nk nk (fun k l => Gamma Bm' Bm' idx sp no om i j k l)] [Dl].
Proof. intros Hi Hj. rewrite (Gamma_matrix_eig_independent i j Hi Hj). reflexivity. Qed.

(* infidelity: the whole returned list *)
Theorem infidelity_eig_independent (basis : list MatR) :
  infidelity_total RO d na nk no Bm basis idx sp om = infidelity_total RO d na nk no Bm' basis idx sp om.
Proof.
  unfold infidelity_total. apply infid_of_ff_ext. intros i j o Hi Hj Ho.
  unfold infid_ff_corrected. rewrite !a3get_a3build by (auto; apply Hidx; auto).
  f_equal.
  - apply csumn_ext. intros k Hk. rewrite !cm_entries_equal by (auto; apply Hidx; auto). reflexivity.
  - f_equal. f_equal.
    + apply csumn_ext. intros k Hk. rewrite !cm_entries_equal by (auto; apply Hidx; auto). reflexivity.
    + apply csumn_ext. intros k Hk. rewrite !cm_entries_equal by (auto; apply Hidx; auto). reflexivity.
Qed.

End EigChoice.

(* the hypothesis is satisfiable on a DEGENERATE segment: H = 1 (eigenvalues 1, 1) with eigenvectors 1 or a rotation *)
Example same_segs_degenerate : same_segs 2 [[1; 1]] [exI] [[1; 1]] [exRot].
Proof. constructor. exact same_H_satisfiable. constructor. Qed.
