(* C14 -- meaning of the self-reported flags of a Basis (real instance of the model):
   isherm / isorthonorm: residual within the tolerance; istraceless: the repaired behaviour, and a
   witness on which the test of the pinned revision (before fix 74dc707) differs. *)
From Coq Require Import ZArith Reals List Lra Lia Ring Arith Bool.
From FF Require Import Base.Ops Inst.RInst Base.RAlg Model.BasisModel Proofs.BasisAlg.
Import ListNotations.
Local Open Scope R_scope.

(* ------------------------------------------------------------------ indicators over the reals *)
Lemma nz_dec x : (x = 0 /\ nz RO x = false) \/ (x <> 0 /\ nz RO x = true).
Proof.
  destruct (Req_dec x 0) as [->|H].
  - left. split; auto. unfold nz. simpl. apply Rgtb_false. rewrite Rabs_R0. lra.
  - right. split; auto. unfold nz. simpl. apply Rgtb_true. apply Rabs_pos_lt; auto.
Qed.

Lemma Rgtb_dec x y : (y < x /\ Rgtb x y = true) \/ (x <= y /\ Rgtb x y = false).
Proof. destruct (Rlt_le_dec y x). left; split; auto; apply Rgtb_true; auto. right; split; auto; apply Rgtb_false; auto. Qed.

Lemma omax_R a b : omax RO a b = Rmax a b.
Proof.
  unfold omax, o2. simpl. unfold Rmax. destruct (Rle_dec a b).
  - rewrite Rabs_left1 by lra. lra.
  - rewrite Rabs_right by lra. lra.
Qed.

Lemma cnz_ind_cases (z : Cx) : (z = 0c /\ cnz_ind RO z = 0) \/ (z <> 0c /\ cnz_ind RO z = 1).
Proof.
  destruct z as [x y]. unfold cnz_ind. rewrite omax_R. unfold ind. simpl fst; simpl snd.
  destruct (nz_dec x) as [[-> ->]|[Hx ->]]; destruct (nz_dec y) as [[-> ->]|[Hy ->]]; simpl; unfold Rmax.
  - left. split; auto. destruct (Rle_dec 0 0); lra.
  - right. split. intros E; inversion E; auto. destruct (Rle_dec 0 1); lra.
  - right. split. intros E; inversion E; auto. destruct (Rle_dec 1 0); lra.
  - right. split. intros E; inversion E; auto. destruct (Rle_dec 1 1); lra.
Qed.

Lemma cnz_ind_zero z : cnz_ind RO z = 0 <-> z = 0c.
Proof. destruct (cnz_ind_cases z) as [[? ?]|[? ?]]; split; intros; auto; try lra. contradiction. Qed.

(* ------------------------------------------------------------------ sums of 0/1 values over a list *)
Section ListSum.
Context {A : Type} (f : A -> R).
Hypothesis f01 : forall x, f x = 0 \/ f x = 1.

Lemma sumlist_zero l : Forall (fun x => f x = 0) l -> sumlist RO (map f l) = 0.
Proof. induction 1; simpl. reflexivity. rewrite H, IHForall. lra. Qed.

Lemma sumlist_app (l1 l2 : list R) : sumlist RO (l1 ++ l2) = sumlist RO l1 + sumlist RO l2.
Proof. induction l1; simpl. lra. rewrite IHl1. lra. Qed.

Lemma sumlist_one pre x post : Forall (fun y => f y = 0) pre -> Forall (fun y => f y = 0) post -> f x = 1 ->
  sumlist RO (map f (pre ++ x :: post)) = 1.
Proof. intros H1 H2 H3. rewrite map_app, sumlist_app. simpl. rewrite (sumlist_zero _ H1), (sumlist_zero _ H2), H3. lra. Qed.

Lemma sumlist_cases l :
  (sumlist RO (map f l) = 0 /\ Forall (fun x => f x = 0) l) \/
  (sumlist RO (map f l) = 1 /\ exists pre x post, l = pre ++ x :: post /\
      Forall (fun y => f y = 0) pre /\ f x = 1 /\ Forall (fun y => f y = 0) post) \/
  (2 <= sumlist RO (map f l)).
Proof.
  induction l as [|a l IH]; simpl. left; split; auto.
  destruct (f01 a) as [Ha|Ha]; rewrite Ha.
  - destruct IH as [[H1 H2]|[[H1 (pre & x & post & -> & Hp & Hx & Hq)]|H]].
    + left. split. lra. constructor; auto.
    + right; left. split. lra. exists (a :: pre), x, post. repeat split; auto.
    + right; right. lra.
  - destruct IH as [[H1 H2]|[[H1 _]|H]].
    + right; left. split. lra. exists [], a, l. repeat split; auto.
    + right; right. lra.
    + right; right. lra.
Qed.

(* weighted sum when exactly one indicator is set *)
Lemma sumlist_weighted (w : A -> R) pre x post :
  Forall (fun y => f y = 0) pre -> Forall (fun y => f y = 0) post -> f x = 1 ->
  sumlist RO (map (fun y => f y * w y) (pre ++ x :: post)) = w x.
Proof.
  intros H1 H2 H3. rewrite map_app, sumlist_app. simpl. rewrite H3.
  assert (Z : forall l, Forall (fun y => f y = 0) l -> sumlist RO (map (fun y => f y * w y) l) = 0).
  { induction 1; simpl. reflexivity. rewrite H, IHForall. lra. }
  rewrite (Z _ H1), (Z _ H2). lra.
Qed.
End ListSum.

(* ------------------------------------------------------------------ sums of "natural" values over an index range *)
Definition isN (x : R) : Prop := x = 0 \/ 1 <= x.
Lemma sumnN n (f : nat -> R) : (forall k, (k < n)%nat -> isN (f k)) ->
  isN (sumn' n f) /\ (sumn' n f = 0 -> forall k, (k < n)%nat -> f k = 0).
Proof.
  induction n; intros H. split. left; reflexivity. intros; lia.
  destruct IHn as [IH1 IH2]. intros; apply H; lia.
  change (sumn' (S n) f) with (sumn' n f + f n).
  destruct (H n ltac:(lia)) as [Hn|Hn]; destruct IH1 as [Hs|Hs].
  - split. left; lra. intros _ k Hk. destruct (Nat.eq_dec k n). subst; auto. apply IH2; auto; lia.
  - split. right; lra. intros; lra.
  - split. right; lra. intros; lra.
  - split. right; lra. intros; lra.
Qed.
Lemma sumn_all_zero n (f : nat -> R) : (forall k, (k < n)%nat -> f k = 0) -> sumn' n f = 0.
Proof. intros H. rewrite (sumn_ext n f (fun _ => 0)) by auto. apply sumn_0. Qed.
Lemma isN_01 x : x = 0 \/ x = 1 -> isN x.
Proof. intros [->| ->]; [left|right]; lra. Qed.
Lemma cnz_ind_N z : isN (cnz_ind RO z).
Proof. apply isN_01. destruct (cnz_ind_cases z) as [[_ ->]|[_ ->]]; auto. Qed.

(* ------------------------------------------------------------------ istraceless *)
Section Traceless.
Variable d : nat.

(* cleaned trace (remove_float_errors(trace, d**2)) is non-zero *)
Definition tr_nonzero (Cm : Mat) : Prop := tr_clean RO d Cm <> 0c.
(* proportional to the identity as the code tests it: no non-zero off-diagonal entry, all diagonal
   entries equal to elem[0,0] (exact comparisons) *)
Definition is_scalar (Cm : Mat) : Prop :=
  (forall a b, (a < d)%nat -> (b < d)%nat -> a <> b -> mget RO Cm a b = 0c) /\
  (forall a, (a < d)%nat -> mget RO Cm a a = mget RO Cm 0 0).

Lemma offdiag_count_N Cm : isN (offdiag_count RO d Cm) /\
  (offdiag_count RO d Cm = 0 <-> forall a b, (a < d)%nat -> (b < d)%nat -> a <> b -> mget RO Cm a b = 0c).
Proof.
  unfold offdiag_count.
  assert (Hin : forall a, (a < d)%nat -> forall b, (b < d)%nat ->
            isN (if (a =? b)%nat then o0 RO else cnz_ind RO (mget RO Cm a b))).
  { intros a _ b _. destruct (a =? b)%nat. left; reflexivity. apply cnz_ind_N. }
  assert (Hrow : forall a, (a < d)%nat ->
            isN (sumn' d (fun b => if (a =? b)%nat then o0 RO else cnz_ind RO (mget RO Cm a b)))).
  { intros a Ha. apply sumnN. apply Hin; auto. }
  split. apply sumnN; auto.
  split.
  - intros H a b Ha Hb Hab.
    destruct (sumnN d _ Hrow) as [_ Hz]. specialize (Hz H a Ha).
    destruct (sumnN d _ (Hin a Ha)) as [_ Hz2]. specialize (Hz2 Hz b Hb).
    destruct (Nat.eqb_spec a b); try contradiction. apply cnz_ind_zero; auto.
  - intros H. apply sumn_all_zero. intros a Ha. apply sumn_all_zero. intros b Hb.
    destruct (Nat.eqb_spec a b). reflexivity. apply cnz_ind_zero. apply H; auto.
Qed.

Lemma diag_unequal_N Cm : isN (diag_unequal_count RO d Cm) /\
  (diag_unequal_count RO d Cm = 0 <-> forall a, (a < d)%nat -> mget RO Cm a a = mget RO Cm 0 0).
Proof.
  unfold diag_unequal_count.
  assert (Hin : forall a, (a < d)%nat -> isN (cnz_ind RO (csub RO (mget RO Cm a a) (mget RO Cm 0 0)))).
  { intros; apply cnz_ind_N. }
  split. apply sumnN; auto. split.
  - intros H a Ha. destruct (sumnN d _ Hin) as [_ Hz]. specialize (Hz H a Ha).
    apply cnz_ind_zero in Hz. destruct (mget RO Cm a a), (mget RO Cm 0 0). unfold csub, c0 in Hz. simpl in Hz.
    inversion Hz. f_equal; lra.
  - intros H. apply sumn_all_zero. intros a Ha. apply cnz_ind_zero. rewrite H by auto.
    apply c_eq; csimp; ring.
Qed.

Lemma bad_small_scalar Cm :
  offdiag_count RO d Cm + diag_unequal_count RO d Cm <= 1 / 2 <-> is_scalar Cm.
Proof.
  destruct (offdiag_count_N Cm) as [[H1|H1] E1]; destruct (diag_unequal_N Cm) as [[H2|H2] E2]; unfold is_scalar.
  - split. intros _. split; [apply E1|apply E2]; auto. intros; lra.
  - split. intros; lra. intros [_ Hd]. apply E2 in Hd. lra.
  - split. intros; lra. intros [Ho _]. apply E1 in Ho. lra.
  - split. intros; lra. intros [Ho _]. apply E1 in Ho. lra.
Qed.

Definition tind (Cm : Mat) : R := cnz_ind RO (tr_clean RO d Cm).
Lemma tind01 Cm : tind Cm = 0 \/ tind Cm = 1.
Proof. unfold tind. destruct (cnz_ind_cases (tr_clean RO d Cm)) as [[_ ->]|[_ ->]]; auto. Qed.
Lemma tind_zero Cm : tind Cm = 0 <-> ~ tr_nonzero Cm.
Proof.
  unfold tind, tr_nonzero. destruct (cnz_ind_cases (tr_clean RO d Cm)) as [[Hz Hv]|[Hz Hv]]; rewrite Hv; split; intros H.
  - intros H'. apply H'. exact Hz.
  - reflexivity.
  - lra.
  - exfalso. apply H. exact Hz.
Qed.
Lemma tind_one Cm : tind Cm = 1 <-> tr_nonzero Cm.
Proof.
  unfold tind, tr_nonzero. destruct (cnz_ind_cases (tr_clean RO d Cm)) as [[Hz Hv]|[Hz Hv]]; rewrite Hv; split; intros H.
  - lra.
  - contradiction.
  - exact Hz.
  - reflexivity.
Qed.

Lemma Forall_tind l : Forall (fun Cm => tind Cm = 0) l <-> Forall (fun Cm => ~ tr_nonzero Cm) l.
Proof.
  split; intros H; induction H; constructor; auto.
  apply (proj1 (tind_zero x)); auto. apply (proj2 (tind_zero x)); auto.
Qed.

(* the repaired behaviour: traceless iff all (cleaned) traces vanish, or exactly one element has a
   non-zero trace and that element has constant diagonal and NO non-zero off-diagonal entry *)
Theorem istraceless_meaning bs :
  istraceless_viol RO d bs = false <->
  Forall (fun Cm => ~ tr_nonzero Cm) bs \/
  (exists pre Cm post, bs = pre ++ Cm :: post /\
     Forall (fun X => ~ tr_nonzero X) pre /\ Forall (fun X => ~ tr_nonzero X) post /\
     tr_nonzero Cm /\ is_scalar Cm).
Proof.
  unfold istraceless_viol, istraceless_viol_val, n_nonzero_traces, bad_count_nonzero_elems.
  change (fun Cm => cnz_ind RO (tr_clean RO d Cm)) with tind.
  change (fun Cm => omul RO (cnz_ind RO (tr_clean RO d Cm)) (oadd RO (offdiag_count RO d Cm) (diag_unequal_count RO d Cm)))
    with (fun Cm => tind Cm * (offdiag_count RO d Cm + diag_unequal_count RO d Cm)).
  simpl ogt. simpl oite. simpl o1. simpl o0. simpl oadd. unfold half. simpl odiv. unfold o2. simpl oadd. simpl o1.
  replace (1 / (1 + 1)) with (1 / 2) by lra. replace (1 + 1 / 2) with (3 / 2) by lra.
  destruct (sumlist_cases tind tind01 bs) as [[Hs Hall]|[[Hs (pre & Cm & post & Hbs & Hp & Hx & Hq)]|Hs]].
  - rewrite Hs.
    destruct (Rgtb_dec 0 (3/2)) as [[? ->]|[? ->]]; try lra.
    destruct (Rgtb_dec 0 (1/2)) as [[? ->]|[? ->]]; try lra.
    split. intros _. left. apply Forall_tind; auto. intros _. apply Rgtb_false. lra.
  - rewrite Hs.
    destruct (Rgtb_dec 1 (3/2)) as [[? ->]|[? ->]]; try lra.
    destruct (Rgtb_dec 1 (1/2)) as [[? ->]|[? ->]]; try lra.
    rewrite Hbs at 1. rewrite (sumlist_weighted tind _ pre Cm post Hp Hq Hx).
    destruct (Rgtb_dec (offdiag_count RO d Cm + diag_unequal_count RO d Cm) (1/2)) as [[Hw ->]|[Hw ->]].
    + split. intros HH. apply Rgtb_false in HH. lra.
      intros [Hall|(pre' & C' & post' & Hbs' & Hp' & Hq' & Hx' & Hsc')].
      * apply Forall_tind in Hall. rewrite (sumlist_zero tind bs Hall) in Hs. lra.
      * exfalso. (* the decomposition is unique: the sum is 1 either way, and the scalar element would have small count *)
        assert (Hw' : offdiag_count RO d C' + diag_unequal_count RO d C' <= 1 / 2) by (apply bad_small_scalar; auto).
        assert (Heq : sumlist RO (map (fun Cm => tind Cm * (offdiag_count RO d Cm + diag_unequal_count RO d Cm)) bs) =
                      offdiag_count RO d C' + diag_unequal_count RO d C').
        { rewrite Hbs'. apply (sumlist_weighted tind (fun Cm => offdiag_count RO d Cm + diag_unequal_count RO d Cm)). apply Forall_tind; auto. apply Forall_tind; auto. apply tind_one; auto. }
        rewrite Hbs in Heq at 1. rewrite (sumlist_weighted tind _ pre Cm post Hp Hq Hx) in Heq. lra.
    + split. intros _. right. exists pre, Cm, post. repeat split; auto.
      apply Forall_tind; auto. apply Forall_tind; auto. apply tind_one; auto.
      apply bad_small_scalar; auto. apply bad_small_scalar; auto.
      intros _. apply Rgtb_false. lra.
  - destruct (Rgtb_dec (sumlist RO (map tind bs)) (3/2)) as [[? ->]|[? ->]]; try lra.
    split. intros HH. apply Rgtb_false in HH. lra.
    intros [Hall|(pre' & C' & post' & Hbs' & Hp' & Hq' & Hx' & Hsc')].
    + apply Forall_tind in Hall. rewrite (sumlist_zero tind bs Hall) in Hs. lra.
    + rewrite Hbs' in Hs. rewrite (sumlist_one tind pre' C' post') in Hs. lra.
      apply Forall_tind; auto. apply Forall_tind; auto. apply tind_one; auto.
Qed.
End Traceless.

(* ------------------------------------------------------------------ the pre-fix test differs *)
(* (no Coq-Interval tactic here: importing Interval.Tactic makes coqchk of this cone very slow) *)
Lemma eps_small : 0 < powerRZ 2 (-52) /\ powerRZ 2 (-52) <= / 8.
Proof.
  assert (H8 : 8 <= 2 ^ 52).
  { change 52%nat with (3 + 49)%nat. rewrite pow_add. assert (1 <= 2 ^ 49) by (apply pow_R1_Rle; lra). simpl pow at 1. nra. }
  assert (Hp : 0 < 2 ^ 52) by lra.
  change (powerRZ 2 (-52)) with (/ 2 ^ Pos.to_nat 52). replace (Pos.to_nat 52) with 52%nat by reflexivity.
  split. apply Rinv_0_lt_compat; auto. apply Rinv_le_contravar; lra.
Qed.

Definition witC : Mat (T:=R) := [[(1, 0); (5, 0)]; [(0, 0); (1, 0)]].
Definition witX : Mat (T:=R) := [[(0, 0); (1, 0)]; [(1, 0); (0, 0)]].

Lemma atol_trace2_small : atol_trace RO 2 < 1.
Proof.
  unfold atol_trace, oeps, onat, oZ. simpl. unfold Rdya. simpl Z.of_nat. destruct eps_small as [H0 H1].
  change (powerRZ 2 0) with 1. lra.
Qed.
Lemma atol_trace2_nonneg : 0 <= atol_trace RO 2.
Proof.
  unfold atol_trace, oeps, onat, oZ. simpl. unfold Rdya. simpl Z.of_nat. destruct eps_small as [H0 H1].
  change (powerRZ 2 0) with 1. lra.
Qed.

Lemma witC_trace : tr_clean RO 2 witC = (2, 0).
Proof.
  unfold tr_clean. pose proof atol_trace2_small as HA1. pose proof atol_trace2_nonneg as HA0.
  revert HA1 HA0. generalize (atol_trace RO 2). intros A HA1 HA0.
  unfold crfe, rfe, mtrace, witC. simpl csumn. unfold mget. simpl nth. simpl fst. simpl snd.
  simpl oadd. simpl oabs. simpl ogt. simpl oite. simpl o0.
  replace (0 + 1 + 1) with 2 by ring. replace (0 + 0 + 0) with 0 by ring.
  destruct (Rgtb_dec (Rabs 2) A) as [[_ ->]|[H _]].
  2:{ rewrite Rabs_right in H by lra. lra. }
  destruct (Rgtb_dec (Rabs 0) A) as [[H _]|[_ ->]].
  rewrite Rabs_R0 in H. lra. reflexivity.
Qed.
Lemma witX_trace : tr_clean RO 2 witX = 0c.
Proof.
  unfold tr_clean. pose proof atol_trace2_small as HA1. pose proof atol_trace2_nonneg as HA0.
  revert HA1 HA0. generalize (atol_trace RO 2). intros A HA1 HA0.
  unfold crfe, rfe, mtrace, witX. simpl csumn. unfold mget. simpl nth. simpl fst. simpl snd.
  simpl oadd. simpl oabs. simpl ogt. simpl oite. simpl o0.
  replace (0 + 0 + 0) with 0 by ring.
  destruct (Rgtb_dec (Rabs 0) A) as [[H _]|[_ ->]].
  rewrite Rabs_R0 in H. lra. reflexivity.
Qed.

Lemma witC_nonzero : tr_nonzero 2 witC.
Proof. unfold tr_nonzero. rewrite witC_trace. intros E. inversion E. lra. Qed.
Lemma witX_zero : ~ tr_nonzero 2 witX.
Proof. unfold tr_nonzero. rewrite witX_trace. intros E. apply E. reflexivity. Qed.

(* the repaired test: [[1,5],[0,1]] together with sigma_x is NOT traceless *)
Lemma wit_repaired : istraceless_viol RO 2 [witC; witX] = true.
Proof.
  destruct (istraceless_viol RO 2 [witC; witX]) eqn:E; auto. exfalso.
  apply istraceless_meaning in E. destruct E as [Hall|(pre & Cm & post & Hbs & Hp & Hq & Hx & [Hoff _])].
  - inversion Hall; subst. apply H1. apply witC_nonzero.
  - destruct pre as [|p0 pre].
    + simpl in Hbs. inversion Hbs; subst. specialize (Hoff 0%nat 1%nat ltac:(lia) ltac:(lia) ltac:(lia)).
      unfold mget, witC in Hoff. simpl in Hoff. inversion Hoff. lra.
    + simpl in Hbs. inversion Hbs; subst. apply (Forall_inv Hp). apply witC_nonzero.
Qed.

(* the test of the pinned revision (index values of the non-zero off-diagonal entries) accepts it *)
Lemma wit_prefix : istraceless_viol_prefix RO 2 [witC; witX] = false.
Proof.
  unfold istraceless_viol_prefix, istraceless_viol_val_prefix, n_nonzero_traces, bad_count_prefix.
  cbn [map sumlist].
  assert (H1 : cnz_ind RO (tr_clean RO 2 witC) = 1) by (apply (tind_one 2 witC), witC_nonzero).
  assert (H0 : cnz_ind RO (tr_clean RO 2 witX) = 0) by (apply (tind_zero 2 witX), witX_zero).
  rewrite H1, H0.
  assert (Hp : prefix_offdiag_any RO 2 witC = 0).
  { unfold prefix_offdiag_any, offdiag_flat, witC. simpl.
    destruct (Rgtb_dec (Rabs 0) 0) as [[H _]|[_ ->]]. rewrite Rabs_R0 in H; lra.
    replace (0 - 0) with 0 by ring. rewrite Rabs_R0. lra. }
  assert (Hd : diag_unequal_count RO 2 witC = 0).
  { unfold diag_unequal_count, witC. simpl sumn. unfold mget. simpl nth. unfold csub. simpl fst. simpl snd. simpl osub.
    replace (1 - 1) with 0 by ring. replace (0 - 0) with 0 by ring.
    destruct (Rgtb_dec (Rabs 0) 0) as [[H _]|[_ ->]]. rewrite Rabs_R0 in H; lra.
    replace (0 - 0) with 0 by ring. rewrite Rabs_R0. lra. }
  rewrite Hp, Hd. simpl ogt. simpl oite. simpl oadd. simpl omul. simpl o1. simpl o0. unfold half, o2. simpl odiv. simpl oadd. simpl o1.
  replace (1 + (0 + 0)) with 1 by ring. replace (1 * (0 + 0) + (0 * (prefix_offdiag_any RO 2 witX + diag_unequal_count RO 2 witX) + 0)) with 0 by ring.
  destruct (Rgtb_dec 1 (1 + 1 / (1 + 1))) as [[? _]|[_ ->]]. lra.
  destruct (Rgtb_dec 1 (1 / (1 + 1))) as [[_ ->]|[? _]]. 2: lra.
  destruct (Rgtb_dec 0 (1 / (1 + 1))) as [[? _]|[_ ->]]. lra.
  apply Rgtb_false. lra.
Qed.

Theorem istraceless_prefix_refuted :
  exists bs : list (Mat (T:=R)), istraceless_viol RO 2 bs = true /\ istraceless_viol_prefix RO 2 bs = false.
Proof. exists [witC; witX]. split. apply wit_repaired. apply wit_prefix. Qed.

(* ------------------------------------------------------------------ isherm / isorthonorm *)
Lemma maxlist_le t l : 0 <= t -> (maxlist RO l <= t <-> Forall (fun x => x <= t) l).
Proof.
  intros Ht. induction l.
  - simpl. split; auto.
  - change (maxlist RO (a :: l)) with (omax RO a (maxlist RO l)). rewrite omax_R. split.
    + intros H. constructor. eapply Rle_trans; [apply Rmax_l|exact H]. apply IHl. eapply Rle_trans; [apply Rmax_r|exact H].
    + intros H. inversion H; subst. apply Rmax_lub; auto. apply IHl; auto.
Qed.

Lemma Forall_build {A} (P : A -> Prop) n (f : nat -> A) : Forall P (build n f) <-> forall i, (i < n)%nat -> P (f i).
Proof.
  unfold build. rewrite Forall_map, Forall_forall. split.
  - intros H i Hi. apply H. apply in_seq. lia.
  - intros H i Hi. apply in_seq in Hi. apply H. lia.
Qed.

Lemma oeps_nonneg : 0 <= oeps RO.
Proof. unfold oeps. simpl. unfold Rdya. destruct eps_small as [H0 _]. lra. Qed.
Lemma onat_nonneg n : 0 <= onat RO n.
Proof. unfold onat, oZ. simpl. unfold Rdya. simpl powerRZ. rewrite Rmult_1_r, <- INR_IZR_INZ. apply pos_INR. Qed.
Lemma atol_basis_nonneg d : 0 <= atol_basis RO d.
Proof. unfold atol_basis. simpl omul. apply Rmult_le_pos. apply oeps_nonneg. apply onat_nonneg. Qed.
Lemma atol_orth_nonneg d : 0 <= atol_orth RO d.
Proof. unfold atol_orth. simpl omul. apply Rmult_le_pos. apply oeps_nonneg. apply onat_nonneg. Qed.

(* isherm is True iff every entry of C^dagger - C is within eps d^3 in modulus *)
Theorem isherm_meaning d bs :
  isherm_viol RO d bs = false <->
  forall Cm, In Cm bs -> forall a b, (a < d)%nat -> (b < d)%nat ->
    cabs RO (csub' (cconj' (mget RO Cm b a)) (mget RO Cm a b)) <= atol_basis RO d.
Proof.
  unfold isherm_viol. simpl ogt. rewrite Rgtb_false. unfold herm_residual.
  rewrite (maxlist_le _ _ (atol_basis_nonneg d)).
  rewrite Forall_concat, Forall_map, Forall_forall.
  split.
  - intros H Cm HC a b Ha Hb. specialize (H Cm HC). rewrite Forall_concat, Forall_build in H.
    specialize (H a Ha). rewrite Forall_build in H. apply H; auto.
  - intros H Cm HC. rewrite Forall_concat, Forall_build. intros a Ha. rewrite Forall_build. intros b Hb. apply H; auto.
Qed.

(* isorthonorm is True iff there is a single element, or every entry of the Gram matrix
   <C_i, C_j> - delta_ij is within eps (d^2)^3 in modulus *)
Theorem isorthonorm_meaning d bs :
  isorthonorm_viol RO d bs = false <->
  length bs = 1%nat \/
  forall i j, (i < length bs)%nat -> (j < length bs)%nat ->
    cabs RO (csub' (gram RO d bs i j) (if (i =? j)%nat then 1c else 0c)) <= atol_orth RO d.
Proof.
  unfold isorthonorm_viol. simpl ogt. rewrite Rgtb_false.
  destruct (Nat.eqb_spec (length bs) 1) as [E|E].
  - split. auto. intros _. simpl. apply atol_orth_nonneg.
  - unfold orth_residual. rewrite (maxlist_le _ _ (atol_orth_nonneg d)).
    rewrite Forall_concat, Forall_build. split.
    + intros H. right. intros i j Hi Hj. specialize (H i Hi). rewrite Forall_build in H. apply H; auto.
    + intros [H|H]. contradiction. intros i Hi. rewrite Forall_build. intros j Hj. apply H; auto.
Qed.

(* remove_float_errors / tidyup change a component by at most the tolerance *)
Lemma rfe_close atol x : 0 <= atol -> Rabs (rfe RO atol x - x) <= atol.
Proof.
  intros Ha. unfold rfe. simpl. destruct (Rgtb_dec (Rabs x) atol) as [[H ->]|[H ->]].
  - replace (x - x) with 0 by ring. rewrite Rabs_R0. auto.
  - replace (0 - x) with (- x) by ring. rewrite Rabs_Ropp. auto.
Qed.
Lemma rfe_fix atol x : atol < Rabs x \/ x = 0 -> rfe RO atol x = x.
Proof.
  intros [H| ->]; unfold rfe; simpl.
  - apply Rgtb_true in H. rewrite H. reflexivity.
  - destruct (Rgtb (Rabs 0) atol); reflexivity.
Qed.
