(* The instance of the bookkeeping model evaluated by the correspondence check (operators = matrices of
   normalised dyadics, Corr/C03Obs.v) satisfies the hypothesis of the theorems of Proofs/Concat.v:
   its operator comparison decides equality.                                                       *)
From Coq Require Import ZArith List Bool.
From FF Require Import Model.Concat Corr.C03Obs Proofs.Concat.
Import ListNotations.

Lemma list_eqb_spec {A} (e : A -> A -> bool) : (forall a b, reflect (a = b) (e a b)) ->
  forall l1 l2, reflect (l1 = l2) (list_eqb e l1 l2).
Proof.
  intros He. induction l1 as [|x l1 IH]; intros [|y l2]; simpl; try (constructor; congruence).
  destruct (He x y); simpl; [|constructor; congruence].
  destruct (IH l2); constructor; congruence.
Qed.
Lemma dy_eqb_spec a b : reflect (a = b) (dy_eqb a b).
Proof.
  destruct a as [m e], b as [m' e']. unfold dy_eqb; simpl.
  destruct (Z.eqb_spec m m'); simpl; [|constructor; congruence].
  destruct (Z.eqb_spec e e'); constructor; congruence.
Qed.
Lemma cdy_eqb_spec a b : reflect (a = b) (cdy_eqb a b).
Proof.
  destruct a as [x y], b as [x' y']. unfold cdy_eqb; simpl.
  destruct (dy_eqb_spec x x'); simpl; [|constructor; congruence].
  destruct (dy_eqb_spec y y'); constructor; congruence.
Qed.
Lemma op_eqb_spec a b : reflect (a = b) (op_eqb a b).
Proof. apply list_eqb_spec. apply list_eqb_spec. apply cdy_eqb_spec. Qed.

(* the denotation theorem for the evaluated instance *)
Definition bk_denote := concat_hamiltonian_denote opmat dyad op_eqb dy_eqb (0, 0)%Z op_eqb_spec.
