(* C12, part 1: basis independence.  Every control-matrix entry is tr(M C_k) with an operator
   M that does not depend on the basis; hence (Parseval) the fidelity filter function
   sum_k conj(B_ak) B_bk = tr(M_b M_a^dagger) is the same for every complete orthonormal
   Hermitian basis.                                                                        *)
From Coq Require Import ZArith Reals Lra Lia List Setoid Morphisms.
From FF Require Import Base.Ops Inst.RInst Base.RAlg Base.FMat Model.Numeric Proofs.CMBase.
Import ListNotations.
Local Open Scope R_scope.

Definition rcx (x : R) : Cx := (x, 0).

Section TraceForm.
Variable d : nat.

(* sum_mn X_mn Y_nm = tr(X Y) *)
Lemma double_sum_ftr (X Y : fmat) :
  csumn' d (fun m => csumn' d (fun n => cmul' (X m n) (Y n m))) = ftr d (fmul d X Y).
Proof. reflexivity. Qed.

(* the operator of one segment: e^{i w t_g} s  W (NT o I) W^dagger,  W = Q^dagger V *)
Definition Mstep (I : R -> R -> R -> R -> Cx) (ev : list R) (V Q : MatR) (tg dt w s : R) (N : MatR) : fmat :=
  let Wf := toF (mmul RO d (madj RO d Q) V) in
  let X : fmat := fun m n => cmul' (toF (transform_by_unitary RO d V N) m n) (I w (vg RO ev m) (vg RO ev n) dt) in
  fscal (cmul' (cexp' (w * tg)) (rcx s)) (fmul d Wf (fmul d X (fadj Wf))).

Lemma step_entry_trace_form I ev V Q tg dt w s N Cm :
  step_entry d I ev V Q tg dt w s N Cm = ftr d (fmul d (Mstep I ev V Q tg dt w s N) (toF Cm)).
Proof.
  unfold step_entry, Mstep. cbv zeta.
  set (Wm := mmul RO d (madj RO d Q) V).
  set (X := fun m n : nat => cmul' (toF (transform_by_unitary RO d V N) m n) (I w (vg RO ev m) (vg RO ev n) dt)).
  rewrite fmul_fscal_l, ftr_fscal.
  transitivity (cmul' (cmul' (cexp' (w * tg)) (rcx s)) (ftr d (fmul d X (toF (transform_by_unitary RO d Wm Cm))))).
  { unfold ftr, fmul, X, toF, rcx. generalize (csumn' d (fun m => csumn' d (fun n =>
      cmul' (cmul' (mget RO (transform_by_unitary RO d V N) m n) (I w (vg RO ev m) (vg RO ev n) dt))
            (mget RO (transform_by_unitary RO d Wm Cm) n m)))).
    intros z. destruct z, (cexp' (w * tg)). apply c_eq; csimp; ring. }
  f_equal. rewrite toF_transform_by_unitary.
  (* tr( X (W^ (C W)) ) = tr( (W (X W^)) C ) *)
  rewrite <- !fmul_assoc. rewrite (ftr_cyclic d (toF Wm)). rewrite <- !fmul_assoc. reflexivity.
Qed.

(* sum over the segments *)
Fixpoint Msegs (I : R -> R -> R -> R -> Cx) (segs : list seg) (Q : MatR) (t w : R) (N : MatR) : fmat :=
  match segs with
  | [] => fzero
  | (ev, V, dt, s) :: r =>
      fadd (Mstep I ev V Q t dt w s N) (Msegs I r (mmul RO d (segment_propagator RO d ev V dt) Q) (t + dt) w N)
  end.
Lemma ftr_fzero_mul A : ftr d (fmul d fzero A) = 0c.
Proof. unfold ftr, fmul, fzero. rewrite (csumn_ext d _ (fun _ => 0c)). apply csumn_0.
  intros i _. rewrite (csumn_ext d _ (fun _ => 0c)). apply csumn_0. intros; ring. Qed.
Lemma entry_segs_trace_form I w N Cm : forall segs Q t,
  entry_segs d I segs Q t w N Cm = ftr d (fmul d (Msegs I segs Q t w N) (toF Cm)).
Proof.
  induction segs as [|[[[ev V] dt] s] r IH]; intros Q t; simpl.
  - symmetry. apply ftr_fzero_mul.
  - rewrite IH, step_entry_trace_form. rewrite fmul_fadd_l, ftr_add. reflexivity.
Qed.

(* the operator behind row j, frequency o of the control matrix *)
Definition Mop (thr : R) (evs : list (list R)) (Vs : list MatR) (om : list R) (ns : list MatR)
           (nc : list (list R)) (dts : list R) (j o : nat) : fmat :=
  Msegs (foi_entry RO thr) (zip4 evs Vs dts (sens_row (length dts) nc j)) (mid RO d) 0 (vg RO om o) (nthm ns j).

Theorem cm_entry_trace_form thr evs Vs om bs ns nc dts j k o :
  (j < length ns)%nat -> (k < length bs)%nat -> (o < length om)%nat ->
  a3get RO (control_matrix_from_scratch RO d thr evs Vs (propagators RO d evs Vs dts) om bs ns nc dts (times RO dts)) j k o =
  ftr d (fmul d (Mop thr evs Vs om ns nc dts j o) (toF (nthm bs k))).
Proof. intros. rewrite cm_entry_formula by auto. apply entry_segs_trace_form. Qed.

(* ---------- Parseval: the fidelity filter function ---------- *)
Theorem parseval_ff thr evs Vs om bs ns nc dts a b o :
  let n := length bs in let Cb := fun k => toF (nthm bs k) in
  basis_herm d n Cb -> basis_complete d n Cb ->
  (a < length ns)%nat -> (b < length ns)%nat -> (o < length om)%nat ->
  a3get RO (filter_function RO (length ns) n (length om)
     (control_matrix_from_scratch RO d thr evs Vs (propagators RO d evs Vs dts) om bs ns nc dts (times RO dts))) a b o =
  ftr d (fmul d (Mop thr evs Vs om ns nc dts b o) (fadj (Mop thr evs Vs om ns nc dts a o))).
Proof.
  intros n Cb Hherm Hcomp Ha Hb Ho. unfold filter_function.
  rewrite a3get_a3build by auto.
  rewrite <- (parseval_tr d n Cb Hcomp). apply csumn_ext. intros k Hk.
  rewrite !cm_entry_trace_form by auto.
  rewrite (ftr_mul_conj d _ _ (Hherm k Hk)). unfold Cb. ring.
Qed.

(* parseval: same pulse, two complete orthonormal Hermitian bases => same fidelity filter function *)
Theorem ff_basis_independent thr evs Vs om bs1 bs2 ns nc dts a b o :
  basis_herm d (length bs1) (fun k => toF (nthm bs1 k)) -> basis_complete d (length bs1) (fun k => toF (nthm bs1 k)) ->
  basis_herm d (length bs2) (fun k => toF (nthm bs2 k)) -> basis_complete d (length bs2) (fun k => toF (nthm bs2 k)) ->
  (a < length ns)%nat -> (b < length ns)%nat -> (o < length om)%nat ->
  a3get RO (filter_function RO (length ns) (length bs1) (length om)
     (control_matrix_from_scratch RO d thr evs Vs (propagators RO d evs Vs dts) om bs1 ns nc dts (times RO dts))) a b o =
  a3get RO (filter_function RO (length ns) (length bs2) (length om)
     (control_matrix_from_scratch RO d thr evs Vs (propagators RO d evs Vs dts) om bs2 ns nc dts (times RO dts))) a b o.
Proof.
  intros H1 C1 H2 C2 Ha Hb Ho.
  rewrite (parseval_ff thr evs Vs om bs1) by auto.
  rewrite (parseval_ff thr evs Vs om bs2) by auto. reflexivity.
Qed.

End TraceForm.
