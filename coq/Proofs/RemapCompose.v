(* C06: record-level composition.  remap (remap p o1 m1) o2 m2  and  remap p (o1[o2[.]]) (m2 o m1)
   agree on every field and every cache slot, provided the cache of p is "closed": whenever omega and
   the Liouville propagator are cached (Pauli basis), so is one of total phases / filter function /
   control matrix (true for every state the cache_* methods produce; without it the two-step remap
   merely drops the Liouville propagator -- see docs/notes/C06.md).                           *)
From Coq Require Import String ZArith Reals List Lra Lia Arith Bool Permutation Sorted.
From FF Require Import Base.Ops Inst.RInst Base.RAlg Spec.Kron2 Spec.DigitPerm Spec.StrSort
     Model.Numeric Model.Remap Proofs.RemapIdx Proofs.RemapCov Proofs.Remap.
Import ListNotations.
Local Open Scope nat_scope.

(* ---------- permutations: inverse of a composition ---------- *)
Lemma sel_seq_l n o : (forall k, In k o -> k < n) -> sel 0 (seq 0 n) o = o.
Proof.
  intros H. unfold sel. rewrite <- (map_id o) at 2. apply map_ext_in. intros k Hk. apply seq_nth. auto.
Qed.
Lemma inv_unique n x y : is_perm n x -> is_perm n y -> sel 0 x y = seq 0 n -> y = inv_order x.
Proof.
  intros Hx Hy E. pose proof (is_perm_length _ _ Hx) as Lx.
  assert (E2 : sel 0 (inv_order x) (sel 0 x y) = sel 0 (sel 0 (inv_order x) x) y).
  { symmetry. apply sel_sel. intros k Hk. rewrite Lx. eapply is_perm_lt; eauto. }
  rewrite E in E2. rewrite (sel_inv_order n x Hx) in E2.
  rewrite sel_seq in E2 by (rewrite inv_order_length; auto).
  rewrite sel_seq_l in E2 by (intros; eapply is_perm_lt; eauto). auto.
Qed.
Lemma inv_order_sel n a b : is_perm n a -> is_perm n b -> inv_order (sel 0 a b) = sel 0 (inv_order b) (inv_order a).
Proof.
  intros Ha Hb. symmetry. apply (inv_unique n).
  - apply sel_perm_comp; auto.
  - apply sel_perm_comp; auto using inv_order_perm.
  - pose proof (is_perm_length _ _ Ha) as La. pose proof (is_perm_length _ _ Hb) as Lb.
    pose proof (inv_order_perm n a Ha) as Hia. pose proof (inv_order_perm n b Hb) as Hib.
    (* (a.b).(b^-1 . a^-1) = a.(b.b^-1).a^-1 = id *)
    rewrite (sel_sel 0 a b) by (intros k Hk; rewrite Lb; eapply is_perm_lt; [apply (sel_perm_comp n _ _ Hib Hia)|auto]).
    rewrite <- (sel_sel 0 b (inv_order b) (inv_order a)) by (intros k Hk; rewrite inv_order_length, Lb; apply (is_perm_lt n (inv_order a) k Hia Hk)).
    rewrite (sel_order_inv n b Hb). rewrite sel_seq_l by (intros k Hk; apply (is_perm_lt n (inv_order a) k Hia Hk)).
    apply sel_order_inv; auto.
Qed.
Lemma remap_pauli_sel N o1 o2 : is_perm N o1 -> is_perm N o2 ->
  remap_pauli N (sel 0 o1 o2) = sel 0 (remap_pauli N o2) (remap_pauli N o1).
Proof.
  intros H1 H2. apply (nth_ext _ _ 0 0). rewrite sel_length, !remap_pauli_length. reflexivity.
  intros k Hk. rewrite remap_pauli_length in Hk.
  rewrite nth_sel by (rewrite remap_pauli_length; auto). symmetry. apply remap_pauli_compose; auto.
Qed.

(* ---------- gather forms of the scatter assignments ---------- *)
Definition gcols {X} (d : X) (p : list nat) (A : list (list X)) : list (list X) := map (fun row => sel d row p) A.
Lemma gcols_arr {X} (d : X) n1 n2 p (A : list (list X)) : is_arr n1 n2 A -> length p = n2 -> is_arr n1 n2 (gcols d p A).
Proof.
  intros [L Fa] Lp. split. unfold gcols. rewrite map_length; auto.
  unfold gcols. apply Forall_forall. intros row H. apply in_map_iff in H. destruct H as [r0 [<- _]]. rewrite sel_length. auto.
Qed.
Lemma gcols_comp {X} (d : X) n1 n2 p1 p2 (A : list (list X)) : is_arr n1 n2 A -> (forall k, In k p2 -> k < length p1) ->
  gcols d p2 (gcols d p1 A) = gcols d (sel 0 p1 p2) A.
Proof.
  intros HA Hp. unfold gcols. rewrite map_map. apply map_ext. intros row. apply sel_sel. auto.
Qed.
Lemma sel_arr {X} n1 n2 idx (A : list (list X)) : is_arr n1 n2 A -> is_perm n1 idx -> is_arr n1 n2 (sel [] A idx).
Proof.
  intros [L Fa] Hp. split. rewrite sel_length. eapply is_perm_length; eauto.
  apply Forall_forall. intros row H. unfold sel in H. apply in_map_iff in H. destruct H as [k [<- Hk]].
  rewrite Forall_forall in Fa. apply Fa, nth_In. rewrite L. eapply is_perm_lt; eauto.
Qed.
Lemma sel_gcols {X} (d : X) p idx (A : list (list X)) : (forall k, In k idx -> k < length A) ->
  sel [] (gcols d p A) idx = gcols d p (sel [] A idx).
Proof.
  intros H. unfold gcols. apply (sel_map (fun row => sel d row p) [] []). auto.
Qed.

Lemma scatter_cm_gather na K sigma perm (Bm : list (list (list Cx))) :
  is_perm na sigma -> is_perm K perm -> is_arr na K Bm ->
  scatter_cm sigma perm Bm = sel [] (gcols [] (inv_order perm) Bm) (inv_order sigma).
Proof.
  intros Hs Hp [LB FB]. unfold scatter_cm.
  destruct Bm as [|row0 Bm'].
  - simpl in LB. subst na. apply Permutation_sym, Permutation_nil in Hs. subst sigma. reflexivity.
  - assert (HK : length (hd [] (row0 :: Bm')) = K) by (inversion FB; auto). rewrite HK, LB.
    rewrite (scatter_perm na _ _ _ []); auto; try (rewrite ?map_length, ?repeat_length; lia).
    f_equal. unfold gcols. apply map_ext_in. intros row Hr. rewrite Forall_forall in FB.
    apply (scatter_perm K _ _ _ []); auto. rewrite repeat_length; auto.
Qed.
Lemma scatter2_gather K perm (L : list (list R)) : is_perm K perm -> is_arr K K L ->
  scatter2 0%R perm L = sel [] (gcols 0%R (inv_order perm) L) (inv_order perm).
Proof.
  intros Hp [LL FL]. unfold scatter2. rewrite LL.
  rewrite (scatter_perm K _ _ _ []); auto; try (rewrite ?map_length, ?repeat_length; lia).
  f_equal. unfold gcols. apply map_ext_in. intros row Hr. rewrite Forall_forall in FL.
  apply (scatter_perm K _ _ _ 0%R); auto. rewrite repeat_length; auto.
Qed.

(* two scatters = one scatter along the composed permutations *)
Lemma scatter_cm_compose na K i1 i2 p1 p2 (Bm : list (list (list Cx))) :
  is_perm na i1 -> is_perm na i2 -> is_perm K p1 -> is_perm K p2 -> is_arr na K Bm ->
  scatter_cm (inv_order i2) p2 (scatter_cm (inv_order i1) p1 Bm) = scatter_cm (inv_order (sel 0 i1 i2)) (sel 0 p2 p1) Bm.
Proof.
  intros H1 H2 P1 P2 HB.
  pose proof (inv_order_perm _ _ H1) as I1. pose proof (inv_order_perm _ _ H2) as I2.
  pose proof (inv_order_perm _ _ P1) as Q1. pose proof (inv_order_perm _ _ P2) as Q2.
  pose proof (sel_perm_comp _ _ _ H1 H2) as H12. pose proof (sel_perm_comp _ _ _ P2 P1) as P21.
  rewrite (scatter_cm_gather na K _ p1 Bm I1 P1 HB). rewrite (inv_order_invol na i1 H1).
  assert (HB1 : is_arr na K (sel [] (gcols [] (inv_order p1) Bm) i1)).
  { apply sel_arr; auto. apply gcols_arr; auto. rewrite inv_order_length. eapply is_perm_length; eauto. }
  rewrite (scatter_cm_gather na K _ p2 _ I2 P2 HB1). rewrite (inv_order_invol na i2 H2).
  rewrite (scatter_cm_gather na K _ _ Bm (inv_order_perm _ _ H12) P21 HB). rewrite (inv_order_invol na _ H12).
  rewrite (inv_order_sel K p2 p1 P2 P1).
  destruct HB as [LB FB].
  rewrite (sel_gcols [] (inv_order p2)) by (intros k Hk; rewrite sel_length, (is_perm_length _ _ H1); apply (is_perm_lt na i2 k H2 Hk)).
  rewrite sel_sel by (intros k Hk; rewrite (is_perm_length _ _ H1); apply (is_perm_lt na i2 k H2 Hk)).
  rewrite <- (sel_gcols [] (inv_order p2)) by (intros k Hk; unfold gcols; rewrite map_length, LB; apply (is_perm_lt na _ k H12 Hk)).
  f_equal. apply (gcols_comp [] na K); [split; auto|].
  intros k Hk. rewrite inv_order_length, (is_perm_length _ _ P1). apply (is_perm_lt K _ k Q2 Hk).
Qed.
Lemma scatter2_compose K p1 p2 (L : list (list R)) : is_perm K p1 -> is_perm K p2 -> is_arr K K L ->
  scatter2 0%R p2 (scatter2 0%R p1 L) = scatter2 0%R (sel 0 p2 p1) L.
Proof.
  intros P1 P2 HL.
  pose proof (inv_order_perm _ _ P1) as Q1. pose proof (inv_order_perm _ _ P2) as Q2.
  pose proof (sel_perm_comp _ _ _ P2 P1) as P21.
  rewrite (scatter2_gather K p1 L P1 HL).
  assert (HL1 : is_arr K K (sel [] (gcols 0%R (inv_order p1) L) (inv_order p1))).
  { apply sel_arr; auto. apply gcols_arr; auto. rewrite inv_order_length. eapply is_perm_length; eauto. }
  rewrite (scatter2_gather K p2 _ P2 HL1). rewrite (scatter2_gather K _ L P21 HL).
  rewrite (inv_order_sel K p2 p1 P2 P1). destruct HL as [LL FL].
  rewrite (sel_gcols 0%R (inv_order p2)) by (intros k Hk; rewrite sel_length, inv_order_length, (is_perm_length _ _ P1); apply (is_perm_lt K _ k Q2 Hk)).
  rewrite sel_sel by (intros k Hk; rewrite inv_order_length, (is_perm_length _ _ P1); apply (is_perm_lt K _ k Q2 Hk)).
  rewrite <- (sel_gcols 0%R (inv_order p2)) by (intros k Hk; unfold gcols; rewrite map_length, LL; apply (is_perm_lt K _ k (sel_perm_comp K _ _ Q1 Q2) Hk)).
  f_equal. apply (gcols_comp 0%R K K); [split; auto|].
  intros k Hk. rewrite inv_order_length, (is_perm_length _ _ P1). apply (is_perm_lt K _ k Q2 Hk).
Qed.
Lemma resort_ff_compose n i1 i2 (Fm : list (list (list Cx))) : is_perm n i1 -> is_perm n i2 -> is_arr n n Fm ->
  resort_ff i2 (resort_ff i1 Fm) = resort_ff (sel 0 i1 i2) Fm.
Proof.
  intros H1 H2 [LF FF]. unfold resort_ff. fold (gcols [] i1 Fm). fold (gcols [] (sel 0 i1 i2) Fm).
  fold (gcols [] i2 (sel [] (gcols [] i1 Fm) i1)).
  rewrite (sel_gcols [] i2) by (intros k Hk; rewrite sel_length, (is_perm_length _ _ H1); apply (is_perm_lt n i2 k H2 Hk)).
  rewrite sel_sel by (intros k Hk; rewrite (is_perm_length _ _ H1); apply (is_perm_lt n i2 k H2 Hk)).
  rewrite <- (sel_gcols [] i2) by (intros k Hk; unfold gcols; rewrite map_length, LF; apply (is_perm_lt n _ k (sel_perm_comp n _ _ H1 H2) Hk)).
  f_equal. apply (gcols_comp [] n n); [split; auto|].
  intros k Hk. rewrite (is_perm_length _ _ H1). apply (is_perm_lt n i2 k H2 Hk).
Qed.
Lemma sel_map_sel {X Y} (f : X -> Y) (dx : X) (dy : Y) l i1 i2 :
  (forall k, In k i1 -> k < length l) -> (forall k, In k i2 -> k < length i1) ->
  sel dy (map f (sel dx l i1)) i2 = sel dy (map f l) (sel 0 i1 i2).
Proof.
  intros H1 H2. rewrite <- (sel_map f dx dy l i1 H1). apply sel_sel; auto.
Qed.

(* ---------- cache flags of the intermediate pulse ---------- *)
Lemma cached_smap {X Y} (f : X -> Y) s : cached (smap f s) = cached s.
Proof. destruct s; reflexivity. Qed.
Lemma smap_smap {X Y Z} (f : X -> Y) (g : Y -> Z) s : smap g (smap f s) = smap (fun x => g (f x)) s.
Proof. destruct s; reflexivity. Qed.
Lemma smap_ext {X Y} (f g : X -> Y) s : (forall x, s = Have x -> f x = g x) -> smap f s = smap g s.
Proof. destruct s; simpl; auto. intros H. rewrite H; auto. Qed.

Section Q.
Variables (p q : rpulse) (o1 : list nat) (dq : nat) (m1 : option (list (string * string))) (N : nat).
Variables (c1 n1 : list string) (ci1 ni1 : list nat).
Hypothesis F1 : remap_facts p q o1 dq m1 N c1 n1 ci1 ni1.

Lemma q_btype : btype q = btype p. Proof. apply (rf_btype _ _ _ _ _ _ _ _ _ _ F1). Qed.
Lemma q_cm : cached (control_matrix q) = has_cm p.
Proof.
  rewrite (rf_cm _ _ _ _ _ _ _ _ _ _ F1). unfold has_cm, has_liou, has_om.
  destruct (omega p), (tpl p), (control_matrix p), (String.eqb (btype p) "Pauli"); reflexivity.
Qed.
Lemma q_tpl : cached (tpl q) = (has_liou p && cached (tpl p)) || has_cm p.
Proof.
  rewrite (rf_tpl _ _ _ _ _ _ _ _ _ _ F1). unfold has_cm, has_liou, has_om.
  destruct (omega p), (tpl p), (control_matrix p), (String.eqb (btype p) "Pauli"); reflexivity.
Qed.
Lemma q_omega : cached (omega q) = (has_om p && cached (total_phases p)) || (has_om p && cached (filter_function p)) || has_cm p.
Proof.
  rewrite (rf_omega _ _ _ _ _ _ _ _ _ _ F1). unfold has_cm, has_liou, has_om.
  destruct (omega p), (total_phases p), (filter_function p), (tpl p), (control_matrix p), (String.eqb (btype p) "Pauli"); reflexivity.
Qed.
Lemma q_phases : cached (total_phases q) = has_cm p || (has_om p && cached (total_phases p)).
Proof.
  rewrite (rf_phases _ _ _ _ _ _ _ _ _ _ F1). unfold has_cm, has_liou, has_om.
  destruct (omega p), (total_phases p), (tpl p), (control_matrix p), (String.eqb (btype p) "Pauli"); reflexivity.
Qed.
Lemma q_ff : cached (filter_function q) = has_om p && cached (filter_function p).
Proof.
  rewrite (rf_ff _ _ _ _ _ _ _ _ _ _ F1). unfold has_om. destruct (omega p), (filter_function p); reflexivity.
Qed.
Lemma q_has_cm : has_cm q = has_cm p.
Proof.
  unfold has_cm at 1, has_liou, has_om at 1. rewrite q_cm, q_tpl, q_omega, q_btype.
  unfold has_cm, has_liou, has_om.
  destruct (omega p), (total_phases p), (filter_function p), (tpl p), (control_matrix p), (String.eqb (btype p) "Pauli"); reflexivity.
Qed.
Lemma q_need_tp : need_tp q = false.
Proof.
  unfold need_tp. rewrite q_has_cm, q_tpl. unfold has_cm, has_liou, has_om.
  destruct (omega p), (tpl p), (control_matrix p), (String.eqb (btype p) "Pauli"); simpl; try reflexivity;
    destruct (cached (total_propagator q)); reflexivity.
Qed.
Lemma q_need_diag : need_diag q = false.
Proof. unfold need_diag. rewrite q_need_tp. reflexivity. Qed.
Lemma q_liou_tpl : has_liou p && cached (tpl p) = true ->
  (has_om p && cached (total_phases p)) || (has_om p && cached (filter_function p)) || has_cm p = true ->
  has_liou q && cached (tpl q) = true.
Proof.
  intros H1 H2. unfold has_liou, has_om. rewrite q_tpl, q_omega, q_cm, q_btype, H1, H2. simpl.
  unfold has_liou in H1. destruct (String.eqb (btype p) "Pauli"); auto. rewrite !andb_false_r in H1. discriminate.
Qed.
Lemma q_liou_tpl_false : has_liou p && cached (tpl p) = false -> has_cm p = false -> has_liou q && cached (tpl q) = false.
Proof. intros H1 H2. rewrite q_tpl, H1, H2. simpl. apply andb_false_r. Qed.
Lemma q_ph : has_om q && cached (total_phases q) = has_cm p || (has_om p && cached (total_phases p)).
Proof.
  unfold has_om at 1. rewrite q_omega, q_phases. unfold has_cm, has_liou, has_om.
  destruct (omega p), (total_phases p), (filter_function p), (tpl p), (control_matrix p), (String.eqb (btype p) "Pauli"); reflexivity.
Qed.
Lemma q_hff : has_om q && cached (filter_function q) = has_om p && cached (filter_function p).
Proof.
  unfold has_om at 1. rewrite q_omega, q_ff. unfold has_cm, has_liou, has_om.
  destruct (omega p), (total_phases p), (filter_function p), (tpl p), (control_matrix p), (String.eqb (btype p) "Pauli"); reflexivity.
Qed.
End Q.

(* ---------- the record-level theorem ---------- *)
Section Compose.
Variables (p q r r' : rpulse) (o1 o2 : list nat) (dq : nat) (m1 m2 m12 : option (list (string * string))) (N : nat).
Variables (c1 n1 c2 n2 c12 n12 : list string) (ci1 ni1 ci2 ni2 ci12 ni12 : list nat).
Hypothesis F1 : remap_facts p q o1 dq m1 N c1 n1 ci1 ni1.
Hypothesis F2 : remap_facts q r o2 dq m2 N c2 n2 ci2 ni2.
Hypothesis F12 : remap_facts p r' (sel 0 o1 o2) dq m12 N c12 n12 ci12 ni12.
Hypothesis Hdq : 0 < dq.
Local Notation nc := (List.length (c_ids p)).
Local Notation nn := (List.length (n_ids p)).
Local Notation K := (4 ^ N).
(* the sorting permutations and identifiers compose (see compose_indices below) *)
Hypothesis Hci : ci12 = sel 0 ci1 ci2.
Hypothesis Hni : ni12 = sel 0 ni1 ni2.
Hypothesis Hcid : sel EmptyString c2 ci2 = sel EmptyString c12 ci12.
Hypothesis Hnid : sel EmptyString n2 ni2 = sel EmptyString n12 ni12.
Hypothesis Pc1 : is_perm nc ci1. Hypothesis Pc2 : is_perm nc ci2.
Hypothesis Pn1 : is_perm nn ni1. Hypothesis Pn2 : is_perm nn ni2.
(* shapes *)
Hypothesis wf_c : List.length (c_opers p) = nc /\ List.length (c_coeffs p) = nc.
Hypothesis wf_n : List.length (n_opers p) = nn /\ List.length (n_coeffs p) = nn.
Hypothesis sh_cm : forall Bm, control_matrix p = Have Bm -> is_arr nn K Bm.
Hypothesis sh_tpl : forall L, tpl p = Have L -> is_arr K K L.
Hypothesis sh_ff : forall Fm, filter_function p = Have Fm -> is_arr nn nn Fm.
(* the cache of p is closed: omega and the Liouville propagator are never cached without one of phases / FF / CM *)
Hypothesis Hclosed : has_liou p && cached (tpl p) = true ->
  (has_om p && cached (total_phases p)) || (has_om p && cached (filter_function p)) || has_cm p = true.

Lemma P1 : is_perm N o1. Proof. apply (rf_perm _ _ _ _ _ _ _ _ _ _ F1). Qed.
Lemma P2 : is_perm N o2. Proof. apply (rf_perm _ _ _ _ _ _ _ _ _ _ F2). Qed.
Lemma lt_of (n : nat) (l : list nat) : is_perm n l -> forall k, In k l -> k < n.
Proof. intros H k Hk. eapply is_perm_lt; eauto. Qed.

Lemma opers_compose (ops : list (Mat (T:=R))) i1 i2 n : List.length ops = n -> is_perm n i1 -> is_perm n i2 ->
  sel [] (map (tt2 0c dq N o2) (sel [] (map (tt2 0c dq N o1) ops) i1)) i2 = sel [] (map (tt2 0c dq N (sel 0 o1 o2)) ops) (sel 0 i1 i2).
Proof.
  intros L H1 H2.
  assert (L' : List.length (map (tt2 0c dq N o1) ops) = n) by (rewrite map_length; exact L).
  rewrite (sel_map_sel (tt2 0c dq N o2) [] []).
  - rewrite map_map. f_equal. apply map_ext. intros M. apply tt2_compose; auto using P1, P2.
  - intros k Hk. rewrite L'. apply (lt_of n i1 H1 k Hk).
  - intros k Hk. rewrite (is_perm_length _ _ H1). apply (lt_of n i2 H2 k Hk).
Qed.

Theorem compose_c_opers : c_opers r = c_opers r'.
Proof.
  rewrite (rf_copers _ _ _ _ _ _ _ _ _ _ F2), (rf_copers _ _ _ _ _ _ _ _ _ _ F1), (rf_copers _ _ _ _ _ _ _ _ _ _ F12), Hci.
  apply (opers_compose _ _ _ nc); tauto.
Qed.
Theorem compose_n_opers : n_opers r = n_opers r'.
Proof.
  rewrite (rf_nopers _ _ _ _ _ _ _ _ _ _ F2), (rf_nopers _ _ _ _ _ _ _ _ _ _ F1), (rf_nopers _ _ _ _ _ _ _ _ _ _ F12), Hni.
  apply (opers_compose _ _ _ nn); tauto.
Qed.
Theorem compose_ids : c_ids r = c_ids r' /\ n_ids r = n_ids r'.
Proof.
  rewrite (rf_cids _ _ _ _ _ _ _ _ _ _ F2), (rf_cids _ _ _ _ _ _ _ _ _ _ F12), (rf_nids _ _ _ _ _ _ _ _ _ _ F2), (rf_nids _ _ _ _ _ _ _ _ _ _ F12).
  split; assumption.
Qed.
Theorem compose_coeffs : c_coeffs r = c_coeffs r' /\ n_coeffs r = n_coeffs r'.
Proof.
  rewrite (rf_ccoeffs _ _ _ _ _ _ _ _ _ _ F2), (rf_ccoeffs _ _ _ _ _ _ _ _ _ _ F1), (rf_ccoeffs _ _ _ _ _ _ _ _ _ _ F12).
  rewrite (rf_ncoeffs _ _ _ _ _ _ _ _ _ _ F2), (rf_ncoeffs _ _ _ _ _ _ _ _ _ _ F1), (rf_ncoeffs _ _ _ _ _ _ _ _ _ _ F12).
  rewrite Hci, Hni. split; apply sel_sel.
  - intros k Hk. rewrite (is_perm_length _ _ Pc1). apply (lt_of nc ci2 Pc2 k Hk).
  - intros k Hk. rewrite (is_perm_length _ _ Pn1). apply (lt_of nn ni2 Pn2 k Hk).
Qed.
Theorem compose_dt : p_dt r = p_dt r' /\ p_d r = p_d r' /\ btype r = btype r'.
Proof.
  rewrite (rf_dt _ _ _ _ _ _ _ _ _ _ F2), (rf_dt _ _ _ _ _ _ _ _ _ _ F1), (rf_dt _ _ _ _ _ _ _ _ _ _ F12).
  rewrite (rf_d _ _ _ _ _ _ _ _ _ _ F2), (rf_d _ _ _ _ _ _ _ _ _ _ F1), (rf_d _ _ _ _ _ _ _ _ _ _ F12).
  rewrite (rf_btype _ _ _ _ _ _ _ _ _ _ F2), (rf_btype _ _ _ _ _ _ _ _ _ _ F1), (rf_btype _ _ _ _ _ _ _ _ _ _ F12). auto.
Qed.

Theorem compose_spectral : eigvals r = eigvals r' /\ eigvecs r = eigvecs r' /\ propagators r = propagators r' /\
  total_propagator r = total_propagator r'.
Proof.
  rewrite (rf_eigvals _ _ _ _ _ _ _ _ _ _ F2), (rf_eigvecs _ _ _ _ _ _ _ _ _ _ F2), (rf_props _ _ _ _ _ _ _ _ _ _ F2), (rf_tp _ _ _ _ _ _ _ _ _ _ F2).
  rewrite (q_need_diag p q o1 dq m1 N c1 n1 ci1 ni1 F1), (q_need_tp p q o1 dq m1 N c1 n1 ci1 ni1 F1).
  rewrite (rf_eigvals _ _ _ _ _ _ _ _ _ _ F1), (rf_eigvecs _ _ _ _ _ _ _ _ _ _ F1), (rf_props _ _ _ _ _ _ _ _ _ _ F1), (rf_tp _ _ _ _ _ _ _ _ _ _ F1).
  rewrite (rf_eigvals _ _ _ _ _ _ _ _ _ _ F12), (rf_eigvecs _ _ _ _ _ _ _ _ _ _ F12), (rf_props _ _ _ _ _ _ _ _ _ _ F12), (rf_tp _ _ _ _ _ _ _ _ _ _ F12).
  pose proof P1 as H1. pose proof P2 as H2.
  assert (Gv : forall s : slot (list (list R)), smap (map (tt1 0%R dq N o2)) (smap (map (tt1 0%R dq N o1)) s) = smap (map (tt1 0%R dq N (sel 0 o1 o2))) s).
  { intros s. rewrite smap_smap. apply smap_ext. intros x _. rewrite map_map. apply map_ext. intros y. apply tt1_compose; auto. }
  assert (Gm : forall s : slot (list (Mat (T:=R))), smap (map (tt2 0c dq N o2)) (smap (map (tt2 0c dq N o1)) s) = smap (map (tt2 0c dq N (sel 0 o1 o2))) s).
  { intros s. rewrite smap_smap. apply smap_ext. intros x _. rewrite map_map. apply map_ext. intros y. apply tt2_compose; auto. }
  assert (Gt : forall s : slot (Mat (T:=R)), smap (tt2 0c dq N o2) (smap (tt2 0c dq N o1) s) = smap (tt2 0c dq N (sel 0 o1 o2)) s).
  { intros s. rewrite smap_smap. apply smap_ext. intros x _. apply tt2_compose; auto. }
  destruct (need_diag p); destruct (need_tp p); cbv iota; repeat split; try reflexivity; auto.
Qed.

Theorem compose_omega_phases_ff : omega r = omega r' /\ total_phases r = total_phases r' /\ filter_function r = filter_function r'.
Proof.
  rewrite (rf_omega _ _ _ _ _ _ _ _ _ _ F2), (rf_phases _ _ _ _ _ _ _ _ _ _ F2), (rf_ff _ _ _ _ _ _ _ _ _ _ F2).
  rewrite (q_ph p q o1 dq m1 N c1 n1 ci1 ni1 F1), (q_hff p q o1 dq m1 N c1 n1 ci1 ni1 F1), (q_has_cm p q o1 dq m1 N c1 n1 ci1 ni1 F1).
  rewrite (rf_omega _ _ _ _ _ _ _ _ _ _ F1), (rf_phases _ _ _ _ _ _ _ _ _ _ F1), (rf_ff _ _ _ _ _ _ _ _ _ _ F1).
  rewrite (rf_omega _ _ _ _ _ _ _ _ _ _ F12), (rf_phases _ _ _ _ _ _ _ _ _ _ F12), (rf_ff _ _ _ _ _ _ _ _ _ _ F12).
  split; [|split].
  - destruct (has_cm p), (has_om p && cached (total_phases p)), (has_om p && cached (filter_function p)); reflexivity.
  - destruct (has_cm p), (has_om p && cached (total_phases p)); reflexivity.
  - destruct (has_om p && cached (filter_function p)) eqn:E; auto.
    rewrite smap_smap. apply smap_ext. intros Fm HF. rewrite Hni. apply (resort_ff_compose nn); auto.
Qed.

Theorem compose_control_matrix : control_matrix r = control_matrix r'.
Proof.
  rewrite (rf_cm _ _ _ _ _ _ _ _ _ _ F2), (q_has_cm p q o1 dq m1 N c1 n1 ci1 ni1 F1), (rf_cm _ _ _ _ _ _ _ _ _ _ F1), (rf_cm _ _ _ _ _ _ _ _ _ _ F12).
  destruct (has_cm p); auto. rewrite smap_smap. apply smap_ext. intros Bm HB.
  rewrite Hni, (remap_pauli_sel N o1 o2 P1 P2).
  apply (scatter_cm_compose nn K); auto using remap_pauli_perm, P1, P2.
Qed.

Theorem compose_tpl : tpl r = tpl r'.
Proof.
  rewrite (rf_tpl _ _ _ _ _ _ _ _ _ _ F2), (q_has_cm p q o1 dq m1 N c1 n1 ci1 ni1 F1), (rf_tpl _ _ _ _ _ _ _ _ _ _ F12).
  destruct (has_liou p && cached (tpl p)) eqn:E1.
  - rewrite (q_liou_tpl p q o1 dq m1 N c1 n1 ci1 ni1 F1 E1 (Hclosed eq_refl)).
    rewrite (rf_tpl _ _ _ _ _ _ _ _ _ _ F1), E1. rewrite smap_smap. apply smap_ext. intros L HL.
    rewrite (remap_pauli_sel N o1 o2 P1 P2). apply (scatter2_compose K); auto using remap_pauli_perm, P1, P2.
  - destruct (has_cm p) eqn:E2.
    + (* the Liouville propagator of q is Fresh *)
      assert (Hq : has_liou q && cached (tpl q) = true).
      { unfold has_liou, has_om. rewrite (q_tpl p q o1 dq m1 N c1 n1 ci1 ni1 F1), (q_omega p q o1 dq m1 N c1 n1 ci1 ni1 F1),
          (q_cm p q o1 dq m1 N c1 n1 ci1 ni1 F1), (q_btype p q o1 dq m1 N c1 n1 ci1 ni1 F1), E1, E2. simpl.
        rewrite !orb_true_r. simpl. unfold has_cm, has_liou in E2.
        destruct (String.eqb (btype p) "Pauli"); auto. rewrite !andb_false_r in E2. discriminate. }
      rewrite Hq. rewrite (rf_tpl _ _ _ _ _ _ _ _ _ _ F1), E1, E2. reflexivity.
    + rewrite (q_liou_tpl_false p q o1 dq m1 N c1 n1 ci1 ni1 F1 E1 E2). reflexivity.
Qed.
Theorem compose_record :
  c_opers r = c_opers r' /\ n_opers r = n_opers r' /\ (c_ids r = c_ids r' /\ n_ids r = n_ids r') /\
  (c_coeffs r = c_coeffs r' /\ n_coeffs r = n_coeffs r') /\ (p_dt r = p_dt r' /\ p_d r = p_d r' /\ btype r = btype r') /\
  (eigvals r = eigvals r' /\ eigvecs r = eigvecs r' /\ propagators r = propagators r' /\ total_propagator r = total_propagator r') /\
  (omega r = omega r' /\ total_phases r = total_phases r' /\ filter_function r = filter_function r') /\
  control_matrix r = control_matrix r' /\ tpl r = tpl r'.
Proof.
  split. apply compose_c_opers. split. apply compose_n_opers. split. apply compose_ids. split. apply compose_coeffs.
  split. apply compose_dt. split. apply compose_spectral. split. apply compose_omega_phases_ff.
  split. apply compose_control_matrix. apply compose_tpl.
Qed.
End Compose.

(* the index hypotheses of the theorem above follow from the mappings composing elementwise, when
   identifiers are kept sorted and distinct (the PulseSequence invariant) *)
Theorem compose_indices (ks12 : list string) i1 : NoDup ks12 -> is_perm (List.length ks12) i1 ->
  let ks2 := sel EmptyString ks12 i1 in
  sel 0 i1 (argsort ks2) = argsort ks12 /\
  sel EmptyString ks2 (argsort ks2) = sel EmptyString ks12 (argsort ks12).
Proof.
  intros Hnd H1 ks2. pose proof (sort_compose ks12 i1 Hnd H1) as E. fold ks2 in E. split; auto.
  rewrite <- E. unfold ks2. apply sel_sel.
  intros k Hk. rewrite (is_perm_length _ _ H1).
  pose proof (argsort_perm (sel EmptyString ks12 i1)) as HP. rewrite sel_length, (is_perm_length _ _ H1) in HP.
  eapply is_perm_lt; eauto.
Qed.

(* ---------- record-level identity ---------- *)
Lemma inv_order_seq n : inv_order (seq 0 n) = seq 0 n.
Proof.
  symmetry. apply (inv_unique n); try apply is_perm_id. apply sel_seq. apply seq_length.
Qed.
Lemma remap_pauli_seq N : remap_pauli N (seq 0 N) = seq 0 (4 ^ N).
Proof.
  apply (nth_ext _ _ 0 0). rewrite remap_pauli_length, seq_length; auto.
  intros k Hk. rewrite remap_pauli_length in Hk. rewrite remap_pauli_id by auto. rewrite seq_nth; auto.
Qed.
Lemma gcols_seq {X} (d : X) n1 n2 (A : list (list X)) : is_arr n1 n2 A -> gcols d (seq 0 n2) A = A.
Proof.
  intros [L Fa]. unfold gcols. rewrite <- (map_id A) at 2. apply map_ext_in. intros row Hr.
  rewrite Forall_forall in Fa. apply sel_seq. apply Fa; auto.
Qed.
Lemma scatter_cm_id na K (Bm : list (list (list Cx))) : is_arr na K Bm ->
  scatter_cm (inv_order (seq 0 na)) (seq 0 K) Bm = Bm.
Proof.
  intros HB. rewrite (scatter_cm_gather na K); auto; try (rewrite inv_order_seq); try apply is_perm_id.
  rewrite !inv_order_seq. rewrite (gcols_seq [] na K) by auto. apply sel_seq. apply HB.
Qed.
Lemma scatter2_id K (L : list (list R)) : is_arr K K L -> scatter2 0%R (seq 0 K) L = L.
Proof.
  intros HL. rewrite (scatter2_gather K); auto; try apply is_perm_id.
  rewrite !inv_order_seq. rewrite (gcols_seq 0%R K K) by auto. apply sel_seq. apply HL.
Qed.
Lemma resort_ff_id n (Fm : list (list (list Cx))) : is_arr n n Fm -> resort_ff (seq 0 n) Fm = Fm.
Proof.
  intros HF. unfold resort_ff. fold (gcols [] (seq 0 n) Fm). rewrite (gcols_seq [] n n) by auto. apply sel_seq. apply HF.
Qed.

(* a cached value of r is the cached value of p *)
Definition slot_sub {X} (sr sp : slot X) : Prop := forall x, sr = Have x -> sp = Have x.
Lemma slot_sub_smap {X} (f : X -> X) sp : (forall y, sp = Have y -> f y = y) -> slot_sub (smap f sp) sp.
Proof. intros H x. destruct sp; simpl; try discriminate. intros E. inversion E. rewrite H; auto. Qed.
Lemma slot_sub_fresh {X} (sp : slot X) : slot_sub Fresh sp. Proof. intros x; discriminate. Qed.
Lemma slot_sub_absent {X} (sp : slot X) : slot_sub Absent sp. Proof. intros x; discriminate. Qed.
Lemma slot_sub_refl {X} (sp : slot X) : slot_sub sp sp. Proof. intros x; auto. Qed.

(* remap by the identity permutation without identifier mapping: operators, identifiers, coefficients are unchanged,
   and no cached value is changed (a slot of the result holds the input's value, or was recomputed by the new pulse
   itself, or was dropped) *)
Theorem remap_id_record (p r : rpulse) dq N :
  0 < dq -> rremap p (seq 0 N) dq None = Some r -> ilog dq (p_d p) = N ->
  Forall (is_mat (dq ^ N)) (c_opers p) -> Forall (is_mat (dq ^ N)) (n_opers p) ->
  List.length (c_opers p) = List.length (c_ids p) -> List.length (n_opers p) = List.length (n_ids p) ->
  List.length (c_coeffs p) = List.length (c_ids p) -> List.length (n_coeffs p) = List.length (n_ids p) ->
  (forall evs, eigvals p = Have evs -> Forall (fun v => List.length v = dq ^ N) evs) ->
  (forall Vs, eigvecs p = Have Vs -> Forall (is_mat (dq ^ N)) Vs) ->
  (forall Qs, propagators p = Have Qs -> Forall (is_mat (dq ^ N)) Qs) ->
  (forall U, total_propagator p = Have U -> is_mat (dq ^ N) U) ->
  (forall Bm, control_matrix p = Have Bm -> is_arr (List.length (n_ids p)) (4 ^ N) Bm) ->
  (forall L, tpl p = Have L -> is_arr (4 ^ N) (4 ^ N) L) ->
  (forall Fm, filter_function p = Have Fm -> is_arr (List.length (n_ids p)) (List.length (n_ids p)) Fm) ->
  c_opers r = c_opers p /\ n_opers r = n_opers p /\ c_ids r = c_ids p /\ n_ids r = n_ids p /\
  c_coeffs r = c_coeffs p /\ n_coeffs r = n_coeffs p /\ p_dt r = p_dt p /\ p_d r = p_d p /\ btype r = btype p /\
  slot_sub (eigvals r) (eigvals p) /\ slot_sub (eigvecs r) (eigvecs p) /\ slot_sub (propagators r) (propagators p) /\
  slot_sub (total_propagator r) (total_propagator p) /\ slot_sub (omega r) (omega p) /\
  slot_sub (total_phases r) (total_phases p) /\ slot_sub (filter_function r) (filter_function p) /\
  slot_sub (tpl r) (tpl p) /\ slot_sub (control_matrix r) (control_matrix p).
Proof.
  intros Hd H HN Hc Hn Lc Ln Lcc Lnc Sev Svs Sqs Stp Scm Stpl Sff.
  apply remap_inv in H. destruct H as [cids [nids [cidx [nidx Fk]]]]. rewrite HN in Fk.
  destruct Fk as [rf_perm0 rf_dim0 rf_cmap0 rf_nmap0 rf_d0 rf_copers0 rf_nopers0 rf_cids0 rf_nids0 rf_ccoeffs0 rf_ncoeffs0 rf_dt0
                  rf_btype0 rf_eigvals0 rf_eigvecs0 rf_props0 rf_tp0 rf_omega0 rf_phases0 rf_ff0 rf_tpl0 rf_cm0].
  simpl in rf_cmap0, rf_nmap0. inversion rf_cmap0; subst cids cidx. inversion rf_nmap0; subst nids nidx.
  assert (G : forall ops : list (Mat (T:=R)), Forall (is_mat (dq ^ N)) ops -> map (tt2 0c dq N (seq 0 N)) ops = ops).
  { induction 1; simpl; auto. rewrite IHForall. f_equal. apply tt2_id; auto. }
  assert (G1 : forall vs : list (list R), Forall (fun v => List.length v = dq ^ N) vs -> map (tt1 0%R dq N (seq 0 N)) vs = vs).
  { induction 1; simpl; auto. rewrite IHForall. f_equal. apply tt1_id; auto. }
  split. rewrite rf_copers0, G by auto. rewrite <- Lc. apply sel_seq; auto.
  split. rewrite rf_nopers0, G by auto. rewrite <- Ln. apply sel_seq; auto.
  split. rewrite rf_cids0. apply sel_seq; auto.
  split. rewrite rf_nids0. apply sel_seq; auto.
  split. rewrite rf_ccoeffs0, <- Lcc. apply sel_seq; auto.
  split. rewrite rf_ncoeffs0, <- Lnc. apply sel_seq; auto.
  split; [auto|]. split; [auto|]. split; [auto|].
  split. rewrite rf_eigvals0. destruct (need_diag p). apply slot_sub_fresh. apply slot_sub_smap. intros y E. apply G1. eauto.
  split. rewrite rf_eigvecs0. destruct (need_diag p). apply slot_sub_fresh. apply slot_sub_smap. intros y E. apply G. eauto.
  split. rewrite rf_props0. destruct (need_diag p). apply slot_sub_fresh. apply slot_sub_smap. intros y E. apply G. eauto.
  split. rewrite rf_tp0. destruct (need_tp p). apply slot_sub_fresh. apply slot_sub_smap. intros y E. apply tt2_id; eauto.
  split. rewrite rf_omega0. destruct (has_om p && cached (total_phases p) || has_om p && cached (filter_function p) || has_cm p). apply slot_sub_refl. apply slot_sub_absent.
  split. rewrite rf_phases0. destruct (has_cm p). apply slot_sub_fresh. destruct (has_om p && cached (total_phases p)). apply slot_sub_refl. apply slot_sub_absent.
  split. rewrite rf_ff0. destruct (has_om p && cached (filter_function p)); [|apply slot_sub_absent]. apply slot_sub_smap. intros y E. apply resort_ff_id. eauto.
  split. rewrite rf_tpl0. destruct (has_liou p && cached (tpl p)). apply slot_sub_smap. intros y E. rewrite remap_pauli_seq. apply scatter2_id. eauto.
    destruct (has_cm p). apply slot_sub_fresh. apply slot_sub_absent.
  rewrite rf_cm0. destruct (has_cm p); [|apply slot_sub_absent]. apply slot_sub_smap. intros y E.
  rewrite remap_pauli_seq. apply scatter_cm_id. eauto.
Qed.
