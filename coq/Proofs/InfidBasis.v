(* C12, part 4: the infidelity is the same in any two complete orthonormal Hermitian bases
   (composition of C08: infidelity = - tr K / d^2 with the change-of-basis theorems).      *)
From Coq Require Import ZArith Reals Lra Lia List Setoid Morphisms.
From FF Require Import Base.Ops Inst.RInst Base.RAlg Base.FMat Model.Numeric Model.Decay Model.Cumulant
     Proofs.CMBase Proofs.BasisIndep Proofs.Trapz Proofs.Decay Proofs.TraceId Proofs.CumulantAlg Proofs.CumulantCCP
     Proofs.BasisChange.
Import ListNotations.
Local Open Scope R_scope.

Lemma rmget_rmbuild' m n (f : nat -> nat -> R) i j : (i < m)%nat -> (j < n)%nat -> rmget RO (rmbuild m n f) i j = f i j.
Proof. intros. unfold rmget, rmbuild. rewrite !nth_build by auto. reflexivity. Qed.

Section InfidBasis.
Variable d : nat.
Variables (bs bs' : list MatR).
Let n := length bs.
Let Cb : nat -> fmat := fun k => toF (nthm bs k).
Let Cb' : nat -> fmat := fun k => toF (nthm bs' k).
Hypothesis Hd : (0 < d)%nat.
Hypothesis Hlen : length bs' = n.
Hypothesis Hherm : basis_herm d n Cb.
Hypothesis Honb : basis_orthonormal d n Cb.
Hypothesis Hcomp : basis_complete d n Cb.
Hypothesis Hherm' : basis_herm d n Cb'.
Hypothesis Honb' : basis_orthonormal d n Cb'.
Hypothesis Hcomp' : basis_complete d n Cb'.

Variables (na no : nat) (Bm Bm' : A3r) (idx : list nat) (sp : spectrumR) (omega : list R).
Hypothesis Hidx : idx_ok na idx.
Hypothesis Hom : length omega = no.
(* the control matrices in the two bases: B' = O B (C12_cm_change_of_basis) *)
Hypothesis HB : forall a k o, (a < na)%nat -> (k < n)%nat -> (o < no)%nat ->
  a3get RO Bm' a k o = csumn' n (fun m => cmul' (rcx (Omat d Cb Cb' k m)) (a3get RO Bm a m o)).

Lemma K1_entry_ext' m Tr Tr' (G : RMr) i j :
  (forall p q r s, (p < m)%nat -> (q < m)%nat -> (r < m)%nat -> (s < m)%nat -> Tr p q r s = Tr' p q r s) ->
  (i < m)%nat -> (j < m)%nat -> K1_entry RO m Tr G i j = K1_entry RO m Tr' G i j.
Proof. apply K1_entry_ext. Qed.

Theorem infidelity_basis_independent i j :
  (i < length idx)%nat -> (j < length idx)%nat -> (is_cross sp = false -> i = j) ->
  nth (lead_pos sp (length idx) i j) (infidelity_total RO d na n no Bm' bs' idx sp omega) 0 =
  nth (lead_pos sp (length idx) i j) (infidelity_total RO d na n no Bm bs idx sp omega) 0.
Proof.
  intros Hi Hj Hc.
  set (G := rmbuild n n (fun k l => Gamma Bm Bm idx sp no omega i j k l)).
  set (G' := rmbuild n n (fun k l => Gamma Bm' Bm' idx sp no omega i j k l)).
  assert (Hn' : n = length bs') by (symmetry; exact Hlen).
  rewrite (infidelity_is_cumulant_trace d bs Hd Hherm Honb Hcomp na n no Bm idx sp omega eq_refl Hidx Hom i j G Hi Hj Hc).
  pose proof (infidelity_is_cumulant_trace d bs' Hd) as H'. rewrite Hlen in H'.
  rewrite (H' Hherm' Honb' Hcomp' na n no Bm' idx sp omega eq_refl Hidx Hom i j G' Hi Hj Hc). clear H'.
  fold G. fold G'. f_equal. f_equal.
  (* traces of the two cumulant functions *)
  transitivity (fst (csumn' n (fun m => K1_entry RO n (T4 d Cb') G' m m))).
  { rewrite csumn_re. apply sumn_ext. intros m Hm. unfold cumulant_general_fn, cre. f_equal.
    apply K1_entry_ext; auto. intros. rewrite Hn'. apply (a4get_four_traces d bs'); rewrite <- Hn'; auto. }
  transitivity (fst (csumn' n (fun m => K1_entry RO n (T4 d Cb) G m m))).
  2:{ rewrite csumn_re. apply sumn_ext. intros m Hm. unfold cumulant_general_fn, cre. f_equal.
      apply K1_entry_ext; auto. intros. symmetry. apply (a4get_four_traces d bs); auto. }
  f_equal.
  apply (K1_trace_invariant d n Cb Cb' Hherm Honb Hcomp Hherm' Hcomp' G G').
  intros k l Hk Hl. unfold G', G. rewrite rmget_rmbuild' by auto.
  rewrite (Gamma_change_of_basis d n Cb Cb' na no Bm Bm' idx sp omega i j k l HB) by (auto; apply Hidx; auto).
  apply sumn_ext. intros m Hm. apply sumn_ext. intros p Hp. rewrite rmget_rmbuild' by auto. reflexivity.
Qed.

End InfidBasis.
