(* Proofs/Cache.v -- cache coherence of the PulseSequence state machine (C07, C18 part 2). *)
From Coq Require Import List String Bool Arith PeanoNat NArith Lia.
From FF Require Import Extracted.Src Model.Cache.
Import ListNotations.

(* ================================================================== basics *)
Lemma slot_eqb_eq : forall a b, slot_eqb a b = true <-> a = b.
Proof. intros a b; split; [destruct a, b; simpl; intros H; (reflexivity || discriminate H) | intros ->; destruct b; reflexivity]. Qed.
Lemma slot_eqb_refl : forall a, slot_eqb a a = true.
Proof. destruct a; reflexivity. Qed.
Lemma key_eqb_eq : forall a b, key_eqb a b = true <-> a = b.
Proof. intros a b; split; [destruct a, b; simpl; intros H; (reflexivity || discriminate H) | intros ->; destruct b; reflexivity]. Qed.
Lemma grid_eqb_eq : forall a b, grid_eqb a b = true <-> a = b.
Proof.
  intros [a1 a2] [b1 b2]; unfold grid_eqb; simpl; rewrite andb_true_iff, !Nat.eqb_eq.
  split; [intros [-> ->]; reflexivity | intros H; inversion H; auto].
Qed.
Lemma grid_eqb_refl : forall g, grid_eqb g g = true.
Proof. intros g; apply grid_eqb_eq; reflexivity. Qed.

Lemma upd_same : forall A (f : slot -> A) s v, upd f s v s = v.
Proof. intros; unfold upd; rewrite slot_eqb_refl; reflexivity. Qed.
Lemma upd_other : forall A (f : slot -> A) s s' v, s <> s' -> upd f s v s' = f s'.
Proof.
  intros; unfold upd; destruct (slot_eqb s s') eqn:E; [apply slot_eqb_eq in E; contradiction | reflexivity].
Qed.
Lemma upd_cases : forall A (f : slot -> A) s s' v, (s = s' /\ upd f s v s' = v) \/ (s <> s' /\ upd f s v s' = f s').
Proof.
  intros; unfold upd; destruct (slot_eqb s s') eqn:E.
  - left; split; [apply slot_eqb_eq; exact E | reflexivity].
  - right; split; [intros ->; rewrite slot_eqb_refl in E; discriminate | reflexivity].
Qed.
Lemma updk_cases : forall A (f : ikey -> A) k k' v,
  (k = k' /\ updk f k v k' = v) \/ (k <> k' /\ updk f k v k' = f k').
Proof.
  intros; unfold updk; destruct (key_eqb k k') eqn:E.
  - left; split; [apply key_eqb_eq; exact E | reflexivity].
  - right; split; [intros ->; destruct k'; discriminate | reflexivity].
Qed.

(* ================================================================== coherence of one object *)
(* [g] is the object's frequency grid, [e] the eigen-decomposition instance its eigen-data is expressed in
   (TI: the one numeric.diagonalize returns, TE n: installed from outside by extend / remap) *)
Definition foi_tag (g : grid) (e : tag) : tag := match e with TE n => TFE g n | _ => TF g end.
Definition want (g : grid) (e : tag) (k : kind) : tag :=
  match k with KFI => TI | KE => e | KFE => foi_tag g e | _ => TF g end.
Definition tag_for (g : grid) (e : tag) (k : kind) (v : option tag) : Prop := v = None \/ v = Some (want g e k).
Definition key_kind (k : ikey) : kind :=
  match k with
  | K_n_opers_transformed | K_basis_transformed => KE | K_first_order_integral => KFE | _ => KFD
  end.
Definition edec (e : tag) : Prop := e = TI \/ exists n, e = TE n.

(* every value present is the right one for grid g and decomposition e *)
Definition OPre (g : grid) (e : tag) (s : slot -> option tag) (d : ikey -> option tag) : Prop :=
  (forall x, tag_for g e (slot_kind x) (s x)) /\ (forall k, tag_for g e (key_kind k) (d k)).
(* eigvals, eigvecs, propagators are present or absent together (diagonalize recomputes all three if one is
   missing) *)
Definition Trio (s : slot -> option tag) : Prop :=
  (s S_eigvals = None /\ s S_eigvecs = None /\ s S_propagators = None) \/
  (s S_eigvals <> None /\ s S_eigvecs <> None /\ s S_propagators <> None).
(* the intermediates expressed in the eigenbasis *)
Definition EKeysNone (d : ikey -> option tag) : Prop :=
  d K_n_opers_transformed = None /\ d K_basis_transformed = None /\ d K_first_order_integral = None.
(* ... are present only together with the decomposition they refer to (commit 7378d31) *)
Definition OP (g : grid) (e : tag) s d : Prop :=
  edec e /\ OPre g e s d /\ Trio s /\ (s S_eigvecs = None -> EKeysNone d).
Definition FDNone (s : slot -> option tag) (d : ikey -> option tag) : Prop :=
  (forall x, slot_kind x = KFD -> s x = None) /\ (forall k, key_fd k = true -> d k = None).
(* ... and nothing frequency dependent is present unless _omega is *)
Definition OCohG (g : grid) (e : tag) s d : Prop := OP g e s d /\ (s S_omega = None -> FDNone s d).
Definition ObjCoh s d : Prop := exists g e, OCohG g e s d.

Definition LP g (l : lst) := exists e, OP g e (sl l) (di l).
Definition LCG g (l : lst) := exists e, OCohG g e (sl l) (di l).
Definition LCO g (l : lst) := exists e, OP g e (sl l) (di l) /\ sl l S_omega = Some (TF g).
Definition LC (l : lst) := ObjCoh (sl l) (di l).

Lemma LCO_LCG : forall g l, LCO g l -> LCG g l.
Proof. intros g l [e [H1 H2]]; exists e; split; [exact H1 | rewrite H2; discriminate]. Qed.
Lemma LCG_LC : forall g l, LCG g l -> LC l.
Proof. intros g l [e H]; exists g, e; exact H. Qed.
Lemma LCO_LC : forall g l, LCO g l -> LC l.
Proof. intros; eapply LCG_LC, LCO_LCG; eauto. Qed.
Lemma LCG_LP : forall g l, LCG g l -> LP g l.
Proof. intros g l [e [H _]]; exists e; exact H. Qed.
Lemma LCO_LP : forall g l, LCO g l -> LP g l.
Proof. intros g l [e [H _]]; exists e; exact H. Qed.
Lemma LCO_omega : forall g l, LCO g l -> sl l S_omega = Some (TF g).
Proof. intros g l [e [_ H]]; exact H. Qed.
Lemma LP_omega_LCO : forall g l, LP g l -> sl l S_omega = Some (TF g) -> LCO g l.
Proof. intros g l [e H] Ho; exists e; split; assumption. Qed.

Lemma key_fd_kind : forall k, key_fd k = true <-> key_kind k <> KE.
Proof. intros k; destruct k; simpl; split; intros H; try reflexivity; try discriminate; try contradiction; exfalso; apply H; reflexivity. Qed.

(* with _omega absent the grid is immaterial *)
Lemma LCG_none_any : forall g g' l, LCG g l -> sl l S_omega = None -> LCG g' l.
Proof.
  intros g g' l [e [[He [[Hs Hk] [Ht Hen]]] Hn]] Ho. destruct (Hn Ho) as [Fs Fk].
  exists e. split; [split; [exact He | split; [split | split; assumption]] | intros _; split; assumption].
  - intros x. destruct (slot_kind x) eqn:K.
    + left. destruct x; try discriminate K. exact Ho.
    + left. apply Fs; exact K.
    + specialize (Hs x). rewrite K in Hs. exact Hs.
    + specialize (Hs x). rewrite K in Hs. exact Hs.
    + destruct x; discriminate K.
  - intros k. destruct (key_kind k) eqn:K.
    + destruct k; discriminate K.
    + left. apply Fk. destruct k; try reflexivity; discriminate K.
    + destruct k; discriminate K.
    + specialize (Hk k). rewrite K in Hk. exact Hk.
    + left. apply Fk. destruct k; try reflexivity; discriminate K.
Qed.

Lemma LC_cases : forall l g, LC l ->
  (sl l S_omega = None /\ LCG g l) \/ (exists g', sl l S_omega = Some (TF g') /\ LCO g' l).
Proof.
  intros l g [g' [e H]]. destruct (sl l S_omega) eqn:Ho.
  - right. destruct H as [[He [[Hs Hk] Hr]] Hn]. pose proof (Hs S_omega) as Hw. rewrite Ho in Hw.
    destruct Hw as [Hw | Hw]; [discriminate | ]. simpl in Hw. injection Hw as ->.
    exists g'. split; [reflexivity | exists e; split; [split; [exact He | split; [split; assumption | exact Hr]] | exact Ho]].
  - left. split; [reflexivity | apply (LCG_none_any g' g); [exists e; exact H | exact Ho]].
Qed.

(* ================================================================== weakest preconditions *)
Definition wp {A} (m : M A) (Q : A -> lst -> Prop) (E : exn -> lst -> Prop) (l : lst) : Prop :=
  forall k, match m l k with
            | (l', _, Ret a) => Q a l'
            | (l', _, Raise e) => E e l'
            end.

Lemma wp_ret : forall A (a : A) (Q : A -> lst -> Prop) (E : exn -> lst -> Prop) l, Q a l -> wp (ret a) Q E l.
Proof. intros; intro k; exact H. Qed.
Lemma wp_bind : forall A B (m : M A) (f : A -> M B) (Q : B -> lst -> Prop) (E : exn -> lst -> Prop) l,
  wp m (fun a l' => wp (f a) Q E l') E l -> wp (bind m f) Q E l.
Proof.
  intros A B m f Q E l H k. unfold bind. specialize (H k).
  destruct (m l k) as [[l' k'] [a | e]]; [apply H | exact H].
Qed.
Lemma wp_conseq : forall A (m : M A) (Q Q' : A -> lst -> Prop) (E E' : exn -> lst -> Prop) l,
  wp m Q E l -> (forall a l', Q a l' -> Q' a l') -> (forall e l', E e l' -> E' e l') -> wp m Q' E' l.
Proof.
  intros A m Q Q' E E' l H HQ HE k. specialize (H k).
  destruct (m l k) as [[l' k'] [a | e]]; [apply HQ | apply HE]; exact H.
Qed.
(* bind + consequence: run m under its specification R, continue with R as a hypothesis *)
Lemma wp_seq : forall A B (m : M A) (f : A -> M B) (R : A -> lst -> Prop) (Q : B -> lst -> Prop) (E : exn -> lst -> Prop) l,
  wp m R E l -> (forall a l', R a l' -> wp (f a) Q E l') -> wp (bind m f) Q E l.
Proof.
  intros. apply wp_bind. eapply wp_conseq; [exact H | exact H0 | auto].
Qed.
Lemma wp_raise : forall A e (Q : A -> lst -> Prop) (E : exn -> lst -> Prop) l, E e l -> wp (raise e) Q E l.
Proof. intros; intro k; exact H. Qed.
Lemma wp_lift_ret : forall A (a : A) (Q : A -> lst -> Prop) (E : exn -> lst -> Prop) l, Q a l -> wp (lift (Ret a)) Q E l.
Proof. intros; intro k; exact H. Qed.

Definition setL (l : lst) s v := mkL (upd (sl l) s v) (di l) (dnew l) (tr l).
Definition setK (l : lst) k v := mkL (sl l) (updk (di l) k v) (dnew l) (tr l).
Definition logL (l : lst) lab := mkL (sl l) (di l) (dnew l) (tr l ++ [lab]).

Lemma wp_getslot : forall s (Q : option tag -> lst -> Prop) (E : exn -> lst -> Prop) l, Q (sl l s) l -> wp (getslot s) Q E l.
Proof. intros; intro k; exact H. Qed.
Lemma wp_is_cached : forall s (Q : bool -> lst -> Prop) (E : exn -> lst -> Prop) l,
  Q (match sl l s with Some _ => true | None => false end) l -> wp (is_cached s) Q E l.
Proof. intros; intro k; exact H. Qed.
Lemma wp_setslot : forall s v (Q : unit -> lst -> Prop) (E : exn -> lst -> Prop) l, Q tt (setL l s v) -> wp (setslot s v) Q E l.
Proof. intros; intro k; exact H. Qed.
Lemma wp_getkey : forall key (Q : option tag -> lst -> Prop) (E : exn -> lst -> Prop) l, Q (di l key) l -> wp (getkey key) Q E l.
Proof. intros; intro k; exact H. Qed.
Lemma wp_setkey : forall key v (Q : unit -> lst -> Prop) (E : exn -> lst -> Prop) l, Q tt (setK l key v) -> wp (setkey key v) Q E l.
Proof. intros; intro k; exact H. Qed.
Lemma wp_may_raise : forall lab (Q : unit -> lst -> Prop) (E : exn -> lst -> Prop) l,
  E (E_injected lab) (logL l lab) -> Q tt (logL l lab) -> wp (may_raise lab) Q E l.
Proof. intros lab Q E l HE HQ k. unfold may_raise. destruct k as [[|k]|]; assumption. Qed.

(* the predicates do not look at the trace *)
Lemma LP_log : forall g l lab, LP g l -> LP g (logL l lab). Proof. intros; exact H. Qed.
Lemma LCG_log : forall g l lab, LCG g l -> LCG g (logL l lab). Proof. intros; exact H. Qed.
Lemma LCO_log : forall g l lab, LCO g l -> LCO g (logL l lab). Proof. intros; exact H. Qed.
Lemma LC_log : forall l lab, LC l -> LC (logL l lab). Proof. intros; exact H. Qed.

(* ------------------------------------------------------------------ setting slots *)
(* slots whose content does not refer to the eigen-decomposition, propagators excepted (set only by diagonalize) *)
Definition plain_slot (s : slot) : bool :=
  match slot_kind s with KE | KFE => false | _ => negb (slot_eqb s S_propagators) end.
Definition want0 (g : grid) (k : kind) : tag := match k with KFI => TI | _ => TF g end.

Lemma plain_not_trio : forall s, plain_slot s = true -> s <> S_eigvals /\ s <> S_eigvecs /\ s <> S_propagators.
Proof. intros s H; repeat split; intros ->; discriminate H. Qed.
Lemma Trio_upd : forall f s v, s <> S_eigvals -> s <> S_eigvecs -> s <> S_propagators -> Trio f -> Trio (upd f s v).
Proof. intros f s v N1 N2 N3 H. unfold Trio. rewrite !upd_other by assumption. exact H. Qed.
Lemma want0_want : forall g e s, plain_slot s = true -> want g e (slot_kind s) = want0 g (slot_kind s).
Proof. intros g e s H. unfold plain_slot in H. destruct (slot_kind s); try reflexivity; discriminate H. Qed.

Lemma OP_set : forall g e l s, plain_slot s = true -> OP g e (sl l) (di l) ->
  OP g e (upd (sl l) s (Some (want0 g (slot_kind s)))) (di l).
Proof.
  intros g e l s Hp [He [[Hs Hk] [Ht Hen]]]. destruct (plain_not_trio s Hp) as [N1 [N2 N3]].
  split; [exact He | split; [split; [ | exact Hk] | split; [apply Trio_upd; assumption | ]]].
  - intros x. destruct (upd_cases _ (sl l) s x (Some (want0 g (slot_kind s)))) as [[<- ->] | [_ ->]]; [ | apply Hs].
    right. rewrite (want0_want g e s Hp). reflexivity.
  - rewrite upd_other by exact N2. exact Hen.
Qed.
Lemma OP_set_none : forall g e l s, plain_slot s = true -> OP g e (sl l) (di l) -> OP g e (upd (sl l) s None) (di l).
Proof.
  intros g e l s Hp [He [[Hs Hk] [Ht Hen]]]. destruct (plain_not_trio s Hp) as [N1 [N2 N3]].
  split; [exact He | split; [split; [ | exact Hk] | split; [apply Trio_upd; assumption | ]]].
  - intros x. destruct (upd_cases _ (sl l) s x None) as [[<- ->] | [_ ->]]; [left; reflexivity | apply Hs].
  - rewrite upd_other by exact N2. exact Hen.
Qed.

Lemma LP_set : forall g l s, plain_slot s = true -> LP g l -> LP g (setL l s (Some (want0 g (slot_kind s)))).
Proof. intros g l s Hp [e H]. exists e. apply (OP_set g e l s Hp H). Qed.
Lemma LCO_set : forall g l s, plain_slot s = true -> LCO g l -> LCO g (setL l s (Some (want0 g (slot_kind s)))).
Proof.
  intros g l s Hp [e [H Ho]]. exists e. split; [apply (OP_set g e l s Hp H) | ]. simpl.
  destruct (upd_cases _ (sl l) s S_omega (Some (want0 g (slot_kind s)))) as [[-> ->] | [_ ->]]; [reflexivity | exact Ho].
Qed.
Lemma LP_set_omega : forall g l, LP g l -> LCO g (setL l S_omega (Some (TF g))).
Proof.
  intros g l [e H]. exists e. split; [apply (OP_set g e l S_omega eq_refl H) | simpl; apply upd_same].
Qed.
(* a frequency-independent slot can be filled at any time *)
Lemma fi_plain : forall s, slot_kind s = KFI -> s <> S_propagators -> plain_slot s = true.
Proof. intros s K N. unfold plain_slot. rewrite K. destruct s; try reflexivity; try discriminate K. contradiction. Qed.
Lemma LCG_set_fi : forall g l s, slot_kind s = KFI -> s <> S_propagators -> LCG g l -> LCG g (setL l s (Some TI)).
Proof.
  intros g l s K N [e [H Hn]]. pose proof (fi_plain s K N) as Hp. exists e. split.
  - pose proof (OP_set g e l s Hp H) as H'. rewrite K in H'. exact H'.
  - simpl. destruct (upd_cases _ (sl l) s S_omega (Some TI)) as [[-> _] | [Hne ->]]; [discriminate K | ].
    intros Ho. destruct (Hn Ho) as [Fs Fk]. split; [ | exact Fk].
    intros x Kx. destruct (upd_cases _ (sl l) s x (Some TI)) as [[-> _] | [_ ->]]; [congruence | apply Fs; exact Kx].
Qed.
Lemma LCO_set_fi : forall g l s, slot_kind s = KFI -> s <> S_propagators -> LCO g l -> LCO g (setL l s (Some TI)).
Proof. intros g l s K N H. pose proof (LCO_set g l s (fi_plain s K N) H) as H'. rewrite K in H'. exact H'. Qed.
Lemma fd_plain : forall s, slot_kind s = KFD -> plain_slot s = true.
Proof. intros s K. unfold plain_slot. rewrite K. destruct s; try reflexivity; discriminate K. Qed.
Lemma LCO_set_fd : forall g l s, slot_kind s = KFD -> LCO g l -> LCO g (setL l s (Some (TF g))).
Proof. intros g l s K H. pose proof (LCO_set g l s (fd_plain s K) H) as H'. rewrite K in H'. exact H'. Qed.

(* read a frequency-dependent value under LP *)
Lemma LP_read : forall g l s t, LP g l -> slot_kind s = KFD -> sl l s = Some t -> t = TF g.
Proof.
  intros g l s t [e [_ [[Hs _] _]]] K E. destruct (Hs s) as [H | H]; rewrite E in H; [discriminate | ].
  rewrite K in H. injection H; auto.
Qed.
Lemma LP_eigvecs : forall g l, LP g l ->
  sl l S_eigvecs = None \/ exists e, edec e /\ sl l S_eigvecs = Some e /\ OP g e (sl l) (di l).
Proof.
  intros g l [e H]. pose proof H as [He [[Hs _] _]]. destruct (Hs S_eigvecs) as [E | E]; [left; exact E | ].
  right. exists e. split; [exact He | split; [exact E | exact H]].
Qed.

(* ================================================================== cleanup (uses the extracted attribute sets) *)
Lemma cleanup_FreqDep_char : forall l k, exists l',
  cleanup FreqDep l k = (l', k, Ret tt) /\
  (forall s, sl l' s = match slot_kind s with KFI | KE => sl l s | _ => None end) /\
  (forall key, di l' key = if key_fd key then None else di l key).
Proof.
  intros [s d n t] k. eexists. split; [vm_compute; reflexivity | ].
  split; intros x; destruct x; reflexivity.
Qed.
Lemma cleanup_Conservative_char : forall l k, exists l',
  cleanup Conservative l k = (l', k, Ret tt) /\
  (forall s, sl l' s = match s with S_eigvals | S_eigvecs | S_propagators => None | _ => sl l s end) /\
  (forall key, di l' key = None).
Proof.
  intros [s d n t] k. eexists. split; [vm_compute; reflexivity | ].
  split; intros x; destruct x; reflexivity.
Qed.
Lemma cleanup_Greedy_char : forall l k, exists l',
  cleanup Greedy l k = (l', k, Ret tt) /\
  (forall s, sl l' s = match s with
                       | S_eigvals | S_eigvecs | S_propagators | S_total_propagator | S_total_phases
                       | S_total_propagator_liouville | S_control_matrix | S_control_matrix_pc => None
                       | _ => sl l s end) /\
  (forall key, di l' key = None).
Proof.
  intros [s d n t] k. eexists. split; [vm_compute; reflexivity | ].
  split; intros x; destruct x; reflexivity.
Qed.
Lemma cleanup_CleanAll_char : forall l k, exists l',
  cleanup CleanAll l k = (l', k, Ret tt) /\
  (forall s, sl l' s = match s with S_t | S_tau => sl l s | _ => None end) /\
  (forall key, di l' key = None).
Proof.
  intros [s d n t] k. eexists. split; [vm_compute; reflexivity | ].
  split; intros x; destruct x; reflexivity.
Qed.

(* removing values keeps an object coherent as long as _omega is not removed alone, the eigen-data is removed
   as a whole, and the eigenbasis-dependent intermediates go with it *)
Lemma LCG_clear : forall g l l', LCG g l ->
  (forall s, sl l' s = None \/ sl l' s = sl l s) -> (forall k, di l' k = None \/ di l' k = di l k) ->
  (sl l' S_omega = sl l S_omega \/ FDNone (sl l') (di l')) ->
  Trio (sl l') -> (sl l' S_eigvecs = None -> EKeysNone (di l')) -> LCG g l'.
Proof.
  intros g l l' [e [[He [[Hs Hk] [_ _]]] Hn]] Cs Ck Ho Ht Hen. exists e.
  split; [split; [exact He | split; [split | split; assumption]] | ].
  - intros x. destruct (Cs x) as [-> | ->]; [left; reflexivity | apply Hs].
  - intros x. destruct (Ck x) as [-> | ->]; [left; reflexivity | apply Hk].
  - intros Hnone. destruct Ho as [Ho | Ho]; [ | exact Ho].
    rewrite Ho in Hnone. destruct (Hn Hnone) as [Fs Fk]. split.
    + intros x K. destruct (Cs x) as [-> | ->]; [reflexivity | apply Fs; exact K].
    + intros x K. destruct (Ck x) as [-> | ->]; [reflexivity | apply Fk; exact K].
Qed.

Lemma wp_of_eq : forall A (m : M A) (Q : A -> lst -> Prop) (E : exn -> lst -> Prop) l,
  (forall k, exists l' a, m l k = (l', k, Ret a) /\ Q a l') -> wp m Q E l.
Proof. intros A m Q E l H k. destruct (H k) as [l' [a [-> HQ]]]. exact HQ. Qed.

Lemma LCG_Trio : forall g l, LCG g l -> Trio (sl l) /\ (sl l S_eigvecs = None -> EKeysNone (di l)).
Proof. intros g l [e [[_ [_ H]] _]]; exact H. Qed.

Lemma wp_cleanup_any : forall m g l (Q : unit -> lst -> Prop) (E : exn -> lst -> Prop),
  LCG g l -> (forall l', LCG g l' -> Q tt l') -> wp (cleanup m) Q E l.
Proof.
  intros m g l Q E H HQ. apply wp_of_eq. intros k. destruct (LCG_Trio g l H) as [Ht Hen]. destruct m.
  - destruct (cleanup_Conservative_char l k) as [l' [-> [Cs Ck]]]. exists l', tt. split; [reflexivity | ].
    apply HQ. apply (LCG_clear g l l' H).
    + intros s; rewrite Cs; destruct s; auto.
    + intros x; rewrite Ck; auto.
    + left; rewrite Cs; reflexivity.
    + left. rewrite !Cs. auto.
    + intros _. unfold EKeysNone. rewrite !Ck. auto.
  - destruct (cleanup_Greedy_char l k) as [l' [-> [Cs Ck]]]. exists l', tt. split; [reflexivity | ].
    apply HQ. apply (LCG_clear g l l' H).
    + intros s; rewrite Cs; destruct s; auto.
    + intros x; rewrite Ck; auto.
    + left; rewrite Cs; reflexivity.
    + left. rewrite !Cs. auto.
    + intros _. unfold EKeysNone. rewrite !Ck. auto.
  - destruct (cleanup_FreqDep_char l k) as [l' [-> [Cs Ck]]]. exists l', tt. split; [reflexivity | ].
    apply HQ. apply (LCG_clear g l l' H).
    + intros s; rewrite Cs; destruct (slot_kind s); auto.
    + intros x; rewrite Ck; destruct (key_fd x); auto.
    + right; split; [intros s K; rewrite Cs, K; reflexivity | intros x K; rewrite Ck, K; reflexivity].
    + unfold Trio. rewrite !Cs. exact Ht.
    + rewrite Cs. simpl. intros E0. destruct (Hen E0) as [E1 [E2 E3]]. unfold EKeysNone. rewrite !Ck. simpl.
      auto.
  - destruct (cleanup_CleanAll_char l k) as [l' [-> [Cs Ck]]]. exists l', tt. split; [reflexivity | ].
    apply HQ. apply (LCG_clear g l l' H).
    + intros s; rewrite Cs; destruct s; auto.
    + intros x; rewrite Ck; auto.
    + right; split; [intros s K; rewrite Cs; destruct s; try reflexivity; discriminate K | intros x _; apply Ck].
    + left. rewrite !Cs. auto.
    + intros _. unfold EKeysNone. rewrite !Ck. auto.
Qed.

(* cleanup('frequency dependent') makes the object coherent for every grid, whatever was cached *)
Lemma wp_cleanup_fd : forall g0 l (Q : unit -> lst -> Prop) (E : exn -> lst -> Prop),
  LP g0 l -> (forall l', (forall g, LCG g l') -> sl l' S_omega = None -> Q tt l') -> wp (cleanup FreqDep) Q E l.
Proof.
  intros g0 l Q E [e [He [[Hs Hk] [Ht Hen]]]] HQ. apply wp_of_eq. intros k.
  destruct (cleanup_FreqDep_char l k) as [l' [-> [Cs Ck]]]. exists l', tt. split; [reflexivity | ].
  apply HQ; [ | rewrite Cs; reflexivity].
  intros g. exists e. split; [split; [exact He | split; [split | split]] | intros _; split].
  - intros x. rewrite Cs. destruct (slot_kind x) eqn:K; try (left; reflexivity);
      specialize (Hs x); rewrite K in Hs; exact Hs.
  - intros x. rewrite Ck. specialize (Hk x). destruct x; simpl in *; try (left; reflexivity); exact Hk.
  - unfold Trio. rewrite !Cs. exact Ht.
  - rewrite Cs. simpl. intros E0. destruct (Hen E0) as [E1 [E2 E3]]. unfold EKeysNone. rewrite !Ck. simpl. auto.
  - intros x K. rewrite Cs, K. reflexivity.
  - intros x K. rewrite Ck, K. reflexivity.
Qed.

(* ================================================================== the methods of the repaired source *)
Ltac wprim := lazymatch goal with
  | |- wp (getslot _) _ _ _ => apply wp_getslot
  | |- wp (is_cached _) _ _ _ => apply wp_is_cached
  | |- wp (getkey _) _ _ _ => apply wp_getkey
  | |- wp (setslot _ _) _ _ _ => apply wp_setslot
  | |- wp (setkey _ _) _ _ _ => apply wp_setkey
  end; cbv beta.
Ltac wnext := apply wp_bind; wprim.

(* the guard of the cache_* methods *)
Lemma wp_guard_LC : forall g l (Q : unit -> lst -> Prop) (E : exn -> lst -> Prop),
  LC l -> (forall l', LCG g l' -> Q tt l') -> wp (guard fixed g) Q E l.
Proof.
  intros g l Q E H HQ. unfold guard. cbn [m_clear_on_cache fixed]. wnext. unfold omega_equal. apply wp_bind. wnext. apply wp_ret.
  destruct (LC_cases l g H) as [[Ho Hg] | [g' [Ho Hg]]]; rewrite Ho; simpl.
  - apply wp_ret, HQ, Hg.
  - destruct (grid_eqb g' g) eqn:Eg; simpl.
    + apply grid_eqb_eq in Eg. subst g'. apply wp_ret, HQ, LCO_LCG, Hg.
    + apply (wp_cleanup_fd g'); [apply LCO_LP; exact Hg | intros l' Hl' _; apply HQ, Hl'].
Qed.
Lemma guard_noop : forall g l k, LP g l -> guard fixed g l k = (l, k, Ret tt).
Proof.
  intros g l k [e [_ [[Hs _] _]]]. unfold guard, bind, is_cached, omega_equal, bind, getslot, ret. simpl.
  destruct (Hs S_omega) as [-> | ->]; simpl; [reflexivity | rewrite grid_eqb_refl; reflexivity].
Qed.
Lemma wp_guard_LP : forall g l (Q : unit -> lst -> Prop) (E : exn -> lst -> Prop),
  LP g l -> Q tt l -> wp (guard fixed g) Q E l.
Proof. intros g l Q E H HQ k. rewrite (guard_noop g l k H). exact HQ. Qed.

Section Specs.
Variable allowed : exn -> Prop.
Hypothesis Hinj : forall lab, allowed (E_injected lab).
Definition EA (e : exn) (l : lst) : Prop := LC l /\ allowed e.

(* predicates that survive filling a frequency-independent slot and logging a routine call *)
(* what numeric.diagonalize installs *)
Definition diagL (l : lst) : lst :=
  setL (setL (setL l S_eigvals (Some TI)) S_eigvecs (Some TI)) S_propagators (Some TI).

Definition stable (P : lst -> Prop) : Prop :=
  (forall l s, slot_kind s = KFI -> s <> S_propagators -> P l -> P (setL l s (Some TI))) /\
  (forall l lab, P l -> P (logL l lab)) /\ (forall l, P l -> LC l) /\
  (forall l, P l -> sl l S_eigvecs = None -> P (diagL l)).

(* re-diagonalization when no eigen-data is cached: the decomposition becomes the canonical one; nothing
   expressed in another decomposition can be around (Trio, EKeysNone) *)
Lemma diagL_char : forall l x,
  sl (diagL l) x = match x with S_eigvals | S_eigvecs | S_propagators => Some TI | _ => sl l x end.
Proof. intros l x; destruct x; reflexivity. Qed.
Lemma OP_diag : forall g e l, OP g e (sl l) (di l) -> sl l S_eigvecs = None -> OP g TI (sl (diagL l)) (di l).
Proof.
  intros g e l [He [[Hs Hk] [Ht Hen]]] E0. destruct (Hen E0) as [K1 [K2 K3]].
  split; [left; reflexivity | split; [split | split]].
  - intros x. rewrite diagL_char. destruct x; try (right; reflexivity);
      first [exact (Hs S_t) | exact (Hs S_tau) | exact (Hs S_omega) | exact (Hs S_total_phases)
            | exact (Hs S_total_propagator) | exact (Hs S_total_propagator_liouville) | exact (Hs S_control_matrix)
            | exact (Hs S_control_matrix_pc) | exact (Hs S_filter_function) | exact (Hs S_filter_function_gen)
            | exact (Hs S_filter_function_pc) | exact (Hs S_filter_function_pc_gen) | exact (Hs S_filter_function_2)].
  - intros k. destruct k; try (left; assumption);
      first [exact (Hk K_phase_factors) | exact (Hk K_control_matrix_step)].
  - right. rewrite !diagL_char. repeat split; discriminate.
  - rewrite diagL_char. discriminate.
Qed.
Lemma diagL_other : forall l x, x <> S_eigvals -> x <> S_eigvecs -> x <> S_propagators -> sl (diagL l) x = sl l x.
Proof. intros l x N1 N2 N3. rewrite diagL_char. destruct x; try reflexivity; contradiction. Qed.
Lemma LCG_diag : forall g l, LCG g l -> sl l S_eigvecs = None -> LCG g (diagL l).
Proof.
  intros g l [e [H Hn]] E0. exists TI. split; [apply (OP_diag g e l H E0) | ].
  rewrite diagL_other by discriminate. intros Ho. destruct (Hn Ho) as [Fs Fk]. split; [ | exact Fk].
  intros x K. rewrite diagL_other by (intros ->; discriminate K). apply Fs, K.
Qed.
Lemma LCO_diag : forall g l, LCO g l -> sl l S_eigvecs = None -> LCO g (diagL l).
Proof.
  intros g l [e [H Ho]] E0. exists TI. split; [apply (OP_diag g e l H E0) | ].
  rewrite diagL_other by discriminate. exact Ho.
Qed.

Lemma stable_LCG : forall g, stable (LCG g).
Proof.
  intros g; split; [intros; apply LCG_set_fi; assumption | split; [intros; assumption | split; [apply LCG_LC | apply LCG_diag]]].
Qed.
Lemma stable_LCO : forall g, stable (LCO g).
Proof.
  intros g; split; [intros; apply LCO_set_fi; assumption | split; [intros; assumption | split; [apply LCO_LC | apply LCO_diag]]].
Qed.
Lemma stable_LC : stable LC.
Proof.
  split; [ | split; [intros; assumption | split; [auto | ]]].
  - intros l s K N [g [e H]]. apply (LCG_LC g). apply (LCG_set_fi g l s K N). exists e; exact H.
  - intros l [g [e H]] E0. apply (LCG_LC g). apply LCG_diag; [exists e; exact H | exact E0].
Qed.
(* a predicate together with "the eigen-data is cached" *)
Lemma stable_with_eig : forall P, stable P -> stable (fun l => P l /\ sl l S_eigvecs <> None).
Proof.
  intros P [Hset [Hlog [HLC Hdiag]]]. split; [ | split; [ | split]].
  - intros l s K N [HP Hne]. split; [apply Hset; assumption | ]. simpl.
    rewrite upd_other; [exact Hne | intros ->; discriminate K].
  - intros l lab [HP Hne]. split; [apply Hlog, HP | exact Hne].
  - intros l [HP _]. apply HLC, HP.
  - intros l [_ Hne] E0. contradiction.
Qed.

Ltac wraise HP Hlog HLC := apply wp_may_raise; [split; [apply HLC, Hlog, HP | apply Hinj] | ].

Lemma wp_t_prop : forall P (Q : unit -> lst -> Prop) l, stable P -> P l -> (forall l', P l' -> Q tt l') -> wp t_prop Q EA l.
Proof.
  intros P Q l [Hset [Hlog [HLC _]]] HP HQ. unfold t_prop. wnext.
  destruct (sl l S_t); [apply wp_ret, HQ, HP | apply wp_setslot, HQ, Hset; [reflexivity | discriminate | exact HP]].
Qed.
Lemma wp_tau_prop : forall P (Q : unit -> lst -> Prop) l, stable P -> P l -> (forall l', P l' -> Q tt l') -> wp tau_prop Q EA l.
Proof.
  intros P Q l HS HP HQ. unfold tau_prop. apply wp_bind. apply (wp_t_prop P); [exact HS | exact HP | ].
  intros l1 H1. cbv beta. destruct HS as [Hset _]. apply wp_setslot, HQ, Hset; [reflexivity | discriminate | exact H1].
Qed.
Lemma LC_Trio : forall l, LC l -> Trio (sl l).
Proof. intros l [g [e [[_ [_ [H _]]] _]]]; exact H. Qed.
(* diagonalize: afterwards the eigen-data is cached *)
Lemma wp_diagonalize_eig : forall P (Q : unit -> lst -> Prop) l, stable P -> P l ->
  (forall l', P l' -> sl l' S_eigvecs <> None -> Q tt l') -> wp diagonalize Q EA l.
Proof.
  intros P Q l [Hset [Hlog [HLC Hdiag]]] HP HQ. unfold diagonalize. wnext. wnext. wnext.
  apply wp_seq with (R := fun _ l' => P l' /\ sl l' S_eigvecs <> None).
  - destruct (LC_Trio l (HLC l HP)) as [[E1 [E2 E3]] | [N1 [N2 N3]]].
    + rewrite E1, E2, E3. cbn [andb].
      apply wp_bind. wraise HP Hlog HLC. cbv beta.
      wnext. wnext. apply wp_setslot.
      change (setL (setL (setL (logL l L_diag) S_eigvals (Some TI)) S_eigvecs (Some TI)) S_propagators (Some TI))
        with (diagL (logL l L_diag)).
      split; [apply Hdiag; [apply Hlog, HP | exact E2] | ].
      rewrite diagL_char. discriminate.
    + destruct (sl l S_eigvals); [ | contradiction]. destruct (sl l S_eigvecs) eqn:E2; [ | contradiction].
      destruct (sl l S_propagators); [ | contradiction]. cbn [andb]. apply wp_ret. split; [exact HP | rewrite E2; discriminate].
  - intros _ l' [HP' Hne]. apply wp_setslot, HQ; [apply Hset; [reflexivity | discriminate | exact HP'] | ].
    simpl. rewrite upd_other by discriminate. exact Hne.
Qed.
Lemma wp_diagonalize : forall P (Q : unit -> lst -> Prop) l, stable P -> P l -> (forall l', P l' -> Q tt l') -> wp diagonalize Q EA l.
Proof. intros P Q l HS HP HQ. apply (wp_diagonalize_eig P); [exact HS | exact HP | intros l' H' _; apply HQ, H']. Qed.
Lemma wp_lazy_prop : forall s P (Q : unit -> lst -> Prop) l, stable P -> P l -> (forall l', P l' -> Q tt l') -> wp (lazy_prop s) Q EA l.
Proof.
  intros s P Q l HS HP HQ. unfold lazy_prop. wnext.
  destruct (sl l s); [apply wp_ret, HQ, HP | apply (wp_diagonalize P); assumption].
Qed.
Lemma wp_tpl_prop : forall P (Q : unit -> lst -> Prop) l, stable P -> P l -> (forall l', P l' -> Q tt l') -> wp tpl_prop Q EA l.
Proof.
  intros P Q l HS HP HQ. unfold tpl_prop. wnext.
  destruct (sl l S_total_propagator_liouville); [apply wp_ret, HQ, HP | ].
  apply wp_bind. apply (wp_lazy_prop _ P); [exact HS | exact HP | ]. intros l1 HP1. cbv beta.
  destruct HS as [Hset [Hlog [HLC _]]].
  apply wp_bind. wraise HP1 Hlog HLC. cbv beta.
  apply wp_setslot, HQ, Hset; [reflexivity | discriminate | apply Hlog, HP1].
Qed.

(* cache_total_phases(omega) with computed or correct user data: coherent -> coherent with _omega = g *)
Lemma wp_cache_total_phases : forall g u (Q : unit -> lst -> Prop) l,
  (u = None \/ u = Some (TF g)) -> LC l ->
  (forall l', LCO g l' -> sl l' S_total_phases = Some (TF g) -> Q tt l') ->
  wp (cache_total_phases fixed g u) Q EA l.
Proof.
  intros g u Q l Hu H HQ. unfold cache_total_phases.
  apply wp_bind. apply wp_guard_LC; [exact H | ]. intros l1 H1. cbv beta.
  apply wp_seq with (R := fun v l' => LCG g l' /\ v = TF g).
  - destruct Hu as [-> | ->]; [ | apply wp_ret; split; [exact H1 | reflexivity]].
    apply wp_bind. apply (wp_tau_prop (LCG g)); [apply stable_LCG | exact H1 | ]. intros l2 H2. cbv beta.
    apply wp_bind. apply wp_may_raise; [split; [eapply LCG_LC, H2 | apply Hinj] | ]. cbv beta.
    apply wp_ret. split; [exact H2 | reflexivity].
  - intros v l2 [H2 ->]. wnext. apply wp_setslot, HQ.
    + apply (LCO_set_fd g _ S_total_phases); [reflexivity | ]. apply LP_set_omega, LCG_LP, H2.
    + reflexivity.
Qed.

Definition getter_post (g : grid) (l : lst) (Q : tag * how -> lst -> Prop) : Prop :=
  forall r l', LCO g l' -> fst r = TF g -> (snd r <> Computed -> sl l S_omega = Some (TF g)) -> Q r l'.

Lemma wp_get_total_phases : forall g (Q : tag * how -> lst -> Prop) l,
  LC l -> getter_post g l Q -> wp (get_total_phases fixed g) Q EA l.
Proof.
  intros g Q l H HQ. unfold get_total_phases, omega_equal.
  apply wp_bind. wnext. apply wp_ret.
  assert (Hcomp : forall l1, LC l1 ->
     wp (cache_total_phases fixed g None;;; v <- getslot S_total_phases;;
         ret (match v with Some v => v | None => TI end, Computed)) Q EA l1).
  { intros l1 H1. apply wp_bind.
    apply wp_cache_total_phases; [left; reflexivity | exact H1 | ]. intros l2 H2 Et. cbv beta.
    wnext. apply wp_ret. rewrite Et. apply HQ; [exact H2 | reflexivity | simpl; congruence]. }
  destruct (LC_cases l g H) as [[Ho Hg] | [g' [Ho Hg]]]; rewrite Ho; cbv iota beta.
  - apply wp_bind. apply wp_bind. apply (wp_cleanup_fd g); [apply LCG_LP, Hg | ]. intros l1 H1 _. cbv beta.
    apply wp_ret. apply Hcomp. eapply LCG_LC, (H1 g).
  - destruct (grid_eqb g' g) eqn:Eg.
    + apply grid_eqb_eq in Eg. subst g'. apply wp_bind. wprim.
      destruct (sl l S_total_phases) eqn:Et.
      * apply wp_ret. apply HQ; [exact Hg | simpl; apply (LP_read g l S_total_phases); [apply LCO_LP, Hg | reflexivity | exact Et] | intros _; exact Ho].
      * apply Hcomp. eapply LCO_LC, Hg.
    + apply wp_bind. apply wp_bind. apply (wp_cleanup_fd g'); [apply LCO_LP, Hg | ]. intros l1 H1 _. cbv beta.
      apply wp_ret. apply Hcomp. eapply LCG_LC, (H1 g).
Qed.

(* predicates that survive every correct assignment for grid g (while _omega = g) *)
Definition stableG (g : grid) (P : lst -> Prop) : Prop :=
  (forall l s, plain_slot s = true -> P l -> P (setL l s (Some (want0 g (slot_kind s))))) /\
  (forall l lab, P l -> P (logL l lab)) /\ (forall l, P l -> LCO g l) /\
  (forall l, P l -> sl l S_eigvecs = None -> P (diagL l)).
Lemma stableG_stable : forall g P, stableG g P -> stable P.
Proof.
  intros g P [Hset [Hlog [HL Hdiag]]]. split; [ | split; [exact Hlog | split; [intros l H; eapply LCO_LC, HL, H | exact Hdiag]]].
  intros l s K N H. pose proof (Hset l s (fi_plain s K N) H) as H'. rewrite K in H'. exact H'.
Qed.
Lemma stableG_LCO : forall g, stableG g (LCO g).
Proof. intros g. split; [intros; apply LCO_set; assumption | split; [intros; assumption | split; [auto | apply LCO_diag]]]. Qed.
Definition PX (g : grid) (X : slot) (l : lst) : Prop := LCO g l /\ sl l X = Some (TF g).
Lemma stableG_PX : forall g X, slot_kind X = KFD -> stableG g (PX g X).
Proof.
  intros g X K. split; [ | split; [intros l lab H; exact H | split; [intros l [H _]; exact H | ]]].
  - intros l s Hp [H E]. split; [apply LCO_set; assumption | ]. simpl.
    destruct (upd_cases _ (sl l) s X (Some (want0 g (slot_kind s)))) as [[-> ->] | [_ ->]]; [ | exact E].
    rewrite K. reflexivity.
  - intros l [H E] E0. split; [apply LCO_diag; assumption | ].
    rewrite diagL_other by (intros ->; discriminate K). exact E.
Qed.

Lemma wp_cache_total_phases_G : forall g P (Q : unit -> lst -> Prop) l,
  stableG g P -> P l -> (forall l', P l' -> sl l' S_total_phases = Some (TF g) -> Q tt l') ->
  wp (cache_total_phases fixed g None) Q EA l.
Proof.
  intros g P Q l HS HP HQ. unfold cache_total_phases.
  pose proof (stableG_stable g P HS) as HS'. destruct HS as [Hset [Hlog [HL _]]].
  apply wp_bind. apply wp_guard_LP; [apply LCO_LP, HL, HP | ]. cbv beta.
  apply wp_bind. apply wp_bind. apply (wp_tau_prop P); [exact HS' | exact HP | ]. intros l2 H2. cbv beta.
  apply wp_bind. apply wp_may_raise; [split; [eapply LCO_LC, HL, Hlog, H2 | apply Hinj] | ]. cbv beta.
  apply wp_ret. wnext. apply wp_setslot, HQ; [ | reflexivity].
  apply (Hset _ S_total_phases eq_refl). apply (Hset _ S_omega eq_refl). apply Hlog, H2.
Qed.

(* cache_control_matrix from "self.omega = omega" on *)
Lemma wp_cache_cm_rest : forall g (b : bool) (Q : unit -> lst -> Prop) l,
  LP g l ->
  (forall l', LCO g l' -> sl l' (if b then S_control_matrix_pc else S_control_matrix) = Some (TF g) -> Q tt l') ->
  wp (cache_cm_rest fixed g (TF g) b) Q EA l.
Proof.
  intros g b Q l H HQ. unfold cache_cm_rest. wnext.
  pose proof (LP_set_omega g l H) as H1.
  apply wp_bind. apply wp_may_raise; [split; [eapply LCO_LC, H1 | apply Hinj] | ]. cbv beta.
  set (X := if b then S_control_matrix_pc else S_control_matrix).
  assert (KX : slot_kind X = KFD) by (unfold X; destruct b; reflexivity).
  apply wp_seq with (R := fun _ l' => PX g X l').
  - unfold X. destruct b; apply wp_setslot; (split; [apply LCO_set_fd; [reflexivity | exact H1] | reflexivity]).
  - intros _ l2 H2. apply wp_bind.
    apply (wp_cache_total_phases_G g (PX g X)); [apply stableG_PX, KX | exact H2 | ]. intros l3 H3 _. cbv beta.
    apply (wp_tpl_prop (PX g X)); [eapply stableG_stable, stableG_PX, KX | exact H3 | ].
    intros l4 [H4 E4]. apply HQ; assumption.
Qed.

Lemma wp_cache_cm_given_LP : forall g (b : bool) (Q : unit -> lst -> Prop) l,
  LP g l ->
  (forall l', LCO g l' -> sl l' (if b then S_control_matrix_pc else S_control_matrix) = Some (TF g) -> Q tt l') ->
  wp (cache_cm_given fixed g (TF g) b) Q EA l.
Proof.
  intros g b Q l H HQ. unfold cache_cm_given. apply wp_bind. apply wp_guard_LP; [exact H | ]. cbv beta.
  apply wp_cache_cm_rest; assumption.
Qed.
Lemma wp_cache_cm_given_LC : forall g (b : bool) (Q : unit -> lst -> Prop) l,
  LC l ->
  (forall l', LCO g l' -> sl l' (if b then S_control_matrix_pc else S_control_matrix) = Some (TF g) -> Q tt l') ->
  wp (cache_cm_given fixed g (TF g) b) Q EA l.
Proof.
  intros g b Q l H HQ. unfold cache_cm_given. apply wp_bind. apply wp_guard_LC; [exact H | ]. intros l1 H1. cbv beta.
  apply wp_cache_cm_rest; [apply LCG_LP, H1 | assumption].
Qed.

(* _intermediates.update: the arrays are expressed in the cached decomposition *)
Lemma wp_update_intermediates : forall g t (Q : unit -> lst -> Prop) (E : exn -> lst -> Prop) l,
  LP g l -> sl l S_eigvecs = Some t -> (forall l', LP g l' -> Q tt l') -> wp (update_intermediates g t) Q E l.
Proof.
  intros g t Q E l [e [He [[Hs Hk] [Ht Hen]]]] Ev HQ. unfold update_intermediates.
  wnext. wnext. wnext. wnext. apply wp_setkey, HQ.
  assert (t = e) as ->.
  { destruct (Hs S_eigvecs) as [H | H]; rewrite Ev in H; [discriminate | injection H; auto]. }
  exists e. split; [exact He | split; [split; [exact Hs | ] | split; [exact Ht | ]]].
  - intros k. destruct k; simpl; try (right; reflexivity).
  - simpl. intros E0. rewrite Ev in E0. discriminate.
Qed.

Lemma wp_get_cm : forall g ci (Q : tag * how -> lst -> Prop) l,
  LC l -> getter_post g l Q -> wp (get_cm fixed g ci) Q EA l.
Proof.
  intros g ci Q l H HQ. unfold get_cm, omega_equal.
  apply wp_bind. wnext. apply wp_ret.
  assert (Hcomp : forall l1, LCG g l1 ->
     wp (diagonalize;;; t_prop;;; may_raise L_cm;;; ev <- getslot S_eigvecs;;
         (if ci then update_intermediates g (eig_tag_of ev) else ret tt);;;
         cache_cm_given fixed g (TF g) false;;; v <- getslot S_control_matrix;;
         ret (match v with Some v => v | None => TI end, Computed)) Q EA l1).
  { intros l1 H1. apply wp_bind.
    set (PE := fun l => LCG g l /\ sl l S_eigvecs <> None).
    assert (SPE : stable PE) by (apply stable_with_eig, stable_LCG).
    apply (wp_diagonalize_eig (LCG g)); [apply stable_LCG | exact H1 | ]. intros l2 H2 N2. cbv beta.
    apply wp_bind. apply (wp_t_prop PE); [exact SPE | split; assumption | ]. intros l3 [H3 N3]. cbv beta.
    apply wp_bind. apply wp_may_raise; [split; [eapply LCG_LC, H3 | apply Hinj] | ]. cbv beta.
    wnext. change (sl (logL l3 L_cm) S_eigvecs) with (sl l3 S_eigvecs).
    destruct (sl l3 S_eigvecs) as [t3 | ] eqn:Ev; [ | contradiction]. cbn [eig_tag_of].
    apply wp_seq with (R := fun _ l' => LP g l').
    - destruct ci; [apply wp_update_intermediates; [apply LCG_LP, H3 | exact Ev | auto] | apply wp_ret, LCG_LP, H3].
    - intros _ l4 H4. apply wp_bind. apply wp_cache_cm_given_LP; [exact H4 | ]. intros l5 H5 E5. cbv beta.
      wnext. apply wp_ret. rewrite E5. apply HQ; [exact H5 | reflexivity | simpl; congruence]. }
  destruct (LC_cases l g H) as [[Ho Hg] | [g' [Ho Hg]]]; rewrite Ho; cbv iota beta.
  - apply wp_bind. apply wp_bind. apply (wp_cleanup_fd g); [apply LCG_LP, Hg | ]. intros l1 H1 _. cbv beta.
    apply wp_ret. apply Hcomp, H1.
  - destruct (grid_eqb g' g) eqn:Eg.
    + apply grid_eqb_eq in Eg. subst g'. apply wp_bind. wnext.
      destruct (sl l S_control_matrix) eqn:Ec.
      * apply wp_ret, wp_ret. apply HQ; [exact Hg | simpl; apply (LP_read g l S_control_matrix); [apply LCO_LP, Hg | reflexivity | exact Ec] | intros _; exact Ho].
      * wnext. destruct (sl l S_control_matrix_pc) eqn:Ep.
        -- apply wp_bind. apply wp_may_raise; [split; [eapply LCO_LC, Hg | apply Hinj] | ]. cbv beta.
           pose proof (LP_read g l S_control_matrix_pc t (LCO_LP g l Hg) eq_refl Ep) as Et. subst t.
           wnext. apply wp_ret, wp_ret. apply HQ; [ | reflexivity | intros _; exact Ho].
           apply (LCO_set_fd g _ S_control_matrix); [reflexivity | exact Hg].
        -- apply wp_ret. apply Hcomp, LCO_LCG, Hg.
    + apply wp_bind. apply wp_bind. apply (wp_cleanup_fd g'); [apply LCO_LP, Hg | ]. intros l1 H1 _. cbv beta.
      apply wp_ret. apply Hcomp, H1.
Qed.

Lemma wp_cache_cm : forall g (user : option (tag * bool)) ci (Q : unit -> lst -> Prop) l,
  (user = None \/ exists b, user = Some (TF g, b)) -> LC l -> (forall l', LCO g l' -> Q tt l') ->
  wp (cache_cm fixed g user ci) Q EA l.
Proof.
  intros g user ci Q l Hu H HQ. unfold cache_cm.
  apply wp_bind. apply wp_guard_LC; [exact H | ]. intros l1 H1. cbv beta.
  apply wp_seq with (R := fun x l' => LP g l' /\ fst x = TF g).
  - destruct Hu as [-> | [b ->]]; [ | apply wp_ret; split; [apply LCG_LP, H1 | reflexivity]].
    apply wp_bind. apply wp_get_cm; [eapply LCG_LC, H1 | ]. intros r l2 H2 Er _. apply wp_ret.
    split; [apply LCO_LP, H2 | exact Er].
  - intros [t b] l2 [H2 Et]. simpl in Et. subst t. simpl. apply wp_cache_cm_rest; [exact H2 | ]. intros; apply HQ; assumption.
Qed.

Lemma LC_fd_some : forall l s v, LC l -> slot_kind s = KFD -> sl l s = Some v -> exists g, LCO g l /\ v = TF g.
Proof.
  intros l s v H K E. destruct (LC_cases l (0, 0) H) as [[Ho [e [_ Hn]]] | [g [Ho Hg]]].
  - destruct (Hn Ho) as [Fs _]. rewrite (Fs s K) in E. discriminate.
  - exists g. split; [exact Hg | ]. exact (LP_read g l s v (LCO_LP g l Hg) K E).
Qed.

Definition pc_post (l : lst) (Q : tag * how -> lst -> Prop) : Prop :=
  forall r l' g, LCO g l' -> sl l S_omega = Some (TF g) -> fst r = TF g -> snd r <> Computed -> Q r l'.

Lemma wp_get_pccm : forall (Q : tag * how -> lst -> Prop) l,
  allowed E_calc -> LC l -> pc_post l Q -> wp get_pccm Q EA l.
Proof.
  intros Q l Hc H HQ. unfold get_pccm. wnext. destruct (sl l S_control_matrix_pc) eqn:Ec.
  - destruct (LC_fd_some l S_control_matrix_pc t H eq_refl Ec) as [g [Hg ->]]. apply wp_ret. apply (HQ _ _ g); [exact Hg | apply (LCO_omega _ _ Hg) | reflexivity | discriminate].
  - apply wp_raise. split; assumption.
Qed.

Lemma wp_get_pcff : forall w (Q : tag * how -> lst -> Prop) l,
  allowed E_calc -> LC l -> pc_post l Q -> wp (get_pcff w) Q EA l.
Proof.
  intros w Q l Hc H HQ. unfold get_pcff. wnext.
  set (X := match w with Fidelity => S_filter_function_pc | Generalized => S_filter_function_pc_gen end).
  assert (KX : slot_kind X = KFD) by (unfold X; destruct w; reflexivity).
  destruct (sl l X) eqn:Ex.
  - destruct (LC_fd_some l _ t H KX Ex) as [g [Hg ->]]. apply wp_ret. apply (HQ _ _ g); [exact Hg | apply (LCO_omega _ _ Hg) | reflexivity | discriminate].
  - wnext. destruct (sl l S_control_matrix_pc) eqn:Ec.
    + destruct (LC_fd_some l S_control_matrix_pc t H eq_refl Ec) as [g [Hg ->]].
      apply wp_bind. apply wp_may_raise; [split; [exact H | apply Hinj] | ]. cbv beta.
      wnext. apply wp_ret. apply (HQ _ _ g); [ | apply (LCO_omega _ _ Hg) | reflexivity | discriminate].
      apply (LCO_set_fd g _ X KX). exact Hg.
    + apply wp_raise. split; assumption.
Qed.

(* predicates that only have to survive logging *)
Definition logstable (g : grid) (P : lst -> Prop) : Prop :=
  (forall l lab, P l -> P (logL l lab)) /\ (forall l, P l -> LP g l) /\ (forall l, P l -> LC l).
Lemma logstable_LCG : forall g, logstable g (LCG g).
Proof. intros g; split; [intros; assumption | split; [apply LCG_LP | apply LCG_LC]]. Qed.
Lemma logstable_LCO : forall g, logstable g (LCO g).
Proof. intros g; split; [intros; assumption | split; [apply LCO_LP | apply LCO_LC]]. Qed.

Lemma derive_1 : forall g, derive g [TF g] = Ret (TF g).
Proof. intros g. unfold derive. simpl. rewrite grid_eqb_refl. reflexivity. Qed.
Lemma derive_2 : forall g, derive g [TF g; TF g] = Ret (TF g).
Proof. intros g. unfold derive. simpl. rewrite grid_eqb_refl. reflexivity. Qed.
Lemma derive_it : forall g, derive g [TI; TF g] = Ret (TF g).
Proof. intros g. unfold derive. simpl. rewrite grid_eqb_refl. reflexivity. Qed.
Lemma derive_3 : forall g, derive g [TF g; TI; TF g] = Ret (TF g).
Proof. intros g. unfold derive. simpl. rewrite grid_eqb_refl. reflexivity. Qed.

Lemma eig_same_refl : forall e, edec e -> eig_same e e = true.
Proof. intros e [-> | [n ->]]; simpl; [reflexivity | apply Nat.eqb_refl]. Qed.
Lemma eig_part_e : forall e, edec e -> eig_part e = Some e.
Proof. intros e [-> | [n ->]]; reflexivity. Qed.
Lemma eig_part_foi : forall g e, edec e -> eig_part (foi_tag g e) = Some e.
Proof. intros g e [-> | [n ->]]; reflexivity. Qed.
(* arrays expressed in the current decomposition e, other arrays for grid g: the value for g *)
Lemma derive_eig_ok : forall g e eigs others, edec e ->
  Forall (fun t => t = e \/ t = foi_tag g e) eigs -> Forall (fun t => t = TF g) others ->
  derive_eig g e eigs others = Ret (TF g).
Proof.
  intros g e eigs others He H1 H2. unfold derive_eig.
  assert (C : eig_consistent e eigs = true).
  { unfold eig_consistent. apply forallb_forall. intros t Ht. rewrite Forall_forall in H1.
    destruct (H1 t Ht) as [-> | ->]; [rewrite eig_part_e by exact He | rewrite eig_part_foi by exact He];
      apply eig_same_refl, He. }
  rewrite C. unfold derive.
  assert (D : forallb (fun t => match t with TF g' | TFE g' _ => grid_eqb g' g | TI | TE _ => true | TBad _ => false end)
                (eigs ++ others) = true).
  { apply forallb_forall. intros t Ht. apply in_app_or in Ht. rewrite Forall_forall in H1, H2.
    destruct Ht as [Ht | Ht].
    - destruct (H1 t Ht) as [-> | ->]; destruct He as [-> | [n ->]]; simpl; try reflexivity; apply grid_eqb_refl.
    - rewrite (H2 t Ht). apply grid_eqb_refl. }
  rewrite D. reflexivity.
Qed.

Lemma wp_second_order : forall g P (Q : tag -> lst -> Prop) l,
  logstable g P -> P l -> (forall l', P l' -> Q (TF g) l') -> wp (second_order g) Q EA l.
Proof.
  intros g P Q l [Hlog [HLP HLC]] HP HQ. unfold second_order. wnext. wnext. wnext. wnext.
  apply wp_bind. apply wp_may_raise; [split; [apply HLC, Hlog, HP | apply Hinj] | ]. cbv beta.
  assert (Hd : derive_eig g (eig_tag_of (sl l S_eigvecs))
                 ((match di l K_n_opers_transformed with Some t => [t] | None => [] end) ++
                  (match di l K_basis_transformed, di l K_control_matrix_step with
                   | Some tb, Some _ => [tb] | _, _ => [] end))
                 (match di l K_basis_transformed, di l K_control_matrix_step with
                  | Some _, Some tc => [tc] | _, _ => [] end) = Ret (TF g)).
  { destruct (LP_eigvecs g l (HLP l HP)) as [E0 | [e [He [Ev [_ [[Hs Hk] [Ht Hen]]]]]]].
    - (* no eigen-data cached: no eigenbasis-dependent intermediates either *)
      destruct (HLP l HP) as [e [He [[Hs Hk] [Ht Hen]]]]. destruct (Hen E0) as [K1 [K2 _]].
      rewrite E0, K1, K2. simpl. apply (derive_eig_ok g TI [] []); [left; reflexivity | constructor | constructor].
    - rewrite Ev. cbn [eig_tag_of].
      pose proof (Hk K_n_opers_transformed) as Hn. pose proof (Hk K_basis_transformed) as Hb.
      pose proof (Hk K_control_matrix_step) as Hc. unfold tag_for, key_kind in Hn, Hb, Hc. simpl in Hn, Hb, Hc.
      destruct (di l K_n_opers_transformed) as [tn | ], (di l K_basis_transformed) as [tb | ],
               (di l K_control_matrix_step) as [tc | ];
        repeat match goal with
               | H : Some _ = None \/ Some _ = Some _ |- _ => destruct H as [H | H]; [discriminate H | injection H as ->]
               | H : None = None \/ None = Some _ |- _ => clear H
               end;
        (apply derive_eig_ok; [exact He | simpl; repeat constructor | simpl; repeat constructor]). }
  rewrite Hd. apply wp_lift_ret, HQ, Hlog, HP.
Qed.

Lemma wp_cache_ff : forall g (cmo : option (tag * bool)) (ffo : option tag) w o ci (Q : unit -> lst -> Prop) l,
  (cmo = None \/ exists b, cmo = Some (TF g, b)) -> (ffo = None \/ ffo = Some (TF g)) -> LC l ->
  (forall l', LCO g l' -> sl l' (ff_slot w o) = Some (TF g) -> Q tt l') ->
  wp (cache_ff fixed g cmo ffo w o ci) Q EA l.
Proof.
  intros g cmo ffo w o ci Q l Hcm Hff H HQ. unfold cache_ff.
  apply wp_bind. apply wp_guard_LC; [exact H | ]. intros l1 H1. cbv beta.
  apply wp_seq with (R := fun f l' => LCG g l' /\ f = TF g).
  - destruct Hff as [-> | ->]; [ | apply wp_ret; split; [exact H1 | reflexivity]].
    destruct o.
    + apply wp_seq with (R := fun x l' => LCG g l' /\ fst x = TF g).
      * destruct Hcm as [-> | [b ->]]; [ | apply wp_ret; split; [exact H1 | reflexivity]].
        apply wp_bind. apply wp_get_cm; [eapply LCG_LC, H1 | ]. intros r l2 H2 Er _. apply wp_ret.
        split; [apply LCO_LCG, H2 | exact Er].
      * intros [t b] l2 [H2 Et]. simpl in Et. subst t. cbn [fst snd].
        apply wp_bind. apply wp_cache_cm_given_LC; [eapply LCG_LC, H2 | ]. intros l3 H3 _. cbv beta.
        destruct b.
        -- apply wp_bind. apply wp_may_raise; [split; [eapply LCO_LC, H3 | apply Hinj] | ]. cbv beta.
           apply wp_seq with (R := fun _ l' => LCO g l').
           ++ destruct w.
              ** apply wp_setslot. apply (LCO_set_fd g _ S_filter_function_pc); [reflexivity | exact H3].
              ** apply wp_bind. apply wp_may_raise; [split; [eapply LCO_LC, H3 | apply Hinj] | ]. cbv beta.
                 wnext. apply wp_setslot.
                 apply (LCO_set_fd g _ S_filter_function_pc_gen); [reflexivity | ].
                 apply (LCO_set_fd g _ S_filter_function_pc); [reflexivity | exact H3].
           ++ intros _ l4 H4. apply wp_bind. apply wp_may_raise; [split; [eapply LCO_LC, H4 | apply Hinj] | ]. cbv beta.
              apply wp_ret. split; [apply LCO_LCG, H4 | reflexivity].
        -- apply wp_bind. apply wp_may_raise; [split; [eapply LCO_LC, H3 | apply Hinj] | ]. cbv beta.
           apply wp_ret. split; [apply LCO_LCG, H3 | reflexivity].
    + apply wp_bind. apply (wp_lazy_prop _ (LCG g)); [apply stable_LCG | exact H1 | ]. intros l2 H2. cbv beta.
      apply wp_bind. apply (wp_lazy_prop _ (LCG g)); [apply stable_LCG | exact H2 | ]. intros l3 H3. cbv beta.
      apply wp_bind. apply (wp_lazy_prop _ (LCG g)); [apply stable_LCG | exact H3 | ]. intros l4 H4. cbv beta.
      apply (wp_second_order g (LCG g)); [apply logstable_LCG | exact H4 | ]. intros l5 H5. split; [exact H5 | reflexivity].
  - intros f l2 [H2 ->]. wnext. pose proof (LP_set_omega g l2 (LCG_LP g l2 H2)) as H3.
    destruct o; [destruct w | ].
    + apply wp_setslot, HQ; [apply (LCO_set_fd g _ S_filter_function); [reflexivity | exact H3] | reflexivity].
    + apply wp_bind. apply wp_may_raise; [split; [eapply LCO_LC, H3 | apply Hinj] | ]. cbv beta.
      wnext. apply wp_setslot, HQ; [ | reflexivity].
      apply (LCO_set_fd g _ S_filter_function_gen); [reflexivity | ].
      apply (LCO_set_fd g _ S_filter_function); [reflexivity | exact H3].
    + apply wp_setslot, HQ; [apply (LCO_set_fd g _ S_filter_function_2); [reflexivity | exact H3] | destruct w; reflexivity].
Qed.

Lemma ff_slot_fd : forall w o, slot_kind (ff_slot w o) = KFD.
Proof. intros [] []; reflexivity. Qed.

Lemma wp_get_ff : forall g w o ci (Q : tag * how -> lst -> Prop) l,
  LC l -> getter_post g l Q -> wp (get_ff fixed g w o ci) Q EA l.
Proof.
  intros g w o ci Q l H HQ. unfold get_ff, omega_equal.
  apply wp_bind. wnext. apply wp_ret.
  assert (Hcomp : forall l1, LC l1 ->
     wp (cmo <- match o with
                | First => r <- get_cm fixed g ci;; ret (Some (fst r, false))
                | Second => ret None
                end;;
         cache_ff fixed g cmo None w o ci;;; v <- getslot (ff_slot w o);;
         ret (match v with Some v => v | None => TI end, Computed)) Q EA l1).
  { intros l1 H1.
    apply wp_seq with (R := fun cmo l' => LC l' /\ (cmo = None \/ exists b, cmo = Some (TF g, b))).
    - destruct o; [ | apply wp_ret; split; [exact H1 | left; reflexivity]].
      apply wp_bind. apply wp_get_cm; [exact H1 | ]. intros [t h] l2 H2 Er _. simpl in Er. subst t. apply wp_ret.
      split; [eapply LCO_LC, H2 | right; exists false; reflexivity].
    - intros cmo l2 [H2 Hc]. apply wp_bind.
      apply wp_cache_ff; [exact Hc | left; reflexivity | exact H2 | ]. intros l3 H3 E3. cbv beta.
      wnext. apply wp_ret. rewrite E3. apply HQ; [exact H3 | reflexivity | simpl; congruence]. }
  destruct (LC_cases l g H) as [[Ho Hg] | [g' [Ho Hg]]]; rewrite Ho; cbv iota beta.
  - apply wp_bind. apply wp_bind. apply (wp_cleanup_fd g); [apply LCG_LP, Hg | ]. intros l1 H1 _. cbv beta.
    apply wp_ret. apply Hcomp. eapply LCG_LC, (H1 g).
  - destruct (grid_eqb g' g) eqn:Eg.
    + apply grid_eqb_eq in Eg. subst g'. apply wp_bind. wprim.
      destruct (sl l (ff_slot w o)) eqn:Ef.
      * apply wp_ret. apply HQ; [exact Hg | | intros _; exact Ho]. simpl.
        exact (LP_read g l _ t (LCO_LP g l Hg) (ff_slot_fd w o) Ef).
      * apply Hcomp. eapply LCO_LC, Hg.
    + apply wp_bind. apply wp_bind. apply (wp_cleanup_fd g'); [apply LCO_LP, Hg | ]. intros l1 H1 _. cbv beta.
      apply wp_ret. apply Hcomp. eapply LCG_LC, (H1 g).
Qed.

Definition computed_post (g : grid) (Q : tag * how -> lst -> Prop) : Prop :=
  forall r l', LCO g l' -> fst r = TF g -> snd r = Computed -> Q r l'.

Lemma wp_lazy_prop_cached : forall s (Q : unit -> lst -> Prop) (E : exn -> lst -> Prop) l,
  sl l s <> None -> Q tt l -> wp (lazy_prop s) Q E l.
Proof. intros s Q E l Hne HQ. unfold lazy_prop. wnext. destruct (sl l s); [apply wp_ret, HQ | contradiction]. Qed.

Lemma wp_get_deriv : forall g (Q : tag * how -> lst -> Prop) l,
  LC l -> computed_post g Q -> wp (get_deriv fixed g) Q EA l.
Proof.
  intros g Q l H HQ. unfold get_deriv. cbn [m_deriv_after_cm fixed].
  apply wp_bind, wp_ret.
  apply wp_bind. apply wp_get_cm; [exact H | ]. intros [t h] l1 H1 Er _. simpl in Er. subst t. cbv beta.
  apply wp_bind. wnext. wnext. apply wp_ret.
  assert (Hfin : forall (v : res tag) l5, LCO g l5 -> v = Ret (TF g) ->
            wp (v0 <- lift v;; may_raise L_gradff;;; ret (v0, Computed)) Q EA (logL l5 L_grad)).
  { intros v l5 H5 ->. apply wp_bind, wp_lift_ret.
    apply wp_bind. apply wp_may_raise; [split; [eapply LCO_LC, H5 | apply Hinj] | ]. cbv beta.
    apply wp_ret. apply HQ; [exact H5 | reflexivity | reflexivity]. }
  destruct (LP_eigvecs g l1 (LCO_LP g l1 H1)) as [E0 | [e [He [Ev [_ [[Hs Hk] [Ht Hen]]]]]]].
  - (* no eigen-data cached (the control matrix was served from the cache after a clean-up): the
       eigenbasis-dependent intermediates are gone too *)
    destruct H1 as [e1 [[He1 [[Hs1 Hk1] [Ht1 Hen1]]] Ho1]]. destruct (Hen1 E0) as [K1 [_ K3]].
    rewrite K1, K3.
    assert (H1' : LCO g l1) by (exists e1; split; [split; [exact He1 | split; [split; assumption | split; assumption]] | exact Ho1]).
    apply wp_bind. apply (wp_lazy_prop _ (LCO g)); [apply stable_LCO | exact H1' | ]. intros l2 H2. cbv beta.
    apply wp_bind. apply (wp_lazy_prop _ (LCO g)); [apply stable_LCO | exact H2 | ]. intros l3 H3. cbv beta.
    apply wp_bind. apply (wp_lazy_prop _ (LCO g)); [apply stable_LCO | exact H3 | ]. intros l4 H4. cbv beta.
    apply wp_bind. apply (wp_t_prop (LCO g)); [apply stable_LCO | exact H4 | ]. intros l5 H5. cbv beta.
    wnext. apply wp_bind. apply wp_may_raise; [split; [eapply LCO_LC, H5 | apply Hinj] | ]. cbv beta.
    cbn [fst]. apply (Hfin _ l5 H5). apply derive_1.
  - (* eigen-data cached: the lazy properties do nothing, the intermediates are expressed in that decomposition *)
    pose proof (Hk K_n_opers_transformed) as Ha. pose proof (Hk K_first_order_integral) as Hb.
    unfold tag_for, key_kind in Ha, Hb. simpl in Ha, Hb.
    set (PE := fun l => LCO g l /\ sl l S_eigvecs = Some e /\ sl l S_eigvals <> None /\ sl l S_propagators <> None).
    assert (HPE : PE l1).
    { split; [exact H1 | split; [exact Ev | ]]. destruct Ht as [[_ [T2 _]] | [T1 [_ T3]]]; [rewrite Ev in T2; discriminate | split; assumption]. }
    assert (Hfi : forall l s, slot_kind s = KFI -> s <> S_propagators -> PE l -> PE (setL l s (Some TI))).
    { intros l0 s K N [A [B [C D]]]. split; [apply LCO_set_fi; assumption | ]. simpl.
      rewrite !upd_other by (intros ->; first [discriminate K | contradiction]). auto. }
    generalize dependent (di l1 K_n_opers_transformed). generalize dependent (di l1 K_first_order_integral).
    intros b Hb a Ha.
    destruct HPE as [A1 [B1 [C1 D1]]].
    apply wp_bind. apply wp_lazy_prop_cached; [exact D1 | ]. cbv beta.
    apply wp_bind. apply wp_lazy_prop_cached; [exact C1 | ]. cbv beta.
    apply wp_bind. apply wp_lazy_prop_cached; [rewrite B1; discriminate | ]. cbv beta.
    apply wp_seq with (R := fun _ l' => PE l').
    + unfold t_prop. wnext. destruct (sl l1 S_t); [apply wp_ret; repeat split; assumption | ].
      apply wp_setslot. apply Hfi; [reflexivity | discriminate | repeat split; assumption].
    + intros _ l5 [A5 [B5 _]]. wnext. rewrite B5. cbn [eig_tag_of].
      apply wp_bind. apply wp_may_raise; [split; [eapply LCO_LC, A5 | apply Hinj] | ]. cbv beta.
      cbn [fst]. destruct Ha as [-> | ->], Hb as [-> | ->]; apply (Hfin _ l5 A5); try apply derive_1.
      apply derive_eig_ok; [exact He | | repeat constructor].
      constructor; [left; reflexivity | constructor; [right; reflexivity | constructor]].
Qed.

Lemma wp_integrate : forall g P (Q : tag * how -> lst -> Prop) l,
  logstable g P -> P l -> (forall r l', P l' -> fst r = TF g -> snd r = Computed -> Q r l') ->
  wp (integrate g (TF g)) Q EA l.
Proof.
  intros g P Q l [Hlog [_ HLC]] HP HQ. unfold integrate.
  apply wp_bind. apply wp_may_raise; [split; [apply HLC, Hlog, HP | apply Hinj] | ]. cbv beta.
  rewrite derive_1. apply wp_bind, wp_lift_ret.
  apply wp_bind. apply wp_may_raise; [split; [apply HLC, Hlog, Hlog, HP | apply Hinj] | ]. cbv beta.
  apply wp_ret. apply HQ; [apply Hlog, Hlog, HP | reflexivity | reflexivity].
Qed.

Lemma wp_integrate2 : forall g P (Q : tag * how -> lst -> Prop) l,
  logstable g P -> P l -> (forall r l', P l' -> fst r = TF g -> snd r = Computed -> Q r l') ->
  wp (integrate2 g (TF g) (TF g)) Q EA l.
Proof.
  intros g P Q l [Hlog [_ HLC]] HP HQ. unfold integrate2.
  apply wp_bind. apply wp_may_raise; [split; [apply HLC, Hlog, HP | apply Hinj] | ]. cbv beta.
  rewrite derive_2. apply wp_bind, wp_lift_ret.
  apply wp_bind. apply wp_may_raise; [split; [apply HLC, Hlog, Hlog, HP | apply Hinj] | ]. cbv beta.
  apply wp_ret. apply HQ; [apply Hlog, Hlog, HP | reflexivity | reflexivity].
Qed.

Lemma wp_infidelity : forall g pw tl ci (Q : tag * how -> lst -> Prop) l,
  (pw = Correlations -> allowed E_value /\ allowed E_calc) -> LC l -> computed_post g Q ->
  wp (infidelity fixed g pw tl ci) Q EA l.
Proof.
  intros g pw tl ci Q l Hal H HQ. unfold infidelity. destruct pw.
  - apply wp_bind. apply wp_get_ff; [exact H | ]. intros [t h] l1 H1 Et _. simpl in Et. subst t. cbv beta.
    apply wp_bind. apply wp_get_cm; [eapply LCO_LC, H1 | ]. intros [t2 h2] l2 H2 Et2 _. simpl in Et2. subst t2. cbn [fst].
    apply (wp_integrate2 g (LCO g)); [apply logstable_LCO | exact H2 | exact HQ].
  - destruct (Hal eq_refl) as [Hv Hc]. wnext. unfold omega_equal. apply wp_bind. wnext. apply wp_ret.
    assert (Hrest : forall (r : tag * how) l' h, LCO g l' -> r = (TF g, h) ->
              wp (c2 <- is_cached S_control_matrix_pc;;
                  (if c2 || negb tl then r2 <- get_pccm;; integrate2 g (fst r) (fst r2) else integrate g (fst r))) Q EA l').
    { intros r l' h H' ->. cbn [fst]. wnext. destruct (_ || negb tl) eqn:Ec.
      - apply wp_bind. apply wp_get_pccm; [exact Hc | eapply LCO_LC, H' | ]. intros [t2 h2] l2 g0 H2 Ho2 Et2 _. cbv beta.
        simpl in Et2. subst t2. rewrite (LCO_omega g l' H') in Ho2. injection Ho2 as <-. cbn [fst].
        apply (wp_integrate2 g (LCO g)); [apply logstable_LCO | exact H2 | exact HQ].
      - apply (wp_integrate g (LCO g)); [apply logstable_LCO | exact H' | exact HQ]. }
    destruct (LC_cases l g H) as [[Ho Hg] | [g' [Ho Hg]]]; rewrite Ho; cbv iota beta; cbn [andb negb].
    + apply wp_bind. apply wp_get_pcff; [exact Hc | exact H | ]. intros r l' g0 _ Ho' _ _. congruence.
    + destruct (grid_eqb g' g) eqn:Eg; cbn [andb negb].
      * apply grid_eqb_eq in Eg. subst g'.
        apply wp_bind. apply wp_get_pcff; [exact Hc | exact H | ]. intros [t h] l' g0 H' Ho' Et _. cbv beta.
        rewrite Ho in Ho'. injection Ho' as <-. simpl in Et. subst t. apply (Hrest _ l' h H' eq_refl).
      * apply wp_raise. split; assumption.
Qed.

Lemma wp_decay_amplitudes : forall g pw ci (Q : tag * how -> lst -> Prop) l,
  (pw = Correlations -> allowed E_value /\ allowed E_calc) -> LC l -> computed_post g Q ->
  wp (decay_amplitudes fixed g pw ci) Q EA l.
Proof.
  intros g pw ci Q l Hal H HQ. unfold decay_amplitudes. destruct pw.
  - wnext. apply wp_seq with (R := fun r l' => LCO g l' /\ fst r = TF g).
    + destruct (sl l S_filter_function_gen); [apply wp_get_ff | apply wp_get_cm]; try exact H; intros r l' H' Er _; split; assumption.
    + intros [t h] l1 [H1 Et]. simpl in Et. subst t. cbn [fst].
      apply (wp_integrate g (LCO g)); [apply logstable_LCO | exact H1 | exact HQ].
  - destruct (Hal eq_refl) as [Hv Hc]. wnext. unfold omega_equal. apply wp_bind. wnext. apply wp_ret.
    assert (Hpc : forall (c2 : bool) (Q' : tag * how -> lst -> Prop), pc_post l Q' ->
              wp (if c2 then get_pcff Generalized else get_pccm) Q' EA l).
    { intros c2 Q' HQ'. destruct c2; [apply wp_get_pcff | apply wp_get_pccm]; assumption. }
    destruct (LC_cases l g H) as [[Ho Hg] | [g' [Ho Hg]]]; rewrite Ho; cbv iota beta; cbn [andb negb].
    + wnext. apply wp_bind. apply Hpc. intros r l' g0 _ Ho' _ _. congruence.
    + destruct (grid_eqb g' g) eqn:Eg; cbn [andb negb].
      * apply grid_eqb_eq in Eg. subst g'.
        wnext. apply wp_bind. apply Hpc. intros [t h] l' g0 H' Ho' Et _. cbv beta.
        rewrite Ho in Ho'. injection Ho' as <-. simpl in Et. subst t. cbn [fst].
        apply (wp_integrate g (LCO g)); [apply logstable_LCO | exact H' | exact HQ].
      * apply wp_raise. split; assumption.
Qed.

Lemma wp_cumulant : forall g pw second cio (Q : tag * how -> lst -> Prop) l,
  (pw = Correlations -> allowed E_value /\ allowed E_calc) -> LC l -> computed_post g Q ->
  wp (cumulant fixed g pw second cio) Q EA l.
Proof.
  intros g pw second cio Q l Hal H HQ. unfold cumulant.
  assert (Hmain : wp (r <- decay_amplitudes fixed g pw (match cio with Some b => b | None => second end);;
                     (if second then
                        r2 <- get_ff fixed g Fidelity Second false;; r3 <- integrate g (fst r2);;
                        v <- lift (derive g [fst r; fst r3]);; ret (v, Computed)
                      else ret r)) Q EA l).
  { apply wp_bind. apply wp_decay_amplitudes; [exact Hal | exact H | ]. intros [t h] l1 H1 Et Eh. simpl in Et, Eh. subst t h.
    destruct second; [ | apply wp_ret, HQ; [exact H1 | reflexivity | reflexivity]].
    apply wp_bind. apply wp_get_ff; [eapply LCO_LC, H1 | ]. intros [t2 h2] l2 H2 Et2 _. simpl in Et2. subst t2. cbn [fst].
    apply wp_bind. apply (wp_integrate g (LCO g)); [apply logstable_LCO | exact H2 | ]. intros [t3 h3] l3 H3 Et3 _.
    simpl in Et3. subst t3. cbn [fst]. rewrite derive_2. apply wp_bind, wp_lift_ret. apply wp_ret.
    apply HQ; [exact H3 | reflexivity | reflexivity]. }
  destruct pw; [destruct second; exact Hmain | ].
  destruct second; [ | exact Hmain]. apply wp_raise. split; [exact H | apply (Hal eq_refl)].
Qed.

Lemma wp_error_transfer_matrix : forall g second ci (Q : tag * how -> lst -> Prop) l,
  LC l -> computed_post g Q -> wp (error_transfer_matrix fixed g second ci) Q EA l.
Proof.
  intros g second ci Q l H HQ. unfold error_transfer_matrix.
  apply wp_bind. apply wp_cumulant; [discriminate | exact H | ]. intros r l1 H1 Et Eh.
  apply wp_bind. apply wp_may_raise; [split; [eapply LCO_LC, H1 | apply Hinj] | ]. cbv beta.
  apply wp_ret. apply HQ; assumption.
Qed.

Lemma wp_infidelity_derivative : forall g (Q : tag * how -> lst -> Prop) l,
  LC l -> computed_post g Q -> wp (infidelity_derivative fixed g) Q EA l.
Proof.
  intros g Q l H HQ. unfold infidelity_derivative.
  apply wp_bind. apply wp_get_deriv; [exact H | ]. intros r l1 H1 Et Eh.
  apply wp_bind. apply wp_may_raise; [split; [eapply LCO_LC, H1 | apply Hinj] | ]. cbv beta.
  apply wp_ret. apply HQ; assumption.
Qed.

Lemma wp_propagator_at : forall P (Q : unit -> lst -> Prop) l, stable P -> P l -> (forall l', P l' -> Q tt l') -> wp propagator_at Q EA l.
Proof.
  intros P Q l HS HP HQ. unfold propagator_at.
  apply wp_bind. apply (wp_diagonalize P); [exact HS | exact HP | ]. intros l1 H1. cbv beta.
  apply wp_bind. apply (wp_t_prop P); [exact HS | exact H1 | ]. intros l2 H2. cbv beta.
  apply wp_bind. apply (wp_lazy_prop _ P); [exact HS | exact H2 | ]. intros l3 H3. cbv beta.
  apply wp_bind. apply (wp_lazy_prop _ P); [exact HS | exact H3 | ]. intros l4 H4. cbv beta.
  destruct HS as [Hset [Hlog HLC]].
  apply wp_bind. apply wp_may_raise; [split; [apply HLC, Hlog, H4 | apply Hinj] | ]. cbv beta.
  apply wp_ret, HQ, Hlog, H4.
Qed.

Lemma wp_chosen_grid : forall go (Q : option grid -> lst -> Prop) (E : exn -> lst -> Prop) l,
  (forall og, (og = go \/ (go = None /\ (og = None \/ exists g, og = Some g /\ sl l S_omega = Some (TF g)))) -> Q og l) ->
  wp (chosen_grid go) Q E l.
Proof.
  intros go Q E l HQ. unfold chosen_grid. destruct go as [g | ]; [apply wp_ret, HQ; left; reflexivity | ].
  wnext. apply wp_ret. apply HQ. right. split; [reflexivity | ].
  destruct (sl l S_omega) as [[ | g | | | ] | ]; auto. right. exists g. auto.
Qed.

Lemma wp_as_concat_input : forall go last early missing (Q : unit -> lst -> Prop) l,
  allowed E_value -> LC l -> (forall l', LC l' -> Q tt l') -> wp (as_concat_input fixed go last early missing) Q EA l.
Proof.
  intros go last early missing Q l Hv H HQ. unfold as_concat_input.
  apply wp_bind. apply (wp_tau_prop LC); [apply stable_LC | exact H | ]. intros l1 H1. cbv beta.
  destruct early; [apply wp_ret, HQ, H1 | ].
  apply wp_bind. apply wp_chosen_grid. intros og _.
  destruct og as [g | ]; [ | apply wp_raise; split; assumption].
  apply wp_seq with (R := fun _ l' => LC l').
  - destruct last; [apply wp_ret, H1 | ].
    apply wp_bind. apply wp_get_total_phases; [exact H1 | ]. intros r l2 H2 _ _.
    apply (wp_tpl_prop (LCO g)); [apply stable_LCO | exact H2 | intros l3 H3; eapply LCO_LC, H3].
  - intros _ l2 H2. apply wp_bind. apply wp_get_cm; [exact H2 | ]. intros r l3 H3 _ _.
    apply wp_seq with (R := fun _ l' => LCO g l').
    + destruct missing; [ | apply wp_ret, H3].
      apply wp_bind. apply (wp_lazy_prop _ (LCO g)); [apply stable_LCO | exact H3 | ]. intros l4 H4. cbv beta.
      apply wp_bind. apply (wp_lazy_prop _ (LCO g)); [apply stable_LCO | exact H4 | ]. intros l5 H5. cbv beta.
      apply wp_bind. apply (wp_lazy_prop _ (LCO g)); [apply stable_LCO | exact H5 | ]. intros l6 H6. cbv beta.
      apply (wp_t_prop (LCO g)); [apply stable_LCO | exact H6 | auto].
    + intros _ l4 H4. apply (wp_lazy_prop _ (LCO g)); [apply stable_LCO | exact H4 | ]. intros l5 H5. eapply HQ, LCO_LC, H5.
Qed.

Lemma wp_as_periodic_input : forall (Q : unit -> lst -> Prop) l,
  LC l -> (forall l', LC l' -> Q tt l') -> wp (as_periodic_input fixed) Q EA l.
Proof.
  intros Q l H HQ. unfold as_periodic_input.
  apply wp_bind. apply (wp_tau_prop LC); [apply stable_LC | exact H | ]. intros l1 H1. cbv beta.
  wnext. destruct (sl l1 S_control_matrix); [ | apply wp_ret, HQ, H1].
  wnext. destruct (sl l1 S_omega) as [[ | g | | | ] | ]; try (apply wp_ret, HQ, H1).
  apply wp_bind. apply wp_get_total_phases; [exact H1 | ]. intros r l2 H2 _ _.
  apply wp_bind. apply wp_get_cm; [eapply LCO_LC, H2 | ]. intros r' l3 H3 _ _.
  apply wp_bind. apply (wp_tpl_prop (LCO g)); [apply stable_LCO | exact H3 | ]. intros l4 H4. cbv beta.
  apply (wp_lazy_prop _ (LCO g)); [apply stable_LCO | exact H4 | ]. intros l5 H5. eapply HQ, LCO_LC, H5.
Qed.

Lemma wp_as_extend_input : forall go diag allc (Q : unit -> lst -> Prop) l,
  LC l -> (forall l', LC l' -> Q tt l') -> wp (as_extend_input fixed go diag allc) Q EA l.
Proof.
  intros go diag allc Q l H HQ. unfold as_extend_input.
  apply wp_seq with (R := fun _ l' => LC l').
  - destruct diag; [ | apply wp_ret, H].
    apply wp_bind. apply (wp_lazy_prop _ LC); [apply stable_LC | exact H | ]. intros l1 H1. cbv beta.
    apply wp_bind. apply (wp_lazy_prop _ LC); [apply stable_LC | exact H1 | ]. intros l2 H2. cbv beta.
    apply (wp_lazy_prop _ LC); [apply stable_LC | exact H2 | auto].
  - intros _ l1 H1. destruct go as [g | ].
    + apply wp_bind. apply wp_get_cm; [exact H1 | ]. intros r l2 H2 _ _. apply wp_ret. eapply HQ, LCO_LC, H2.
    + wnext. wnext. destruct (sl l1 S_omega) as [[ | g | | | ] | ]; try (apply wp_ret, HQ, H1).
      destruct (_ && allc); [ | apply wp_ret, HQ, H1].
      apply wp_bind. apply wp_get_cm; [exact H1 | ]. intros r l2 H2 _ _. apply wp_ret. eapply HQ, LCO_LC, H2.
Qed.

Lemma wp_as_remap_input : forall pauli (Q : unit -> lst -> Prop) l,
  LC l -> (forall l', LC l' -> Q tt l') -> wp (as_remap_input fixed pauli) Q EA l.
Proof.
  intros pauli Q l H HQ. unfold as_remap_input.
  wnext. destruct (sl l S_omega) as [[ | g | | | ] | ]; try (apply wp_ret, HQ, H).
  wnext. apply wp_seq with (R := fun _ l' => LC l').
  - destruct (sl l S_total_phases); [ | apply wp_ret, H].
    apply wp_bind. apply wp_get_total_phases; [exact H | ]. intros r l2 H2 _ _. apply wp_ret. eapply LCO_LC, H2.
  - intros _ l1 H1. wnext. apply wp_seq with (R := fun _ l' => LC l').
    + destruct (sl l1 S_filter_function); [ | apply wp_ret, H1].
      apply wp_bind. apply wp_get_ff; [exact H1 | ]. intros r l2 H2 _ _. apply wp_ret. eapply LCO_LC, H2.
    + intros _ l2 H2. wnext. destruct (pauli && _); [ | apply wp_ret, HQ, H2].
      apply wp_bind. apply wp_get_cm; [exact H2 | ]. intros r l3 H3 _ _. apply wp_ret. eapply HQ, LCO_LC, H3.
Qed.

(* user data of the wrong shape: rejected after the frequency guard *)
Lemma wp_shape_fail : forall g (Q : unit -> lst -> Prop) l,
  allowed E_value -> LC l -> wp (shape_fail fixed g) Q EA l.
Proof.
  intros g Q l Hv H. unfold shape_fail. apply wp_bind. apply wp_guard_LC; [exact H | ]. intros l1 H1. cbv beta.
  apply wp_raise. split; [eapply LCG_LC, H1 | exact Hv].
Qed.
End Specs.

(* ================================================================== every operation of the alphabet *)
Lemma wp_noret : forall (m : M unit) (Q : option (tag * how) -> lst -> Prop) (E : exn -> lst -> Prop) l,
  wp m (fun _ l' => Q None l') E l -> wp (noret m) Q E l.
Proof. intros. unfold noret. apply wp_bind. eapply wp_conseq; [exact H | intros; apply wp_ret; assumption | auto]. Qed.
Lemma wp_withret : forall (m : M (tag * how)) (Q : option (tag * how) -> lst -> Prop) (E : exn -> lst -> Prop) l,
  wp m (fun r l' => Q (Some r) l') E l -> wp (withret m) Q E l.
Proof. intros. unfold withret. apply wp_bind. eapply wp_conseq; [exact H | intros; apply wp_ret; assumption | auto]. Qed.

(* coherent_step, local form: whatever the operation, wherever it is aborted *)
Lemma run_op_coherent : forall o l, op_ok o = true -> LC l ->
  wp (run_op fixed o) (fun _ l' => LC l') (fun _ l' => LC l') l.
Proof.
  intros o l Hok H. set (A := fun _ : exn => True).
  assert (HA : forall lab, A (E_injected lab)) by (intros; exact I).
  apply wp_conseq with (Q := fun _ l' => LC l') (E := EA A); [ | auto | intros e l' [H' _]; exact H'].
  destruct o; cbn [run_op].
  - apply wp_withret, wp_get_cm; [exact HA | exact H | intros r l' H' _ _; eapply LCO_LC, H'].
  - destruct user as [[[ | | ] b] | ]; try discriminate Hok.
    + apply wp_noret, wp_cache_cm; [exact HA | right; exists b; reflexivity | exact H | intros l' H'; eapply LCO_LC, H'].
    + apply wp_noret, wp_shape_fail; [exact I | exact H].
    + apply wp_noret, wp_cache_cm; [exact HA | left; reflexivity | exact H | intros l' H'; eapply LCO_LC, H'].
  - apply wp_withret, wp_get_pccm; [exact I | exact H | intros r l' g H' _ _ _; eapply LCO_LC, H'].
  - apply wp_withret, wp_get_ff; [exact HA | exact H | intros r l' H' _ _; eapply LCO_LC, H'].
  - simpl in Hok. apply andb_true_iff in Hok. destruct Hok as [Hcm Hff].
    assert (Hgo : forall cmu ffu, (cmu = None \/ exists b, cmu = Some (TF g, b)) -> (ffu = None \/ ffu = Some (TF g)) ->
              wp (noret (cache_ff fixed g cmu ffu w o ci)) (fun _ l' => LC l') (EA A) l).
    { intros cmu ffu H1 H2. apply wp_noret, wp_cache_ff; [exact HA | exact H1 | exact H2 | exact H | intros l' H' _; eapply LCO_LC, H']. }
    assert (Hsf : wp (noret (shape_fail fixed g)) (fun _ l' => LC l') (EA A) l)
      by (apply wp_noret, wp_shape_fail; [exact I | exact H]).
    destruct ff as [[ | | ] | ]; try discriminate Hff; cbn [is_shape orb option_map user_tag].
    + apply Hgo; [left; reflexivity | right; reflexivity].
    + exact Hsf.
    + destruct o.
      * destruct cm as [[[ | | ] b] | ]; try discriminate Hcm; cbn [is_shape orb option_map user_tag fst snd].
        -- apply Hgo; [right; exists b; reflexivity | left; reflexivity].
        -- exact Hsf.
        -- apply Hgo; [left; reflexivity | left; reflexivity].
      * cbn [is_shape orb option_map]. apply Hgo; [left; reflexivity | left; reflexivity].
  - apply wp_withret, wp_get_pcff; [exact HA | exact I | exact H | intros r l' g H' _ _ _; eapply LCO_LC, H'].
  - apply wp_withret, wp_get_deriv; [exact HA | exact H | intros r l' H' _ _; eapply LCO_LC, H'].
  - apply wp_withret, wp_get_total_phases; [exact HA | exact H | intros r l' H' _ _; eapply LCO_LC, H'].
  - destruct user as [[ | | ] | ]; try discriminate Hok.
    + apply wp_noret, wp_cache_total_phases; [exact HA | right; reflexivity | exact H | intros l' H' _; eapply LCO_LC, H'].
    + apply wp_noret, wp_shape_fail; [exact I | exact H].
    + apply wp_noret, wp_cache_total_phases; [exact HA | left; reflexivity | exact H | intros l' H' _; eapply LCO_LC, H'].
  - apply wp_noret, (wp_diagonalize A HA LC); [apply stable_LC | exact H | auto].
  - destruct (is_lazy s); [ | apply wp_ret, H].
    apply wp_noret, (wp_lazy_prop A HA s LC); [apply stable_LC | exact H | auto].
  - apply wp_noret, (wp_tpl_prop A HA LC); [apply stable_LC | exact H | auto].
  - apply wp_noret, (wp_t_prop A LC); [apply stable_LC | exact H | auto].
  - apply wp_noret, (wp_tau_prop A LC); [apply stable_LC | exact H | auto].
  - destruct H as [g Hg]. apply wp_noret. unfold cleanup_user. cbn [m_cleanup_pops_eig fixed].
    destruct m; (apply (wp_cleanup_any _ g); [exact Hg | intros l' H'; eapply LCG_LC, H']).
  - apply wp_raise. split; [exact H | exact I].
  - apply wp_withret, wp_infidelity; [exact HA | intros _; split; exact I | exact H | intros r l' H' _ _; eapply LCO_LC, H'].
  - apply wp_withret, wp_decay_amplitudes; [exact HA | intros _; split; exact I | exact H | intros r l' H' _ _; eapply LCO_LC, H'].
  - apply wp_withret, wp_cumulant; [exact HA | intros _; split; exact I | exact H | intros r l' H' _ _; eapply LCO_LC, H'].
  - apply wp_withret, wp_error_transfer_matrix; [exact HA | exact H | intros r l' H' _ _; eapply LCO_LC, H'].
  - apply wp_withret, wp_infidelity_derivative; [exact HA | exact H | intros r l' H' _ _; eapply LCO_LC, H'].
  - apply wp_noret, wp_as_concat_input; [exact HA | exact I | exact H | auto].
  - apply wp_noret, wp_as_periodic_input; [exact HA | exact H | auto].
  - apply wp_noret, wp_as_extend_input; [exact HA | exact H | auto].
  - apply wp_noret, wp_as_remap_input; [exact HA | exact H | auto].
  - apply wp_noret, (wp_propagator_at A HA LC); [apply stable_LC | exact H | auto].
Qed.

(* requests that name their frequencies *)
Inductive grid_getter : op -> grid -> Prop :=
| gg_cm g ci : grid_getter (GetCM g ci) g
| gg_ff g w o ci : grid_getter (GetFF g w o ci) g
| gg_deriv g : grid_getter (GetDeriv g) g
| gg_phases g : grid_getter (GetPhases g) g
| gg_infid g tl ci : grid_getter (Infidelity g Total tl ci) g
| gg_decay g ci : grid_getter (DecayAmplitudes g Total ci) g
| gg_cumulant g s cio : grid_getter (Cumulant g Total s cio) g
| gg_etm g s ci : grid_getter (ErrorTransferMatrix g s ci) g
| gg_infid_deriv g : grid_getter (InfidelityDerivative g) g.

Definition injected (e : exn) : Prop := exists lab, e = E_injected lab.

(* on a coherent object a request for grid g returns the value for g; it returns a cached object (or
   something computed from one) only if the object's _omega was g; it raises only if the adversary made
   a numeric routine raise *)
Lemma run_op_getter : forall o g l, grid_getter o g -> LC l ->
  wp (run_op fixed o)
     (fun r l' => LC l' /\ exists h, r = Some (TF g, h) /\ (h <> Computed -> sl l S_omega = Some (TF g)))
     (fun e l' => LC l' /\ injected e) l.
Proof.
  intros o g l Hg H.
  assert (HA : forall lab, injected (E_injected lab)) by (intros lab; exists lab; reflexivity).
  assert (Hpost : getter_post g l (fun r l' => LC l' /\ exists h, Some r = Some (TF g, h) /\ (h <> Computed -> sl l S_omega = Some (TF g)))).
  { intros [t h] l' H' Et Eh. simpl in Et, Eh. subst t. split; [eapply LCO_LC, H' | exists h; split; [reflexivity | exact Eh]]. }
  assert (Hcpost : computed_post g (fun r l' => LC l' /\ exists h, Some r = Some (TF g, h) /\ (h <> Computed -> sl l S_omega = Some (TF g)))).
  { intros [t h] l' H' Et Eh. simpl in Et, Eh. subst t h. split; [eapply LCO_LC, H' | exists Computed; split; [reflexivity | congruence]]. }
  apply wp_conseq with (Q := fun r l' => LC l' /\ exists h, r = Some (TF g, h) /\ (h <> Computed -> sl l S_omega = Some (TF g)))
                       (E := EA injected); [ | auto | auto].
  destruct Hg; cbn [run_op]; apply wp_withret.
  - apply wp_get_cm; assumption.
  - apply wp_get_ff; assumption.
  - apply wp_get_deriv; assumption.
  - apply wp_get_total_phases; assumption.
  - apply wp_infidelity; [exact HA | discriminate | exact H | exact Hcpost].
  - apply wp_decay_amplitudes; [exact HA | discriminate | exact H | exact Hcpost].
  - apply wp_cumulant; [exact HA | discriminate | exact H | exact Hcpost].
  - apply wp_error_transfer_matrix; assumption.
  - apply wp_infidelity_derivative; assumption.
Qed.

(* pulse-correlation quantities have no frequency argument: what is returned belongs to the object's
   current _omega; requests that do name frequencies are refused unless they are the cached ones *)
Inductive pc_getter : op -> option grid -> Prop :=
| pg_cm : pc_getter GetPCCM None
| pg_ff w : pc_getter (GetPCFF w) None
| pg_infid g tl ci : pc_getter (Infidelity g Correlations tl ci) (Some g)
| pg_decay g ci : pc_getter (DecayAmplitudes g Correlations ci) (Some g)
| pg_cumulant g cio : pc_getter (Cumulant g Correlations false cio) (Some g).

Lemma run_op_pc : forall o og l, pc_getter o og -> LC l ->
  wp (run_op fixed o)
     (fun r l' => LC l' /\ exists g h, sl l S_omega = Some (TF g) /\ r = Some (TF g, h) /\
                                       match og with Some g' => g' = g | None => True end)
     (fun e l' => LC l' /\ (injected e \/ e = E_calc \/ e = E_value)) l.
Proof.
  intros o og l Hg H. set (A := fun e => injected e \/ e = E_calc \/ e = E_value).
  assert (HA : forall lab, A (E_injected lab)) by (intros lab; left; exists lab; reflexivity).
  assert (Hc : A E_calc) by (right; left; reflexivity).
  assert (Hv : A E_value) by (right; right; reflexivity).
  apply wp_conseq with (Q := fun r l' => LC l' /\ exists g h, sl l S_omega = Some (TF g) /\ r = Some (TF g, h) /\
                                       match og with Some g' => g' = g | None => True end)
                       (E := EA A); [ | auto | auto].
  destruct Hg; cbn [run_op]; apply wp_withret.
  - apply wp_get_pccm; [exact Hc | exact H | ].
    intros [t h] l' g H' Ho Et _. simpl in Et. subst t. split; [eapply LCO_LC, H' | exists g, h; auto].
  - apply wp_get_pcff; [exact HA | exact Hc | exact H | ].
    intros [t h] l' g H' Ho Et _. simpl in Et. subst t. split; [eapply LCO_LC, H' | exists g, h; auto].
  - (* a normal return means _omega was g: re-run the specification with that knowledge *)
    destruct (LC_cases l g H) as [[Ho _] | [g' [Ho Hg']]].
    + unfold infidelity, omega_equal. wnext. apply wp_bind. wnext. apply wp_ret. rewrite Ho. cbn [andb negb].
      apply wp_bind. apply wp_get_pcff; [exact HA | exact Hc | exact H | ]. intros r l' g0 _ Ho' _ _. congruence.
    + destruct (grid_eqb g' g) eqn:Eg.
      * apply grid_eqb_eq in Eg. subst g'.
        apply wp_infidelity; [exact HA | intros _; split; assumption | exact H | ].
        intros [t h] l' H' Et _. simpl in Et. subst t. split; [eapply LCO_LC, H' | exists g, h; auto].
      * unfold infidelity, omega_equal. wnext. apply wp_bind. wnext. apply wp_ret. rewrite Ho, Eg. cbn [andb negb].
        apply wp_raise. split; assumption.
  - destruct (LC_cases l g H) as [[Ho _] | [g' [Ho Hg']]].
    + unfold decay_amplitudes, omega_equal. wnext. apply wp_bind. wnext. apply wp_ret. rewrite Ho. cbn [andb negb].
      wnext. apply wp_bind.
      destruct (sl l S_filter_function_pc_gen); [apply wp_get_pcff | apply wp_get_pccm]; try assumption;
        intros r l' g0 _ Ho' _ _; congruence.
    + destruct (grid_eqb g' g) eqn:Eg.
      * apply grid_eqb_eq in Eg. subst g'.
        apply wp_decay_amplitudes; [exact HA | intros _; split; assumption | exact H | ].
        intros [t h] l' H' Et _. simpl in Et. subst t. split; [eapply LCO_LC, H' | exists g, h; auto].
      * unfold decay_amplitudes, omega_equal. wnext. apply wp_bind. wnext. apply wp_ret. rewrite Ho, Eg. cbn [andb negb].
        apply wp_raise. split; assumption.
  - destruct (LC_cases l g H) as [[Ho _] | [g' [Ho Hg']]].
    + unfold cumulant, decay_amplitudes, omega_equal. apply wp_bind. wnext. apply wp_bind. wnext. apply wp_ret. rewrite Ho. cbn [andb negb].
      wnext. apply wp_bind.
      destruct (sl l S_filter_function_pc_gen); [apply wp_get_pcff | apply wp_get_pccm]; try assumption;
        intros r l' g0 _ Ho' _ _; congruence.
    + destruct (grid_eqb g' g) eqn:Eg.
      * apply grid_eqb_eq in Eg. subst g'.
        apply wp_cumulant; [exact HA | intros _; split; assumption | exact H | ].
        intros [t h] l' H' Et _. simpl in Et. subst t. split; [eapply LCO_LC, H' | exists g, h; auto].
      * unfold cumulant, decay_amplitudes, omega_equal. apply wp_bind. wnext. apply wp_bind. wnext. apply wp_ret. rewrite Ho, Eg. cbn [andb negb].
        apply wp_raise. split; assumption.
Qed.

(* ================================================================== without the adversary no injected exception *)
Definition ni {A} (m : M A) : Prop :=
  forall l, match m l None with (_, k', r) => k' = None /\ forall lab, r <> Raise (E_injected lab) end.

Lemma ni_ret : forall A (a : A), ni (ret a).
Proof. intros A a l. split; [reflexivity | discriminate]. Qed.
Lemma ni_bind : forall A B (m : M A) (f : A -> M B), ni m -> (forall a, ni (f a)) -> ni (bind m f).
Proof.
  intros A B m f Hm Hf l. unfold bind. specialize (Hm l). destruct (m l None) as [[l' k'] [a | e]].
  - destruct Hm as [-> _]. apply Hf.
  - destruct Hm as [Hk He]. split; [exact Hk | ]. intros lab E. apply (He lab). injection E as ->. reflexivity.
Qed.
Lemma ni_raise : forall A e, (forall lab, e <> E_injected lab) -> ni (@raise A e).
Proof. intros A e He l. split; [reflexivity | intros lab E; injection E; apply He]. Qed.
Lemma ni_may_raise : forall lab, ni (may_raise lab).
Proof. intros lab l. split; [reflexivity | discriminate]. Qed.
Lemma ni_getslot : forall s, ni (getslot s). Proof. intros s l; split; [reflexivity | discriminate]. Qed.
Lemma ni_setslot : forall s v, ni (setslot s v). Proof. intros s v l; split; [reflexivity | discriminate]. Qed.
Lemma ni_is_cached : forall s, ni (is_cached s). Proof. intros s l; split; [reflexivity | discriminate]. Qed.
Lemma ni_getkey : forall s, ni (getkey s). Proof. intros s l; split; [reflexivity | discriminate]. Qed.
Lemma ni_setkey : forall s v, ni (setkey s v). Proof. intros s v l; split; [reflexivity | discriminate]. Qed.
Lemma ni_new_dict : ni new_dict. Proof. intros l; split; [reflexivity | discriminate]. Qed.
Lemma ni_lift_derive : forall g ts, ni (lift (derive g ts)).
Proof.
  intros g ts l. unfold lift, derive. split; [reflexivity | ].
  intros lab. destruct (forallb _ ts); [discriminate | ]. destruct (forallb _ ts); discriminate.
Qed.
Lemma ni_lift_derive_eig : forall g c ts ts', ni (lift (derive_eig g c ts ts')).
Proof.
  intros g c ts ts'. unfold derive_eig. destruct (eig_consistent c ts); [apply ni_lift_derive | ].
  intros l. split; [reflexivity | discriminate].
Qed.
Lemma ni_seq_all : forall A (f : A -> M unit) xs, (forall x, ni (f x)) -> ni (seq_all f xs).
Proof.
  intros A f xs Hf. induction xs as [ | x r IH]; simpl; [apply ni_ret | apply ni_bind; [apply Hf | intros _; exact IH]].
Qed.
Lemma ni_cleanup : forall m, ni (cleanup m).
Proof.
  intros m. unfold cleanup. apply ni_bind.
  - destruct m; [apply ni_ret | apply ni_ret | | apply ni_ret]. apply ni_seq_all. intros x. unfold pop_key. destruct (key_of x); [apply ni_setkey | apply ni_ret].
  - intros _. apply ni_seq_all. intros x. unfold clear_attr.
    destruct (attr_target_of x) as [[s | ] | ]; [apply ni_setslot | apply ni_new_dict | apply ni_ret].
Qed.

Ltac ni_step :=
  match goal with
  | |- ni (bind _ _) => apply ni_bind; [ | intro]
  | |- ni (ret _) => apply ni_ret
  | |- ni (getslot _) => apply ni_getslot
  | |- ni (setslot _ _) => apply ni_setslot
  | |- ni (is_cached _) => apply ni_is_cached
  | |- ni (getkey _) => apply ni_getkey
  | |- ni (setkey _ _) => apply ni_setkey
  | |- ni (may_raise _) => apply ni_may_raise
  | |- ni (cleanup _) => apply ni_cleanup
  | |- ni (lift (derive _ _)) => apply ni_lift_derive
  | |- ni (lift (derive_eig _ _ _ _)) => apply ni_lift_derive_eig
  | |- ni (raise E_calc) => apply ni_raise; discriminate
  | |- ni (raise E_value) => apply ni_raise; discriminate
  | |- ni (raise E_shape) => apply ni_raise; discriminate
  | |- ni (match ?x with _ => _ end) => destruct x
  | |- ni (if ?x then _ else _) => destruct x
  | H : _ |- _ => apply H
  end.
Ltac ni_auto := repeat ni_step.

Lemma ni_omega_equal : forall g, ni (omega_equal g). Proof. intros; unfold omega_equal; ni_auto. Qed.
Lemma ni_guard : forall mc g, ni (guard mc g).
Proof. intros; unfold guard; pose proof ni_omega_equal; ni_auto. Qed.
Lemma ni_t_prop : ni t_prop. Proof. unfold t_prop; ni_auto. Qed.
Lemma ni_tau_prop : ni tau_prop. Proof. unfold tau_prop; pose proof ni_t_prop; ni_auto. Qed.
Lemma ni_diagonalize : ni diagonalize. Proof. unfold diagonalize; ni_auto. Qed.
Lemma ni_lazy_prop : forall s, ni (lazy_prop s). Proof. intros; unfold lazy_prop; pose proof ni_diagonalize; ni_auto. Qed.
Lemma ni_tpl_prop : ni tpl_prop. Proof. unfold tpl_prop; pose proof ni_lazy_prop; ni_auto. Qed.
Lemma ni_cache_total_phases : forall mc g u, ni (cache_total_phases mc g u).
Proof. intros; unfold cache_total_phases; pose proof ni_guard; pose proof ni_tau_prop; ni_auto. Qed.
Lemma ni_get_total_phases : forall mc g, ni (get_total_phases mc g).
Proof. intros; unfold get_total_phases; pose proof ni_omega_equal; pose proof ni_cache_total_phases; ni_auto. Qed.
Lemma ni_cache_cm_rest : forall mc g v b, ni (cache_cm_rest mc g v b).
Proof. intros; unfold cache_cm_rest; pose proof ni_cache_total_phases; pose proof ni_tpl_prop; ni_auto. Qed.
Lemma ni_cache_cm_given : forall mc g v b, ni (cache_cm_given mc g v b).
Proof. intros; unfold cache_cm_given; pose proof ni_guard; pose proof ni_cache_cm_rest; ni_auto. Qed.
Lemma ni_update_intermediates : forall g ev, ni (update_intermediates g ev).
Proof. intros; unfold update_intermediates; ni_auto. Qed.
Lemma ni_get_cm : forall mc g ci, ni (get_cm mc g ci).
Proof.
  intros; unfold get_cm; pose proof ni_omega_equal; pose proof ni_diagonalize; pose proof ni_t_prop;
  pose proof ni_update_intermediates; pose proof ni_cache_cm_given; ni_auto.
Qed.
Lemma ni_cache_cm : forall mc g u ci, ni (cache_cm mc g u ci).
Proof. intros; unfold cache_cm; pose proof ni_guard; pose proof ni_get_cm; pose proof ni_cache_cm_rest; ni_auto. Qed.
Lemma ni_get_pccm : ni get_pccm. Proof. unfold get_pccm; ni_auto. Qed.
Lemma ni_second_order : forall g, ni (second_order g). Proof. intros; unfold second_order; ni_auto. Qed.
Lemma ni_cache_ff : forall mc g cmo ffo w o ci, ni (cache_ff mc g cmo ffo w o ci).
Proof.
  intros; unfold cache_ff; pose proof ni_guard; pose proof ni_get_cm; pose proof ni_cache_cm_given;
  pose proof ni_lazy_prop; pose proof ni_second_order; ni_auto.
Qed.
Lemma ni_get_ff : forall mc g w o ci, ni (get_ff mc g w o ci).
Proof. intros; unfold get_ff; pose proof ni_omega_equal; pose proof ni_get_cm; pose proof ni_cache_ff; ni_auto. Qed.
Lemma ni_get_pcff : forall w, ni (get_pcff w). Proof. intros; unfold get_pcff; ni_auto. Qed.
Lemma ni_get_deriv : forall mc g, ni (get_deriv mc g).
Proof. intros; unfold get_deriv; pose proof ni_get_cm; pose proof ni_lazy_prop; pose proof ni_t_prop; ni_auto. Qed.
Lemma ni_integrate : forall g f, ni (integrate g f). Proof. intros; unfold integrate; ni_auto. Qed.
Lemma ni_integrate2 : forall g f c, ni (integrate2 g f c). Proof. intros; unfold integrate2; ni_auto. Qed.
Lemma ni_infidelity : forall mc g pw tl ci, ni (infidelity mc g pw tl ci).
Proof.
  intros; unfold infidelity; pose proof ni_get_ff; pose proof ni_get_cm; pose proof ni_integrate; pose proof ni_integrate2;
  pose proof ni_omega_equal; pose proof ni_get_pcff; pose proof ni_get_pccm; ni_auto.
Qed.
Lemma ni_decay_amplitudes : forall mc g pw ci, ni (decay_amplitudes mc g pw ci).
Proof.
  intros; unfold decay_amplitudes; pose proof ni_get_ff; pose proof ni_get_cm; pose proof ni_integrate;
  pose proof ni_omega_equal; pose proof ni_get_pcff; pose proof ni_get_pccm; ni_auto.
Qed.
Lemma ni_cumulant : forall mc g pw s cio, ni (cumulant mc g pw s cio).
Proof.
  intros; unfold cumulant; pose proof ni_decay_amplitudes; pose proof ni_get_ff; pose proof ni_integrate; ni_auto.
Qed.
Lemma ni_clear_attrs : forall xs, ni (seq_all clear_attr xs).
Proof.
  intros xs. apply ni_seq_all. intros x. unfold clear_attr.
  destruct (attr_target_of x) as [[s | ] | ]; [apply ni_setslot | apply ni_new_dict | apply ni_ret].
Qed.
Lemma ni_run_op : forall mc o, ni (run_op mc o).
Proof.
  intros mc o. destruct o; cbn [run_op]; unfold noret, withret, error_transfer_matrix, infidelity_derivative,
    as_concat_input, as_periodic_input, as_extend_input, as_remap_input, chosen_grid, shape_fail, propagator_at, cleanup_user;
  pose proof ni_get_cm; pose proof ni_cache_cm; pose proof ni_get_pccm; pose proof ni_get_ff; pose proof ni_cache_ff;
  pose proof ni_get_pcff; pose proof ni_get_deriv; pose proof ni_get_total_phases; pose proof ni_cache_total_phases;
  pose proof ni_diagonalize; pose proof ni_lazy_prop; pose proof ni_tpl_prop; pose proof ni_t_prop; pose proof ni_tau_prop;
  pose proof ni_infidelity; pose proof ni_decay_amplitudes; pose proof ni_cumulant; pose proof ni_clear_attrs;
  pose proof ni_guard; ni_auto.
Qed.

(* ================================================================== the store *)
Definition Coherent (st : store) : Prop :=
  (forall i, i < nobj st -> iref st i < ndict st) /\
  (forall i j, i < nobj st -> j < nobj st -> i <> j -> iref st i <> iref st j) /\
  (forall i, i < nobj st -> ObjCoh (objs st i) (dicts st (iref st i))).

Lemma updn_same : forall A (f : nat -> A) i v, updn f i v i = v.
Proof. intros; unfold updn; rewrite Nat.eqb_refl; reflexivity. Qed.
Lemma updn_other : forall A (f : nat -> A) i j v, i <> j -> updn f i v j = f j.
Proof. intros; unfold updn; destruct (Nat.eqb i j) eqn:E; [apply Nat.eqb_eq in E; contradiction | reflexivity]. Qed.

Lemma ObjCoh_empty : ObjCoh (fun _ => None) (fun _ => None).
Proof.
  exists (0, 0), TI. split; [ | intros _; split; intros; reflexivity].
  split; [left; reflexivity | split; [split; intros; left; reflexivity | split]].
  - left. repeat split; reflexivity.
  - intros _. repeat split; reflexivity.
Qed.
(* a pulse made by extend / remap with cached diagonalization: eigen-data in a decomposition of its own *)
Lemma ObjCoh_extended : ObjCoh extended_slots (fun _ => None).
Proof.
  exists (0, 0), (TE 1). split; [ | intros _; split; [intros x K; destruct x; try discriminate K; reflexivity | intros; reflexivity]].
  split; [right; exists 1; reflexivity | split; [split | split]].
  - intros x. destruct x; simpl; try (left; reflexivity); right; reflexivity.
  - intros k. left; reflexivity.
  - right. simpl. repeat split; discriminate.
  - simpl. discriminate.
Qed.

Lemma coherent_init : Coherent init.
Proof.
  split; [ | split]; simpl.
  - intros i Hi. lia.
  - intros i j Hi Hj Hne. lia.
  - intros i _. apply ObjCoh_empty.
Qed.

Lemma view_LC : forall st i, Coherent st -> i < nobj st -> LC (view st i).
Proof. intros st i [_ [_ H]] Hi. apply H, Hi. Qed.

Lemma write_back_coherent : forall st i l, Coherent st -> i < nobj st -> LC l -> Coherent (write_back st i l).
Proof.
  intros st i l [Hv [Hs Hc]] Hi Hl. unfold write_back. destruct (dnew l); (split; [ | split]); simpl.
  - intros j Hj. destruct (Nat.eq_dec i j) as [<- | Hne]; [rewrite updn_same; lia | rewrite updn_other by exact Hne].
    specialize (Hv j Hj). lia.
  - intros j j' Hj Hj' Hne.
    destruct (Nat.eq_dec i j) as [<- | N1]; destruct (Nat.eq_dec i j') as [<- | N2];
      rewrite ?updn_same, ?updn_other by assumption.
    + contradiction.
    + specialize (Hv j' Hj'). lia.
    + specialize (Hv j Hj). lia.
    + apply Hs; assumption.
  - intros j Hj. destruct (Nat.eq_dec i j) as [<- | Hne].
    + rewrite !updn_same. exact Hl.
    + rewrite (updn_other _ (objs st) i j) by exact Hne. rewrite (updn_other _ (iref st) i j) by exact Hne.
      specialize (Hv j Hj). rewrite updn_other by lia. apply Hc, Hj.
  - intros j Hj. apply Hv, Hj.
  - intros j j' Hj Hj' Hne. apply Hs; assumption.
  - intros j Hj. destruct (Nat.eq_dec i j) as [<- | Hne].
    + rewrite !updn_same. exact Hl.
    + rewrite updn_other by exact Hne. rewrite updn_other by (apply Hs; assumption). apply Hc, Hj.
Qed.

(* a new object with the slots of object i (or none) and a dict of its own *)
Lemma add_object_coherent : forall st s d,
  Coherent st -> ObjCoh s d ->
  Coherent (mkS (S (nobj st)) (updn (objs st) (nobj st) s) (updn (iref st) (nobj st) (ndict st))
                (S (ndict st)) (updn (dicts st) (ndict st) d)).
Proof.
  intros st s d [Hv [Hs Hc]] Ho. split; [ | split]; simpl.
  - intros j Hj. destruct (Nat.eq_dec (nobj st) j) as [<- | Hne]; [rewrite updn_same; lia | ].
    rewrite updn_other by exact Hne. assert (j < nobj st) by lia. specialize (Hv j H). lia.
  - intros j j' Hj Hj' Hne.
    destruct (Nat.eq_dec (nobj st) j) as [<- | N1]; destruct (Nat.eq_dec (nobj st) j') as [<- | N2];
      rewrite ?updn_same, ?updn_other by assumption.
    + contradiction.
    + assert (j' < nobj st) by lia. specialize (Hv j' H). lia.
    + assert (j < nobj st) by lia. specialize (Hv j H). lia.
    + apply Hs; lia.
  - intros j Hj. destruct (Nat.eq_dec (nobj st) j) as [<- | Hne].
    + rewrite !updn_same. exact Ho.
    + rewrite (updn_other _ (objs st) (nobj st) j) by exact Hne. rewrite (updn_other _ (iref st) (nobj st) j) by exact Hne.
      assert (j < nobj st) by lia. specialize (Hv j H).
      rewrite updn_other by lia. apply Hc, H.
Qed.

(* coherent_step: every operation, every abort point *)
Lemma coherent_step : forall st c, Coherent st -> gop_ok c = true -> Coherent (step st c).
Proof.
  intros st c H Hok. unfold step, step_with, exec. destruct c as [i o k | i | i | | ].
  - destruct (Nat.ltb i (nobj st)) eqn:Hi; [ | exact H]. apply Nat.ltb_lt in Hi.
    pose proof (run_op_coherent o (view st i) Hok (view_LC st i H Hi) k) as Hr.
    destruct (run_op fixed o (view st i) k) as [[l k'] [a | e]]; simpl; apply write_back_coherent; assumption.
  - destruct (Nat.ltb i (nobj st)) eqn:Hi; [ | exact H]. apply Nat.ltb_lt in Hi. simpl.
    apply add_object_coherent; [exact H | ]. destruct H as [_ [_ Hc]]. apply Hc, Hi.
  - destruct (Nat.ltb i (nobj st)) eqn:Hi; [ | exact H]. apply Nat.ltb_lt in Hi. simpl.
    apply add_object_coherent; [exact H | ]. destruct H as [_ [_ Hc]]. apply Hc, Hi.
  - simpl. apply add_object_coherent; [exact H | apply ObjCoh_empty].
  - simpl. apply add_object_coherent; [exact H | apply ObjCoh_extended].
Qed.

Theorem all_histories : forall ops, forallb gop_ok ops = true -> Coherent (fold_left step ops init).
Proof.
  intros ops. assert (G : forall st, Coherent st -> forallb gop_ok ops = true -> Coherent (fold_left step ops st)).
  { induction ops as [ | c r IH]; intros st H Hok; simpl; [exact H | ].
    simpl in Hok. apply andb_true_iff in Hok. destruct Hok as [H1 H2].
    apply IH; [apply coherent_step; assumption | exact H2]. }
  apply G, coherent_init.
Qed.

(* what Coherent says, slot by slot *)
Lemma coherent_meaning : forall st i, Coherent st -> i < nobj st ->
  (forall s t, slot_kind s = KFD -> objs st i s = Some t ->
     exists g, objs st i S_omega = Some (TF g) /\ t = TF g) /\
  (forall k t, key_kind k = KFD -> dicts st (iref st i) k = Some t ->
     exists g, objs st i S_omega = Some (TF g) /\ t = TF g) /\
  (forall s t, slot_kind s = KFI -> objs st i s = Some t -> t = TI) /\
  (exists e, edec e /\
     (forall s t, slot_kind s = KE -> objs st i s = Some t -> t = e) /\
     (forall k t, key_kind k = KE -> dicts st (iref st i) k = Some t ->
        t = e /\ objs st i S_eigvecs = Some e) /\
     (forall t, dicts st (iref st i) K_first_order_integral = Some t ->
        exists g, objs st i S_omega = Some (TF g) /\ t = foi_tag g e /\ objs st i S_eigvecs = Some e)).
Proof.
  intros st i H Hi. pose proof (view_LC st i H Hi) as Hl. unfold LC, view in Hl. simpl in Hl.
  destruct Hl as [g [e [[He [[Hs Hk] [Ht Hen]]] Hn]]].
  assert (Hom : forall x, key_fd x = true -> forall t, dicts st (iref st i) x = Some t -> objs st i S_omega = Some (TF g)).
  { intros x K t E. destruct (objs st i S_omega) eqn:Eo.
    - pose proof (Hs S_omega) as Ho. rewrite Eo in Ho. destruct Ho as [Ho | Ho]; [discriminate | exact Ho].
    - destruct (Hn eq_refl) as [_ Fk]. rewrite (Fk x K) in E. discriminate. }
  assert (Hev : forall x t, (x = K_n_opers_transformed \/ x = K_basis_transformed \/ x = K_first_order_integral) ->
                dicts st (iref st i) x = Some t -> objs st i S_eigvecs = Some e).
  { intros x t Hx E. destruct (Hs S_eigvecs) as [E0 | E0]; [ | exact E0].
    destruct (Hen E0) as [K1 [K2 K3]]. destruct Hx as [-> | [-> | ->]]; congruence. }
  split; [ | split; [ | split]].
  - intros s t K E. destruct (objs st i S_omega) eqn:Eo.
    + pose proof (Hs S_omega) as Ho. rewrite Eo in Ho. destruct Ho as [Ho | Ho]; [discriminate | ].
      simpl in Ho. injection Ho as ->. exists g. split; [reflexivity | ].
      destruct (Hs s) as [Hx | Hx]; rewrite E in Hx; [discriminate | ]. rewrite K in Hx. injection Hx; auto.
    + destruct (Hn eq_refl) as [Fs _]. rewrite (Fs s K) in E. discriminate.
  - intros k t K E. exists g. split; [apply (Hom k ltac:(destruct k; try reflexivity; discriminate K) t E) | ].
    destruct (Hk k) as [Hx | Hx]; rewrite E in Hx; [discriminate | ]. rewrite K in Hx. injection Hx; auto.
  - intros s t K E. destruct (Hs s) as [Hx | Hx]; rewrite E in Hx; [discriminate | ]. rewrite K in Hx. injection Hx; auto.
  - exists e. split; [exact He | split; [ | split]].
    + intros s t K E. destruct (Hs s) as [Hx | Hx]; rewrite E in Hx; [discriminate | ]. rewrite K in Hx. injection Hx; auto.
    + intros k t K E. split.
      * destruct (Hk k) as [Hx | Hx]; rewrite E in Hx; [discriminate | ]. rewrite K in Hx. injection Hx; auto.
      * apply (Hev k t); [destruct k; try discriminate K; auto | exact E].
    + intros t E. exists g. split; [apply (Hom K_first_order_integral eq_refl t E) | split].
      * destruct (Hk K_first_order_integral) as [Hx | Hx]; rewrite E in Hx; [discriminate | injection Hx; auto].
      * apply (Hev K_first_order_integral t); [auto | exact E].
Qed.

(* ------------------------------------------------------------------ results *)
Definition omega_of (st : store) (i : nat) : option tag := objs st i S_omega.

(* a request for grid g on any object of a coherent store, whatever the adversary does: either the value for
   g comes back -- and it is a cached object, or derived from one, only if the object's _omega was g --
   or an injected exception comes out *)
Theorem served_only_if_same_grid : forall st i o g k, Coherent st -> i < nobj st -> grid_getter o g ->
  match snd (fst (exec fixed st (Call i o k))) with
  | Ret r => exists h, r = Some (TF g, h) /\ (h <> Computed -> omega_of st i = Some (TF g))
  | Raise e => injected e
  end.
Proof.
  intros st i o g k H Hi Hg. unfold exec. apply Nat.ltb_lt in Hi. rewrite Hi. apply Nat.ltb_lt in Hi.
  pose proof (run_op_getter o g (view st i) Hg (view_LC st i H Hi) k) as Hr.
  destruct (run_op fixed o (view st i) k) as [[l k'] [a | e]]; simpl; apply Hr.
Qed.

Definition value_of (r : res (option (tag * how))) : option (res (option tag)) :=
  match r with
  | Ret None => Some (Ret None)
  | Ret (Some (t, _)) => Some (Ret (Some t))
  | Raise e => Some (Raise e)
  end.

(* without the adversary: the value for g, no exception *)
Lemma getter_result : forall st i o g, Coherent st -> i < nobj st -> grid_getter o g ->
  exists h, result st (Call i o never) = Ret (Some (TF g, h)).
Proof.
  intros st i o g H Hi Hg. pose proof (served_only_if_same_grid st i o g never H Hi Hg) as Hs.
  unfold result. unfold exec in *. apply Nat.ltb_lt in Hi. rewrite Hi in *.
  pose proof (ni_run_op fixed o (view st i)) as Hn. unfold never in *.
  destruct (run_op fixed o (view st i) None) as [[l k'] [a | e]]; simpl in *.
  - destruct Hs as [h [-> _]]. exists h. reflexivity.
  - destruct Hs as [lab ->]. destruct Hn as [_ Hn]. exfalso. apply (Hn lab). reflexivity.
Qed.

(* observational form: same value, same exception behaviour as on a freshly constructed pulse *)
Theorem observational : forall st i o g, Coherent st -> i < nobj st -> grid_getter o g ->
  value_of (result st (Call i o never)) = value_of (result init (Call 0 o never)).
Proof.
  intros st i o g H Hi Hg.
  destruct (getter_result st i o g H Hi Hg) as [h ->].
  destruct (getter_result init 0 o g coherent_init (Nat.lt_0_1) Hg) as [h' ->]. reflexivity.
Qed.

(* pulse-correlation quantities: the value of the object's current frequencies, or CalculationError /
   ValueError (other frequencies requested); never a value of other frequencies *)
Theorem pc_consistent : forall st i o og k, Coherent st -> i < nobj st -> pc_getter o og ->
  match snd (fst (exec fixed st (Call i o k))) with
  | Ret r => exists g h, omega_of st i = Some (TF g) /\ r = Some (TF g, h) /\
                         match og with Some g' => g' = g | None => True end
  | Raise e => injected e \/ e = E_calc \/ e = E_value
  end.
Proof.
  intros st i o og k H Hi Hg. unfold exec. apply Nat.ltb_lt in Hi. rewrite Hi. apply Nat.ltb_lt in Hi.
  pose proof (run_op_pc o og (view st i) Hg (view_LC st i H Hi) k) as Hr.
  destruct (run_op fixed o (view st i) k) as [[l k'] [a | e]]; simpl; apply Hr.
Qed.

(* C18, second half: a call that raises -- wherever -- leaves a coherent store, and every later request
   on any history continued from there is answered as on a fresh pulse *)
Theorem failure_coherent : forall st i o k e, Coherent st -> op_ok o = true ->
  snd (fst (exec fixed st (Call i o k))) = Raise e -> Coherent (step st (Call i o k)).
Proof. intros st i o k e H Hok _. apply coherent_step; assumption. Qed.

Theorem failure_then_correct : forall st i o k e ops j o' g,
  Coherent st -> op_ok o = true -> snd (fst (exec fixed st (Call i o k))) = Raise e ->
  forallb gop_ok ops = true ->
  let st' := fold_left step ops (step st (Call i o k)) in
  j < nobj st' -> grid_getter o' g ->
  value_of (result st' (Call j o' never)) = value_of (result init (Call 0 o' never)).
Proof.
  intros st i o k e ops j o' g H Hok Hr Hops st' Hj Hg. apply (observational st' j o' g); [ | exact Hj | exact Hg].
  unfold st'. clear Hj st'. assert (H1 : Coherent (step st (Call i o k))) by (apply coherent_step; assumption).
  revert H1 Hops. generalize (step st (Call i o k)). induction ops as [ | c r IH]; intros s H1 Hops; simpl; [exact H1 | ].
  simpl in Hops. apply andb_true_iff in Hops. destruct Hops as [Hc Hr']. apply IH; [apply coherent_step; assumption | exact Hr'].
Qed.

(* ================================================================== a decision procedure (one direction) *)
Definition tag_eqb (a b : tag) : bool :=
  match a, b with
  | TI, TI => true | TF g, TF g' => grid_eqb g g' | TBad n, TBad m => Nat.eqb n m
  | TE e, TE e' => Nat.eqb e e' | TFE g e, TFE g' e' => grid_eqb g g' && Nat.eqb e e' | _, _ => false
  end.
Definition ok_for (g : grid) (e : tag) (k : kind) (v : option tag) : bool :=
  match v with None => true | Some t => tag_eqb t (want g e k) end.
Definition obj_cohb (s : slot -> option tag) (d : ikey -> option tag) : bool :=
  let e := eig_tag_of (s S_eigvecs) in
  let trio := (negb (some_b (s S_eigvals)) && negb (some_b (s S_eigvecs)) && negb (some_b (s S_propagators)))
              || (some_b (s S_eigvals) && some_b (s S_eigvecs) && some_b (s S_propagators)) in
  let enone := some_b (s S_eigvecs)
               || (negb (some_b (d K_n_opers_transformed)) && negb (some_b (d K_basis_transformed))
                   && negb (some_b (d K_first_order_integral))) in
  trio && enone &&
  match s S_omega with
  | Some (TF g) => forallb (fun x => ok_for g e (slot_kind x) (s x)) all_slots
                   && forallb (fun k => ok_for g e (key_kind k) (d k)) all_keys
  | Some _ => false
  | None => forallb (fun x => match slot_kind x with
                              | KFI | KE => ok_for (0, 0) e (slot_kind x) (s x)
                              | _ => negb (some_b (s x)) end) all_slots
            && forallb (fun k => if key_fd k then negb (some_b (d k)) else ok_for (0, 0) e (key_kind k) (d k)) all_keys
  end.
Definition coherent_b (st : store) : bool :=
  forallb (fun i => obj_cohb (objs st i) (dicts st (iref st i))) (seq 0 (nobj st)).

Lemma tag_eqb_refl : forall t, tag_eqb t t = true.
Proof.
  destruct t; simpl; [reflexivity | apply grid_eqb_refl | apply Nat.eqb_refl | apply Nat.eqb_refl | ].
  rewrite grid_eqb_refl, Nat.eqb_refl. reflexivity.
Qed.
Lemma ok_for_tag_for : forall g e k v, tag_for g e k v -> ok_for g e k v = true.
Proof. intros g e k v [-> | ->]; simpl; [reflexivity | apply tag_eqb_refl]. Qed.

(* with no eigen-data cached the decomposition instance is immaterial *)
Lemma OP_enone_TI : forall g e s d, OP g e s d -> s S_eigvecs = None -> OP g TI s d.
Proof.
  intros g e s d [He [[Hs Hk] [Ht Hen]]] E0. destruct (Hen E0) as [K1 [K2 K3]].
  assert (T1 : s S_eigvals = None) by (destruct Ht as [[T1 _] | [_ [T2 _]]]; [exact T1 | contradiction]).
  split; [left; reflexivity | split; [split | split; assumption]].
  - intros x. specialize (Hs x). destruct x; simpl in *; try exact Hs; left; assumption.
  - intros k. specialize (Hk k). destruct k; simpl in *; try exact Hk; left; assumption.
Qed.

Lemma obj_cohb_complete : forall s d, ObjCoh s d -> obj_cohb s d = true.
Proof.
  intros s d [g [e0 [H0 Hn]]]. unfold obj_cohb.
  (* normalise the decomposition instance to the one the checker reads off _eigvecs *)
  assert (H : OP g (eig_tag_of (s S_eigvecs)) s d).
  { pose proof H0 as [_ [[Hs _] _]]. destruct (Hs S_eigvecs) as [E | E]; rewrite E; simpl.
    - apply (OP_enone_TI g e0); assumption.
    - exact H0. }
  clear H0. set (e := eig_tag_of (s S_eigvecs)) in *. destruct H as [He [[Hs Hk] [Ht Hen]]].
  assert (Btrio : (negb (some_b (s S_eigvals)) && negb (some_b (s S_eigvecs)) && negb (some_b (s S_propagators)))
              || (some_b (s S_eigvals) && some_b (s S_eigvecs) && some_b (s S_propagators)) = true).
  { destruct Ht as [[-> [-> ->]] | [N1 [N2 N3]]]; [reflexivity | ].
    destruct (s S_eigvals); [ | contradiction]. destruct (s S_eigvecs); [ | contradiction].
    destruct (s S_propagators); [ | contradiction]. reflexivity. }
  assert (Benone : some_b (s S_eigvecs)
               || (negb (some_b (d K_n_opers_transformed)) && negb (some_b (d K_basis_transformed))
                   && negb (some_b (d K_first_order_integral))) = true).
  { destruct (s S_eigvecs) eqn:E; [reflexivity | ]. destruct (Hen eq_refl) as [-> [-> ->]]. reflexivity. }
  rewrite Btrio, Benone. cbn [andb].
  destruct (s S_omega) eqn:Eo.
  - pose proof (Hs S_omega) as Ho. rewrite Eo in Ho. destruct Ho as [Ho | Ho]; [discriminate | ].
    simpl in Ho. injection Ho as ->. apply andb_true_iff. split; apply forallb_forall.
    + intros x _. apply ok_for_tag_for, Hs.
    + intros x _. apply ok_for_tag_for, Hk.
  - destruct (Hn eq_refl) as [Fs Fk]. apply andb_true_iff. split; apply forallb_forall.
    + intros x _. destruct (slot_kind x) eqn:K.
      * destruct x; try discriminate K. rewrite Eo. reflexivity.
      * rewrite (Fs x K). reflexivity.
      * specialize (Hs x). rewrite K in Hs. destruct Hs as [-> | ->]; [reflexivity | apply tag_eqb_refl].
      * specialize (Hs x). rewrite K in Hs. destruct Hs as [-> | ->]; [reflexivity | apply tag_eqb_refl].
      * destruct x; discriminate K.
    + intros x _. destruct (key_fd x) eqn:K.
      * rewrite (Fk x K). reflexivity.
      * specialize (Hk x). destruct x; try discriminate K; simpl in Hk |- *;
          (destruct Hk as [-> | ->]; [reflexivity | apply tag_eqb_refl]).
Qed.

Lemma coherent_b_complete : forall st, Coherent st -> coherent_b st = true.
Proof.
  intros st [_ [_ Hc]]. unfold coherent_b. apply forallb_forall. intros i Hi. apply in_seq in Hi.
  apply obj_cohb_complete, Hc. lia.
Qed.
Lemma not_coherent : forall st, coherent_b st = false -> ~ Coherent st.
Proof. intros st Hb H. rewrite (coherent_b_complete st H) in Hb. discriminate. Qed.

(* ================================================================== the mechanisms are needed *)
Definition g1 : grid := (1, 4).     (* three grids: g2 has the length of g1, g3 another length *)
Definition g2 : grid := (2, 4).
Definition g3 : grid := (3, 7).
Definition run_with (mc : mech) (ops : list gop) : store := fold_left (step_with mc) ops init.
Definition result_with (mc : mech) (st : store) (c : gop) := snd (fst (exec mc st c)).

(* (a) cache_* methods that do not clear on a change of grid (the code before commit 9802619):
   the control matrix of g1 is served for g2 *)
Definition no_clear : mech := mkMech false true true true.
Definition hist_a : list gop :=
  [Call 0 (GetCM g1 false) never; Call 0 (CacheFF g2 None (Some UOk) Fidelity First false) never].
Example cache_clear_needed :
  forallb gop_ok hist_a = true /\
  ~ Coherent (run_with no_clear hist_a) /\
  result_with no_clear (run_with no_clear hist_a) (Call 0 (GetCM g2 false) never) = Ret (Some (TF g1, Served)) /\
  result_with fixed (run_with fixed hist_a) (Call 0 (GetCM g2 false) never) = Ret (Some (TF g2, Computed)).
Proof. split; [reflexivity | split; [apply not_coherent; vm_compute; reflexivity | split; vm_compute; reflexivity]]. Qed.

(* (b) shallow copies sharing the _intermediates dict (before commit 35d842e): the copy computes its
   second-order filter function for g1 from the original's intermediates of g2 *)
Definition shared_dict : mech := mkMech true false true true.
Definition hist_b : list gop := [Call 0 (GetCM g1 true) never; Copy 0; Call 0 (GetCM g2 true) never].
Example own_dict_needed :
  forallb gop_ok hist_b = true /\
  ~ Coherent (run_with shared_dict hist_b) /\
  result_with shared_dict (run_with shared_dict hist_b) (Call 1 (GetFF g1 Fidelity Second false) never)
    = Ret (Some (TBad 4, Computed)) /\
  result_with fixed (run_with fixed hist_b) (Call 1 (GetFF g1 Fidelity Second false) never)
    = Ret (Some (TF g1, Computed)).
Proof. split; [reflexivity | split; [apply not_coherent; vm_compute; reflexivity | split; vm_compute; reflexivity]]. Qed.
(* ... and with grids of different lengths the copy's request raises although a fresh pulse's would not *)
Example own_dict_needed_exception :
  result_with shared_dict (run_with shared_dict [Call 0 (GetCM g1 true) never; Copy 0; Call 0 (GetCM g3 true) never])
              (Call 1 (GetFF g1 Fidelity Second false) never) = Raise E_shape.
Proof. vm_compute. reflexivity. Qed.

(* (c) get_filter_function_derivative reading the intermediates before requesting the control matrix
   (before commit 031d19d): first-order integral of g1 used for g2; exception for another length *)
Definition deriv_before : mech := mkMech true true false true.
Definition hist_c : list gop := [Call 0 (GetCM g1 true) never].
Example deriv_order_needed :
  result_with deriv_before (run_with deriv_before hist_c) (Call 0 (GetDeriv g2) never) = Ret (Some (TBad 4, Computed)) /\
  result_with deriv_before (run_with deriv_before hist_c) (Call 0 (GetDeriv g3) never) = Raise E_shape /\
  result_with fixed (run_with fixed hist_c) (Call 0 (GetDeriv g2) never) = Ret (Some (TF g2, Computed)) /\
  result_with fixed (run_with fixed hist_c) (Call 0 (GetDeriv g3) never) = Ret (Some (TF g3, Computed)).
Proof. repeat split; vm_compute; reflexivity. Qed.

(* (d) user data that is not what the caller says breaks the invariant: the hypothesis gop_ok is needed *)
Definition hist_d : list gop := [Call 0 (CacheCM g1 (Some (UBad, false)) false) never].
Example correct_user_data_needed :
  forallb gop_ok hist_d = false /\ ~ Coherent (run_with fixed hist_d) /\
  result_with fixed (run_with fixed hist_d) (Call 0 (GetCM g1 false) never) = Ret (Some (TBad 4, Served)).
Proof. split; [reflexivity | split; [apply not_coherent; vm_compute; reflexivity | vm_compute; reflexivity]]. Qed.

(* (e) cleanup('conservative') that keeps the intermediates (before commit 9d58c0f): on a pulse made by extend(...)
   with cached diagonalization (object 1; eigvals / eigvecs assembled from the inputs' ones: a valid
   decomposition, not the one numeric.diagonalize returns) the intermediates n_opers_transformed,
   basis_transformed, first_order_integral are expressed in the cached eigenbasis; the clean-up drops the
   eigenbasis but keeps them, the next request re-diagonalizes and combines them with the new eigen-data
   (reproduced on the implementation before the repair: relative errors 0.37 / 1.0 / 0.07) *)
Definition no_reset : mech := mkMech true true true false.
Definition hist_x : list gop :=
  [FreshExtended; Call 1 (GetCM g1 true) never; Call 1 (Cleanup Conservative) never].
Example cleanup_reset_needed :
  forallb gop_ok hist_x = true /\
  ~ Coherent (run_with no_reset hist_x) /\
  result_with no_reset (run_with no_reset hist_x) (Call 1 (GetFF g1 Fidelity Second false) never) = Ret (Some (TBad 4, Computed)) /\
  result_with no_reset (run_with no_reset hist_x) (Call 1 (GetDeriv g1) never) = Ret (Some (TBad 4, Computed)) /\
  result_with no_reset (run_with no_reset hist_x) (Call 1 (Cumulant g1 Total true None) never) = Ret (Some (TBad 4, Computed)) /\
  result_with fixed (run_with fixed hist_x) (Call 1 (GetFF g1 Fidelity Second false) never) = Ret (Some (TF g1, Computed)) /\
  result_with fixed (run_with fixed hist_x) (Call 1 (GetDeriv g1) never) = Ret (Some (TF g1, Computed)) /\
  result_with fixed (run_with fixed hist_x) (Call 1 (Cumulant g1 Total true None) never) = Ret (Some (TF g1, Computed)).
Proof. split; [reflexivity | split; [apply not_coherent; vm_compute; reflexivity | repeat split; vm_compute; reflexivity]]. Qed.

(* the hypotheses of the theorems are satisfiable on non-trivial stores: a history with intermediates,
   a shallow copy, an aborted call, clean-up, a deep copy *)
Definition hist_e : list gop :=
  [Call 0 (GetFF g1 Generalized First true) never; Copy 0; Call 1 (GetFF g2 Fidelity Second false) (Some 1);
   Call 0 (CacheCM g3 (Some (UOk, true)) false) never; DeepCopy 0; Call 2 (Cleanup Greedy) never;
   Call 1 (GetDeriv g3) never; Call 0 (GetPCFF Generalized) never].
Example hypotheses_satisfiable :
  forallb gop_ok hist_e = true /\ nobj (fold_left step hist_e init) = 3 /\
  map (occupancy (fold_left step hist_e init)) [0; 1; 2] = [214527; 2032639; 7]%N /\
  result (fold_left step hist_e init) (Call 1 (GetFF g3 Fidelity Second true) never) = Ret (Some (TF g3, Computed)).
Proof. repeat split; vm_compute; reflexivity. Qed.

(* ================================================================== outside the abstraction: mutable grids *)
(* The theorems above treat frequency grids as immutable values.  That is justified only because the object keeps
   a private copy of the frequencies (omega.setter: np.array(value), commit 0d133f1).  Before, it stored a
   REFERENCE to the caller's array (np.asarray does not copy), so np.array_equal(self.omega, omega) compared the
   caller's array with itself after the caller had modified it in place.  Minimal model of both: one array cell
   owned by the caller, a pulse whose _omega is a reference to that cell ([astep]) or a copy ([astep_copy]), one
   cached filter function tagged with the grid it was computed for. *)
Record astate := mkA { cell : grid; omega_is_cell : bool; ff_cached : option grid }.
Inductive aop :=
| ARequest              (* pulse.get_filter_function(w), w being the caller's array *)
| AMutate (g' : grid).  (* the caller writes new frequencies into w in place *)
Definition astep (s : astate) (o : aop) : astate * option grid :=
  match o with
  | AMutate g' => (mkA g' (omega_is_cell s) (ff_cached s), None)
  | ARequest =>
      match omega_is_cell s, ff_cached s with
      | true, Some g => (s, Some g)            (* np.array_equal(self.omega, omega) holds trivially: served *)
      | _, _ => (mkA (cell s) true (Some (cell s)), Some (cell s))
      end
  end.
Definition ainit (g : grid) : astate := mkA g false None.

Example omega_copy_needed : forall g g', g <> g' ->
  let s1 := fst (astep (ainit g) ARequest) in
  let s2 := fst (astep s1 (AMutate g')) in
  cell s2 = g' /\ snd (astep s2 ARequest) = Some g.
Proof. intros g g' _. split; reflexivity. Qed.
(* with a private copy (the current source) the comparison sees the change *)
Definition astep_copy (s : astate * grid) (o : aop) : (astate * grid) * option grid :=
  let '(a, own) := s in
  match o with
  | AMutate g' => ((mkA g' (omega_is_cell a) (ff_cached a), own), None)
  | ARequest =>
      match ff_cached a with
      | Some g => if grid_eqb own (cell a) then (s, Some g)
                  else ((mkA (cell a) true (Some (cell a)), cell a), Some (cell a))
      | None => ((mkA (cell a) true (Some (cell a)), cell a), Some (cell a))
      end
  end.
Example omega_copy_works : forall g g', g <> g' ->
  let s1 := fst (astep_copy (ainit g, g) ARequest) in
  let s2 := fst (astep_copy s1 (AMutate g')) in
  snd (astep_copy s2 ARequest) = Some g'.
Proof.
  intros g g' Hne. simpl. destruct (grid_eqb g g') eqn:E; [apply grid_eqb_eq in E; contradiction | reflexivity].
Qed.
