(* Second-order filter function: gluing the segments.
   With the piecewise time-domain control matrix  Bpw x y (t) = beta^g_xy(t - t_g)  for t_g <= t < t_{g+1}
   and its running Fourier integral Gpw(t) = int_0^t e^{i w t'} B_bl(t') dt', the model's entry is
        F2_ab,kl(w) = int_0^tau e^{-i w t} B_ak(t) ( int_0^t e^{i w t'} B_bl(t') dt' ) dt .       (F2_assembly) *)
From Coq Require Import ZArith Reals Lra Lia List.
From Coquelicot Require Import Coquelicot.
From FF Require Import Base.Ops Inst.RInst Base.RAlg Model.Numeric Model.SecondOrder Proofs.Foi Proofs.SecondOrder
     Proofs.SecondOrderAsm Proofs.SecondOrderInt.
Import ListNotations.
Local Open Scope R_scope.

(* ------------------------------------------------------------------ more on complex-valued integrals *)
Lemma is_CInt_ext_open f g a b z :
  (forall t, Rmin a b < t < Rmax a b -> f t = g t) -> is_CInt f a b z -> is_CInt g a b z.
Proof.
  intros E [H1 H2]. split.
  - apply (is_RInt_ext (fun t => fst (f t))); auto. intros x Hx. rewrite E; auto.
  - apply (is_RInt_ext (fun t => snd (f t))); auto. intros x Hx. rewrite E; auto.
Qed.
Lemma is_CInt_point f a : is_CInt f a a 0c.
Proof. split; simpl; apply (is_RInt_point (V:=R_NormedModule)). Qed.
Lemma is_CInt_Chasles f a b c z1 z2 : is_CInt f a b z1 -> is_CInt f b c z2 -> is_CInt f a c (cadd' z1 z2).
Proof.
  intros [A1 A2] [B1 B2]. split; simpl.
  - apply (is_RInt_Chasles (V:=R_NormedModule) _ a b c _ _ A1 B1).
  - apply (is_RInt_Chasles (V:=R_NormedModule) _ a b c _ _ A2 B2).
Qed.
Lemma is_CInt_shift f t0 T z : is_CInt f 0 T z -> is_CInt (fun t => f (t - t0)) t0 (t0 + T) z.
Proof.
  intros [H1 H2]. split.
  - apply (is_RInt_ext (fun y => scal 1 (fst (f (1 * y + - t0))))).
    { intros x _. unfold scal; simpl. unfold mult; simpl. rewrite Rmult_1_l. f_equal. f_equal. ring. }
    apply (is_RInt_comp_lin (V:=R_NormedModule) (fun t => fst (f t))).
    replace (1 * t0 + - t0) with 0 by ring. replace (1 * (t0 + T) + - t0) with T by ring. exact H1.
  - apply (is_RInt_ext (fun y => scal 1 (snd (f (1 * y + - t0))))).
    { intros x _. unfold scal; simpl. unfold mult; simpl. rewrite Rmult_1_l. f_equal. f_equal. ring. }
    apply (is_RInt_comp_lin (V:=R_NormedModule) (fun t => snd (f t))).
    replace (1 * t0 + - t0) with 0 by ring. replace (1 * (t0 + T) + - t0) with T by ring. exact H2.
Qed.
Lemma is_CInt_conj f a b z : is_CInt f a b z -> is_CInt (fun t => cconj' (f t)) a b (cconj' z).
Proof.
  intros [H1 H2]. split; simpl. exact H1. apply (is_RInt_opp (V:=R_NormedModule) _ _ _ _ H2).
Qed.
Lemma is_CInt_val f a b z z' : z = z' -> is_CInt f a b z -> is_CInt f a b z'.
Proof. intros ->; auto. Qed.

Section Glue.
Variable d : nat.
Variable thr2 : R.
Variables (omega : list R) (basis nopers : list (Mat (T:=R))).
Variables (a b k l o : nat).
Notation Seg := (SegData (T:=R)).
Notation na := (length nopers).
Notation nk := (length basis).
Notation no := (length omega).
Notation w := (vg RO omega o).

(* piecewise time-domain control matrix entry (x,y) on [t0, t0 + sum dt], and the running integral for (b,l) *)
Fixpoint Bpw (x y : nat) (segs : list Seg) (t0 t : R) : Cx :=
  match segs with
  | [] => 0c
  | s :: r => if Rlt_dec t (t0 + seg_dt s) then beta d (seg_ev s) (seg_X s x y) (t - t0)
              else Bpw x y r (t0 + seg_dt s) t
  end.
Fixpoint Gpw (segs : list Seg) (t0 : R) (c0 : Cx) (t : R) : Cx :=
  match segs with
  | [] => c0
  | s :: r => if Rlt_dec t (t0 + seg_dt s)
              then cadd' c0 (cmul' (cexp' (w * t0)) (gamma d (seg_ev s) w (seg_X s b l) (t - t0)))
              else Gpw r (t0 + seg_dt s) (cadd' c0 (cmul' (cexp' (w * t0)) (gamma d (seg_ev s) w (seg_X s b l) (seg_dt s)))) t
  end.
Fixpoint total (segs : list Seg) : R := match segs with [] => 0 | s :: r => seg_dt s + total r end.

Lemma total_nonneg segs : (forall s, In s segs -> 0 <= seg_dt s) -> 0 <= total segs.
Proof. induction segs; simpl; intros H. lra. assert (0 <= seg_dt a0) by (apply H; left; auto).
  assert (0 <= total segs) by (apply IHsegs; intros; apply H; right; auto). lra. Qed.

(* e^{i w t} beta(t - t0) = e^{i w t0} (e^{i w u} beta(u)) at u = t - t0 *)
Lemma phase_shift (f : R -> Cx) t0 t :
  cmul' (cexp' (w * t)) (f (t - t0)) = cmul' (cexp' (w * t0)) (cmul' (cexp' (w * (t - t0))) (f (t - t0))).
Proof. replace (w * t) with (w * t0 + w * (t - t0)) by ring. rewrite cexp_add. ring. Qed.

(* inner integral: Gpw(t) - c0 = int_{t0}^t e^{i w t'} B_bl(t') dt' *)
Lemma inner_glue : forall segs t0 c0 t,
  (forall s, In s segs -> 0 <= seg_dt s) -> t0 <= t <= t0 + total segs ->
  is_CInt (fun t' => cmul' (cexp' (w * t')) (Bpw b l segs t0 t')) t0 t (csub' (Gpw segs t0 c0 t) c0).
Proof.
  induction segs as [|s r IH]; intros t0 c0 t Hdt Ht.
  - simpl in *. assert (t = t0) by lra. subst. apply (is_CInt_val _ _ _ 0c). ring. apply is_CInt_point.
  - assert (Hs : 0 <= seg_dt s) by (apply Hdt; left; auto).
    assert (Hr : forall s', In s' r -> 0 <= seg_dt s') by (intros; apply Hdt; right; auto).
    pose proof (total_nonneg r Hr) as Htr.
    cbn [Gpw total] in *.
    set (bb := beta d (seg_ev s) (seg_X s b l)). set (gb := gamma d (seg_ev s) w (seg_X s b l)).
    (* integral over a prefix [t0, t1] of the segment, t1 <= t0 + dt *)
    assert (Hseg : forall t1, t0 <= t1 <= t0 + seg_dt s ->
              is_CInt (fun t' => cmul' (cexp' (w * t')) (Bpw b l (s :: r) t0 t')) t0 t1
                      (cmul' (cexp' (w * t0)) (gb (t1 - t0)))).
    { intros t1 Ht1.
      apply (is_CInt_ext_open (fun t' => cmul' (cexp' (w * t0)) (cmul' (cexp' (w * (t' - t0))) (bb (t' - t0))))).
      { intros x Hx. rewrite Rmin_left, Rmax_right in Hx by lra. cbn [Bpw].
        destruct (Rlt_dec x (t0 + seg_dt s)); [|lra]. fold bb. symmetry. apply phase_shift. }
      apply is_CInt_cmul_l.
      replace t1 with (t0 + (t1 - t0)) at 1 by ring.
      apply (is_CInt_shift (fun u => cmul' (cexp' (w * u)) (bb u))). apply gamma_int. }
    destruct (Rlt_dec t (t0 + seg_dt s)) as [Hlt|Hge].
    + apply (is_CInt_val _ _ _ (cmul' (cexp' (w * t0)) (gb (t - t0)))). ring. apply Hseg. lra.
    + set (c1 := cadd' c0 (cmul' (cexp' (w * t0)) (gb (seg_dt s)))).
      apply (is_CInt_val _ _ _ (cadd' (cmul' (cexp' (w * t0)) (gb (t0 + seg_dt s - t0))) (csub' (Gpw r (t0 + seg_dt s) c1 t) c1))).
      { unfold c1. replace (t0 + seg_dt s - t0) with (seg_dt s) by ring. ring. }
      apply (is_CInt_Chasles _ t0 (t0 + seg_dt s) t).
      * apply Hseg. lra.
      * apply (is_CInt_ext_open (fun t' => cmul' (cexp' (w * t')) (Bpw b l r (t0 + seg_dt s) t'))).
        { intros x Hx. rewrite Rmin_left, Rmax_right in Hx by lra. cbn [Bpw].
          destruct (Rlt_dec x (t0 + seg_dt s)); [lra|]. reflexivity. }
        apply IH; auto. lra.
Qed.

(* the segment's time-domain control matrix (a,k) is real *)
Definition real_beta (s : Seg) : Prop :=
  forall u, cconj' (beta d (seg_ev s) (seg_X s a k) u) = beta d (seg_ev s) (seg_X s a k) u.

(* outer integral over [t0, t0 + total]: the recursion so_spec of the model *)
Lemma outer_glue : forall segs t0 c0,
  (forall s, In s segs -> 0 <= seg_dt s /\ real_beta s) ->
  Forall2 (seg_td d thr2 omega basis nopers a b k l o) segs (firstn (length segs) (cumsum_from RO t0 (map seg_dt segs))) ->
  is_CInt (fun t => cmul' (cmul' (cexp' (- w * t)) (Bpw a k segs t0 t)) (Gpw segs t0 c0 t)) t0 (t0 + total segs)
          (so_spec d thr2 na nk no omega a b k l o false segs c0).
Proof.
  induction segs as [|s r IH]; intros t0 c0 Hok HF.
  - cbn [total so_spec]. replace (t0 + 0) with t0 by ring. apply is_CInt_point.
  - destruct (Hok s (or_introl eq_refl)) as [Hs Hreal].
    assert (Hr : forall s', In s' r -> 0 <= seg_dt s' /\ real_beta s') by (intros; apply Hok; right; auto).
    assert (Htr : 0 <= total r) by (apply total_nonneg; intros s' Hin; apply (Hr s' Hin)).
    cbn [length map cumsum_from firstn] in HF. inversion HF as [|s' tg r' ts' Hseg HFr]; subst.
    destruct Hseg as [G1 [G2 [G3 [G4 G5]]]].
    set (bak := beta d (seg_ev s) (seg_X s a k)) in *. set (gak := gamma d (seg_ev s) w (seg_X s a k)) in *.
    set (gbl := gamma d (seg_ev s) w (seg_X s b l)) in *.
    set (e0 := cexp' (w * t0)) in *.
    cbn [total so_spec]. replace (t0 + (seg_dt s + total r)) with ((t0 + seg_dt s) + total r) by ring.
    rewrite G4, G5.
    apply (is_CInt_Chasles _ t0 (t0 + seg_dt s)).
    + (* the segment itself *)
      apply (is_CInt_ext_open (fun t => (fun u => cadd' (cmul' (cmul' (cconj' e0) c0) (cconj' (cmul' (cexp' (w * u)) (bak u))))
                                                    (cmul' (cmul' (cexp' (- w * u)) (bak u)) (gbl u))) (t - t0))).
      { intros x Hx. rewrite Rmin_left, Rmax_right in Hx by lra. cbn [Bpw Gpw].
        destruct (Rlt_dec x (t0 + seg_dt s)); [|lra]. fold bak gbl e0. cbv beta.
        set (u := x - t0).
        replace (- w * x) with (- (w * t0) + - (w * u)) by (unfold u; ring).
        replace (- w * u) with (- (w * u)) by ring.
        rewrite cexp_add, !cexp_neg. fold e0. rewrite cconj_mul. unfold real_beta in Hreal. fold bak in Hreal. rewrite Hreal.
        set (eu := cexp' (w * u)). 
        transitivity (cadd' (cmul' (cmul' (cconj' e0) c0) (cmul' (cconj' eu) (bak u)))
                            (cmul' (cmul' (cconj' e0) e0) (cmul' (cmul' (cconj' eu) (bak u)) (gbl u)))).
        - unfold e0. rewrite cexp_conj_mul. ring.
        - ring. }
      apply (is_CInt_val _ _ _ (cadd' (cmul' (cmul' (cconj' e0) c0) (cconj' (gak (seg_dt s))))
                                     (a5get RO (seg_same d thr2 na nk no omega s) a b k l o))).
      { rewrite cconj_mul. ring. }
      apply (is_CInt_shift (fun u => cadd' (cmul' (cmul' (cconj' e0) c0) (cconj' (cmul' (cexp' (w * u)) (bak u))))
                                       (cmul' (cmul' (cexp' (- w * u)) (bak u)) (gbl u)))).
      apply is_CInt_add.
      * apply is_CInt_cmul_l. apply (is_CInt_conj (fun u => cmul' (cexp' (w * u)) (bak u))). apply G1.
      * exact G3.
    + (* the remaining segments *)
      apply (is_CInt_ext_open (fun t => cmul' (cmul' (cexp' (- w * t)) (Bpw a k r (t0 + seg_dt s) t))
                                             (Gpw r (t0 + seg_dt s) (cadd' c0 (cmul' e0 (gbl (seg_dt s)))) t))).
      { intros x Hx. rewrite Rmin_left, Rmax_right in Hx by lra. cbn [Bpw Gpw].
        destruct (Rlt_dec x (t0 + seg_dt s)); [lra|]. reflexivity. }
      apply IH; auto.
Qed.
End Glue.

(* ------------------------------------------------------------------ the model's pulse *)
Section Pulse.
Variable d : nat.
Variables (thr thr2 : R) (omega : list R) (basis nopers : list (Mat (T:=R))).
Notation Seg := (SegData (T:=R)).
Notation na := (length nopers).
Notation nk := (length basis).
Notation no := (length omega).

Lemma fresh_segs_dts : forall evs Vs Qs ts dts ncs,
  length evs = length dts -> length Vs = length dts -> length ncs = length dts ->
  (length dts <= length Qs)%nat -> (length dts <= length ts)%nat ->
  map seg_dt (fresh_segs d thr omega basis nopers evs Vs Qs ts dts ncs) = dts.
Proof.
  induction evs as [|ev evs IH]; intros Vs Qs ts dts ncs H1 H2 H3 H4 H5.
  - destruct dts; [reflexivity|discriminate].
  - destruct dts as [|dt dts]; [discriminate|]. destruct Vs as [|V Vs]; [discriminate|].
    destruct ncs as [|nc ncs]; [discriminate|]. destruct Qs as [|Q Qs]; [simpl in H4; lia|].
    destruct ts as [|tg ts]; [simpl in H5; lia|].
    cbn [fresh_segs map seg_dt]. f_equal. apply IH; simpl in *; lia.
Qed.

Lemma cumsum_from_length acc (l : list R) : length (cumsum_from RO acc l) = S (length l).
Proof. revert acc. induction l; intros; simpl; auto. Qed.

(* coefficient matrices of a recomputed segment are "Hermitian": X(i,j)^* = X(j,i), hence beta is real *)
Lemma fresh_segs_real a k : (a < na)%nat -> (k < nk)%nat ->
  (forall N, In N nopers -> fherm d (toF N)) -> (forall Ck, In Ck basis -> fherm d (toF Ck)) ->
  forall evs Vs Qs ts dts ncs, (forall nc, In nc ncs -> length nc = na) ->
  forall s, In s (fresh_segs d thr omega basis nopers evs Vs Qs ts dts ncs) -> real_beta d a k s.
Proof.
  intros Ha Hk HN HC. induction evs as [|ev evs IH]; intros Vs Qs ts dts ncs Hnc s Hin; [destruct Hin|].
  destruct Vs as [|V Vs]; [destruct Hin|]. destruct Qs as [|Q Qs]; [destruct Hin|].
  destruct ts as [|tg ts]; [destruct Hin|]. destruct dts as [|dt dts]; [destruct Hin|].
  destruct ncs as [|nc ncs]; [destruct Hin|].
  cbn [fresh_segs] in Hin. destruct Hin as [<-|Hin].
  - unfold real_beta. intros u. cbn [seg_ev seg_X]. apply beta_real. intros i j Hi Hj.
    rewrite so_NT_nth, so_BT_nth by (auto; apply Hnc; left; reflexivity).
    unfold nbf, mscalr. rewrite !mget_mbuild by auto.
    rewrite cconj_mul, !cscal_cmul, cconj_mul, cconj_real.
    rewrite (tbu_herm d V (nth a nopers [])) by (auto; apply HN, nth_In; auto).
    rewrite (tbu_herm d _ (nth k basis [])) by (auto; apply HC, nth_In; auto). reflexivity.
  - apply (IH Vs Qs ts dts ncs); [intros nc' H'; apply Hnc; right; auto | exact Hin].
Qed.

Lemma fresh_segs_dt_nonneg : forall evs Vs Qs ts dts ncs, (forall dt, In dt dts -> 0 <= dt) ->
  forall s, In s (fresh_segs d thr omega basis nopers evs Vs Qs ts dts ncs) -> 0 <= seg_dt s.
Proof.
  induction evs as [|ev evs IH]; intros Vs Qs ts dts ncs Hdt s Hin; [destruct Hin|].
  destruct Vs as [|V Vs]; [destruct Hin|]. destruct Qs as [|Q Qs]; [destruct Hin|].
  destruct ts as [|tg ts]; [destruct Hin|]. destruct dts as [|dt dts]; [destruct Hin|].
  destruct ncs as [|nc ncs]; [destruct Hin|].
  cbn [fresh_segs] in Hin. destruct Hin as [<-|Hin].
  - cbn [seg_dt]. apply Hdt. left; auto.
  - apply (IH Vs Qs ts dts ncs); [intros; apply Hdt; right; auto | exact Hin].
Qed.

Lemma total_sumlist (segs : list Seg) : total segs = sumlist RO (map seg_dt segs).
Proof. induction segs; simpl; auto. rewrite IHsegs. reflexivity. Qed.

(* F2_assembly: the model's second-order filter function is the nested time-ordered double integral of the
   (piecewise) time-domain control matrix, for every pulse with Hermitian noise operators / basis elements and
   non-negative durations, at every frequency where no first-order entry is on its Taylor branch with non-zero argument. *)
Theorem F2_assembly evs Vs Qs ncoeffs dts a b k l o :
  0 <= thr -> 0 <= thr2 ->
  (forall N, In N nopers -> fherm d (toF N)) -> (forall Ck, In Ck basis -> fherm d (toF Ck)) ->
  length evs = length dts -> length Vs = length dts -> (length dts <= length Qs)%nat -> length ncoeffs = na ->
  (forall dt, In dt dts -> 0 <= dt) ->
  (a < na)%nat -> (b < na)%nat -> (k < nk)%nat -> (l < nk)%nat -> (o < no)%nat ->
  no_taylor d omega thr evs dts o -> no_taylor d omega thr2 evs dts o ->
  let ts := times RO dts in
  let segs := fresh_segs d thr omega basis nopers evs Vs Qs ts dts (transpose_coeffs RO (length dts) ncoeffs) in
  let w := vg RO omega o in
  let tau := sumlist RO dts in          (* pulse duration *)
  let F2 := second_order_ff RO d thr thr2 evs Vs Qs omega basis nopers ncoeffs dts ts (None, None) in
  exists Gam : R -> Cx,
    (forall t, 0 <= t <= tau ->
       is_CInt (fun t' => cmul' (cexp' (w * t')) (Bpw d b l segs 0 t')) 0 t (Gam t)) /\
    is_CInt (fun t => cmul' (cmul' (cexp' (- w * t)) (Bpw d a k segs 0 t)) (Gam t)) 0 tau (a5get RO F2 a b k l o).
Proof.
  intros Hthr Hthr2 HN HC H1 H2 H3 H5 Hdt Ha Hb Hk Hl Ho Hmask Hmask2 ts segs w tau F2.
  assert (H4 : (length dts <= length ts)%nat) by (unfold ts, times; rewrite cumsum_from_length; lia).
  destruct (F2_assembly_partial d thr thr2 omega basis nopers evs Vs Qs ncoeffs dts ts a b k l o) as [Hval Htd]; auto.
  fold segs in Hval, Htd.
  assert (Hnc : forall nc, In nc (transpose_coeffs RO (length dts) ncoeffs) -> length nc = na)
    by (intros nc Hin; rewrite (transpose_coeffs_rows _ _ _ Hin); exact H5).
  assert (Hmap : map seg_dt segs = dts)
    by (apply fresh_segs_dts; auto; apply transpose_coeffs_length).
  assert (Hlen : length segs = length dts) by (rewrite <- (map_length seg_dt segs), Hmap; reflexivity).
  assert (Hnonneg : forall s, In s segs -> 0 <= seg_dt s) by (apply fresh_segs_dt_nonneg; auto).
  assert (Htau : tau = total segs) by (unfold tau; rewrite total_sumlist, Hmap; reflexivity).
  exists (Gpw d omega b l o segs 0 0c). split.
  - intros t Ht. apply (is_CInt_val _ _ _ (csub' (Gpw d omega b l o segs 0 0c t) 0c)). ring.
    apply inner_glue; auto. rewrite Htau in Ht. lra.
  - unfold F2. rewrite Hval. replace tau with (0 + total segs) by (rewrite Htau; ring).
    apply outer_glue.
    + intros s Hin. split. apply Hnonneg; auto.
      eapply fresh_segs_real; eauto.
    + rewrite Hmap, Hlen. exact Htd.
Qed.
End Pulse.
