(* C06: the remap model (Model/Remap.v) instantiated with real / complex entries.
   Remapped operators are P A P^dagger for the qubit-permutation unitary P; the Hamiltonian, the
   spectral data, propagators, control matrix, filter function and Liouville propagator that
   remap carries over from the cache are exactly what the numeric engine (Model/Numeric.v)
   computes from scratch for the remapped pulse; Pauli basis elements are permuted by
   remap_pauli_basis_elements; composition and identity of remaps.                            *)
From Coq Require Import String ZArith Reals List Lra Lia Arith Bool Permutation Sorted.
From FF Require Import Base.Ops Inst.RInst Base.RAlg Spec.Kron2 Spec.DigitPerm Spec.StrSort
     Model.Numeric Model.Remap Proofs.RemapIdx Proofs.RemapCov.
Import ListNotations.
Local Open Scope nat_scope.

(* ---------- helpers ---------- *)
Lemma Forall2_nth_iff {A B} (Rl : A -> B -> Prop) (da : A) (db : B) l l' :
  Forall2 Rl l l' <-> (length l = length l' /\ forall g, g < length l -> Rl (nth g l da) (nth g l' db)).
Proof.
  split.
  - induction 1; simpl. split; auto; intros; lia. destruct IHForall2 as [HL Hn]. split. lia.
    intros [|g] Hg; auto. apply Hn. lia.
  - revert l'. induction l; intros [|y l'] [HL Hn]; simpl in *; try discriminate. constructor.
    constructor. apply (Hn 0). lia. apply IHl. split. lia. intros g Hg. apply (Hn (S g)). lia.
Qed.
Lemma funitary_ext d U U' : feq d U U' -> funitary d U -> funitary d U'.
Proof.
  intros H [H1 H2].
  assert (Ha : feq d (fadj U) (fadj U')) by (intros i j Hi Hj; unfold fadj; rewrite H; auto).
  split; (eapply feq_trans; [apply fmul_ext; apply feq_sym; eassumption|]); auto.
Qed.

(* ---------- Pauli basis (Basis.pauli): normalised Kronecker chains of the 2x2 matrices ---------- *)
Section Pauli.
Variable sigma : nat -> fmat.      (* sigma 0 .. sigma 3 = 1, X, Y, Z -- the proofs do not use which *)
Variable nrm : nat -> Cx.          (* 1/sqrt(2^N) *)
Definition pauli_el (N k : nat) : fmat := fscal (nrm N) (kronl 2 (map sigma (digits 4 N k))).

(* P C_k P^dagger = C_{pi(k)},  pi = remap_pauli_basis_elements(order, N) *)
Theorem pauli_cov N o k : is_perm N o -> k < 4 ^ N ->
  feq (2 ^ N) (gather2 (tt_src 2 N o) (pauli_el N k)) (pauli_el N (dperm 4 N o k)).
Proof.
  intros Ho Hk i j Hi Hj. unfold pauli_el, gather2, fscal. f_equal.
  pose proof (kronl_transpose 2 N (map sigma (digits 4 N k)) o ltac:(lia) Ho) as H.
  rewrite map_length, digits_length in H. specialize (H eq_refl i j Hi Hj).
  unfold gather2 in H. unfold tt_src. rewrite H.
  rewrite digits_dperm by (auto; lia).
  rewrite (sel_map sigma 0 fdummy). reflexivity.
  intros m Hm. rewrite digits_length. eapply is_perm_lt; eauto.
Qed.
End Pauli.

(* ---------- spectral data ---------- *)
Definition fdiag (ev : list R) : fmat := fun i j => if Nat.eqb i j then cofr RO (vg RO ev i) else 0c.
Definition valid_eig (d : nat) (H : fmat) (ev : list R) (V : Mat (T:=R)) : Prop :=
  feq d (fmul d H (toF V)) (fmul d (toF V) (fdiag ev)) /\ funitary d (toF V).

(* if H V = V D with V unitary then (P H P^dagger)(P V P^dagger) = (P V P^dagger)(P D P^dagger) *)
Theorem spectral_cov d tau H H' ev ev' V V' : bij_on d tau ->
  feq d H' (gather2 tau H) -> vrel d tau ev ev' -> mrel d tau V V' ->
  valid_eig d H ev V -> valid_eig d H' ev' V'.
Proof.
  intros Ht HH He HV [E U]. pose proof Ht as [Hr Hinj].
  assert (HV' : feq d (toF V') (gather2 tau (toF V))) by (apply mrel_gather; auto).
  assert (HD : feq d (fdiag ev') (gather2 tau (fdiag ev))).
  { intros i j Hi Hj. unfold gather2, fdiag. rewrite He by auto.
    destruct (Nat.eqb_spec i j) as [->|Hne]. rewrite Nat.eqb_refl; auto.
    destruct (Nat.eqb_spec (tau i) (tau j)) as [E'|]; auto. exfalso; apply Hne, Hinj; auto. }
  split.
  - eapply feq_trans. apply fmul_ext; eassumption.
    eapply feq_trans. apply feq_sym, gather2_mul; auto.
    eapply feq_trans. apply gather2_ext; eauto.
    eapply feq_trans. apply gather2_mul; auto.
    apply fmul_ext; apply feq_sym; auto.
  - eapply funitary_ext. apply feq_sym; eauto. apply funitary_gather2; auto.
Qed.

(* ---------- the model at real / complex entries ---------- *)
Definition rpulse : Type := @pulse R Cx.
Definition rremap := @remap R Cx 0%R 0c.
Notation T2 := (tt2 (Cc:=Cx) 0c).
Notation T1 := (tt1 (Rr:=R) 0%R).

Lemma mrel_tt2 dq N o M : 0 < dq -> is_perm N o -> mrel (dq ^ N) (tt_src dq N o) M (T2 dq N o M).
Proof. intros Hd Ho i j Hi Hj. unfold mget. apply tt2_nth; auto. Qed.
Lemma vrel_tt1 dq N o v : vrel (dq ^ N) (tt_src dq N o) v (T1 dq N o v).
Proof. intros j Hj. unfold vg, vget. apply (tt1_nth 0%R); auto. Qed.
Lemma Forall2_mrel_map dq N o Ms : 0 < dq -> is_perm N o ->
  Forall2 (mrel (dq ^ N) (tt_src dq N o)) Ms (map (T2 dq N o) Ms).
Proof. intros. induction Ms; simpl; constructor; auto using mrel_tt2. Qed.
Lemma Forall2_vrel_map dq N o vs : Forall2 (vrel (dq ^ N) (tt_src dq N o)) vs (map (T1 dq N o) vs).
Proof. induction vs; simpl; constructor; auto using vrel_tt1. Qed.

(* remapped operators are the originals conjugated by the qubit-permutation unitary *)
Theorem tt2_is_conjugation dq N o M : 0 < dq -> is_perm N o ->
  let P := fpermM (tt_src dq N o) in
  feq (dq ^ N) (toF (T2 dq N o M)) (fmul (dq ^ N) P (fmul (dq ^ N) (toF M) (fadj P))) /\ funitary (dq ^ N) P.
Proof. intros Hd Ho P. apply (mrel_conj (dq ^ N) (tt_src dq N o)). apply tt_src_bij; auto. apply mrel_tt2; auto. Qed.

(* what a successful remap looks like *)
Definition has_om (p : rpulse) := cached (omega p).
Definition has_liou (p : rpulse) :=
  has_om p && (cached (tpl p) || cached (control_matrix p)) && String.eqb (btype p) "Pauli".
Definition has_cm (p : rpulse) := has_liou p && cached (control_matrix p).
Definition need_tp (p : rpulse) := has_cm p && negb (cached (tpl p)) && negb (cached (total_propagator p)).
Definition need_diag (p : rpulse) :=
  need_tp p && negb (cached (eigvals p) && cached (eigvecs p) && cached (propagators p)).

Record remap_facts (p r : rpulse) (order : list nat) (dq : nat) (mapping : option (list (string * string)))
       (N : nat) (cids nids : list string) (cidx nidx : list nat) : Prop := {
  rf_perm : is_perm N order;
  rf_dim : dq ^ N = p_d p;
  rf_cmap : map_identifiers (c_ids p) mapping = Some (cids, cidx);
  rf_nmap : map_identifiers (n_ids p) mapping = Some (nids, nidx);
  rf_d : p_d r = p_d p;
  rf_copers : c_opers r = sel [] (map (T2 dq N order) (c_opers p)) cidx;
  rf_nopers : n_opers r = sel [] (map (T2 dq N order) (n_opers p)) nidx;
  rf_cids : c_ids r = sel EmptyString cids cidx;
  rf_nids : n_ids r = sel EmptyString nids nidx;
  rf_ccoeffs : c_coeffs r = sel [] (c_coeffs p) cidx;
  rf_ncoeffs : n_coeffs r = sel [] (n_coeffs p) nidx;
  rf_dt : p_dt r = p_dt p;
  rf_btype : btype r = btype p;
  rf_eigvals : eigvals r = if need_diag p then Fresh else smap (map (T1 dq N order)) (eigvals p);
  rf_eigvecs : eigvecs r = if need_diag p then Fresh else smap (map (T2 dq N order)) (eigvecs p);
  rf_props : propagators r = if need_diag p then Fresh else smap (map (T2 dq N order)) (propagators p);
  rf_tp : total_propagator r = if need_tp p then Fresh else smap (T2 dq N order) (total_propagator p);
  rf_omega : omega r = if (has_om p && cached (total_phases p)) || (has_om p && cached (filter_function p)) || has_cm p
                       then omega p else Absent;
  rf_phases : total_phases r = if has_cm p then Fresh
                               else if has_om p && cached (total_phases p) then total_phases p else Absent;
  rf_ff : filter_function r = if has_om p && cached (filter_function p)
                              then smap (resort_ff nidx) (filter_function p) else Absent;
  rf_tpl : tpl r = if has_liou p && cached (tpl p) then smap (scatter2 0%R (remap_pauli N order)) (tpl p)
                   else if has_cm p then Fresh else Absent;
  rf_cm : control_matrix r = if has_cm p
                             then smap (scatter_cm (Cc:=Cx) (inv_order nidx) (remap_pauli N order)) (control_matrix p)
                             else Absent
}.

Lemma remap_inv p order dq mapping r : rremap p order dq mapping = Some r ->
  exists cids nids cidx nidx, remap_facts p r order dq mapping (ilog dq (p_d p)) cids nids cidx nidx.
Proof.
  unfold rremap, remap. intros H.
  destruct (is_permb (ilog dq (p_d p)) order && Nat.eqb (dq ^ ilog dq (p_d p)) (p_d p)) eqn:E; simpl in H; try discriminate.
  apply andb_true_iff in E. destruct E as [E1 E2]. apply Nat.eqb_eq in E2. apply is_permb_spec in E1.
  destruct (map_identifiers (c_ids p) mapping) as [[cids cidx]|] eqn:Ec; try discriminate.
  destruct (map_identifiers (n_ids p) mapping) as [[nids nidx]|] eqn:En; try discriminate.
  exists cids, nids, cidx, nidx.
  inversion H; subst; clear H. constructor; auto.
Qed.

(* ---------- entries of the scattered / re-sorted arrays ---------- *)
Lemma perm_nth_bij n l : is_perm n l -> bij_on n (fun a => nth a l 0).
Proof.
  intros H. pose proof (is_perm_length n l H) as HL. split.
  - intros a Ha. eapply is_perm_nth_lt; eauto.
  - intros a b Ha Hb E. apply (proj1 (NoDup_nth l 0) (is_perm_NoDup n l H)); auto; lia.
Qed.
Lemma nth_map_in {A B} (f : A -> B) l i da db : i < length l -> nth i (map f l) db = f (nth i l da).
Proof. intros H. rewrite (nth_indep _ db (f da)) by (rewrite map_length; auto). apply map_nth. Qed.

Definition is_arr (n1 n2 : nat) {X} (A : list (list X)) : Prop :=
  length A = n1 /\ Forall (fun row => length row = n2) A.

Lemma scatter_cm_get na K nidx perm (Bm : list (list (list Cx))) a k :
  is_perm na nidx -> is_perm K perm -> is_arr na K Bm -> a < na -> k < K ->
  nth (nth k perm 0) (nth a (scatter_cm (inv_order nidx) perm Bm) []) [] = nth k (nth (nth a nidx 0) Bm []) [].
Proof.
  intros Hn Hp [LB FB] Ha Hk. unfold scatter_cm.
  pose proof (is_perm_length _ _ Hn) as Ln. pose proof (is_perm_length _ _ Hp) as Lp.
  assert (Hia : nth a nidx 0 < na) by (eapply is_perm_nth_lt; eauto).
  assert (HK : length (hd [] Bm) = K).
  { destruct Bm as [|row Bm]; simpl in *. lia. inversion FB; auto. }
  rewrite HK, LB.
  rewrite (scatter_perm na _ _ _ []); auto using inv_order_perm; try (rewrite ?map_length, ?repeat_length; lia).
  rewrite (inv_order_invol na) by auto.
  rewrite nth_sel by lia. rewrite (nth_map_in _ _ _ [] []) by lia.
  assert (Lrow : length (nth (nth a nidx 0) Bm []) = K).
  { rewrite Forall_forall in FB. apply FB, nth_In. lia. }
  rewrite (scatter_perm K _ _ _ []); auto; try (rewrite ?repeat_length; lia).
  rewrite nth_sel by (rewrite inv_order_length, Lp; eapply is_perm_nth_lt; eauto).
  rewrite nth_inv_order by (rewrite Lp; eapply is_perm_nth_lt; eauto).
  rewrite index_of_nth; auto. eapply is_perm_NoDup; eauto. lia.
Qed.
Lemma scatter2_get K perm (L : list (list R)) i j :
  is_perm K perm -> is_arr K K L -> i < K -> j < K ->
  nth (nth j perm 0) (nth (nth i perm 0) (scatter2 0%R perm L) []) 0%R = nth j (nth i L []) 0%R.
Proof.
  intros Hp [LL FL] Hi Hj. unfold scatter2. pose proof (is_perm_length _ _ Hp) as Lp. rewrite LL.
  rewrite (scatter_perm K _ _ _ []); auto; try (rewrite ?map_length, ?repeat_length; lia).
  assert (Hpi : forall k, k < K -> nth k perm 0 < K) by (intros; eapply is_perm_nth_lt; eauto).
  assert (Hidx : forall k, k < K -> nth (nth k perm 0) (inv_order perm) 0 = k).
  { intros k Hk. rewrite nth_inv_order by (rewrite Lp; auto). apply index_of_nth. eapply is_perm_NoDup; eauto. lia. }
  rewrite nth_sel by (rewrite inv_order_length, Lp; auto). rewrite Hidx by auto.
  rewrite (nth_map_in _ _ _ [] []) by lia.
  assert (Lrow : length (nth i L []) = K) by (rewrite Forall_forall in FL; apply FL, nth_In; lia).
  rewrite (scatter_perm K _ _ _ 0%R); auto; try (rewrite ?repeat_length; lia).
  rewrite nth_sel by (rewrite inv_order_length, Lp; auto). rewrite Hidx by auto. reflexivity.
Qed.
Lemma resort_ff_get na nidx (Fm : list (list (list Cx))) a b :
  is_perm na nidx -> length Fm = na -> a < na -> b < na ->
  nth b (nth a (resort_ff nidx Fm) []) [] = nth (nth b nidx 0) (nth (nth a nidx 0) Fm []) [].
Proof.
  intros Hn LF Ha Hb. unfold resort_ff. pose proof (is_perm_length _ _ Hn) as Ln.
  rewrite nth_sel by lia. rewrite (nth_map_in _ _ _ [] []) by (rewrite LF; eapply is_perm_nth_lt; eauto).
  rewrite nth_sel by lia. reflexivity.
Qed.

(* ---------- Hamiltonian ---------- *)
Definition ham (ops : list (Mat (T:=R))) (cs : list (list R)) (g : nat) : fmat :=
  fun i j => csumn' (length ops) (fun a => cscal RO (vg RO (nth a cs []) g) (mget RO (nthm ops a) i j)).
Definition a3eq (n1 n2 n3 : nat) (X Y : Arr3 (T:=R)) : Prop :=
  forall a k o, a < n1 -> k < n2 -> o < n3 -> a3get RO X a k o = a3get RO Y a k o.
Definition meq (d : nat) (X Y : Mat (T:=R)) : Prop := forall i j, i < d -> j < d -> mget RO X i j = mget RO Y i j.
Definition req (n : nat) (X Y : list (list R)) : Prop := forall i j, i < n -> j < n -> rget RO X i j = rget RO Y i j.

Section Main.
Variables (p r : rpulse) (order : list nat) (dq : nat) (mapping : option (list (string * string))).
Variables (N : nat) (cids nids : list string) (cidx nidx : list nat).
Hypothesis F : remap_facts p r order dq mapping N cids nids cidx nidx.
Hypothesis Hdq : 0 < dq.
Hypothesis wf_c : length (c_opers p) = length (c_ids p) /\ length (c_coeffs p) = length (c_ids p).
Hypothesis wf_n : length (n_opers p) = length (n_ids p) /\ length (n_coeffs p) = length (n_ids p).
Local Notation D := (dq ^ N).
Local Notation tau := (tt_src dq N order).
Local Notation nn := (length (n_ids p)).
Local Notation nc := (length (c_ids p)).
Local Notation iota_n := (fun a => nth a nidx 0).
Local Notation iota_c := (fun a => nth a cidx 0).

Lemma tau_bij : bij_on D tau.
Proof. apply tt_src_bij; auto. apply (rf_perm _ _ _ _ _ _ _ _ _ _ F). Qed.
Lemma nidx_perm : is_perm nn nidx.
Proof. pose proof (rf_nmap _ _ _ _ _ _ _ _ _ _ F) as H. apply map_identifiers_perm in H. tauto. Qed.
Lemma cidx_perm : is_perm nc cidx.
Proof. pose proof (rf_cmap _ _ _ _ _ _ _ _ _ _ F) as H. apply map_identifiers_perm in H. tauto. Qed.

Lemma opers_rel (ops : list (Mat (T:=R))) idx n : is_perm n idx -> length ops = n ->
  nrel D tau n (fun a => nth a idx 0) ops (sel [] (map (T2 dq N order) ops) idx).
Proof.
  intros Hp HL. pose proof (is_perm_length _ _ Hp) as Li. split; [auto|]. split. rewrite sel_length; auto.
  intros a Ha. unfold nthm at 2. rewrite nth_sel by lia.
  assert (Hia : nth a idx 0 < List.length ops) by (rewrite HL; eapply is_perm_nth_lt; eauto).
  pose proof (nth_map_in (T2 dq N order) ops _ [] [] Hia) as E. unfold Mat, CMat in *. rewrite E.
  apply mrel_tt2; auto. apply (rf_perm _ _ _ _ _ _ _ _ _ _ F).
Qed.

(* noise and control operators: re-ordered by the identifier sorting, each conjugated by P *)
Theorem remap_n_opers : nrel D tau nn iota_n (n_opers p) (n_opers r).
Proof. rewrite (rf_nopers _ _ _ _ _ _ _ _ _ _ F). apply opers_rel. apply nidx_perm. tauto. Qed.
Theorem remap_c_opers : nrel D tau nc iota_c (c_opers p) (c_opers r).
Proof. rewrite (rf_copers _ _ _ _ _ _ _ _ _ _ F). apply opers_rel. apply cidx_perm. tauto. Qed.
Lemma remap_n_coeffs a : a < nn -> nth a (n_coeffs r) [] = nth (nth a nidx 0) (n_coeffs p) [].
Proof. intros Ha. rewrite (rf_ncoeffs _ _ _ _ _ _ _ _ _ _ F). apply nth_sel. rewrite (is_perm_length _ _ nidx_perm). auto. Qed.
Lemma remap_c_coeffs a : a < nc -> nth a (c_coeffs r) [] = nth (nth a cidx 0) (c_coeffs p) [].
Proof. intros Ha. rewrite (rf_ccoeffs _ _ _ _ _ _ _ _ _ _ F). apply nth_sel. rewrite (is_perm_length _ _ cidx_perm). auto. Qed.

(* H'_g = P H_g P^dagger *)
Theorem remap_hamiltonian g : feq D (ham (c_opers r) (c_coeffs r) g) (gather2 tau (ham (c_opers p) (c_coeffs p) g)).
Proof.
  intros i j Hi Hj. unfold gather2, ham. destruct remap_c_opers as [L [L' Hrel]]. rewrite L, L'.
  rewrite <- (csumn_perm nc iota_c (fun a => cscal RO (vg RO (nth a (c_coeffs p) []) g)
                 (mget RO (nthm (c_opers p) a) (tau i) (tau j)))) by (apply perm_nth_bij, cidx_perm).
  apply csumn_ext. intros a Ha. rewrite remap_c_coeffs by auto. rewrite (Hrel a Ha i j Hi Hj). reflexivity.
Qed.

(* carried-over spectral data diagonalizes the remapped Hamiltonian *)
Theorem remap_spectral evs' Vs' : eigvals r = Have evs' -> eigvecs r = Have Vs' ->
  exists evs Vs, eigvals p = Have evs /\ eigvecs p = Have Vs /\
    Forall2 (vrel D tau) evs evs' /\ Forall2 (mrel D tau) Vs Vs' /\
    forall g, valid_eig D (ham (c_opers p) (c_coeffs p) g) (nthv evs g) (nthm Vs g) ->
              valid_eig D (ham (c_opers r) (c_coeffs r) g) (nthv evs' g) (nthm Vs' g).
Proof.
  rewrite (rf_eigvals _ _ _ _ _ _ _ _ _ _ F), (rf_eigvecs _ _ _ _ _ _ _ _ _ _ F).
  destruct (need_diag p); try discriminate.
  destruct (eigvals p) as [|evs|]; try discriminate. destruct (eigvecs p) as [|Vs|]; try discriminate.
  simpl. intros E1 E2. inversion E1; inversion E2; subst. exists evs, Vs.
  pose proof (rf_perm _ _ _ _ _ _ _ _ _ _ F) as Hp.
  assert (HV : Forall2 (mrel D tau) Vs (map (T2 dq N order) Vs)) by (apply Forall2_mrel_map; auto).
  assert (He : Forall2 (vrel D tau) evs (map (T1 dq N order) evs)) by apply Forall2_vrel_map.
  split; [reflexivity|]. split; [reflexivity|]. split; [exact He|]. split; [exact HV|].
  intros g Hg. apply (spectral_cov D tau (ham (c_opers p) (c_coeffs p) g) _ (nthv evs g) _ (nthm Vs g)); auto using tau_bij.
  - apply remap_hamiltonian.
  - unfold nthv. destruct (Nat.lt_ge_cases g (length evs)).
    + rewrite (nth_map_in _ _ _ [] []) by auto. apply vrel_tt1.
    + rewrite !nth_overflow by (rewrite ?map_length; auto). intros j _. unfold vg, vget. destruct (tau j), j; reflexivity.
  - unfold nthm. destruct (Nat.lt_ge_cases g (length Vs)).
    + pose proof (nth_map_in (T2 dq N order) Vs g [] [] H) as E. unfold Mat, CMat in *. rewrite E. apply mrel_tt2; auto.
    + rewrite !nth_overflow by (rewrite ?map_length; auto). intros i j _ _. unfold mget. destruct (tau i), i, (tau j), j; reflexivity.
Qed.

(* carried-over propagators are the propagators of the carried-over spectral data *)
Theorem remap_propagators evs' Vs' Qs' : eigvals r = Have evs' -> eigvecs r = Have Vs' -> propagators r = Have Qs' ->
  exists evs Vs Qs, eigvals p = Have evs /\ eigvecs p = Have Vs /\ propagators p = Have Qs /\
    (Forall2 (meq D) Qs (Numeric.propagators RO D evs Vs (p_dt p)) ->
     Forall2 (meq D) Qs' (Numeric.propagators RO D evs' Vs' (p_dt r))).
Proof.
  rewrite (rf_eigvals _ _ _ _ _ _ _ _ _ _ F), (rf_eigvecs _ _ _ _ _ _ _ _ _ _ F), (rf_props _ _ _ _ _ _ _ _ _ _ F).
  rewrite (rf_dt _ _ _ _ _ _ _ _ _ _ F).
  destruct (need_diag p); try discriminate.
  destruct (eigvals p) as [|evs|]; try discriminate. destruct (eigvecs p) as [|Vs|]; try discriminate.
  destruct (propagators p) as [|Qs|]; try discriminate.
  simpl. intros E1 E2 E3. inversion E1; inversion E2; inversion E3; subst. exists evs, Vs, Qs.
  repeat split; auto. intros HQ.
  pose proof (rf_perm _ _ _ _ _ _ _ _ _ _ F) as Hp.
  pose proof (propagators_rel D tau tau_bij evs _ Vs _ (p_dt p) (Forall2_vrel_map dq N order evs)
                (Forall2_mrel_map dq N order Vs Hdq Hp)) as HP.
  apply (Forall2_nth_iff _ [] []) in HQ. destruct HQ as [LQ HQ].
  apply (Forall2_nth_iff _ [] []) in HP. destruct HP as [LP HP].
  apply (Forall2_nth_iff _ [] []). split. rewrite map_length. etransitivity; [exact LQ | exact LP].
  intros g Hg. rewrite map_length in Hg.
  pose proof (nth_map_in (T2 dq N order) Qs g [] [] Hg) as E. unfold Mat, CMat in *. rewrite E.
  intros i j Hi Hj. rewrite (mrel_tt2 dq N order _ Hdq Hp i j Hi Hj).
  rewrite (HQ g Hg) by (apply tau_bij; auto). symmetry. apply HP; auto. rewrite <- LQ. exact Hg.
Qed.

Theorem remap_total_propagator U' : total_propagator r = Have U' ->
  exists U, total_propagator p = Have U /\ mrel D tau U U'.
Proof.
  rewrite (rf_tp _ _ _ _ _ _ _ _ _ _ F). destruct (need_tp p); try discriminate.
  destruct (total_propagator p) as [|U|]; try discriminate. simpl. intros E; inversion E; subst.
  exists U. split; auto. apply mrel_tt2; auto. apply (rf_perm _ _ _ _ _ _ _ _ _ _ F).
Qed.

(* phases and frequencies are carried unchanged *)
Theorem remap_phases ph : total_phases r = Have ph -> total_phases p = Have ph /\ omega r = omega p.
Proof.
  rewrite (rf_phases _ _ _ _ _ _ _ _ _ _ F), (rf_omega _ _ _ _ _ _ _ _ _ _ F).
  destruct (has_cm p); try discriminate.
  destruct (has_om p && cached (total_phases p)); try discriminate. simpl. auto.
Qed.

(* ----- control matrix, filter function, Liouville propagator (Pauli basis, qubits) ----- *)
Variable basis : list (Mat (T:=R)).
Variable thr : R.
Hypothesis Hq : dq = 2.
Local Notation K := (4 ^ N).
Local Notation pi := (dperm 4 N order).
Hypothesis HK : length basis = K.
(* the basis elements are permuted among themselves by the conjugation (Pauli basis: pauli_basis_cov) *)
Hypothesis Hbasis : forall k, k < K -> mrel D tau (nthm basis k) (nthm basis (pi k)).

Definition cm_scratch (q : rpulse) (evs : list (list R)) (Vs : list (Mat (T:=R))) (om : list R) : Arr3 (T:=R) :=
  control_matrix_from_scratch RO (p_d q) thr evs Vs (Numeric.propagators RO (p_d q) evs Vs (p_dt q)) om basis
    (n_opers q) (n_coeffs q) (p_dt q) (times RO (p_dt q)).

Lemma pi_bij : bij_on K pi.
Proof. apply dperm_bij. lia. apply (rf_perm _ _ _ _ _ _ _ _ _ _ F). Qed.

Lemma cm_scratch_rel evs Vs om :
  brel nn K iota_n pi (List.length om) (cm_scratch p evs Vs om)
       (cm_scratch r (map (T1 dq N order) evs) (map (T2 dq N order) Vs) om).
Proof.
  unfold cm_scratch. rewrite (rf_d _ _ _ _ _ _ _ _ _ _ F), (rf_dt _ _ _ _ _ _ _ _ _ _ F), <- (rf_dim _ _ _ _ _ _ _ _ _ _ F).
  pose proof (rf_perm _ _ _ _ _ _ _ _ _ _ F) as Hp.
  apply (control_matrix_rel D tau tau_bij nn K iota_n pi); auto.
  - intros a Ha. eapply is_perm_nth_lt; eauto using nidx_perm.
  - apply pi_bij.
  - apply Forall2_vrel_map.
  - apply Forall2_mrel_map; auto.
  - apply remap_n_opers.
  - tauto.
  - rewrite (rf_ncoeffs _ _ _ _ _ _ _ _ _ _ F), sel_length. apply (is_perm_length _ _ nidx_perm).
  - apply remap_n_coeffs.
Qed.

Lemma pi_nth k : k < K -> nth k (remap_pauli N order) 0 = pi k.
Proof. apply remap_pauli_nth. Qed.

(* B'_{sigma(a), pi(k)} = B_{a,k}: the carried-over control matrix is the control matrix of the remapped pulse *)
Theorem remap_control_matrix Bm' : control_matrix r = Have Bm' ->
  exists Bm, control_matrix p = Have Bm /\ omega r = omega p /\
    (is_arr nn K Bm ->
       brel nn K iota_n pi (List.length (hd [] (hd [] Bm))) Bm Bm' /\
       forall evs Vs om, a3eq nn K (List.length om) Bm (cm_scratch p evs Vs om) ->
         a3eq nn K (List.length om) Bm' (cm_scratch r (map (T1 dq N order) evs) (map (T2 dq N order) Vs) om)).
Proof.
  rewrite (rf_cm _ _ _ _ _ _ _ _ _ _ F), (rf_omega _ _ _ _ _ _ _ _ _ _ F).
  destruct (has_cm p) eqn:Ecm; try discriminate.
  destruct (control_matrix p) as [|Bm|]; try discriminate. simpl. intros E; inversion E as [E0]; clear E; subst Bm'.
  exists Bm. split; auto. split. rewrite orb_true_r. reflexivity.
  intros HB. pose proof (rf_perm _ _ _ _ _ _ _ _ _ _ F) as Hp.
  assert (G : forall a k, a < nn -> k < K ->
     nth (pi k) (nth a (scatter_cm (inv_order nidx) (remap_pauli N order) Bm) []) [] = nth k (nth (nth a nidx 0) Bm []) []).
  { intros a k Ha Hk. rewrite <- pi_nth by auto.
    apply (scatter_cm_get nn K); auto using nidx_perm, remap_pauli_perm. }
  split.
  - intros a k o Ha Hk _. unfold a3get. rewrite G by auto. reflexivity.
  - intros evs Vs om HBm a k' o Ha Hk' Ho.
    destruct (bij_on_surj K pi pi_bij k' Hk') as [k [Hk <-]].
    unfold a3get at 1. rewrite G by auto. fold (a3get RO Bm (nth a nidx 0) k o).
    rewrite HBm by (auto; eapply is_perm_nth_lt; eauto using nidx_perm).
    symmetry. apply cm_scratch_rel; auto.
Qed.

(* F'_{ab} = F_{iota a, iota b} is the filter function of the remapped control matrix *)
Theorem remap_filter_function Fm' : filter_function r = Have Fm' ->
  exists Fm, filter_function p = Have Fm /\ omega r = omega p /\
    (List.length Fm = nn ->
     forall no Bm Bm', brel nn K iota_n pi no Bm Bm' ->
       a3eq nn nn no Fm (Numeric.filter_function RO nn K no Bm) ->
       a3eq nn nn no Fm' (Numeric.filter_function RO nn K no Bm')).
Proof.
  rewrite (rf_ff _ _ _ _ _ _ _ _ _ _ F), (rf_omega _ _ _ _ _ _ _ _ _ _ F).
  destruct (has_om p && cached (filter_function p)) eqn:E1; try discriminate.
  destruct (filter_function p) as [|Fm|]; try discriminate. simpl. intros E; inversion E as [E0]; clear E; subst Fm'.
  exists Fm. split; auto. split. rewrite orb_true_r. reflexivity.
  intros LF no Bm Bm' HB HF a b o Ha Hb Ho.
  unfold a3get at 1. rewrite (resort_ff_get nn) by (auto using nidx_perm).
  fold (a3get RO Fm (nth a nidx 0) (nth b nidx 0) o).
  assert (Hi : forall x, x < nn -> nth x nidx 0 < nn) by (intros; eapply is_perm_nth_lt; eauto using nidx_perm).
  rewrite HF by auto. symmetry.
  apply (filter_function_rel nn K iota_n pi Hi pi_bij no Bm Bm'); auto.
Qed.

(* L'_{pi i, pi j} = L_{ij} is the Liouville representation of the remapped total propagator *)
Theorem remap_liouville L' : tpl r = Have L' ->
  exists L, tpl p = Have L /\
    (is_arr K K L -> forall U U', mrel D tau U U' ->
       req K L (liouville RO D U basis) -> req K L' (liouville RO D U' basis)).
Proof.
  rewrite (rf_tpl _ _ _ _ _ _ _ _ _ _ F).
  destruct (has_liou p && cached (tpl p)) eqn:E1.
  2:{ destruct (has_cm p); discriminate. }
  destruct (tpl p) as [|L|]; try discriminate. simpl. intros E; inversion E as [E0]; clear E; subst L'.
  exists L. split; auto. intros HL U U' HU HLU i' j' Hi' Hj'.
  pose proof (rf_perm _ _ _ _ _ _ _ _ _ _ F) as Hp.
  destruct (bij_on_surj K pi pi_bij i' Hi') as [i [Hi <-]].
  destruct (bij_on_surj K pi pi_bij j' Hj') as [j [Hj <-]].
  unfold rget at 1, vg, vget, nthv. rewrite <- !pi_nth by auto.
  rewrite (scatter2_get K) by (auto using remap_pauli_perm).
  rewrite !pi_nth by auto.
  transitivity (rget RO L i j). reflexivity. rewrite HLU by auto.
  symmetry. apply (liouville_rel D tau tau_bij K pi pi_bij basis HK Hbasis U U' HU); auto.
Qed.
End Main.

(* ---------- the Pauli basis satisfies the basis hypothesis of the theorems above ---------- *)
Definition basis_is_pauli (sigma : nat -> fmat) (nrm : nat -> Cx) (N : nat) (basis : list (Mat (T:=R))) : Prop :=
  List.length basis = 4 ^ N /\ forall k, k < 4 ^ N -> feq (2 ^ N) (toF (nthm basis k)) (pauli_el sigma nrm N k).

Theorem pauli_basis_cov sigma nrm N o basis : is_perm N o -> basis_is_pauli sigma nrm N basis ->
  forall k, k < 4 ^ N -> mrel (2 ^ N) (tt_src 2 N o) (nthm basis k) (nthm basis (dperm 4 N o k)).
Proof.
  intros Ho [HL HB] k Hk i j Hi Hj.
  assert (Hpk : dperm 4 N o k < 4 ^ N) by (apply dperm_lt; [lia | exact Ho | exact Hk]).
  assert (Ht : forall x, x < 2 ^ N -> tt_src 2 N o x < 2 ^ N) by (intros; apply tt_src_lt; auto; lia).
  pose proof (HB _ Hpk i j Hi Hj) as E1. pose proof (HB k Hk _ _ (Ht i Hi) (Ht j Hj)) as E2.
  unfold toF in E1, E2. rewrite E1, E2.
  symmetry. apply (pauli_cov sigma nrm N o k Ho Hk i j Hi Hj).
Qed.

(* an explicit Pauli basis as list matrices (satisfiability of basis_is_pauli) *)
Definition pauli_list (sigma : nat -> fmat) (nrm : nat -> Cx) (N : nat) : list (Mat (T:=R)) :=
  build (4 ^ N) (fun k => mbuild (2 ^ N) (2 ^ N) (pauli_el sigma nrm N k)).
Lemma pauli_list_is_pauli sigma nrm N : basis_is_pauli sigma nrm N (pauli_list sigma nrm N).
Proof.
  split. apply build_length. intros k Hk i j Hi Hj. unfold toF, nthm, pauli_list.
  rewrite nth_build by auto. apply mget_mbuild; auto.
Qed.

(* ---------- composition and identity ---------- *)
(* Pauli element maps compose like the operator maps: first o1, then o2  =  o1[o2[.]] *)
Theorem remap_pauli_compose N o1 o2 k : is_perm N o1 -> is_perm N o2 -> k < 4 ^ N ->
  nth (nth k (remap_pauli N o1) 0) (remap_pauli N o2) 0 = nth k (remap_pauli N (sel 0 o1 o2)) 0.
Proof.
  intros H1 H2 Hk. rewrite (remap_pauli_nth N o1 k Hk). rewrite (remap_pauli_nth N (sel 0 o1 o2) k Hk).
  rewrite remap_pauli_nth by (apply dperm_lt; [lia|auto|auto]).
  apply dperm_compose; auto.
Qed.
Theorem remap_pauli_id N k : k < 4 ^ N -> nth k (remap_pauli N (seq 0 N)) 0 = k.
Proof. intros. rewrite remap_pauli_nth by auto. apply dperm_id; auto. Qed.

(* sorting twice = sorting once by the final keys (distinct keys):
   i1 any arrangement, i2 = argsort of the keys as arranged by i1 *)
Theorem sort_compose (ks : list string) i1 : NoDup ks -> is_perm (List.length ks) i1 ->
  sel 0 i1 (argsort (sel EmptyString ks i1)) = argsort ks.
Proof.
  intros Hnd H1. pose proof (is_perm_length _ _ H1) as L1.
  set (ks1 := sel EmptyString ks i1).
  assert (Lk : List.length ks1 = List.length ks) by (unfold ks1; rewrite sel_length; auto).
  assert (H2 : is_perm (List.length ks) (argsort ks1)) by (unfold is_perm; rewrite <- Lk; apply argsort_perm).
  apply argsort_unique; auto.
  - apply (sel_perm_comp _ _ _ H1 H2).
  - pose proof (argsort_sorted ks1) as HS.
    assert (G : forall l, (forall x, In x l -> x < List.length ks) ->
              StronglySorted (kle (fun i => nth i ks1 EmptyString)) l ->
              StronglySorted (kle (fun i => nth i ks EmptyString)) (sel 0 i1 l)).
    { induction l; intros Hl S; simpl. constructor. inversion S; subst. constructor.
      - apply IHl; auto. intros; apply Hl; right; auto.
      - apply Forall_forall. intros y Hy. unfold sel in Hy. apply in_map_iff in Hy. destruct Hy as [x [<- Hx]].
        rewrite Forall_forall in H4. specialize (H4 x Hx). unfold kle in *. unfold ks1 in H4.
        rewrite !nth_sel in H4; auto; rewrite L1; apply Hl; [right|left]; auto. }
    apply G; auto. intros x Hx. eapply is_perm_lt; eauto.
Qed.

(* remap by the identity permutation without identifier mapping leaves operators and carried spectral data unchanged *)
Theorem remap_id_fields (p r : rpulse) dq N :
  0 < dq -> rremap p (seq 0 N) dq None = Some r -> ilog dq (p_d p) = N ->
  Forall (is_mat (dq ^ N)) (c_opers p) -> Forall (is_mat (dq ^ N)) (n_opers p) ->
  List.length (c_opers p) = List.length (c_ids p) -> List.length (n_opers p) = List.length (n_ids p) ->
  List.length (c_coeffs p) = List.length (c_ids p) -> List.length (n_coeffs p) = List.length (n_ids p) ->
  c_opers r = c_opers p /\ n_opers r = n_opers p /\ c_ids r = c_ids p /\ n_ids r = n_ids p /\
  c_coeffs r = c_coeffs p /\ n_coeffs r = n_coeffs p /\ p_dt r = p_dt p /\
  (forall U, is_mat (dq ^ N) U -> total_propagator p = Have U -> need_tp p = false -> total_propagator r = Have U) /\
  (forall Fm, filter_function p = Have Fm -> has_om p = true -> List.length Fm = List.length (n_ids p) ->
     Forall (fun row => List.length row = List.length (n_ids p)) Fm -> filter_function r = Have Fm).
Proof.
  intros Hd H HN Hc Hn Lc Ln Lcc Lnc. apply remap_inv in H. destruct H as [cids [nids [cidx [nidx Fk]]]].
  rewrite HN in Fk. destruct Fk. simpl in rf_cmap0, rf_nmap0.
  inversion rf_cmap0; subst cids cidx. inversion rf_nmap0; subst nids nidx.
  assert (G : forall ops : list (Mat (T:=R)), Forall (is_mat (dq ^ N)) ops -> map (T2 dq N (seq 0 N)) ops = ops).
  { induction 1; simpl; auto. rewrite IHForall. f_equal. apply tt2_id; auto. }
  repeat split.
  - rewrite rf_copers0, G by auto. rewrite <- Lc. apply sel_seq; auto.
  - rewrite rf_nopers0, G by auto. rewrite <- Ln. apply sel_seq; auto.
  - rewrite rf_cids0. apply sel_seq; auto.
  - rewrite rf_nids0. apply sel_seq; auto.
  - rewrite rf_ccoeffs0, <- Lcc. apply sel_seq; auto.
  - rewrite rf_ncoeffs0, <- Lnc. apply sel_seq; auto.
  - auto.
  - intros U HU E Hn'. rewrite rf_tp0, Hn', E. simpl. f_equal. apply tt2_id; auto.
  - intros Fm E Hom LF FF. rewrite rf_ff0, E, Hom. simpl. f_equal. unfold resort_ff.
    rewrite <- LF. rewrite sel_seq by (rewrite map_length; auto).
    rewrite <- (map_id Fm) at 2. apply map_ext_in. intros row Hr. rewrite Forall_forall in FF.
    rewrite LF. apply sel_seq. apply FF; auto.
Qed.
