(* Covariance of the numeric engine (Model/Numeric.v, real instance) under a simultaneous
   re-indexing of the Hilbert space by a bijection tau of [0,d):
     matrices  M'  with  M'[i][j] = M[tau i][tau j]   (= P M P^dagger, P the permutation matrix),
     vectors   v'  with  v'[j]    = v[tau j],
   noise operators re-ordered by iota, basis elements permuted by pi.  Propagators, the control
   matrix, the filter function and the Liouville representation computed from the re-indexed
   data are the re-indexed originals.                                                         *)
From Coq Require Import ZArith Reals List Lra Lia Arith Permutation.
From FF Require Import Base.Ops Inst.RInst Base.RAlg Spec.Kron2 Model.Numeric.
Import ListNotations.
Local Open Scope nat_scope.

Lemma csumn_perm2 n t (f : nat -> nat -> Cx) : bij_on n t ->
  csumn' n (fun i => csumn' n (fun j => f (t i) (t j))) = csumn' n (fun i => csumn' n (fun j => f i j)).
Proof.
  intros Ht. rewrite (csumn_perm n t (fun i => csumn' n (fun j => f i (t j))) Ht).
  apply csumn_ext. intros i _. apply (csumn_perm n t (fun j => f i j) Ht).
Qed.

Lemma nthm_map (f : Mat (T:=R) -> Mat (T:=R)) l j : j < length l -> nthm (map f l) j = f (nthm l j).
Proof.
  intros H. unfold nthm. rewrite (nth_indep _ [] (f [])) by (rewrite map_length; auto). apply map_nth.
Qed.
Lemma a3get_a3build n1 n2 n3 f a k o : a < n1 -> k < n2 -> o < n3 ->
  a3get RO (a3build n1 n2 n3 f) a k o = f a k o.
Proof.
  intros. unfold a3get, a3build. rewrite nth_build by auto. rewrite nth_build by auto. rewrite nth_build by auto.
  reflexivity.
Qed.
Lemma a3get_a3add n1 n2 n3 A B a k o : a < n1 -> k < n2 -> o < n3 ->
  a3get RO (a3add RO n1 n2 n3 A B) a k o = cadd' (a3get RO A a k o) (a3get RO B a k o).
Proof. intros. unfold a3add. apply a3get_a3build; auto. Qed.
Lemma a3get_a3zero n1 n2 n3 a k o : a < n1 -> k < n2 -> o < n3 -> a3get RO (a3zero RO n1 n2 n3) a k o = 0c.
Proof. intros. unfold a3zero. apply a3get_a3build; auto. Qed.
Lemma Forall2_build {A B} (Rl : A -> B -> Prop) n f g : (forall i, i < n -> Rl (f i) (g i)) ->
  Forall2 Rl (build n f) (build n g).
Proof.
  intros H. unfold build. assert (G : forall l, (forall i, In i l -> i < n) -> Forall2 Rl (map f l) (map g l)).
  { induction l; intros Hl; simpl; constructor. apply H, Hl; left; auto. apply IHl. intros; apply Hl; right; auto. }
  apply G. intros i Hi. apply in_seq in Hi. lia.
Qed.

Section Cov.
Variable d : nat.
Variable tau : nat -> nat.
Hypothesis Htau : bij_on d tau.

Definition mrel (M M' : Mat (T:=R)) : Prop :=
  forall i j, i < d -> j < d -> mget RO M' i j = mget RO M (tau i) (tau j).
Definition vrel (v v' : list R) : Prop := forall j, j < d -> vg RO v' j = vg RO v (tau j).

Lemma tau_lt i : i < d -> tau i < d. Proof. apply Htau. Qed.
Hint Resolve tau_lt : core.

(* mrel is "M' = gather2 tau M" = conjugation by the permutation unitary *)
Lemma mrel_gather M M' : mrel M M' <-> feq d (toF M') (gather2 tau (toF M)).
Proof. unfold mrel, feq, toF, gather2. tauto. Qed.
Lemma mrel_conj M M' : mrel M M' ->
  feq d (toF M') (fmul d (fpermM tau) (fmul d (toF M) (fadj (fpermM tau)))) /\ funitary d (fpermM tau).
Proof.
  intros H. split. eapply feq_trans. apply (proj1 (mrel_gather M M') H). apply gather2_conj. apply Htau.
  apply fpermM_unitary; auto.
Qed.

Lemma mmul_rel A A' B B' : mrel A A' -> mrel B B' -> mrel (mmul RO d A B) (mmul RO d A' B').
Proof.
  intros HA HB i j Hi Hj. unfold mmul. rewrite !mget_mbuild by auto.
  rewrite <- (csumn_perm d tau (fun k => cmul' (mget RO A (tau i) k) (mget RO B k (tau j)))) by auto.
  apply csumn_ext. intros k Hk. rewrite HA by auto. rewrite HB by auto. reflexivity.
Qed.
Lemma madj_rel A A' : mrel A A' -> mrel (madj RO d A) (madj RO d A').
Proof. intros HA i j Hi Hj. unfold madj. rewrite !mget_mbuild by auto. rewrite HA by auto. reflexivity. Qed.
Lemma mid_rel : mrel (mid RO d) (mid RO d).
Proof.
  intros i j Hi Hj. unfold mid. rewrite !mget_mbuild by auto.
  destruct (Nat.eqb_spec i j) as [->|Hne]. rewrite Nat.eqb_refl; auto.
  destruct (Nat.eqb_spec (tau i) (tau j)) as [E|]; auto. exfalso. apply Hne. apply Htau; auto.
Qed.
Lemma madd_rel A A' B B' : mrel A A' -> mrel B B' -> mrel (madd RO d A B) (madd RO d A' B').
Proof. intros HA HB i j Hi Hj. unfold madd. rewrite !mget_mbuild by auto. rewrite HA, HB by auto. reflexivity. Qed.
Lemma mscal_rel z A A' : mrel A A' -> mrel (mscal RO d z A) (mscal RO d z A').
Proof. intros HA i j Hi Hj. unfold mscal. rewrite !mget_mbuild by auto. rewrite HA by auto. reflexivity. Qed.
Lemma mtrprod_rel A A' B B' : mrel A A' -> mrel B B' -> mtrprod RO d A' B' = mtrprod RO d A B.
Proof.
  intros HA HB. unfold mtrprod.
  rewrite <- (csumn_perm2 d tau (fun i k => cmul' (mget RO A i k) (mget RO B k i))) by auto.
  apply csumn_ext. intros i Hi. apply csumn_ext. intros k Hk. rewrite HA, HB by auto. reflexivity.
Qed.
Lemma transform_rel U U' A A' : mrel U U' -> mrel A A' ->
  mrel (transform_by_unitary RO d U A) (transform_by_unitary RO d U' A').
Proof. intros HU HA. unfold transform_by_unitary. apply mmul_rel. apply madj_rel; auto. apply mmul_rel; auto. Qed.

(* P_g = V e^{-i D dt} V^dagger from the re-indexed spectral data *)
Lemma segment_propagator_rel ev ev' V V' dt : vrel ev ev' -> mrel V V' ->
  mrel (segment_propagator RO d ev V dt) (segment_propagator RO d ev' V' dt).
Proof.
  intros He HV i k Hi Hk. unfold segment_propagator. rewrite !mget_mbuild by auto.
  rewrite <- (csumn_perm d tau (fun j => cmul' (cmul' (mget RO V (tau i) j) (cexp' (oneg RO (omul RO dt (vg RO ev j)))))
                                               (cconj' (mget RO V (tau k) j)))) by auto.
  apply csumn_ext. intros j Hj. rewrite !HV by auto. rewrite He by auto. reflexivity.
Qed.
Lemma cumulative_rel evs evs' Vs Vs' dts Q Q' : Forall2 vrel evs evs' -> Forall2 mrel Vs Vs' -> mrel Q Q' ->
  Forall2 mrel (cumulative RO d evs Vs dts Q) (cumulative RO d evs' Vs' dts Q').
Proof.
  intros He. revert Vs Vs' dts Q Q'. induction He; intros Vs Vs' dts Q Q' HV HQ.
  - simpl. constructor; auto.
  - destruct HV; simpl. constructor; auto.
    destruct dts as [|dt dts]. constructor; auto.
    constructor; auto. apply IHHe; auto. apply mmul_rel; auto. apply segment_propagator_rel; auto.
Qed.
Theorem propagators_rel evs evs' Vs Vs' dts : Forall2 vrel evs evs' -> Forall2 mrel Vs Vs' ->
  Forall2 mrel (propagators RO d evs Vs dts) (propagators RO d evs' Vs' dts).
Proof. intros. unfold propagators. apply cumulative_rel; auto. apply mid_rel. Qed.

Lemma foi_rel thr w ev ev' dt : vrel ev ev' -> mrel (foi RO d thr w ev dt) (foi RO d thr w ev' dt).
Proof. intros He m n Hm Hn. unfold foi. rewrite !mget_mbuild by auto. rewrite !He by auto. reflexivity. Qed.

(* ---------- control matrix ---------- *)
Variable na K : nat.
Variable iota : nat -> nat.       (* new noise operator a is old operator iota a *)
Variable pi : nat -> nat.         (* old basis element k is new basis element pi k *)
Hypothesis Hiota : forall a, a < na -> iota a < na.
Hypothesis Hpi : bij_on K pi.
Variable basis : list (Mat (T:=R)).
Hypothesis HK : length basis = K.
Hypothesis Hbasis : forall k, k < K -> mrel (nthm basis k) (nthm basis (pi k)).

Definition nrel (ns ns' : list (Mat (T:=R))) : Prop :=
  length ns = na /\ length ns' = na /\ forall a, a < na -> mrel (nthm ns (iota a)) (nthm ns' a).
Definition crel (c c' : list R) : Prop := forall a, a < na -> vg RO c' a = vg RO c (iota a).
Definition brel (no : nat) (Bm Bm' : Arr3 (T:=R)) : Prop :=
  forall a k o, a < na -> k < K -> o < no -> a3get RO Bm' a (pi k) o = a3get RO Bm (iota a) k o.

Lemma pi_lt k : k < K -> pi k < K. Proof. apply Hpi. Qed.
Hint Resolve pi_lt : core.

Lemma cm_step_rel thr ev ev' V V' Q Q' tg dt omega ns ns' c c' :
  vrel ev ev' -> mrel V V' -> mrel Q Q' -> nrel ns ns' -> crel c c' ->
  brel (length omega) (cm_step RO d thr ev V Q tg dt omega basis ns c)
                      (cm_step RO d thr ev' V' Q' tg dt omega basis ns' c').
Proof.
  intros He HV HQ [Ln [Ln' Hn]] Hc a k o Ha Hk Ho. unfold cm_step.
  rewrite Ln, Ln', HK. rewrite !a3get_a3build by auto.
  rewrite Hc by auto. f_equal. f_equal.
  rewrite !nthm_map by (rewrite ?map_length; try lia; rewrite ?Ln, ?Ln', ?HK; auto).
  set (W := mmul RO d (madj RO d Q) V). set (W' := mmul RO d (madj RO d Q') V').
  assert (HW : mrel W W') by (apply mmul_rel; auto; apply madj_rel; auto).
  pose proof (transform_rel V V' _ _ HV (Hn a Ha)) as HNT.
  pose proof (transform_rel W W' _ _ HW (Hbasis k Hk)) as HBT.
  pose proof (foi_rel thr (vg RO omega o) ev ev' dt He) as HI.
  unfold nthm at 2 5.
  rewrite (nth_indep _ [] (foi RO d thr (vg RO omega 0) ev' dt)) by (rewrite map_length; auto).
  rewrite (nth_indep (map (fun w => foi RO d thr w ev dt) omega) [] (foi RO d thr (vg RO omega 0) ev dt)) by (rewrite map_length; auto).
  rewrite (map_nth (fun w => foi RO d thr w ev' dt)), (map_nth (fun w => foi RO d thr w ev dt)).
  replace (nth o omega (vg RO omega 0)) with (vg RO omega o) by (unfold vg, vget; apply nth_indep; auto).
  rewrite <- (csumn_perm2 d tau (fun m n => cmul' (cmul' (mget RO (transform_by_unitary RO d V (nthm ns (iota a))) m n)
       (mget RO (foi RO d thr (vg RO omega o) ev dt) m n)) (mget RO (transform_by_unitary RO d W (nthm basis k)) n m))) by auto.
  apply csumn_ext. intros m Hm. apply csumn_ext. intros n Hn'.
  rewrite HNT, HI, HBT by auto. reflexivity.
Qed.

Lemma cm_loop_rel thr omega ns ns' : nrel ns ns' ->
  forall evs evs', Forall2 vrel evs evs' -> forall Vs Vs' Qs Qs' ts dts cs cs' acc acc',
  Forall2 mrel Vs Vs' -> Forall2 mrel Qs Qs' -> Forall2 crel cs cs' -> brel (length omega) acc acc' ->
  brel (length omega) (cm_scratch_loop RO d thr evs Vs Qs ts dts omega basis ns cs acc)
                      (cm_scratch_loop RO d thr evs' Vs' Qs' ts dts omega basis ns' cs' acc').
Proof.
  intros Hn evs evs' He. induction He; intros Vs Vs' Qs Qs' ts dts cs cs' acc acc' HV HQ Hc Hacc.
  - simpl. auto.
  - destruct HV; simpl; auto. destruct HQ; simpl; auto.
    destruct ts as [|tg ts]; auto. destruct dts as [|dt dts]; auto. destruct Hc; auto.
    apply IHHe; auto.
    pose proof Hn as [Ln [Ln' _]].
    intros a k o Ha Hk Ho. rewrite Ln, Ln', HK.
    rewrite !a3get_a3add by auto. rewrite Hacc by auto.
    rewrite (cm_step_rel thr x y x0 y0 x1 y1 tg dt omega ns ns' x2 y2) by auto. reflexivity.
Qed.

Lemma transpose_coeffs_rel G nc nc' : length nc = na -> length nc' = na ->
  (forall a, a < na -> nth a nc' [] = nth (iota a) nc []) ->
  Forall2 crel (transpose_coeffs RO G nc) (transpose_coeffs RO G nc').
Proof.
  intros L L' H. unfold transpose_coeffs. apply Forall2_build. intros g Hg a Ha.
  unfold vg, vget.
  rewrite (nth_indep _ 0%R ((fun row => vget RO row g) [])) by (rewrite map_length; lia).
  rewrite (nth_indep (map _ nc) 0%R ((fun row => vget RO row g) [])) by (rewrite map_length; specialize (Hiota a Ha); lia).
  rewrite !(map_nth (fun row => vg RO row g)). rewrite H by auto. reflexivity.
Qed.

(* the control matrix computed from scratch from the re-indexed pulse data *)
Theorem control_matrix_rel thr evs evs' Vs Vs' omega ns ns' nc nc' dts :
  Forall2 vrel evs evs' -> Forall2 mrel Vs Vs' -> nrel ns ns' ->
  length nc = na -> length nc' = na -> (forall a, a < na -> nth a nc' [] = nth (iota a) nc []) ->
  brel (length omega)
    (control_matrix_from_scratch RO d thr evs Vs (propagators RO d evs Vs dts) omega basis ns nc dts (times RO dts))
    (control_matrix_from_scratch RO d thr evs' Vs' (propagators RO d evs' Vs' dts) omega basis ns' nc' dts (times RO dts)).
Proof.
  intros He HV Hn L L' Hc. unfold control_matrix_from_scratch.
  apply cm_loop_rel; auto. apply propagators_rel; auto. apply transpose_coeffs_rel; auto.
  destruct Hn as [Ln [Ln' _]]. intros a k o Ha Hk Ho. rewrite Ln, Ln', HK. rewrite !a3get_a3zero; auto.
Qed.

(* filter function:  F'_{ab} = F_{iota a, iota b} *)
Theorem filter_function_rel no Bm Bm' : brel no Bm Bm' ->
  forall a b o, a < na -> b < na -> o < no ->
  a3get RO (filter_function RO na K no Bm') a b o = a3get RO (filter_function RO na K no Bm) (iota a) (iota b) o.
Proof.
  intros HB a b o Ha Hb Ho. unfold filter_function. rewrite !a3get_a3build by auto.
  rewrite <- (csumn_perm K pi (fun k => cmul' (cconj' (a3get RO Bm' a k o)) (a3get RO Bm' b k o))) by auto.
  apply csumn_ext. intros k Hk. rewrite !HB by auto. reflexivity.
Qed.

(* Liouville representation:  L'_{pi i, pi j} = L_{ij} *)
Theorem liouville_rel U U' : mrel U U' -> forall i j, i < K -> j < K ->
  rget RO (liouville RO d U' basis) (pi i) (pi j) = rget RO (liouville RO d U basis) i j.
Proof.
  intros HU i j Hi Hj. unfold liouville, rget, vg, vget, nthv. rewrite HK.
  rewrite !nth_build by auto.
  rewrite !nthm_map by (rewrite HK; auto).
  f_equal. apply mtrprod_rel. apply transform_rel; auto. apply Hbasis; auto.
Qed.
End Cov.
