(* C01: bound on the diagonal of the fidelity filter function for an orthonormal (possibly incomplete) basis,
     F_aa(w) = sum_k |B_ak(w)|^2  <=  (sum_g |s_a^g| |dt_g|)^2 ||N_a||_F^2 .
   Route: B_ak = tr(X C_k) with ONE matrix X = sum_g e^{iwt_g} s_g W_g (NT_g o I_g) W_g^dagger independent of k;
   Bessel's inequality for the orthonormal family; triangle inequality and unitary invariance of the Frobenius norm;
   |I_mn| <= |dt| on both branches of the segment integral.                                                     *)
From Coq Require Import ZArith Reals Lra Lia List Setoid Morphisms.
From Coquelicot Require Import Coquelicot.
From FF Require Import Base.Ops Inst.RInst Base.RAlg Model.Numeric Proofs.Foi Proofs.CMBase Proofs.CMIntegral Proofs.CMBound Proofs.CMSym.
Import ListNotations.
Local Open Scope R_scope.

Section Bessel.
Variable d : nat.

Definition fsub (A B : fmat) : fmat := fun i j => csub' (A i j) (B i j).
(* Hilbert-Schmidt inner product <A,B> = tr(A^dagger B) *)
Definition fip (A B : fmat) : Cx := ftr d (fmul d (fadj A) B).

Lemma fip_sum A B : fip A B = csumn' d (fun i => csumn' d (fun k => cmul' (cconj' (A k i)) (B k i))).
Proof. reflexivity. Qed.
Lemma fip_self A : fip A A = cofr RO (fnorm2 d A).
Proof. apply fnorm2_trace. Qed.
Lemma fip_sub_scal A B c Cm : fip A (fsub B (fscal c Cm)) = csub' (fip A B) (cmul' c (fip A Cm)).
Proof.
  rewrite !fip_sum. rewrite <- csumn_mul_l, csub_csumn. apply csumn_ext; intros i _.
  rewrite <- csumn_mul_l, csub_csumn. apply csumn_ext; intros k _. unfold fsub, fscal. ring.
Qed.

Lemma cabs2_sub_scal (a b c : Cx) :
  cabs2 RO (csub' a (cmul' c b)) = cabs2 RO a - 2 * fst (cmul' (cconj' c) (cmul' (cconj' b) a)) + cabs2 RO c * cabs2 RO b.
Proof. csimp. ring. Qed.

Lemma fnorm2_sub_scal A B c :
  fnorm2 d (fsub A (fscal c B)) = fnorm2 d A - 2 * fst (cmul' (cconj' c) (fip B A)) + cabs2 RO c * fnorm2 d B.
Proof.
  assert (E : fst (cmul' (cconj' c) (fip B A)) = sum2 d (fun m n => fst (cmul' (cconj' c) (cmul' (cconj' (B m n)) (A m n))))).
  { rewrite fip_sum, <- csumn_mul_l, csumn_re. unfold sum2. rewrite sumn_swap. apply sumn_ext; intros i _.
    rewrite <- csumn_mul_l, csumn_re. reflexivity. }
  rewrite E. unfold fnorm2.
  rewrite (sum2_ext d _ (fun m n => cabs2 RO (A m n) + ((-2) * fst (cmul' (cconj' c) (cmul' (cconj' (B m n)) (A m n)))
                                                       + cabs2 RO c * cabs2 RO (B m n)))).
  - rewrite sum2_add, sum2_add, !sum2_mul_l. ring.
  - intros m n _ _. unfold fsub, fscal. rewrite cabs2_sub_scal. ring.
Qed.

(* an orthonormal family D_0 .. D_{N-1} *)
Variable Dk : nat -> fmat.
Variable N : nat.
Hypothesis ortho : forall k l, (k < N)%nat -> (l < N)%nat -> fip (Dk k) (Dk l) = if Nat.eqb k l then 1c else 0c.

Definition coef (X : fmat) (k : nat) : Cx := fip (Dk k) X.
Fixpoint resid (X : fmat) (n : nat) : fmat :=
  match n with O => X | S m => fsub (resid X m) (fscal (coef X m) (Dk m)) end.

Lemma resid_ip X : forall n, (n <= N)%nat -> forall l, (l < N)%nat ->
  fip (Dk l) (resid X n) = if Nat.ltb l n then 0c else coef X l.
Proof.
  induction n; intros Hn l Hl; simpl. reflexivity.
  rewrite fip_sub_scal, IHn by lia. rewrite ortho by lia.
  destruct (Nat.eqb_spec l n) as [->|Hne].
  - rewrite Nat.ltb_irrefl. replace (n <? S n)%nat with true by (symmetry; apply Nat.ltb_lt; lia). ring.
  - destruct (Nat.ltb_spec l n); destruct (Nat.ltb_spec l (S n)); try lia; ring.
Qed.

Lemma fnorm2_Dk k : (k < N)%nat -> fnorm2 d (Dk k) = 1.
Proof.
  intros Hk. pose proof (ortho k k Hk Hk) as H. rewrite Nat.eqb_refl, fip_self in H. injection H; auto.
Qed.

Lemma resid_norm X : forall n, (n <= N)%nat ->
  fnorm2 d (resid X n) = fnorm2 d X - sumn' n (fun k => cabs2 RO (coef X k)).
Proof.
  induction n; intros Hn; simpl. ring.
  rewrite fnorm2_sub_scal, IHn by lia. rewrite resid_ip by lia. rewrite Nat.ltb_irrefl.
  rewrite fnorm2_Dk by lia. rewrite cmul_conj_abs2. simpl. ring.
Qed.

Theorem bessel X : sumn' N (fun k => cabs2 RO (coef X k)) <= fnorm2 d X.
Proof.
  pose proof (resid_norm X N (Nat.le_refl N)) as H. pose proof (fnorm2_nonneg d (resid X N)). lra.
Qed.
End Bessel.

(* ---------- Frobenius norm on function matrices: scaling, triangle inequality ---------- *)
Section Fn.
Variable d : nat.
Definition Fn (A : fmat) : R := sqrt (fnorm2 d A).

Lemma Fn_nonneg A : 0 <= Fn A. Proof. apply sqrt_pos. Qed.
Lemma Fn_sq A : Fn A * Fn A = fnorm2 d A.
Proof. apply sqrt_sqrt. apply fnorm2_nonneg. Qed.
Lemma Fn_le_of_sq A r : 0 <= r -> fnorm2 d A <= r * r -> Fn A <= r.
Proof.
  intros Hr H. unfold Fn. rewrite <- (sqrt_Rsqr r Hr). apply sqrt_le_1_alt. exact H.
Qed.

Lemma fnorm2_fscal z A : fnorm2 d (fscal z A) = cabs2 RO z * fnorm2 d A.
Proof.
  unfold fnorm2. rewrite <- sum2_mul_l. apply sum2_ext; intros m n _ _. unfold fscal. csimp. ring.
Qed.
Lemma Fn_fscal z A : Fn (fscal z A) = Cmod z * Fn A.
Proof.
  unfold Fn. rewrite fnorm2_fscal, sqrt_mult by (try apply cabs2_nonneg; apply fnorm2_nonneg).
  f_equal. rewrite <- Cmod_sq. apply sqrt_square. apply Cmod_ge_0.
Qed.

Lemma cabs2_add_le (a b : Cx) : cabs2 RO (cadd' a b) <= cabs2 RO a + 2 * (Cmod a * Cmod b) + cabs2 RO b.
Proof.
  pose proof (Cmod_cadd_le a b) as H. pose proof (Cmod_ge_0 (cadd' a b)). pose proof (Cmod_ge_0 a). pose proof (Cmod_ge_0 b).
  rewrite <- !Cmod_sq. nra.
Qed.

Lemma Fn_triangle A B : Fn (fadd A B) <= Fn A + Fn B.
Proof.
  pose proof (Fn_nonneg A). pose proof (Fn_nonneg B).
  apply Fn_le_of_sq. lra.
  pose proof (cauchy_schwarz2 d (fun m n => Cmod (A m n)) (fun m n => Cmod (B m n))) as CS. cbv beta in CS.
  assert (EA : sum2 d (fun m n => Cmod (A m n) * Cmod (A m n)) = fnorm2 d A)
    by (apply sum2_ext; intros; apply Cmod_sq).
  assert (EB : sum2 d (fun m n => Cmod (B m n) * Cmod (B m n)) = fnorm2 d B)
    by (apply sum2_ext; intros; apply Cmod_sq).
  rewrite EA, EB in CS.
  set (X := sum2 d (fun m n => Cmod (A m n) * Cmod (B m n))) in *.
  assert (HX : 0 <= X) by (apply sumn2_nonneg; intros; apply Rmult_le_pos; apply Cmod_ge_0).
  assert (HXle : X <= Fn A * Fn B).
  { rewrite <- (sqrt_Rsqr X HX). unfold Fn. rewrite <- sqrt_mult by apply fnorm2_nonneg.
    apply sqrt_le_1_alt. unfold Rsqr. exact CS. }
  assert (Hsum : fnorm2 d (fadd A B) <= fnorm2 d A + 2 * X + fnorm2 d B).
  { unfold fnorm2 at 1. unfold X.
    eapply Rle_trans.
    - apply (sumn_le d). intros m _. apply (sumn_le d). intros n _. unfold fadd. apply cabs2_add_le.
    - fold (sum2 d (fun m n => cabs2 RO (A m n) + 2 * (Cmod (A m n) * Cmod (B m n)) + cabs2 RO (B m n))).
      rewrite (sum2_ext d _ (fun m n => cabs2 RO (A m n) + (2 * (Cmod (A m n) * Cmod (B m n)) + cabs2 RO (B m n)))) by (intros; ring).
      rewrite sum2_add, sum2_add, sum2_mul_l. unfold fnorm2. lra. }
  rewrite <- (Fn_sq A), <- (Fn_sq B) in Hsum. nra.
Qed.

Global Instance Fn_Proper : Proper (feq d ==> eq) Fn.
Proof. intros A A' H. unfold Fn. rewrite H. reflexivity. Qed.
End Fn.

(* ---------- the control matrix entry as tr(X C) ---------- *)
Section TraceForm.
Variable d : nat.

Lemma ftr_fscal_l z A B : ftr d (fmul d (fscal z A) B) = cmul' z (ftr d (fmul d A B)).
Proof.
  unfold ftr, fmul, fscal. rewrite <- csumn_mul_l. apply csumn_ext; intros i _.
  rewrite <- csumn_mul_l. apply csumn_ext; intros k _. ring.
Qed.
Lemma ftr_fadd_l A A' B : ftr d (fmul d (fadd A A') B) = cadd' (ftr d (fmul d A B)) (ftr d (fmul d A' B)).
Proof.
  unfold ftr, fmul, fadd. rewrite <- csumn_add. apply csumn_ext; intros i _.
  rewrite <- csumn_add. apply csumn_ext; intros k _. ring.
Qed.

(* Hadamard product of the transformed noise operator with the segment integral *)
Definition seg_M (thr : R) (ev : list R) (V : MatR) (dt w : R) (N : MatR) : fmat :=
  fun m n => cmul' (mget RO (transform_by_unitary RO d V N) m n) (foi_entry RO thr w (vg RO ev m) (vg RO ev n) dt).
Definition seg_Y (thr : R) (ev : list R) (V Q : MatR) (tg dt w s : R) (N : MatR) : fmat :=
  let W := toF (mmul RO d (madj RO d Q) V) in
  fscal (cmul' (cexp' (w * tg)) (cofr RO s)) (fmul d W (fmul d (seg_M thr ev V dt w N) (fadj W))).

Lemma step_entry_trace thr ev V Q tg dt w s N Cm :
  step_entry d (foi_entry RO thr) ev V Q tg dt w s N Cm = ftr d (fmul d (seg_Y thr ev V Q tg dt w s N) (toF Cm)).
Proof.
  unfold step_entry, seg_Y. rewrite ftr_fscal_l, cscal_cmul, cmul_assoc. f_equal.
  set (W := toF (mmul RO d (madj RO d Q) V)).
  transitivity (ftr d (fmul d (seg_M thr ev V dt w N) (toF (transform_by_unitary RO d (mmul RO d (madj RO d Q) V) Cm)))).
  { reflexivity. }
  rewrite toF_transform_by_unitary. fold W.
  rewrite <- !fmul_assoc. rewrite (ftr_cyclic d W). rewrite <- !fmul_assoc. reflexivity.
Qed.

Fixpoint segs_X (thr : R) (segs : list seg) (Q : MatR) (t w : R) (N : MatR) : fmat :=
  match segs with
  | [] => fun _ _ => 0c
  | (ev, V, dt, s) :: r =>
      fadd (seg_Y thr ev V Q t dt w s N) (segs_X thr r (mmul RO d (segment_propagator RO d ev V dt) Q) (t + dt) w N)
  end.

Lemma entry_segs_trace thr w N Cm : forall segs Q t,
  entry_segs d (foi_entry RO thr) segs Q t w N Cm = ftr d (fmul d (segs_X thr segs Q t w N) (toF Cm)).
Proof.
  induction segs as [|[[[ev V] dt] s] r IH]; intros Q t; simpl.
  - unfold ftr, fmul. rewrite (csumn_ext d _ (fun _ => 0c)). symmetry; apply csumn_0.
    intros i _. rewrite (csumn_ext d _ (fun _ => 0c)). apply csumn_0. intros; ring.
  - rewrite ftr_fadd_l, <- IH, step_entry_trace. reflexivity.
Qed.

(* size of X *)
Lemma fnorm2_seg_M thr ev V dt w N : 0 <= thr -> funitary d (toF V) ->
  fnorm2 d (seg_M thr ev V dt w N) <= (Rabs dt * Fnorm d N) * (Rabs dt * Fnorm d N).
Proof.
  intros H0 HV.
  assert (E : fnorm2 d (toF (transform_by_unitary RO d V N)) = fnorm2 d (toF N)).
  { rewrite toF_transform_by_unitary. apply fnorm2_unitary_conj; auto. }
  unfold Fnorm. replace (Rabs dt * sqrt (fnorm2 d (toF N)) * (Rabs dt * sqrt (fnorm2 d (toF N))))
    with (Rabs dt * Rabs dt * (sqrt (fnorm2 d (toF N)) * sqrt (fnorm2 d (toF N)))) by ring.
  rewrite sqrt_sqrt by apply fnorm2_nonneg. rewrite <- E.
  unfold fnorm2 at 2. rewrite <- sum2_mul_l. unfold fnorm2. apply sumn_le; intros m _. apply sumn_le; intros n _.
  unfold seg_M, toF.
  pose proof (Cmod_foi_entry_le thr w (vg RO ev m) (vg RO ev n) dt H0) as HI.
  pose proof (Cmod_ge_0 (foi_entry RO thr w (vg RO ev m) (vg RO ev n) dt)) as HI0.
  pose proof (cabs2_nonneg (mget RO (transform_by_unitary RO d V N) m n)) as Ha.
  pose proof (Rabs_pos dt).
  replace (cabs2 RO (cmul' (mget RO (transform_by_unitary RO d V N) m n) (foi_entry RO thr w (vg RO ev m) (vg RO ev n) dt)))
    with (cabs2 RO (mget RO (transform_by_unitary RO d V N) m n) * cabs2 RO (foi_entry RO thr w (vg RO ev m) (vg RO ev n) dt))
    by (csimp; ring).
  rewrite <- (Cmod_sq (foi_entry RO thr w (vg RO ev m) (vg RO ev n) dt)).
  rewrite (Rmult_comm (Rabs dt * Rabs dt)). apply Rmult_le_compat_l; auto. nra.
Qed.

Lemma Fn_seg_Y thr ev V Q tg dt w s N : 0 <= thr -> funitary d (toF V) -> funitary d (toF Q) ->
  Fn d (seg_Y thr ev V Q tg dt w s N) <= Rabs s * Rabs dt * Fnorm d N.
Proof.
  intros H0 HV HQ. unfold seg_Y. rewrite Fn_fscal, Cmod_cmul, Cmod_cexp, Cmod_cofr, Rmult_1_l.
  rewrite Rmult_assoc. apply Rmult_le_compat_l. apply Rabs_pos.
  set (W := toF (mmul RO d (madj RO d Q) V)).
  assert (HW : funitary d W) by (apply funitary_W; auto).
  assert (E : fnorm2 d (fmul d W (fmul d (seg_M thr ev V dt w N) (fadj W))) = fnorm2 d (seg_M thr ev V dt w N)).
  { rewrite <- (fnorm2_unitary_conj d (fadj W) (seg_M thr ev V dt w N)) by (apply funitary_adj; auto).
    rewrite fadj_invol_feq. reflexivity. }
  apply Fn_le_of_sq.
  - apply Rmult_le_pos. apply Rabs_pos. apply sqrt_pos.
  - rewrite E. apply fnorm2_seg_M; auto.
Qed.

Lemma Fn_segs_X thr w N : 0 <= thr -> forall segs Q t, segs_unitary d segs -> funitary d (toF Q) ->
  Fn d (segs_X thr segs Q t w N) <= segs_sdt segs * Fnorm d N.
Proof.
  intros H0. induction segs as [|[[[ev V] dt] s] r IH]; intros Q t HU HQ; simpl.
  - unfold Fn, fnorm2, sum2. rewrite (sumn_ext d _ (fun _ => 0)). rewrite sumn_0, sqrt_0. lra.
    intros m _. rewrite (sumn_ext d _ (fun _ => 0)). apply sumn_0. intros n _. csimp. ring.
  - inversion HU as [|? ? H1 H2]; subst.
    eapply Rle_trans. apply Fn_triangle.
    pose proof (Fn_seg_Y thr ev V Q t dt w s N H0 H1 HQ).
    specialize (IH (mmul RO d (segment_propagator RO d ev V dt) Q) (t + dt) H2 (Useg_unitary d ev V Q dt H1 HQ)).
    lra.
Qed.
End TraceForm.

(* ---------- headline: diagonal of the fidelity filter function ---------- *)
Section FFBound.
Variable d : nat.

Definition basis_orthonormal (bs : list MatR) : Prop :=
  forall k l, (k < length bs)%nat -> (l < length bs)%nat ->
    fip d (toF (nthm bs k)) (toF (nthm bs l)) = if Nat.eqb k l then 1c else 0c.

Lemma fip_adj_swap A B : fip d (fadj A) (fadj B) = fip d B A.
Proof.
  unfold fip. rewrite (ftr_ext d (fmul d (fadj (fadj A)) (fadj B)) (fmul d A (fadj B))).
  - apply ftr_cyclic.
  - rewrite fadj_invol_feq. reflexivity.
Qed.

Theorem sum_abs2_rows_le thr w N bs segs Q t : 0 <= thr -> basis_orthonormal bs ->
  segs_unitary d segs -> funitary d (toF Q) ->
  sumn' (length bs) (fun k => cabs2 RO (entry_segs d (foi_entry RO thr) segs Q t w N (nthm bs k)))
  <= (segs_sdt segs * Fnorm d N) * (segs_sdt segs * Fnorm d N).
Proof.
  intros H0 HB HU HQ.
  set (X := segs_X d thr segs Q t w N).
  assert (Hc : forall k, entry_segs d (foi_entry RO thr) segs Q t w N (nthm bs k)
                         = coef d (fun k => fadj (toF (nthm bs k))) X k).
  { intros k. rewrite entry_segs_trace. fold X. unfold coef, fip.
    rewrite (ftr_ext d (fmul d (fadj (fadj (toF (nthm bs k)))) X) (fmul d (toF (nthm bs k)) X)).
    apply ftr_cyclic. rewrite fadj_invol_feq. reflexivity. }
  rewrite (sumn_ext _ _ (fun k => cabs2 RO (coef d (fun k => fadj (toF (nthm bs k))) X k))) by (intros; rewrite Hc; reflexivity).
  eapply Rle_trans.
  - apply (bessel d (fun k => fadj (toF (nthm bs k))) (length bs)).
    intros k l Hk Hl. rewrite fip_adj_swap. rewrite HB by auto. rewrite Nat.eqb_sym. reflexivity.
  - rewrite <- (Fn_sq d X).
    pose proof (Fn_segs_X d thr w N H0 segs Q t HU HQ) as H. fold X in H. pose proof (Fn_nonneg d X).
    apply Rmult_le_compat; auto.
Qed.

Lemma pulse_segs_unitary evs Vs dts nc j :
  (forall g, (g < length dts)%nat -> funitary d (toF (nth g Vs []))) -> segs_unitary d (pulse_segs evs Vs dts nc j).
Proof.
  intros HV. unfold segs_unitary, pulse_segs. generalize (sens_row (length dts) nc j).
  revert Vs dts HV. induction evs as [|ev evs IH]; intros Vs dts HV ss; [constructor|].
  destruct Vs as [|V Vs]; [constructor|]. destruct dts as [|dt dts]; [constructor|]. destruct ss as [|s ss]; [constructor|].
  simpl. constructor.
  - apply (HV 0%nat). simpl; lia.
  - apply IH. intros g Hg. apply (HV (S g)). simpl; lia.
Qed.

(* F_aa(w) <= (sum_g |s_a^g| |dt_g|)^2 ||N_a||_F^2 for every frequency; orthonormal (possibly incomplete) basis *)
Theorem ff_diag_bound thr evs Vs dts om bs ns nc a o :
  0 <= thr -> basis_orthonormal bs ->
  (forall g, (g < length dts)%nat -> funitary d (toF (nth g Vs []))) ->
  (a < length ns)%nat -> (o < length om)%nat ->
  let B := control_matrix_from_scratch RO d thr evs Vs (propagators RO d evs Vs dts) om bs ns nc dts (times RO dts) in
  let F := filter_function RO (length ns) (length bs) (length om) B in
  snd (a3get RO F a a o) = 0 /\
  0 <= fst (a3get RO F a a o) <=
       (segs_sdt (pulse_segs evs Vs dts nc a) * Fnorm d (nthm ns a)) * (segs_sdt (pulse_segs evs Vs dts nc a) * Fnorm d (nthm ns a)).
Proof.
  intros H0 HB HV Ha Ho B F. unfold F. rewrite ff_diag_nonneg by auto. simpl.
  split; [reflexivity|]. split.
  - apply sumn_nonneg. intros; apply cabs2_nonneg.
  - rewrite (sumn_ext _ _ (fun k => cabs2 RO (entry_segs d (foi_entry RO thr) (pulse_segs evs Vs dts nc a) (mid RO d) 0
                                             (vg RO om o) (nthm ns a) (nthm bs k)))).
    + apply sum_abs2_rows_le; auto. apply pulse_segs_unitary; auto. rewrite toF_mid. apply funitary_id.
    + intros k Hk. unfold B. rewrite cm_entry_formula by auto. reflexivity.
Qed.
End FFBound.

(* the orthonormality hypothesis is satisfiable: two matrix units of a two-level system (an incomplete basis) *)
Example basis_orthonormal_example : basis_orthonormal 2 [[[1c; 0c]; [0c; 0c]]; [[0c; 0c]; [0c; 1c]]].
Proof.
  intros k l Hk Hl. simpl in Hk, Hl.
  destruct k as [|[|k]]; [| |lia]; (destruct l as [|[|l]]; [| |lia]);
    unfold fip, ftr, fmul, fadj, toF, nthm, mget; simpl; apply c_eq; csimp; ring.
Qed.
