(* C16 -- the combinatorial heart of util.tensor_insert / tensor_merge: the order of the factors
   produced by the position bookkeeping loops (on arbitrary labels), rejection of inadmissible
   positions, and the invariant of the recorded dimensions (carr_dims). *)
From Coq Require Import ZArith List Arith Lia Bool Permutation Sorted.
From FF Require Import Model.Tensor.
Import ListNotations.

(* ------------------------------------------------------------------ list helpers *)
Lemma filter_all {A} (f : A -> bool) l : (forall x, In x l -> f x = true) -> filter f l = l.
Proof.
  induction l as [|a l IH]; simpl; intros H; auto.
  rewrite (H a (or_introl eq_refl)). f_equal. apply IH. intros; apply H; auto.
Qed.
Lemma filter_none {A} (f : A -> bool) l : (forall x, In x l -> f x = false) -> filter f l = [].
Proof.
  induction l as [|a l IH]; simpl; intros H; auto.
  rewrite (H a (or_introl eq_refl)). apply IH. intros; apply H; auto.
Qed.
Lemma filter_filter {A} (f g : A -> bool) l : filter f (filter g l) = filter (fun x => g x && f x) l.
Proof.
  induction l as [|a l IH]; simpl; auto.
  destruct (g a) eqn:G; simpl.
  - destruct (f a); rewrite IH; reflexivity.
  - apply IH.
Qed.
Lemma filter_ext' {A} (f g : A -> bool) l : (forall x, In x l -> f x = g x) -> filter f l = filter g l.
Proof.
  induction l as [|a l IH]; simpl; intros H; auto.
  rewrite (H a (or_introl eq_refl)). rewrite IH by (intros; apply H; right; assumption). reflexivity.
Qed.
Lemma insert_at_app_r {A} (l1 l2 : list A) k x :
  insert_at (length l1 + k) x (l1 ++ l2) = l1 ++ insert_at k x l2.
Proof.
  unfold insert_at. rewrite firstn_app, skipn_app.
  replace (length l1 + k - length l1) with k by lia.
  rewrite firstn_all2 by lia. rewrite skipn_all2 by lia. simpl. rewrite <- app_assoc. reflexivity.
Qed.
Lemma insert_at_end {A} (l : list A) x : insert_at (length l) x l = l ++ [x].
Proof. unfold insert_at. rewrite firstn_all, skipn_all. reflexivity. Qed.
Lemma insert_at_0 {A} (l : list A) x : insert_at 0 x l = x :: l.
Proof. reflexivity. Qed.
Lemma insert_at_S {A} (l : list A) a k x : insert_at (S k) x (a :: l) = a :: insert_at k x l.
Proof. reflexivity. Qed.
Lemma insert_at_length {A} (l : list A) k x : length (insert_at k x l) = S (length l).
Proof.
  unfold insert_at. rewrite app_length. simpl. rewrite Nat.add_succ_r.
  rewrite <- app_length, firstn_skipn. reflexivity.
Qed.

(* ------------------------------------------------------------------ specification of the order *)
Section Spec.
Context {A L : Type} (pk : A -> nat) (lb : A -> L).

(* the documented chain: in front of original factor q come the inserted factors whose (normalised)
   position is q, in argument order; those with position n = len(orig) come last *)
Fixpoint chain_spec (its : list A) (q : nat) (orig : list L) : list L :=
  match orig with
  | [] => map lb (filter (fun it => pk it =? q) its)
  | o :: orig' => map lb (filter (fun it => pk it =? q) its) ++ o :: chain_spec its (S q) orig'
  end.

Lemma chain_spec_filter its q orig :
  chain_spec its q orig = chain_spec (filter (fun it => q <=? pk it) its) q orig.
Proof.
  revert its q. induction orig as [|o orig IH]; intros its q; simpl.
  - rewrite filter_filter. f_equal. apply filter_ext'. intros x _.
    destruct (pk x =? q) eqn:E; [apply Nat.eqb_eq in E; subst; rewrite Nat.leb_refl; reflexivity|].
    rewrite andb_false_r. reflexivity.
  - rewrite filter_filter. f_equal.
    + f_equal. apply filter_ext'. intros x _.
      destruct (pk x =? q) eqn:E; [apply Nat.eqb_eq in E; subst; rewrite Nat.leb_refl; reflexivity|].
      rewrite andb_false_r. reflexivity.
    + f_equal. rewrite (IH (filter (fun it => q <=? pk it) its) (S q)), (IH its (S q)). f_equal.
      rewrite filter_filter. apply filter_ext'. intros x _.
      destruct (S q <=? pk x) eqn:E; [|rewrite andb_false_r; reflexivity].
      apply Nat.leb_le in E. rewrite andb_true_r. symmetry. apply Nat.leb_le. lia.
Qed.

Lemma partition_len its q : (forall it, In it its -> q <= pk it) ->
  length its = length (filter (fun it => pk it =? q) its) + length (filter (fun it => S q <=? pk it) its).
Proof.
  induction its as [|a its IHi]; intros H; [reflexivity|].
  assert (Ha := H a (or_introl eq_refl)).
  assert (IH' : length its = length (filter (fun it => pk it =? q) its) + length (filter (fun it => S q <=? pk it) its))
    by (apply IHi; intros; apply H; right; assumption).
  cbn [filter].
  destruct (Nat.eqb_spec (pk a) q) as [E1|E1]; destruct (Nat.leb_spec (S q) (pk a)) as [E2|E2]; cbn [length]; lia.
Qed.

Lemma chain_spec_length its q orig :
  (forall it, In it its -> q <= pk it <= q + length orig) ->
  length (chain_spec its q orig) = length its + length orig.
Proof.
  revert its q. induction orig as [|o orig IH]; intros its q H; simpl.
  - rewrite map_length, filter_all, Nat.add_0_r; auto.
    intros x Hx. apply Nat.eqb_eq. specialize (H x Hx). simpl in H. lia.
  - rewrite app_length, map_length. simpl. rewrite chain_spec_filter, IH.
    + assert (E : length its = length (filter (fun it => pk it =? q) its) + length (filter (fun it => S q <=? pk it) its)).
      { apply partition_len. intros it Hit. specialize (H it Hit). lia. }
      lia.
    + intros it Hit. apply filter_In in Hit. destruct Hit as [Hit Hle]. apply Nat.leb_le in Hle.
      specialize (H it Hit). simpl in H. lia.
Qed.

(* appending an item whose position is at least every earlier one = list insertion at p + #earlier *)
Lemma chain_spec_snoc orig : forall its q p x,
  (forall it, In it its -> q <= pk it <= pk x) -> pk x = p -> q <= p <= q + length orig ->
  chain_spec (its ++ [x]) q orig = insert_at (p - q + length its) (lb x) (chain_spec its q orig).
Proof.
  induction orig as [|o orig IH]; intros its q p x Hits Hp Hq; simpl in *.
  - assert (p = q) by lia. subst p. rewrite H in *.
    rewrite filter_app. simpl. rewrite H, Nat.eqb_refl.
    rewrite (filter_all _ its).
    2:{ intros y Hy. apply Nat.eqb_eq. specialize (Hits y Hy). lia. }
    rewrite map_app. simpl. replace (q - q + length its) with (length (map lb its)) by (rewrite map_length; lia).
    rewrite insert_at_end. reflexivity.
  - rewrite filter_app, map_app. simpl.
    destruct (pk x =? q) eqn:E.
    + apply Nat.eqb_eq in E.
      assert (Hall : forall y, In y its -> pk y = q) by (intros y Hy; specialize (Hits y Hy); lia).
      rewrite (filter_all _ its) by (intros y Hy; apply Nat.eqb_eq; auto).
      simpl. rewrite <- app_assoc. simpl.
      replace (p - q + length its) with (length (map lb its) + 0) by (rewrite map_length; lia).
      rewrite insert_at_app_r, insert_at_0. f_equal. f_equal. f_equal.
      rewrite (chain_spec_filter (its ++ [x])), (chain_spec_filter its).
      f_equal. rewrite filter_app. cbn [filter].
      replace (S q <=? pk x) with false by (symmetry; apply Nat.leb_gt; lia).
      rewrite app_nil_r. reflexivity.
    + apply Nat.eqb_neq in E. simpl. rewrite app_nil_r.
      set (A0 := filter (fun it => pk it =? q) its).
      set (its' := filter (fun it => S q <=? pk it) its).
      assert (Elen : length its = length A0 + length its').
      { subst A0 its'. apply partition_len. intros it Hit. specialize (Hits it Hit). lia. }
      rewrite (chain_spec_filter (its ++ [x])), filter_app. cbn [filter].
      replace (S q <=? pk x) with true by (symmetry; apply Nat.leb_le; lia).
      fold its'. rewrite (IH its' (S q) p x).
      * rewrite (chain_spec_filter its (S q)). fold its'.
        replace (p - q + length its) with (length (map lb A0) + S (p - S q + length its')) by (rewrite map_length; lia).
        rewrite insert_at_app_r, insert_at_S. reflexivity.
      * intros y Hy. subst its'. apply filter_In in Hy. destruct Hy as [Hy Hle]. apply Nat.leb_le in Hle.
        specialize (Hits y Hy). lia.
      * exact Hp.
      * lia.
Qed.
End Spec.

(* ------------------------------------------------------------------ stable sorting by position *)
Section Sort.
Context {A : Type} (key : A -> Z).
Local Open Scope Z_scope.

Definition kle (a b : A) : Prop := key a <= key b.

Lemma ins_sorted_perm x l : Permutation (ins_sorted key x l) (x :: l).
Proof.
  induction l as [|y t IH]; simpl; auto.
  destruct (key x <=? key y); auto.
  rewrite IH. apply perm_swap.
Qed.
Lemma sort_by_perm l : Permutation (sort_by key l) l.
Proof.
  induction l as [|x l IH]; simpl; auto.
  rewrite ins_sorted_perm. auto.
Qed.
Lemma sort_by_In x l : In x (sort_by key l) <-> In x l.
Proof. split; apply Permutation_in; [|symmetry]; apply sort_by_perm. Qed.

Lemma ins_sorted_sorted x l : StronglySorted kle l -> StronglySorted kle (ins_sorted key x l).
Proof.
  induction l as [|y t IH]; simpl; intros H.
  - constructor; constructor.
  - inversion H as [|? ? Ht Hy]; subst.
    destruct (key x <=? key y) eqn:E.
    + apply Z.leb_le in E. constructor; auto. constructor; auto.
      eapply Forall_impl; [|exact Hy]. unfold kle. intros; lia.
    + apply Z.leb_gt in E. constructor; auto.
      apply (Permutation_Forall (x := x :: t)); [symmetry; apply ins_sorted_perm|].
      constructor; auto. unfold kle; lia.
Qed.
Lemma sort_by_sorted l : StronglySorted kle (sort_by key l).
Proof. induction l; simpl; [constructor|apply ins_sorted_sorted; auto]. Qed.

(* stability: the items with a given key keep their order *)
Lemma ins_sorted_filter k x l :
  filter (fun y => key y =? k) (ins_sorted key x l) =
  if key x =? k then x :: filter (fun y => key y =? k) l else filter (fun y => key y =? k) l.
Proof.
  induction l as [|y t IH]; simpl.
  - reflexivity.
  - destruct (key x <=? key y) eqn:E; simpl.
    + reflexivity.
    + apply Z.leb_gt in E. rewrite IH.
      destruct (key x =? k) eqn:E1; destruct (key y =? k) eqn:E2; auto.
      apply Z.eqb_eq in E1, E2. lia.
Qed.
Lemma sort_by_filter k l :
  filter (fun y => key y =? k) (sort_by key l) = filter (fun y => key y =? k) l.
Proof.
  induction l as [|x l IH]; simpl; auto.
  rewrite ins_sorted_filter, IH. reflexivity.
Qed.
End Sort.

(* ------------------------------------------------------------------ the loop over the sorted items *)
Section Loop.
Context {St A : Type} (step : St -> A -> nat -> nat -> res St).
Notation item := (Z * Z * A)%type.
Definition ikey (it : item) : Z := fst (fst it).
Definition idiv (it : item) : Z := snd (fst it).
Definition ipk (it : item) : nat := Z.to_nat (ikey it).
Definition ilb (it : item) : A := snd it.

Lemma insert_loop_inv (good : item -> Prop) (Inv : list item -> St -> Prop) :
  (forall its1 b s, Inv its1 s -> (forall a, In a its1 -> (ikey a <= ikey b)%Z) -> good b ->
     exists s', step s (ilb b) (ipk b) (length its1) = Ok s' /\ Inv (its1 ++ [b]) s') ->
  forall its2 its1 s,
    StronglySorted (kle ikey) its2 ->
    (forall a b, In a its1 -> In b its2 -> (ikey a <= ikey b)%Z) ->
    (forall b, In b its2 -> good b /\ div_ok (idiv b) = true) ->
    Inv its1 s ->
    exists s', insert_loop step its2 (length its1) s = Ok s' /\ Inv (its1 ++ its2) s'.
Proof.
  intros Hstep. induction its2 as [|b its2 IH]; intros its1 s Hs Hle Hg Hinv.
  - exists s. rewrite app_nil_r. split; auto.
  - destruct b as [[p dv] a] eqn:Eb. simpl.
    destruct (Hg b) as [Hgb Hdv]; [subst; left; reflexivity|]. subst b.
    unfold idiv in Hdv. simpl in Hdv. rewrite Hdv. simpl.
    destruct (Hstep its1 (p, dv, a) s Hinv) as [s' [Hs' Hinv']]; auto.
    { intros a0 Ha0. apply Hle; auto. left; reflexivity. }
    unfold ilb, ipk, ikey in Hs'. simpl in Hs'. rewrite Hs'. simpl.
    inversion Hs as [|? ? Hs2 Hall]; subst.
    destruct (IH (its1 ++ [(p, dv, a)]) s') as [s'' [Hl Hi]]; auto.
    + intros a0 b0 Ha0 Hb0. apply in_app_or in Ha0. destruct Ha0 as [Ha0|[Ha0|[]]].
      * apply Hle; auto. right; auto.
      * subst a0. rewrite Forall_forall in Hall. apply Hall; auto.
    + intros b0 Hb0. apply Hg. right; auto.
    + exists s''. rewrite app_length in Hl. simpl in Hl. rewrite Nat.add_1_r in Hl.
      rewrite <- app_assoc in Hi. simpl in Hi. split; auto.
Qed.

Lemma insert_loop_rejects items : forall i s,
  (exists it, In it items /\ div_ok (idiv it) = false) ->
  exists e, insert_loop step items i s = Err e.
Proof.
  induction items as [|[[p dv] a] t IH]; intros i s [it [Hin Hbad]].
  - destruct Hin.
  - simpl. destruct (div_ok dv) eqn:E; simpl.
    + destruct (step s a (Z.to_nat p) i) as [s'|e]; simpl; [|eauto].
      apply IH. destruct Hin as [Hin|Hin]; [subst it; unfold idiv in Hbad; simpl in Hbad; congruence|].
      exists it; auto.
    + eauto.
Qed.
End Loop.

(* ------------------------------------------------------------------ normalisation of positions *)
Definition admissible (n : nat) (p : Z) : Prop := (- Z.of_nat n <= p <= Z.of_nat n)%Z.
Definition admissibleb (n : nat) (p : Z) : bool := ((- Z.of_nat n <=? p) && (p <=? Z.of_nat n))%Z.
Definition npos (n : nat) (p : Z) : nat := Z.to_nat (snd (norm_pos n p)).

Lemma admissibleb_spec n p : admissibleb n p = true <-> admissible n p.
Proof. unfold admissibleb, admissible. rewrite andb_true_iff, !Z.leb_le. tauto. Qed.

Lemma norm_pos_adm n p : 1 <= n -> admissible n p ->
  (0 <= snd (norm_pos n p) <= Z.of_nat n)%Z /\ div_ok (fst (norm_pos n p)) = true.
Proof.
  intros Hn [H1 H2]. unfold norm_pos.
  destruct (p =? Z.of_nat n)%Z eqn:E; simpl.
  - apply Z.eqb_eq in E. split; [lia|reflexivity].
  - apply Z.eqb_neq in E.
    assert (Hpos : (0 < Z.of_nat n)%Z) by lia.
    pose proof (Z.mod_pos_bound p (Z.of_nat n) Hpos) as Hm.
    pose proof (Z.div_mod p (Z.of_nat n) ltac:(lia)) as Hd.
    split; [lia|].
    unfold div_ok. apply orb_true_iff.
    assert (Hq : (p / Z.of_nat n = -1 \/ p / Z.of_nat n = 0)%Z) by nia.
    destruct Hq as [Hq|Hq]; rewrite Hq; auto.
Qed.
Lemma norm_pos_inadm n p : 1 <= n -> ~ admissible n p -> div_ok (fst (norm_pos n p)) = false.
Proof.
  intros Hn Hna. unfold norm_pos, admissible in *.
  destruct (p =? Z.of_nat n)%Z eqn:E; simpl.
  - apply Z.eqb_eq in E. lia.
  - apply Z.eqb_neq in E.
    assert (Hpos : (0 < Z.of_nat n)%Z) by lia.
    pose proof (Z.mod_pos_bound p (Z.of_nat n) Hpos) as Hm.
    pose proof (Z.div_mod p (Z.of_nat n) ltac:(lia)) as Hd.
    unfold div_ok. apply orb_false_iff. split; apply Z.eqb_neq; nia.
Qed.

(* ------------------------------------------------------------------ insert_order_spec *)
Section Order.
Context {L : Type}.
Notation item := (Z * Z * L)%type.

(* the position loop of tensor_insert run on a list of labels instead of arrays *)
Definition order_step (s : list L) (a : L) (p i : nat) : res (list L) := Ok (insert_at (p + i) a s).
Definition insert_order (ndim : nat) (pos : list Z) (xs orig : list L) : res (list L) :=
  insert_loop order_step (insert_items ndim pos xs) 0 orig.

Definition mkitem (n : nat) (pa : Z * L) : item :=
  (snd (norm_pos n (fst pa)), fst (norm_pos n (fst pa)), snd pa).

Lemma chain_spec_ext {A} (pk : A -> nat) (lb : A -> L) its its' q orig :
  (forall k, filter (fun it => pk it =? k) its = filter (fun it => pk it =? k) its') ->
  chain_spec pk lb its q orig = chain_spec pk lb its' q orig.
Proof.
  intros H. revert q. induction orig as [|o orig IH]; intros q; simpl; rewrite H; auto.
  rewrite IH. reflexivity.
Qed.
Lemma chain_spec_view {A} (pk : A -> nat) (lb : A -> L) its q orig :
  chain_spec pk lb its q orig = chain_spec fst snd (map (fun it => (pk it, lb it)) its) q orig.
Proof.
  assert (F : forall k, map lb (filter (fun it => pk it =? k) its) =
                        map snd (filter (fun it : nat * L => fst it =? k) (map (fun it => (pk it, lb it)) its))).
  { intros k. induction its as [|a its IH]; simpl; auto. destruct (pk a =? k); simpl; rewrite IH; auto. }
  revert q. induction orig as [|o orig IH]; intros q; simpl; rewrite F; auto. rewrite IH. reflexivity.
Qed.

Lemma order_loop_spec n orig its :
  length orig = n ->
  (forall b, In b its -> (0 <= ikey b <= Z.of_nat n)%Z /\ div_ok (idiv b) = true) ->
  insert_loop order_step (sort_by ikey its) 0 orig = Ok (chain_spec ipk ilb its 0 orig).
Proof.
  intros Hn Hits.
  destruct (insert_loop_inv order_step
              (fun b => (0 <= ikey b <= Z.of_nat n)%Z)
              (fun its1 s => s = chain_spec ipk ilb its1 0 orig /\ forall a, In a its1 -> (0 <= ikey a <= Z.of_nat n)%Z))
    with (its2 := sort_by ikey its) (its1 := @nil item) (s := orig) as [s' [Hl [Hs' _]]].
  - intros its1 b s [Hs Hb1] Hle Hgb. eexists. split; [reflexivity|]. split.
    + subst s. rewrite (chain_spec_snoc ipk ilb orig its1 0 (ipk b) b); auto.
      * rewrite Nat.sub_0_r. reflexivity.
      * intros it Hit. specialize (Hle it Hit). specialize (Hb1 it Hit). unfold ipk. lia.
      * unfold ipk. lia.
    + intros a Ha. apply in_app_or in Ha. destruct Ha as [Ha|[Ha|[]]]; [auto|subst; auto].
  - apply sort_by_sorted.
  - intros a b [].
  - intros b Hb. apply sort_by_In in Hb. destruct (Hits b Hb). auto.
  - split; [|intros a []]. simpl.
    clear. generalize 0. induction orig as [|o orig IH]; intros q; simpl; auto. f_equal. apply IH.
  - simpl in Hl. rewrite Hl, Hs'. f_equal. simpl.
    apply chain_spec_ext. intros k.
    assert (Hnn : forall l : list item, (forall b, In b l -> (0 <= ikey b)%Z) ->
              filter (fun it => ipk it =? k) l = filter (fun it => (ikey it =? Z.of_nat k)%Z) l).
    { intros l Hl0. apply filter_ext'. intros x Hx. specialize (Hl0 x Hx). unfold ipk.
      destruct (Z.eqb_spec (ikey x) (Z.of_nat k)) as [E|E].
      - rewrite E, Nat2Z.id. apply Nat.eqb_refl.
      - apply Nat.eqb_neq. lia. }
    rewrite !Hnn.
    + apply sort_by_filter.
    + intros b Hb. apply Hits in Hb. lia.
    + intros b Hb. apply sort_by_In in Hb. apply Hits in Hb. lia.
Qed.

Theorem insert_order_spec n pos xs orig :
  1 <= n -> length orig = n -> length pos = length xs -> Forall (admissible n) pos ->
  insert_order n pos xs orig = Ok (chain_spec fst snd (combine (map (npos n) pos) xs) 0 orig).
Proof.
  intros Hn Hlen Hpx Hadm. unfold insert_order, insert_items.
  change (fun it : item => fst (fst it)) with (@ikey L).
  change (fun pa : Z * L => (snd (norm_pos n (fst pa)), fst (norm_pos n (fst pa)), snd pa)) with (mkitem n).
  rewrite (order_loop_spec n); auto.
  - f_equal. rewrite chain_spec_view. f_equal.
    rewrite map_map. clear Hadm. revert xs Hpx. induction pos as [|p pos IH]; intros [|x xs] Hpx; simpl in *; try discriminate; auto.
    f_equal. apply IH. lia.
  - intros b Hb. apply in_map_iff in Hb. destruct Hb as [[p x] [Hb Hin]]. subst b.
    apply in_combine_l in Hin. rewrite Forall_forall in Hadm. specialize (Hadm p Hin).
    unfold ikey, idiv, mkitem. simpl. apply norm_pos_adm; auto.
Qed.

(* inadmissible positions are rejected (IndexError) by the label-level loop *)
Theorem insert_order_rejects n pos xs orig :
  1 <= n -> length pos = length xs -> ~ Forall (admissible n) pos ->
  insert_order n pos xs orig = Err IndexError.
Proof.
  intros Hn Hpx Hna. unfold insert_order.
  destruct (insert_loop_rejects order_step (insert_items n pos xs) 0 orig) as [e He].
  - apply Exists_Forall_neg in Hna; [|intros p; unfold admissible; lia].
    apply Exists_exists in Hna. destruct Hna as [p [Hin Hp]].
    destruct (In_nth pos p 0%Z Hin) as [j [Hj Hnth]].
    assert (exists x, In (p, x) (combine pos xs)) as [x Hx].
    { clear Hp Hin. revert xs j Hpx Hj Hnth. induction pos as [|p0 pos IH]; intros [|x xs] j Hpx Hj Hnth; simpl in *; try lia.
      destruct j as [|j]; [subst; eauto|]. destruct (IH xs j) as [x' Hx']; try lia; eauto. }
    exists (mkitem n (p, x)). split.
    + unfold insert_items. apply sort_by_In. apply in_map_iff. exists (p, x); auto.
    + unfold idiv, mkitem. simpl. apply norm_pos_inadm; auto.
  - (* the only error the label-level loop can produce is IndexError *)
    assert (G : forall items i s e, insert_loop order_step items i s = Err e -> e = IndexError).
    { clear. induction items as [|[[p dv] a] t IH]; intros i s e; simpl; [discriminate|].
      destruct (div_ok dv); simpl; [apply IH|congruence]. }
    rewrite He. f_equal. eapply G; eauto.
Qed.
End Order.

(* ------------------------------------------------------------------ the recorded dimensions (carr_dims) *)
(* tensor_insert records the dimensions of an inserted factor at index p of carr_dims, although the
   factor was inserted at p + i.  The true dimension list (tr) and the recorded one (rc) are threaded
   through the same loop; every iteration checks what single_tensor_insert needs from the recorded
   list: the product of the first p + i entries (the axes in front of the insertion point) and of
   the remaining ones agree with the true ones.  The loop never fails on sorted admissible items. *)
Definition dims_step (s : list nat * list nat) (d : nat) (p i : nat) : res (list nat * list nat) :=
  let '(tr, rc) := s in
  if (prodn (firstn (p + i) tr) =? prodn (firstn (p + i) rc)) &&
     (prodn (skipn (p + i) tr) =? prodn (skipn (p + i) rc))
  then Ok (insert_at (p + i) d tr, insert_at p d rc) else Err ValueError.

Lemma prodn_perm l l' : Permutation l l' -> prodn l = prodn l'.
Proof. induction 1; simpl; try lia. Qed.
Lemma insert_at_perm {A} k (x : A) l : Permutation (insert_at k x l) (x :: l).
Proof.
  unfold insert_at. rewrite <- (firstn_skipn k l) at 3. symmetry. apply Permutation_middle.
Qed.
Lemma firstn_insert_at {A} k m (x : A) l : k <= m -> k <= length l ->
  firstn (S m) (insert_at k x l) = insert_at k x (firstn m l).
Proof.
  intros Hk Hl. unfold insert_at.
  rewrite firstn_app, firstn_length, Nat.min_l by lia.
  rewrite (firstn_all2 (n := S m) (firstn k l)) by (rewrite firstn_length; lia).
  replace (S m - k) with (S (m - k)) by lia. rewrite firstn_cons.
  rewrite firstn_firstn, Nat.min_l by lia. f_equal. f_equal.
  rewrite skipn_firstn_comm. reflexivity.
Qed.

Theorem dims_invariant n (pos : list Z) (ds orig : list nat) :
  1 <= n -> length orig = n -> length pos = length ds -> Forall (admissible n) pos ->
  exists rc, insert_loop dims_step (insert_items n pos ds) 0 (orig, orig) =
             Ok (chain_spec fst snd (combine (map (npos n) pos) ds) 0 orig, rc)
             /\ Permutation rc (chain_spec fst snd (combine (map (npos n) pos) ds) 0 orig).
Proof.
  intros Hn Hlen Hpx Hadm.
  pose (its := map (mkitem n) (combine pos ds)).
  assert (Hits : forall b, In b its -> (0 <= ikey b <= Z.of_nat n)%Z /\ div_ok (idiv b) = true).
  { intros b Hb. apply in_map_iff in Hb. destruct Hb as [[p x] [Hb Hin]]. subst b.
    apply in_combine_l in Hin. rewrite Forall_forall in Hadm. specialize (Hadm p Hin).
    unfold ikey, idiv, mkitem. simpl. apply norm_pos_adm; auto. }
  destruct (insert_loop_inv dims_step
              (fun b => (0 <= ikey b <= Z.of_nat n)%Z)
              (fun its1 s => fst s = chain_spec ipk ilb its1 0 orig
                             /\ (forall a, In a its1 -> (0 <= ikey a <= Z.of_nat n)%Z)
                             /\ length (snd s) = length its1 + n
                             /\ forall q, (forall a, In a its1 -> ipk a <= q) ->
                                          Permutation (firstn (q + length its1) (fst s)) (firstn (q + length its1) (snd s))))
    with (its2 := sort_by ikey its) (its1 := @nil (Z * Z * nat)%type) (s := (orig, orig)) as [s' [Hl [Hs1 [_ [Hs3 Hs4]]]]].
  - intros its1 b [tr rc] [Htr [Hb1 [Hlrc Hperm]]] Hle Hgb. simpl in Htr, Hlrc, Hperm.
    assert (Hlt : length tr = length its1 + n).
    { subst tr. rewrite chain_spec_length; [lia|]. intros it Hit. specialize (Hb1 it Hit). unfold ipk. simpl. lia. }
    assert (Hq : forall a, In a its1 -> ipk a <= ipk b).
    { intros a Ha. specialize (Hle a Ha). specialize (Hb1 a Ha). unfold ipk. lia. }
    assert (Hpb : ipk b <= n) by (unfold ipk; lia).
    pose proof (Hperm (ipk b) Hq) as Hpre.
    assert (Hall : Permutation tr rc).
    { specialize (Hperm (n + length its1)). rewrite !firstn_all2 in Hperm by lia. apply Hperm.
      intros a Ha. specialize (Hb1 a Ha). unfold ipk. lia. }
    assert (Hsuf : Permutation (skipn (ipk b + length its1) tr) (skipn (ipk b + length its1) rc)).
    { apply (Permutation_app_inv_l (firstn (ipk b + length its1) tr)).
      rewrite firstn_skipn. rewrite Hpre at 1. rewrite firstn_skipn. exact Hall. }
    unfold dims_step.
    rewrite (prodn_perm _ _ Hpre), (prodn_perm _ _ Hsuf), !Nat.eqb_refl. simpl.
    eexists. split; [reflexivity|]. simpl. split; [|split; [|split]].
    + subst tr. rewrite (chain_spec_snoc ipk ilb orig its1 0 (ipk b) b); auto.
      * rewrite Nat.sub_0_r. reflexivity.
      * intros it Hit. specialize (Hq it Hit). lia.
      * lia.
    + intros a Ha. apply in_app_or in Ha. destruct Ha as [Ha|[Ha|[]]]; [auto|subst; auto].
    + rewrite insert_at_length, app_length. simpl. lia.
    + intros q Hq'. rewrite app_length. simpl. replace (q + (length its1 + 1)) with (S (q + length its1)) by lia.
      assert (Hbq : ipk b <= q) by (apply Hq'; apply in_or_app; right; left; reflexivity).
      rewrite !firstn_insert_at by lia.
      rewrite !insert_at_perm. constructor. apply Hperm.
      intros a Ha. apply Hq'. apply in_or_app. auto.
  - apply sort_by_sorted.
  - intros a b [].
  - intros b Hb. apply sort_by_In in Hb. destruct (Hits b Hb). auto.
  - simpl. split; [|split; [|split]]; auto.
    + clear. generalize 0. induction orig as [|o orig IH]; intros q; simpl; auto. f_equal. apply IH.
    + intros a [].
  - destruct s' as [tr rc]. simpl in *. exists rc.
    assert (Etr : tr = chain_spec fst snd (combine (map (npos n) pos) ds) 0 orig).
    { pose proof (insert_order_spec n pos ds orig Hn Hlen Hpx Hadm) as Ho.
      unfold insert_order, insert_items in Ho.
      change (fun it : Z * Z * nat => fst (fst it)) with (@ikey nat) in Ho.
      change (fun pa : Z * nat => (snd (norm_pos n (fst pa)), fst (norm_pos n (fst pa)), snd pa)) with (@mkitem nat n) in Ho.
      fold its in Ho. rewrite (order_loop_spec n) in Ho; auto.
      rewrite Hs1. injection Ho as Ho. rewrite <- Ho.
      apply chain_spec_ext. intros k.
      assert (Hnn : forall l : list (Z * Z * nat), (forall b, In b l -> (0 <= ikey b)%Z) ->
                filter (fun it => ipk it =? k) l = filter (fun it => (ikey it =? Z.of_nat k)%Z) l).
      { intros l Hl0. apply filter_ext'. intros x Hx. specialize (Hl0 x Hx). unfold ipk.
        destruct (Z.eqb_spec (ikey x) (Z.of_nat k)) as [E|E].
        - rewrite E, Nat2Z.id. apply Nat.eqb_refl.
        - apply Nat.eqb_neq. lia. }
      rewrite !Hnn.
      + apply sort_by_filter.
      + intros b Hb. apply Hits in Hb. lia.
      + intros b Hb. apply sort_by_In in Hb. apply Hits in Hb. lia. }
    split.
    + unfold insert_items. change (fun it : Z * Z * nat => fst (fst it)) with (@ikey nat).
      change (fun pa : Z * nat => (snd (norm_pos n (fst pa)), fst (norm_pos n (fst pa)), snd pa)) with (@mkitem nat n).
      fold its. simpl in Hl. rewrite Hl, Etr. reflexivity.
    + rewrite <- Etr. symmetry.
      specialize (Hs4 (n + length (sort_by ikey its))).
      assert (Hlt : length tr = length (sort_by ikey its) + n).
      { rewrite Hs1. rewrite chain_spec_length; [lia|]. intros it Hit. apply sort_by_In in Hit. apply Hits in Hit. unfold ipk. simpl. lia. }
      rewrite !firstn_all2 in Hs4 by lia. apply Hs4.
      intros a Ha. apply sort_by_In in Ha. apply Hits in Ha. unfold ipk. lia.
Qed.

(* ------------------------------------------------------------------ tensor_merge: positions and letters *)
Lemma merge_norm_pos_adm n pos : 1 <= n -> Forall (admissible n) pos ->
  merge_norm_pos n pos = Ok (map (fun p => snd (norm_pos n p)) pos).
Proof.
  intros Hn H. induction H as [|p pos Hp Hall IH]; simpl; auto.
  destruct (norm_pos_adm n p Hn Hp) as [_ Hd]. unfold norm_pos in *.
  destruct (p =? Z.of_nat n)%Z; simpl in *; rewrite IH; simpl; auto.
  rewrite Hd. reflexivity.
Qed.
Lemma merge_norm_pos_rejects n pos : 1 <= n -> ~ Forall (admissible n) pos ->
  merge_norm_pos n pos = Err IndexError.
Proof.
  intros Hn. induction pos as [|p pos IH]; intros H.
  - exfalso. apply H. constructor.
  - simpl. destruct (admissibleb n p) eqn:E.
    + apply admissibleb_spec in E. destruct (norm_pos_adm n p Hn E) as [_ Hd]. unfold norm_pos in Hd.
      rewrite IH; [|intros Hf; apply H; constructor; auto].
      destruct (p =? Z.of_nat n)%Z; simpl in *; auto. rewrite Hd. reflexivity.
    + assert (Hna : ~ admissible n p) by (intros Ha; apply admissibleb_spec in Ha; congruence).
      pose proof (norm_pos_inadm n p Hn Hna) as Hd. unfold norm_pos in Hd.
      destruct (p =? Z.of_nat n)%Z eqn:E2; simpl in *.
      * discriminate.
      * rewrite Hd. reflexivity.
Qed.

Lemma merge_part_loop_insert_loop {L} (items : list (Z * L)) : forall i part,
  insert_loop order_step (map (fun pc => (fst pc, 0%Z, snd pc)) items) i part = Ok (merge_part_loop items i part).
Proof.
  induction items as [|[p c] t IH]; intros i part; simpl; auto.
Qed.

Lemma ins_sorted_map {A B} (f : A -> B) (kb : B -> Z) x l :
  ins_sorted kb (f x) (map f l) = map f (ins_sorted (fun a => kb (f a)) x l).
Proof.
  induction l as [|y t IH]; simpl; auto.
  destruct (kb (f x) <=? kb (f y))%Z; simpl; auto. rewrite IH. reflexivity.
Qed.
Lemma sort_by_map {A B} (f : A -> B) (kb : B -> Z) l :
  sort_by kb (map f l) = map f (sort_by (fun a => kb (f a)) l).
Proof.
  induction l as [|x l IH]; simpl; auto. rewrite IH. apply ins_sorted_map.
Qed.

(* sorted(zip(pos, letters)) = stable sort by position, because the letters increase *)
Lemma ins_lex_ins_sorted x l : (forall y, In y l -> snd x <= snd y) ->
  ins_lex x l = ins_sorted fst x l.
Proof.
  induction l as [|y t IH]; intros H; simpl; auto.
  assert (Hy := H y (or_introl eq_refl)).
  unfold pair_le.
  destruct (Z.ltb_spec (fst x) (fst y)) as [E1|E1]; simpl.
  - replace (fst x <=? fst y)%Z with true by (symmetry; apply Z.leb_le; lia). reflexivity.
  - destruct (Z.eqb_spec (fst x) (fst y)) as [E2|E2]; simpl.
    + replace (Z.of_nat (snd x) <=? Z.of_nat (snd y))%Z with true by (symmetry; apply Z.leb_le; lia).
      replace (fst x <=? fst y)%Z with true by (symmetry; apply Z.leb_le; lia). reflexivity.
    + replace (fst x <=? fst y)%Z with false by (symmetry; apply Z.leb_gt; lia).
      rewrite IH; auto. intros; apply H; right; auto.
Qed.
Lemma sort_lex_sort_by l : StronglySorted (fun a b : Z * nat => snd a <= snd b) l ->
  sort_lex l = sort_by fst l.
Proof.
  induction 1 as [|x l Hs IH Hx]; simpl; auto.
  unfold sort_lex in *. rewrite IH. apply ins_lex_ins_sorted.
  intros y Hy. apply sort_by_In in Hy. rewrite Forall_forall in Hx. auto.
Qed.

Lemma combine_sorted_snd (ps : list Z) : forall a m,
  StronglySorted (fun x y : Z * nat => snd x <= snd y) (combine ps (seq a m)).
Proof.
  induction ps as [|p ps IH]; intros a m; simpl; [constructor|].
  destruct m as [|m]; simpl; constructor; auto.
  apply Forall_forall. intros [q c] Hin. apply in_combine_r in Hin. apply in_seq in Hin. simpl. lia.
Qed.

Theorem merge_part_spec n (npos : list Z) a m (part : list nat) :
  length part = n -> Forall (fun p => (0 <= p <= Z.of_nat n)%Z) npos ->
  merge_part_loop (sort_lex (combine npos (seq a m))) 0 part =
  chain_spec fst snd (combine (map Z.to_nat npos) (seq a m)) 0 part.
Proof.
  intros Hlen Hpos.
  rewrite sort_lex_sort_by by apply combine_sorted_snd.
  pose (tr := fun pc : Z * nat => (fst pc, 0%Z, snd pc)).
  assert (E : Ok (merge_part_loop (sort_by fst (combine npos (seq a m))) 0 part) =
              Ok (chain_spec fst snd (combine (map Z.to_nat npos) (seq a m)) 0 part)); [|congruence].
  rewrite <- merge_part_loop_insert_loop.
  change (fun pc : Z * nat => (fst pc, 0%Z, snd pc)) with tr.
  change (@fst Z nat) with (fun pc : Z * nat => ikey (tr pc)).
  rewrite <- (sort_by_map tr ikey).
  rewrite (order_loop_spec n); auto.
  - f_equal. rewrite chain_spec_view. f_equal. rewrite map_map.
    generalize (seq a m). clear. induction npos as [|p ps IH]; intros [|c cs]; simpl; auto. f_equal. apply IH.
  - intros b Hb. apply in_map_iff in Hb. destruct Hb as [[p c] [Hb Hin]]. subst b.
    apply in_combine_l in Hin. rewrite Forall_forall in Hpos. specialize (Hpos p Hin).
    unfold ikey, idiv, tr. simpl. split; auto.
Qed.

(* the order used before commit d3c7a1d (sort the raw positions, normalise inside the loop) violates the
   documented chain for mixed-sign position tuples: pos = (-1, 0) on a chain of two factors *)
Theorem merge_prefix_refuted :
  exists (n : nat) (pos : list Z) (letters part : list nat),
    length part = n /\ Forall (admissible n) pos /\
    merge_part_loop_old n (sort_lex (combine pos letters)) 0 part <>
    chain_spec fst snd (combine (map (npos n) pos) letters) 0 part.
Proof.
  exists 2, [-1; 0]%Z, [0; 1], [2; 3]. split; [reflexivity|]. split.
  - repeat constructor; unfold admissible; simpl; lia.
  - vm_compute. discriminate.
Qed.
(* ... while the current code gives the documented chain on the same input *)
Example merge_part_fixed_example :
  merge_part_loop (sort_lex (combine (map (fun p => snd (norm_pos 2 p)) [-1; 0]%Z) [0; 1])) 0 [2; 3] =
  chain_spec fst snd (combine (map (npos 2) [-1; 0]%Z) [0; 1]) 0 [2; 3].
Proof. reflexivity. Qed.
