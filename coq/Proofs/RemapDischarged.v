(* C06 with the helper hypothesis discharged: the transposition of operators / eigenvectors / propagators in the remap
   model (Model/Remap.v, tt2) IS what the C16 model of util.tensor_transpose (Model/Tensor.v at complex entries, tied to
   the source by Model/Tie/C16.v) returns, by Proofs/KronBridgeC.v (agent-c16).                        *)
From Coq Require Import String ZArith Reals List Lra Lia Arith Bool Permutation.
From FF Require Import Base.Ops Inst.RInst Base.RAlg Spec.Kron2 Spec.DigitPerm Spec.StrSort Model.Numeric Model.Remap
     Proofs.RemapIdx Proofs.RemapCov Proofs.Remap Proofs.RemapFinal.
From FF Require Import Model.Tensor Spec.Kron Proofs.KronBridgeC.
Import ListNotations.
Local Open Scope nat_scope.

(* M' = util.tensor_transpose(M, order, arr_dims=[[dq]*N]*2) *)
Definition is_transpose (dq N : nat) (ord : list nat) (M M' : Mat (T:=R)) : Prop :=
  exists Rr, tensor_transpose 2 (ofMat (dq ^ N) M) (map Z.of_nat ord) [repeat dq N; repeat dq N] = Ok Rr /\ M' = toMat (dq ^ N) Rr.

Lemma is_transpose_mrel dq N ord M M' : 0 < dq -> 1 <= N -> is_perm N ord ->
  is_transpose dq N ord M M' -> mrel (dq ^ N) (tt_src dq N ord) M M'.
Proof.
  intros H1 H2 H3 [Rr [E ->]]. destruct (tensor_transpose_mrel dq N M ord H1 H2 H3) as [R' [E' [_ K]]].
  rewrite E in E'. inversion E'; subst. exact K.
Qed.
Lemma Forall2_is_transpose_mrel dq N ord Ms Ms' : 0 < dq -> 1 <= N -> is_perm N ord ->
  Forall2 (is_transpose dq N ord) Ms Ms' -> Forall2 (mrel (dq ^ N) (tt_src dq N ord)) Ms Ms'.
Proof. intros H1 H2 H3. induction 1; constructor; auto. apply is_transpose_mrel; auto. Qed.

(* the model's transposition is the C16 model's tensor_transpose, entry by entry *)
Theorem tt2_is_c16_transpose dq N ord (M : Mat (T:=R)) : 0 < dq -> 1 <= N -> is_perm N ord ->
  exists Rr, tensor_transpose 2 (ofMat (dq ^ N) M) (map Z.of_nat ord) [repeat dq N; repeat dq N] = Ok Rr /\
             meq (dq ^ N) (tt2 0c dq N ord M) (toMat (dq ^ N) Rr).
Proof.
  intros H1 H2 H3. destruct (tensor_transpose_mrel dq N M ord H1 H2 H3) as [Rr [E [_ K]]].
  exists Rr. split; auto. intros i j Hi Hj. rewrite (K i j Hi Hj). apply (mrel_tt2 dq N ord M H1 H3 i j Hi Hj).
Qed.

(* remap: every operator of the remapped pulse is tensor_transpose (C16 model) of the corresponding original operator *)
Theorem remap_operators_discharged (p r : rpulse) order dq mapping :
  rremap p order dq mapping = Some r -> 0 < dq -> 1 <= ilog dq (p_d p) -> wf_pulse p ->
  let N := ilog dq (p_d p) in
  exists cidx nidx,
    is_perm (List.length (c_ids p)) cidx /\ is_perm (List.length (n_ids p)) nidx /\
    (forall a, a < List.length (c_ids p) -> exists Rr,
        tensor_transpose 2 (ofMat (dq ^ N) (nthm (c_opers p) (nth a cidx 0))) (map Z.of_nat order) [repeat dq N; repeat dq N] = Ok Rr /\
        meq (dq ^ N) (nthm (c_opers r) a) (toMat (dq ^ N) Rr)) /\
    (forall a, a < List.length (n_ids p) -> exists Rr,
        tensor_transpose 2 (ofMat (dq ^ N) (nthm (n_opers p) (nth a nidx 0))) (map Z.of_nat order) [repeat dq N; repeat dq N] = Ok Rr /\
        meq (dq ^ N) (nthm (n_opers r) a) (toMat (dq ^ N) Rr)).
Proof.
  intros Hr Hd HN Hwf N.
  destruct (remap_structure_final p r order dq mapping Hr Hd Hwf) as [Hp [_ [_ [_ [cidx [nidx [Pc [Pn [Rc [Rn _]]]]]]]]]].
  exists cidx, nidx. split; auto. split; auto. split.
  - intros a Ha. destruct Rc as [_ [_ Rc]].
    destruct (tensor_transpose_mrel dq N (nthm (c_opers p) (nth a cidx 0)) order Hd HN Hp) as [Rr [E [_ K]]].
    exists Rr. split; auto. intros i j Hi Hj. rewrite (K i j Hi Hj). apply (Rc a Ha i j Hi Hj).
  - intros a Ha. destruct Rn as [_ [_ Rn]].
    destruct (tensor_transpose_mrel dq N (nthm (n_opers p) (nth a nidx 0)) order Hd HN Hp) as [Rr [E [_ K]]].
    exists Rr. split; auto. intros i j Hi Hj. rewrite (K i j Hi Hj). apply (Rn a Ha i j Hi Hj).
Qed.

(* the Pauli basis hypothesis: util.tensor of the four 2x2 matrices selected by the digits of k is the Kronecker chain
   [kronl 2 ..] that [pauli_el] is built from (Basis.pauli divides it by sqrt(2^n); stack axis: one k at a time) *)
Theorem pauli_chain_discharged (sig : nat -> carr) N k : 1 <= N ->
  (forall a, wf 2 (sig a) /\ shp (sig a) = [2; 2]) ->
  exists Rr, tensor 2 (map sig (digits 4 N k)) = Ok Rr /\
             feq (2 ^ N) (cF Rr) (kronl 2 (map (fun a => cF (sig a)) (digits 4 N k))).
Proof.
  intros HN Hs.
  destruct (tensor_is_kronl 2 (map sig (digits 4 N k))) as [Rr [E F]].
  - intros E. apply (f_equal (@List.length _)) in E. rewrite map_length, digits_length in E. simpl in E. lia.
  - apply Forall_forall. intros x Hx. apply in_map_iff in Hx. destruct Hx as [a [<- _]]. apply Hs.
  - apply Forall_forall. intros x Hx. apply in_map_iff in Hx. destruct Hx as [a [<- _]]. apply Hs.
  - exists Rr. split; auto. rewrite map_length, digits_length, map_map in F. exact F.
Qed.
