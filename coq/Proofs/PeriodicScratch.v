(* C04, link to C03: the periodic control matrix equals the control matrix of the repeated pulse
   computed from scratch (Model/Atomic.v: piece_cm of cat_piece (repeat p G)), by
   periodic_eq_atomic (Proofs/Periodic.v) and the atomic rule of C03 (Proofs/Atomic.v).          *)
From Coq Require Import ZArith Reals Lra Lia List Morphisms Setoid.
From FF Require Import Base.Ops Inst.RInst Base.RAlg Model.Numeric Model.Propagator Model.Periodic Model.Atomic
                       Proofs.MatAlg Proofs.AtomicAlg Proofs.Atomic Proofs.Propagator Proofs.Periodic.
Import ListNotations.
Local Open Scope R_scope.

Lemma zipmul_length (a b : list Cx) : length a = length b -> length (zipmul RO a b) = length a.
Proof. revert b. induction a; intros [|y b] H; simpl in *; try lia. rewrite IHa; lia. Qed.
Lemma zipmul_nth (a b : list Cx) o : length a = length b -> (o < length a)%nat ->
  nth o (zipmul RO a b) 0c = cmul' (nth o a 0c) (nth o b 0c).
Proof. revert b o. induction a; intros [|y b] o H Ho; simpl in *; try lia.
  destruct o. reflexivity. apply IHa; lia. Qed.

(* cumulative product of G equal total phases: entry g is phase^g *)
Lemma phases_from_repeat G : forall acc om tau g o, length acc = length om -> (g < G)%nat -> (o < length om)%nat ->
  nth o (nth g (phases_from RO acc om (repeat tau G)) []) 0c =
  cmul' (nth o acc 0c) (cpow RO (nth o (total_phases RO om tau) 0c) g).
Proof.
  induction G; intros acc om tau g o HL Hg Ho. lia.
  destruct g.
  - simpl. ring.
  - change (nth (S g) (phases_from RO acc om (repeat tau (S G))) [])
      with (nth g (phases_from RO (zipmul RO acc (total_phases RO om tau)) om (repeat tau G)) []).
    assert (HT : length (total_phases RO om tau) = length om) by (unfold total_phases; apply map_length).
    rewrite IHG; try lia.
    + rewrite zipmul_nth by lia.
      change (cpow RO (nth o (total_phases RO om tau) 0c) (S g))
        with (cmul' (cpow RO (nth o (total_phases RO om tau) 0c) g) (nth o (total_phases RO om tau) 0c)).
      ring.
    + rewrite zipmul_length; lia.
Qed.

(* cumulative product of G equal Liouville propagators: entry g is L^g (times the start value) *)
Lemma Ls_from_repeat n G : forall acc Lp g, (g < G)%nat ->
  feq n (toFr (nth g (Ls_from RO n acc (repeat Lp G)) [])) (fmul n (fpow n (toFr Lp) g) (toFr acc)).
Proof.
  induction G; intros acc Lp g Hg. lia.
  destruct g.
  - simpl. symmetry. apply fmul_id_l.
  - change (nth (S g) (Ls_from RO n acc (repeat Lp (S G))) [])
      with (nth g (Ls_from RO n (rmmul RO n Lp acc) (repeat Lp G)) []).
    rewrite IHG by lia. rewrite (toFr_rmmul n Lp acc). simpl fpow. apply fmul_assoc.
Qed.

Lemma toFr_rget_eq n A B j k : (j < n)%nat -> (k < n)%nat -> feq n (toFr A) (toFr B) -> rget RO A j k = rget RO B j k.
Proof. intros Hj Hk H. specialize (H j k Hj Hk). unfold toFr in H. apply (f_equal fst) in H. exact H. Qed.

Lemma map_repeat' {A B} (f : A -> B) x G : map f (repeat x G) = repeat (f x) G.
Proof. induction G; simpl; congruence. Qed.

Section Link.
Variable d : nat.

(* what concatenate hands to calculate_control_matrix_from_atomic for G copies of one pulse is the
   data of [atomic_repeated] *)
Theorem concat_atomic_repeat thr om bs ns (p : piece (T:=R)) G a k o :
  (a < length ns)%nat -> (k < length bs)%nat -> (o < length om)%nat ->
  a3get RO (concat_atomic RO d thr om bs ns (repeat p G)) a k o =
  a3get RO (atomic_repeated RO (length bs) (length ns) (length om) G
              (total_phases RO om (piece_tau RO p)) (piece_cm RO d thr om bs ns p)
              (liouville RO d (piece_total RO d p) bs)) a k o.
Proof.
  intros Ha Hk Ho. unfold concat_atomic, atomic_repeated, cm_from_atomic.
  rewrite !a3get_a3build by assumption.
  rewrite map_length, !repeat_length. apply csumn_ext. intros g Hg.
  unfold concat_phases, concat_Ls, atomic_phases, atomic_Ls. rewrite !map_repeat'.
  rewrite phases_from_repeat; try assumption. 2:{ rewrite map_length. reflexivity. }
  rewrite !nth_build by assumption. rewrite !nth_repeat' by assumption.
  assert (HT : length (total_phases RO om (piece_tau RO p)) = length om) by (unfold total_phases; apply map_length).
  rewrite (nth_indep (map (fun z => cpow RO z g) _) 0c (cpow RO 0c g)) by (rewrite map_length; lia).
  rewrite (map_nth (fun z => cpow RO z g)).
  rewrite (nth_indep (map (fun _ => 1c) om) 0c ((fun _ : R => 1c) 0)) by (rewrite map_length; lia).
  rewrite (map_nth (fun _ : R => 1c) om 0).
  replace (cmul' 1c (cpow RO (nth o (total_phases RO om (piece_tau RO p)) 0c) g))
    with (cpow RO (nth o (total_phases RO om (piece_tau RO p)) 0c) g) by ring.
  f_equal. apply csumn_ext. intros j Hj. f_equal.
  apply (toFr_rget_eq (length bs)); try assumption.
  change (rident RO (length bs)) with (rmid RO (length bs)).
  rewrite (Ls_from_repeat (length bs) G) by assumption.
  rewrite toFr_rmid, fmul_id_r, toFr_rmpow_l. reflexivity.
Qed.

Lemma Forall_repeat {A} (P : A -> Prop) x G : P x -> Forall P (repeat x G).
Proof. intros H. induction G; simpl; constructor; auto. Qed.

(* HEADLINE: the control matrix returned by calculate_control_matrix_periodic (model, either branch, under the
   explicit oracle hypotheses) is the control matrix of the G-fold repeated pulse computed from scratch *)
Theorem periodic_eq_scratch thr om bs ns (p : piece (T:=R)) G inv Ss a k o :
  (forall l, (l < length bs)%nat -> fherm d (Cf bs l)) ->
  (forall X : fmat, feq d X (flin (length bs) (fun l => ftr d (fmul d (Cf bs l) X)) (Cf bs))) ->
  wf_piece ns p ->
  (1 <= G)%nat -> (a < length ns)%nat -> (k < length bs)%nat -> (o < length om)%nat ->
  let n := length bs in
  let ph := total_phases RO om (piece_tau RO p) in
  let L := liouville RO d (piece_total RO d p) bs in
  (nth o inv false = false \/
   (feq n (toF (solve_residual RO n (T_of RO n (nth o ph 0c) L) (nth o Ss []) G)) fzero /\
    fleft_cancel n (fsub fid (toF (T_of RO n (nth o ph 0c) L))))) ->
  a3get RO (cm_periodic RO n (length ns) (length om) G ph (piece_cm RO d thr om bs ns p) L inv Ss) a k o =
  a3get RO (piece_cm RO d thr om bs ns (cat_piece (length ns) (repeat p G))) a k o.
Proof.
  intros Hh Hc Hw HG Ha Hk Ho n ph L Hbr.
  rewrite (atomic_rule d thr om bs ns Hh Hc (repeat p G) a k o (Forall_repeat _ _ _ Hw) Ha Hk Ho).
  rewrite concat_atomic_repeat by assumption.
  apply cm_periodic_correct; try assumption.
  unfold ph, total_phases. apply map_length.
Qed.

End Link.

(* qubit pulses in the Pauli basis: no hypothesis on the basis left *)
Theorem periodic_eq_scratch_pauli thr om ns (p : piece (T:=R)) G inv Ss a k o :
  wf_piece ns p -> (1 <= G)%nat -> (a < length ns)%nat -> (k < 4)%nat -> (o < length om)%nat ->
  let ph := total_phases RO om (piece_tau RO p) in
  let L := liouville RO 2 (piece_total RO 2 p) pauli_basis in
  (nth o inv false = false \/
   (feq 4 (toF (solve_residual RO 4 (T_of RO 4 (nth o ph 0c) L) (nth o Ss []) G)) fzero /\
    fleft_cancel 4 (fsub fid (toF (T_of RO 4 (nth o ph 0c) L))))) ->
  a3get RO (cm_periodic RO 4 (length ns) (length om) G ph (piece_cm RO 2 thr om pauli_basis ns p) L inv Ss) a k o =
  a3get RO (piece_cm RO 2 thr om pauli_basis ns (cat_piece (length ns) (repeat p G))) a k o.
Proof.
  intros Hw HG Ha Hk Ho ph L Hbr.
  apply (periodic_eq_scratch 2 thr om pauli_basis ns p G inv Ss a k o); auto.
  - apply (pauli_s_herm (/ sqrt 2)).
  - apply (pauli_s_complete (/ sqrt 2)). apply inv_sqrt2_sq.
Qed.

