(* Pulse-correlation quantities: the per-pulse control matrices sum to the total one, and the
   pulse-correlation filter functions sum over both pulse indices to the filter function (both kinds);
   ordered product of the total propagators; regrouping the list of pulses.                        *)
From Coq Require Import ZArith Reals List Lra Lia Setoid Morphisms.
From FF Require Import Base.Ops Inst.RInst Base.RAlg Model.Numeric Model.Atomic Proofs.AtomicAlg Proofs.Atomic.
Import ListNotations.
Local Open Scope R_scope.

Section PC.
Variables na nk no : nat.

(* which = 'correlations' summed over the pulses is which = 'total' *)
Lemma cm_pc_total_is_total phases cms Ls a k o : (a < na)%nat -> (k < nk)%nat -> (o < no)%nat ->
  a3get RO (cm_pc_total RO na nk no (cm_from_atomic_pc RO na nk no phases cms Ls)) a k o =
  a3get RO (cm_from_atomic RO na nk no phases cms Ls) a k o.
Proof.
  intros Ha Hk Ho. unfold cm_pc_total, cm_from_atomic, cm_from_atomic_pc.
  rewrite !a3get_a3build by assumption. rewrite build_length.
  apply csumn_ext. intros g Hg. rewrite nth_build by assumption. rewrite a3get_a3build by assumption. reflexivity.
Qed.

Lemma pc_ff_get Bpc g h a b o : (g < length Bpc)%nat -> (h < length Bpc)%nat -> (a < na)%nat -> (b < na)%nat -> (o < no)%nat ->
  a3get RO (nth h (nth g (pc_filter_function RO na nk no Bpc) []) []) a b o = pc_ff_entry RO nk Bpc g h a b o.
Proof.
  intros. unfold pc_filter_function. rewrite nth_build by assumption. rewrite nth_build by assumption.
  rewrite a3get_a3build by assumption. reflexivity.
Qed.

(* sum_{g,h} conj(x_g) y_h = conj(sum_g x_g) (sum_h y_h) *)
Lemma double_sum_conj n (x y : nat -> Cx) :
  csumn' n (fun g => csumn' n (fun h => cmul' (cconj' (x g)) (y h))) = cmul' (cconj' (csumn' n x)) (csumn' n y).
Proof.
  rewrite csumn_conj. rewrite <- csumn_mul_r. apply csumn_ext. intros g _. rewrite <- csumn_mul_l. reflexivity.
Qed.

(* fidelity: sum_{g g'} F^{(g g')}_{ab}(w) = F_{ab}(w) of the summed control matrix *)
Theorem pc_sum_fidelity Bpc a b o : (a < na)%nat -> (b < na)%nat -> (o < no)%nat ->
  a3get RO (pc_ff_sum RO na no (pc_filter_function RO na nk no Bpc)) a b o =
  a3get RO (filter_function RO na nk no (cm_pc_total RO na nk no Bpc)) a b o.
Proof.
  intros Ha Hb Ho. unfold pc_ff_sum, filter_function.
  rewrite !a3get_a3build by assumption.
  assert (Hn : length (pc_filter_function RO na nk no Bpc) = length Bpc) by (unfold pc_filter_function; apply build_length).
  rewrite Hn.
  rewrite (csumn_ext (length Bpc) _ (fun g => csumn' (length Bpc) (fun h => csumn' nk (fun k =>
     cmul' (cconj' (a3get RO (nth g Bpc []) a k o)) (a3get RO (nth h Bpc []) b k o))))).
  2:{ intros g Hg. apply csumn_ext. intros h Hh. rewrite pc_ff_get by assumption. reflexivity. }
  rewrite (csumn_ext nk (fun k => cmul' (cconj' (a3get RO (cm_pc_total RO na nk no Bpc) a k o)) (a3get RO (cm_pc_total RO na nk no Bpc) b k o))
            (fun k => csumn' (length Bpc) (fun g => csumn' (length Bpc) (fun h =>
               cmul' (cconj' (a3get RO (nth g Bpc []) a k o)) (a3get RO (nth h Bpc []) b k o))))).
  2:{ intros k Hk. unfold cm_pc_total. rewrite !a3get_a3build by assumption. symmetry. apply double_sum_conj. }
  (* reorder g, h, k -> k, g, h *)
  rewrite (csumn_ext (length Bpc) _ (fun g => csumn' nk (fun k => csumn' (length Bpc) (fun h =>
     cmul' (cconj' (a3get RO (nth g Bpc []) a k o)) (a3get RO (nth h Bpc []) b k o))))).
  2:{ intros g _. apply csumn_swap. }
  apply csumn_swap.
Qed.

(* generalized: sum_{g g'} F^{(g g')}_{ab,kl}(w) = conj(B_ak) B_bl of the summed control matrix *)
Theorem pc_sum_generalized Bpc a b k l o : (a < na)%nat -> (b < na)%nat -> (k < nk)%nat -> (l < nk)%nat -> (o < no)%nat ->
  csumn' (length Bpc) (fun g => csumn' (length Bpc) (fun h => pc_ff_gen_entry RO Bpc g h a b k l o)) =
  ff_gen_entry RO (cm_pc_total RO na nk no Bpc) a b k l o.
Proof.
  intros Ha Hb Hk Hl Ho. unfold pc_ff_gen_entry, ff_gen_entry, cm_pc_total.
  rewrite !a3get_a3build by assumption. apply double_sum_conj.
Qed.
(* the model's generalized pulse-correlation array has these entries *)
Lemma pc_ff_gen_get Bpc g h a b k l o : (g < length Bpc)%nat -> (h < length Bpc)%nat -> (a < na)%nat -> (b < na)%nat ->
  (k < nk)%nat -> (l < nk)%nat -> (o < no)%nat ->
  a3get RO (nth b (nth a (nth h (nth g (pc_filter_function_gen RO na nk no Bpc) []) []) []) []) k l o =
  pc_ff_gen_entry RO Bpc g h a b k l o.
Proof.
  intros. unfold pc_filter_function_gen. rewrite !nth_build by assumption. rewrite a3get_a3build by assumption. reflexivity.
Qed.
End PC.

(* for the data of concatenate: the correlations path sums to the total path, hence (atomic rule) to the
   from-scratch control matrix of the sequenced pulse *)
Theorem concat_pc_total d thr om bs ns ps a k o : (a < length ns)%nat -> (k < length bs)%nat -> (o < length om)%nat ->
  a3get RO (cm_pc_total RO (length ns) (length bs) (length om) (concat_atomic_pc RO d thr om bs ns ps)) a k o =
  a3get RO (concat_atomic RO d thr om bs ns ps) a k o.
Proof. intros. unfold concat_atomic_pc, concat_atomic. apply cm_pc_total_is_total; assumption. Qed.

(* ================= total propagator: ordered product ================= *)
Section Total.
Variable d : nat.

(* X1 X2 ... Xm *)
Fixpoint lprod (l : list (Mat (T:=R))) : fmat :=
  match l with [] => fid | X :: r => fmul d (toF X) (lprod r) end.
Lemma lprod_app l1 l2 : feq d (lprod (l1 ++ l2)) (fmul d (lprod l1) (lprod l2)).
Proof.
  induction l1 as [|X l1 IH]; simpl.
  - rewrite fmul_id_l. reflexivity.
  - rewrite IH. apply fmul_assoc.
Qed.
Lemma fold_left_mmul : forall l A, feq d (toF (fold_left (fun acc X => mmul RO d acc X) l A)) (fmul d (toF A) (lprod l)).
Proof.
  induction l as [|X l IH]; intros A; simpl.
  - rewrite fmul_id_r. reflexivity.
  - rewrite IH. rewrite toF_mmul. symmetry. apply fmul_assoc.
Qed.
(* util.mdot([P_1, .., P_n][::-1]) = P_n ... P_1 *)
Lemma mdot_rev_lprod Ps : feq d (toF (mdot_rev RO d Ps)) (lprod (rev Ps)).
Proof.
  unfold mdot_rev. destruct (rev Ps) as [|P r]; simpl.
  - apply toF_mid.
  - apply fold_left_mmul.
Qed.

Lemma cum_last_app : forall e1 V1 d1 e2 V2 d2 Q, length V1 = length e1 -> length d1 = length e1 ->
  cum_last d (e1 ++ e2) (V1 ++ V2) (d1 ++ d2) Q = cum_last d e2 V2 d2 (cum_last d e1 V1 d1 Q).
Proof.
  induction e1 as [|ev e1 IH]; intros V1 d1 e2 V2 d2 Q HV Hd.
  - destruct V1; [|discriminate]. destruct d1; [|discriminate]. reflexivity.
  - destruct V1; [discriminate|]. destruct d1; [discriminate|]. simpl in *. apply IH; lia.
Qed.

Definition wf_spec (p : piece (T:=R)) : Prop :=
  length (pc_Vs p) = length (pc_evs p) /\ length (pc_dts p) = length (pc_evs p).

Lemma cat_cum_last na : forall ps Q, Forall wf_spec ps ->
  feq d (toF (cum_last d (pc_evs (cat_piece na ps)) (pc_Vs (cat_piece na ps)) (pc_dts (cat_piece na ps)) Q))
        (fmul d (lprod (rev (map (piece_total RO d) ps))) (toF Q)).
Proof.
  induction ps as [|p ps IH]; intros Q H.
  - simpl. rewrite fmul_id_l. reflexivity.
  - inversion H as [|? ? [HV Hd] Hps]; subst.
    cbn [cat_piece pc_evs pc_Vs pc_dts map concat rev] in *.
    rewrite cum_last_app by assumption.
    rewrite IH by assumption.
    rewrite lprod_app. simpl. rewrite fmul_id_r. rewrite <- fmul_assoc.
    apply fmul_ext; [reflexivity|].
    rewrite piece_total_eq.
    apply (cum_last_rel d (toF Q)). unfold Rel. rewrite toF_mid. rewrite fmul_id_l. reflexivity.
Qed.

(* the total propagator of the sequenced pulse is the ordered product P_n ... P_1 that concatenate caches *)
Theorem total_propagator_concat na ps : Forall wf_spec ps ->
  feq d (toF (piece_total RO d (cat_piece na ps))) (toF (mdot_rev RO d (map (piece_total RO d) ps))).
Proof.
  intros H. rewrite piece_total_eq. rewrite cat_cum_last by assumption.
  rewrite toF_mid. rewrite fmul_id_r. symmetry. apply mdot_rev_lprod.
Qed.
End Total.

(* ================= regrouping the list of pulses ================= *)
Section Assoc.
Variable ns : list (Mat (T:=R)).
Let na := length ns.

Lemma zipapp_nil_l {X} : forall n (A : list (list X)), length A = n -> zipapp (repeat [] n) A = A.
Proof. induction n; intros A H; destruct A; simpl in *; try discriminate; auto. f_equal. apply IHn. lia. Qed.
Lemma zipapp_assoc {X} : forall (A B C : list (list X)), zipapp A (zipapp B C) = zipapp (zipapp A B) C.
Proof.
  induction A; intros B C; destruct B, C; simpl; auto. rewrite app_assoc. f_equal. apply IHA.
Qed.
Lemma cat_nc_app ps1 ps2 : Forall (wf_piece ns) ps2 ->
  cat_nc na (ps1 ++ ps2) = zipapp (cat_nc na ps1) (cat_nc na ps2).
Proof.
  intros H2. induction ps1 as [|p ps1 IH]; simpl.
  - symmetry. apply zipapp_nil_l. apply cat_nc_length; assumption.
  - rewrite IH. apply zipapp_assoc.
Qed.
Lemma Forall_zipapp {X} (P Q R0 : list X -> Prop) : (forall x y, P x -> Q y -> R0 (x ++ y)) ->
  forall A B, Forall P A -> Forall Q B -> Forall R0 (zipapp A B).
Proof.
  intros H A. induction A; intros B HA HB; destruct B; simpl; auto.
  inversion HA; inversion HB; subst. constructor; auto.
Qed.
Lemma cat_rows ps : Forall (wf_piece ns) ps ->
  Forall (fun row => length row = length (concat (map (@pc_evs R) ps))) (cat_nc na ps).
Proof.
  induction ps as [|p ps IH]; intros H; simpl.
  - clear. induction na; simpl; constructor; auto.
  - inversion H as [|? ? Hp Hps]; subst. destruct Hp as (_ & _ & _ & Hrows).
    apply (Forall_zipapp (fun row => length row = length (pc_evs p))
                         (fun row => length row = length (concat (map (@pc_evs R) ps)))); auto.
    intros x y Hx Hy. rewrite !app_length. lia.
Qed.
Lemma wf_cat ps : Forall (wf_piece ns) ps -> wf_piece ns (cat_piece na ps).
Proof.
  intros H. unfold wf_piece. cbn [cat_piece pc_evs pc_Vs pc_dts pc_nc].
  repeat split.
  - induction H as [|p ps Hp Hps IH]; simpl; auto. rewrite !app_length. destruct Hp as (HV & _). lia.
  - induction H as [|p ps Hp Hps IH]; simpl; auto. rewrite !app_length. destruct Hp as (_ & Hd & _). lia.
  - apply cat_nc_length; assumption.
  - apply cat_rows; assumption.
Qed.
Lemma cat_piece_regroup ps1 ps2 ps3 : Forall (wf_piece ns) ps2 -> Forall (wf_piece ns) ps3 ->
  cat_piece na (ps1 ++ cat_piece na ps2 :: ps3) = cat_piece na (ps1 ++ ps2 ++ ps3).
Proof.
  intros H2 H3. unfold cat_piece. f_equal.
  - rewrite !map_app, !concat_app. simpl. rewrite ?map_app, ?concat_app. reflexivity.
  - rewrite !map_app, !concat_app. simpl. rewrite ?map_app, ?concat_app. reflexivity.
  - rewrite !map_app, !concat_app. simpl. rewrite ?map_app, ?concat_app. reflexivity.
  - rewrite cat_nc_app. 2:{ constructor; auto. apply wf_cat; assumption. }
    rewrite cat_nc_app. 2:{ apply Forall_app; split; assumption. }
    f_equal. simpl. rewrite cat_nc_app by assumption. reflexivity.
Qed.

(* concatenating a sub-list first (associativity, the @ operator, slicing a pulse and re-concatenating the
   pieces) gives the same control matrix: both equal the from-scratch control matrix of the sequenced pulse *)
Theorem concat_assoc_cm d thr om bs ps1 ps2 ps3 a k o :
  (forall l, (l < length bs)%nat -> fherm d (Cf bs l)) ->
  (forall X : fmat, feq d X (flin (length bs) (fun l => ftr d (fmul d (Cf bs l) X)) (Cf bs))) ->
  Forall (wf_piece ns) ps1 -> Forall (wf_piece ns) ps2 -> Forall (wf_piece ns) ps3 ->
  (a < na)%nat -> (k < length bs)%nat -> (o < length om)%nat ->
  a3get RO (concat_atomic RO d thr om bs ns (ps1 ++ cat_piece na ps2 :: ps3)) a k o =
  a3get RO (concat_atomic RO d thr om bs ns (ps1 ++ ps2 ++ ps3)) a k o.
Proof.
  intros Hh Hc H1 H2 H3 Ha Hk Ho.
  rewrite <- (atomic_rule d thr om bs ns Hh Hc) by
    (auto; apply Forall_app; split; auto; constructor; auto; apply wf_cat; assumption).
  rewrite <- (atomic_rule d thr om bs ns Hh Hc) by
    (auto; apply Forall_app; split; auto; apply Forall_app; split; assumption).
  fold na. rewrite cat_piece_regroup by assumption. reflexivity.
Qed.
End Assoc.
