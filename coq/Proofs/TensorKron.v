(* C16 -- numeric level: the einsum / reshape pipeline of util.tensor computes the Kronecker product of
   Spec/Kron.v, and the binary-tree reduction equals the left-to-right Kronecker chain. *)
From Coq Require Import ZArith List Arith Lia Bool Permutation.
From FF Require Import Model.Tensor Spec.Kron Proofs.TensorIdx Proofs.TensorOrder.
Import ListNotations.

Section Generic.
Context {T : Type} {EN : Entry T} {EL : EntryLaws T}.
Local Notation arr := (garr T).

(* ------------------------------------------------------------------ einsum without ellipsis and summation *)
Lemma letter_dim_notin ls : forall ds l acc, ~ In l ls -> letter_dim ls ds l acc = Ok acc.
Proof.
  induction ls as [|x ls IH]; intros [|d ds] l acc H; simpl; auto.
  destruct (Nat.eqb_spec l x) as [E|E]; [exfalso; apply H; left; auto|].
  apply IH. intros Hin. apply H. right. auto.
Qed.
Lemma letter_dim_in ls : forall ds l, NoDup ls -> length ls = length ds -> In l ls ->
  letter_dim ls ds l None = Ok (Some (lookup ls ds l)).
Proof.
  induction ls as [|x ls IH]; intros [|d ds] l Hnd Hlen Hin; simpl in *; try contradiction; try discriminate.
  inversion Hnd as [|? ? Hx Hnd']; subst.
  destruct (Nat.eqb_spec l x) as [E|E].
  - subst. apply letter_dim_notin. auto.
  - apply IH; auto. destruct Hin; [congruence|auto].
Qed.
Lemma letter_dims_ok ls ds want : NoDup ls -> length ls = length ds -> incl want ls ->
  letter_dims ls ds want = Ok (map (lookup ls ds) want).
Proof.
  intros Hnd Hlen. induction want as [|l w IH]; intros Hincl; simpl; auto.
  rewrite letter_dim_in; auto; [|apply Hincl; left; auto]. simpl.
  rewrite IH; auto. intros x Hx. apply Hincl. right. auto.
Qed.
Lemma nodup_nat_In x l : In x (nodup_nat l) -> In x l.
Proof.
  induction l as [|a l IH]; simpl; auto.
  destruct (existsb (Nat.eqb a) l); simpl; intros H; auto. destruct H; auto.
Qed.

Lemma tabulate_ext s (f g : list nat -> T) : (forall a, inb a s -> f a = g a) -> tabulate s f = tabulate s g.
Proof.
  intros H. unfold tabulate. f_equal. apply map_ext_in. intros a Ha. apply H. apply In_indices. auto.
Qed.

Lemma einsum2_nosum la lb lo A B :
  length (shp A) = length la -> length (shp B) = length lb ->
  NoDup (la ++ lb) -> incl lo (la ++ lb) -> incl (la ++ lb) lo ->
  einsum2 la lb lo A B =
  Ok (tabulate (map (lookup (la ++ lb) (shp A ++ shp B)) lo)
        (fun oi => emul (aget A (gather lo oi la (shp A))) (aget B (gather lo oi lb (shp B))))).
Proof.
  intros HA HB Hnd Hi1 Hi2. unfold einsum2.
  rewrite HA, HB, !Nat.ltb_irrefl. cbn [orb]. rewrite !Nat.sub_diag. cbn [firstn].
  change (bcast [] []) with (Ok (@nil nat)). cbn [bind length seq skipn app Nat.sub].
  rewrite letter_dims_ok; auto; [|rewrite !app_length; lia]. cbn [bind].
  rewrite (filter_none _ (nodup_nat (la ++ lb))).
  2:{ intros x Hx. apply nodup_nat_In in Hx. apply Hi2 in Hx.
      apply negb_false_iff. apply existsb_exists. exists x. split; auto. apply Nat.eqb_refl. }
  cbn [letter_dims bind]. f_equal. apply tabulate_ext. intros oi _.
  cbn [indices map zsum fold_right]. rewrite !app_nil_r. apply eadd_0_r.
Qed.

(* ------------------------------------------------------------------ the letters of util.tensor *)
Fixpoint evens (l : list nat) : list nat := match l with x :: _ :: t => x :: evens t | _ => [] end.
Fixpoint odds (l : list nat) : list nat := match l with _ :: y :: t => y :: odds t | _ => [] end.

Lemma evens_interleave a : forall b, length a = length b -> evens (interleave a b) = a.
Proof. induction a as [|x a IH]; intros [|y b] H; simpl in *; try discriminate; auto. rewrite IH; auto. Qed.
Lemma odds_interleave a : forall b, length a = length b -> odds (interleave a b) = b.
Proof. induction a as [|x a IH]; intros [|y b] H; simpl in *; try discriminate; auto. rewrite IH; auto. Qed.

Lemma gather_skip x v ls vs opl : forall ops, ~ In x opl ->
  gather (x :: ls) (v :: vs) opl ops = gather ls vs opl ops.
Proof.
  induction opl as [|l opl IH]; intros [|d ops] H; simpl; auto.
  destruct (Nat.eqb_spec l x) as [E|E]; [exfalso; apply H; left; auto|].
  rewrite IH; auto. intros Hin; apply H; right; auto.
Qed.

Lemma gather_interleave_l la : forall lb ia ib sA,
  NoDup (la ++ lb) -> length la = length lb -> length ia = length la -> length ib = length la ->
  inb ia sA ->
  gather (interleave la lb) (interleave ia ib) la sA = ia.
Proof.
  induction la as [|x la IH]; intros [|y lb] [|i ia] [|j ib] sA Hnd H1 H2 H3 Hin; simpl in *; try discriminate.
  - inversion Hin; auto.
  - inversion Hin as [|? d ? sA' Hid Hin']; subst. simpl. rewrite Nat.eqb_refl.
    inversion Hnd as [|? ? Hx Hnd']; subst.
    assert (Hy : ~ In y la) by (intros Hc; apply NoDup_remove_2 in Hnd'; apply Hnd'; apply in_or_app; auto).
    assert (Hx' : ~ In x la) by (intros Hc; apply Hx; apply in_or_app; auto).
    rewrite !gather_skip by auto.
    rewrite IH; auto; try lia.
    + f_equal. destruct (Nat.eqb_spec d 1); lia.
    + apply NoDup_remove_1 in Hnd'. auto.
Qed.
Lemma gather_interleave_r la : forall lb ia ib sB,
  NoDup (la ++ lb) -> length la = length lb -> length ia = length la -> length ib = length la ->
  inb ib sB ->
  gather (interleave la lb) (interleave ia ib) lb sB = ib.
Proof.
  induction la as [|x la IH]; intros [|y lb] [|i ia] [|j ib] sB Hnd H1 H2 H3 Hin; simpl in *; try discriminate.
  - inversion Hin; auto.
  - inversion Hin as [|? d ? sB' Hjd Hin']; subst. simpl.
    inversion Hnd as [|? ? Hx Hnd']; subst.
    assert (Hyx : y <> x) by (intros ->; apply Hx; apply in_or_app; right; left; auto).
    destruct (Nat.eqb_spec y x) as [E|_]; [contradiction|]. rewrite Nat.eqb_refl.
    assert (Hy : ~ In y lb) by (intros Hc; apply NoDup_remove_2 in Hnd'; apply Hnd'; apply in_or_app; auto).
    assert (Hx' : ~ In x lb) by (intros Hc; apply Hx; apply in_or_app; right; right; auto).
    rewrite !gather_skip by auto.
    rewrite IH; auto; try lia.
    + f_equal. destruct (Nat.eqb_spec d 1); lia.
    + apply NoDup_remove_1 in Hnd'. auto.
Qed.

Lemma lookup_app_l la : forall lb sA sB l, In l la -> length la = length sA ->
  lookup (la ++ lb) (sA ++ sB) l = lookup la sA l.
Proof.
  induction la as [|x la IH]; intros lb [|a sA] sB l Hin Hlen; simpl in *; try contradiction; try discriminate.
  destruct (Nat.eqb_spec l x) as [E|E]; auto.
  apply IH; [destruct Hin; congruence|lia].
Qed.
Lemma lookup_app_r la : forall lb sA sB l, ~ In l la -> length la = length sA ->
  lookup (la ++ lb) (sA ++ sB) l = lookup lb sB l.
Proof.
  induction la as [|x la IH]; intros lb [|a sA] sB l Hin Hlen; simpl in *; try discriminate; auto.
  destruct (Nat.eqb_spec l x) as [E|E]; [exfalso; apply Hin; left; auto|].
  apply IH; [intros Hc; apply Hin; right; auto|lia].
Qed.
Lemma map_lookup_self la : forall sA, NoDup la -> length la = length sA -> map (lookup la sA) la = sA.
Proof.
  induction la as [|x la IH]; intros [|a sA] Hnd Hlen; simpl in *; try discriminate; auto.
  inversion Hnd as [|? ? Hx Hnd']; subst. rewrite Nat.eqb_refl. f_equal.
  transitivity (map (lookup la sA) la); [|apply IH; auto; lia].
  apply map_ext_in. intros l Hl.
  destruct (Nat.eqb_spec l x) as [E|E]; [subst; contradiction|reflexivity].
Qed.
Lemma map_interleave_nat (f : nat -> nat) la : forall lb,
  map f (interleave la lb) = interleave (map f la) (map f lb).
Proof. induction la as [|x la IH]; intros [|y lb]; simpl; auto. rewrite IH. reflexivity. Qed.

Lemma NoDup_app_l {A} (a b : list A) : NoDup (a ++ b) -> NoDup a.
Proof.
  induction a as [|x a IH]; simpl; intros H; [constructor|].
  inversion H as [|? ? Hx H']; subst. constructor; auto. intros Hc. apply Hx. apply in_or_app. auto.
Qed.
Lemma NoDup_app_r {A} (a b : list A) : NoDup (a ++ b) -> NoDup b.
Proof. induction a as [|x a IH]; simpl; intros H; auto. inversion H; auto. Qed.
Lemma NoDup_app_disj {A} (a b : list A) x : NoDup (a ++ b) -> In x a -> ~ In x b.
Proof.
  induction a as [|y a IH]; simpl; intros H Hin; [contradiction|].
  inversion H as [|? ? Hy H']; subst. destruct Hin as [->|Hin]; auto.
  intros Hc. apply Hy. apply in_or_app. auto.
Qed.

Lemma lookup_interleave_dims la lb sA sB :
  NoDup (la ++ lb) -> length la = length lb -> length sA = length la -> length sB = length la ->
  map (lookup (la ++ lb) (sA ++ sB)) (interleave la lb) = interleave sA sB.
Proof.
  intros Hnd H1 H2 H3. rewrite map_interleave_nat. f_equal.
  - transitivity (map (lookup la sA) la); [|apply map_lookup_self; [eapply NoDup_app_l; eauto|lia]].
    apply map_ext_in. intros l Hl. apply lookup_app_l; auto.
  - transitivity (map (lookup lb sB) lb); [|apply map_lookup_self; [eapply NoDup_app_r; eauto|lia]].
    apply map_ext_in. intros l Hl. apply lookup_app_r; [|lia].
    intros Hc. eapply NoDup_app_disj; eauto.
Qed.

(* ------------------------------------------------------------------ merging the axis pairs (reshape) *)
Lemma map_flat_map {A B C} (f : B -> C) (g : A -> list B) l :
  map f (flat_map g l) = flat_map (fun x => map f (g x)) l.
Proof. induction l as [|a l IH]; simpl; auto. rewrite map_app, IH. reflexivity. Qed.
Lemma flat_map_flat_map {A B C} (f : B -> list C) (g : A -> list B) l :
  flat_map f (flat_map g l) = flat_map (fun x => flat_map f (g x)) l.
Proof. induction l as [|a l IH]; simpl; auto. rewrite flat_map_app, IH. reflexivity. Qed.

Lemma flat_map_map' {A B C} (f : B -> list C) (g : A -> B) l :
  flat_map f (map g l) = flat_map (fun x => f (g x)) l.
Proof. induction l as [|a l IH]; simpl; auto. rewrite IH. reflexivity. Qed.

Lemma seq_pairs a b :
  seq 0 (a * b) = flat_map (fun i => map (fun j => i * b + j) (seq 0 b)) (seq 0 a).
Proof.
  rewrite <- flat_map_seq_blocks. apply flat_map_ext. intros i.
  rewrite map_add_seq. f_equal. lia.
Qed.

Lemma indices_pairs sA : forall sB (h : list nat -> list nat -> T), length sA = length sB ->
  map (fun oi => h (evens oi) (odds oi)) (indices (interleave sA sB)) =
  map (fun idx => h (map2 Nat.div idx sB) (map2 Nat.modulo idx sB)) (indices (map2 Nat.mul sA sB)).
Proof.
  induction sA as [|a sA IH]; intros [|b sB] h Hlen; simpl in Hlen; try discriminate; [reflexivity|].
  cbn [interleave map2 indices].
  rewrite seq_pairs.
  rewrite !map_flat_map, flat_map_flat_map.
  apply flat_map_ext_in. intros i Hi.
  rewrite map_map, map_flat_map, flat_map_map'.
  apply flat_map_ext_in. intros j Hj. apply in_seq in Hj.
  rewrite !map_map. cbn [evens odds map2].
  rewrite (IH sB (fun e o => h (i :: e) (j :: o))) by lia.
  apply map_ext. intros idx.
  assert (Hb : b <> 0) by lia.
  rewrite Nat.div_add_l, Nat.div_small, Nat.add_0_r by lia.
  rewrite Nat.add_comm, Nat.mod_add, Nat.mod_small by lia.
  reflexivity.
Qed.

(* ------------------------------------------------------------------ binary_tensor = Kronecker product *)
Lemma map2_snoc {A B C} (f : A -> B -> C) a : forall b x y, length a = length b ->
  map2 f (a ++ [x]) (b ++ [y]) = map2 f a b ++ [f x y].
Proof. induction a as [|u a IH]; intros [|v b] x y H; simpl in *; try discriminate; auto. rewrite IH; auto. Qed.
Lemma map2_rev {A B C} (f : A -> B -> C) a : forall b, length a = length b ->
  rev (map2 f (rev a) (rev b)) = map2 f a b.
Proof.
  induction a as [|u a IH]; intros [|v b] H; simpl in *; try discriminate; auto.
  rewrite map2_snoc by (rewrite !rev_length; lia). rewrite rev_app_distr. simpl. rewrite IH; auto.
Qed.
Lemma zipmul_map2 a : forall b, length a = length b -> zipmul a b = map2 Nat.mul a b.
Proof. induction a as [|u a IH]; intros [|v b] H; simpl in *; try discriminate; auto. rewrite IH; auto. Qed.
Lemma map2_length {A B C} (f : A -> B -> C) a : forall b, length a = length b -> length (map2 f a b) = length a.
Proof. induction a as [|u a IH]; intros [|v b] H; simpl in *; try discriminate; auto. Qed.

Lemma tps_norank sa sb r : length sa = r -> length sb = r ->
  tensor_product_shape sa sb r = Ok (map2 Nat.mul sa sb).
Proof.
  intros Ha Hb. unfold tensor_product_shape, lead, trail. rewrite Ha, Hb, Nat.sub_diag. simpl.
  rewrite zipmul_map2 by (rewrite !rev_length; lia). rewrite map2_rev by lia. reflexivity.
Qed.

Lemma In_interleave x a : forall b, length a = length b -> (In x (interleave a b) <-> In x a \/ In x b).
Proof.
  induction a as [|u a IH]; intros [|v b] H; simpl in *; try discriminate; [tauto|].
  rewrite IH by lia. tauto.
Qed.
Lemma prodn_interleave a : forall b, length a = length b -> prodn (interleave a b) = prodn a * prodn b.
Proof. induction a as [|u a IH]; intros [|v b] H; simpl in *; try discriminate; auto. rewrite IH by lia. lia. Qed.
Lemma prodn_map2_mul a : forall b, length a = length b -> prodn (map2 Nat.mul a b) = prodn a * prodn b.
Proof. induction a as [|u a IH]; intros [|v b] H; simpl in *; try discriminate; auto. rewrite IH by lia. lia. Qed.

Lemma inb_interleave sA : forall sB oi, length sA = length sB -> inb oi (interleave sA sB) ->
  oi = interleave (evens oi) (odds oi) /\ inb (evens oi) sA /\ inb (odds oi) sB.
Proof.
  induction sA as [|a sA IH]; intros [|b sB] oi Hlen H; simpl in *; try discriminate.
  - inversion H. simpl. repeat split; constructor.
  - inversion H as [|i ? oi1 ? Hi H1]; subst. inversion H1 as [|j ? oi2 ? Hj H2]; subst.
    destruct (IH sB oi2 ltac:(lia) H2) as [E [Ha Hb]]. simpl. rewrite <- E.
    repeat split; auto; constructor; auto.
Qed.

Lemma pad_rank_id r (A : arr) : length (shp A) = r -> pad_rank r A = A.
Proof. intros H. unfold pad_rank. rewrite H, Nat.sub_diag. destruct A; reflexivity. Qed.

Theorem binary_tensor_kron2 r A B : wf r A -> wf r B -> binary_tensor r A B = Ok (kron2 A B).
Proof.
  intros [HA1 HA2] [HB1 HB2]. unfold binary_tensor.
  rewrite !pad_rank_id by auto. rewrite tps_norank by auto. cbn [bind]. unfold tensor_subscripts.
  assert (Hnd : NoDup (seq 0 r ++ seq r r)) by (rewrite <- seq_app; apply seq_NoDup).
  rewrite einsum2_nosum; auto; try (rewrite seq_length; auto).
  2:{ intros x Hx. apply In_interleave in Hx; [|rewrite !seq_length; auto]. apply in_or_app. auto. }
  2:{ intros x Hx. apply In_interleave; [rewrite !seq_length; auto|]. apply in_app_or. auto. }
  cbn [bind]. rewrite lookup_interleave_dims; auto; try (rewrite !seq_length; auto).
  unfold reshape, tabulate. cbn [dat].
  rewrite map_length, indices_length, prodn_interleave, prodn_map2_mul by lia.
  rewrite Nat.eqb_refl. f_equal. unfold kron2, tabulate. f_equal.
  rewrite <- (indices_pairs (shp A) (shp B) (fun e o => emul (aget A e) (aget B o))) by lia.
  apply map_ext_in. intros oi Hoi. apply In_indices in Hoi.
  destruct (inb_interleave (shp A) (shp B) oi ltac:(lia) Hoi) as [E [Ha Hb]].
  rewrite E at 1 2.
  rewrite gather_interleave_l, gather_interleave_r; auto;
    rewrite ?seq_length; try (apply inb_length in Ha); try (apply inb_length in Hb); lia.
Qed.

(* ------------------------------------------------------------------ associativity of the Kronecker product *)
Lemma wf_kron2 r A B : wf r A -> wf r B -> wf r (kron2 A B).
Proof.
  intros [HA1 HA2] [HB1 HB2]. unfold wf, kron2, tabulate. cbn [shp dat].
  rewrite map2_length, map_length, indices_length by lia. auto.
Qed.

Lemma inb_divmod s1 : forall s2 idx, length s1 = length s2 -> inb idx (map2 Nat.mul s1 s2) ->
  inb (map2 Nat.div idx s2) s1 /\ inb (map2 Nat.modulo idx s2) s2.
Proof.
  induction s1 as [|a s1 IH]; intros [|b s2] idx Hlen H; simpl in *; try discriminate.
  - inversion H. simpl. split; constructor.
  - inversion H as [|i ? idx' ? Hi H']; subst. simpl.
    destruct (IH s2 idx' ltac:(lia) H') as [H1 H2].
    assert (Hb : b <> 0) by (intros ->; lia).
    split; constructor; auto.
    + apply Nat.div_lt_upper_bound; auto. lia.
    + apply Nat.mod_upper_bound. auto.
Qed.

Lemma divmod_assoc i b c : b <> 0 -> c <> 0 ->
  (i / c) / b = i / (b * c) /\ (i / c) mod b = (i mod (b * c)) / c /\ i mod c = (i mod (b * c)) mod c.
Proof.
  intros Hb Hc.
  assert (E : i mod (c * b) = i mod c + c * ((i / c) mod b)) by (apply Nat.mod_mul_r; auto).
  rewrite (Nat.mul_comm b c). rewrite E. split; [apply Nat.div_div; auto|].
  pose proof (Nat.mod_upper_bound i c Hc) as Hlt.
  split.
  - replace (i mod c + c * ((i / c) mod b)) with (((i / c) mod b) * c + i mod c) by lia.
    rewrite Nat.div_add_l by exact Hc. rewrite (Nat.div_small _ _ Hlt). rewrite Nat.add_0_r. reflexivity.
  - replace (i mod c + c * ((i / c) mod b)) with (i mod c + ((i / c) mod b) * c) by lia.
    rewrite Nat.mod_add by exact Hc. rewrite (Nat.mod_small _ _ Hlt). reflexivity.
Qed.

Lemma map2_mul_assoc s1 : forall s2 s3, length s1 = length s2 -> length s2 = length s3 ->
  map2 Nat.mul (map2 Nat.mul s1 s2) s3 = map2 Nat.mul s1 (map2 Nat.mul s2 s3).
Proof.
  induction s1 as [|a s1 IH]; intros [|b s2] [|c s3] H1 H2; simpl in *; try discriminate; auto.
  rewrite IH by lia. f_equal. lia.
Qed.

Lemma divmod_assoc_lists s1 : forall s2 s3 idx, length s1 = length s2 -> length s2 = length s3 ->
  inb idx (map2 Nat.mul (map2 Nat.mul s1 s2) s3) ->
  map2 Nat.div (map2 Nat.div idx s3) s2 = map2 Nat.div idx (map2 Nat.mul s2 s3) /\
  map2 Nat.modulo (map2 Nat.div idx s3) s2 = map2 Nat.div (map2 Nat.modulo idx (map2 Nat.mul s2 s3)) s3 /\
  map2 Nat.modulo idx s3 = map2 Nat.modulo (map2 Nat.modulo idx (map2 Nat.mul s2 s3)) s3.
Proof.
  induction s1 as [|a s1 IH]; intros [|b s2] [|c s3] idx H1 H2 H; simpl in *; try discriminate.
  - inversion H. simpl. auto.
  - inversion H as [|i ? idx' ? Hi H']; subst. simpl.
    destruct (IH s2 s3 idx' ltac:(lia) ltac:(lia) H') as [E1 [E2 E3]].
    assert (Hc : c <> 0) by (intros ->; lia).
    assert (Hb : b <> 0) by (intros ->; lia).
    destruct (divmod_assoc i b c Hb Hc) as [F1 [F2 F3]].
    rewrite E1, E2, <- E3, F1, F2, <- F3. auto.
Qed.

Theorem kron2_assoc r A B C : wf r A -> wf r B -> wf r C ->
  kron2 (kron2 A B) C = kron2 A (kron2 B C).
Proof.
  intros [HA1 HA2] [HB1 HB2] [HC1 HC2].
  unfold kron2 at 1 3. cbn [shp kron2 tabulate].
  rewrite map2_mul_assoc by lia.
  apply tabulate_ext. intros idx Hidx.
  rewrite <- map2_mul_assoc in Hidx by lia.
  destruct (divmod_assoc_lists (shp A) (shp B) (shp C) idx ltac:(lia) ltac:(lia) Hidx) as [E1 [E2 E3]].
  destruct (inb_divmod (map2 Nat.mul (shp A) (shp B)) (shp C) idx) as [I1 I2]; auto.
  { rewrite map2_length; lia. }
  rewrite map2_mul_assoc in Hidx by lia.
  destruct (inb_divmod (shp A) (map2 Nat.mul (shp B) (shp C)) idx) as [J1 J2]; auto.
  { rewrite map2_length; lia. }
  unfold kron2. rewrite !aget_tabulate by auto. cbn [shp].
  rewrite E1, E2, E3. symmetry. apply emul_assoc.
Qed.

(* ------------------------------------------------------------------ the binary-tree reduction *)
Section Tree.
Variable P : arr -> Prop.
Variable g : arr -> arr -> arr.
Variable f : arr -> arr -> res arr.
Hypothesis f_g : forall a b, P a -> P b -> f a b = Ok (g a b).
Hypothesis P_g : forall a b, P a -> P b -> P (g a b).
Hypothesis g_assoc : forall a b c, P a -> P b -> P c -> g (g a b) c = g a (g b c).

Definition chain (x : arr) (l : list arr) : arr := fold_left g l x.

Lemma chain_P l : forall x, P x -> Forall P l -> P (chain x l).
Proof. induction l as [|a l IH]; intros x Hx Hl; simpl; auto. inversion Hl; subst. apply IH; auto. Qed.
Lemma chain_g l : forall x y, P x -> P y -> Forall P l -> chain (g x y) l = g x (chain y l).
Proof.
  induction l as [|a l IH]; intros x y Hx Hy Hl; simpl; auto. inversion Hl; subst.
  rewrite g_assoc by auto. apply IH; auto.
Qed.

Fixpoint pairs (l : list arr) : list arr :=
  match l with a :: b :: t => g a b :: pairs t | _ => [] end.

Lemma pair_up_pairs n : forall l, length l <= n -> Forall P l -> Nat.even (length l) = true ->
  pair_up f l = Ok (pairs l) /\ Forall P (pairs l) /\ length (pairs l) = length l / 2 /\
  forall x, P x -> chain x (pairs l) = chain x l.
Proof.
  induction n as [|n IH]; intros l Hn Hl He.
  - destruct l; simpl in *; [|lia]. repeat split; auto.
  - destruct l as [|a [|b t]]; [simpl; repeat split; auto| simpl in He; discriminate |].
    inversion Hl as [|? ? Ha Hl1]; subst. inversion Hl1 as [|? ? Hb Ht]; subst.
    destruct (IH t) as [E1 [E2 [E3 E4]]]; auto; [simpl in Hn; lia|].
    cbn [pair_up pairs]. rewrite f_g, E1 by auto. cbn [bind]. repeat split; auto.
    + cbn [length]. rewrite E3. change (S (S (length t))) with (2 + length t).
      replace (2 + length t) with (1 * 2 + length t) by lia. rewrite Nat.div_add_l by lia. lia.
    + intros x Hx. cbn [chain fold_left]. fold (chain (g x (g a b)) (pairs t)). fold (chain (g (g x a) b) t).
      rewrite E4 by auto. rewrite g_assoc by auto. reflexivity.
Qed.

Definition flat (l : list arr) : arr := chain (hd (mkArr [] []) l) (tl l).

Lemma tree_step_ok l : 2 <= length l -> Forall P l ->
  exists l', tree_step f l = Ok l' /\ Forall P l' /\ 1 <= length l' /\ 2 * length l' <= length l + 1 /\ flat l' = flat l.
Proof.
  intros Hlen Hl. unfold tree_step.
  destruct (Nat.even (length l)) eqn:Ev.
  - assert (Hbit : length l mod 2 = 0).
    { apply Nat.even_spec in Ev. destruct Ev as [k Hk]. rewrite Hk, Nat.mul_comm. apply Nat.mod_mul. lia. }
    rewrite Hbit. cbn [skipn firstn].
    destruct (pair_up_pairs (length l) l) as [E1 [E2 [E3 E4]]]; auto.
    rewrite E1. cbn [bind app]. exists (pairs l). repeat split; auto.
    + rewrite E3. apply Nat.div_le_lower_bound; lia.
    + rewrite E3. pose proof (Nat.div_mod (length l) 2 ltac:(lia)). lia.
    + destruct l as [|a [|b t]]; simpl in *; try lia.
      inversion Hl as [|? ? Ha Hl1]; subst. inversion Hl1 as [|? ? Hb Ht]; subst.
      unfold flat. cbn [hd tl pairs].
      destruct (pair_up_pairs (length t) t) as [_ [_ [_ F4]]]; auto.
      rewrite F4 by auto. reflexivity.
  - assert (Hbit : length l mod 2 = 1).
    { assert (Ho : Nat.odd (length l) = true) by (rewrite <- Nat.negb_even, Ev; reflexivity).
      apply Nat.odd_spec in Ho. destruct Ho as [k Hk]. rewrite Hk.
      rewrite Nat.add_comm, Nat.mul_comm, Nat.mod_add by lia. reflexivity. }
    rewrite Hbit. destruct l as [|a t]; [simpl in Hlen; lia|]. cbn [skipn firstn].
    inversion Hl as [|? ? Ha Ht]; subst.
    assert (Evt : Nat.even (length t) = true).
    { cbn [length] in Ev. rewrite Nat.even_succ in Ev. rewrite <- Nat.negb_odd. rewrite Ev. reflexivity. }
    destruct (pair_up_pairs (length t) t) as [E1 [E2 [E3 E4]]]; auto.
    rewrite E1. cbn [bind app]. exists (a :: pairs t). repeat split; auto.
    + cbn [length]. lia.
    + cbn [length]. rewrite E3. pose proof (Nat.div_mod (length t) 2 ltac:(lia)). lia.
    + unfold flat. cbn [hd tl]. apply E4. auto.
Qed.

Lemma tree_loop_ok fuel : forall l, 1 <= length l -> length l <= fuel + 1 -> Forall P l ->
  tree_loop fuel f l = Ok [flat l].
Proof.
  induction fuel as [|fuel IH]; intros l H1 H2 Hl.
  - destruct l as [|a [|b t]]; simpl in *; try lia. reflexivity.
  - cbn [tree_loop]. destruct (Nat.ltb_spec 1 (length l)) as [Hlt|Hge].
    + destruct (tree_step_ok l) as [l' [E [HP [Hl1 [Hl2 Hf]]]]]; auto.
      rewrite E. cbn [bind]. rewrite IH; auto; [rewrite Hf; reflexivity|lia].
    + destruct l as [|a [|b t]]; simpl in *; try lia. reflexivity.
Qed.
End Tree.

(* util.tensor of well-formed rank-r factors is the left-to-right Kronecker chain *)
Theorem tensor_is_kron_chain r F Fs : Forall (wf r) (F :: Fs) ->
  tensor r (F :: Fs) = Ok (kron_chain F Fs).
Proof.
  intros Hwf. unfold tensor.
  rewrite (tree_loop_ok (wf r) kron2 (binary_tensor r)); auto.
  - apply binary_tensor_kron2.
  - apply wf_kron2.
  - apply kron2_assoc.
  - simpl. lia.
  - simpl. lia.
Qed.

(* ------------------------------------------------------------------ entries of a Kronecker chain *)
Lemma unravel_length s : forall k, length (unravel s k) = length s.
Proof. induction s as [|d s IH]; intros k; simpl; auto. Qed.
Lemma unravel_snoc s : forall d c i, c <> 0 -> Forall (fun d => d <> 0) s ->
  unravel ((d :: s) ++ [c]) i = unravel (d :: s) (i / c) ++ [i mod c].
Proof.
  induction s as [|e s IH]; intros d c i Hc Hs.
  - cbn [app unravel prodn fold_right]. rewrite !Nat.mul_1_r, !Nat.div_1_r. reflexivity.
  - inversion Hs as [|? ? He Hs']; subst.
    assert (HP : prodn (e :: s) <> 0).
    { clear -Hs. induction Hs; simpl; [lia|]. apply Nat.neq_mul_0. auto. }
    destruct (divmod_assoc i (prodn (e :: s)) c HP Hc) as [F1 [F2 F3]].
    change ((d :: e :: s) ++ [c]) with (d :: ((e :: s) ++ [c])).
    change (unravel (d :: ((e :: s) ++ [c])) i)
      with (i / prodn ((e :: s) ++ [c]) :: unravel ((e :: s) ++ [c]) (i mod prodn ((e :: s) ++ [c]))).
    change (unravel (d :: e :: s) (i / c))
      with ((i / c) / prodn (e :: s) :: unravel (e :: s) ((i / c) mod prodn (e :: s))).
    rewrite IH by auto. rewrite prodn_app. change (prodn [c]) with (c * 1). rewrite Nat.mul_1_r.
    rewrite F1, F2, <- F3. reflexivity.
Qed.

Lemma kron_chain_snoc F Fs G : kron_chain F (Fs ++ [G]) = kron2 (kron_chain F Fs) G.
Proof. unfold kron_chain. rewrite fold_left_app. reflexivity. Qed.
Lemma wf_kron_chain r Fs : forall F, wf r F -> Forall (wf r) Fs -> wf r (kron_chain F Fs).
Proof.
  induction Fs as [|G Fs IH]; intros F HF HFs; simpl; auto.
  inversion HFs; subst. apply IH; auto. apply wf_kron2; auto.
Qed.
Lemma axis_dims_snoc a (L : list arr) (G : arr) : axis_dims a (L ++ [G]) = axis_dims a L ++ [nth a (shp G) 0].
Proof. unfold axis_dims. rewrite map_app. reflexivity. Qed.

Lemma nth_map2 {A B C} (f : A -> B -> C) da db dc l : forall m k, k < length l -> length l = length m ->
  nth k (map2 f l m) dc = f (nth k l da) (nth k m db).
Proof.
  induction l as [|x l IH]; intros [|y m] k Hk Hlen; simpl in *; try lia.
  destruct k; auto. apply IH; lia.
Qed.

Lemma nth_map_seq {B} (f : nat -> B) n k d : k < n -> nth k (map f (seq 0 n)) d = f k.
Proof.
  intros H. rewrite (nth_indep (map f (seq 0 n)) d (f 0)) by (rewrite map_length, seq_length; auto).
  rewrite map_nth, seq_nth by auto. reflexivity.
Qed.
Lemma map_nth_seq (l : list nat) : map (fun a => nth a l 0) (seq 0 (length l)) = l.
Proof.
  induction l as [|x l IH]; simpl; auto. f_equal. rewrite <- seq_shift, map_map. exact IH.
Qed.

Lemma kron_chain_shape r L : forall F, Forall (wf r) (F :: L) ->
  shp (kron_chain F L) = map (fun a => prodn (axis_dims a (F :: L))) (seq 0 r).
Proof.
  induction L as [|G L IH] using rev_ind; intros F Hwf.
  - inversion Hwf as [|? ? [H1 _] _]; subst. cbn [kron_chain fold_left].
    rewrite <- (map_nth_seq (shp F)) at 1. apply map_ext. intros a. cbn. lia.
  - rewrite kron_chain_snoc.
    assert (Hwf' : Forall (wf r) (F :: L)).
    { apply Forall_forall. intros x Hx. rewrite Forall_forall in Hwf. apply Hwf.
      destruct Hx; [left; auto|right; apply in_or_app; auto]. }
    assert (HG : wf r G) by (rewrite Forall_forall in Hwf; apply Hwf; right; apply in_or_app; right; left; auto).
    unfold kron2, tabulate. cbn [shp]. rewrite IH by auto.
    destruct HG as [HG1 _].
    apply (nth_ext _ _ 0 0).
    + rewrite map2_length; rewrite !map_length, seq_length; auto.
    + intros k Hk. rewrite map2_length in Hk by (rewrite map_length, seq_length; auto).
      rewrite map_length, seq_length in Hk.
      rewrite (nth_map2 Nat.mul 0 0 0) by (rewrite ?map_length, ?seq_length; lia).
      rewrite !nth_map_seq by lia.
      change (F :: L ++ [G]) with ((F :: L) ++ [G]). rewrite axis_dims_snoc, prodn_app. simpl. lia.
Qed.

Lemma zprod_app (l1 l2 : list T) : zprod (l1 ++ l2) = emul (zprod l1) (zprod l2).
Proof.
  unfold zprod. induction l1 as [|x l1 IH]; simpl; [symmetry; apply emul_1_l|]. rewrite IH. apply emul_assoc.
Qed.
Lemma emul_1_r (x : T) : emul x eone = x.
Proof. rewrite emul_comm. apply emul_1_l. Qed.

Theorem kron_chain_entry r L : forall F idx, Forall (wf r) (F :: L) -> inb idx (shp (kron_chain F L)) ->
  aget (kron_chain F L) idx = kron_entry r (F :: L) idx.
Proof.
  induction L as [|G L IH] using rev_ind; intros F idx Hwf Hin.
  - unfold kron_entry. cbn [length seq map zprod fold_right nth]. rewrite emul_1_r. f_equal.
    inversion Hwf as [|? ? [H1 _] _]; subst. simpl in Hin.
    assert (Hl : length idx = length (shp F)) by (apply inb_length in Hin; auto).
    unfold factor_index. rewrite <- Hl. rewrite <- (map_nth_seq idx) at 1. apply map_ext. intros a.
    cbn [axis_dims map unravel prodn fold_right nth]. rewrite Nat.div_1_r. reflexivity.
  - rewrite kron_chain_snoc in *.
    assert (Hwf' : Forall (wf r) (F :: L)).
    { apply Forall_forall. intros x Hx. rewrite Forall_forall in Hwf. apply Hwf.
      destruct Hx; [left; auto|right; apply in_or_app; auto]. }
    assert (HG : wf r G) by (rewrite Forall_forall in Hwf; apply Hwf; right; apply in_or_app; right; left; auto).
    assert (HC : wf r (kron_chain F L)) by (inversion Hwf'; subst; apply wf_kron_chain; auto).
    unfold kron2 in *. cbn [shp tabulate] in Hin.
    destruct HG as [HG1 HG2]. destruct HC as [HC1 HC2].
    destruct (inb_divmod (shp (kron_chain F L)) (shp G) idx ltac:(lia) Hin) as [I1 I2].
    rewrite aget_tabulate by auto. rewrite IH by auto.
    (* nonzero dimensions on every axis *)
    pose proof (kron_chain_shape r L F Hwf') as Hshape.
    assert (Hlen_idx : length idx = r) by (apply inb_length in Hin; rewrite map2_length in Hin; lia).
    assert (Hnz : forall a, a < r -> nth a (shp G) 0 <> 0 /\ Forall (fun d => d <> 0) (axis_dims a (F :: L))).
    { intros a Ha.
      assert (Hlt : nth a idx 0 < nth a (shp (kron_chain F L)) 0 * nth a (shp G) 0).
      { clear -Hin Ha Hlen_idx HC1 HG1. revert Hin Ha. generalize (shp (kron_chain F L)) (shp G) idx a r HC1 HG1 Hlen_idx.
        induction l as [|x l IH]; intros [|y m] [|i ix] a0 r0 H1 H2 H3 Hin Ha; simpl in *; subst; try lia; try discriminate.
        inversion Hin; subst. destruct a0; auto. eapply (IH m ix a0 (length l)); auto; lia. }
      split; [intros E; rewrite E in Hlt; lia|].
      assert (HP : prodn (axis_dims a (F :: L)) <> 0).
      { rewrite Hshape in Hlt. rewrite nth_map_seq in Hlt by lia. intros E. rewrite E in Hlt. lia. }
      clear -HP. induction (axis_dims a (F :: L)) as [|d l IHl]; [constructor|].
      simpl in HP. constructor; [intros ->; lia|]. apply IHl. intros E. rewrite E in HP. lia. }
    assert (Hfi : forall k, factor_index r ((F :: L) ++ [G]) k idx =
              map (fun a => nth k (unravel (axis_dims a (F :: L)) (nth a idx 0 / nth a (shp G) 0) ++ [nth a idx 0 mod nth a (shp G) 0]) 0) (seq 0 r)).
    { intros k. unfold factor_index. apply map_ext_in. intros a Ha. apply in_seq in Ha.
      destruct (Hnz a ltac:(lia)) as [N1 N2].
      rewrite axis_dims_snoc. cbn [axis_dims map] in *. inversion N2; subst.
      rewrite unravel_snoc by auto. reflexivity. }
    unfold kron_entry. change (F :: L ++ [G]) with ((F :: L) ++ [G]).
    set (L1 := F :: L) in *.
    rewrite app_length. change (length [G]) with 1. rewrite Nat.add_1_r, seq_S, map_app, zprod_app.
    change (0 + length L1) with (length L1). cbn [map zprod fold_right]. rewrite emul_1_r.
    assert (HlenL1 : 1 <= length L1) by (subst L1; cbn [length]; lia).
    f_equal.
    + (* the factors of the prefix chain *)
      f_equal. apply map_ext_in. intros k Hk. apply in_seq in Hk.
      rewrite app_nth1 by lia. f_equal.
      rewrite Hfi. unfold factor_index. apply map_ext_in. intros a Ha. apply in_seq in Ha.
      rewrite app_nth1 by (rewrite unravel_length; unfold axis_dims; rewrite map_length; lia).
      rewrite (nth_map2 Nat.div 0 0 0) by lia. reflexivity.
    + (* the last factor *)
      rewrite app_nth2 by lia. rewrite Nat.sub_diag. cbn [nth].
      f_equal. rewrite Hfi.
      apply (nth_ext _ _ 0 0); [rewrite map_length, seq_length, map2_length; lia|].
      intros a Ha. rewrite map2_length in Ha by lia.
      rewrite nth_map_seq by lia.
      rewrite app_nth2 by (rewrite unravel_length; unfold axis_dims; rewrite map_length; lia).
      rewrite unravel_length. unfold axis_dims at 1. rewrite map_length, Nat.sub_diag. cbn [nth].
      rewrite (nth_map2 Nat.modulo 0 0 0) by lia. reflexivity.
Qed.
End Generic.
