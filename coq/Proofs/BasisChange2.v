(* C12, part 6: change of basis of the SECOND-order part of the cumulant function.
   With L2(X) = 1/2 sum_kl Delta_kl [[C_k, C_l], X]  (K2_ij = tr(C_i L2(C_j))):
   Delta' = O Delta O^T  =>  L2' = L2  and  K2'_ij = sum_ab O_ia O_jb K2_ab.             *)
From Coq Require Import ZArith Reals Lra Lia List Setoid Morphisms.
From FF Require Import Base.Ops Inst.RInst Base.RAlg Base.FMat Model.Numeric Model.Decay Model.Cumulant
     Proofs.CMBase Proofs.BasisIndep Proofs.Trapz Proofs.Decay Proofs.TraceId Proofs.CumulantAlg Proofs.CumulantCCP
     Proofs.BasisChange.
Import ListNotations.
Local Open Scope R_scope.

Section Change2.
Variables (d n : nat) (Cb Cb' : nat -> fmat).
Hypothesis Hherm : basis_herm d n Cb.
Hypothesis Honb : basis_orthonormal d n Cb.
Hypothesis Hcomp : basis_complete d n Cb.
Hypothesis Hherm' : basis_herm d n Cb'.
Hypothesis Hcomp' : basis_complete d n Cb'.
Notation "A ** B" := (fmul d A B) (at level 40, left associativity).
Notation cm := (comm d).
Notation Om := (Omat d Cb Cb').

Definition Lgen2 (C : nat -> fmat) (D : RMr) (X : fmat) : fmat :=
  fscal (rcx (/ 2)) (fsum n (fun k => fsum n (fun l => fscal (rcx (rmget RO D k l)) (cm (cm (C k) (C l)) X)))).
Global Instance Lgen2_proper C D : Proper (feq d ==> feq d) (Lgen2 C D).
Proof.
  intros X X' HX. unfold Lgen2. apply fscal_proper. apply fsum_ext. intros k _. apply fsum_ext. intros l _.
  rewrite HX. reflexivity.
Qed.

Lemma Lgen2_wsum C D (w : nat -> Cx) (X : nat -> fmat) :
  feq d (Lgen2 C D (fsum n (fun j => fscal (w j) (X j)))) (fsum n (fun j => fscal (w j) (Lgen2 C D (X j)))).
Proof.
  unfold Lgen2.
  transitivity (fscal (rcx (/ 2)) (fsum n (fun k => fsum n (fun l => fsum n (fun j =>
     fscal (w j) (fscal (rcx (rmget RO D k l)) (cm (cm (C k) (C l)) (X j)))))))).
  { apply fscal_proper. apply fsum_ext; intros k _. apply fsum_ext; intros l _.
    rewrite (comm_wsum_r d n). rewrite (fsum_fscal d). apply fsum_ext; intros j _. apply (fscal_comm d). }
  transitivity (fscal (rcx (/ 2)) (fsum n (fun j => fsum n (fun k => fsum n (fun l =>
     fscal (w j) (fscal (rcx (rmget RO D k l)) (cm (cm (C k) (C l)) (X j)))))))).
  { apply fscal_proper.
    rewrite (fsum_ext d n (fun k => fsum n (fun l => fsum n (fun j =>
               fscal (w j) (fscal (rcx (rmget RO D k l)) (cm (cm (C k) (C l)) (X j))))))
             (fun k => fsum n (fun j => fsum n (fun l =>
               fscal (w j) (fscal (rcx (rmget RO D k l)) (cm (cm (C k) (C l)) (X j)))))))
      by (intros; apply (fsum_swap d)).
    apply (fsum_swap d). }
  rewrite (fsum_fscal d). apply fsum_ext; intros j _.
  rewrite (fscal_comm d). apply fscal_proper.
  rewrite (fsum_fscal d). apply fsum_ext; intros k _. rewrite (fsum_fscal d). reflexivity.
Qed.

(* K2_ij = tr( C_i L2(C_j) ) *)
Lemma K2_as_Lgen2 C D i j : K2_entry RO n (T4 d C) D i j = ftr d (C i ** Lgen2 C D (C j)).
Proof.
  rewrite K2_commutator_form. unfold Lgen2.
  rewrite fmul_fscal_r, ftr_fscal.
  assert (E : ftr d (C i ** fsum n (fun k => fsum n (fun l => fscal (rcx (rmget RO D k l)) (cm (cm (C k) (C l)) (C j))))) =
              contract RO n D (fun k l => ftr d (C i ** cm (cm (C k) (C l)) (C j)))).
  { rewrite fmul_fsum_r, ftr_fsum. unfold contract. apply csumn_ext. intros k _.
    rewrite fmul_fsum_r, ftr_fsum. apply csumn_ext. intros l _.
    rewrite fmul_fscal_r, ftr_fscal. unfold rcx. apply c_eq; csimp; ring. }
  rewrite E. unfold half, rcx. generalize (contract RO n D (fun k l => ftr d (C i ** cm (cm (C k) (C l)) (C j)))).
  intros [x y]. apply c_eq; csimp; field.
Qed.

(* [[C'_k, C'_l], X] expanded in the old basis *)
Lemma comm_comm_new k l X : (k < n)%nat -> (l < n)%nat ->
  feq d (cm (cm (Cb' k) (Cb' l)) X)
        (fsum n (fun p => fsum n (fun q => fscal (cmul' (rcx (Om k p)) (rcx (Om l q))) (cm (cm (Cb p) (Cb q)) X)))).
Proof.
  intros Hk Hl.
  rewrite (new_basis_expansion d n Cb Cb' Hherm Hcomp Hherm' k Hk) at 1. rewrite (comm_wsum_l d n).
  rewrite (comm_wsum_l d n). apply fsum_ext; intros p _.
  rewrite (new_basis_expansion d n Cb Cb' Hherm Hcomp Hherm' l Hl) at 1. rewrite (comm_wsum_r d n).
  rewrite (comm_wsum_l d n). rewrite (fsum_fscal d). apply fsum_ext; intros q _.
  rewrite (fscal_fscal' d). reflexivity.
Qed.

Variables (D D' : RMr).
Hypothesis HD' : forall k l, (k < n)%nat -> (l < n)%nat ->
  rmget RO D' k l = sumn' n (fun m => sumn' n (fun p => Om k m * Om l p * rmget RO D m p)).

Theorem Lgen2_basis_independent X : feq d (Lgen2 Cb' D' X) (Lgen2 Cb D X).
Proof.
  unfold Lgen2. apply fscal_proper.
  intros a b Ha Hb. unfold fsum, fscal.
  transitivity (csumn' n (fun k => csumn' n (fun l => csumn' n (fun p => csumn' n (fun q =>
     cmul' (rcx (rmget RO D' k l * (Om k p * Om l q))) (cm (cm (Cb p) (Cb q)) X a b)))))).
  { apply csumn_ext; intros k Hk. apply csumn_ext; intros l Hl.
    rewrite (comm_comm_new k l X Hk Hl a b Ha Hb). unfold fsum, fscal.
    rewrite <- csumn_mul_l. apply csumn_ext; intros p _. rewrite <- csumn_mul_l. apply csumn_ext; intros q _.
    rewrite !rcx_mul. ring. }
  transitivity (csumn' n (fun p => csumn' n (fun q => csumn' n (fun k => csumn' n (fun l =>
     cmul' (rcx (rmget RO D' k l * (Om k p * Om l q))) (cm (cm (Cb p) (Cb q)) X a b)))))).
  { rewrite (csumn_ext n _ (fun k => csumn' n (fun p => csumn' n (fun l => csumn' n (fun q =>
       cmul' (rcx (rmget RO D' k l * (Om k p * Om l q))) (cm (cm (Cb p) (Cb q)) X a b))))))
      by (intros; apply csumn_swap).
    rewrite csumn_swap. apply csumn_ext; intros p _.
    rewrite (csumn_ext n _ (fun k => csumn' n (fun q => csumn' n (fun l =>
       cmul' (rcx (rmget RO D' k l * (Om k p * Om l q))) (cm (cm (Cb p) (Cb q)) X a b)))))
      by (intros; apply csumn_swap).
    apply csumn_swap. }
  apply csumn_ext; intros p Hp. apply csumn_ext; intros q Hq.
  rewrite <- (OtGO d n Cb Cb' Hherm Honb Hherm' Hcomp' D D' HD' p q Hp Hq).
  rewrite rcx_sumn. rewrite <- csumn_mul_r. apply csumn_ext; intros k _.
  rewrite rcx_sumn. rewrite <- csumn_mul_r. reflexivity.
Qed.

(* second-order part: K2'_ij = sum_ab O_ia O_jb K2_ab *)
Theorem K2_change_of_basis i j : (i < n)%nat -> (j < n)%nat ->
  K2_entry RO n (T4 d Cb') D' i j =
  csumn' n (fun a => csumn' n (fun b => cmul' (cmul' (rcx (Om i a)) (rcx (Om j b))) (K2_entry RO n (T4 d Cb) D a b))).
Proof.
  intros Hi Hj. rewrite (K2_as_Lgen2 Cb' D').
  rewrite (Lgen2_basis_independent (Cb' j)).
  rewrite (new_basis_expansion d n Cb Cb' Hherm Hcomp Hherm' j Hj) at 1. rewrite (Lgen2_wsum Cb D).
  rewrite (new_basis_expansion d n Cb Cb' Hherm Hcomp Hherm' i Hi) at 1.
  rewrite fmul_fsum_l, ftr_fsum. apply csumn_ext; intros a _.
  rewrite fmul_fscal_l, ftr_fscal.
  rewrite (ftr_mul_wsum d n (Cb a) (fun b => rcx (Om j b)) (fun b => Lgen2 Cb D (Cb b))).
  rewrite <- csumn_mul_l. apply csumn_ext; intros b _. rewrite (K2_as_Lgen2 Cb D). ring.
Qed.

End Change2.
