(* The concrete Pauli matrices and normalisation 1/sqrt(2^n) satisfy the hypotheses of Proofs/PauliProd.v. *)
From Coq Require Import String ZArith Reals List Lra Lia Arith Bool.
From FF Require Import Base.Ops Inst.RInst Base.RAlg Spec.Kron2 Spec.DigitPerm Model.Numeric Proofs.Remap Proofs.PauliProd.
Import ListNotations.
Local Open Scope nat_scope.

Definition mI : Cx := (0%R, 1%R).
Definition sigmaP (a : nat) : fmat := fun i j =>
  match a, i, j with
  | 0, 0, 0 | 0, 1, 1 => 1c
  | 1, 0, 1 | 1, 1, 0 => 1c
  | 2, 0, 1 => (0%R, (-1)%R) | 2, 1, 0 => mI
  | 3, 0, 0 => 1c | 3, 1, 1 => ((-1)%R, 0%R)
  | _, _, _ => 0c
  end.
Definition nrmP (n : nat) : Cx := cofr RO (Rinv (sqrt (INR (2 ^ n)))).

Lemma sigmaP0 : feq 2 (sigmaP 0) fid.
Proof. intros i j Hi Hj. destruct i as [|[|i]]; try lia; destruct j as [|[|j]]; try lia; reflexivity. Qed.
Lemma sigmaP_orth a b : a < 4 -> b < 4 ->
  ftr 2 (fmul 2 (fadj (sigmaP a)) (sigmaP b)) = if Nat.eqb a b then (2%R, 0%R) else 0c.
Proof.
  intros Ha Hb. destruct a as [|[|[|[|a]]]]; try lia; destruct b as [|[|[|[|b]]]]; try lia;
    unfold ftr, fmul, fadj; simpl; apply c_eq; simpl; ring.
Qed.
Lemma pow2_pos n : (0 < INR (2 ^ n))%R.
Proof. apply lt_0_INR. apply pow_pos. lia. Qed.
Lemma nrmP_mult m r : nrmP (m + r) = cmul' (nrmP m) (nrmP r).
Proof.
  unfold nrmP. rewrite Nat.pow_add_r, mult_INR. rewrite sqrt_mult by (apply Rlt_le, pow2_pos).
  pose proof (sqrt_lt_R0 _ (pow2_pos m)). pose proof (sqrt_lt_R0 _ (pow2_pos r)).
  apply c_eq; csimp; field; split; lra.
Qed.
Lemma nrmP_norm n : cmul' (cmul' (cconj' (nrmP n)) (nrmP n)) (cofr RO (INR (2 ^ n))) = 1c.
Proof.
  unfold nrmP. pose proof (pow2_pos n) as P. pose proof (sqrt_lt_R0 _ P) as S.
  pose proof (sqrt_sqrt _ (Rlt_le _ _ P)) as E.
  apply c_eq; csimp; [|ring].
  replace (/ sqrt (INR (2 ^ n)) * / sqrt (INR (2 ^ n)) - - 0 * 0)%R with (/ (sqrt (INR (2 ^ n)) * sqrt (INR (2 ^ n))))%R
    by (field; lra).
  rewrite E. field. lra.
Qed.

(* consequently: product structure, first element and orthonormality of the concrete Pauli basis, every n *)
Theorem pauliP_product m r basis : basis_is_pauli sigmaP nrmP (m + r) basis -> forall k l, k < 4 ^ m -> l < 4 ^ r ->
  ExtendKron.krel (2 ^ m) (2 ^ r) (nthm (pauli_list sigmaP nrmP m) k) (nthm (pauli_list sigmaP nrmP r) l) (nthm basis (k * 4 ^ r + l)).
Proof. apply pauli_product_krel. apply nrmP_mult. Qed.
Theorem pauliP_onb n l m : l < 4 ^ n -> m < 4 ^ n ->
  mtrprod RO (2 ^ n) (madj RO (2 ^ n) (nthm (pauli_list sigmaP nrmP n) l)) (nthm (pauli_list sigmaP nrmP n) m)
  = if Nat.eqb l m then 1c else 0c.
Proof. apply pauli_list_onb. apply sigmaP_orth. apply nrmP_norm. Qed.
Theorem pauliP_first n : feq (2 ^ n) (toF (nthm (pauli_list sigmaP nrmP n) 0)) (fscal (cofr RO (Rinv (sqrt (INR (2 ^ n))))) fid).
Proof.
  destruct (pauli_list_is_pauli sigmaP nrmP n) as [_ HB].
  eapply feq_trans. apply HB. apply pow_pos; lia. apply (pauli_el_first sigmaP nrmP sigmaP0 n).
Qed.
